import SimbodyModel.Mobilizer
import SimbodyProofs.MobilizerLemmas

/-!
# C05 — built-in mobilizers realise their documented parameterisation

For every built-in type: the coded `calcX_FM` (`T.X`, mirrors `RigidBodyNodeSpec_<T>.h`) equals the documented
definition (`T.docX`, written from `MobilizedBody_<T>.h`: elementary axis–angle rotations, "rotate then slide",
Hamilton sandwich `e v e*`, …); its rotation part is a proper rotation; the generalized speeds have the documented
meaning (`speeds_meaning`: when the coordinates move with `q̇ = N(q) u` the documented pose moves rigidly with the
spatial velocity `H u`, and `H u` has the documented reading); a reversed mobilizer realises the inverse motion;
the algebraic fitting routines reproduce what they are fitted to.

Angles are trig pairs (`Trig c s : c² + s² = 1`); derivatives are jets with the lifts `ċ = −s q̇`, `ṡ = c q̇`.
`K` is any field (characteristic 0 where a quaternion's `/2` occurs).
-/
namespace Mobilizer
variable {K : Type} [Field K]

/-! ## Reversal (all types): `realizePosition` stores the inverse transform -/

/-- a reversed mobilizer produces the inverse relative motion for the same coordinates -/
theorem reverse_is_inverse (X0 : Xf K) (h : IsRot X0.R) :
    Xf.mul (realizeX true X0) (realizeX false X0) = Xf.one ∧
    Xf.mul (realizeX false X0) (realizeX true X0) = Xf.one := by
  simp only [realizeX, if_true, Bool.false_eq_true, if_false]
  exact ⟨Xf.inv_mul_self h, Xf.mul_inv_self h⟩

/-- reversing twice gives back the transform (`findX_F0M0` of a reversed node) -/
theorem findX_F0M0_realizeX (rev : Bool) (X0 : Xf K) (h : IsRot X0.R) :
    findX_F0M0 rev (realizeX rev X0) = X0 := by
  cases rev
  · simp [findX_F0M0, realizeX]
  · simp only [findX_F0M0, realizeX, if_true]
    obtain ⟨R, p⟩ := X0
    simp only [Xf.inv, M33.tr_tr, Xf.mk.injEq, true_and]
    have e : R.mulVec (V3.neg (R.tr.mulVec p)) = V3.neg (R.mulVec (R.tr.mulVec p)) := by mob_unfold; ring_all
    rw [e, h.mulVec_mulVec_tr]; obtain ⟨x, y, z⟩ := p; mob_unfold; ring_all

/-! ## Documented elementary rotations are proper rotations -/

theorem rotAxis_ex_isRot {c s : K} (h : Trig c s) : IsRot (rotAxis V3.ex c s) := rotAxis_ex c s ▸ rotX_isRot h
theorem rotAxis_ey_isRot {c s : K} (h : Trig c s) : IsRot (rotAxis V3.ey c s) := rotAxis_ey c s ▸ rotY_isRot h
theorem rotAxis_ez_isRot {c s : K} (h : Trig c s) : IsRot (rotAxis V3.ez c s) := rotAxis_ez c s ▸ rotZ_isRot h

/-! ## Pin -/
theorem Pin.code_eq_doc (c s : K) : Pin.X c s = Pin.docX c s := by
  simp only [Pin.X, Pin.docX, rotAxis_ez]
theorem Pin.X_isRot {c s : K} (h : Trig c s) : IsRot (Pin.X c s).R := rotZ_isRot h
/-- `u` is the rotation rate about the common z axis, `q̇ = u` -/
theorem Pin.speeds_meaning (c s u : K) :
    IsRigidVel (Pin.docX (Jet.cosL c s u) (Jet.sinL c s u)) (Hmul Pin.H [u]) ∧
    Hmul Pin.H [u] = ⟨⟨0, 0, u⟩, V3.zero⟩ := by
  simp only [IsRigidVel, Pin.docX, Pin.H, rotAxis]; mob_unfold; ring_all
theorem Pin.fitU_roundtrip (u : K) : Pin.fitU (Hmul Pin.H [u]) = [u] := by
  simp only [Pin.fitU, Pin.H]; mob_unfold; ring_all
theorem Pin.reverse_is_inverse {c s : K} (h : Trig c s) :
    Xf.mul (realizeX true (Pin.X c s)) (realizeX false (Pin.X c s)) = Xf.one :=
  (Mobilizer.reverse_is_inverse _ (Pin.X_isRot h)).1

/-! ## Slider -/
theorem Slider.code_eq_doc (q : K) : Slider.X q = Slider.docX q := by
  simp only [Slider.X, Slider.docX]; mob_unfold; ring_all
theorem Slider.X_isRot (q : K) : IsRot (Slider.X q).R := IsRot.one
/-- `u` is the translation rate along the common x axis -/
theorem Slider.speeds_meaning (q u : K) :
    IsRigidVel (Slider.docX (Jet.var q u)) (Hmul Slider.H [u]) ∧ Hmul Slider.H [u] = ⟨V3.zero, ⟨u, 0, 0⟩⟩ := by
  simp only [IsRigidVel, Slider.docX, Slider.H]; mob_unfold; ring_all
theorem Slider.fitQ_roundtrip (q : K) : Slider.fitQ (Slider.X q) = q := rfl
theorem Slider.fitU_roundtrip (u : K) : Slider.fitU (Hmul Slider.H [u]) = [u] := by
  simp only [Slider.fitU, Slider.H]; mob_unfold; ring_all

/-! ## Cylinder -/
theorem Cylinder.code_eq_doc (c s q1 : K) : Cylinder.X c s q1 = Cylinder.docX c s q1 := by
  simp only [Cylinder.X, Cylinder.docX, rotAxis_ez]; mob_unfold; ring_all
theorem Cylinder.X_isRot {c s : K} (h : Trig c s) (q1 : K) : IsRot (Cylinder.X c s q1).R := rotZ_isRot h
theorem Cylinder.speeds_meaning (c s q1 u0 u1 : K) :
    IsRigidVel (Cylinder.docX (Jet.cosL c s u0) (Jet.sinL c s u0) (Jet.var q1 u1)) (Hmul Cylinder.H [u0, u1]) ∧
    Hmul Cylinder.H [u0, u1] = ⟨⟨0, 0, u0⟩, ⟨0, 0, u1⟩⟩ := by
  simp only [IsRigidVel, Cylinder.docX, Cylinder.H, rotAxis]; mob_unfold; ring_all
theorem Cylinder.fitU_roundtrip (u0 u1 : K) : Cylinder.fitU (Hmul Cylinder.H [u0, u1]) = [u0, u1] := by
  simp only [Cylinder.fitU, Cylinder.H]; mob_unfold; ring_all

/-! ## Screw -/
theorem Screw.code_eq_doc (pitch c s q : K) : Screw.X pitch c s q = Screw.docX pitch c s q := by
  simp only [Screw.X, Screw.docX, rotAxis_ez]; mob_unfold; ring_all
theorem Screw.X_isRot {c s : K} (h : Trig c s) (pitch q : K) : IsRot (Screw.X pitch c s q).R := rotZ_isRot h
/-- `u` is the rotation rate; the translation rate is `pitch·u` -/
theorem Screw.speeds_meaning (pitch c s q u : K) :
    IsRigidVel (Screw.docX (Jet.const pitch) (Jet.cosL c s u) (Jet.sinL c s u) (Jet.var q u)) (Hmul (Screw.H pitch) [u]) ∧
    Hmul (Screw.H pitch) [u] = ⟨⟨0, 0, u⟩, ⟨0, 0, pitch * u⟩⟩ := by
  simp only [IsRigidVel, Screw.docX, Screw.H, rotAxis]; mob_unfold; ring_all

/-! ## Translation -/
theorem Translation.code_eq_doc (q : V3 K) : Translation.X q = Translation.docX q := by
  obtain ⟨x, y, z⟩ := q; simp only [Translation.X, Translation.docX]; mob_unfold; ring_all
theorem Translation.X_isRot (q : V3 K) : IsRot (Translation.X q).R := IsRot.one
/-- `u = v_FM`, the velocity of `Mo` in `F` -/
theorem Translation.speeds_meaning (q u : V3 K) :
    IsRigidVel (Translation.docX (V3.var q u)) (Hmul Translation.H [u.x, u.y, u.z]) ∧
    Hmul Translation.H [u.x, u.y, u.z] = ⟨V3.zero, u⟩ := by
  obtain ⟨x, y, z⟩ := q; obtain ⟨a, b, c⟩ := u
  simp only [IsRigidVel, Translation.docX, Translation.H]; mob_unfold; ring_all
theorem Translation.fitQ_roundtrip (q : V3 K) : Translation.fitQ (Translation.X q) = q := rfl
theorem Translation.fitU_roundtrip (u0 u1 u2 : K) :
    Translation.fitU (Hmul Translation.H [u0, u1, u2]) = [u0, u1, u2] := by
  simp only [Translation.fitU, Translation.H]; mob_unfold; ring_all

/-! ## Planar -/
theorem Planar.code_eq_doc (c s x y : K) : Planar.X c s x y = Planar.docX c s x y := by
  simp only [Planar.X, Planar.docX, rotAxis_ez]; mob_unfold; ring_all
theorem Planar.X_isRot {c s : K} (h : Trig c s) (x y : K) : IsRot (Planar.X c s x y).R := rotZ_isRot h
theorem Planar.speeds_meaning (c s x y u0 u1 u2 : K) :
    IsRigidVel (Planar.docX (Jet.cosL c s u0) (Jet.sinL c s u0) (Jet.var x u1) (Jet.var y u2)) (Hmul Planar.H [u0, u1, u2]) ∧
    Hmul Planar.H [u0, u1, u2] = ⟨⟨0, 0, u0⟩, ⟨u1, u2, 0⟩⟩ := by
  simp only [IsRigidVel, Planar.docX, Planar.H, rotAxis]; mob_unfold; ring_all
theorem Planar.fitU_roundtrip (u0 u1 u2 : K) : Planar.fitU (Hmul Planar.H [u0, u1, u2]) = [u0, u1, u2] := by
  simp only [Planar.fitU, Planar.H]; mob_unfold; ring_all

/-! ## BendStretch -/
theorem BendStretch.code_eq_doc (c s r : K) : BendStretch.X c s r = BendStretch.docX c s r := by
  simp only [BendStretch.X, BendStretch.docX, rotAxis_ez, rotZ]; mob_unfold; ring_all
theorem BendStretch.X_isRot {c s : K} (h : Trig c s) (r : K) : IsRot (BendStretch.X c s r).R := rotZ_isRot h
/-- `u₀` rotation rate about z, `u₁` sliding rate along M's *current* x axis -/
theorem BendStretch.speeds_meaning (c s r u0 u1 : K) :
    IsRigidVel (BendStretch.docX (Jet.cosL c s u0) (Jet.sinL c s u0) (Jet.var r u1))
      (Hmul (BendStretch.H (BendStretch.X c s r)) [u0, u1]) ∧
    Hmul (BendStretch.H (BendStretch.X c s r)) [u0, u1]
      = ⟨⟨0, 0, u0⟩, V3.add (V3.cross ⟨0, 0, u0⟩ (BendStretch.X c s r).p) (V3.smul u1 (BendStretch.X c s r).R.col0)⟩ := by
  simp only [IsRigidVel, BendStretch.docX, BendStretch.H, BendStretch.X, rotAxis, rotZ]; mob_unfold; ring_all

/-! ## Universal -/
theorem Universal.code_eq_doc (c0 s0 c1 s1 : K) : Universal.X c0 s0 c1 s1 = Universal.docX c0 s0 c1 s1 := by
  simp only [Universal.X, Universal.docX, rotAxis_ex, rotAxis_ey, rotX, rotY, rotXY]; mob_unfold; ring_all
theorem Universal.X_isRot {c0 s0 c1 s1 : K} (h0 : Trig c0 s0) (h1 : Trig c1 s1) : IsRot (Universal.X c0 s0 c1 s1).R := by
  rw [Universal.code_eq_doc]; exact (rotAxis_ex_isRot h0).mul (rotAxis_ey_isRot h1)
/-- `u = q̇`: rotation rate about Fx, then about the current My -/
theorem Universal.speeds_meaning {c0 s0 : K} (h0 : Trig c0 s0) (c1 s1 u0 u1 : K) :
    IsRigidVel (Universal.docX (Jet.cosL c0 s0 u0) (Jet.sinL c0 s0 u0) (Jet.cosL c1 s1 u1) (Jet.sinL c1 s1 u1))
      (Hmul (Universal.H (Universal.X c0 s0 c1 s1)) [u0, u1]) ∧
    Hmul (Universal.H (Universal.X c0 s0 c1 s1)) [u0, u1]
      = ⟨V3.add (V3.smul u0 V3.ex) (V3.smul u1 (Universal.X c0 s0 c1 s1).R.col1), V3.zero⟩ := by
  have e0 := h0.sq
  simp only [IsRigidVel, Universal.docX, Universal.H, Universal.X, rotAxis, rotXY]; mob_unfold
  repeat' apply And.intro
  all_goals trig_ring [e0]
theorem Universal.fitU_roundtrip {c0 s0 : K} (h0 : Trig c0 s0) (c1 s1 u0 u1 : K) :
    Universal.fitU (Universal.X c0 s0 c1 s1) (Hmul (Universal.H (Universal.X c0 s0 c1 s1)) [u0, u1]) = [u0, u1] := by
  have e0 := h0.sq
  simp only [Universal.fitU, Universal.H, Universal.X, rotXY]; mob_unfold
  repeat' apply And.intro
  all_goals trig_ring [e0]

/-! ## Gimbal / Bushing (body-fixed x-y-z) -/
theorem rotXYZ_eq_doc (c0 c1 c2 s0 s1 s2 : K) : rotXYZ c0 c1 c2 s0 s1 s2 = Gimbal.docR c0 c1 c2 s0 s1 s2 := by
  simp only [Gimbal.docR, rotAxis_ex, rotAxis_ey, rotAxis_ez, rotX, rotY, rotZ, rotXYZ]; mob_unfold; ring_all
theorem docR_isRot {c0 c1 c2 s0 s1 s2 : K} (h0 : Trig c0 s0) (h1 : Trig c1 s1) (h2 : Trig c2 s2) :
    IsRot (Gimbal.docR c0 c1 c2 s0 s1 s2) :=
  ((rotAxis_ex_isRot h0).mul (rotAxis_ey_isRot h1)).mul (rotAxis_ez_isRot h2)
theorem rotXYZ_isRot {c0 c1 c2 s0 s1 s2 : K} (h0 : Trig c0 s0) (h1 : Trig c1 s1) (h2 : Trig c2 s2) :
    IsRot (rotXYZ c0 c1 c2 s0 s1 s2) := rotXYZ_eq_doc c0 c1 c2 s0 s1 s2 ▸ docR_isRot h0 h1 h2

theorem Gimbal.code_eq_doc (c0 c1 c2 s0 s1 s2 : K) : Gimbal.X c0 c1 c2 s0 s1 s2 = Gimbal.docX c0 c1 c2 s0 s1 s2 := by
  simp only [Gimbal.X, Gimbal.docX, rotXYZ_eq_doc]
theorem Gimbal.X_isRot {c0 c1 c2 s0 s1 s2 : K} (h0 : Trig c0 s0) (h1 : Trig c1 s1) (h2 : Trig c2 s2) :
    IsRot (Gimbal.X c0 c1 c2 s0 s1 s2).R := rotXYZ_isRot h0 h1 h2

/-- the jet of the documented x-y-z rotation when the angles move with rates `qd` -/
def docRJet (c0 c1 c2 s0 s1 s2 : K) (qd : V3 K) : M33 (Jet K) :=
  Gimbal.docR (Jet.cosL c0 s0 qd.x) (Jet.cosL c1 s1 qd.y) (Jet.cosL c2 s2 qd.z)
              (Jet.sinL c0 s0 qd.x) (Jet.sinL c1 s1 qd.y) (Jet.sinL c2 s2 qd.z)

/-- core Euler-angle kinematics: with angle rates `qd` the documented rotation turns with
`ω = NInv_P(q)·qd` (= `Σ qdᵢ · Hwᵢ`) -/
theorem docR_turns {c0 c1 c2 s0 s1 s2 : K} (h0 : Trig c0 s0) (h1 : Trig c1 s1) (qd : V3 K) :
    Turns (docRJet c0 c1 c2 s0 s1 s2 qd) (bodyXYZ_NInv_P c0 s0 c1 s1 qd) := by
  have t01 := (rotAxis_ex_turns c0 s0 qd.x).mul (rotAxis_ey_turns c1 s1 qd.y) (by rw [rotAxis_ex_re]; exact rotAxis_ex_isRot h0)
  have t012 := t01.mul (rotAxis_ez_turns c2 s2 qd.z)
    (by rw [M33.mul_re, rotAxis_ex_re, rotAxis_ey_re]; exact (rotAxis_ex_isRot h0).mul (rotAxis_ey_isRot h1))
  have ew : V3.add (V3.add (V3.smul qd.x V3.ex) ((rotAxis V3.ex (Jet.cosL c0 s0 qd.x) (Jet.sinL c0 s0 qd.x)).re.mulVec (V3.smul qd.y V3.ey)))
        ((M33.mul (rotAxis V3.ex (Jet.cosL c0 s0 qd.x) (Jet.sinL c0 s0 qd.x)) (rotAxis V3.ey (Jet.cosL c1 s1 qd.y) (Jet.sinL c1 s1 qd.y))).re.mulVec
          (V3.smul qd.z V3.ez)) = bodyXYZ_NInv_P c0 s0 c1 s1 qd := by
    rw [M33.mul_re, rotAxis_ex_re, rotAxis_ey_re, rotAxis_ex, rotAxis_ey]
    simp only [rotX, rotY, bodyXYZ_NInv_P]; mob_unfold; ring_all
  rw [ew] at t012
  exact t012
theorem docRJet_re (c0 c1 c2 s0 s1 s2 : K) (qd : V3 K) :
    (docRJet c0 c1 c2 s0 s1 s2 qd).re = Gimbal.docR c0 c1 c2 s0 s1 s2 := by
  simp only [docRJet, Gimbal.docR, rotAxis]; mob_unfold

/-- `u = q̇` (Euler angle rates); `H u` is the resulting angular velocity of M in F, expressed in F -/
theorem Gimbal.speeds_meaning {c0 c1 c2 s0 s1 s2 : K} (h0 : Trig c0 s0) (h1 : Trig c1 s1) (u : V3 K) :
    IsRigidVel ⟨docRJet c0 c1 c2 s0 s1 s2 u, V3.const V3.zero⟩ (Hmul (Gimbal.H c0 c1 s0 s1) [u.x, u.y, u.z]) ∧
    Hmul (Gimbal.H c0 c1 s0 s1) [u.x, u.y, u.z] = ⟨bodyXYZ_NInv_P c0 s0 c1 s1 u, V3.zero⟩ := by
  have hv : Hmul (Gimbal.H c0 c1 s0 s1) [u.x, u.y, u.z] = ⟨bodyXYZ_NInv_P c0 s0 c1 s1 u, V3.zero⟩ := by
    simp only [Gimbal.H, Gimbal.Hw, bodyXYZ_NInv_P]; mob_unfold; ring_all
  refine ⟨?_, hv⟩
  rw [hv]
  refine ⟨?_, ?_⟩
  · have t := docR_turns (c2 := c2) (s2 := s2) h0 h1 u; unfold Turns at t; simp only [t, docRJet_re]
  · mob_unfold
theorem Gimbal.fitU_roundtrip {c0 c1 s0 s1 ooc1 : K} (h0 : Trig c0 s0) (h1 : Trig c1 s1) (hc : ooc1 * c1 = 1) (u0 u1 u2 : K) :
    Gimbal.fitU c0 s0 s1 ooc1 (Hmul (Gimbal.H c0 c1 s0 s1) [u0, u1, u2]) = [u0, u1, u2] := by
  have e0 := h0.sq; have e1 := h1.sq
  have hc1 : c1 ≠ 0 := fun h => by rw [h, mul_zero] at hc; exact zero_ne_one hc
  have ho : ooc1 = 1 / c1 := by field_simp; linear_combination hc
  subst ho
  simp only [Gimbal.fitU, Gimbal.H, Gimbal.Hw, bodyXYZ_N_P]; mob_unfold
  repeat' apply And.intro
  all_goals (field_simp; trig_ring [e0, e1])

theorem Bushing.code_eq_doc (c0 c1 c2 s0 s1 s2 : K) (p : V3 K) :
    Bushing.X c0 c1 c2 s0 s1 s2 p = Bushing.docX c0 c1 c2 s0 s1 s2 p := by
  obtain ⟨x, y, z⟩ := p
  simp only [Bushing.X, Bushing.docX, rotXYZ_eq_doc, Xf.mul, M33.one_mul, Xf.mk.injEq, true_and]; mob_unfold; ring_all
theorem Bushing.X_isRot {c0 c1 c2 s0 s1 s2 : K} (h0 : Trig c0 s0) (h1 : Trig c1 s1) (h2 : Trig c2 s2) (p : V3 K) :
    IsRot (Bushing.X c0 c1 c2 s0 s1 s2 p).R := rotXYZ_isRot h0 h1 h2
/-- `u = (q̇x, q̇y, q̇z, vx, vy, vz)`: Euler rates and the velocity of `Mo` in F -/
theorem Bushing.speeds_meaning {c0 c1 c2 s0 s1 s2 : K} (h0 : Trig c0 s0) (h1 : Trig c1 s1) (p u v : V3 K) :
    IsRigidVel ⟨docRJet c0 c1 c2 s0 s1 s2 u, V3.var p v⟩ (Hmul (Bushing.H c0 c1 s0 s1) [u.x, u.y, u.z, v.x, v.y, v.z]) ∧
    Hmul (Bushing.H c0 c1 s0 s1) [u.x, u.y, u.z, v.x, v.y, v.z] = ⟨bodyXYZ_NInv_P c0 s0 c1 s1 u, v⟩ := by
  have hv : Hmul (Bushing.H c0 c1 s0 s1) [u.x, u.y, u.z, v.x, v.y, v.z] = ⟨bodyXYZ_NInv_P c0 s0 c1 s1 u, v⟩ := by
    obtain ⟨a, b, d⟩ := v
    simp only [Bushing.H, Gimbal.H, Gimbal.Hw, bodyXYZ_NInv_P]; mob_unfold; ring_all
  refine ⟨?_, hv⟩
  rw [hv]
  refine ⟨?_, ?_⟩
  · have t := docR_turns (c2 := c2) (s2 := s2) h0 h1 u; unfold Turns at t; simp only [t, docRJet_re]
  · obtain ⟨a, b, d⟩ := v; mob_unfold

/-! ## Ball / Free -/
section Quat
variable [CharZero K]

omit [CharZero K] in
/-- the coded normalise-then-`setRotationFromQuaternion` is the documented rotation `v ↦ e v e*`, `e = q/|q|` -/
theorem Ball.code_eq_doc_quat (q : Q4 K) (oon : K) : Ball.Xq q oon = Ball.docXq q oon := by
  simp only [Ball.Xq, Ball.docXq, Ball.docRq, rotQuat]; mob_unfold; ring_all
theorem Ball.Xq_isRot (q : Q4 K) (oon : K) (h : oon * oon * Q4.normSq q = 1) : IsRot (Ball.Xq q oon).R := by
  apply rotQuat_isRot
  simp only [Q4.normSq, Q4.smul] at h ⊢; linear_combination h
omit [CharZero K] in
theorem Ball.code_eq_doc_euler (c0 c1 c2 s0 s1 s2 : K) : Ball.Xe c0 c1 c2 s0 s1 s2 = Gimbal.docX c0 c1 c2 s0 s1 s2 :=
  Gimbal.code_eq_doc c0 c1 c2 s0 s1 s2

/-- quaternion kinematics: with `q̇ = N(q) ω` (`calcUnnormalizedNForQuaternion`) the rotation of the (possibly
unnormalised) quaternion turns with angular velocity `ω` expressed in F — for *every* `q` (no unit-norm needed) -/
theorem rotQuat_jet (e : Q4 K) (w : V3 K) :
    (rotQuat (Q4.var e (quat_N e w))).eps = M33.mul (M33.crossMat w) (rotQuat e) := by
  simp only [rotQuat, quat_N]; mob_unfold; ring_all

/-- `u = ω_FM` expressed in F (quaternion mode; `q` need not be normalised: the code normalises before rotating,
`oon` is lifted as `1/√(q·q)`) -/
theorem Ball.speeds_meaning_quat (q : Q4 K) (r : K) (w : V3 K) :
    IsRigidVel (Ball.docXq (Q4.var q (quat_N q w)) (Jet.invSqrtL (Q4.normSq (Q4.var q (quat_N q w))) r))
      (Hmul Ball.H [w.x, w.y, w.z]) ∧
    Hmul Ball.H [w.x, w.y, w.z] = ⟨w, V3.zero⟩ := by
  have hv : Hmul Ball.H [w.x, w.y, w.z] = ⟨w, V3.zero⟩ := by
    obtain ⟨x, y, z⟩ := w; simp only [Ball.H]; mob_unfold; ring_all
  refine ⟨?_, hv⟩
  rw [hv]
  simp only [IsRigidVel, Ball.docXq, Ball.docRq, smul_var_quat_N, docRq_cols_jet, rotQuat_jet, rotQuat_var_re]
  refine ⟨trivial, ?_⟩
  mob_unfold

/-- `u = ω_FM` expressed in F (Euler mode, `q̇ = N_P(q) ω`, away from the singularity `cos q₁ = 0`) -/
theorem Ball.speeds_meaning_euler {c0 c1 c2 s0 s1 s2 ooc1 : K} (h0 : Trig c0 s0) (h1 : Trig c1 s1) (hc : ooc1 * c1 = 1)
    (w : V3 K) :
    IsRigidVel ⟨docRJet c0 c1 c2 s0 s1 s2 (bodyXYZ_N_P c0 s0 s1 ooc1 w), V3.const V3.zero⟩ (Hmul Ball.H [w.x, w.y, w.z]) ∧
    Hmul Ball.H [w.x, w.y, w.z] = ⟨w, V3.zero⟩ := by
  have hv : Hmul Ball.H [w.x, w.y, w.z] = ⟨w, V3.zero⟩ := by
    obtain ⟨x, y, z⟩ := w; simp only [Ball.H]; mob_unfold; ring_all
  have hN : bodyXYZ_NInv_P c0 s0 c1 s1 (bodyXYZ_N_P c0 s0 s1 ooc1 w) = w := by
    have e0 := h0.sq; have e1 := h1.sq
    have hc1 : c1 ≠ 0 := fun h => by rw [h, mul_zero] at hc; exact zero_ne_one hc
    have ho : ooc1 = 1 / c1 := by field_simp; linear_combination hc
    subst ho
    obtain ⟨x, y, z⟩ := w
    simp only [bodyXYZ_NInv_P, bodyXYZ_N_P]; mob_unfold
    repeat' apply And.intro
    all_goals (field_simp; trig_ring [e0, e1])
  refine ⟨?_, hv⟩
  rw [hv]
  refine ⟨?_, ?_⟩
  · have t := docR_turns (c2 := c2) (s2 := s2) h0 h1 (bodyXYZ_N_P c0 s0 s1 ooc1 w); unfold Turns at t; simp only [t, docRJet_re, hN]
  · mob_unfold
omit [CharZero K] in
theorem Ball.fitU_roundtrip (u0 u1 u2 : K) : Ball.fitU (Hmul Ball.H [u0, u1, u2]) = [u0, u1, u2] := by
  simp only [Ball.fitU, Ball.H]; mob_unfold; ring_all

omit [CharZero K] in
theorem Free.code_eq_doc_quat (q : Q4 K) (oon : K) (p : V3 K) : Free.Xq q oon p = Free.docXq q oon p := by
  obtain ⟨x, y, z⟩ := p
  simp only [Free.Xq, Free.docXq, ← Ball.code_eq_doc_quat, Ball.Xq, Xf.mul, M33.one_mul, Xf.mk.injEq, true_and]
  mob_unfold; ring_all
omit [CharZero K] in
theorem Free.code_eq_doc_euler (c0 c1 c2 s0 s1 s2 : K) (p : V3 K) :
    Free.Xe c0 c1 c2 s0 s1 s2 p = Free.docXe c0 c1 c2 s0 s1 s2 p := Bushing.code_eq_doc c0 c1 c2 s0 s1 s2 p
theorem Free.Xq_isRot (q : Q4 K) (oon : K) (p : V3 K) (h : oon * oon * Q4.normSq q = 1) : IsRot (Free.Xq q oon p).R :=
  Ball.Xq_isRot q oon h
/-- `u = (ω_FM, v_FM)` both expressed in F -/
theorem Free.speeds_meaning_quat (q : Q4 K) (r : K) (p w v : V3 K) :
    IsRigidVel (Free.docXq (Q4.var q (quat_N q w)) (Jet.invSqrtL (Q4.normSq (Q4.var q (quat_N q w))) r) (V3.var p v))
      (Hmul Free.H [w.x, w.y, w.z, v.x, v.y, v.z]) ∧
    Hmul Free.H [w.x, w.y, w.z, v.x, v.y, v.z] = ⟨w, v⟩ := by
  have hv : Hmul Free.H [w.x, w.y, w.z, v.x, v.y, v.z] = ⟨w, v⟩ := by
    obtain ⟨x, y, z⟩ := w; obtain ⟨vx, vy, vz⟩ := v; simp only [Free.H, Ball.H]; mob_unfold; ring_all
  refine ⟨?_, hv⟩
  rw [hv]
  have hb := (Ball.speeds_meaning_quat q r w).1.translate p v
  rw [(Ball.speeds_meaning_quat q r w).2] at hb
  have e : V3.add v (V3.zero : V3 K) = v := by obtain ⟨vx, vy, vz⟩ := v; mob_unfold; ring_all
  simp only [e] at hb
  exact hb
omit [CharZero K] in
theorem Free.fitU_roundtrip (u0 u1 u2 u3 u4 u5 : K) :
    Free.fitU (Hmul Free.H [u0, u1, u2, u3, u4, u5]) = [u0, u1, u2, u3, u4, u5] := by
  simp only [Free.fitU, Free.H, Ball.H]; mob_unfold; ring_all
end Quat

/-! ## Ellipsoid -/
/-- documented: `Mo` stays on the surface of the ellipsoid with the given semi-axes (for any proper rotation `R`) -/
theorem Ellipsoid.on_surface (semi : V3 K) {R : M33 K} (h : IsRot R) :
    Ellipsoid.onSurface semi (Ellipsoid.Xof semi R).p = (semi.x * semi.y * semi.z) * (semi.x * semi.y * semi.z) := by
  have o := h.orth
  simp only [M33.mul, M33.tr, M33.one, M33.mk.injEq] at o
  obtain ⟨-, -, -, -, -, -, -, -, ozz⟩ := o
  simp only [Ellipsoid.onSurface, Ellipsoid.Xof]; mob_unfold
  linear_combination (semi.x * semi.x * semi.y * semi.y * semi.z * semi.z) * ozz
/-- `u = ω_FM` in F; the translation follows the rotation so that `V_FM = H u` (for any rigidly turning `R`) -/
theorem Ellipsoid.speeds_meaning (semi : V3 K) (Rj : M33 (Jet K)) (w : V3 K)
    (hR : Rj.eps = M33.mul (M33.crossMat w) Rj.re) :
    IsRigidVel (Ellipsoid.Xof (V3.const semi) Rj) (Hmul (Ellipsoid.H semi Rj.re.col2) [w.x, w.y, w.z]) := by
  obtain ⟨⟨a0, a1⟩, ⟨b0, b1⟩, ⟨c0, c1⟩, ⟨d0, d1⟩, ⟨e0, e1⟩, ⟨f0, f1⟩, ⟨g0, g1⟩, ⟨h0, h1⟩, ⟨i0, i1⟩⟩ := Rj
  mob_unfold at hR
  obtain ⟨r1, r2, r3, r4, r5, r6, r7, r8, r9⟩ := hR
  subst r1 r2 r3 r4 r5 r6 r7 r8 r9
  simp only [IsRigidVel, Ellipsoid.Xof, Ellipsoid.H]; mob_unfold; ring_all

/-! ## SphericalCoords -/
theorem rotZY_eq_doc (ca sa cz sz : K) : rotZY ca sa cz sz = M33.mul (rotAxis V3.ez ca sa) (rotAxis V3.ey cz sz) := by
  simp only [rotZY, rotAxis_ez, rotAxis_ey, rotZ, rotY]; mob_unfold; ring_all
theorem SphericalCoords.code_eq_doc (P : SphericalCoords.Par K) (c0 s0 c1 s1 q2 : K) :
    SphericalCoords.X P c0 s0 c1 s1 q2 = SphericalCoords.docX P c0 s0 c1 s1 q2 := by
  simp only [SphericalCoords.X, SphericalCoords.docX, SphericalCoords.R, SphericalCoords.axisOf, rotZY_eq_doc]
  cases P.axisX <;> simp only [if_true, Bool.false_eq_true, if_false] <;> mob_unfold <;> ring_all
theorem SphericalCoords.shift_trig {sg cq sq co so : K} (hs : sg * sg = 1) (hq : Trig cq sq) (ho : Trig co so) :
    Trig (SphericalCoords.shiftC sg cq sq co so) (SphericalCoords.shiftS sg cq sq co so) := by
  unfold Trig at *
  simp only [SphericalCoords.shiftC, SphericalCoords.shiftS]
  linear_combination (sq * sq * so * so + sq * sq * co * co) * hs + (co * co + so * so) * hq + ho
theorem SphericalCoords.X_isRot (P : SphericalCoords.Par K) {c0 s0 c1 s1 : K} (q2 : K)
    (ha : P.sgAz * P.sgAz = 1) (hz : P.sgZe * P.sgZe = 1) (ha0 : Trig P.caz0 P.saz0) (hz0 : Trig P.cze0 P.sze0)
    (h0 : Trig c0 s0) (h1 : Trig c1 s1) : IsRot (SphericalCoords.X P c0 s0 c1 s1 q2).R := by
  simp only [SphericalCoords.X, SphericalCoords.R, rotZY_eq_doc]
  exact (rotAxis_ez_isRot (SphericalCoords.shift_trig ha h0 ha0)).mul (rotAxis_ey_isRot (SphericalCoords.shift_trig hz h1 hz0))
theorem SphericalCoords.shiftC_jet {sg : K} (hs : sg * sg = 1) (c s co so u : K) :
    SphericalCoords.shiftC (Jet.const sg) (Jet.cosL c s u) (Jet.sinL c s u) (Jet.const co) (Jet.const so)
      = Jet.cosL (SphericalCoords.shiftC sg c s co so) (SphericalCoords.shiftS sg c s co so) (sg * u) := by
  apply Jet.ext' <;> simp only [SphericalCoords.shiftC, SphericalCoords.shiftS] <;> jet_simp
  linear_combination (s * co * u) * hs
theorem SphericalCoords.shiftS_jet {sg : K} (hs : sg * sg = 1) (c s co so u : K) :
    SphericalCoords.shiftS (Jet.const sg) (Jet.cosL c s u) (Jet.sinL c s u) (Jet.const co) (Jet.const so)
      = Jet.sinL (SphericalCoords.shiftC sg c s co so) (SphericalCoords.shiftS sg c s co so) (sg * u) := by
  apply Jet.ext' <;> simp only [SphericalCoords.shiftC, SphericalCoords.shiftS] <;> jet_simp
  linear_combination (s * so * u) * hs

/-- `u = q̇`: signed azimuth rate about Fz, signed zenith rate about the current My, signed radial rate -/
theorem SphericalCoords.speeds_meaning (P : SphericalCoords.Par K) {c0 s0 c1 s1 : K} (q2 u0 u1 u2 : K)
    (ha : P.sgAz * P.sgAz = 1) (hz : P.sgZe * P.sgZe = 1) (ha0 : Trig P.caz0 P.saz0)
    (h0 : Trig c0 s0) :
    let PJ : SphericalCoords.Par (Jet K) :=
      ⟨Jet.const P.caz0, Jet.const P.saz0, Jet.const P.cze0, Jet.const P.sze0, Jet.const P.sgAz, Jet.const P.sgZe,
       Jet.const P.sgT, P.axisX⟩
    IsRigidVel (SphericalCoords.docX PJ (Jet.cosL c0 s0 u0) (Jet.sinL c0 s0 u0) (Jet.cosL c1 s1 u1) (Jet.sinL c1 s1 u1)
                  (Jet.var q2 u2))
      (Hmul (SphericalCoords.H P (SphericalCoords.X P c0 s0 c1 s1 q2)) [u0, u1, u2]) := by
  obtain ⟨ca, sa, cz, sz, ga, gz, gt, ax⟩ := P
  simp only at ha hz ha0
  -- the azimuth / zenith trig pairs and their rates
  set A := SphericalCoords.shiftC ga c0 s0 ca sa with hA
  set B := SphericalCoords.shiftS ga c0 s0 ca sa with hB
  set C := SphericalCoords.shiftC gz c1 s1 cz sz with hC
  set D := SphericalCoords.shiftS gz c1 s1 cz sz with hD
  have tAB : Trig A B := SphericalCoords.shift_trig ha h0 ha0
  have tR := (rotAxis_ez_turns A B (ga * u0)).mul (rotAxis_ey_turns C D (gz * u1))
    (by rw [rotAxis_ez_re]; exact rotAxis_ez_isRot tAB)
  have reR : (M33.mul (rotAxis V3.ez (Jet.cosL A B (ga * u0)) (Jet.sinL A B (ga * u0)))
      (rotAxis V3.ey (Jet.cosL C D (gz * u1)) (Jet.sinL C D (gz * u1)))).re = rotZY A B C D := by
    rw [M33.mul_re, rotAxis_ez_re, rotAxis_ey_re, rotZY_eq_doc]
  intro PJ
  simp only [PJ, SphericalCoords.docX, SphericalCoords.shiftC_jet ha, SphericalCoords.shiftS_jet ha,
    SphericalCoords.shiftC_jet hz, SphericalCoords.shiftS_jet hz, ← hA, ← hB, ← hC, ← hD]
  simp only [IsRigidVel, SphericalCoords.H, SphericalCoords.X, SphericalCoords.R, SphericalCoords.axisOf, ← hA, ← hB, ← hC, ← hD]
  unfold Turns at tR
  rw [rotAxis_ez_re] at tR
  cases ax
  · simp only [Bool.false_eq_true, if_false]
    have hp := (show Turns _ _ from tR).smul_mulVec_eps (Jet.const gt * Jet.var q2 u2) V3.ez
    refine ⟨?_, ?_⟩
    · rw [tR, reR]; simp only [rotAxis_ez, rotZ, rotZY]; mob_unfold; ring_all
    · have ez : (V3.ez : V3 (Jet K)) = V3.const V3.ez := rfl
      rw [← ez] at hp; rw [hp, reR]; simp only [rotAxis_ez, rotZ, rotZY]; mob_unfold; ring_all
  · simp only [if_true]
    have hp := (show Turns _ _ from tR).smul_mulVec_eps (Jet.const gt * Jet.var q2 u2) V3.ex
    refine ⟨?_, ?_⟩
    · rw [tR, reR]; simp only [rotAxis_ez, rotZ, rotZY]; mob_unfold; ring_all
    · have ex : (V3.ex : V3 (Jet K)) = V3.const V3.ex := rfl
      rw [← ex] at hp; rw [hp, reR]; simp only [rotAxis_ez, rotZ, rotZY]; mob_unfold; ring_all

/-! ## CantileverFreeBeam -/
theorem Cantilever.code_eq_doc (L defl disp c0 c1 c2 s0 s1 s2 q0 q1 : K) :
    Cantilever.X L defl disp c0 c1 c2 s0 s1 s2 q0 q1 = Cantilever.docX L defl disp c0 c1 c2 s0 s1 s2 q0 q1 := by
  simp only [Cantilever.X, Cantilever.docX, rotXYZ_eq_doc]; mob_unfold; ring_all
/-- the documented end-point position `(⅔ q₁ L, −⅔ q₀ L, L − 4⁄15 (q₀²+q₁²) L)` -/
theorem Cantilever.doc_position (L defl disp c0 c1 c2 s0 s1 s2 q0 q1 : K) (hd : 3 * defl = 2 * L) (hp : 15 * disp = 4 * L) :
    let p := (Cantilever.X L defl disp c0 c1 c2 s0 s1 s2 q0 q1).p
    3 * p.x = 2 * q1 * L ∧ 3 * p.y = -(2 * q0 * L) ∧ 15 * p.z = 15 * L - 4 * (q0 * q0 + q1 * q1) * L := by
  simp only [Cantilever.X]
  refine ⟨?_, ?_, ?_⟩
  · linear_combination q1 * hd
  · linear_combination (-q0) * hd
  · linear_combination (-(q0 * q0 + q1 * q1)) * hp
/-- `u = q̇`; the end point moves as the documented position function dictates -/
theorem Cantilever.speeds_meaning {c0 c1 c2 s0 s1 s2 : K} (h0 : Trig c0 s0) (h1 : Trig c1 s1) (L defl disp q0 q1 : K) (u : V3 K) :
    IsRigidVel ⟨docRJet c0 c1 c2 s0 s1 s2 u,
        (Cantilever.docX (Jet.const L) (Jet.const defl) (Jet.const disp) (Jet.cosL c0 s0 u.x) (Jet.cosL c1 s1 u.y)
          (Jet.cosL c2 s2 u.z) (Jet.sinL c0 s0 u.x) (Jet.sinL c1 s1 u.y) (Jet.sinL c2 s2 u.z) (Jet.var q0 u.x) (Jet.var q1 u.y)).p⟩
      (Hmul (Cantilever.H defl disp c0 c1 s0 s1 q0 q1) [u.x, u.y, u.z]) := by
  have hw : (Hmul (Cantilever.H defl disp c0 c1 s0 s1 q0 q1) [u.x, u.y, u.z]).w = bodyXYZ_NInv_P c0 s0 c1 s1 u := by
    simp only [Cantilever.H, bodyXYZ_NInv_P]; mob_unfold; ring_all
  refine ⟨?_, ?_⟩
  · have t := docR_turns (c2 := c2) (s2 := s2) h0 h1 u; unfold Turns at t; simp only [t, docRJet_re, hw]
  · simp only [Cantilever.docX, Cantilever.H]; mob_unfold; ring_all

/-! ## LineOrientation / FreeLine -/
/-- the two speeds are the x,y components of `ω_FM` expressed in **M** -/
theorem LineOrientation.speeds_meaning (X0 : Xf K) (u0 u1 : K) :
    Hmul (LineOrientation.H X0) [u0, u1] = ⟨X0.R.mulVec ⟨u0, u1, 0⟩, V3.zero⟩ := by
  simp only [LineOrientation.H]; mob_unfold; ring_all
theorem FreeLine.speeds_meaning (X0 : Xf K) (u0 u1 v0 v1 v2 : K) :
    Hmul (FreeLine.H X0) [u0, u1, v0, v1, v2] = ⟨X0.R.mulVec ⟨u0, u1, 0⟩, ⟨v0, v1, v2⟩⟩ := by
  simp only [FreeLine.H, LineOrientation.H]; mob_unfold; ring_all

theorem LineOrientation.fitU_roundtrip (X0 : Xf K) (h : IsRot X0.R) (u0 u1 : K) :
    LineOrientation.fitU X0 (Hmul (LineOrientation.H X0) [u0, u1]) = [u0, u1] := by
  rw [LineOrientation.speeds_meaning]
  simp only [LineOrientation.fitU, h.mulVec_tr_mulVec]
theorem FreeLine.fitU_roundtrip (X0 : Xf K) (h : IsRot X0.R) (u0 u1 v0 v1 v2 : K) :
    FreeLine.fitU X0 (Hmul (FreeLine.H X0) [u0, u1, v0, v1, v2]) = [u0, u1, v0, v1, v2] := by
  rw [FreeLine.speeds_meaning]
  simp only [FreeLine.fitU, LineOrientation.fitU, h.mulVec_tr_mulVec, List.cons_append, List.nil_append]

/-! ## Non-vacuity: rational points satisfying the hypotheses -/
example : Trig (3 / 5 : ℚ) (4 / 5) := by unfold Trig; norm_num
example : IsRot (Pin.X (3 / 5 : ℚ) (4 / 5)).R := Pin.X_isRot (by unfold Trig; norm_num)
example : (1 / 3 : ℚ) * (1 / 3) * Q4.normSq (⟨1, 2, 2, 0⟩ : Q4 ℚ) = 1 := by simp only [Q4.normSq]; norm_num

end Mobilizer
