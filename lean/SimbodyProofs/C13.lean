import SimbodyProofs.ForceLaws_lemmas

/-!
# C13 — interaction forces obey Newton's third law

For every two-body element of `SimbodyModel/ForceLaws.lean` the spatial forces the code adds to the two bodies,
shifted to the Ground origin (`SpF.aboutGround`: moment `m + p_GB × f`), sum to zero — total force and total
moment about a common point vanish, Ground counted like any other body, and nothing in the statements requires
the two bodies to be distinct ("the same body twice" is the special case `X1 = X2`).
-/
set_option linter.unusedSectionVars false
namespace ForceLaws
open V3
variable {K : Type} [Field K]

/-- net wrench about the Ground origin of a two-body contribution -/
def netWrench2 (F : SpF K × SpF K) (X1 X2 : Pose K) : SpF K := (F.1.aboutGround X1).add (F.2.aboutGround X2)

/-- a force `α·r` along the line `r = P2 − P1` applied at `P1`, and its opposite at `P2`, has no net wrench -/
theorem along_line_net_zero (X1 X2 : Pose K) (s1G s2G : V3 K) (α : K) :
    netWrench2 (⟨cross s1G (smul α (X2.p + s2G - (X1.p + s1G))), smul α (X2.p + s2G - (X1.p + s1G))⟩,
                ⟨-(cross s2G (smul α (X2.p + s2G - (X1.p + s1G)))), -(smul α (X2.p + s2G - (X1.p + s1G)))⟩) X1 X2
      = SpF.zero := by
  simp only [netWrench2, SpF.add, SpF.aboutGround, SpF.zero]
  apply SpF.ext' <;> apply V3.ext' <;> simp [cross, smul] <;> ring

/-- **TwoPointLinearSpring** -/
theorem tpSpring_net_wrench_zero (sqrt : K → K) (k x0 : K) (X1 X2 : Pose K) (s1 s2 : V3 K) :
    netWrench2 (tpSpringForce sqrt k x0 X1 X2 s1 s2) X1 X2 = SpF.zero := by
  simp only [tpSpringForce]
  exact along_line_net_zero X1 X2 _ _ _

/-- **TwoPointLinearDamper** -/
theorem tpDamper_net_wrench_zero (sqrt : K → K) (c : K) (X1 X2 : Pose K) (V1 V2 : Vel K) (s1 s2 : V3 K) :
    netWrench2 (tpDamperForce sqrt c X1 X2 V1 V2 s1 s2) X1 X2 = SpF.zero := by
  simp only [tpDamperForce]
  generalize sqrt _ = n
  generalize V3.dot (K := K) _ _ = vd
  have e : smul (c * vd) (divS (X2.p + X2.R.mulVec s2 - (X1.p + X1.R.mulVec s1)) n)
      = smul (c * vd / n) (X2.p + X2.R.mulVec s2 - (X1.p + X1.R.mulVec s1)) := by
    apply V3.ext' <;> simp [smul, divS] <;> ring
  rw [e]
  exact along_line_net_zero X1 X2 _ _ _

/-- **TwoPointConstantForce** -/
theorem tpConst_net_wrench_zero (sqrt : K → K) (f : K) (X1 X2 : Pose K) (s1 s2 : V3 K) :
    netWrench2 (tpConstForce sqrt f X1 X2 s1 s2) X1 X2 = SpF.zero := by
  simp only [tpConstForce]
  generalize sqrt _ = n
  have e : smul f (divS (X2.p + X2.R.mulVec s2 - (X1.p + X1.R.mulVec s1)) n)
      = smul (f / n) (X2.p + X2.R.mulVec s2 - (X1.p + X1.R.mulVec s1)) := by
    apply V3.ext' <;> simp [smul, divS] <;> ring
  rw [e]
  -- the constant force is `−α r` on body 1, `+α r` on body 2
  have := along_line_net_zero X1 X2 (X1.R.mulVec s1) (X2.R.mulVec s2) (-(f / n))
  simp only [netWrench2, SpF.add, SpF.aboutGround, SpF.zero] at this ⊢
  have hm := congrArg SpF.m this
  have hf := congrArg SpF.f this
  simp only at hm hf
  apply SpF.ext'
  · rw [← hm]; apply V3.ext' <;> simp [cross, smul] <;> ring
  · rw [← hf]; apply V3.ext' <;> simp [smul]

/-- equal and opposite forces applied to the two bodies at the *same* Ground point `loc`
(`station = findStationAtGroundPoint(loc)` on each body) have no net wrench -/
theorem pair_at_point_net_zero (X1 X2 : Pose K) (h1 : X1.R.IsOrtho) (h2 : X2.R.IsOrtho) (loc F : V3 K) :
    netWrench2 (applyForceToBodyPoint X1 (X1.invApply loc) (-F), applyForceToBodyPoint X2 (X2.invApply loc) F) X1 X2
      = SpF.zero := by
  simp only [netWrench2, applyForceToBodyPoint, applyAt_aboutGround, Pose.mulVec_invApply _ h1, Pose.mulVec_invApply _ h2,
    SpF.add, SpF.zero]
  apply SpF.ext' <;> apply V3.ext' <;> simp [cross]

theorem pair_at_point_net_zero_flip (X1 X2 : Pose K) (h1 : X1.R.IsOrtho) (h2 : X2.R.IsOrtho) (loc F : V3 K) :
    netWrench2 (applyForceToBodyPoint X1 (X1.invApply loc) F, applyForceToBodyPoint X2 (X2.invApply loc) (-F)) X1 X2
      = SpF.zero := by
  simp only [netWrench2, applyForceToBodyPoint, applyAt_aboutGround, Pose.mulVec_invApply _ h1, Pose.mulVec_invApply _ h2,
    SpF.add, SpF.zero]
  apply SpF.ext' <;> apply V3.ext' <;> simp [cross]

theorem netWrench2_zero (X1 X2 : Pose K) : netWrench2 ((SpF.zero : SpF K), (SpF.zero : SpF K)) X1 X2 = SpF.zero := by
  simp only [netWrench2, SpF.add, SpF.aboutGround, SpF.zero]
  apply SpF.ext' <;> apply V3.ext' <;> simp [cross]

/-- **LinearBushing**: `F_GB1` and `F_GB2` balance (the force `±f` acts at `OM`; the moment of the shift from `OF` is
included on body 1) -/
theorem bushing_net_wrench_zero (X1 X2 : Pose K) (V1 V2 : Vel K) (XF XM : Pose K) (k c : Vec6 K) (qr cq sq : V3 K)
    (h : (X1.comp XF).R.IsOrtho) :
    netWrench2 ((bushing X1 X2 V1 V2 XF XM k c qr cq sq).F_GB1, (bushing X1 X2 V1 V2 XF XM k c qr cq sq).F_GB2) X1 X2
      = SpF.zero := by
  set o := bushing X1 X2 V1 V2 XF XM k c qr cq sq with ho
  set A := (X1.comp XF).R with hA
  set pB1F := X1.R.mulVec XF.p with hp1
  set pB2M := X2.R.mulVec XM.p with hp2
  set m := (X2.comp XM).R.mulVec ((bushingN cq sq).tmulVec o.f.r) with hm
  set f := A.mulVec o.f.t with hf
  have hpFM : A.mulVec o.X_FM.p = (X2.p + pB2M) - (X1.p + pB1F) := by
    have : o.X_FM.p = A.tmulVec ((X2.comp XM).p - (X1.comp XF).p) := rfl
    rw [this, M33.mulVec_tmulVec A h]; rfl
  have hF2 : o.F_GB2 = ⟨m + cross pB2M f, f⟩ := rfl
  have hF1 : o.F_GB1 = ⟨-(m + cross (A.mulVec o.X_FM.p) f) + cross pB1F (-f), -f⟩ := rfl
  rw [hF1, hF2, hpFM]
  simp only [netWrench2, SpF.add, SpF.aboutGround, SpF.zero]
  apply SpF.ext' <;> apply V3.ext' <;> simp [cross] <;> ring

/-! ### compliant contacts -/
section contact
variable [LinearOrder K] [IsStrictOrderedRing K]

/-- **HuntCrossleyForce**, one contact: `∓force` applied at the contact point on both bodies -/
theorem hc_net_wrench_zero (sqrt : K → K) (vt : K) (h : HCContact K) (h1 : h.X1.R.IsOrtho) (h2 : h.X2.R.IsOrtho) :
    netWrench2 ((hcContact sqrt vt h).F1, (hcContact sqrt vt h).F2) h.X1 h.X2 = SpF.zero := by
  simp only [hcContact]
  split_ifs
  · exact netWrench2_zero _ _
  · exact pair_at_point_net_zero _ _ h1 h2 _ _
  · exact pair_at_point_net_zero _ _ h1 h2 _ _

/-- net wrench about the Ground origin of a list of contributions, body `b` being at `pose b` -/
def netWrenchList (pose : Nat → Pose K) (l : List (Nat × SpF K)) : SpF K :=
  l.foldl (fun acc e => SpF.add acc (e.2.aboutGround (pose e.1))) SpF.zero

omit [LinearOrder K] [IsStrictOrderedRing K] in
theorem netWrenchList_foldl (pose : Nat → Pose K) (l : List (Nat × SpF K)) (acc : SpF K) :
    l.foldl (fun acc e => SpF.add acc (e.2.aboutGround (pose e.1))) acc = SpF.add acc (netWrenchList pose l) := by
  induction l generalizing acc with
  | nil => simp only [netWrenchList, List.foldl_nil, SpF.add_zero']
  | cons e t ih =>
    simp only [netWrenchList, List.foldl_cons]
    rw [ih, ih (SpF.add SpF.zero _), SpF.zero_add', SpF.add_assoc']

/-- **HuntCrossleyForce**, whole contact list (any number of simultaneous contacts, Ground included): the
contributions of the loop have zero net force and zero net moment -/
theorem hcLoop_net_wrench_zero (sqrt : K → K) (vt : K) (pose : Nat → Pose K) (cs : List (HCContact K))
    (hc : ∀ c ∈ cs, c.X1 = pose c.b1 ∧ c.X2 = pose c.b2 ∧ c.X1.R.IsOrtho ∧ c.X2.R.IsOrtho) :
    netWrenchList pose (hcLoop sqrt vt cs) = SpF.zero := by
  induction cs with
  | nil => rfl
  | cons c t ih =>
    have hc0 := hc c (List.mem_cons_self ..)
    have ht := ih (fun x hx => hc x (List.mem_cons_of_mem _ hx))
    have e : hcLoop sqrt vt (c :: t) = [(c.b1, (hcContact sqrt vt c).F1), (c.b2, (hcContact sqrt vt c).F2)] ++ hcLoop sqrt vt t := by
      simp [hcLoop]
    rw [e]
    simp only [netWrenchList, List.foldl_append, List.foldl_cons, List.foldl_nil]
    rw [netWrenchList_foldl, ht]
    have hz := hc_net_wrench_zero sqrt vt c hc0.2.2.1 hc0.2.2.2
    simp only [netWrench2, hc0.1, hc0.2.1] at hz
    rw [SpF.zero_add', hz, SpF.zero_add']

/-- **ElasticFoundationForce**, one spring -/
theorem ef_net_wrench_zero (sqrt : K → K) (vt : K) (P : EFParams K) (area : K) (np sp : V3 K)
    (X1 X2 : Pose K) (V1 V2 : Vel K) (h1 : X1.R.IsOrtho) (h2 : X2.R.IsOrtho) :
    netWrench2 ((efSpring sqrt vt P area np sp X1 X2 V1 V2).F1, (efSpring sqrt vt P area np sp X1 X2 V1 V2).F2) X1 X2
      = SpF.zero := by
  simp only [efSpring]
  split_ifs <;> first | exact netWrench2_zero _ _ | exact pair_at_point_net_zero_flip _ _ h1 h2 _ _

/-- **SmoothSphereHalfSpaceForce** -/
theorem smooth_net_wrench_zero (sqrt tanh : K → K) (pow : K → K → K) (P : SmoothParams K)
    (Xs Xh : Pose K) (Vs Vh : Vel K) (loc : V3 K) (Xhs : Pose K) (radius : K) (h1 : Xs.R.IsOrtho) (h2 : Xh.R.IsOrtho) :
    netWrench2 ((smoothSphere sqrt tanh pow P Xs Xh Vs Vh loc Xhs radius).F1,
                (smoothSphere sqrt tanh pow P Xs Xh Vs Vh loc Xhs radius).F2) Xs Xh = SpF.zero := by
  simp only [smoothSphere]
  exact pair_at_point_net_zero _ _ h1 h2 _ _

omit [LinearOrder K] [IsStrictOrderedRing K] in
/-- **CompliantContactSubsystem** (every generator: Hertz with `m = 0`, elastic foundation and brick with the resultant
moment `m` about the contact point): the spatial contact force `(m, f)` given at the contact point is shifted to the two
body origins with opposite signs (`realizeSubsystemDynamicsImpl`) — zero net wrench for any poses -/
theorem compliant_net_wrench_zero (cp m f : V3 K) (X1 X2 : Pose K) :
    netWrench2 (compliantApply cp m f X1 X2) X1 X2 = SpF.zero := by
  simp only [netWrench2, compliantApply, SpF.add, SpF.aboutGround, SpF.zero]
  apply SpF.ext' <;> apply V3.ext' <;> simp [cross] <;> ring

omit [LinearOrder K] [IsStrictOrderedRing K] in
/-- **ExponentialSpringForce**: the body gets `f_G` at its station, Ground gets `−f_G` at the same point
(Ground's pose is the identity) -/
theorem expSpring_net_wrench_zero (X : Pose K) (station f_G : V3 K) :
    netWrench2 (expSpringApply X station f_G) X ⟨⟨⟨1, 0, 0⟩, ⟨0, 1, 0⟩, ⟨0, 0, 1⟩⟩, V3.zero⟩ = SpF.zero := by
  simp only [netWrench2, expSpringApply, applyForceToBodyPoint, applyAt, Pose.apply, SpF.add, SpF.aboutGround, SpF.zero]
  apply SpF.ext' <;> apply V3.ext' <;> simp [cross] <;> ring

end contact
end ForceLaws
