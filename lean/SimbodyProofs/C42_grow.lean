import SimbodyProofs.C42_inv

/-! # C42 — `growTree`: specification of the helper searches, the extension loop and the level loop -/
namespace C42

/-- `s'` extends `s`: same joints and bodies, mobilizers appended, the tree only grows, nothing else touched -/
structure Ext (s s' : St) : Prop where
  joints : s'.joints = s.joints
  nb : s'.nb = s.nb
  mobs : ∃ ext, s'.mobs = s.mobs ++ ext
  tree : ∀ b, inTree s b = true → inTree s' b = true
  lvl : ∀ b l, s.level b = some l → s'.level b = some l
  master : s'.master = s.master
  slaves : s'.slaves = s.slaves
  cons : s'.cons = s.cons
  jloop : s'.jloop = s.jloop

theorem Ext.refl (s : St) : Ext s s :=
  ⟨rfl, rfl, ⟨[], by simp⟩, fun _ h => h, fun _ _ h => h, rfl, rfl, rfl, rfl⟩

theorem Ext.trans {a b c : St} (h1 : Ext a b) (h2 : Ext b c) : Ext a c := by
  obtain ⟨e1, he1⟩ := h1.mobs
  obtain ⟨e2, he2⟩ := h2.mobs
  exact ⟨h2.joints.trans h1.joints, h2.nb.trans h1.nb, ⟨e1 ++ e2, by rw [he2, he1, List.append_assoc]⟩,
    fun b h => h2.tree b (h1.tree b h), fun b l h => h2.lvl b l (h1.lvl b l h), h2.master.trans h1.master, h2.slaves.trans h1.slaves,
    h2.cons.trans h1.cons, h2.jloop.trans h1.jloop⟩

theorem Ext.length_le {s s' : St} (h : Ext s s') : s.mobs.length ≤ s'.mobs.length := by
  obtain ⟨e, he⟩ := h.mobs; rw [he]; simp

theorem addMob_ext {s : St} {j : Nat} (h : Pre s j) : Ext s (addMob s j) := by
  obtain ⟨m, l, hinb, houtb, hlev, hmj, hends, heq⟩ := addMob_eq h
  rw [heq]
  refine ⟨rfl, rfl, ⟨[m], rfl⟩, ?_, ?_, rfl, rfl, rfl, rfl⟩
  · intro b hb
    show (upd s.level m.outb (some m.level) b).isSome = true
    by_cases hbo : b = m.outb
    · subst hbo; simp
    · rw [upd_ne _ _ hbo]; exact hb
  · intro b l' hb
    show upd s.level m.outb (some m.level) b = some l'
    by_cases hbo : b = m.outb
    · subst hbo; rw [houtb] at hb; cases hb
    · rw [upd_ne _ _ hbo]; exact hb

/-! ### the two searches -/

theorem mem_jointsAsParent {s : St} {b j : Nat} :
    j ∈ jointsAsParent s b ↔ j < s.joints.length ∧ (jointAt s j).parent = b := by
  simp [jointsAsParent]

theorem mem_jointsAsChild {s : St} {b j : Nat} :
    j ∈ jointsAsChild s b ↔ j < s.joints.length ∧ (jointAt s j).child = b := by
  simp [jointsAsChild]

theorem findFwd_spec {g : Input} {s : St} {b j : Nat} (h : findFwd g s b = some j) :
    j < s.joints.length ∧ (jointAt s j).parent = b ∧ s.jmob j = none ∧ (jointAt s j).mustLoop = false ∧
    inTree s (jointAt s j).child = false ∧ 0 < massOf g (jointAt s j).child := by
  unfold findFwd at h
  have key := foldl_inv
    (fun (acc : Option Nat × Nat) => ∀ j, acc.1 = some j →
      j < s.joints.length ∧ (jointAt s j).parent = b ∧ s.jmob j = none ∧ (jointAt s j).mustLoop = false ∧
      inTree s (jointAt s j).child = false ∧ 0 < massOf g (jointAt s j).child)
    (fun (acc : Option Nat × Nat) j =>
      let jt := jointAt s j
      if (s.jmob j).isSome then acc
      else if jt.mustLoop then acc
      else if inTree s jt.child then acc
      else if massOf g jt.child > acc.2 then (some j, massOf g jt.child) else acc)
    (jointsAsParent s b)
    (by
      intro acc x hx hacc
      obtain ⟨hxl, hxp⟩ := mem_jointsAsParent.mp hx
      dsimp only
      split
      · exact hacc
      · split
        · exact hacc
        · split
          · exact hacc
          · split
            · intro j' hj'
              simp only [Option.some.injEq] at hj'
              subst hj'
              refine ⟨hxl, hxp, ?_, ?_, ?_, ?_⟩
              · rename_i h1 _ _ _; simpa using h1
              · rename_i _ h2 _ _; simpa using h2
              · rename_i _ _ h3 _; simpa using h3
              · rename_i _ _ _ h4; omega
            · exact hacc)
    (none, 0) (by intro j hj; simp at hj)
  exact key j h

theorem findRev_spec {g : Input} {s : St} {b j : Nat} (h : findRev g s b = some j) :
    j < s.joints.length ∧ (jointAt s j).child = b ∧ s.jmob j = none ∧ (jointAt s j).mustLoop = false ∧
    inTree s (jointAt s j).parent = false ∧ 0 < massOf g (jointAt s j).parent := by
  unfold findRev at h
  have key := foldl_inv
    (fun (acc : Option Nat × Nat) => ∀ j, acc.1 = some j →
      j < s.joints.length ∧ (jointAt s j).child = b ∧ s.jmob j = none ∧ (jointAt s j).mustLoop = false ∧
      inTree s (jointAt s j).parent = false ∧ 0 < massOf g (jointAt s j).parent)
    (fun (acc : Option Nat × Nat) j =>
      let jt := jointAt s j
      if (s.jmob j).isSome then acc
      else if jt.mustLoop then acc
      else if inTree s jt.parent then acc
      else if massOf g jt.parent > acc.2 then (some j, massOf g jt.parent) else acc)
    (jointsAsChild s b)
    (by
      intro acc x hx hacc
      obtain ⟨hxl, hxp⟩ := mem_jointsAsChild.mp hx
      dsimp only
      split
      · exact hacc
      · split
        · exact hacc
        · split
          · exact hacc
          · split
            · intro j' hj'
              simp only [Option.some.injEq] at hj'
              subst hj'
              refine ⟨hxl, hxp, ?_, ?_, ?_, ?_⟩
              · rename_i h1 _ _ _; simpa using h1
              · rename_i _ h2 _ _; simpa using h2
              · rename_i _ _ h3 _; simpa using h3
              · rename_i _ _ _ h4; omega
            · exact hacc)
    (none, 0) (by intro j hj; simp at hj)
  exact key j h

theorem pre_of_findFwd {g : Input} {s : St} {b j : Nat} (hb : inTree s b = true) (h : findFwd g s b = some j) :
    Pre s j := by
  obtain ⟨h1, h2, h3, h4, h5, _⟩ := findFwd_spec h
  exact ⟨h1, h3, h4, by rw [h2, hb, h5]; simp⟩

theorem pre_of_findRev {g : Input} {s : St} {b j : Nat} (hb : inTree s b = true) (h : findRev g s b = some j) :
    Pre s j := by
  obtain ⟨h1, h2, h3, h4, h5, _⟩ := findRev_spec h
  exact ⟨h1, h3, h4, by rw [h2, hb, h5]; simp⟩

/-! ### the massless-terminal bookkeeping -/

/-- every massless *input* body mobilized with mobilities is the inboard body of the very next mobilizer -/
def M7 (g : Input) (s : St) : Prop :=
  ∀ i m, s.mobs[i]? = some m → m.outb < g.bodies.length → NeedsNext g s m →
    ∃ m', s.mobs[i + 1]? = some m' ∧ m'.inb = m.outb

/-- the same, except that the last mobilizer is exempt (state inside the extension loop) -/
def M7open (g : Input) (s : St) : Prop :=
  ∀ i m, s.mobs[i]? = some m → i + 1 < s.mobs.length → m.outb < g.bodies.length → NeedsNext g s m →
    ∃ m', s.mobs[i + 1]? = some m' ∧ m'.inb = m.outb

theorem NeedsNext_congr {g : Input} {s s' : St} (h : s'.joints = s.joints) (m : Mob) :
    NeedsNext g s' m ↔ NeedsNext g s m := by
  simp [NeedsNext, jointAt_congr h]

theorem lastOutb_addMobWith (s : St) (j : Nat) (m : Mob) : lastOutb (addMobWith s j m) = m.outb := by
  simp [lastOutb, addMobWith]

theorem lastOutb_inTree {g : Input} {s : St} (hI : Inv g s) : inTree s (lastOutb s) = true := by
  unfold lastOutb inTree
  cases h : s.mobs.getLast? with
  | none => simp [hI.lvl0]
  | some m =>
    have hm : m ∈ s.mobs := List.mem_of_getLast? h
    simp only
    exact (hI.tree m.outb).mpr (Or.inr (mem_outbs.mpr ⟨m, hm, rfl⟩))

/-- adding a mobilizer to a state where every obligation is met leaves only the new one open -/
theorem M7open_addMobWith_of_M7 {g : Input} {s : St} (j : Nat) (m : Mob) (h : M7 g s) :
    M7open g (addMobWith s j m) := by
  intro i m0 hi hlt hlt0 hn
  have hlen : (addMobWith s j m).mobs.length = s.mobs.length + 1 := by simp [addMobWith]
  rw [hlen] at hlt
  have hi' : i < s.mobs.length := by omega
  have hget : (addMobWith s j m).mobs[i]? = s.mobs[i]? := by
    show (s.mobs ++ [m])[i]? = _
    exact List.getElem?_append_left hi'
  rw [hget] at hi
  obtain ⟨m', hm', hinb⟩ := h i m0 hi hlt0 ((NeedsNext_congr (s' := addMobWith s j m) rfl m0).mp hn)
  refine ⟨m', ?_, hinb⟩
  have hi1 : i + 1 < s.mobs.length := by
    by_contra hcon
    rw [List.getElem?_eq_none (Nat.le_of_not_lt hcon)] at hm'; cases hm'
  show (s.mobs ++ [m])[i + 1]? = _
  rw [List.getElem?_append_left hi1]; exact hm'

/-- hanging the new mobilizer off the last outboard body discharges the open obligation -/
theorem M7open_addMobWith_of_open {g : Input} {s : St} (j : Nat) (m : Mob) (h : M7open g s)
    (hinb : m.inb = lastOutb s) : M7open g (addMobWith s j m) := by
  intro i m0 hi hlt hlt0 hn
  have hlen : (addMobWith s j m).mobs.length = s.mobs.length + 1 := by simp [addMobWith]
  rw [hlen] at hlt
  have hi' : i < s.mobs.length := by omega
  have hget : (addMobWith s j m).mobs[i]? = s.mobs[i]? := by
    show (s.mobs ++ [m])[i]? = _
    exact List.getElem?_append_left hi'
  rw [hget] at hi
  have hn' := (NeedsNext_congr (s' := addMobWith s j m) rfl m0).mp hn
  by_cases hlast : i + 1 < s.mobs.length
  · obtain ⟨m', hm', hinb'⟩ := h i m0 hi hlast hlt0 hn'
    refine ⟨m', ?_, hinb'⟩
    show (s.mobs ++ [m])[i + 1]? = _
    rw [List.getElem?_append_left hlast]; exact hm'
  · have hieq : i + 1 = s.mobs.length := by omega
    refine ⟨m, ?_, ?_⟩
    · show (s.mobs ++ [m])[i + 1]? = _
      rw [hieq]; simp
    · rw [hinb]
      unfold lastOutb
      have : s.mobs.getLast? = some m0 := by
        rw [List.getLast?_eq_getElem?]
        have : s.mobs.length - 1 = i := by omega
        rw [this]; exact hi
      rw [this]

theorem M7_of_open {g : Input} {s : St} (h : M7open g s)
    (hlast : ∀ m, s.mobs.getLast? = some m → m.outb < g.bodies.length → ¬ NeedsNext g s m) : M7 g s := by
  intro i m hi hlt0 hn
  by_cases hl : i + 1 < s.mobs.length
  · exact h i m hi hl hlt0 hn
  · exfalso
    have hi' : i < s.mobs.length := by
      by_contra hcon
      rw [List.getElem?_eq_none (Nat.le_of_not_lt hcon)] at hi; cases hi
    have : s.mobs.getLast? = some m := by
      rw [List.getLast?_eq_getElem?]
      have : s.mobs.length - 1 = i := by omega
      rw [this]; exact hi
    exact hlast m this hlt0 hn

theorem M7.toOpen {g : Input} {s : St} (h : M7 g s) : M7open g s :=
  fun i m hi _ hlt hn => h i m hi hlt hn

/-- the inboard body of the mobilizer made by `addMob` is whichever endpoint is in the tree -/
theorem addMob_eq_inb {s : St} {j b : Nat} (h : Pre s j) (hb : inTree s b = true)
    (hend : (jointAt s j).parent = b ∨ (jointAt s j).child = b) :
    ∃ m, m.inb = b ∧ m.joint = j ∧ s.level m.outb = none ∧
      (m.outb = (jointAt s j).parent ∨ m.outb = (jointAt s j).child) ∧ addMob s j = addMobWith s j m := by
  obtain ⟨m, l, hinb, houtb, hlev, hmj, hends, heq⟩ := addMob_eq h
  refine ⟨m, ?_, hmj, houtb, ?_, heq⟩
  · unfold inTree at hb
    rcases hends with ⟨_, hi, ho⟩ | ⟨_, hi, ho⟩ <;> rcases hend with he | he
    · rw [hi, he]
    · rw [ho, he] at houtb; rw [houtb] at hb; cases hb
    · rw [ho, he] at houtb; rw [houtb] at hb; cases hb
    · rw [hi, he]
  · rcases hends with ⟨_, _, ho⟩ | ⟨_, _, ho⟩
    · right; exact ho
    · left; exact ho

/-- the extension loop: keeps the invariant, only appends, and ends with all massless obligations met -/
theorem extend_spec {g : Input} : ∀ (fuel : Nat) (s : St) (added : List Nat) (s' : St) (added' : List Nat),
    Inv g s → M7open g s → extend g fuel s added = .ok (s', added') →
    Inv g s' ∧ Ext s s' ∧ M7 g s' := by
  intro fuel
  induction fuel with
  | zero => intro s added s' added' _ _ h; simp [extend] at h
  | succ f ih =>
    intro s added s' added' hI hO h
    have hbt := lastOutb_inTree hI
    -- the two ways of finishing, and the two ways of continuing
    have finish : ∀ j, Pre s j → ((jointAt s j).parent = lastOutb s ∨ (jointAt s j).child = lastOutb s) →
        (∀ m : Mob, (m.outb = (jointAt s j).parent ∨ m.outb = (jointAt s j).child) → s.level m.outb = none → 0 < massOf g m.outb) →
        s' = addMob s j → Inv g s' ∧ Ext s s' ∧ M7 g s' := by
      intro j hpre hend hmass hs'
      subst hs'
      refine ⟨addMob_inv hI hpre, addMob_ext hpre, ?_⟩
      obtain ⟨m, hminb, hmj, hmout, hmo, heq⟩ := addMob_eq_inb hpre hbt hend
      rw [heq]
      apply M7_of_open (M7open_addMobWith_of_open j m hO hminb)
      intro m1 hm1 _ hn
      have : m1 = m := by
        simp [addMobWith] at hm1; exact hm1.symm
      subst this
      have := hmass m1 hmo hmout
      have h0 := hn.1
      omega
    have hbl : s.level (lastOutb s) ≠ none := by
      unfold inTree at hbt; intro hc; rw [hc] at hbt; cases hbt
    unfold extend at h
    cases hf : findFwd g s (lastOutb s) with
    | some jf =>
      have hpf := pre_of_findFwd hbt hf
      obtain ⟨_, hfp, _, _, hfc, hfm⟩ := findFwd_spec hf
      simp only [hf] at h
      split at h
      · simp only [Except.ok.injEq, Prod.mk.injEq] at h
        exact finish jf hpf (Or.inl hfp) (fun m hm hnone => by
          rcases hm with hm | hm
          · exfalso; rw [hm, hfp] at hnone; exact hbl hnone
          · rw [hm]; exact hfm) h.1.symm
      · rename_i hneg; exact absurd hfm hneg
    | none =>
      simp only [hf] at h
      cases hr : findRev g s (lastOutb s) with
      | some jr =>
        have hpr := pre_of_findRev hbt hr
        obtain ⟨_, hrc, _, _, hrp, hrm⟩ := findRev_spec hr
        simp only [hr] at h
        split at h
        · simp only [Except.ok.injEq, Prod.mk.injEq] at h
          exact finish jr hpr (Or.inr hrc) (fun m hm hnone => by
            rcases hm with hm | hm
            · rw [hm]; exact hrm
            · exfalso; rw [hm, hrc] at hnone; exact hbl hnone) h.1.symm
        · rename_i hneg; exact absurd hrm hneg
      | none => simp [hr] at h

end C42
