import SimbodyProofs.C42_defs
import Mathlib.Data.List.Basic
import Mathlib.Data.List.Nodup
import Mathlib.Data.List.Perm.Subperm
import Mathlib.Data.List.Range
import Mathlib.Tactic.Tauto

/-! # C42 — generic helper lemmas (lists, `upd`, folds) -/
namespace C42

@[simp] theorem upd_same {α : Type} (f : Nat → α) (i : Nat) (v : α) : upd f i v i = v := by simp [upd]
theorem upd_ne {α : Type} (f : Nat → α) {i k : Nat} (v : α) (h : k ≠ i) : upd f i v k = f k := by simp [upd, h]
theorem upd_apply {α : Type} (f : Nat → α) (i k : Nat) (v : α) : upd f i v k = if k = i then v else f k := rfl

theorem orderedFrom_snoc (seen : List Nat) (ms : List Mob) (m : Mob) :
    OrderedFrom seen (ms ++ [m]) ↔ OrderedFrom seen ms ∧ (m.inb ∈ seen ∨ m.inb ∈ ms.map (·.outb)) := by
  induction ms generalizing seen with
  | nil => simp [OrderedFrom]
  | cons a ms ih =>
    simp only [List.cons_append, OrderedFrom, ih, List.map_cons, List.mem_cons]
    tauto

/-- a duplicate-free list of naturals below `n` has at most `n` elements -/
theorem nodup_length_le {l : List Nat} {n : Nat} (hn : l.Nodup) (hlt : ∀ x ∈ l, x < n) : l.length ≤ n := by
  have hsub : l ⊆ List.range n := fun x hx => List.mem_range.mpr (hlt x hx)
  have := (List.subperm_of_subset hn hsub).length_le
  simpa using this

/-- invariant rule for a monadic left fold in `Except` -/
theorem foldlM_inv {ε σ α : Type} (P : σ → Prop) (f : σ → α → Except ε σ) (l : List α)
    (hstep : ∀ s x s', x ∈ l → P s → f s x = .ok s' → P s') :
    ∀ s s', P s → l.foldlM f s = .ok s' → P s' := by
  induction l with
  | nil => intro s s' hP h; simp [List.foldlM, pure, Except.pure] at h; subst h; exact hP
  | cons a l ih =>
    intro s s' hP h
    simp only [List.foldlM_cons, bind, Except.bind] at h
    cases hfa : f s a with
    | error e => simp [hfa] at h
    | ok s1 =>
      simp only [hfa] at h
      exact ih (fun s x s' hx => hstep s x s' (List.mem_cons_of_mem _ hx)) s1 s'
        (hstep s a s1 (List.mem_cons_self) hP hfa) h

theorem foldl_inv {σ α : Type} (P : σ → Prop) (f : σ → α → σ) (l : List α)
    (hstep : ∀ s x, x ∈ l → P s → P (f s x)) : ∀ s, P s → P (l.foldl f s) := by
  induction l with
  | nil => intro s h; simpa using h
  | cons a l ih =>
    intro s h
    simp only [List.foldl_cons]
    exact ih (fun s x hx => hstep s x (List.mem_cons_of_mem _ hx)) _ (hstep s a List.mem_cons_self h)

end C42
