import SimbodyProofs.C33_WQ_lemmas
/-!
# C33 — ParallelWorkQueue: liveness invariant and `no_deadlock`

`LiveInv` records why nobody waits forever: a blocked producer implies the condition it waits for is still false
(workers that make it true wake it in the same step), a non-empty queue implies some worker is not blocked
(`addTask` wakes one), and after `finished` no worker is blocked.  From it: in every reachable non-final state some
thread has an enabled non-spurious step.
-/
set_option linter.unusedSimpArgs false
set_option linter.unnecessarySeqFocus false
set_option linter.unusedVariables false
set_option linter.unreachableTactic false
set_option linter.unusedTactic false
namespace C33.WQ
open C33.PE (upd)

structure LiveInv (s : State) : Prop where
  npos : 0 < s.n
  finb : s.finished = true → ∀ w, w < s.n → (s.wk w).pc ≠ .blocked
  qnb : s.queue ≠ [] → ∃ w, w < s.n ∧ (s.wk w).pc ≠ .blocked
  addb : s.ppc = .addBlocked → s.queueSize ≤ s.queue.length
  flb : s.ppc = .flushBlocked → s.pending ≠ 0
  donedec : ∀ w, w < s.n → (s.wk w).pc = .done → (s.wk w).dec = false
  joinfin : s.ppc = .join ∨ s.ppc = .final → s.finished = true

theorem liveInv_init (n q : Nat) (hn : 0 < n) (todo : List Op) : LiveInv (init n q todo) := by
  constructor <;> simp [init, hn]

theorem wakeProd_not_blocked (p : PPc) : wakeProd p ≠ .addBlocked ∧ wakeProd p ≠ .flushBlocked := by
  cases p <;> simp [wakeProd]

theorem wakeProd_join_iff (p : PPc) : (wakeProd p = .join ∨ wakeProd p = .final) ↔ (p = .join ∨ p = .final) := by
  cases p <;> simp [wakeProd]

section frames
variable {s s' : State} {w : Nat} {x' : Worker}

/-- worker step that leaves the queue and `finished` alone -/
theorem live_w (hi : LiveInv s) (hwn : w < s.n) (hn : s'.n = s.n) (hqs : s'.queueSize = s.queueSize)
    (hfin : s'.finished = s.finished) (hq : s'.queue = s.queue) (hwk : s'.wk = upd s.wk w x')
    (hb : x'.pc = .blocked → (s.wk w).pc = .blocked ∨ (s.finished = false ∧ s.queue = []))
    (hp : (s'.ppc = s.ppc ∧ s'.pending = s.pending) ∨ s'.ppc = wakeProd s.ppc)
    (hd : x'.pc = .done → x'.dec = false) : LiveInv s' := by
  constructor
  · rw [hn]; exact hi.npos
  · intro hf v hv hpc
    rw [hfin] at hf; rw [hn] at hv
    by_cases hvw : v = w
    · subst hvw
      rw [hwk, upd_same] at hpc
      rcases hb hpc with h | h
      · exact hi.finb hf v hv h
      · rw [h.1] at hf; cases hf
    · rw [hwk, upd_other _ _ hvw] at hpc; exact hi.finb hf v hv hpc
  · intro hne
    rw [hq] at hne
    obtain ⟨v, hv, hpc⟩ := hi.qnb hne
    refine ⟨v, by rw [hn]; exact hv, ?_⟩
    by_cases hvw : v = w
    · subst hvw
      rw [hwk, upd_same]
      intro hx
      rcases hb hx with h | h
      · exact hpc h
      · exact hne h.2
    · rw [hwk, upd_other _ _ hvw]; exact hpc
  · intro h
    rcases hp with ⟨e, _⟩ | e
    · rw [e] at h; rw [hqs, hq]; exact hi.addb h
    · rw [e] at h; exact absurd h (wakeProd_not_blocked _).1
  · intro h
    rcases hp with ⟨e, e2⟩ | e
    · rw [e] at h; rw [e2]; exact hi.flb h
    · rw [e] at h; exact absurd h (wakeProd_not_blocked _).2
  · intro v hv hpc
    rw [hn] at hv
    by_cases hvw : v = w
    · subst hvw; rw [hwk, upd_same] at hpc ⊢; exact hd hpc
    · rw [hwk, upd_other _ _ hvw] at hpc ⊢; exact hi.donedec v hv hpc
  · intro h
    rw [hfin]
    rcases hp with ⟨e, _⟩ | e
    · rw [e] at h; exact hi.joinfin h
    · rw [e] at h; exact hi.joinfin ((wakeProd_join_iff _).mp h)

/-- producer step that only moves its own program counter to a non-waiting location -/
theorem live_m (hi : LiveInv s) (hn : s'.n = s.n) (hfin : s'.finished = s.finished) (hq : s'.queue = s.queue)
    (hwk : s'.wk = s.wk) (h1 : s'.ppc ≠ .addBlocked) (h2 : s'.ppc ≠ .flushBlocked)
    (hj : s'.ppc = .join ∨ s'.ppc = .final → s.finished = true) : LiveInv s' := by
  constructor
  · rw [hn]; exact hi.npos
  · intro hf v hv; rw [hfin] at hf; rw [hn] at hv; rw [hwk]; exact hi.finb hf v hv
  · intro hne; rw [hq] at hne; obtain ⟨v, hv, hpc⟩ := hi.qnb hne; exact ⟨v, by rw [hn]; exact hv, by rw [hwk]; exact hpc⟩
  · intro h; exact absurd h h1
  · intro h; exact absurd h h2
  · intro v hv hpc; rw [hn] at hv; rw [hwk] at hpc ⊢; exact hi.donedec v hv hpc
  · intro h; rw [hfin]; exact hj h
end frames

theorem firstBlocked_none (wk : Nat → Worker) : ∀ k, firstBlocked wk k = none → ∀ v, v < k → (wk v).pc ≠ .blocked := by
  intro k; induction k with
  | zero => intro _ v hv; omega
  | succ k ih =>
    intro h v hv
    simp only [firstBlocked] at h
    cases hf : firstBlocked wk k with
    | some u => rw [hf] at h; cases h
    | none =>
      rw [hf] at h
      by_cases hvk : v = k
      · subst hvk; intro hb; simp [hb] at h
      · exact ih hf v (by omega)

theorem firstBlocked_lt (wk : Nat → Worker) : ∀ k u, firstBlocked wk k = some u → u < k := by
  intro k; induction k with
  | zero => intro u h; simp [firstBlocked] at h
  | succ k ih =>
    intro u h
    simp only [firstBlocked] at h
    cases hf : firstBlocked wk k with
    | some v => rw [hf] at h; simp at h; subst h; have := ih v hf; omega
    | none => rw [hf] at h; simp at h; obtain ⟨_, h2⟩ := h; omega

/-- after `notify_one` some worker is not blocked -/
theorem wakeOne_nonblocked (wk : Nat → Worker) (n pick : Nat) (hn : 0 < n) :
    ∃ v, v < n ∧ (wakeOne wk n pick v).pc ≠ .blocked := by
  unfold wakeOne
  by_cases hp : pick < n ∧ (wk pick).pc = .blocked
  · simp only [hp, and_self, if_true]
    exact ⟨pick, hp.1, by simp⟩
  · simp only [hp, if_false]
    cases hf : firstBlocked wk n with
    | some u => exact ⟨u, firstBlocked_lt wk n u hf, by simp⟩
    | none => exact ⟨0, hn, firstBlocked_none wk n hf 0 hn⟩

theorem liveInv_step_worker {s s' : State} {w : Nat} (hi : LiveInv s) (h : stepWorker s w = some s') : LiveInv s' := by
  simp only [stepWorker] at h
  split at h
  · rename_i hwn
    cases hpc : (s.wk w).pc <;> simp only [hpc] at h
    case loopTest =>
      injection h with h; subst h
      exact live_w hi hwn rfl rfl rfl rfl rfl (by simp only; split <;> simp) (Or.inl ⟨rfl, rfl⟩) (by simp only; split <;> simp)
    case lockAcq =>
      split at h
      · injection h with h; subst h
        exact live_w hi hwn rfl rfl rfl rfl rfl (by simp) (Or.inl ⟨rfl, rfl⟩) (by simp)
      · cases h
    case mark =>
      split at h
      · injection h with h; subst h
        exact live_w hi hwn rfl rfl rfl rfl rfl (by simp) (Or.inr rfl) (by simp)
      · injection h with h; subst h
        exact live_w hi hwn rfl rfl rfl rfl rfl (by simp) (Or.inl ⟨rfl, rfl⟩) (by simp)
    case waitChk =>
      split at h
      · injection h with h; subst h
        exact live_w hi hwn rfl rfl rfl rfl rfl (by simp) (Or.inl ⟨rfl, rfl⟩) (by simp)
      · rename_i hc
        injection h with h; subst h
        refine live_w hi hwn rfl rfl rfl rfl rfl ?_ (Or.inl ⟨rfl, rfl⟩) (by simp)
        intro _; right
        simp only [Bool.or_eq_true, Bool.not_eq_true', not_or, Bool.not_eq_true, List.isEmpty_eq_false_iff] at hc
        refine ⟨hc.2, ?_⟩
        cases hq : s.queue with
        | nil => rfl
        | cons a l => simp [hq] at hc
    case blocked => cases h
    case reacq =>
      split at h
      · injection h with h; subst h
        exact live_w hi hwn rfl rfl rfl rfl rfl (by simp) (Or.inl ⟨rfl, rfl⟩) (by simp)
      · cases h
    case take =>
      split at h
      · rename_i t rest hq
        injection h with h; subst h
        constructor
        · exact hi.npos
        · intro hf v hv hb
          by_cases hvw : v = w
          · subst hvw; simp at hb
          · simp only [upd_other _ _ hvw] at hb; exact hi.finb hf v hv hb
        · intro _; exact ⟨w, hwn, by simp⟩
        · intro hb; exact absurd hb (wakeProd_not_blocked _).1
        · intro hb; exact absurd hb (wakeProd_not_blocked _).2
        · intro v hv hd
          by_cases hvw : v = w
          · subst hvw; simp at hd
          · simp only [upd_other _ _ hvw] at hd ⊢; exact hi.donedec v hv hd
        · intro hj; exact hi.joinfin ((wakeProd_join_iff _).mp hj)
      · injection h with h; subst h
        exact live_w hi hwn rfl rfl rfl rfl rfl (by simp) (Or.inr rfl) (by simp)
    case run t =>
      injection h with h; subst h
      exact live_w hi hwn rfl rfl rfl rfl rfl (by simp) (Or.inl ⟨rfl, rfl⟩) (by simp)
    case exitLock =>
      split at h
      · split at h
        · injection h with h; subst h
          exact live_w hi hwn rfl rfl rfl rfl rfl (by simp) (Or.inl ⟨rfl, rfl⟩) (by simp)
        · cases h
      · rename_i hdec
        injection h with h; subst h
        exact live_w hi hwn rfl rfl rfl rfl rfl (by simp) (Or.inl ⟨rfl, rfl⟩) (by intro _; simpa using hdec)
    case exitMark =>
      injection h with h; subst h
      exact live_w hi hwn rfl rfl rfl rfl rfl (by simp) (Or.inr rfl) (by simp)
    case done => cases h
  · cases h

theorem woken_blocked {x x' : Worker} (h : Woken x x') (hb : x'.pc = .blocked) : x.pc = .blocked := by
  rcases h with e | ⟨_, e⟩ <;> subst e
  · exact hb
  · simp at hb

theorem woken_done {x x' : Worker} (h : Woken x x') : (x'.pc = .done ↔ x.pc = .done) ∧ x'.dec = x.dec := by
  rcases h with e | ⟨hb, e⟩ <;> subst e
  · simp
  · simp [hb]

theorem liveInv_step_main {s s' : State} {pick : Nat} (hi : LiveInv s) (hd : DataInv s) (h : stepMain s pick = some s') :
    LiveInv s' := by
  simp only [stepMain] at h
  have nofin : s.ppc ≠ .join → s.ppc ≠ .final → s.finished = false := by
    intro h1 h2
    cases hf : s.finished
    · rfl
    · rcases hd.finp hf with e | e
      · exact absurd e h1
      · exact absurd e h2
  cases hpc : s.ppc <;> simp only [hpc] at h
  case idle =>
    split at h <;> (injection h with h; subst h; exact live_m hi rfl rfl rfl rfl (by simp) (by simp) (by simp))
  case addLock =>
    split at h
    · injection h with h; subst h; exact live_m hi rfl rfl rfl rfl (by simp) (by simp) (by simp)
    · cases h
  case addChk =>
    have hf := nofin (by simp [hpc]) (by simp [hpc])
    split at h
    · injection h with h; subst h
      have hw : ∀ v, Woken (s.wk v) (wakeOne s.wk s.n pick v) := fun v => wakeOne_spec _ _ _ v
      constructor
      · exact hi.npos
      · intro e; rw [hf] at e; cases e
      · intro _; exact wakeOne_nonblocked s.wk s.n pick hi.npos
      · intro e; cases e
      · intro e; cases e
      · intro v hv hdn
        rw [(woken_done (hw v)).2]; exact hi.donedec v hv ((woken_done (hw v)).1.mp hdn)
      · intro e; simp at e
    · rename_i hfull
      injection h with h; subst h
      constructor
      · exact hi.npos
      · exact hi.finb
      · exact hi.qnb
      · intro _; simp only; omega
      · intro e; cases e
      · exact hi.donedec
      · intro e; simp at e
  case addBlocked => cases h
  case addReacq =>
    split at h
    · injection h with h; subst h; exact live_m hi rfl rfl rfl rfl (by simp) (by simp) (by simp)
    · cases h
  case flushLock =>
    split at h
    · injection h with h; subst h; exact live_m hi rfl rfl rfl rfl (by simp) (by simp) (by simp)
    · cases h
  case flushChk =>
    split at h
    · injection h with h; subst h; exact live_m hi rfl rfl rfl rfl (by simp) (by simp) (by simp)
    · rename_i hne
      injection h with h; subst h
      constructor
      · exact hi.npos
      · exact hi.finb
      · exact hi.qnb
      · intro e; cases e
      · intro _; exact hne
      · exact hi.donedec
      · intro e; simp at e
  case flushBlocked => cases h
  case flushReacq =>
    split at h
    · injection h with h; subst h; exact live_m hi rfl rfl rfl rfl (by simp) (by simp) (by simp)
    · cases h
  case dLock =>
    split at h
    · injection h with h; subst h; exact live_m hi rfl rfl rfl rfl (by simp) (by simp) (by simp)
    · cases h
  case dSet =>
    injection h with h; subst h
    have hw : ∀ v, Woken (s.wk v) (wakeAll s.wk v) := fun v => wakeAll_spec _ v
    have nb : ∀ v, (wakeAll s.wk v).pc ≠ .blocked := by
      intro v; unfold wakeAll; split
      · simp
      · rename_i hb; exact hb
    constructor
    · exact hi.npos
    · intro _ v _; exact nb v
    · intro _; exact ⟨0, hi.npos, nb 0⟩
    · intro e; cases e
    · intro e; cases e
    · intro v hv hdn
      rw [(woken_done (hw v)).2]; exact hi.donedec v hv ((woken_done (hw v)).1.mp hdn)
    · intro _; rfl
  case join =>
    split at h
    · injection h with h; subst h
      exact live_m hi rfl rfl rfl rfl (by simp) (by simp) (fun _ => hi.joinfin (Or.inl hpc))
    · cases h
  case final => cases h

theorem liveInv_step {s s' : State} {a : Act} (hi : LiveInv s) (hd : DataInv s) (h : step s a = some s') : LiveInv s' := by
  cases a with
  | step t pick =>
    cases t with
    | main => exact liveInv_step_main hi hd h
    | worker w => exact liveInv_step_worker hi h
  | spurious t =>
    cases t with
    | main =>
      simp only [step] at h
      split at h
      · injection h with h; subst h; exact live_m hi rfl rfl rfl rfl (by simp) (by simp) (by simp)
      · injection h with h; subst h; exact live_m hi rfl rfl rfl rfl (by simp) (by simp) (by simp)
      · cases h
    | worker w =>
      simp only [step] at h
      split at h
      · rename_i hb; injection h with h; subst h
        exact live_w hi hb.1 rfl rfl rfl rfl rfl (by simp) (Or.inl ⟨rfl, rfl⟩) (by simp)
      · cases h

theorem reach_live {n q : Nat} (hn : 0 < n) {todo : List Op} {s : State} (h : Reach n q todo s) :
    LockInv s ∧ DataInv s ∧ LiveInv s ∧ s.n = n ∧ s.queueSize = q := by
  induction h with
  | init => exact ⟨lockInv_init n q todo, dataInv_init n q todo, liveInv_init n q hn todo, rfl, rfl⟩
  | step a _ hs ih =>
    refine ⟨lockInv_step ih.1 hs, dataInv_step ih.2.1 hs, liveInv_step ih.2.2.1 ih.2.1 hs, by rw [step_n hs]; exact ih.2.2.2.1, ?_⟩
    have : ∀ {s s' : State} {a : Act}, step s a = some s' → s'.queueSize = s.queueSize := by
      intro s s' a h
      cases a with
      | step t pick =>
        cases t with
        | main =>
          simp only [step, stepMain] at h
          cases hpc : s.ppc <;> simp only [hpc] at h <;> (try split at h) <;> (cases h <;> rfl)
        | worker w =>
          simp only [step, stepWorker] at h
          split at h
          · cases hpc : (s.wk w).pc <;> simp only [hpc] at h <;> (try split at h) <;> (try split at h) <;> (cases h <;> rfl)
          · cases h
      | spurious t =>
        cases t <;> simp only [step] at h <;> split at h <;> (cases h <;> rfl)
    rw [this hs]; exact ih.2.2.2.2

theorem sumN_pos_ex {f : Nat → Nat} : ∀ k, sumN f k ≠ 0 → ∃ v, v < k ∧ f v ≠ 0 := by
  intro k; induction k with
  | zero => intro h; simp [sumN] at h
  | succ k ih =>
    intro h
    simp only [sumN] at h
    by_cases hk : f k = 0
    · obtain ⟨v, hv, hf⟩ := ih (by omega); exact ⟨v, by omega, hf⟩
    · exact ⟨k, by omega, hk⟩

theorem allDone_of {wk : Nat → Worker} : ∀ k, (∀ v, v < k → (wk v).pc = .done) → allDone wk k = true := by
  intro k; induction k with
  | zero => intro _; rfl
  | succ k ih => intro h; simp only [allDone, Bool.and_eq_true, beq_iff_eq]; exact ⟨ih (fun v hv => h v (by omega)), h k (by omega)⟩

theorem worker_enabled {s : State} {w : Nat} (hwn : w < s.n) (hm : s.mutex = none)
    (h1 : (s.wk w).pc ≠ .blocked) (h2 : (s.wk w).pc ≠ .done) : (stepWorker s w).isSome = true := by
  simp only [stepWorker, hwn, if_true]
  cases hpc : (s.wk w).pc <;> simp_all <;> (try split) <;> (try split) <;> rfl

theorem worker_holder_enabled {s : State} {w : Nat} (hwn : w < s.n) (h : holdsW (s.wk w).pc = true) :
    (stepWorker s w).isSome = true := by
  simp only [stepWorker, hwn, if_true]
  cases hpc : (s.wk w).pc <;> simp_all [holdsW] <;> (try split) <;> rfl

/-- in every reachable state other than the final one some thread has an enabled non-spurious step -/
theorem no_deadlock_aux {s : State} (hl : LockInv s) (hd : DataInv s) (hv : LiveInv s) (hq : 0 < s.queueSize)
    (hfin : s.ppc ≠ .final) : ∃ t pick, (step s (.step t pick)).isSome = true := by
  cases hm : s.mutex with
  | some t =>
    cases t with
    | main =>
      refine ⟨.main, 0, ?_⟩
      have := hl.convM hm
      simp only [step, stepMain]
      cases hpc : s.ppc <;> simp_all [holdsP] <;> split <;> rfl
    | worker w =>
      obtain ⟨hwn, hh⟩ := hl.convW w hm
      exact ⟨.worker w, 0, worker_holder_enabled hwn hh⟩
  | none =>
    by_cases hex : ∃ w, w < s.n ∧ (s.wk w).pc ≠ .blocked ∧ (s.wk w).pc ≠ .done
    · obtain ⟨w, hw, h1, h2⟩ := hex
      exact ⟨.worker w, 0, worker_enabled hw hm h1 h2⟩
    · -- every worker is blocked or done: the producer can move
      have hall : ∀ w, w < s.n → (s.wk w).pc = .blocked ∨ (s.wk w).pc = .done := by
        intro w hw
        by_contra hc
        exact hex ⟨w, hw, fun e => hc (Or.inl e), fun e => hc (Or.inr e)⟩
      have qempty : s.queue = [] := by
        by_contra hne
        obtain ⟨v, hv', hnb⟩ := hv.qnb hne
        rcases hall v hv' with e | e
        · exact hnb e
        · exact hne (hd.exd v hv' (by rw [e]; rfl)).2
      refine ⟨.main, 0, ?_⟩
      simp only [step, stepMain]
      cases hpc : s.ppc <;> simp only [hm, if_true]
      case idle => split <;> rfl
      case addChk => split <;> rfl
      case flushChk => split <;> rfl
      case addBlocked =>
        have := hv.addb hpc
        rw [qempty] at this; simp at this; omega
      case flushBlocked =>
        exfalso
        have hp := hv.flb hpc
        have hpend := hd.pend
        rw [qempty] at hpend; simp only [List.length_nil, Nat.zero_add] at hpend
        obtain ⟨v, hv', hl'⟩ := sumN_pos_ex s.n (by rw [← hpend]; exact hp)
        simp only [load, runs] at hl'
        rcases hall v hv' with e | e
        · have := hd.dcl v hv' (by rw [e]; rfl)
          simp [e, isRun, this] at hl'
        · have := hv.donedec v hv' e
          simp [e, isRun, this] at hl'
      case join =>
        have hf := hv.joinfin (Or.inl hpc)
        have : allDone s.wk s.n = true := allDone_of s.n (fun v hv' => by
          rcases hall v hv' with e | e
          · exact absurd e (hv.finb hf v hv')
          · exact e)
        simp [this]
      case final => exact absurd hpc hfin
      all_goals rfl
end C33.WQ
