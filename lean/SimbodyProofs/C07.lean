import SimbodyProofs.C07_lemmas
import Mathlib.Tactic.FieldSimp
import Mathlib.Algebra.Field.Basic
import Mathlib.Tactic.NormNum
import Mathlib.Algebra.Order.Field.Rat

/-!
# C07 — constraint errors form a derivative hierarchy with adjoint forces

Theorems about `SimbodyModel/ConstraintEq.lean` (the executable mirror of `ConstraintImpl.h`,
`Constraint_RodImpl.h`, `Constraint_PointOnPlaneContactImpl.h`, `Constraint.cpp`), for **every** commutative ring
(field for Rod) `K`, every pose / velocity / acceleration of the constrained bodies in the ancestor frame, every
station, axis, frame and multiplier.

Per constraint type `T`:
* `T.pverr_is_derivative` : the velocity-level error is the time derivative of the position-level error along any
  rigid motion of the constrained bodies (`Ṙ = [ω]×R`, `ṗ = v`; derivative = `ε`-part over the dual numbers);
* `T.paerr_is_derivative` (`vaerr_is_derivative`): the acceleration-level error is the time derivative of the
  velocity-level error (`ω̇ = b`, `v̇ = a`);
* `T.force_adjoint` : virtual work — `⟪λ, pverr(V)⟫ = Σ_bodies ⟪F_B(λ), V_B⟫ + ⟪f(λ), u⟫`: the constraint force is the
  transpose of the velocity-error Jacobian.

For `Ball` and the translational rows of `Weld` the C++ reports `perr` in the ancestor frame but differentiates in
the frame of body 1; the true identities `d/dt perr = pverr + ω₁ × perr` and `d/dt pverr = paerr − ω₁ × pverr` are
proved (`*_derivative_general`) and the hierarchy follows **on the constraint manifold** (`*_on_manifold`).
For `NoSlip1D` the acceleration error differs from `d/dt verr` by an explicit term (`vaerr_derivative_general`) that
does *not* vanish on the manifold — finding F-C07-2 in notes/C07.md; the exact statement is proved, and the
hierarchy under the stated sufficient condition (`vaerr_is_derivative_of_no_centripetal_mismatch`).
-/
set_option linter.unusedSimpArgs false
set_option linter.unusedVariables false

namespace ConstraintEq

/-- unfold vectors, matrices, lifts and dual-number projections down to scalars -/
macro "to_scalars" : tactic => `(tactic|
  simp only [jetX, jetSV, jetR, rotDot, jetV, constV, constM, constX, epsV, valV, jet, stationLoc, stationVel, stationVelA,
    stationAcc, stationAccA, stationForce, stationForceA, bodyTorque, invXf, twice, SV.dot, SV.add, SV.sub, SV.zero,
    M33.mulVec, M33.tmulVec, M33.mul, M33.tmul, M33.transpose, M33.col0, M33.col1, M33.col2,
    V3.dot, V3.add, V3.sub, V3.smul, V3.cross, V3.neg, V3.zero,
    Jet1.add_val, Jet1.add_eps, Jet1.mul_val, Jet1.mul_eps, Jet1.sub_val, Jet1.sub_eps, Jet1.neg_val, Jet1.neg_eps,
    Jet1.zero_val, Jet1.zero_eps, V3.mk.injEq, Prod.mk.injEq, SV.mk.injEq])

section ring
variable {K : Type} [CommRing K]

/-! ## PointInPlane -/
namespace PointInPlane
/-- the constraint's parameters are constants in time -/
def Par.const (c : Par K) : Par (Jet1 K) := ⟨constV c.n, ⟨c.h, 0⟩, constV c.s⟩

theorem pverr_is_derivative (c : Par K) (XB XF : Xf K) (VB VF : SV K) (hB : IsOrtho XB.R) :
    (perr c.const (jetX XB VB) (jetX XF VF)).eps = pverr c XB XF VB VF := by
  simp only [pverr, stationVel, invXf, mulVec_tmulVec hB]
  simp only [perr, Par.const]; to_scalars; ring

theorem paerr_is_derivative (c : Par K) (XB XF : Xf K) (VB VF AB AF : SV K) (hB : IsOrtho XB.R) :
    (pverr c.const (jetX XB VB) (jetX XF VF) (jetSV VB AB) (jetSV VF AF)).eps = paerr c XB XF VB VF AB AF := by
  simp only [pverr, paerr, stationVel, stationAcc, invXf, mulVec_tmulVec hB, jetX, jet_mulVec_tmulVec hB]
  simp only [Par.const]; to_scalars; ring

theorem force_adjoint (c : Par K) (XB XF : Xf K) (VB VF : SV K) (lam : K) (hB : IsOrtho XB.R) :
    lam * pverr c XB XF VB VF = SV.dot (forces c XB XF lam).1 VB + SV.dot (forces c XB XF lam).2 VF := by
  simp only [pverr, forces, stationVel, stationForce, stationForceA, invXf, mulVec_tmulVec hB]
  to_scalars; ring

/-- non-vacuity: the hypotheses are satisfiable (identity pose of the plane body) -/
example (c : Par K) (XF : Xf K) (VB VF : SV K) :
    (perr c.const (jetX ⟨⟨⟨1, 0, 0⟩, ⟨0, 1, 0⟩, ⟨0, 0, 1⟩⟩, ⟨0, 0, 0⟩⟩ VB) (jetX XF VF)).eps
      = pverr c ⟨⟨⟨1, 0, 0⟩, ⟨0, 1, 0⟩, ⟨0, 0, 1⟩⟩, ⟨0, 0, 0⟩⟩ XF VB VF :=
  pverr_is_derivative c _ XF VB VF isOrtho_id
end PointInPlane

/-! ## PointOnLine -/
namespace PointOnLine
def Par.const (c : Par K) : Par (Jet1 K) := ⟨constV c.x, constV c.y, constV c.P, constV c.s⟩

theorem pverr_is_derivative (c : Par K) (XB XF : Xf K) (VB VF : SV K) (hB : IsOrtho XB.R) :
    ((perr c.const (jetX XB VB) (jetX XF VF)).1.eps, (perr c.const (jetX XB VB) (jetX XF VF)).2.eps)
      = pverr c XB XF VB VF := by
  simp only [pverr, stationVel, invXf, mulVec_tmulVec hB]
  simp only [perr, Par.const]; to_scalars; constructor <;> ring

theorem paerr_is_derivative (c : Par K) (XB XF : Xf K) (VB VF AB AF : SV K) (hB : IsOrtho XB.R) :
    ((pverr c.const (jetX XB VB) (jetX XF VF) (jetSV VB AB) (jetSV VF AF)).1.eps,
     (pverr c.const (jetX XB VB) (jetX XF VF) (jetSV VB AB) (jetSV VF AF)).2.eps)
      = paerr c XB XF VB VF AB AF := by
  simp only [pverr, paerr, stationVel, stationAcc, invXf, mulVec_tmulVec hB, jetX, jet_mulVec_tmulVec hB]
  simp only [Par.const]; to_scalars; constructor <;> ring

theorem force_adjoint (c : Par K) (XB XF : Xf K) (VB VF : SV K) (l0 l1 : K) (hB : IsOrtho XB.R) :
    l0 * (pverr c XB XF VB VF).1 + l1 * (pverr c XB XF VB VF).2
      = SV.dot (forces c XB XF l0 l1).1 VB + SV.dot (forces c XB XF l0 l1).2 VF := by
  simp only [pverr, forces, stationVel, stationForce, stationForceA, invXf, mulVec_tmulVec hB]
  to_scalars; ring
end PointOnLine

/-! ## ConstantAngle -/
namespace ConstantAngle
def Par.const (c : Par K) : Par (Jet1 K) := ⟨constV c.b, constV c.f, ⟨c.cosA, 0⟩⟩

theorem pverr_is_derivative (c : Par K) (XB XF : Xf K) (VB VF : SV K) :
    (perr c.const (jetX XB VB) (jetX XF VF)).eps = pverr c XB XF VB VF := by
  simp only [perr, pverr, Par.const]; to_scalars; ring

theorem paerr_is_derivative (c : Par K) (XB XF : Xf K) (VB VF AB AF : SV K) :
    (pverr c.const (jetX XB VB) (jetX XF VF) (jetSV VB AB) (jetSV VF AF)).eps = paerr c XB XF VB VF AB AF := by
  simp only [pverr, paerr, Par.const]; to_scalars; ring

theorem force_adjoint (c : Par K) (XB XF : Xf K) (VB VF : SV K) (lam : K) :
    lam * pverr c XB XF VB VF = SV.dot (forces c XB XF lam).1 VB + SV.dot (forces c XB XF lam).2 VF := by
  simp only [pverr, forces]; to_scalars; ring
end ConstantAngle

/-! ## ConstantOrientation -/
namespace ConstantOrientation
def Par.const (c : Par K) : Par (Jet1 K) := ⟨constM c.RB, constM c.RF⟩

theorem pverr_is_derivative (c : Par K) (XB XF : Xf K) (VB VF : SV K) :
    epsV (perr c.const (jetX XB VB) (jetX XF VF)) = pverr c XB XF VB VF := by
  simp only [perr, pverr, Orient.perr, Orient.pverr, Par.const]; to_scalars
  refine ⟨?_, ?_, ?_⟩ <;> ring

theorem paerr_is_derivative (c : Par K) (XB XF : Xf K) (VB VF AB AF : SV K) :
    epsV (pverr c.const (jetX XB VB) (jetX XF VF) (jetSV VB AB) (jetSV VF AF)) = paerr c XB XF VB VF AB AF := by
  simp only [pverr, paerr, Orient.pverr, Orient.paerr, Orient.paerr1, Par.const]; to_scalars
  refine ⟨?_, ?_, ?_⟩ <;> ring

theorem force_adjoint (c : Par K) (XB XF : Xf K) (VB VF : SV K) (lam : V3 K) :
    V3.dot lam (pverr c XB XF VB VF) = SV.dot (forces c XB XF lam).1 VB + SV.dot (forces c XB XF lam).2 VF := by
  simp only [pverr, forces, Orient.pverr, Orient.torqueF]; to_scalars; ring
end ConstantOrientation

/-! ## Ball -/
namespace Ball
def Par.const (c : Par K) : Par (Jet1 K) := ⟨constV c.p1, constV c.p2⟩

/-- the exact relation coded: `d/dt perr = pverr + ω₁ × perr` (the velocity error is the derivative taken in the
frame of body 1, re-expressed in A) -/
theorem pverr_derivative_general (c : Par K) (X1 X2 : Xf K) (V1 V2 : SV K) (h1 : IsOrtho X1.R) :
    epsV (perr c.const (jetX X1 V1) (jetX X2 V2)) = (pverr c X1 X2 V1 V2).add (V1.w.cross (perr c X1 X2)) := by
  simp only [pverr, stationVel, invXf, mulVec_tmulVec h1]
  simp only [perr, Par.const]; to_scalars
  refine ⟨?_, ?_, ?_⟩ <;> ring

/-- on the position manifold the velocity error is the time derivative of the position error -/
theorem pverr_is_derivative_on_manifold (c : Par K) (X1 X2 : Xf K) (V1 V2 : SV K) (h1 : IsOrtho X1.R)
    (h0 : perr c X1 X2 = V3.zero) :
    epsV (perr c.const (jetX X1 V1) (jetX X2 V2)) = pverr c X1 X2 V1 V2 := by
  rw [pverr_derivative_general c X1 X2 V1 V2 h1, h0, V3.add_cross_zero]

/-- whenever body 1 does not rotate in A (e.g. it *is* the ancestor) the hierarchy is exact at violated states too -/
theorem pverr_is_derivative_of_w1_zero (c : Par K) (X1 X2 : Xf K) (V1 V2 : SV K) (h1 : IsOrtho X1.R)
    (hw : V1.w = V3.zero) :
    epsV (perr c.const (jetX X1 V1) (jetX X2 V2)) = pverr c X1 X2 V1 V2 := by
  rw [pverr_derivative_general c X1 X2 V1 V2 h1, hw, V3.add_zero_cross]

/-- the exact relation coded at the next level: `d/dt pverr = paerr − ω₁ × pverr` -/
theorem paerr_derivative_general (c : Par K) (X1 X2 : Xf K) (V1 V2 A1 A2 : SV K) (h1 : IsOrtho X1.R) :
    epsV (pverr c.const (jetX X1 V1) (jetX X2 V2) (jetSV V1 A1) (jetSV V2 A2))
      = (paerr c X1 X2 V1 V2 A1 A2).sub (V1.w.cross (pverr c X1 X2 V1 V2)) := by
  simp only [pverr, paerr, stationVel, stationAcc, invXf, mulVec_tmulVec h1, jetX, jet_mulVec_tmulVec h1]
  simp only [Par.const]; to_scalars
  refine ⟨?_, ?_, ?_⟩ <;> ring

theorem paerr_is_derivative_on_manifold (c : Par K) (X1 X2 : Xf K) (V1 V2 A1 A2 : SV K) (h1 : IsOrtho X1.R)
    (h0 : pverr c X1 X2 V1 V2 = V3.zero) :
    epsV (pverr c.const (jetX X1 V1) (jetX X2 V2) (jetSV V1 A1) (jetSV V2 A2)) = paerr c X1 X2 V1 V2 A1 A2 := by
  rw [paerr_derivative_general c X1 X2 V1 V2 A1 A2 h1, h0, V3.sub_cross_zero]

theorem force_adjoint (c : Par K) (X1 X2 : Xf K) (V1 V2 : SV K) (lam : V3 K) (h1 : IsOrtho X1.R) :
    V3.dot lam (pverr c X1 X2 V1 V2) = SV.dot (forces c X1 X2 lam).1 V1 + SV.dot (forces c X1 X2 lam).2 V2 := by
  simp only [pverr, forces, stationVel, stationForce, stationForceA, invXf, mulVec_tmulVec h1]
  to_scalars; ring

/-- negative witness (finding F-C07-1): body 1 turning about z with rate 1, both stations at the body origins, body 2
displaced by (1,0,0) and at rest: the position error `(1,0,0)` has time derivative `0`, but the coded velocity error
is `(0,-1,0)` — the hierarchy fails off the manifold exactly by `ω₁ × perr` -/
theorem violated_witness :
    let I : M33 ℚ := ⟨⟨1, 0, 0⟩, ⟨0, 1, 0⟩, ⟨0, 0, 1⟩⟩
    let c : Par ℚ := ⟨⟨0, 0, 0⟩, ⟨0, 0, 0⟩⟩
    let X1 : Xf ℚ := ⟨I, ⟨0, 0, 0⟩⟩; let X2 : Xf ℚ := ⟨I, ⟨1, 0, 0⟩⟩
    let V1 : SV ℚ := ⟨⟨0, 0, 1⟩, ⟨0, 0, 0⟩⟩; let V2 : SV ℚ := ⟨⟨0, 0, 0⟩, ⟨0, 0, 0⟩⟩
    epsV (perr c.const (jetX X1 V1) (jetX X2 V2)) = ⟨0, 0, 0⟩ ∧ pverr c X1 X2 V1 V2 = ⟨0, -1, 0⟩ := by
  simp only [perr, pverr, Par.const]; to_scalars; norm_num

/-- non-vacuity of the on-manifold hypotheses: coincident stations, identity poses -/
example (V1 V2 : SV ℚ) :
    epsV (perr (Par.const ⟨⟨1, 2, 3⟩, ⟨1, 2, 3⟩⟩) (jetX ⟨⟨⟨1, 0, 0⟩, ⟨0, 1, 0⟩, ⟨0, 0, 1⟩⟩, ⟨0, 0, 0⟩⟩ V1)
        (jetX ⟨⟨⟨1, 0, 0⟩, ⟨0, 1, 0⟩, ⟨0, 0, 1⟩⟩, ⟨0, 0, 0⟩⟩ V2))
      = pverr ⟨⟨1, 2, 3⟩, ⟨1, 2, 3⟩⟩ ⟨⟨⟨1, 0, 0⟩, ⟨0, 1, 0⟩, ⟨0, 0, 1⟩⟩, ⟨0, 0, 0⟩⟩
          ⟨⟨⟨1, 0, 0⟩, ⟨0, 1, 0⟩, ⟨0, 0, 1⟩⟩, ⟨0, 0, 0⟩⟩ V1 V2 :=
  pverr_is_derivative_on_manifold _ _ _ V1 V2 isOrtho_id (by simp only [perr]; to_scalars; norm_num)
end Ball

/-! ## Weld -/
namespace Weld
def Par.const (c : Par K) : Par (Jet1 K) := ⟨constX c.FB, constX c.FF⟩

/-- orientation rows: exact derivative -/
theorem pverr_rot_is_derivative (c : Par K) (XB XF : Xf K) (VB VF : SV K) :
    epsV (perr c.const (jetX XB VB) (jetX XF VF)).1 = (pverr c XB XF VB VF).1 := by
  simp only [perr, pverr, Orient.perr, Orient.pverr, Par.const]; to_scalars
  refine ⟨?_, ?_, ?_⟩ <;> ring

/-- translational rows: `d/dt perr = pverr + ω_B × perr` (as for Ball) -/
theorem pverr_pos_derivative_general (c : Par K) (XB XF : Xf K) (VB VF : SV K) (hB : IsOrtho XB.R) :
    epsV (perr c.const (jetX XB VB) (jetX XF VF)).2
      = (pverr c XB XF VB VF).2.add (VB.w.cross (perr c XB XF).2) := by
  simp only [pverr, stationVel, invXf, mulVec_tmulVec hB]
  simp only [perr, Par.const]; to_scalars
  refine ⟨?_, ?_, ?_⟩ <;> ring

theorem pverr_is_derivative_on_manifold (c : Par K) (XB XF : Xf K) (VB VF : SV K) (hB : IsOrtho XB.R)
    (h0 : (perr c XB XF).2 = V3.zero) :
    (epsV (perr c.const (jetX XB VB) (jetX XF VF)).1, epsV (perr c.const (jetX XB VB) (jetX XF VF)).2)
      = pverr c XB XF VB VF := by
  rw [pverr_rot_is_derivative, pverr_pos_derivative_general c XB XF VB VF hB, h0, V3.add_cross_zero]

theorem paerr_rot_is_derivative (c : Par K) (XB XF : Xf K) (VB VF AB AF : SV K) :
    epsV (pverr c.const (jetX XB VB) (jetX XF VF) (jetSV VB AB) (jetSV VF AF)).1
      = (paerr c XB XF VB VF AB AF).1 := by
  simp only [pverr, paerr, Orient.pverr, Orient.paerr, Orient.paerr1, Par.const]; to_scalars
  refine ⟨?_, ?_, ?_⟩ <;> ring

theorem paerr_pos_derivative_general (c : Par K) (XB XF : Xf K) (VB VF AB AF : SV K) (hB : IsOrtho XB.R) :
    epsV (pverr c.const (jetX XB VB) (jetX XF VF) (jetSV VB AB) (jetSV VF AF)).2
      = (paerr c XB XF VB VF AB AF).2.sub (VB.w.cross (pverr c XB XF VB VF).2) := by
  simp only [pverr, paerr, stationVel, stationAcc, invXf, mulVec_tmulVec hB, jetX, jet_mulVec_tmulVec hB]
  simp only [Par.const]; to_scalars
  refine ⟨?_, ?_, ?_⟩ <;> ring

theorem paerr_is_derivative_on_manifold (c : Par K) (XB XF : Xf K) (VB VF AB AF : SV K) (hB : IsOrtho XB.R)
    (h0 : (pverr c XB XF VB VF).2 = V3.zero) :
    (epsV (pverr c.const (jetX XB VB) (jetX XF VF) (jetSV VB AB) (jetSV VF AF)).1,
     epsV (pverr c.const (jetX XB VB) (jetX XF VF) (jetSV VB AB) (jetSV VF AF)).2)
      = paerr c XB XF VB VF AB AF := by
  rw [paerr_rot_is_derivative, paerr_pos_derivative_general c XB XF VB VF AB AF hB, h0, V3.sub_cross_zero]

theorem force_adjoint (c : Par K) (XB XF : Xf K) (VB VF : SV K) (lt lf : V3 K) (hB : IsOrtho XB.R) :
    V3.dot lt (pverr c XB XF VB VF).1 + V3.dot lf (pverr c XB XF VB VF).2
      = SV.dot (forces c XB XF lt lf).1 VB + SV.dot (forces c XB XF lt lf).2 VF := by
  simp only [pverr, forces, Orient.pverr, Orient.torqueF, stationVel, stationForce, stationForceA, invXf,
    mulVec_tmulVec hB]
  to_scalars; ring
end Weld

/-! ## NoSlip1D -/
namespace NoSlip1D
def Par.const (c : Par K) : Par (Jet1 K) := ⟨constV c.P, constV c.n⟩

/-- what the code's acceleration error leaves out: the contact point `P` is fixed in the case body `C`, so the
material points `P₀`, `P₁` of the moving bodies coincident with it *change*; their drift velocity through each body
is `v_P^C − v_APᵢ` and contributes `ωᵢ × (v_P^C − v_APᵢ)` to `d/dt v_APᵢ` -/
def missing (c : Par K) (XC X0 X1 : Xf K) (VC V0 V1 : SV K) : K :=
  let p_AP := stationLoc XC c.P
  let r0 := p_AP.sub X0.p
  let r1 := p_AP.sub X1.p
  let n_A := XC.R.mulVec c.n
  let vP := stationVel XC VC c.P           -- velocity of P as a point of C
  let v0 := stationVelA V0 r0
  let v1 := stationVelA V1 r1
  V3.dot ((V1.w.cross (vP.sub v1)).sub (V0.w.cross (vP.sub v0))) n_A

/-- exact relation between the coded acceleration error and the time derivative of the velocity error -/
theorem vaerr_derivative_general (c : Par K) (XC X0 X1 : Xf K) (VC V0 V1 AC A0 A1 : SV K)
    (h0 : IsOrtho X0.R) (h1 : IsOrtho X1.R) :
    (verr c.const (jetX XC VC) (jetX X0 V0) (jetX X1 V1) (jetSV V0 A0) (jetSV V1 A1)).eps
      = vaerr c XC X0 X1 VC V0 V1 A0 A1 + missing c XC X0 X1 VC V0 V1 := by
  simp only [verr, vaerr, missing, stationVel, stationAcc, invXf, mulVec_tmulVec h0, mulVec_tmulVec h1, jetX,
    jet_mulVec_tmulVec h0, jet_mulVec_tmulVec h1]
  simp only [Par.const]; to_scalars; ring

/-- the hierarchy holds exactly when the centripetal terms agree along `n` (e.g. contact point on the line of
centres of two gears, or non-rotating moving bodies) -/
theorem vaerr_is_derivative_of_no_centripetal_mismatch (c : Par K) (XC X0 X1 : Xf K) (VC V0 V1 AC A0 A1 : SV K)
    (h0 : IsOrtho X0.R) (h1 : IsOrtho X1.R) (hm : missing c XC X0 X1 VC V0 V1 = 0) :
    (verr c.const (jetX XC VC) (jetX X0 V0) (jetX X1 V1) (jetSV V0 A0) (jetSV V1 A1)).eps
      = vaerr c XC X0 X1 VC V0 V1 A0 A1 := by
  rw [vaerr_derivative_general c XC X0 X1 VC V0 V1 AC A0 A1 h0 h1, hm, add_zero]

/-- concrete witness that the missing term is not identically zero on the velocity manifold: two wheels turning
about z through (0,0,0) and (3,0,0), contact point (1, 1/2, 0) fixed in Ground, direction y, rates 2 and −1:
`verr = 0` but `missing = −3/2` (matches the implementation: aerr(udot=0) = 3/2 while d/dt verr = 0) -/
theorem missing_witness :
    let I : M33 ℚ := ⟨⟨1, 0, 0⟩, ⟨0, 1, 0⟩, ⟨0, 0, 1⟩⟩
    let c : Par ℚ := ⟨⟨1, 1/2, 0⟩, ⟨0, 1, 0⟩⟩
    let XC : Xf ℚ := ⟨I, ⟨0, 0, 0⟩⟩; let X0 : Xf ℚ := ⟨I, ⟨0, 0, 0⟩⟩; let X1 : Xf ℚ := ⟨I, ⟨3, 0, 0⟩⟩
    let Z : SV ℚ := ⟨⟨0, 0, 0⟩, ⟨0, 0, 0⟩⟩
    let V0 : SV ℚ := ⟨⟨0, 0, 2⟩, ⟨0, 0, 0⟩⟩; let V1 : SV ℚ := ⟨⟨0, 0, -1⟩, ⟨0, 0, 0⟩⟩
    verr c XC X0 X1 V0 V1 = 0 ∧ missing c XC X0 X1 Z V0 V1 = -3/2 ∧ vaerr c XC X0 X1 Z V0 V1 Z Z = 3/2 := by
  simp only [verr, vaerr, missing]; to_scalars; norm_num

theorem force_adjoint (c : Par K) (XC X0 X1 : Xf K) (VC V0 V1 : SV K) (lam : K)
    (h0 : IsOrtho X0.R) (h1 : IsOrtho X1.R) :
    lam * verr c XC X0 X1 V0 V1
      = SV.dot (forces c XC X0 X1 lam).1 VC + SV.dot (forces c XC X0 X1 lam).2.1 V0
        + SV.dot (forces c XC X0 X1 lam).2.2 V1 := by
  simp only [verr, forces, stationVel, stationForce, stationForceA, invXf, mulVec_tmulVec h0, mulVec_tmulVec h1]
  to_scalars; ring
end NoSlip1D

/-! ## PointOnPlaneContact -/
namespace PointOnPlaneContact
def Par.const (c : Par K) : Par (Jet1 K) := ⟨constX c.XP, constV c.pF⟩

theorem pverr_is_derivative (c : Par K) (XS XB : Xf K) (VS VB : SV K) :
    (perr c.const (jetX XS VS) (jetX XB VB)).eps = pverr c XS XB VS VB := by
  simp only [perr, pverr, vCF, Par.const]; to_scalars; ring

theorem paerr_is_derivative (c : Par K) (XS XB : Xf K) (VS VB AS AB : SV K) :
    (pverr c.const (jetX XS VS) (jetX XB VB) (jetSV VS AS) (jetSV VB AB)).eps = paerr c XS XB VS VB AS AB := by
  simp only [pverr, paerr, vCF, aRel, Par.const]; to_scalars; ring

/-- the two no-slip (nonholonomic) rows -/
theorem vaerr_is_derivative (c : Par K) (XS XB : Xf K) (VS VB AS AB : SV K) (hS : IsOrtho XS.R) :
    ((verr c.const (jetX XS VS) (jetX XB VB) (jetSV VS AS) (jetSV VB AB)).1.eps,
     (verr c.const (jetX XS VS) (jetX XB VB) (jetSV VS AS) (jetSV VB AB)).2.eps)
      = vaerr c XS XB VS VB AS AB := by
  simp only [verr, vaerr, aRel, stationVel, invXf, jetX, jet_mulVec_tmulVec hS]
  simp only [Par.const]; to_scalars; constructor <;> ring

theorem force_adjoint (c : Par K) (XS XB : Xf K) (VS VB : SV K) (ln l0 l1 : K) (hS : IsOrtho XS.R) :
    ln * pverr c XS XB VS VB + l0 * (verr c XS XB VS VB).1 + l1 * (verr c XS XB VS VB).2
      = SV.dot (forces c XS XB ln l0 l1).1 VS + SV.dot (forces c XS XB ln l0 l1).2 VB := by
  simp only [pverr, verr, vCF, forces, stationVel, invXf, mulVec_tmulVec hS]
  to_scalars; ring
end PointOnPlaneContact

/-! ## couplers, relative to the user Function's derivatives (the definitional restatements for ConstantCoordinate,
ConstantSpeed, ConstantAcceleration, PrescribedMotion are in `C07_lemmas.lean` and are not counted as obligations) -/
namespace CoordinateCoupler
/-- If the Hessian `H` the user Function returns is the derivative of its gradient `g` (`gd_i = Σ_j H_ij q̇_j`, packaged as
`dotL gd qd = quadL H qd qd`), then `paerr` is the time derivative of `pverr` (the first level, `pverr = d/dt perr`, is
literally the chain-rule contract of `Function::calcDerivative` and is not restated as a theorem) -/
theorem paerr_is_derivative (g gd qd qdd : List K) (H : List (List K))
    (hl : g.length = gd.length) (hx : qd.length = qdd.length) (hgx : g.length = qd.length)
    (hH : dotL gd qd = quadL H qd qd) :
    (pverr (List.zipWith (fun a b => (⟨a, b⟩ : Jet1 K)) g gd) (List.zipWith (fun a b => (⟨a, b⟩ : Jet1 K)) qd qdd)).eps
      = paerr g H qd qdd := by
  simp only [pverr, paerr]
  rw [dotL_jet g gd qd qdd hl hx hgx, hH]; ring

theorem force_adjoint (g qd : List K) (lam : K) : lam * pverr g qd = dotL (qforces g lam) qd := by
  simp only [pverr, qforces, dotL_smul]
end CoordinateCoupler

namespace SpeedCoupler
/-- the mobility forces `(∂f/∂u_i) λ` on the speed arguments are the transpose of the `udot`-linear part of `vaerr` -/
theorem force_adjoint (ns : Nat) (g ud : List K) (lam : K) :
    lam * dotL (g.take ns) ud = dotL (uforces ns g lam) ud := by
  simp only [uforces]
  have h : ∀ (l x : List K), dotL (l.map (fun gi => gi * lam)) x = lam * dotL l x := by
    intro l; induction l with
    | nil => intro x; simp [dotL]
    | cons a t ih => intro x; cases x with
      | nil => simp [dotL]
      | cons y ys => simp only [List.map_cons, dotL, ih]; ring
  rw [h]
end SpeedCoupler

/-! ## from the ancestor frame to Ground: forces on the constrained bodies only

`multiplyByPVATranspose` re-expresses each constraint's body forces in Ground (`R_GA * F_B`) and applies them to the
constrained bodies — nothing to the ancestor, although the velocity errors are functions of the ancestor-relative
velocities `relVel(V_GA, V_GB)`.  That this is still the transpose rests on every constraint's forces being balanced
(zero net wrench), proved per type below (`T.forces_balance`), and on `relVel_adjoint`. -/
/-- re-express a spatial force given in the ancestor frame `A` in Ground: `R_GA * F` -/
def rotSV (R : M33 K) (F : SV K) : SV K := ⟨R.mulVec F.w, R.mulVec F.v⟩

/-- the wrench of `F` (acting at the origin of `B`) about the ancestor's origin, expressed in Ground -/
def wrenchAboutA (XA XB : Xf K) (F : SV K) : SV K :=
  ⟨(XA.R.mulVec F.w).add ((XB.p.sub XA.p).cross (XA.R.mulVec F.v)), XA.R.mulVec F.v⟩

/-- transpose of `findRelativeVelocity`: pairing a force with the ancestor-relative velocity equals pairing the
re-expressed force with the body's Ground velocity minus pairing its wrench about `Ao` with the ancestor's velocity -/
theorem relVel_adjoint (XA XB : Xf K) (VA VB F : SV K) :
    SV.dot F (relVel XA VA XB VB) = SV.dot (rotSV XA.R F) VB - SV.dot (wrenchAboutA XA XB F) VA := by
  obtain ⟨⟨⟨r00, r01, r02⟩, ⟨r10, r11, r12⟩, ⟨r20, r21, r22⟩⟩, ⟨pa0, pa1, pa2⟩⟩ := XA
  obtain ⟨RB, ⟨pb0, pb1, pb2⟩⟩ := XB
  obtain ⟨⟨wa0, wa1, wa2⟩, ⟨va0, va1, va2⟩⟩ := VA; obtain ⟨⟨wb0, wb1, wb2⟩, ⟨vb0, vb1, vb2⟩⟩ := VB
  obtain ⟨⟨t0, t1, t2⟩, ⟨f0, f1, f2⟩⟩ := F
  simp only [relVel, rotSV, wrenchAboutA]; to_scalars; ring

/-- rows of `R` right-handed -/
structure IsRightHandedRows (R : M33 K) : Prop where
  h0 : R.r1.cross R.r2 = R.r0
  h1 : R.r2.cross R.r0 = R.r1
  h2 : R.r0.cross R.r1 = R.r2

/-- balance of two spatial forces (acting at the origins `p1`, `p2`, everything in the ancestor frame):
zero net force and zero net moment about the ancestor origin -/
def Balanced2 (p1 p2 : V3 K) (F1 F2 : SV K) : Prop :=
  F1.v.add F2.v = V3.zero ∧ ((F1.w.add (p1.cross F1.v)).add (F2.w.add (p2.cross F2.v))) = V3.zero

theorem mulVec_cross {R : M33 K} (h : IsRightHandedRows R) (a b : V3 K) :
    R.mulVec (a.cross b) = (R.mulVec a).cross (R.mulVec b) := by
  obtain ⟨h0, h1, h2⟩ := h
  obtain ⟨⟨r00, r01, r02⟩, ⟨r10, r11, r12⟩, ⟨r20, r21, r22⟩⟩ := R
  obtain ⟨a0, a1, a2⟩ := a; obtain ⟨b0, b1, b2⟩ := b
  simp only [V3.cross, V3.mk.injEq] at h0 h1 h2
  obtain ⟨h00, h01, h02⟩ := h0; obtain ⟨h10, h11, h12⟩ := h1; obtain ⟨h20, h21, h22⟩ := h2
  simp only [M33.mulVec, V3.dot, V3.cross, V3.mk.injEq]
  refine ⟨?_, ?_, ?_⟩
  · linear_combination (-(a1 * b2 - a2 * b1)) * h00 + (-(a2 * b0 - a0 * b2)) * h01 + (-(a0 * b1 - a1 * b0)) * h02
  · linear_combination (-(a1 * b2 - a2 * b1)) * h10 + (-(a2 * b0 - a0 * b2)) * h11 + (-(a0 * b1 - a1 * b0)) * h12
  · linear_combination (-(a1 * b2 - a2 * b1)) * h20 + (-(a2 * b0 - a0 * b2)) * h21 + (-(a0 * b1 - a1 * b0)) * h22

theorem mulVec_add (R : M33 K) (a b : V3 K) : R.mulVec (a.add b) = (R.mulVec a).add (R.mulVec b) := by
  simp only [M33.mulVec, V3.dot, V3.add, V3.mk.injEq]; refine ⟨?_, ?_, ?_⟩ <;> ring
theorem mulVec_zero (R : M33 K) : R.mulVec V3.zero = V3.zero := by
  simp only [M33.mulVec, V3.dot, V3.zero, V3.mk.injEq]; refine ⟨?_, ?_, ?_⟩ <;> ring

/-- a balanced pair of constraint forces does no work through the ancestor's own motion -/
theorem wrench_cancels (XA X1 X2 : Xf K) (VA F1 F2 : SV K) (hO : IsOrtho XA.R) (hR : IsRightHandedRows XA.R)
    (hb : Balanced2 (relPose XA X1).p (relPose XA X2).p F1 F2) :
    SV.dot (wrenchAboutA XA X1 F1) VA + SV.dot (wrenchAboutA XA X2 F2) VA = 0 := by
  obtain ⟨hf, hm⟩ := hb
  have hW2 := congrArg XA.R.mulVec hf
  have hW1 := congrArg XA.R.mulVec hm
  simp only [relPose, mulVec_add, mulVec_cross hR, mulVec_tmulVec hO, mulVec_zero] at hW1 hW2
  have e1 := congrArg (fun v => V3.dot v VA.w) hW1
  have e2 := congrArg (fun v => V3.dot v VA.v) hW2
  simp only [wrenchAboutA, SV.dot, V3.dot, V3.add, V3.zero] at e1 e2 ⊢
  linear_combination e1 + e2

/-- **Ground-frame adjoint for a two-body constraint with any ancestor**: if the constraint's forces (in `A`) are the
transpose of its velocity error w.r.t. the ancestor-relative velocities and are balanced, then the forces re-expressed
in Ground and applied to the two constrained bodies ONLY (nothing on the ancestor) are the transpose of the velocity
error as a function of the bodies' Ground velocities -/
theorem ground_adjoint_two (XA X1 X2 : Xf K) (VA V1 V2 F1 F2 : SV K) (hO : IsOrtho XA.R) (hR : IsRightHandedRows XA.R)
    (hb : Balanced2 (relPose XA X1).p (relPose XA X2).p F1 F2) :
    SV.dot F1 (relVel XA VA X1 V1) + SV.dot F2 (relVel XA VA X2 V2)
      = SV.dot (rotSV XA.R F1) V1 + SV.dot (rotSV XA.R F2) V2 := by
  rw [relVel_adjoint, relVel_adjoint]
  linear_combination (-1 : K) * wrench_cancels XA X1 X2 VA F1 F2 hO hR hb

/-! ### per-type balance of the constraint forces (about the ancestor origin, in `A`) and the Ground-frame adjoint -/
namespace PointInPlane
theorem forces_balance (c : Par K) (XB XF : Xf K) (lam : K) (hB : IsOrtho XB.R) :
    Balanced2 XB.p XF.p (forces c XB XF lam).1 (forces c XB XF lam).2 := by
  simp only [Balanced2, forces, stationForce, stationForceA, invXf, mulVec_tmulVec hB]
  to_scalars; refine ⟨⟨?_, ?_, ?_⟩, ⟨?_, ?_, ?_⟩⟩ <;> ring

/-- virtual work in Ground for any ancestor: `λ·pverr` (evaluated, as the code does, on the ancestor-relative kinematics) equals
the power of the re-expressed forces on the two constrained bodies against their Ground velocities -/
theorem ground_adjoint (c : Par K) (A B F : Kin K) (lam : K) (hA : IsOrtho A.X.R) (hR : IsRightHandedRows A.X.R)
    (hB : IsOrtho (relPose A.X B.X).R) :
    lam * pverr c (toAncestor A B).X (toAncestor A F).X (toAncestor A B).V (toAncestor A F).V
      = SV.dot (rotSV A.X.R (forces c (toAncestor A B).X (toAncestor A F).X lam).1) B.V
        + SV.dot (rotSV A.X.R (forces c (toAncestor A B).X (toAncestor A F).X lam).2) F.V := by
  simp only [toAncestor]
  rw [force_adjoint c _ _ _ _ lam hB]
  exact ground_adjoint_two A.X B.X F.X A.V B.V F.V _ _ hA hR (forces_balance c _ _ lam hB)
end PointInPlane

namespace PointOnLine
theorem forces_balance (c : Par K) (XB XF : Xf K) (l0 l1 : K) (hB : IsOrtho XB.R) :
    Balanced2 XB.p XF.p (forces c XB XF l0 l1).1 (forces c XB XF l0 l1).2 := by
  simp only [Balanced2, forces, stationForce, stationForceA, invXf, mulVec_tmulVec hB]
  to_scalars; refine ⟨⟨?_, ?_, ?_⟩, ⟨?_, ?_, ?_⟩⟩ <;> ring
end PointOnLine

namespace ConstantAngle
theorem forces_balance (c : Par K) (XB XF : Xf K) (lam : K) :
    Balanced2 XB.p XF.p (forces c XB XF lam).1 (forces c XB XF lam).2 := by
  simp only [Balanced2, forces]; to_scalars; refine ⟨⟨?_, ?_, ?_⟩, ⟨?_, ?_, ?_⟩⟩ <;> ring
end ConstantAngle

namespace ConstantOrientation
theorem forces_balance (c : Par K) (XB XF : Xf K) (lam : V3 K) :
    Balanced2 XB.p XF.p (forces c XB XF lam).1 (forces c XB XF lam).2 := by
  simp only [Balanced2, forces, Orient.torqueF]; to_scalars; refine ⟨⟨?_, ?_, ?_⟩, ⟨?_, ?_, ?_⟩⟩ <;> ring
end ConstantOrientation

namespace Ball
theorem forces_balance (c : Par K) (X1 X2 : Xf K) (lam : V3 K) (h1 : IsOrtho X1.R) :
    Balanced2 X1.p X2.p (forces c X1 X2 lam).1 (forces c X1 X2 lam).2 := by
  simp only [Balanced2, forces, stationForce, stationForceA, invXf, mulVec_tmulVec h1]
  to_scalars; refine ⟨⟨?_, ?_, ?_⟩, ⟨?_, ?_, ?_⟩⟩ <;> ring

theorem ground_adjoint (c : Par K) (A B1 B2 : Kin K) (lam : V3 K) (hA : IsOrtho A.X.R) (hR : IsRightHandedRows A.X.R)
    (h1 : IsOrtho (relPose A.X B1.X).R) :
    V3.dot lam (pverr c (toAncestor A B1).X (toAncestor A B2).X (toAncestor A B1).V (toAncestor A B2).V)
      = SV.dot (rotSV A.X.R (forces c (toAncestor A B1).X (toAncestor A B2).X lam).1) B1.V
        + SV.dot (rotSV A.X.R (forces c (toAncestor A B1).X (toAncestor A B2).X lam).2) B2.V := by
  simp only [toAncestor]
  rw [force_adjoint c _ _ _ _ lam h1]
  exact ground_adjoint_two A.X B1.X B2.X A.V B1.V B2.V _ _ hA hR (forces_balance c _ _ lam h1)
end Ball

namespace Weld
theorem forces_balance (c : Par K) (XB XF : Xf K) (lt lf : V3 K) (hB : IsOrtho XB.R) :
    Balanced2 XB.p XF.p (forces c XB XF lt lf).1 (forces c XB XF lt lf).2 := by
  simp only [Balanced2, forces, Orient.torqueF, stationForce, stationForceA, invXf, mulVec_tmulVec hB]
  to_scalars; refine ⟨⟨?_, ?_, ?_⟩, ⟨?_, ?_, ?_⟩⟩ <;> ring
end Weld

namespace NoSlip1D
/-- the case body receives nothing; the two moving bodies receive a balanced pair -/
theorem forces_balance (c : Par K) (XC X0 X1 : Xf K) (lam : K) (h0 : IsOrtho X0.R) (h1 : IsOrtho X1.R) :
    (forces c XC X0 X1 lam).1 = SV.zero ∧
    Balanced2 X0.p X1.p (forces c XC X0 X1 lam).2.1 (forces c XC X0 X1 lam).2.2 := by
  simp only [Balanced2, forces, stationForce, stationForceA, invXf, mulVec_tmulVec h0, mulVec_tmulVec h1]
  to_scalars; refine ⟨trivial, ⟨?_, ?_, ?_⟩, ⟨?_, ?_, ?_⟩⟩ <;> ring
end NoSlip1D

namespace PointOnPlaneContact
theorem forces_balance (c : Par K) (XS XB : Xf K) (ln l0 l1 : K) :
    Balanced2 XS.p XB.p (forces c XS XB ln l0 l1).1 (forces c XS XB ln l0 l1).2 := by
  simp only [Balanced2, forces]; to_scalars; refine ⟨⟨?_, ?_, ?_⟩, ⟨?_, ?_, ?_⟩⟩ <;> ring
end PointOnPlaneContact

/-! ## Ground → Ancestor conversion (`findRelativeVelocity`, `findRelativeAcceleration`) -/

/-- the ancestor-frame origin velocity is the time derivative of the ancestor-frame origin location
`p_AB = ~R_GA (p_GB − p_GA)` (no hypothesis at all) -/
theorem relVel_v_is_derivative (XA XB : Xf K) (VA VB : SV K) :
    epsV (relPose (jetX XA VA) (jetX XB VB)).p = (relVel XA VA XB VB).v := by
  simp only [relPose, relVel]; to_scalars; refine ⟨?_, ?_, ?_⟩ <;> ring

/-- the ancestor-frame spatial acceleration is the time derivative of the ancestor-frame spatial velocity -/
theorem relAcc_is_derivative (XA XB : Xf K) (VA VB AA AB : SV K) :
    epsV (relVel (jetX XA VA) (jetSV VA AA) (jetX XB VB) (jetSV VB AB)).w = (relAcc XA VA AA XB VB AB).w ∧
    epsV (relVel (jetX XA VA) (jetSV VA AA) (jetX XB VB) (jetSV VB AB)).v = (relAcc XA VA AA XB VB AB).v := by
  -- destructure first: keeps the kernel from re-unfolding the shared `let`s of `relAcc` (83 s → <1 s)
  obtain ⟨⟨⟨r00, r01, r02⟩, ⟨r10, r11, r12⟩, ⟨r20, r21, r22⟩⟩, ⟨pa0, pa1, pa2⟩⟩ := XA
  obtain ⟨RB, ⟨pb0, pb1, pb2⟩⟩ := XB
  obtain ⟨⟨wa0, wa1, wa2⟩, ⟨va0, va1, va2⟩⟩ := VA; obtain ⟨⟨wb0, wb1, wb2⟩, ⟨vb0, vb1, vb2⟩⟩ := VB
  obtain ⟨⟨ba0, ba1, ba2⟩, ⟨aa0, aa1, aa2⟩⟩ := AA; obtain ⟨⟨bb0, bb1, bb2⟩, ⟨ab0, ab1, ab2⟩⟩ := AB
  simp only [relVel, relAcc]; to_scalars; refine ⟨⟨?_, ?_, ?_⟩, ⟨?_, ?_, ?_⟩⟩ <;> ring

/-- columns of `R` form a right-handed triad (`R` is a proper rotation) -/
structure IsRightHanded (R : M33 K) : Prop where
  h0 : R.col1.cross R.col2 = R.col0
  h1 : R.col2.cross R.col0 = R.col1
  h2 : R.col0.cross R.col1 = R.col2

/-- re-expressing commutes with the cross product: `~R (a × b) = (~R a) × (~R b)`; this is what makes
`w_AB = ~R_GA (w_GB − w_GA)` the angular velocity of `R_AB = ~R_GA R_GB` -/
theorem tmulVec_cross {R : M33 K} (h : IsRightHanded R) (a b : V3 K) :
    R.tmulVec (a.cross b) = (R.tmulVec a).cross (R.tmulVec b) := by
  obtain ⟨h0, h1, h2⟩ := h
  obtain ⟨⟨r00, r01, r02⟩, ⟨r10, r11, r12⟩, ⟨r20, r21, r22⟩⟩ := R
  obtain ⟨a0, a1, a2⟩ := a; obtain ⟨b0, b1, b2⟩ := b
  simp only [M33.col0, M33.col1, M33.col2, V3.cross, V3.mk.injEq] at h0 h1 h2
  obtain ⟨h00, h01, h02⟩ := h0; obtain ⟨h10, h11, h12⟩ := h1; obtain ⟨h20, h21, h22⟩ := h2
  simp only [M33.tmulVec, V3.cross, V3.mk.injEq]
  refine ⟨?_, ?_, ?_⟩
  · linear_combination (-(a1 * b2 - a2 * b1)) * h00 + (-(a2 * b0 - a0 * b2)) * h01 + (-(a0 * b1 - a1 * b0)) * h02
  · linear_combination (-(a1 * b2 - a2 * b1)) * h10 + (-(a2 * b0 - a0 * b2)) * h11 + (-(a0 * b1 - a1 * b0)) * h12
  · linear_combination (-(a1 * b2 - a2 * b1)) * h20 + (-(a2 * b0 - a0 * b2)) * h21 + (-(a0 * b1 - a1 * b0)) * h22

example : IsRightHanded (⟨⟨1, 0, 0⟩, ⟨0, 1, 0⟩, ⟨0, 0, 1⟩⟩ : M33 K) := by
  constructor <;> simp [M33.col0, M33.col1, M33.col2, V3.cross]

end ring

/-! ## Rod (needs `√` and a reciprocal: field) -/
section field
variable {K : Type} [Field K]

namespace Rod
def Par.const (c : Par K) : Par (Jet1 K) := ⟨constV c.pF, constV c.pB, ⟨c.d, 0⟩⟩
/-- jet lift of a square root `s` (first-order Taylor coefficient `ẋ / (2√x)`) -/
def sqrtJ (s : K → K) (x : Jet1 K) : Jet1 K := ⟨s x.val, x.eps / (2 * s x.val)⟩
/-- jet lift of the reciprocal -/
def invJ (x : Jet1 K) : Jet1 K := ⟨x.val⁻¹, -x.eps / (x.val * x.val)⟩

/-- `r² = p·p` and `r ≠ 0` is all that is assumed of `sqrt` (non-singular branch of the C++: `r ≥ TinyReal`) -/
theorem pverr_is_derivative (s : K → K) (c : Par K) (XF XB : Xf K) (VF VB : SV K)
    (hs : s (V3.dot (pvec c XF XB) (pvec c XF XB)) * s (V3.dot (pvec c XF XB) (pvec c XF XB))
            = V3.dot (pvec c XF XB) (pvec c XF XB))
    (hne : s (V3.dot (pvec c XF XB) (pvec c XF XB)) ≠ 0) (h2 : (2 : K) ≠ 0) :
    (perr (sqrtJ s) c.const (jetX XF VF) (jetX XB VB)).eps = pverr s (·⁻¹) c XF XB VF VB := by
  simp only [perr, pverr, Cz, sqrtJ, Par.const, Jet1.sub_eps]
  have hv : (V3.dot (pvec (Par.const c) (jetX XF VF) (jetX XB VB)) (pvec (Par.const c) (jetX XF VF) (jetX XB VB))).val
      = V3.dot (pvec c XF XB) (pvec c XF XB) := by
    simp only [pvec, Par.const]; to_scalars
  have he : (V3.dot (pvec (Par.const c) (jetX XF VF) (jetX XB VB)) (pvec (Par.const c) (jetX XF VF) (jetX XB VB))).eps
      = 2 * V3.dot (pdvec c XF XB VF VB) (pvec c XF XB) := by
    simp only [pvec, pdvec, Par.const]; to_scalars; ring
  simp only [Par.const] at hv he
  rw [hv, he]
  generalize s (V3.dot (pvec c XF XB) (pvec c XF XB)) = r at hs hne ⊢
  generalize pvec c XF XB = p
  generalize pdvec c XF XB VF VB = pd
  obtain ⟨p0, p1, p2⟩ := p; obtain ⟨d0, d1, d2⟩ := pd
  simp only [V3.dot, V3.smul]
  field_simp
  ring

/-- non-vacuity: 3-4-5 triangle over ℚ, `sqrt := fun _ => 5` -/
example (VF VB : SV ℚ) :
    (perr (sqrtJ (fun _ => (5 : ℚ))) (Par.const ⟨⟨0, 0, 0⟩, ⟨3, 4, 0⟩, 1⟩)
        (jetX ⟨⟨⟨1, 0, 0⟩, ⟨0, 1, 0⟩, ⟨0, 0, 1⟩⟩, ⟨0, 0, 0⟩⟩ VF) (jetX ⟨⟨⟨1, 0, 0⟩, ⟨0, 1, 0⟩, ⟨0, 0, 1⟩⟩, ⟨0, 0, 0⟩⟩ VB)).eps
      = pverr (fun _ => (5 : ℚ)) (·⁻¹) ⟨⟨0, 0, 0⟩, ⟨3, 4, 0⟩, 1⟩ ⟨⟨⟨1, 0, 0⟩, ⟨0, 1, 0⟩, ⟨0, 0, 1⟩⟩, ⟨0, 0, 0⟩⟩
          ⟨⟨⟨1, 0, 0⟩, ⟨0, 1, 0⟩, ⟨0, 0, 1⟩⟩, ⟨0, 0, 0⟩⟩ VF VB :=
  pverr_is_derivative _ _ _ _ VF VB (by simp only [pvec]; to_scalars; norm_num) (by norm_num) (by norm_num)

theorem force_adjoint (s inv : K → K) (c : Par K) (XF XB : Xf K) (VF VB : SV K) (lam : K) :
    lam * pverr s inv c XF XB VF VB
      = SV.dot (forces s inv c XF XB lam).1 VF + SV.dot (forces s inv c XF XB lam).2 VB := by
  simp only [pverr, forces, pdvec]
  generalize Cz s inv c XF XB = cz
  to_scalars; ring

/-- acceleration level: `d/dt pverr = paerr`, with `Cz = p/r` lifted through `√` and the reciprocal -/
theorem paerr_is_derivative (s : K → K) (c : Par K) (XF XB : Xf K) (VF VB AF AB : SV K)
    (hs : s (V3.dot (pvec c XF XB) (pvec c XF XB)) * s (V3.dot (pvec c XF XB) (pvec c XF XB))
            = V3.dot (pvec c XF XB) (pvec c XF XB))
    (hne : s (V3.dot (pvec c XF XB) (pvec c XF XB)) ≠ 0) (h2 : (2 : K) ≠ 0) :
    (pverr (sqrtJ s) invJ c.const (jetX XF VF) (jetX XB VB) (jetSV VF AF) (jetSV VB AB)).eps
      = paerr s (·⁻¹) c XF XB VF VB AF AB := by
  -- jets of p, pd
  have hpv : valV (pvec c.const (jetX XF VF) (jetX XB VB)) = pvec c XF XB := by
    simp only [pvec, Par.const]; to_scalars
  have hpe : epsV (pvec c.const (jetX XF VF) (jetX XB VB)) = pdvec c XF XB VF VB := by
    simp only [pvec, pdvec, Par.const]; to_scalars; refine ⟨?_, ?_, ?_⟩ <;> ring
  have hdv : valV (pdvec c.const (jetX XF VF) (jetX XB VB) (jetSV VF AF) (jetSV VB AB)) = pdvec c XF XB VF VB := by
    simp only [pdvec, Par.const]; to_scalars
  have hde : epsV (pdvec c.const (jetX XF VF) (jetX XB VB) (jetSV VF AF) (jetSV VB AB))
      = (stationAccA VB AB (XB.R.mulVec c.pB)).sub (stationAccA VF AF (XF.R.mulVec c.pF)) := by
    simp only [pdvec, Par.const]; to_scalars; refine ⟨?_, ?_, ?_⟩ <;> ring
  simp only [pverr, paerr, Cz]
  generalize pvec c.const (jetX XF VF) (jetX XB VB) = pJ at hpv hpe ⊢
  generalize pdvec c.const (jetX XF VF) (jetX XB VB) (jetSV VF AF) (jetSV VB AB) = dJ at hdv hde ⊢
  generalize (stationAccA VB AB (XB.R.mulVec c.pB)).sub (stationAccA VF AF (XF.R.mulVec c.pF)) = dd at hde ⊢
  generalize pvec c XF XB = p at hs hne hpv ⊢
  generalize pdvec c XF XB VF VB = pd at hpe hdv ⊢
  obtain ⟨⟨p0, e0⟩, ⟨p1, e1⟩, ⟨p2, e2⟩⟩ := pJ
  obtain ⟨⟨d0, f0⟩, ⟨d1, f1⟩, ⟨d2, f2⟩⟩ := dJ
  obtain ⟨q0, q1, q2⟩ := p; obtain ⟨g0, g1, g2⟩ := pd; obtain ⟨a0, a1, a2⟩ := dd
  simp only [valV, epsV, V3.mk.injEq] at hpv hpe hdv hde
  obtain ⟨rfl, rfl, rfl⟩ := hpv; obtain ⟨rfl, rfl, rfl⟩ := hpe
  obtain ⟨rfl, rfl, rfl⟩ := hdv; obtain ⟨rfl, rfl, rfl⟩ := hde
  simp only [V3.dot, V3.smul, V3.sub, sqrtJ, invJ, Jet1.add_val, Jet1.add_eps, Jet1.mul_val, Jet1.mul_eps] at hs hne ⊢
  generalize s (p0 * p0 + p1 * p1 + p2 * p2) = r at hs hne ⊢
  field_simp
  ring
/-- the two Rod forces are equal and opposite along the line through the stations: balanced -/
theorem forces_balance (s inv : K → K) (c : Par K) (XF XB : Xf K) (lam : K) :
    Balanced2 XF.p XB.p (forces s inv c XF XB lam).1 (forces s inv c XF XB lam).2 := by
  simp only [Balanced2, forces, Cz, pvec]
  generalize inv (s _) = oor
  to_scalars; refine ⟨⟨?_, ?_, ?_⟩, ⟨?_, ?_, ?_⟩⟩ <;> ring
end Rod
end field

end ConstraintEq
