import SimbodyModel.C15
import SimbodyProofs.TreeDynAbs
import SimbodyProofs.TreeDynRefine
import Mathlib.Tactic.Ring
import Mathlib.Tactic.FieldSimp
import Mathlib.Tactic.LinearCombination

/-!
# C15 — system mass, momentum and composite inertias equal per-body sums

Two layers:
* the executable aggregates of `SimbodyModel/C15.lean` (lists of bodies with Ground-frame spatial inertia, origin,
  spatial velocity): linear momentum = total mass × mass-centre velocity; each body's contribution to the momentum about
  the Ground origin is its spatial momentum `Mk V` shifted to the Ground origin; the kinetic energy `½ V·Mk V` is
  `½ (ω·I_c ω + m v_c²)`; the parallel-axis theorem for the system central inertia;
* the composite-body inertia recursion `R = M_k + Σ φ_c R_c φ_cᵀ` (`calcCompositeBodyInertiasInward`) on the abstract
  tree equals the sum over all bodies of the subtree of their inertias shifted along the path, and the structured
  `SpatialInertia::shift` / `operator+=` used by the executable recursion are those dense operations.
-/

open Matrix

namespace C15
open TreeDyn

variable {K : Type} [Field K]

/-! ## list sums -/

theorem V3.ext' {a b : V3 K} (hx : a.x = b.x) (hy : a.y = b.y) (hz : a.z = b.z) : a = b := by
  cases a; cases b; simp_all

theorem sumK_acc (xs : List K) (a : K) : xs.foldl (· + ·) a = a + sumK xs := by
  induction xs generalizing a with
  | nil => simp [sumK]
  | cons x xs ih => simp only [sumK, List.foldl_cons] at *; rw [ih, ih (0 + x)]; ring

theorem sumK_cons (x : K) (xs : List K) : sumK (x :: xs) = x + sumK xs := by
  simp only [sumK, List.foldl_cons]; rw [sumK_acc]; ring

theorem sumV3_acc (xs : List (V3 K)) (a : V3 K) : xs.foldl V3.add a = a.add (sumV3 xs) := by
  induction xs generalizing a with
  | nil => apply V3.ext' <;> simp [sumV3, V3.add, V3.zero]
  | cons x xs ih =>
    simp only [sumV3, List.foldl_cons] at *
    rw [ih, ih (V3.zero.add x)]
    apply V3.ext' <;> simp [V3.add, V3.zero] <;> ring

theorem sumV3_cons (x : V3 K) (xs : List (V3 K)) : sumV3 (x :: xs) = x.add (sumV3 xs) := by
  simp only [sumV3, List.foldl_cons]; rw [sumV3_acc]
  apply V3.ext' <;> simp [V3.add, V3.zero]

theorem foldl_SV_v (xs : List (SV K)) (a : SV K) :
    (xs.foldl SV.add a).v = a.v.add (sumV3 (xs.map (fun s => s.v))) := by
  induction xs generalizing a with
  | nil => apply V3.ext' <;> simp [sumV3, V3.add, V3.zero]
  | cons x xs ih =>
    simp only [List.foldl_cons, List.map_cons]
    rw [ih, sumV3_cons]
    apply V3.ext' <;> simp [SV.add, V3.add] <;> ring

/-! ## linear momentum = total mass × mass-centre velocity -/

/-- the linear part of `calcSystemMomentumAboutGroundOrigin` is `Σ m_k v_ck` -/
theorem momentum_linear_is_sum (bs : List (C15.BodyKin K)) :
    (sysMomentumOrigin bs).v = weighted bs BodyKin.comVel := by
  simp only [sysMomentumOrigin, weighted]
  rw [foldl_SV_v]
  simp only [List.map_map]
  apply V3.ext' <;> simp [SV.zero, V3.zero, V3.add, Function.comp_def, BodyKin.originMomentum, BodyKin.centralMomentum]

/-- **system linear momentum equals total mass times mass-centre velocity** -/
theorem momentum_is_mass_times_vcom (bs : List (C15.BodyKin K)) (hM : sysMass bs ≠ 0) :
    (sysMomentumOrigin bs).v = V3.smul (sysMass bs) (sysComVel bs) := by
  rw [momentum_linear_is_sum]
  apply V3.ext' <;> simp [V3.smul, sysComVel, divV3] <;> field_simp

/-- the central momentum keeps the linear part -/
theorem central_momentum_linear (bs : List (C15.BodyKin K)) :
    (sysCentralMomentum bs).v = (sysMomentumOrigin bs).v := rfl

/-! ## per-body identities (what each term of the sums is) -/

/-- a body's contribution to the momentum about the Ground origin, `(I_c ω + r_c × m v_c, m v_c)`, is its spatial
momentum `Mk V` (about the body origin) shifted to the Ground origin by `Φ(pos)` -/
theorem body_momentum_is_spatial (b : C15.BodyKin K) :
    b.originMomentum = phiMul b.pos (b.Mk.mulSV b.V) := by
  cases b with
  | mk Mk pos V A =>
    cases Mk; cases pos; cases V
    simp only [BodyKin.originMomentum, BodyKin.centralMomentum, BodyKin.centralInertia, BodyKin.comLoc,
      BodyKin.comVel, phiMul, SpI.mulSV, SV.smul, V3.smul, V3.add, V3.sub, V3.cross, Sym3.mulVec, Sym3.smul,
      Sym3.sub, Sym3.pointMassAt]
    congr 1
    · apply V3.ext' <;> simp <;> ring
    · apply V3.ext' <;> simp <;> ring

/-- the mass-centre velocity is the velocity of the station at the mass centre: the linear part of `~Φ(p) V` -/
theorem com_velocity_is_station_velocity (b : C15.BodyKin K) : b.comVel = (phiTMul b.Mk.p b.V).v := rfl

/-- König per body: `V·(Mk V) = ω·(I_c ω) + m v_c·v_c` (what `calcKineticEnergy` sums, halved) -/
theorem ke_body_central (b : C15.BodyKin K) :
    b.V.dot (b.Mk.mulSV b.V) = b.V.w.dot (b.centralInertia.mulVec b.V.w) + b.Mk.m * (b.comVel.dot b.comVel) := by
  cases b with
  | mk Mk pos V A =>
    cases Mk; cases V
    simp only [BodyKin.centralInertia, BodyKin.comVel, SpI.mulSV, SV.smul, SV.dot, V3.dot, V3.smul, V3.add, V3.sub,
      V3.cross, Sym3.mulVec, Sym3.smul, Sym3.sub, Sym3.pointMassAt]
    ring

/-- inertia about the Ground origin = `SpatialInertia::shift` of the body's spatial inertia to the Ground origin -/
theorem origin_inertia_is_shift (b : C15.BodyKin K) :
    b.originInertia = Sym3.smul b.Mk.m (b.Mk.shift (V3.neg b.pos)).G := by
  cases b with
  | mk Mk pos V A =>
    cases Mk; cases pos
    simp only [BodyKin.originInertia, BodyKin.comLoc, SpI.shift, V3.sub, V3.add, V3.neg, sub_neg_eq_add]
    congr 3
    apply V3.ext' <;> simp <;> ring

/-! ## the structured spatial-inertia operations are the dense ones -/

/-- `SpatialInertia::shift(−l)` (re-origin from the child's origin to the parent's) is `Φ(l) M Φ(l)ᵀ` -/
theorem spatialInertia_shift_toMat (a : SpI K) (l : V3 K) :
    (a.shift (V3.neg l)).toMat = phiMat l * a.toMat * (phiMat l)ᵀ := by
  cases a with
  | mk m p G =>
    cases p; cases G; cases l
    simp only [phiMat, SpI.toMat, fromBlocks_transpose, fromBlocks_multiply]
    ext i j
    rcases i with i | i <;> rcases j with j | j <;> fin_cases i <;> fin_cases j <;>
      simp [SpI.shift, Sym3.sub, Sym3.add, Sym3.pointMassAt, V3.sub, V3.neg, V3.smul, Sym3.toMat, crossM, M33.crossMat,
        M33.toMat, Matrix.mul_apply, Fin.sum_univ_three, Matrix.one_apply, Matrix.vecMul, dotProduct, vecHead, vecTail] <;> ring

/-- `SpatialInertia::operator+=` (mass-weighted recombination of mass centre and unit inertia) is the matrix sum -/
theorem spatialInertia_add_toMat (a b : SpI K) (h : a.m + b.m ≠ 0) :
    (a.add b).toMat = a.toMat + b.toMat := by
  cases a with
  | mk ma pa Ga =>
    cases b with
    | mk mb pb Gb =>
      cases pa; cases Ga; cases pb; cases Gb
      simp only at h
      simp only [SpI.toMat, fromBlocks_add]
      ext i j
      rcases i with i | i <;> rcases j with j | j <;> fin_cases i <;> fin_cases j <;>
        simp [SpI.add, Sym3.smul, Sym3.add, V3.smul, V3.add, Sym3.toMat, crossM, M33.crossMat, M33.toMat,
          Matrix.one_apply] <;> field_simp <;> ring

/-! ## composite body inertia = sum over the subtree (abstract tree) -/
section composite
open TreeDynAbs TreeDynAbs.MBT
variable {ι : Type} [Fintype ι] [DecidableEq ι]

mutual
/-- `calcCompositeBodyInertiasInward`: `R = M_k + Σ φ_c R_c φ_cᵀ` -/
def cbi : MBT K ι → Matrix ι ι K
  | MBT.mk n cs => n.M + cbiKids cs
def cbiKids : List (MBT K ι) → Matrix ι ι K
  | [] => 0
  | c :: cs => (bd c).phi * cbi c * (bd c).phiᵀ + cbiKids cs
end

mutual
/-- all bodies of the subtree with the accumulated shift operator from the body to the subtree root -/
def shifted : MBT K ι → List (Matrix ι ι K × Bd K ι)
  | MBT.mk n cs => (1, n) :: shiftedKids cs
def shiftedKids : List (MBT K ι) → List (Matrix ι ι K × Bd K ι)
  | [] => []
  | c :: cs => (shifted c).map (fun x => ((bd c).phi * x.1, x.2)) ++ shiftedKids cs
end

/-- sum of the shifted body inertias `Σ Φ M_k Φᵀ` -/
def inertiaSum (l : List (Matrix ι ι K × Bd K ι)) : Matrix ι ι K :=
  (l.map (fun x => x.1 * x.2.M * x.1ᵀ)).sum

theorem inertiaSum_map (A : Matrix ι ι K) (l : List (Matrix ι ι K × Bd K ι)) :
    inertiaSum (l.map (fun x => (A * x.1, x.2))) = A * inertiaSum l * Aᵀ := by
  induction l with
  | nil => simp [inertiaSum]
  | cons x xs ih =>
    simp only [inertiaSum, List.map_cons, List.sum_cons] at *
    rw [ih]
    simp only [transpose_mul, Matrix.mul_add, Matrix.add_mul, Matrix.mul_assoc]

mutual
/-- **the composite-body inertia is the sum of the inertias of all bodies of the subtree, each shifted to the
subtree root's origin** -/
theorem composite_is_subtree_sum : ∀ (t : MBT K ι), cbi t = inertiaSum (shifted t)
  | MBT.mk n cs => by
      simp only [cbi, shifted, inertiaSum, List.map_cons, List.sum_cons]
      rw [composite_kids cs]
      simp [inertiaSum]
theorem composite_kids : ∀ (cs : List (MBT K ι)), cbiKids cs = inertiaSum (shiftedKids cs)
  | [] => by simp [cbiKids, shiftedKids, inertiaSum]
  | c :: cs => by
      simp only [cbiKids, shiftedKids]
      rw [composite_is_subtree_sum c, composite_kids cs]
      have := inertiaSum_map (bd c).phi (shifted c)
      simp only [inertiaSum, List.map_append, List.sum_append] at *
      rw [this]
end

/-- every body of the subtree appears exactly once in the sum -/
theorem shifted_bodies : ∀ (t : MBT K ι), (shifted t).map (fun x => x.2) = bds t := by
  intro t
  exact shifted_bodies_aux t
where
  shifted_bodies_aux : ∀ (t : MBT K ι), (shifted t).map (fun x => x.2) = bds t := by
    intro t
    induction t using MBT.rec (motive_2 := fun cs => (shiftedKids cs).map (fun x => x.2) = bdsL cs) with
    | mk n cs ih => simp only [shifted, bds, List.map_cons, ih]
    | nil => simp [shiftedKids, bdsL]
    | cons c cs ihc ihcs =>
      simp only [shiftedKids, bdsL, List.map_append, List.map_map, ← ihc, ← ihcs]
      rfl
end composite

end C15
