import SimbodyModel.C15
import SimbodyProofs.TreeDynAbs
import SimbodyProofs.TreeDynRefine
import SimbodyProofs.TreeDynSim
import Mathlib.Algebra.Order.Field.Basic
import Mathlib.Tactic.Linarith
import Mathlib.Tactic.Ring
import Mathlib.Tactic.FieldSimp
import Mathlib.Tactic.LinearCombination
import Mathlib.Tactic.NormNum

/-!
# C15 — system mass, momentum and composite inertias equal per-body sums

Two layers:
* the executable aggregates of `SimbodyModel/C15.lean` (lists of bodies with Ground-frame spatial inertia, origin,
  spatial velocity): linear momentum = total mass × mass-centre velocity; each body's contribution to the momentum about
  the Ground origin is its spatial momentum `Mk V` shifted to the Ground origin; the kinetic energy `½ V·Mk V` is
  `½ (ω·I_c ω + m v_c²)`; the parallel-axis theorem for the system central inertia;
* the composite-body inertia recursion `R = M_k + Σ φ_c R_c φ_cᵀ` (`calcCompositeBodyInertiasInward`) on the abstract
  tree equals the sum over all bodies of the subtree of their inertias shifted along the path, and the structured
  `SpatialInertia::shift` / `operator+=` used by the executable recursion are those dense operations.
-/

open Matrix

namespace C15
open TreeDyn

variable {K : Type} [Field K]

/-! ## list sums -/

theorem V3.ext' {a b : V3 K} (hx : a.x = b.x) (hy : a.y = b.y) (hz : a.z = b.z) : a = b := by
  cases a; cases b; simp_all

theorem sumK_acc (xs : List K) (a : K) : xs.foldl (· + ·) a = a + sumK xs := by
  induction xs generalizing a with
  | nil => simp [sumK]
  | cons x xs ih => simp only [sumK, List.foldl_cons] at *; rw [ih, ih (0 + x)]; ring

theorem sumK_cons (x : K) (xs : List K) : sumK (x :: xs) = x + sumK xs := by
  have h := sumK_acc xs (0 + x)
  simp only [sumK, List.foldl_cons] at *
  rw [h]; ring

theorem sumV3_acc (xs : List (V3 K)) (a : V3 K) : xs.foldl V3.add a = a.add (sumV3 xs) := by
  induction xs generalizing a with
  | nil => apply V3.ext' <;> simp [sumV3, V3.add, V3.zero]
  | cons x xs ih =>
    simp only [sumV3, List.foldl_cons] at *
    rw [ih, ih (V3.zero.add x)]
    apply V3.ext' <;> simp [V3.add, V3.zero] <;> ring

theorem sumV3_cons (x : V3 K) (xs : List (V3 K)) : sumV3 (x :: xs) = x.add (sumV3 xs) := by
  have h := sumV3_acc xs (V3.zero.add x)
  simp only [sumV3, List.foldl_cons] at *
  rw [h]
  apply V3.ext' <;> simp [V3.add, V3.zero]

theorem foldl_SV_v (xs : List (SV K)) (a : SV K) :
    (xs.foldl SV.add a).v = a.v.add (sumV3 (xs.map (fun s => s.v))) := by
  induction xs generalizing a with
  | nil => apply V3.ext' <;> simp [sumV3, V3.add, V3.zero]
  | cons x xs ih =>
    simp only [List.foldl_cons, List.map_cons]
    rw [ih, sumV3_cons]
    apply V3.ext' <;> simp [SV.add, V3.add] <;> ring

/-! ## linear momentum = total mass × mass-centre velocity -/

/-- the linear part of `calcSystemMomentumAboutGroundOrigin` is `Σ m_k v_ck` -/
theorem momentum_linear_is_sum (bs : List (C15.BodyKin K)) :
    (sysMomentumOrigin bs).v = weighted bs BodyKin.comVel := by
  simp only [sysMomentumOrigin, weighted]
  rw [foldl_SV_v]
  simp only [List.map_map]
  apply V3.ext' <;> simp [SV.zero, V3.zero, V3.add, Function.comp_def, BodyKin.originMomentum, BodyKin.centralMomentum]

/-- **system linear momentum equals total mass times mass-centre velocity** -/
theorem momentum_is_mass_times_vcom (bs : List (C15.BodyKin K)) (hM : sysMass bs ≠ 0) :
    (sysMomentumOrigin bs).v = V3.smul (sysMass bs) (sysComVel bs) := by
  rw [momentum_linear_is_sum]
  apply V3.ext' <;> simp [V3.smul, sysComVel, divV3] <;> field_simp

/-- the central momentum keeps the linear part -/
theorem central_momentum_linear (bs : List (C15.BodyKin K)) :
    (sysCentralMomentum bs).v = (sysMomentumOrigin bs).v := rfl

/-! ## per-body identities (what each term of the sums is) -/

/-- a body's contribution to the momentum about the Ground origin, `(I_c ω + r_c × m v_c, m v_c)`, is its spatial
momentum `Mk V` (about the body origin) shifted to the Ground origin by `Φ(pos)` -/
theorem body_momentum_is_spatial (b : C15.BodyKin K) :
    b.originMomentum = phiMul b.pos (b.Mk.mulSV b.V) := by
  cases b with
  | mk Mk pos V A =>
    cases Mk; cases pos; cases V
    simp only [BodyKin.originMomentum, BodyKin.centralMomentum, BodyKin.centralInertia, BodyKin.comLoc,
      BodyKin.comVel, phiMul, SpI.mulSV, SV.smul, V3.smul, V3.add, V3.sub, V3.cross, Sym3.mulVec, Sym3.smul,
      Sym3.sub, Sym3.pointMassAt]
    congr 1
    · apply V3.ext' <;> dsimp only <;> ring
    · apply V3.ext' <;> dsimp only <;> ring

/-- the mass-centre velocity is the velocity of the station at the mass centre: the linear part of `~Φ(p) V` -/
theorem com_velocity_is_station_velocity (b : C15.BodyKin K) : b.comVel = (phiTMul b.Mk.p b.V).v := rfl

/-- König per body: `V·(Mk V) = ω·(I_c ω) + m v_c·v_c` (what `calcKineticEnergy` sums, halved) -/
theorem ke_body_central (b : C15.BodyKin K) :
    b.V.dot (b.Mk.mulSV b.V) = b.V.w.dot (b.centralInertia.mulVec b.V.w) + b.Mk.m * (b.comVel.dot b.comVel) := by
  cases b with
  | mk Mk pos V A =>
    cases Mk; cases V
    simp only [BodyKin.centralInertia, BodyKin.comVel, SpI.mulSV, SV.smul, SV.dot, V3.dot, V3.smul, V3.add, V3.sub,
      V3.cross, Sym3.mulVec, Sym3.smul, Sym3.sub, Sym3.pointMassAt]
    ring

/-- inertia about the Ground origin = `SpatialInertia::shift` of the body's spatial inertia to the Ground origin -/
theorem origin_inertia_is_shift (b : C15.BodyKin K) :
    b.originInertia = Sym3.smul b.Mk.m (b.Mk.shift (V3.neg b.pos)).G := by
  cases b with
  | mk Mk pos V A =>
    cases Mk; cases pos
    simp only [BodyKin.originInertia, BodyKin.comLoc, SpI.shift, V3.sub, V3.add, V3.neg, sub_neg_eq_add]
    congr 3
    apply V3.ext' <;> simp <;> ring

/-! ## parallel-axis theorem for the system: central inertia = Σ (body central inertia + m·pointMass(r_k − com)) -/

theorem Sym3.ext' {a b : Sym3 K} (h0 : a.a00 = b.a00) (h1 : a.a11 = b.a11) (h2 : a.a22 = b.a22)
    (h3 : a.a10 = b.a10) (h4 : a.a20 = b.a20) (h5 : a.a21 = b.a21) : a = b := by
  cases a; cases b; simp_all

theorem sumSym_acc (xs : List (Sym3 K)) (a : Sym3 K) : xs.foldl Sym3.add a = a.add (sumSym xs) := by
  induction xs generalizing a with
  | nil => apply Sym3.ext' <;> simp [sumSym, Sym3.add, Sym3.zero]
  | cons x xs ih =>
    simp only [sumSym, List.foldl_cons] at *
    rw [ih, ih (Sym3.zero.add x)]
    apply Sym3.ext' <;> simp [Sym3.add, Sym3.zero] <;> ring

theorem sumSym_cons (x : Sym3 K) (xs : List (Sym3 K)) : sumSym (x :: xs) = x.add (sumSym xs) := by
  have h := sumSym_acc xs (Sym3.zero.add x)
  simp only [sumSym, List.foldl_cons] at *
  rw [h]
  apply Sym3.ext' <;> simp [Sym3.add, Sym3.zero]

/-- the mixed term of `pointMassAt(r − c)` summed with weights: built from `S = Σ m r` and `c` -/
def crossSym (S c : V3 K) : Sym3 K :=
  ⟨2 * (S.y * c.y + S.z * c.z), 2 * (S.x * c.x + S.z * c.z), 2 * (S.x * c.x + S.y * c.y),
   -(S.x * c.y + S.y * c.x), -(S.x * c.z + S.z * c.x), -(S.y * c.z + S.z * c.y)⟩

/-- body central inertia re-referred to an arbitrary point `c` -/
def inertiaAbout (c : V3 K) (b : C15.BodyKin K) : Sym3 K :=
  b.centralInertia.add (Sym3.smul b.Mk.m (Sym3.pointMassAt (b.comLoc.sub c)))

theorem inertia_about_point (c : V3 K) : ∀ (bs : List (C15.BodyKin K)),
    sumSym (bs.map (inertiaAbout c))
      = ((sysOriginInertia bs).sub (crossSym (weighted bs BodyKin.comLoc) c)).add
          (Sym3.smul (sysMass bs) (Sym3.pointMassAt c))
  | [] => by
      apply Sym3.ext' <;>
        simp [sumSym, sysOriginInertia, weighted, sysMass, sumK, sumV3, crossSym, Sym3.add, Sym3.sub, Sym3.smul,
          Sym3.zero, V3.zero]
  | b :: bs => by
      have ih := inertia_about_point c bs
      simp only [sysOriginInertia, weighted, sysMass, List.map_cons, sumSym_cons, sumV3_cons, sumK_cons] at *
      rw [ih]
      cases b with
      | mk Mk pos V A =>
        cases Mk; cases pos; cases c
        apply Sym3.ext' <;>
          simp only [inertiaAbout, BodyKin.centralInertia, BodyKin.originInertia, BodyKin.comLoc, crossSym, Sym3.add,
            Sym3.sub, Sym3.smul, Sym3.pointMassAt, V3.add, V3.sub, V3.smul] <;> ring

/-- **the system central inertia is the sum over the bodies of their central inertias plus the parallel-axis terms
`m_k pointMass(r_k − com)`** -/
theorem central_inertia_is_sum (bs : List (C15.BodyKin K)) (hM : sysMass bs ≠ 0) :
    sysCentralInertia bs = sumSym (bs.map (inertiaAbout (sysCom bs))) := by
  rw [inertia_about_point]
  simp only [sysCentralInertia, sysCom, divV3]
  generalize weighted bs BodyKin.comLoc = S
  generalize sysOriginInertia bs = Q
  generalize sysMass bs = M at hM ⊢
  cases S; cases Q
  apply Sym3.ext' <;>
    simp only [crossSym, Sym3.add, Sym3.sub, Sym3.smul, Sym3.pointMassAt] <;> field_simp <;> ring

/-- non-vacuity of the hypothesis `sysMass bs ≠ 0` (and of `a.m + b.m ≠ 0` below): a two-body system over ℚ -/
example : sysMass ([⟨⟨2, ⟨1, 0, 0⟩, ⟨1, 1, 1, 0, 0, 0⟩⟩, ⟨1, 0, 0⟩, ⟨⟨0, 0, 1⟩, ⟨0, 1, 0⟩⟩, SV.zero⟩,
                     ⟨⟨3, ⟨0, 1, 0⟩, ⟨2, 1, 2, 0, 0, 0⟩⟩, ⟨0, 2, 0⟩, SV.zero, SV.zero⟩] : List (C15.BodyKin ℚ)) ≠ 0 := by
  norm_num [sysMass, sumK]

/-! ## the structured spatial-inertia operations are the dense ones -/

theorem crossM_smul_add (m : K) (p l : V3 K) :
    crossM (V3.smul m (p.sub (V3.neg l))) = crossM (V3.smul m p) + m • crossM l := by
  ext i j
  fin_cases i <;> fin_cases j <;>
    simp [crossM, M33.crossMat, M33.toMat, V3.smul, V3.sub, V3.neg] <;> ring

theorem shift_G_block (m : K) (p l : V3 K) (G : Sym3 K) :
    m • ((G.sub (Sym3.pointMassAt p)).add (Sym3.pointMassAt (p.sub (V3.neg l)))).toMat
      = m • G.toMat + crossM l * (-(crossM (V3.smul m p)))
        + (crossM (V3.smul m p) + crossM l * (m • (1 : Matrix (Fin 3) (Fin 3) K))) * (crossM l)ᵀ := by
  ext i j
  fin_cases i <;> fin_cases j <;>
    simp [Sym3.sub, Sym3.add, Sym3.pointMassAt, Sym3.toMat, crossM, M33.crossMat, M33.toMat, V3.smul, V3.sub, V3.neg,
      Matrix.mul_apply, Fin.sum_univ_three, Matrix.one_apply, Matrix.vecMul, dotProduct, vecHead, vecTail] <;> ring

/-- `SpatialInertia::shift(−l)` (re-origin from the child's origin to the parent's) is `Φ(l) M Φ(l)ᵀ` -/
theorem spatialInertia_shift_toMat (a : SpI K) (l : V3 K) :
    (a.shift (V3.neg l)).toMat = phiMat l * a.toMat * (phiMat l)ᵀ := by
  cases a with
  | mk m p G =>
    simp only [phiMat, SpI.toMat, fromBlocks_transpose, fromBlocks_multiply, SpI.shift]
    rw [crossM_smul_add, shift_G_block]
    simp only [transpose_one, transpose_zero, Matrix.one_mul, Matrix.mul_one, Matrix.zero_mul, Matrix.mul_zero,
      add_zero, zero_add, crossM_transpose, Matrix.mul_smul, Matrix.smul_mul, Matrix.mul_neg, neg_add_rev]
    congr 1
    simp only [smul_zero, add_zero]
    abel

theorem add_G_block (ma mb : K) (Ga Gb : Sym3 K) (h : ma + mb ≠ 0) :
    (ma + mb) • (Sym3.smul (1 / (ma + mb)) ((Sym3.smul ma Ga).add (Sym3.smul mb Gb))).toMat
      = ma • Ga.toMat + mb • Gb.toMat := by
  ext i j
  fin_cases i <;> fin_cases j <;>
    simp [Sym3.smul, Sym3.add, Sym3.toMat] <;> field_simp

theorem add_p_block (ma mb : K) (pa pb : V3 K) (h : ma + mb ≠ 0) :
    crossM (V3.smul (ma + mb) (V3.smul (1 / (ma + mb)) ((V3.smul ma pa).add (V3.smul mb pb))))
      = crossM (V3.smul ma pa) + crossM (V3.smul mb pb) := by
  ext i j
  fin_cases i <;> fin_cases j <;>
    simp [crossM, M33.crossMat, M33.toMat, V3.smul, V3.add] <;> field_simp <;> ring

/-- `SpatialInertia::operator+=` (mass-weighted recombination of mass centre and unit inertia) is the matrix sum -/
theorem spatialInertia_add_toMat (a b : SpI K) (h : a.m + b.m ≠ 0) :
    (a.add b).toMat = a.toMat + b.toMat := by
  cases a with
  | mk ma pa Ga =>
    cases b with
    | mk mb pb Gb =>
      simp only at h
      simp only [SpI.toMat, fromBlocks_add, SpI.add]
      rw [add_G_block ma mb Ga Gb h, add_p_block ma mb pa pb h]
      congr 1
      · rw [neg_add]
      · rw [add_smul]

/-! ## composite body inertia = sum over the subtree (abstract tree) -/
section composite
open TreeDynAbs TreeDynAbs.MBT
variable {ι : Type} [Fintype ι] [DecidableEq ι]

mutual
/-- `calcCompositeBodyInertiasInward`: `R = M_k + Σ φ_c R_c φ_cᵀ` -/
def cbi : MBT K ι → Matrix ι ι K
  | MBT.mk n cs => n.M + cbiKids cs
def cbiKids : List (MBT K ι) → Matrix ι ι K
  | [] => 0
  | c :: cs => (bd c).phi * cbi c * (bd c).phiᵀ + cbiKids cs
end

mutual
/-- all bodies of the subtree with the accumulated shift operator from the body to the subtree root -/
def shifted : MBT K ι → List (Matrix ι ι K × Bd K ι)
  | MBT.mk n cs => (1, n) :: shiftedKids cs
def shiftedKids : List (MBT K ι) → List (Matrix ι ι K × Bd K ι)
  | [] => []
  | c :: cs => (shifted c).map (fun x => ((bd c).phi * x.1, x.2)) ++ shiftedKids cs
end

/-- sum of the shifted body inertias `Σ Φ M_k Φᵀ` -/
def inertiaSum (l : List (Matrix ι ι K × Bd K ι)) : Matrix ι ι K :=
  (l.map (fun x => x.1 * x.2.M * x.1ᵀ)).sum

theorem inertiaSum_map (A : Matrix ι ι K) (l : List (Matrix ι ι K × Bd K ι)) :
    inertiaSum (l.map (fun x => (A * x.1, x.2))) = A * inertiaSum l * Aᵀ := by
  induction l with
  | nil => simp [inertiaSum]
  | cons x xs ih =>
    simp only [inertiaSum, List.map_cons, List.sum_cons] at *
    rw [ih]
    simp only [transpose_mul, Matrix.mul_add, Matrix.add_mul, Matrix.mul_assoc]

mutual
/-- **the composite-body inertia is the sum of the inertias of all bodies of the subtree, each shifted to the
subtree root's origin** -/
theorem composite_is_subtree_sum : ∀ (t : MBT K ι), cbi t = inertiaSum (shifted t)
  | MBT.mk n cs => by
      simp only [cbi, shifted, inertiaSum, List.map_cons, List.sum_cons]
      rw [composite_kids cs]
      simp [inertiaSum]
theorem composite_kids : ∀ (cs : List (MBT K ι)), cbiKids cs = inertiaSum (shiftedKids cs)
  | [] => by simp [cbiKids, shiftedKids, inertiaSum]
  | c :: cs => by
      simp only [cbiKids, shiftedKids]
      rw [composite_is_subtree_sum c, composite_kids cs]
      have := inertiaSum_map (bd c).phi (shifted c)
      simp only [inertiaSum, List.map_append, List.sum_append] at *
      rw [this]
end

mutual
/-- every body of the subtree appears exactly once in the sum -/
theorem shifted_bodies : ∀ (t : MBT K ι), (shifted t).map (fun x => x.2) = bds t
  | MBT.mk n cs => by
      simp only [shifted, bds, List.map_cons, shifted_bodies_kids cs]
theorem shifted_bodies_kids : ∀ (cs : List (MBT K ι)), (shiftedKids cs).map (fun x => x.2) = bdsL cs
  | [] => by simp [shiftedKids, bdsL]
  | c :: cs => by
      simp only [shiftedKids, bdsL, List.map_append, List.map_map, ← shifted_bodies c, ← shifted_bodies_kids cs]
      rfl
end

end composite


/-! ## the EXECUTED composite-body recursion (`TreeDyn.cbiIn`, `calcCompositeBodyInertiasInward`) computes the twin's `cbi` -/
section cbi_sim
open TreeDynAbs TreeDynAbs.MBT
variable {F : Type} [Field F] [LinearOrder F] [IsStrictOrderedRing F]

/-- twin body of an executed body (only `phi` and `M` matter for composite inertias) -/
def decC (b : Body F) : Bd F I6 := absBd b [] [] [] Bias.zero

def cbiRoot (t : Tr (Body F)) : Body F × SpI F := (Tr.mapUp cbiIn t).val

theorem cbiRoot_mk (b : Body F) (cs : List (Tr (Body F))) : cbiRoot (Tr.mk b cs) = cbiIn b (cs.map cbiRoot) := by
  simp only [cbiRoot, mapUp_val]; rfl

mutual
/-- every body of the executed tree has positive mass -/
def PosMass : Tr (Body F) → Prop
  | Tr.mk b cs => 0 < b.Mk.m ∧ PosMassL cs
def PosMassL : List (Tr (Body F)) → Prop
  | [] => True
  | c :: cs => PosMass c ∧ PosMassL cs
end

theorem SpI.shift_m (a : SpI F) (s : V3 F) : (a.shift s).m = a.m := rfl
theorem SpI.add_m (a b : SpI F) : (a.add b).m = a.m + b.m := rfl

theorem foldl_SpI (l : List (Body F × SpI F)) : ∀ (a : SpI F), 0 < a.m → (∀ c ∈ l, 0 < c.2.m) →
    (l.foldl (fun acc c => acc.add (c.2.shift c.1.l.neg)) a).toMat
        = a.toMat + (l.map (fun c => (c.2.shift c.1.l.neg).toMat)).sum ∧
    0 < (l.foldl (fun acc c => acc.add (c.2.shift c.1.l.neg)) a).m := by
  induction l with
  | nil => intro a ha _; simp [ha]
  | cons x xs ih =>
    intro a ha hl
    have hx : 0 < x.2.m := hl x (by simp)
    have hpos : 0 < (a.add (x.2.shift x.1.l.neg)).m := by rw [SpI.add_m, SpI.shift_m]; linarith
    obtain ⟨h1, h2⟩ := ih (a.add (x.2.shift x.1.l.neg)) hpos (fun c hc => hl c (by simp [hc]))
    refine ⟨?_, h2⟩
    simp only [List.foldl_cons, List.map_cons, List.sum_cons, h1]
    rw [spatialInertia_add_toMat a (x.2.shift x.1.l.neg) (by rw [SpI.shift_m]; exact ne_of_gt (by linarith))]
    abel

mutual
/-- **composite-body inertias, every node of the executed recursion**: the structured `SpatialInertia` accumulated by
`cbiIn` has the twin's composite inertia as its spatial matrix (all masses positive), hence — by
`composite_is_subtree_sum` — it is the sum of the shifted inertias of all bodies of the subtree -/
theorem sim_cbi : ∀ (t : Tr (Body F)), PosMass t →
    (cbiRoot t).1 = t.val ∧ 0 < (cbiRoot t).2.m ∧ (cbiRoot t).2.toMat = cbi (absT decC t)
  | Tr.mk b cs, hpos => by
      simp only [PosMass] at hpos
      obtain ⟨hk1, hk2⟩ := sim_cbi_kids cs hpos.2
      obtain ⟨h1, h2⟩ := foldl_SpI (cs.map cbiRoot) b.Mk hpos.1 hk1
      rw [cbiRoot_mk]
      refine ⟨rfl, h2, ?_⟩
      simp only [cbiIn, h1, List.map_map, Function.comp_def]
      rw [hk2]
      simp only [absT, cbi, decC, absBd]
theorem sim_cbi_kids : ∀ (cs : List (Tr (Body F))), PosMassL cs →
    (∀ c ∈ cs.map cbiRoot, 0 < c.2.m) ∧
    (cs.map (fun c => ((cbiRoot c).2.shift (cbiRoot c).1.l.neg).toMat)).sum = cbiKids (absL decC cs)
  | [], _ => by simp [absL, cbiKids]
  | c :: cs, hpos => by
      simp only [PosMassL] at hpos
      obtain ⟨h1, h2, h3⟩ := sim_cbi c hpos.1
      obtain ⟨k1, k2⟩ := sim_cbi_kids cs hpos.2
      refine ⟨?_, ?_⟩
      · intro x hx
        simp only [List.map_cons, List.mem_cons] at hx
        rcases hx with hx | hx
        · rw [hx]; exact h2
        · exact k1 x hx
      · rw [List.map_cons, List.sum_cons, k2]
        simp only [absL, cbiKids, spatialInertia_shift_toMat, h1, h3, bd_absT]
        simp only [decC, absBd]
end
end cbi_sim

end C15
