import SimbodyModel.Mobilizer
import SimbodyProofs.MobilizerLemmas

/-!
# C06 — physics is independent of the chosen representation

* `euler_quat_same_R` : the body-fixed x-y-z Euler matrix and the quaternion matrix of the product of the three
  elementary (half-angle) quaternions are the same rotation — the relation the per-node `convertToEulerAngles` /
  `convertToQuaternions` rely on (`eulerQuat` is executed by the driver and compared with `convertToQuaternions`);
* `functionBased_*` : the built-in Pin/Slider/Cylinder/Planar/Universal/Gimbal/Bushing/Translation transforms are the
  FunctionBased transform (body-fixed x-y-z of three function values, translation along F's axes) with the mirror
  functions;
* `reverse_equiv_pose`, `reverse_equiv_velocity` : a reversed mobilizer fitted to the inverse motion realises the same
  `X_FM`, `V_FM`;
* `relocation_*` : the joint-independent kinematics recursion is equivariant under a rigid relocation of the parent
  (hence, by iteration from Ground, of the whole model).
-/
namespace Mobilizer
variable {K : Type} [Field K]

/-! ## Euler angles vs quaternion -/

/-- same rotation matrix from Euler angles and from the quaternion (angles given by their half-angle trig pairs:
`c = ch² − sh²`, `s = 2·sh·ch`) -/
theorem euler_quat_same_R {ch0 sh0 ch1 sh1 ch2 sh2 : K} (h0 : Trig ch0 sh0) (h1 : Trig ch1 sh1) (h2 : Trig ch2 sh2) :
    rotQuat (eulerQuat ch0 sh0 ch1 sh1 ch2 sh2)
      = rotXYZ (ch0 * ch0 - sh0 * sh0) (ch1 * ch1 - sh1 * sh1) (ch2 * ch2 - sh2 * sh2)
               (2 * sh0 * ch0) (2 * sh1 * ch1) (2 * sh2 * ch2) := by
  have e0 := h0.sq; have e1 := h1.sq; have e2 := h2.sq
  simp only [eulerQuat, rotQuat, rotXYZ]; mob_unfold
  repeat' apply And.intro
  all_goals trig_ring [e0, e1, e2]
/-- the quaternion so obtained is a unit quaternion -/
theorem eulerQuat_unit {ch0 sh0 ch1 sh1 ch2 sh2 : K} (h0 : Trig ch0 sh0) (h1 : Trig ch1 sh1) (h2 : Trig ch2 sh2) :
    Q4.normSq (eulerQuat ch0 sh0 ch1 sh1 ch2 sh2) = 1 := by
  have e0 := h0.sq; have e1 := h1.sq; have e2 := h2.sq
  simp only [eulerQuat]; mob_unfold
  trig_ring [e0, e1, e2]
/-- consequently Ball in quaternion mode at that quaternion and in Euler mode at those angles have the same `X_FM` -/
theorem Ball.euler_quat_same_X {ch0 sh0 ch1 sh1 ch2 sh2 : K} (h0 : Trig ch0 sh0) (h1 : Trig ch1 sh1) (h2 : Trig ch2 sh2) :
    Ball.Xq (eulerQuat ch0 sh0 ch1 sh1 ch2 sh2) 1
      = Ball.Xe (ch0 * ch0 - sh0 * sh0) (ch1 * ch1 - sh1 * sh1) (ch2 * ch2 - sh2 * sh2)
               (2 * sh0 * ch0) (2 * sh1 * ch1) (2 * sh2 * ch2) := by
  have e : Q4.smul 1 (eulerQuat ch0 sh0 ch1 sh1 ch2 sh2) = eulerQuat ch0 sh0 ch1 sh1 ch2 sh2 := by
    simp only [Q4.smul, mul_one]
  simp only [Ball.Xq, Ball.Xe, Gimbal.X, e, euler_quat_same_R h0 h1 h2]

/-! ## FunctionBased mirrors (body-fixed x-y-z of the three rotation functions, translation along F's axes) -/

theorem functionBased_bushing (c0 c1 c2 s0 s1 s2 : K) (p : V3 K) :
    Bushing.X c0 c1 c2 s0 s1 s2 p = functionBasedX c0 c1 c2 s0 s1 s2 p := by
  obtain ⟨x, y, z⟩ := p
  simp only [Bushing.X, functionBasedX, rotAxis_ex, rotAxis_ey, rotAxis_ez, rotX, rotY, rotZ, rotXYZ]; mob_unfold; ring_all
theorem functionBased_gimbal (c0 c1 c2 s0 s1 s2 : K) :
    Gimbal.X c0 c1 c2 s0 s1 s2 = functionBasedX c0 c1 c2 s0 s1 s2 V3.zero := by
  simp only [Gimbal.X, functionBasedX, rotAxis_ex, rotAxis_ey, rotAxis_ez, rotX, rotY, rotZ, rotXYZ]; mob_unfold; ring_all
theorem functionBased_universal (c0 s0 c1 s1 : K) :
    Universal.X c0 s0 c1 s1 = functionBasedX c0 c1 1 s0 s1 0 V3.zero := by
  simp only [Universal.X, functionBasedX, rotAxis_ex, rotAxis_ey, rotAxis_ez, rotX, rotY, rotZ, rotXY]; mob_unfold; ring_all
theorem functionBased_pin (c s : K) : Pin.X c s = functionBasedX 1 1 c 0 0 s V3.zero := by
  simp only [Pin.X, functionBasedX, rotAxis_ex, rotAxis_ey, rotAxis_ez, rotX, rotY, rotZ]; mob_unfold; ring_all
theorem functionBased_cylinder (c s q1 : K) : Cylinder.X c s q1 = functionBasedX 1 1 c 0 0 s ⟨0, 0, q1⟩ := by
  simp only [Cylinder.X, functionBasedX, rotAxis_ex, rotAxis_ey, rotAxis_ez, rotX, rotY, rotZ]; mob_unfold; ring_all
theorem functionBased_planar (c s x y : K) : Planar.X c s x y = functionBasedX 1 1 c 0 0 s ⟨x, y, 0⟩ := by
  simp only [Planar.X, functionBasedX, rotAxis_ex, rotAxis_ey, rotAxis_ez, rotX, rotY, rotZ]; mob_unfold; ring_all
theorem functionBased_slider (q : K) : Slider.X q = functionBasedX 1 1 1 0 0 0 ⟨q, 0, 0⟩ := by
  simp only [Slider.X, functionBasedX, rotAxis_ex, rotAxis_ey, rotAxis_ez, rotX, rotY, rotZ]; mob_unfold; ring_all
theorem functionBased_translation (q : V3 K) : Translation.X q = functionBasedX 1 1 1 0 0 0 q := by
  obtain ⟨x, y, z⟩ := q
  simp only [Translation.X, functionBasedX, rotAxis_ex, rotAxis_ey, rotAxis_ez, rotX, rotY, rotZ]; mob_unfold; ring_all

/-- the executed dispatchers agree: wherever a FunctionBased mirror is defined, its transform is the built-in one -/
theorem fbX0_eq_X0 (S : Spec K) (C : Coords K) (X : Xf K) (h : S.fbX0 C = some X) : X = S.X0 C := by
  obtain ⟨ty, eu, par, ax⟩ := S
  cases ty <;> simp only [Spec.fbX0, Spec.X0, Option.some.injEq, reduceCtorEq] at h ⊢ <;> subst h
  · exact (functionBased_pin _ _).symm
  · exact (functionBased_slider _).symm
  · exact (functionBased_cylinder _ _ _).symm
  · exact (functionBased_universal _ _ _ _).symm
  · exact (functionBased_planar _ _ _ _).symm
  · exact (functionBased_gimbal _ _ _ _ _ _).symm
  · exact (functionBased_bushing _ _ _ _ _ _ _).symm
  · exact (functionBased_translation _).symm

/-! ## Forward vs reversed -/

/-- a reversed mobilizer whose defining transform is the inverse motion stores the same `X_FM` as the forward one -/
theorem reverse_equiv_pose (X0 : Xf K) (h : IsRot X0.R) :
    realizeX true (Xf.inv X0) = realizeX false X0 := by
  simp only [realizeX, if_true, Bool.false_eq_true, if_false]
  obtain ⟨R, p⟩ := X0
  simp only [Xf.inv, M33.tr_tr, Xf.mk.injEq, true_and]
  have e : R.mulVec (V3.neg (R.tr.mulVec p)) = V3.neg (R.mulVec (R.tr.mulVec p)) := by mob_unfold; ring_all
  rw [e, h.mulVec_mulVec_tr]; obtain ⟨x, y, z⟩ := p; mob_unfold; ring_all

/-- … and, given the reversed velocity in its defining frames, the same mobilizer velocity `V_FM`
(`reverseSpatialVelocity` is an involution across the inverse transform) -/
theorem reverse_equiv_velocity (X0 : Xf K) (h : IsRot X0.R) (V : SV K) :
    reverseSpatialVelocity (Xf.inv X0) (reverseSpatialVelocity X0 V) = V := by
  obtain ⟨R, p⟩ := X0; obtain ⟨w, v⟩ := V
  simp only [reverseSpatialVelocity, Xf.inv, SV.rot, M33.tr_tr, SV.mk.injEq]
  have n1 : V3.neg (R.tr.mulVec (V3.neg w)) = R.tr.mulVec w := by mob_unfold; ring_all
  have cr := h.tr.cross
  simp only at h
  constructor
  · rw [n1, h.mulVec_mulVec_tr]
  · have e : V3.sub (V3.cross (R.tr.mulVec (V3.neg w)) (V3.neg (R.tr.mulVec p))) (R.tr.mulVec (V3.sub (V3.cross w p) v))
        = R.tr.mulVec v := by
      have e1 : V3.cross (R.tr.mulVec (V3.neg w)) (V3.neg (R.tr.mulVec p)) = V3.cross (R.tr.mulVec w) (R.tr.mulVec p) := by
        generalize R.tr = Rt; mob_unfold; ring_all
      rw [e1, cr]; generalize R.tr = Rt; generalize V3.cross w p = c; mob_unfold; ring_all
    rw [e, h.mulVec_mulVec_tr]

/-! ## Rigid relocation of the whole model -/

theorem Xf.mul_assoc (A B C : Xf K) : Xf.mul (Xf.mul A B) C = Xf.mul A (Xf.mul B C) := by
  simp only [Xf.mul, M33.mul_assoc, Xf.mk.injEq, true_and]
  mob_unfold; ring_all

/-- poses: relocating the parent by `X` relocates the child by `X` -/
theorem relocation_pose (X X_GP X_PF X_FM X_MB : Xf K) :
    X_GB (Xf.mul X X_GP) X_PF X_FM X_MB = Xf.mul X (X_GB X_GP X_PF X_FM X_MB) := by
  simp only [X_GB, Xf.mul_assoc]

/-- the ground-frame hinge matrix turns with the relocation -/
theorem relocation_H (X : Xf K) (R_GP : M33 K) (X_PF X_FM X_MB : Xf K) (h : SV K) :
    H_PB_G_col (M33.mul X.R R_GP) X_PF X_FM X_MB h = SV.rot X.R (H_PB_G_col R_GP X_PF X_FM X_MB h) := by
  simp only [H_PB_G_col, SV.rot, M33.mul_assoc, M33.mulVec_mul]

/-- velocities: if the parent's velocity and the cross-joint velocity turn with the relocation, so does the child's -/
theorem relocation_velocity (X X_GP Xpb : Xf K) (hR : IsRot X.R) (V_GP V_PB_G : SV K) :
    V_GB (Xf.mul X X_GP) (SV.rot X.R V_GP) Xpb (SV.rot X.R V_PB_G) = SV.rot X.R (V_GB X_GP V_GP Xpb V_PB_G) := by
  have c := hR.cross V_GP.w (X_GP.R.mulVec Xpb.p)
  simp only [V_GB, phiT, SV.rot, SV.add, Xf.mul, M33.mulVec_mul, SV.mk.injEq]
  constructor
  · generalize X.R = R; mob_unfold; ring_all
  · rw [c]
    generalize V3.cross V_GP.w (X_GP.R.mulVec Xpb.p) = a
    generalize X.R = R; mob_unfold; ring_all

/-- station locations and velocities turn with the relocation -/
theorem relocation_station (X Xg : Xf K) (hR : IsRot X.R) (V : SV K) (s : V3 K) :
    stationVel (Xf.mul X Xg) (SV.rot X.R V) s = X.R.mulVec (stationVel Xg V s) := by
  have c := hR.cross V.w (Xg.R.mulVec s)
  simp only [stationVel, SV.rot, Xf.mul, M33.mulVec_mul]
  rw [c]
  generalize V3.cross V.w (Xg.R.mulVec s) = a
  generalize X.R = R; mob_unfold; ring_all

/-! ## Non-vacuity -/
example : Trig (3 / 5 : ℚ) (4 / 5) := by unfold Trig; norm_num
example : Q4.normSq (eulerQuat (3 / 5 : ℚ) (4 / 5) (4 / 5) (3 / 5) 1 0) = 1 := by
  simp only [eulerQuat, Q4.normSq, Q4.hmul]; norm_num

end Mobilizer
