import SimbodyModel.C39
import Mathlib.Tactic.Ring
import Mathlib.Tactic.FieldSimp
import Mathlib.Tactic.Linarith
import Mathlib.Tactic.LinearCombination
import Mathlib.Tactic.Positivity
import Mathlib.Tactic.NormNum
import Mathlib.Algebra.Order.Field.Basic
import Mathlib.Algebra.BigOperators.Group.Finset.Basic
import Mathlib.Algebra.Order.BigOperators.Ring.Finset
import Mathlib.Algebra.Order.Chebyshev

/-!
# C39 — helper lemmas: the model's `sumN`/`dot`/`matVec` as `Finset` sums, Cauchy–Schwarz, Gram matrices
-/
namespace C39
open Finset

variable {K : Type} [Field K] [LinearOrder K] [IsStrictOrderedRing K]

omit [LinearOrder K] [IsStrictOrderedRing K] in
theorem sumN_eq_sum (n : Nat) (f : Nat → K) : sumN n f = ∑ i ∈ range n, f i := by
  induction n with
  | zero => simp [sumN]
  | succ n ih => rw [sumN, ih, Finset.sum_range_succ]

omit [LinearOrder K] [IsStrictOrderedRing K] in
theorem sumN_congr (n : Nat) (f g : Nat → K) (h : ∀ i, i < n → f i = g i) : sumN n f = sumN n g := by
  rw [sumN_eq_sum, sumN_eq_sum]
  exact Finset.sum_congr rfl (fun i hi => h i (Finset.mem_range.mp hi))

omit [LinearOrder K] [IsStrictOrderedRing K] in
theorem sumN_add (n : Nat) (f g : Nat → K) : sumN n (fun i => f i + g i) = sumN n f + sumN n g := by
  simp only [sumN_eq_sum, Finset.sum_add_distrib]

omit [LinearOrder K] [IsStrictOrderedRing K] in
theorem sumN_sub (n : Nat) (f g : Nat → K) : sumN n (fun i => f i - g i) = sumN n f - sumN n g := by
  simp only [sumN_eq_sum, Finset.sum_sub_distrib]

omit [LinearOrder K] [IsStrictOrderedRing K] in
theorem sumN_mul_left (n : Nat) (c : K) (f : Nat → K) : sumN n (fun i => c * f i) = c * sumN n f := by
  simp only [sumN_eq_sum, Finset.mul_sum]

omit [LinearOrder K] [IsStrictOrderedRing K] in
theorem sumN_comm (n m : Nat) (f : Nat → Nat → K) :
    sumN n (fun i => sumN m (fun j => f i j)) = sumN m (fun j => sumN n (fun i => f i j)) := by
  simp only [sumN_eq_sum]
  exact Finset.sum_comm

theorem sumN_nonneg (n : Nat) (f : Nat → K) (h : ∀ i, i < n → 0 ≤ f i) : 0 ≤ sumN n f := by
  rw [sumN_eq_sum]
  exact Finset.sum_nonneg (fun i hi => h i (Finset.mem_range.mp hi))

theorem sumN_le_sumN (n : Nat) (f g : Nat → K) (h : ∀ i, i < n → f i ≤ g i) : sumN n f ≤ sumN n g := by
  rw [sumN_eq_sum, sumN_eq_sum]
  exact Finset.sum_le_sum (fun i hi => h i (Finset.mem_range.mp hi))

omit [LinearOrder K] [IsStrictOrderedRing K] in
theorem sumN_const (n : Nat) (c : K) : sumN n (fun _ => c) = (n : K) * c := by
  rw [sumN_eq_sum]; simp

theorem normSq_nonneg (n : Nat) (x : Nat → K) : 0 ≤ normSq n x := by
  unfold normSq dot
  exact sumN_nonneg n _ (fun i _ => mul_self_nonneg (x i))

/-- Cauchy–Schwarz for the model's dot product -/
theorem cauchy_schwarz (n : Nat) (x y : Nat → K) : dot n x y * dot n x y ≤ normSq n x * normSq n y := by
  unfold normSq dot
  simp only [sumN_eq_sum]
  have h := Finset.sum_mul_sq_le_sq_mul_sq (range n) x y
  calc (∑ i ∈ range n, x i * y i) * (∑ i ∈ range n, x i * y i)
      = (∑ i ∈ range n, x i * y i) ^ 2 := by ring
    _ ≤ (∑ i ∈ range n, x i ^ 2) * (∑ i ∈ range n, y i ^ 2) := h
    _ = (∑ i ∈ range n, x i * x i) * (∑ i ∈ range n, y i * y i) := by
        congr 1 <;> exact Finset.sum_congr rfl (fun i _ => by ring)

omit [LinearOrder K] [IsStrictOrderedRing K] in
theorem dot_comm (n : Nat) (x y : Nat → K) : dot n x y = dot n y x := by
  unfold dot; exact sumN_congr n _ _ (fun i _ => mul_comm _ _)

omit [LinearOrder K] [IsStrictOrderedRing K] in
theorem dot_sub_left (n : Nat) (x y z : Nat → K) : dot n (sub x y) z = dot n x z - dot n y z := by
  unfold dot sub
  rw [← sumN_sub]; exact sumN_congr n _ _ (fun i _ => by ring)

omit [LinearOrder K] [IsStrictOrderedRing K] in
theorem dot_sub_right (n : Nat) (x y z : Nat → K) : dot n z (sub x y) = dot n z x - dot n z y := by
  rw [dot_comm, dot_sub_left, dot_comm n x z, dot_comm n y z]

omit [LinearOrder K] [IsStrictOrderedRing K] in
theorem matVec_sub (n : Nat) (A : Nat → Nat → K) (x y : Nat → K) (i : Nat) :
    matVec n A (sub x y) i = matVec n A x i - matVec n A y i := by
  unfold matVec sub
  rw [← sumN_sub]; exact sumN_congr n _ _ (fun j _ => by ring)

omit [LinearOrder K] [IsStrictOrderedRing K] in
/-- `xᵀ(A y) = yᵀ(A x)` for a symmetric `A` (symmetry needed below the dimension only) -/
theorem dot_matVec_symm (n : Nat) (A : Nat → Nat → K) (hA : ∀ i j, i < n → j < n → A i j = A j i) (x y : Nat → K) :
    dot n x (matVec n A y) = dot n y (matVec n A x) := by
  unfold dot matVec
  have e1 : sumN n (fun i => x i * sumN n (fun j => A i j * y j)) = sumN n (fun i => sumN n (fun j => x i * (A i j * y j))) :=
    sumN_congr n _ _ (fun i _ => (sumN_mul_left n (x i) _).symm)
  have e2 : sumN n (fun j => y j * sumN n (fun i => A j i * x i)) = sumN n (fun j => sumN n (fun i => y j * (A j i * x i))) :=
    sumN_congr n _ _ (fun j _ => (sumN_mul_left n (y j) _).symm)
  rw [e1, e2, sumN_comm]
  exact sumN_congr n _ _ (fun j hj => sumN_congr n _ _ (fun i hi => by rw [hA i j hi hj]; ring))

omit [LinearOrder K] [IsStrictOrderedRing K] in
theorem gramA_symm (n : Nat) (L : Nat → Nat → K) (mu : K) (i j : Nat) : gramA n L mu i j = gramA n L mu j i := by
  unfold gramA
  have : sumN n (fun k => L i k * L j k) = sumN n (fun k => L j k * L i k) := sumN_congr n _ _ (fun k _ => mul_comm _ _)
  rw [this]
  by_cases h : i = j
  · subst h; rfl
  · have h' : ¬ j = i := fun e => h e.symm
    simp [h, h']

omit [LinearOrder K] [IsStrictOrderedRing K] in
/-- `Σ_{j<n} (if i = j then μ else 0)·x_j = μ x_i` for `i < n` -/
theorem sumN_ite_eq (n : Nat) (mu : K) (x : Nat → K) (i : Nat) (hi : i < n) :
    sumN n (fun j => (if i = j then mu else 0) * x j) = mu * x i := by
  rw [sumN_eq_sum]
  rw [Finset.sum_eq_single i]
  · simp
  · intro j _ hji
    have : ¬ i = j := fun e => hji e.symm
    simp [this]
  · intro h; exact absurd (Finset.mem_range.mpr hi) h

omit [LinearOrder K] [IsStrictOrderedRing K] in
/-- `xᵀ (L Lᵀ + μ I) x = ‖Lᵀ x‖² + μ ‖x‖²` -/
theorem gram_quadform (n : Nat) (L : Nat → Nat → K) (mu : K) (x : Nat → K) :
    dot n x (matVec n (gramA n L mu) x)
      = normSq n (fun k => sumN n (fun i => L i k * x i)) + mu * normSq n x := by
  unfold normSq dot matVec gramA
  -- left: Σ_i x_i Σ_j (Σ_k L_ik L_jk + δ_ij μ) x_j
  have e1 : ∀ i, i < n → x i * sumN n (fun j => (sumN n (fun k => L i k * L j k) + if i = j then mu else 0) * x j)
      = sumN n (fun k => sumN n (fun j => (L i k * x i) * (L j k * x j))) + mu * (x i * x i) := by
    intro i hi
    have : sumN n (fun j => (sumN n (fun k => L i k * L j k) + if i = j then mu else 0) * x j)
        = sumN n (fun j => sumN n (fun k => L i k * L j k * x j)) + mu * x i := by
      rw [← sumN_ite_eq n mu x i hi, ← sumN_add]
      refine sumN_congr n _ _ (fun j _ => ?_)
      rw [add_mul]
      congr 1
      rw [mul_comm, ← sumN_mul_left]
      exact sumN_congr n _ _ (fun k _ => by ring)
    rw [this, mul_add, sumN_comm, ← sumN_mul_left]
    congr 1
    · refine sumN_congr n _ _ (fun k _ => ?_)
      rw [← sumN_mul_left]
      exact sumN_congr n _ _ (fun j _ => by ring)
    · ring
  rw [sumN_congr n _ _ e1, sumN_add, sumN_mul_left]
  congr 1
  -- Σ_i Σ_k Σ_j (L_ik x_i)(L_jk x_j) = Σ_k (Σ_i L_ik x_i)(Σ_j L_jk x_j)
  rw [sumN_comm]
  refine sumN_congr n _ _ (fun k _ => ?_)
  simp only [sumN_eq_sum]
  rw [Finset.sum_mul_sum]

/-- the Gram-plus-`μI` matrix is uniformly positive: `μ ‖x‖² ≤ xᵀA x` -/
theorem gram_spd (n : Nat) (L : Nat → Nat → K) (mu : K) (x : Nat → K) :
    mu * normSq n x ≤ dot n x (matVec n (gramA n L mu) x) := by
  rw [gram_quadform]
  have := normSq_nonneg n (fun k => sumN n (fun i => L i k * x i))
  linarith

end C39
