import SimbodyProofs.C39_lemmas

/-!
# C39 — property theorems (optimizers return truthful, feasible, improving results)

The optimisation algorithms are vendored and not modelled (partial).  Proved here, over an arbitrary linear
ordered field `K` unless the statement is purely discrete:

* the selection table of `Optimizer::constructOptimizerRep` (`select_*`, `bestAvailable_adequate`, `construct_dim`);
* the numerical-derivative wrappers call the Differentiator and never the user's gradient/Jacobian
  (`numgrad_calls_differentiator`, `numjac_calls_differentiator`), the Differentiator step is exactly `hEst` and
  positive over a field (`stepH_exact`, `stepH_pos`), central differences are exact on quadratics;
* gradient-norm certificate `grad_cert`, its instance for the Gram-plus-identity Hessians the tie uses
  (`grad_cert_gram`), and for simbody's L-BFGS termination test (`lbfgs_stop_gradnorm`, `lbfgs_stop_distance`);
* `kkt_optimal` / `kkt_unique`: the exact KKT certificate carried by every generated problem really certifies the
  unique minimiser over the feasible set;
* contract soundness: `within_bounds_all`, `feasible_sound`, `fTruthful_sound`, `notWorse_sound`, `contract_sound`,
  `accept_near_unique_minimiser`.
-/
namespace C39

/-! ## Selection table -/

theorem select_explicit (c : Bool) (req : Alg) (nc : Nat) (lim : Bool)
    (h : req = .interiorPoint ∨ req = .lbfgs ∨ req = .lbfgsb ∨ req = .cmaes) :
    select c req nc lim = some req := by
  rcases h with h | h | h | h <;> subst h <;> rfl

theorem select_best (c : Bool) (nc : Nat) (lim : Bool) :
    select c .bestAvailable nc lim = some (bestAvailable nc lim) := rfl

/-- whatever `BestAvailable` picks can handle the features the problem has -/
theorem bestAvailable_adequate (nc : Nat) (lim : Bool) :
    (0 < nc → handlesConstraints (bestAvailable nc lim) = true) ∧
    (lim = true → honoursLimits (bestAvailable nc lim) = true) := by
  unfold bestAvailable
  constructor
  · intro h; simp [h, handlesConstraints]
  · intro h; subst h
    by_cases hc : nc > 0 <;> simp [hc, honoursLimits]

theorem bestAvailable_cases (nc : Nat) (lim : Bool) :
    bestAvailable nc lim = (if 0 < nc then Alg.interiorPoint else if lim then Alg.lbfgsb else Alg.lbfgs) := rfl

/-- a CFSQP request whose library does not load gets exactly the `BestAvailable` choice -/
theorem select_cfsqp_fallback (nc : Nat) (lim : Bool) :
    select false .cfsqp nc lim = select false .bestAvailable nc lim := rfl

theorem select_none_iff (c : Bool) (req : Alg) (nc : Nat) (lim : Bool) :
    select c req nc lim = none ↔ (req = .unknown ∨ req = .userSupplied) := by
  cases req <;> cases c <;> simp [select]

theorem bestAvailable_concrete (nc : Nat) (lim : Bool) :
    bestAvailable nc lim ≠ .bestAvailable ∧ bestAvailable nc lim ≠ .unknown ∧ bestAvailable nc lim ≠ .userSupplied := by
  unfold bestAvailable
  by_cases hc : nc > 0 <;> cases lim <;> simp [hc]

/-- the constructed algorithm is always a concrete one -/
theorem select_concrete (c : Bool) (req : Alg) (nc : Nat) (lim : Bool) (a : Alg)
    (h : select c req nc lim = some a) :
    a ≠ .bestAvailable ∧ a ≠ .unknown ∧ a ≠ .userSupplied := by
  have hb := bestAvailable_concrete nc lim
  cases req <;> cases c <;> simp [select] at h <;> subst h <;> first | exact hb | simp

theorem construct_dim (c : Bool) (req : Alg) (nc : Nat) (lim : Bool) (n : Nat) (a : Alg)
    (h : construct c req nc lim n = some a) :
    select c req nc lim = some a ∧ minDim a ≤ n := by
  unfold construct at h
  cases hs : select c req nc lim with
  | none => simp [hs] at h
  | some a' =>
    simp only [hs] at h
    by_cases hd : minDim a' ≤ n
    · simp [hd] at h; subst h; exact ⟨rfl, hd⟩
    · simp [hd] at h

/-! ## Wrapper logic -/

/-- with numerical gradients one wrapper call evaluates the objective `1 + order·n` times (the value at `y0`,
then the Differentiator stencil) and never calls the user's gradient; without, it calls exactly the user's gradient -/
theorem numgrad_calls_differentiator (order n : Nat) :
    gradientWrapperCalls true order n = List.replicate (1 + order * n) UserCall.objective ∧
    UserCall.gradient ∉ gradientWrapperCalls true order n ∧
    gradientWrapperCalls false order n = [UserCall.gradient] := by
  refine ⟨?_, ?_, rfl⟩
  · simp [gradientWrapperCalls, stencilSize, List.replicate_succ, Nat.add_comm]
  · simp [gradientWrapperCalls, stencilSize]

theorem numjac_calls_differentiator (m order n : Nat) (hm : m ≠ 0) :
    jacobianWrapperCalls m false true order n = List.replicate (1 + order * n) UserCall.constraints ∧
    UserCall.jacobian ∉ jacobianWrapperCalls m false true order n ∧
    jacobianWrapperCalls m false false order n = [UserCall.jacobian] ∧
    jacobianWrapperCalls m true true order n = [] ∧ jacobianWrapperCalls 0 false true order n = [] := by
  refine ⟨?_, ?_, ?_, ?_, rfl⟩
  · simp [jacobianWrapperCalls, hm, stencilSize, List.replicate_succ, Nat.add_comm]
  · simp [jacobianWrapperCalls, hm, stencilSize]
  · simp [jacobianWrapperCalls, hm]
  · simp [jacobianWrapperCalls, hm]

variable {K : Type} [Field K] [LinearOrder K] [IsStrictOrderedRing K]

theorem absK_eq_abs (x : K) : absK x = |x| := by
  unfold absK
  by_cases h : x < 0
  · simp [h, abs_of_neg h]
  · simp [h, abs_of_nonneg (not_lt.mp h)]

omit [Field K] [IsStrictOrderedRing K] in
theorem maxK_eq_max (a b : K) : maxK a b = max a b := by
  unfold maxK
  by_cases h : a < b
  · simp [h, max_eq_right (le_of_lt h)]
  · simp [h, max_eq_left (not_lt.mp h)]

omit [LinearOrder K] [IsStrictOrderedRing K] in
/-- over a field `cleanUpH` is the identity: the step actually used is `hEst` -/
theorem stepH_exact [LT K] [DecidableLT K] (accFac ymin y0 : K) :
    stepH accFac ymin y0 = accFac * maxK (absK y0) ymin := by
  unfold stepH; ring

/-- the step is strictly positive (so the difference quotients are defined) -/
theorem stepH_pos (accFac ymin y0 : K) (ha : 0 < accFac) (hy : 0 < ymin) : 0 < stepH accFac ymin y0 := by
  rw [stepH_exact, maxK_eq_max]
  exact mul_pos ha (lt_of_lt_of_le hy (le_max_right _ _))

/-- central differences are exact on quadratics; forward differences carry the error `a·h` -/
theorem difference_quotients_on_quadratics (a b c y h : K) (hh : h ≠ 0) :
    ((a * (y + h) * (y + h) + b * (y + h) + c) - (a * (y - h) * (y - h) + b * (y - h) + c)) / (2 * h) = 2 * a * y + b ∧
    ((a * (y + h) * (y + h) + b * (y + h) + c) - (a * y * y + b * y + c)) / h = 2 * a * y + b + a * h := by
  constructor <;> field_simp <;> ring

/-! ## Gradient-norm certificates -/

/-- **Gradient-norm certificate.**  If `A` is uniformly positive (`μ‖e‖² ≤ eᵀAe`, `μ > 0`), `xs` is stationary and
`‖A x − b‖² ≤ ε²`, then `μ²‖x − xs‖² ≤ ε²`, i.e. `‖x − x*‖ ≤ ε/μ`. -/
theorem grad_cert (n : Nat) (A : Nat → Nat → K) (b xs x : Nat → K) (mu eps : K) (hmu : 0 < mu)
    (hspd : ∀ e : Nat → K, mu * normSq n e ≤ dot n e (matVec n A e))
    (hxs : ∀ i, i < n → quadGrad n A b xs i = 0)
    (hg : normSq n (quadGrad n A b x) ≤ eps * eps) :
    mu * mu * normSq n (sub x xs) ≤ eps * eps := by
  set e := sub x xs with he
  have hr : dot n e (quadGrad n A b x) = dot n e (matVec n A e) := by
    unfold dot
    refine sumN_congr n _ _ (fun i hi => ?_)
    have h0 := hxs i hi
    unfold quadGrad at h0 ⊢
    rw [he, matVec_sub]
    congr 1
    linear_combination h0
  have hE := normSq_nonneg n e
  have hcs := cauchy_schwarz n e (quadGrad n A b x)
  rw [hr] at hcs
  have h1 := hspd e
  set E := normSq n e
  set R := normSq n (quadGrad n A b x)
  set D := dot n e (matVec n A e)
  have hD : 0 ≤ D := le_trans (mul_nonneg hmu.le hE) h1
  rcases eq_or_lt_of_le hE with h0 | hpos
  · rw [← h0]; simp; exact mul_self_nonneg eps
  · -- μ²E² ≤ D² ≤ E R
    have h2 : (mu * E) * (mu * E) ≤ D * D := mul_self_le_mul_self (mul_nonneg hmu.le hE) h1
    have h3 : E * (mu * mu * E) ≤ E * R := by nlinarith
    have h4 : mu * mu * E ≤ R := le_of_mul_le_mul_left h3 hpos
    exact le_trans h4 hg

/-- the certificate for the Hessians the tie generates (`A = L Lᵀ + μ I`): no positivity hypothesis left -/
theorem grad_cert_gram (n : Nat) (L : Nat → Nat → K) (b xs x : Nat → K) (mu eps : K) (hmu : 0 < mu)
    (hxs : ∀ i, i < n → quadGrad n (gramA n L mu) b xs i = 0)
    (hg : normSq n (quadGrad n (gramA n L mu) b x) ≤ eps * eps) :
    mu * mu * normSq n (sub x xs) ≤ eps * eps :=
  grad_cert n _ b xs x mu eps hmu (fun e => gram_spd n L mu e) hxs hg

/-- simbody's L-BFGS termination test bounds the Euclidean gradient norm:
`‖g‖² ≤ n·(eps·max(0.1,|f|))²` -/
theorem lbfgs_stop_gradnorm (n : Nat) (tenth eps f : K) (x g : Nat → K)
    (h : lbfgsConverged n tenth eps f x g = true) :
    normSq n g ≤ (n : K) * ((eps * maxK tenth (absK f)) * (eps * maxK tenth (absK f))) := by
  unfold lbfgsConverged at h
  simp only [List.all_eq_true, List.mem_range, decide_eq_true_eq] at h
  set T := eps * maxK tenth (absK f)
  rw [← sumN_const]
  unfold normSq dot
  refine sumN_le_sumN n _ _ (fun i hi => ?_)
  have hi' := h i hi
  rw [absK_eq_abs, maxK_eq_max, absK_eq_abs] at hi'
  have h1 : |g i| ≤ |g i| * max 1 |x i| := le_mul_of_one_le_right (abs_nonneg _) (le_max_left _ _)
  have h2 : |g i| ≤ T := le_trans h1 hi'
  calc g i * g i = |g i| * |g i| := (abs_mul_abs_self (g i)).symm
    _ ≤ T * T := mul_self_le_mul_self (abs_nonneg _) h2

/-- **L-BFGS on a strictly convex quadratic**: when simbody's termination test holds at `x` (with the exact
gradient), `x` is within `√n·eps·max(0.1,|f|)/μ` of the unique minimiser. -/
theorem lbfgs_stop_distance (n : Nat) (L : Nat → Nat → K) (b xs x : Nat → K) (mu tenth eps f : K) (hmu : 0 < mu)
    (hxs : ∀ i, i < n → quadGrad n (gramA n L mu) b xs i = 0)
    (h : lbfgsConverged n tenth eps f x (quadGrad n (gramA n L mu) b x) = true) :
    mu * mu * normSq n (sub x xs) ≤ (n : K) * ((eps * maxK tenth (absK f)) * (eps * maxK tenth (absK f))) := by
  have hg := lbfgs_stop_gradnorm n tenth eps f x _ h
  set g := quadGrad n (gramA n L mu) b x
  set e := sub x xs
  -- redo grad_cert with the bound `n T²` in place of `ε²`
  have hr : dot n e g = dot n e (matVec n (gramA n L mu) e) := by
    unfold dot
    refine sumN_congr n _ _ (fun i hi => ?_)
    have h0 := hxs i hi
    show e i * quadGrad n (gramA n L mu) b x i = _
    unfold quadGrad at h0 ⊢
    rw [show e = sub x xs from rfl, matVec_sub]
    congr 1
    linear_combination h0
  have hE := normSq_nonneg n e
  have hcs := cauchy_schwarz n e g
  rw [hr] at hcs
  have h1 := gram_spd n L mu e
  set E := normSq n e
  set R := normSq n g
  set D := dot n e (matVec n (gramA n L mu) e)
  rcases eq_or_lt_of_le hE with h0 | hpos
  · rw [← h0]; simp
    exact mul_nonneg (Nat.cast_nonneg n) (mul_self_nonneg _)
  · have h2 : (mu * E) * (mu * E) ≤ D * D := mul_self_le_mul_self (mul_nonneg hmu.le hE) h1
    have h3 : E * (mu * mu * E) ≤ E * R := by nlinarith
    have h4 : mu * mu * E ≤ R := le_of_mul_le_mul_left h3 hpos
    exact le_trans h4 hg

/-! ## KKT certificate ⇒ unique minimiser -/

omit [LinearOrder K] [IsStrictOrderedRing K] in
theorem sumN_split (a b : Nat) (f : Nat → K) : sumN (a + b) f = sumN a f + sumN b (fun r => f (a + r)) := by
  induction b with
  | zero => simp [sumN]
  | succ b ih => rw [← Nat.add_assoc, sumN, ih, sumN]; ring

omit [LinearOrder K] [IsStrictOrderedRing K] in
theorem conVal_sub (n : Nat) (C : Nat → Nat → K) (d y xs : Nat → K) (r : Nat) :
    sumN n (fun i => C r i * (sub y xs) i) = conVal n C d y r - conVal n C d xs r := by
  unfold conVal sub
  have : sumN n (fun i => C r i * (y i - xs i)) = sumN n (fun i => C r i * y i) - sumN n (fun i => C r i * xs i) := by
    rw [← sumN_sub]; exact sumN_congr n _ _ (fun i _ => by ring)
  rw [this]; ring

/-- exact identity: `f(y) − f(xs) = ∇f(xs)·(y − xs) + ½ (y − xs)ᵀA(y − xs)` for symmetric `A` -/
theorem quad_gap (n : Nat) (A : Nat → Nat → K) (hA : ∀ i j, i < n → j < n → A i j = A j i) (b xs y : Nat → K) :
    quadF n A b y - quadF n A b xs
      = dot n (quadGrad n A b xs) (sub y xs) + dot n (sub y xs) (matVec n A (sub y xs)) / 2 := by
  have hsym := dot_matVec_symm n A hA y xs
  have e1 : dot n (sub y xs) (matVec n A (sub y xs))
      = dot n y (matVec n A y) - dot n y (matVec n A xs) - dot n xs (matVec n A y) + dot n xs (matVec n A xs) := by
    have : dot n (sub y xs) (matVec n A (sub y xs)) = dot n (sub y xs) (sub (matVec n A y) (matVec n A xs)) := by
      unfold dot; exact sumN_congr n _ _ (fun i _ => by rw [matVec_sub]; rfl)
    rw [this, dot_sub_left, dot_sub_right, dot_sub_right]; ring
  have e2 : dot n (quadGrad n A b xs) (sub y xs)
      = dot n (matVec n A xs) y - dot n (matVec n A xs) xs - dot n b y + dot n b xs := by
    have : dot n (quadGrad n A b xs) (sub y xs) = dot n (sub (matVec n A xs) b) (sub y xs) := rfl
    rw [this, dot_sub_left, dot_sub_right, dot_sub_right]; ring
  rw [e1, e2]
  unfold quadF
  rw [dot_comm n (matVec n A xs) y, dot_comm n (matVec n A xs) xs]
  have h2 : (2 : K) ≠ 0 := two_ne_zero
  field_simp
  linear_combination (-1 : K) * hsym

omit [Field K] [IsStrictOrderedRing K] in
theorem geLo_sound (l : Option K) (v : K) (h : geLo l v = true) : ∀ a, l = some a → a ≤ v := by
  intro a ha; subst ha; simpa [geLo] using h

omit [Field K] [IsStrictOrderedRing K] in
theorem leHi_sound (l : Option K) (v : K) (h : leHi l v = true) : ∀ a, l = some a → v ≤ a := by
  intro a ha; subst ha; simpa [leHi] using h

omit [Field K] [IsStrictOrderedRing K] in
/-- `inBox` means what it says -/
theorem inBox_sound (n : Nat) (lo hi : Nat → Option K) (x : Nat → K) (h : inBox n lo hi x = true) :
    ∀ i, i < n → (∀ a, lo i = some a → a ≤ x i) ∧ (∀ a, hi i = some a → x i ≤ a) := by
  intro i hi'
  unfold inBox at h
  simp only [List.all_eq_true, List.mem_range, Bool.and_eq_true] at h
  exact ⟨geLo_sound _ _ (h i hi').1, leHi_sound _ _ (h i hi').2⟩

/-- `feasible` means what it says -/
theorem feasible_sound (n nEq nIneq : Nat) (C : Nat → Nat → K) (d : Nat → K) (ctol : K) (x : Nat → K)
    (h : feasible n nEq nIneq C d ctol x = true) :
    (∀ r, r < nEq → |conVal n C d x r| ≤ ctol) ∧ (∀ r, r < nIneq → -ctol ≤ conVal n C d x (nEq + r)) := by
  unfold feasible at h
  simp only [List.all_eq_true, List.mem_range, Bool.and_eq_true, decide_eq_true_eq] at h
  exact ⟨fun r hr => abs_le.mpr (h.1 r hr), fun r hr => h.2 r hr⟩

/-- **KKT certificate ⇒ minimiser with quadratic growth.**  If the exact certificate `kktOK` holds at `xs` for
`min ½xᵀAx − bᵀx` (`A = LLᵀ + μI`, `μ ≥ 0`) subject to `C_eq x = d_eq`, `C_in x ≥ d_in`, `lo ≤ x ≤ hi`, then every
feasible `y` has `f(y) ≥ f(xs) + (μ/2)‖y − xs‖²`. -/
theorem kkt_optimal (n nEq nIneq : Nat) (L : Nat → Nat → K) (mu : K) (b : Nat → K) (C : Nat → Nat → K) (d : Nat → K)
    (lo hi : Nat → Option K) (xs mult zlo zhi : Nat → K)
    (hk : kktOK n nEq nIneq (gramA n L mu) b C d lo hi xs mult zlo zhi = true)
    (y : Nat → K) (hyf : feasible n nEq nIneq C d 0 y = true) (hyb : inBox n lo hi y = true) :
    quadF n (gramA n L mu) b xs + mu / 2 * normSq n (sub y xs) ≤ quadF n (gramA n L mu) b y := by
  unfold kktOK at hk
  simp only [Bool.and_eq_true] at hk
  obtain ⟨⟨⟨⟨hxf, hxb⟩, hstat⟩, hmult⟩, hz⟩ := hk
  simp only [List.all_eq_true, List.mem_range, Bool.and_eq_true, decide_eq_true_eq] at hstat hmult hz
  have hxf' := feasible_sound _ _ _ _ _ _ _ hxf
  have hyf' := feasible_sound _ _ _ _ _ _ _ hyf
  have hxb' := inBox_sound _ _ _ _ hxb
  have hyb' := inBox_sound _ _ _ _ hyb
  set A := gramA n L mu with hAdef
  set e := sub y xs with he
  have hgap := quad_gap n A (fun i j _ _ => gramA_symm n L mu i j) b xs y
  have hspd := gram_spd n L mu e
  -- the linear term is non-negative
  have hlin : 0 ≤ dot n (quadGrad n A b xs) e := by
    have e0 : dot n (quadGrad n A b xs) e
        = sumN n (fun i => sumN (nEq + nIneq) (fun r => C r i * mult r) * e i) + sumN n (fun i => zlo i * e i)
          - sumN n (fun i => zhi i * e i) := by
      unfold dot
      rw [← sumN_add, ← sumN_sub]
      refine sumN_congr n _ _ (fun i hi' => ?_)
      rw [hstat i hi']; ring
    have e1 : sumN n (fun i => sumN (nEq + nIneq) (fun r => C r i * mult r) * e i)
        = sumN (nEq + nIneq) (fun r => mult r * (conVal n C d y r - conVal n C d xs r)) := by
      have : ∀ i, i < n → sumN (nEq + nIneq) (fun r => C r i * mult r) * e i
          = sumN (nEq + nIneq) (fun r => mult r * (C r i * e i)) := by
        intro i _
        rw [mul_comm, ← sumN_mul_left]
        exact sumN_congr _ _ _ (fun r _ => by ring)
      rw [sumN_congr n _ _ this, sumN_comm]
      refine sumN_congr _ _ _ (fun r _ => ?_)
      rw [sumN_mul_left, he, conVal_sub n C d y xs r]
    have t1 : 0 ≤ sumN (nEq + nIneq) (fun r => mult r * (conVal n C d y r - conVal n C d xs r)) := by
      rw [sumN_split]
      have ha : sumN nEq (fun r => mult r * (conVal n C d y r - conVal n C d xs r)) = 0 := by
        have : ∀ r, r < nEq → mult r * (conVal n C d y r - conVal n C d xs r) = (0 : K) := by
          intro r hr
          have h1 := abs_nonpos_iff.mp (hyf'.1 r hr)
          have h2 := abs_nonpos_iff.mp (hxf'.1 r hr)
          rw [h1, h2]; ring
        rw [sumN_congr _ _ _ this, sumN_const]; ring
      rw [ha, zero_add]
      refine sumN_nonneg _ _ (fun r hr => ?_)
      have hm := hmult r hr
      have hy := hyf'.2 r hr
      rw [neg_zero] at hy
      have : mult (nEq + r) * (conVal n C d y (nEq + r) - conVal n C d xs (nEq + r))
          = mult (nEq + r) * conVal n C d y (nEq + r) := by rw [mul_sub, hm.2]; ring
      rw [this]; exact mul_nonneg hm.1 hy
    have t2 : 0 ≤ sumN n (fun i => zlo i * e i) := by
      refine sumN_nonneg _ _ (fun i hi' => ?_)
      obtain ⟨⟨⟨hzl, _⟩, hsl⟩, _⟩ := hz i hi'
      cases hl : lo i with
      | none =>
        rw [hl] at hsl
        simp only [loSlackZero, decide_eq_true_eq] at hsl
        rw [hsl, zero_mul]
      | some a =>
        rw [hl] at hsl
        simp only [loSlackZero, decide_eq_true_eq] at hsl
        have hya := (hyb' i hi').1 a hl
        have : zlo i * e i = zlo i * (y i - a) := by
          show zlo i * (y i - xs i) = _
          linear_combination -hsl
        rw [this]; exact mul_nonneg hzl (sub_nonneg.mpr hya)
    have t3 : sumN n (fun i => zhi i * e i) ≤ 0 := by
      have : 0 ≤ sumN n (fun i => -(zhi i * e i)) := by
        refine sumN_nonneg _ _ (fun i hi' => ?_)
        obtain ⟨⟨⟨_, hzh⟩, _⟩, hsh⟩ := hz i hi'
        cases hh : hi i with
        | none =>
          rw [hh] at hsh
          simp only [hiSlackZero, decide_eq_true_eq] at hsh
          rw [hsh, zero_mul, neg_zero]
        | some a =>
          rw [hh] at hsh
          simp only [hiSlackZero, decide_eq_true_eq] at hsh
          have hya := (hyb' i hi').2 a hh
          have : -(zhi i * e i) = zhi i * (a - y i) := by
            show -(zhi i * (y i - xs i)) = _
            linear_combination -hsh
          rw [this]; exact mul_nonneg hzh (sub_nonneg.mpr hya)
      have h2 : sumN n (fun i => -(zhi i * e i)) = -sumN n (fun i => zhi i * e i) := by
        have : sumN n (fun i => -(zhi i * e i)) = sumN n (fun i => (-1 : K) * (zhi i * e i)) :=
          sumN_congr _ _ _ (fun i _ => by ring)
        rw [this, sumN_mul_left]; ring
      rw [h2] at this; linarith
    rw [e0, e1]; linarith
  have : quadF n A b y = quadF n A b xs + (dot n (quadGrad n A b xs) e + dot n e (matVec n A e) / 2) := by
    linear_combination hgap
  rw [this]
  have : mu / 2 * normSq n e ≤ dot n e (matVec n A e) / 2 := by
    have := hspd; rw [div_mul_eq_mul_div]; exact div_le_div_of_nonneg_right this (by norm_num)
  linarith

/-- with `μ > 0` the certified point is the *unique* minimiser over the feasible set (below the dimension) -/
theorem kkt_unique (n nEq nIneq : Nat) (L : Nat → Nat → K) (mu : K) (hmu : 0 < mu) (b : Nat → K) (C : Nat → Nat → K)
    (d : Nat → K) (lo hi : Nat → Option K) (xs mult zlo zhi : Nat → K)
    (hk : kktOK n nEq nIneq (gramA n L mu) b C d lo hi xs mult zlo zhi = true)
    (y : Nat → K) (hyf : feasible n nEq nIneq C d 0 y = true) (hyb : inBox n lo hi y = true)
    (hle : quadF n (gramA n L mu) b y ≤ quadF n (gramA n L mu) b xs) :
    ∀ i, i < n → y i = xs i := by
  have h := kkt_optimal n nEq nIneq L mu b C d lo hi xs mult zlo zhi hk y hyf hyb
  have hn := normSq_nonneg n (sub y xs)
  have h0 : normSq n (sub y xs) = 0 := by
    have : mu / 2 * normSq n (sub y xs) ≤ 0 := by linarith
    have hpos : 0 < mu / 2 := by positivity
    nlinarith
  intro i hi'
  unfold normSq dot at h0
  rw [sumN_eq_sum] at h0
  have := (Finset.sum_eq_zero_iff_of_nonneg (fun j _ => mul_self_nonneg ((sub y xs) j))).mp h0 i (Finset.mem_range.mpr hi')
  have : (sub y xs) i = 0 := mul_self_eq_zero.mp this
  unfold sub at this
  linarith

/-- the Rosenbrock-like objective is non-negative and vanishes at `(1,…,1)` -/
theorem rosen_nonneg (n : Nat) (cR : K) (hc : 0 ≤ cR) (x : Nat → K) : 0 ≤ rosenF n cR x := by
  unfold rosenF
  have h1 : 0 ≤ sumN (n - 1) (fun i => cR * ((x (i + 1) - x i * x i) * (x (i + 1) - x i * x i)) + (1 - x i) * (1 - x i)) :=
    sumN_nonneg _ _ (fun i _ => add_nonneg (mul_nonneg hc (mul_self_nonneg _)) (mul_self_nonneg _))
  have h2 := mul_self_nonneg (1 - x (n - 1))
  linarith

omit [LinearOrder K] [IsStrictOrderedRing K] in
theorem rosen_at_ones (n : Nat) (cR : K) : rosenF n cR (fun _ => 1) = 0 := by
  unfold rosenF
  have : ∀ i, i < n - 1 → cR * (((1 : K) - 1 * 1) * (1 - 1 * 1)) + (1 - 1) * (1 - 1) = (0 : K) := fun _ _ => by ring
  rw [sumN_congr _ _ _ this, sumN_const]; ring

/-! ## Contract soundness -/

omit [Field K] [IsStrictOrderedRing K] in
/-- acceptance over the log ⇒ every logged evaluation point is inside the box -/
theorem within_bounds_all (n : Nat) (lo hi : Nat → Option K) (pts : List (Nat → K))
    (h : allInBox n lo hi pts = true) :
    ∀ p ∈ pts, ∀ i, i < n → (∀ a, lo i = some a → a ≤ p i) ∧ (∀ a, hi i = some a → p i ≤ a) := by
  unfold allInBox at h
  rw [List.all_eq_true] at h
  exact fun p hp => inBox_sound n lo hi p (h p hp)

theorem fTruthful_sound (tolF fret F : K) (h : fTruthful tolF fret F = true) : |fret - F| ≤ tolF * (1 + |F|) := by
  unfold fTruthful at h
  simpa [absK_eq_abs] using h

omit [IsStrictOrderedRing K] in
theorem notWorse_sound (Fret Fstart slack : K) (h : notWorse Fret Fstart slack = true) : Fret ≤ Fstart + slack := by
  unfold notWorse at h
  simpa using h

omit [IsStrictOrderedRing K] in
/-- acceptance = no failed clause -/
theorem accept_iff (P : Problem K) (cert : Option (Cert K)) (o : Outcome K) :
    accept P cert o = true ↔ failures P cert o = [] := by
  unfold accept; exact List.isEmpty_iff

/-- **Contract soundness.**  If the exact acceptance predicate says yes, then: the returned value is the
objective at the returned point (within `tolF`); a descent method did not return a point worse than its
(projected) start; a limit-honouring method returned a point inside the limits and — where claimed — evaluated
only points inside the limits it is held to; the interior-point result satisfies every constraint within `ctol`;
and when a certificate is attached it is a valid KKT certificate and the result is within the distance bound of it. -/
theorem contract_sound (P : Problem K) (cert : Option (Cert K)) (o : Outcome K) (h : accept P cert o = true) :
    |o.fret - P.F o.xret| ≤ o.tolF * (1 + |P.F o.xret|) ∧
    (isDescent o.alg = true →
      P.F o.xret ≤ P.F (if o.alg = .lbfgsb then clampTo P.lo P.hi o.x0 else o.x0) + o.slack) ∧
    (honoursLimits o.alg = true →
      (∀ i, i < P.n → (∀ a, P.lo i = some a → a ≤ o.xret i) ∧ (∀ a, P.hi i = some a → o.xret i ≤ a)) ∧
      (((List.range P.n).any (fun i => (P.lo i).isSome || (P.hi i).isSome)) = true → o.checkEvals = true →
        ∀ p ∈ o.evals, ∀ i, i < P.n →
          (∀ a, o.loE i = some a → a ≤ p i) ∧ (∀ a, o.hiE i = some a → p i ≤ a))) ∧
    (o.alg = .interiorPoint →
      (∀ r, r < P.nEq → |conVal P.n P.C P.d o.xret r| ≤ o.ctol) ∧
      (∀ r, r < P.nIneq → -o.ctol ≤ conVal P.n P.C P.d o.xret (P.nEq + r))) ∧
    (∀ c, cert = some c →
      kktOK P.n P.nEq P.nIneq P.A P.b P.C P.d P.lo P.hi c.xs c.mult c.zlo c.zhi = true ∧
      normSq P.n (sub o.xret c.xs) ≤ o.boundSq) := by
  rw [accept_iff] at h
  unfold failures at h
  simp only [List.append_eq_nil_iff] at h
  obtain ⟨⟨⟨⟨h1, h2⟩, h3⟩, h4⟩, h5⟩ := h
  refine ⟨?_, ?_, ?_, ?_, ?_⟩
  · by_cases hf : fTruthful o.tolF o.fret (P.F o.xret) = true
    · exact fTruthful_sound _ _ _ hf
    · simp [hf] at h1
  · intro hd
    simp only [hd, if_true] at h2
    by_cases hf : notWorse (P.F o.xret) (P.F (if o.alg = .lbfgsb then clampTo P.lo P.hi o.x0 else o.x0)) o.slack = true
    · exact notWorse_sound _ _ _ hf
    · simp [hf] at h2
  · intro hl
    by_cases hany : ((List.range P.n).any (fun i => (P.lo i).isSome || (P.hi i).isSome)) = true
    · simp only [hl, hany, Bool.and_self, if_true, List.append_eq_nil_iff] at h3
      obtain ⟨h3a, h3b⟩ := h3
      constructor
      · by_cases hf : inBox P.n P.lo P.hi o.xret = true
        · exact inBox_sound _ _ _ _ hf
        · simp [hf] at h3a
      · intro _ hc
        simp only [hc, if_true] at h3b
        by_cases hf : allInBox P.n o.loE o.hiE o.evals = true
        · exact within_bounds_all _ _ _ _ hf
        · simp [hf] at h3b
    · -- no finite limit at all: the box statements are vacuous for the result
      have hnone : ∀ i, i < P.n → P.lo i = none ∧ P.hi i = none := by
        intro i hi'
        simp only [List.any_eq_true, List.mem_range, Bool.or_eq_true, not_exists, not_and, not_or] at hany
        have := hany i hi'
        simp only [Option.isSome_iff_ne_none, ne_eq, not_not] at this
        exact this
      constructor
      · intro i hi'
        obtain ⟨hlo, hhi⟩ := hnone i hi'
        exact ⟨fun a ha => (by rw [hlo] at ha; cases ha), fun a ha => (by rw [hhi] at ha; cases ha)⟩
      · intro hc; exact absurd hc hany
  · intro ha
    simp only [ha, if_true] at h4
    by_cases hf : feasible P.n P.nEq P.nIneq P.C P.d o.ctol o.xret = true
    · exact feasible_sound _ _ _ _ _ _ _ hf
    · simp [hf] at h4
  · intro c hc
    subst hc
    simp only [List.append_eq_nil_iff] at h5
    obtain ⟨h5a, h5b⟩ := h5
    constructor
    · by_cases hf : kktOK P.n P.nEq P.nIneq P.A P.b P.C P.d P.lo P.hi c.xs c.mult c.zlo c.zhi = true
      · exact hf
      · simp [hf] at h5a
    · by_cases hf : near P.n o.xret c.xs o.boundSq = true
      · unfold near at hf; simpa using hf
      · simp [hf] at h5b

/-- **Strictly convex problems.**  For the quadratic family (`A = LLᵀ + I`) an accepted record with a certificate
says: the certificate point `xs` is the minimiser over the whole feasible set with quadratic growth
`f(y) ≥ f(xs) + ½‖y − xs‖²` (hence unique), and the returned point is within the distance bound of it. -/
theorem accept_near_unique_minimiser (P : Problem K) (c : Cert K) (o : Outcome K) (hq : P.ptype = 0)
    (h : accept P (some c) o = true) :
    (∀ y, feasible P.n P.nEq P.nIneq P.C P.d 0 y = true → inBox P.n P.lo P.hi y = true →
        P.F c.xs + 1 / 2 * normSq P.n (sub y c.xs) ≤ P.F y) ∧
    normSq P.n (sub o.xret c.xs) ≤ o.boundSq := by
  obtain ⟨_, _, _, _, h5⟩ := contract_sound P (some c) o h
  obtain ⟨hk, hn⟩ := h5 c rfl
  refine ⟨fun y hy hb => ?_, hn⟩
  have := kkt_optimal P.n P.nEq P.nIneq P.L 1 P.b P.C P.d P.lo P.hi c.xs c.mult c.zlo c.zhi hk y hy hb
  simpa [Problem.F, hq, Problem.A] using this

/-! ## Non-vacuity -/

/-- the KKT certificate predicate is satisfiable: `min ½x² − x` on `x ≤ 1/2` … here unconstrained, `xs = 1` -/
example : kktOK (K := Rat) 1 0 0 (gramA 1 (fun _ _ => 0) 1) (fun _ => 1) (fun _ _ => 0) (fun _ => 0)
    (fun _ => none) (fun _ => none) (fun _ => 1) (fun _ => 0) (fun _ => 0) (fun _ => 0) = true := by
  simp [kktOK, feasible, inBox, geLo, leHi, quadGrad, matVec, gramA, sumN, loSlackZero, hiSlackZero]

/-- … and with an active upper bound: `min ½x² − x` s.t. `x ≤ 1/2`, `xs = 1/2`, `zhi = 1/2` -/
example : kktOK (K := Rat) 1 0 0 (gramA 1 (fun _ _ => 0) 1) (fun _ => 1) (fun _ _ => 0) (fun _ => 0)
    (fun _ => none) (fun _ => some (1/2)) (fun _ => 1/2) (fun _ => 0) (fun _ => 0) (fun _ => 1/2) = true := by
  norm_num [kktOK, feasible, inBox, geLo, leHi, quadGrad, matVec, gramA, sumN, loSlackZero, hiSlackZero]

/-- the hypotheses of `lbfgs_stop_distance` are satisfiable (n = 1, `f = ½x² − x`, x = 1 + 1/1000) -/
example : lbfgsConverged (K := Rat) 1 (1/10) (1/100) (-1/2) (fun _ => 1001/1000)
    (quadGrad 1 (gramA 1 (fun _ _ => 0) 1) (fun _ => 1) (fun _ => 1001/1000)) = true := by
  norm_num [lbfgsConverged, quadGrad, matVec, gramA, sumN, absK, maxK]

example : select false .cfsqp 2 true = some .interiorPoint := rfl
example : construct false .cmaes 0 true 1 = none := rfl

end C39
