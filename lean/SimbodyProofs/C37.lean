import SimbodyProofs.ForceLaws_lemmas

/-!
# C37 — compliant contact forces follow their documented laws

Model: `SimbodyModel/ForceLaws.lean`, section *Compliant contact* (`hcContact`/`hcLoop` for `HuntCrossleyForce`,
`hertzContact` for the Hertz generators of `CompliantContactSubsystem`, `efSpring` for one spring of
`ElasticFoundationForce`, `smoothSphere` for `SmoothSphereHalfSpaceForce`, `expNormal` for the normal force of
`ExponentialSpringForce`).  Theorems, per model: `…_normal_nonattractive`, `…_vanishes_without_penetration`,
`…_friction_in_tangent_plane`, `…_friction_opposes_slip`, `…_friction_le_limit`, magnitude `…_eq_doc`, and
`hc_sum_over_contacts` (each contact contributes independently — the loop modelled with `continue`).
-/
set_option linter.unusedSectionVars false
namespace ForceLaws
open V3
variable {K : Type} [Field K] [LinearOrder K] [IsStrictOrderedRing K]

/-! ### the friction blends -/

theorem kminc_nonneg {a b : K} (ha : 0 ≤ a) (hb : 0 ≤ b) : 0 ≤ kminc a b := by
  unfold kminc; split_ifs <;> assumption
theorem kminc_le_left (a b : K) : kminc a b ≤ a := by
  unfold kminc; split_ifs with h
  · exact h.le
  · exact le_refl _
theorem kminc_le_right (a b : K) : kminc a b ≤ b := by
  unfold kminc; split_ifs with h
  · exact le_refl _
  · exact not_lt.mp h

/-- dry part of Hollars' blend never exceeds the static coefficient -/
theorem hollars_dry_le (us ud v : K) (hud : 0 ≤ ud) (hus : ud ≤ us) (hv : 0 ≤ v) :
    kminc v 1 * (ud + 2 * (us - ud) / (1 + v * v)) ≤ us := by
  have hpos : 0 < 1 + v * v := by nlinarith [mul_self_nonneg v]
  have hm0 : 0 ≤ kminc v 1 := kminc_nonneg hv zero_le_one
  have hm1 : kminc v 1 ≤ 1 := kminc_le_right v 1
  have hmv : kminc v 1 ≤ v := kminc_le_left v 1
  have hd : 0 ≤ us - ud := sub_nonneg.mpr hus
  -- m * 2/(1+v²) ≤ 1 because m ≤ v and 2v ≤ 1+v², and m ≤ 1
  have h2 : kminc v 1 * 2 ≤ 1 + v * v := by nlinarith [mul_self_nonneg (v - 1)]
  have h3 : kminc v 1 * (2 * (us - ud) / (1 + v * v)) ≤ us - ud := by
    rw [← mul_div_assoc, div_le_iff₀ hpos]
    nlinarith
  have h4 : kminc v 1 * ud ≤ ud := by nlinarith
  calc kminc v 1 * (ud + 2 * (us - ud) / (1 + v * v))
      = kminc v 1 * ud + kminc v 1 * (2 * (us - ud) / (1 + v * v)) := by ring
    _ ≤ ud + (us - ud) := add_le_add h4 h3
    _ = us := by ring

theorem hollars_dry_nonneg (us ud v : K) (hud : 0 ≤ ud) (hus : ud ≤ us) (hv : 0 ≤ v) :
    0 ≤ kminc v 1 * (ud + 2 * (us - ud) / (1 + v * v)) := by
  have hpos : 0 < 1 + v * v := by nlinarith [mul_self_nonneg v]
  have hm0 : 0 ≤ kminc v 1 := kminc_nonneg hv zero_le_one
  have : 0 ≤ 2 * (us - ud) / (1 + v * v) := div_nonneg (by linarith) hpos.le
  exact mul_nonneg hm0 (by linarith)

/-- the documented friction coefficient is non-negative and at most `us + uv·vs` -/
theorem hollars_bounds (us ud uv vrel vslip : K) (hud : 0 ≤ ud) (hus : ud ≤ us) (huv : 0 ≤ uv) (hv : 0 ≤ vrel)
    (hs : 0 ≤ vslip) : 0 ≤ hollars us ud uv vrel vslip ∧ hollars us ud uv vrel vslip ≤ us + uv * vslip := by
  unfold hollars
  have := hollars_dry_le us ud vrel hud hus hv
  have := hollars_dry_nonneg us ud vrel hud hus hv
  have := mul_nonneg huv hs
  constructor <;> linarith

/-- `step5` maps `[0,1]` into `[0,1]` -/
theorem step5_bounds (x : K) (h0 : 0 ≤ x) (h1 : x ≤ 1) : 0 ≤ step5 x ∧ step5 x ≤ 1 := by
  have e : step5 x = x * x * x * (10 + x * (6 * x - 15)) := by simp only [step5]; ring
  have e' : 1 - step5 x = (1 - x) * (1 - x) * (1 - x) * (10 + (1 - x) * (6 * (1 - x) - 15)) := by rw [e]; ring
  have q : ∀ y : K, 0 ≤ y → y ≤ 1 → 0 ≤ 10 + y * (6 * y - 15) := by
    intro y hy0 hy1; nlinarith [mul_self_nonneg (y - 1), mul_nonneg hy0 (sub_nonneg.mpr hy1)]
  have c3 : ∀ y : K, 0 ≤ y → 0 ≤ y * y * y := fun y hy => mul_nonneg (mul_nonneg hy hy) hy
  constructor
  · rw [e]; exact mul_nonneg (c3 x h0) (q x h0 h1)
  · have : 0 ≤ 1 - step5 x := by
      rw [e']; exact mul_nonneg (c3 (1 - x) (sub_nonneg.mpr h1)) (q (1 - x) (sub_nonneg.mpr h1) (by linarith))
    linarith

/-- the Stribeck-like curve of the Hertz generators: `0 ≤ μ ≤ us + uv·v` for `0 ≤ ud ≤ us`, `0 ≤ uv`, `0 ≤ v` -/
theorem stribeck_bounds (us ud uv v : K) (hud : 0 ≤ ud) (hus : ud ≤ us) (huv : 0 ≤ uv) (hv : 0 ≤ v) :
    0 ≤ stribeck us ud uv v ∧ stribeck us ud uv v ≤ us + uv * v := by
  unfold stribeck
  have hw := mul_nonneg huv hv
  simp only
  split_ifs with h3 h1
  · constructor <;> linarith
  · have hb := step5_bounds ((v - 1) / 2) (by linarith) (by linarith [not_le.mp h3])
    have hd : 0 ≤ us - ud := sub_nonneg.mpr hus
    have : (us - ud) * step5 ((v - 1) / 2) ≤ us - ud := by nlinarith [hb.1, hb.2]
    have : 0 ≤ (us - ud) * step5 ((v - 1) / 2) := mul_nonneg hd hb.1
    constructor <;> linarith
  · have hb := step5_bounds v hv (not_le.mp h1).le
    have hus0 : 0 ≤ us := le_trans hud hus
    have : us * step5 v ≤ us := by nlinarith [hb.1, hb.2]
    have : 0 ≤ us * step5 v := mul_nonneg hus0 hb.1
    constructor <;> linarith

/-! ### ExponentialSpringForce, normal force -/

/-- the coded normal force is the documented `d₁exp(−d₂(pz−d₀))(1 − cz vz)` clamped to `[0, maxNormalForce]` -/
theorem exp_law_eq_doc (exp : K → K) (d0 d1 d2 cz maxF pz vz : K) (hmax : 0 ≤ maxF) :
    (expNormal exp d0 d1 d2 cz maxF pz vz).fz
      = (let doc := docExpNormal exp d0 d1 d2 cz pz vz
         if doc < 0 then 0 else if maxF < doc then maxF else doc) := by
  have e : d1 * exp (-d2 * (pz - d0)) + -cz * vz * (d1 * exp (-d2 * (pz - d0))) = docExpNormal exp d0 d1 d2 cz pz vz := by
    simp only [docExpNormal]
    have : -d2 * (pz - d0) = -(d2 * (pz - d0)) := by ring
    rw [this]; ring
  simp only [expNormal]
  rw [e]
  generalize docExpNormal exp d0 d1 d2 cz pz vz = doc
  by_cases h : doc < 0
  · simp only [if_pos h]
    have : ¬ (maxF < 0) := not_lt.mpr hmax
    simp [this]
  · simp only [if_neg h]
    split_ifs <;> rfl

/-- never attractive, never above the cap; and `fz = fzElas + fzDamp` is maintained by the clamps -/
theorem exp_normal_nonattractive (exp : K → K) (d0 d1 d2 cz maxF pz vz : K) (hmax : 0 ≤ maxF) :
    let o := expNormal exp d0 d1 d2 cz maxF pz vz
    0 ≤ o.fz ∧ o.fz ≤ maxF ∧ o.fz = o.fzElas + o.fzDamp := by
  simp only [expNormal]
  generalize d1 * exp (-d2 * (pz - d0)) = E
  by_cases h : E + -cz * vz * E < 0
  · simp only [if_pos h]
    have : ¬ (maxF < 0) := not_lt.mpr hmax
    simp only [if_neg this]
    exact ⟨le_refl _, hmax, by ring⟩
  · simp only [if_neg h]
    by_cases h2 : maxF < E + -cz * vz * E
    · simp only [if_pos h2]; exact ⟨hmax, le_refl _, by ring⟩
    · simp only [if_neg h2]; exact ⟨not_lt.mp h, not_lt.mp h2, trivial⟩

/-! ### SmoothSphereHalfSpaceForce -/

/-- what is assumed of libm `tanh`: values in `(−1, 1)` -/
structure TanhSpec (tanh : K → K) : Prop where
  gt : ∀ x, -1 < tanh x
  lt : ∀ x, tanh x < 1

/-- the coded normal force is the documented smooth Hunt–Crossley formula -/
theorem smooth_law_eq_doc (sqrt tanh : K → K) (pow : K → K → K) (P : SmoothParams K)
    (Xs Xh : Pose K) (Vs Vh : Vel K) (loc : V3 K) (Xhs : Pose K) (radius : K) :
    let o := smoothSphere sqrt tanh pow P Xs Xh Vs Vh loc Xhs radius
    o.fhc_smooth = docSmoothNormal sqrt tanh pow P.stiffness P.dissipation P.cf P.bd P.bv radius o.indentation o.vnormal
    ∧ o.pe = 2 / 5 * o.fh_smooth * o.indentation := by
  constructor <;> rfl

/-- sign of the smooth normal force.  With `h = fh_smooth ≥ 0`: the force is non-attractive exactly in the regime
`1 + (3/2) c v ≥ 0`; for faster separation (`v < −2/(3c)`) the documented `tanh` blending leaves a strictly
**attractive** residue whenever the Hertz term is non-zero. -/
theorem smooth_normal_sign (tanh : K → K) (ht : TanhSpec tanh) (h c v bv : K) (hh : 0 ≤ h) :
    (0 ≤ 1 + 3 / 2 * c * v → 0 ≤ h * (1 + 3 / 2 * c * v) * (1 / 2 + 1 / 2 * tanh (bv * (v + 2 / (3 * c)))))
    ∧ (1 + 3 / 2 * c * v < 0 → 0 < h → h * (1 + 3 / 2 * c * v) * (1 / 2 + 1 / 2 * tanh (bv * (v + 2 / (3 * c)))) < 0) := by
  have hpos : 0 < 1 / 2 + 1 / 2 * tanh (bv * (v + 2 / (3 * c))) := by linarith [ht.gt (bv * (v + 2 / (3 * c)))]
  constructor
  · intro h1; exact mul_nonneg (mul_nonneg hh h1) hpos.le
  · intro h1 h2; exact mul_neg_of_neg_of_pos (mul_neg_of_pos_of_neg h2 h1) hpos

/-- the smooth Hertz term is non-negative (and does *not* vanish without penetration: the model is smooth) -/
theorem smooth_fh_nonneg (sqrt tanh : K → K) (pow : K → K → K) (hs : SqrtSpec sqrt) (ht : TanhSpec tanh)
    (hp : ∀ a b, 0 ≤ a → 0 ≤ pow a b) (P : SmoothParams K) (hk : 0 ≤ P.stiffness)
    (Xs Xh : Pose K) (Vs Vh : Vel K) (loc : V3 K) (Xhs : Pose K) (radius : K) :
    0 ≤ (smoothSphere sqrt tanh pow P Xs Xh Vs Vh loc Xhs radius).fh_smooth := by
  simp only [smoothSphere]
  have h1 : 0 ≤ 1 / 2 * pow P.stiffness (2 / 3) := mul_nonneg (by norm_num) (hp _ _ hk)
  have h2 := hs.nonneg (radius * (1 / 2 * pow P.stiffness (2 / 3)))
  generalize Xhs.R.col0 = n
  generalize (Xh.invApply (Xs.apply loc) - Xhs.p) = dd
  have h3 := hp (sqrt (-(dot dd (-n) - radius) * -(dot dd (-n) - radius) + P.cf)) (3 / 2) (hs.nonneg _)
  have h4 : 0 ≤ 1 / 2 + 1 / 2 * tanh (P.bd * -(dot dd (-n) - radius)) := by linarith [ht.gt (P.bd * -(dot dd (-n) - radius))]
  have : (0:K) ≤ 4 / 3 := by norm_num
  exact mul_nonneg (mul_nonneg (mul_nonneg (mul_nonneg this h1) h2) h3) h4

/-! ### geometry of the friction vector (shared by all models) -/

omit [LinearOrder K] [IsStrictOrderedRing K] in
/-- the tangential part of a velocity is orthogonal to a unit normal -/
theorem tangent_dot_normal (v n : V3 K) (hn : normSq n = 1) : dot (v - smul (dot v n) n) n = 0 := by
  simp only [normSq, dot] at hn
  simp only [dot, smul, V3.sub_x, V3.sub_y, V3.sub_z]
  linear_combination (-(v.x * n.x + v.y * n.y + v.z * n.z)) * hn

omit [LinearOrder K] [IsStrictOrderedRing K] in
/-- friction vector `ff·vt/s`: component along any direction orthogonal to `vt` vanishes -/
theorem fric_dot (ff s : K) (vt n : V3 K) : dot (divS (smul ff vt) s) n = ff / s * dot vt n := by
  simp only [dot, divS, smul]; ring

omit [LinearOrder K] [IsStrictOrderedRing K] in
theorem fric_normSq (ff s : K) (vt : V3 K) : normSq (divS (smul ff vt) s) = (ff / s) * (ff / s) * normSq vt := by
  simp only [normSq, dot, divS, smul]; ring

omit [LinearOrder K] [IsStrictOrderedRing K] in
theorem dot_zero_left (n : V3 K) : dot (V3.zero : V3 K) n = 0 := by simp [dot]
omit [LinearOrder K] [IsStrictOrderedRing K] in
theorem normSq_zero : normSq (V3.zero : V3 K) = 0 := by simp [normSq, dot]

/-! ### HuntCrossleyForce, one contact -/

/-- the force applied to the body of surface 2 is `fn·normal + friction`, the body of surface 1 gets the opposite -/
theorem hc_force_decomposition (sqrt : K → K) (vt : K) (h : HCContact K) :
    let o := hcContact sqrt vt h
    o.F2.f = smul o.fn h.c.normal + o.fric ∧ o.F1.f = -o.F2.f := by
  simp only [hcContact]
  split_ifs <;> refine ⟨?_, ?_⟩ <;> apply V3.ext' <;> simp [smul, applyForceToBodyPoint, applyAt]

/-- **normal force never attractive**: the scalar normal force is `≥ 0`, and it is the documented Hunt–Crossley value
`fH (1 + 3/2 c v)` whenever that is positive -/
theorem hc_normal_nonattractive (sqrt : K → K) (vt : K) (h : HCContact K) :
    0 ≤ (hcContact sqrt vt h).fn := by
  simp only [hcContact]
  split_ifs with h1 <;> first | exact le_refl _ | exact (not_le.mp h1).le

/-- **friction lies in the tangent plane** (unit normal) -/
theorem hc_friction_in_tangent_plane (sqrt : K → K) (vt : K) (h : HCContact K) (hn : normSq h.c.normal = 1) :
    dot (hcContact sqrt vt h).fric h.c.normal = 0 := by
  simp only [hcContact]
  split_ifs
  · exact dot_zero_left _
  · rw [fric_dot, tangent_dot_normal _ _ hn, mul_zero]
  · exact dot_zero_left _

/-- the reported tangential velocity is orthogonal to the normal -/
theorem hc_vtangent_orthogonal (sqrt : K → K) (vt : K) (h : HCContact K) (hn : normSq h.c.normal = 1) :
    dot (hcContact sqrt vt h).vtangent h.c.normal = 0 := by
  simp only [hcContact]
  split_ifs <;> exact tangent_dot_normal _ _ hn

/-- **without penetration the contact applies nothing and stores no energy**.  Stated for `depth = 0`: a `PointContact` with
`depth < 0` is unreachable (the collision detector only reports overlaps, C35) and lies outside the domain of the `√` in the
Hertz formula -/
theorem hc_vanishes_without_penetration (sqrt : K → K) (vt : K) (h : HCContact K) (hd : h.c.depth = 0) :
    (hcContact sqrt vt h).F1 = SpF.zero ∧ (hcContact sqrt vt h).F2 = SpF.zero ∧ (hcContact sqrt vt h).fn = 0
      ∧ (hcContact sqrt vt h).pe = 0 := by
  simp only [hcContact, hd, mul_zero, zero_mul, le_refl, if_true]
  simp

/-- **friction opposes slip**: the friction applied to body 2 points along the tangential velocity of body 1
relative to body 2 (i.e. against body 2's slip), for combined coefficients `0 ≤ ud ≤ us`, `0 ≤ uv` -/
theorem hc_friction_opposes_slip (sqrt : K → K) (hs : SqrtSpec sqrt) (vt : K) (hvt : 0 < vt) (h : HCContact K)
    (hud : 0 ≤ combineMu h.p1.ud h.p2.ud) (hus : combineMu h.p1.ud h.p2.ud ≤ combineMu h.p1.us h.p2.us)
    (huv : 0 ≤ combineMu h.p1.uv h.p2.uv) :
    0 ≤ dot (hcContact sqrt vt h).fric (hcContact sqrt vt h).vtangent := by
  simp only [hcContact]
  split_ifs with h1 h2
  · rw [dot_zero_left]
  · rw [fric_dot]
    refine mul_nonneg (div_nonneg (mul_nonneg (not_le.mp h1).le ?_) (hs.nonneg _)) (normSq_nonneg _)
    exact (hollars_bounds _ _ _ _ _ hud hus huv (div_nonneg (hs.nonneg _) hvt.le) (hs.nonneg _)).1
  · rw [dot_zero_left]

/-- **friction never exceeds the documented limit** `fn·[min(vs/vt,1)(ud+2(us−ud)/(1+(vs/vt)²))+uv·vs]` (it equals it
whenever there is slip) -/
theorem hc_friction_le_limit (sqrt : K → K) (hs : SqrtSpec sqrt) (vt : K) (h : HCContact K) :
    let o := hcContact sqrt vt h
    let vslip := sqrt (normSq o.vtangent)
    let mu := hollars (combineMu h.p1.us h.p2.us) (combineMu h.p1.ud h.p2.ud) (combineMu h.p1.uv h.p2.uv) (vslip / vt) vslip
    normSq o.fric ≤ (o.fn * mu) * (o.fn * mu) := by
  simp only [hcContact]
  split_ifs with h1 h2
  · rw [normSq_zero]; exact mul_self_nonneg _
  · rw [fric_normSq]
    generalize hN : V3.normSq (K := K) _ = N at h2 ⊢
    have hN0 : 0 ≤ N := hN ▸ normSq_nonneg _
    have hsq := hs.sq N hN0
    generalize sqrt N = s at h2 hsq ⊢
    have hne : s ≠ 0 := by
      rcases h2 with h2 | h2
      · exact ne_of_lt h2
      · exact ne_of_gt h2
    have key : ∀ a : K, a / s * (a / s) * (s * s) = a * a := by intro a; field_simp
    rw [← hsq, key]
  · rw [normSq_zero]; exact mul_self_nonneg _

/-- Hertz magnitude: the coded `4/3 k x √(R k x)(1+3/2 c ẋ)` is the documented `(4/3)√R E x^{3/2}(1+3/2 c ẋ)`,
`E = k^{3/2}` (powers `a^{3/2}` written `a√a`) -/
theorem hertz_force_eq_doc (sqrt : K → K) (hs : SqrtSpec sqrt) (R k c x xdot : K) (hR : 0 ≤ R) (hk : 0 ≤ k) (hx : 0 ≤ x) :
    4 / 3 * k * x * sqrt (R * k * x) * (1 + 3 / 2 * c * xdot) = docHertzForce sqrt R k c x xdot := by
  simp only [docHertzForce]
  rw [hs.mul (mul_nonneg hR hk) hx, hs.mul hR hk]
  ring

theorem hertz_pe_eq_doc (sqrt : K → K) (hs : SqrtSpec sqrt) (R k x : K) (hR : 0 ≤ R) (hk : 0 ≤ k) (hx : 0 ≤ x) :
    2 / 5 * (4 / 3 * k * x * sqrt (R * k * x)) * x = docHertzPE sqrt R k x := by
  simp only [docHertzPE]
  rw [hs.mul (mul_nonneg hR hk) hx, hs.mul hR hk]
  ring

/-- the reported energy of a Hunt–Crossley contact is the documented `2/5 k x^{5/2}` -/
theorem hc_pe_eq_doc (sqrt : K → K) (hs : SqrtSpec sqrt) (vt : K) (h : HCContact K) (hR : 0 ≤ h.c.radius)
    (hk : 0 ≤ h.p1.stiffness * (h.p2.stiffness / (h.p1.stiffness + h.p2.stiffness))) (hx : 0 ≤ h.c.depth) :
    (hcContact sqrt vt h).pe
      = docHertzPE sqrt h.c.radius (h.p1.stiffness * (h.p2.stiffness / (h.p1.stiffness + h.p2.stiffness))) h.c.depth := by
  rw [← hertz_pe_eq_doc sqrt hs _ _ _ hR hk hx]
  simp only [hcContact]
  split_ifs <;> rfl

/-! ### sum over contacts: each contact contributes independently -/

omit [LinearOrder K] [IsStrictOrderedRing K] in
theorem bodyTotal_foldl (b : Nat) (l : List (Nat × SpF K)) (acc : SpF K) :
    l.foldl (fun acc e => if e.1 = b then SpF.add acc e.2 else acc) acc = SpF.add acc (bodyTotal b l) := by
  induction l generalizing acc with
  | nil => simp [bodyTotal, SpF.add_zero']
  | cons e t ih =>
    simp only [bodyTotal, List.foldl_cons]
    rw [ih, ih (if e.1 = b then SpF.add SpF.zero e.2 else SpF.zero)]
    split_ifs
    · rw [SpF.zero_add', SpF.add_assoc']
    · rw [SpF.zero_add']

omit [LinearOrder K] [IsStrictOrderedRing K] in
theorem bodyTotal_append (b : Nat) (l1 l2 : List (Nat × SpF K)) :
    bodyTotal b (l1 ++ l2) = SpF.add (bodyTotal b l1) (bodyTotal b l2) := by
  simp only [bodyTotal, List.foldl_append]
  exact bodyTotal_foldl b l2 _

/-- **sum over contacts**: the total applied to any body by a contact list is the sum of what each contact applies
on its own; the reported energy is the sum of the contacts' energies.  (This is the loop with `continue`.
`HuntCrossleyForceImpl::calcForce` as pinned has `return` there — finding F6 — so the implementation satisfies
this only when no contact but the last has `f ≤ 0`.) -/
theorem hc_sum_over_contacts (sqrt : K → K) (vt : K) (b : Nat) (c : HCContact K) (cs : List (HCContact K)) :
    bodyTotal b (hcLoop sqrt vt (c :: cs))
      = SpF.add (bodyTotal b (hcLoop sqrt vt [c])) (bodyTotal b (hcLoop sqrt vt cs))
    ∧ hcPE sqrt vt (c :: cs) = (hcContact sqrt vt c).pe + hcPE sqrt vt cs := by
  constructor
  · have : hcLoop sqrt vt (c :: cs) = hcLoop sqrt vt [c] ++ hcLoop sqrt vt cs := by
      simp [hcLoop]
    rw [this, bodyTotal_append]
  · simp only [hcPE, List.foldl_cons]
    have gen : ∀ (l : List (HCContact K)) (a : K),
        l.foldl (fun pe h => pe + (hcContact sqrt vt h).pe) a = a + l.foldl (fun pe h => pe + (hcContact sqrt vt h).pe) 0 := by
      intro l; induction l with
      | nil => intro a; simp
      | cons x t ih => intro a; simp only [List.foldl_cons]; rw [ih (a + _), ih (0 + _)]; ring
    rw [gen]; ring

/-- what one contact applies to body `b` -/
def hcSingle (sqrt : K → K) (vt : K) (b : Nat) (c : HCContact K) : SpF K := bodyTotal b (hcLoop sqrt vt [c])

theorem hc_total_cons (sqrt : K → K) (vt : K) (b : Nat) (c : HCContact K) (cs : List (HCContact K)) :
    bodyTotal b (hcLoop sqrt vt (c :: cs)) = SpF.add (hcSingle sqrt vt b c) (bodyTotal b (hcLoop sqrt vt cs)) :=
  (hc_sum_over_contacts sqrt vt b c cs).1

/-- the order in which the contacts are listed is immaterial -/
theorem hc_total_perm (sqrt : K → K) (vt : K) (b : Nat) (cs cs' : List (HCContact K)) (hp : cs.Perm cs') :
    bodyTotal b (hcLoop sqrt vt cs) = bodyTotal b (hcLoop sqrt vt cs') := by
  induction hp with
  | nil => rfl
  | cons x _ ih => rw [hc_total_cons, hc_total_cons, ih]
  | swap x y l =>
    rw [hc_total_cons, hc_total_cons, hc_total_cons, hc_total_cons, ← SpF.add_assoc', ← SpF.add_assoc',
      SpF.add_comm' (hcSingle sqrt vt b y)]
  | trans _ _ ih1 ih2 => rw [ih1, ih2]

/-- a contact whose partners are other bodies contributes nothing to body `b` -/
theorem hc_contact_local (sqrt : K → K) (vt : K) (b : Nat) (c : HCContact K) (h1 : c.b1 ≠ b) (h2 : c.b2 ≠ b) :
    bodyTotal b (hcLoop sqrt vt [c]) = SpF.zero := by
  simp [hcLoop, bodyTotal, h1, h2]

/-! ### Hertz contact of `CompliantContactSubsystem` -/

omit [LinearOrder K] [IsStrictOrderedRing K] in
theorem smul_dot (a : K) (v n : V3 K) : dot (smul a v) n = a * dot v n := by simp only [dot, smul]; ring
omit [LinearOrder K] [IsStrictOrderedRing K] in
theorem smul_normSq (a : K) (v : V3 K) : normSq (smul a v) = a * a * normSq v := by simp only [normSq, dot, smul]; ring

omit [LinearOrder K] [IsStrictOrderedRing K] in
theorem tangent_dot_normal_neg (v n : V3 K) (hn : normSq n = 1) : dot (v - smul (-(-(dot v n))) n) n = 0 := by
  rw [neg_neg]; exact tangent_dot_normal v n hn

/-- **vanishes without penetration**: `depth ≤ 0` produces no contact force at all -/
theorem hertz_vanishes_without_penetration (sqrt : K → K) (signif vtrans : K) (m1 m2 : HertzMat K)
    (normal origin : V3 K) (depth : K) (p12 w12 v12 : V3 K) (R e : K) (hd : depth ≤ 0) :
    let o := hertzContact sqrt signif vtrans m1 m2 normal origin depth p12 w12 v12 R e
    o.valid = false ∧ o.force = V3.zero ∧ o.pe = 0 ∧ o.powerLoss = 0 := by
  simp only [hertzContact, if_pos hd]
  simp

/-- **normal force never attractive** -/
theorem hertz_normal_nonattractive (sqrt : K → K) (signif vtrans : K) (m1 m2 : HertzMat K)
    (normal origin : V3 K) (depth : K) (p12 w12 v12 : V3 K) (R e : K) :
    0 ≤ (hertzContact sqrt signif vtrans m1 m2 normal origin depth p12 w12 v12 R e).fNormal := by
  simp only [hertzContact]
  split_ifs with h1 h2 <;> first | exact le_refl _ | exact (not_le.mp h2).le

/-- **friction in the tangent plane**, and the normal component of the total force is exactly `fNormal` -/
theorem hertz_friction_in_tangent_plane (sqrt : K → K) (signif vtrans : K) (m1 m2 : HertzMat K)
    (normal origin : V3 K) (depth : K) (p12 w12 v12 : V3 K) (R e : K) (hn : normSq normal = 1) :
    let o := hertzContact sqrt signif vtrans m1 m2 normal origin depth p12 w12 v12 R e
    dot o.fric normal = 0 ∧ dot o.force normal = o.fNormal := by
  simp only [hertzContact]
  have hn' : dot normal normal = 1 := hn
  split_ifs with h1 h2 h3
  · exact ⟨dot_zero_left _, dot_zero_left _⟩
  · exact ⟨dot_zero_left _, dot_zero_left _⟩
  · have t := tangent_dot_normal_neg (v12 + cross w12 (origin + smul (depth * (1 / 2 - m2.k23 / (m1.k23 + m2.k23))) normal - p12)) normal hn
    refine ⟨by rw [smul_dot, t, mul_zero], ?_⟩
    have e : ∀ (a b : K) (f : V3 K), dot (smul a normal + (smul b normal + f)) normal = (a + b) * dot normal normal + dot f normal := by
      intro a b f; simp only [dot, smul, V3.add_x, V3.add_y, V3.add_z]; ring
    rw [e, smul_dot, t, hn']; ring
  · refine ⟨dot_zero_left _, ?_⟩
    have e : ∀ (a b : K), dot (smul a normal + (smul b normal + V3.zero)) normal = (a + b) * dot normal normal := by
      intro a b; simp only [dot, smul, V3.add_x, V3.add_y, V3.add_z, V3.zero_x, V3.zero_y, V3.zero_z]; ring
    rw [e, hn']; ring

/-- **friction opposes slip** (the force on surface 2 opposes surface 2's slip velocity) and is bounded by the
documented limit `fNormal · μ(v)`, `μ` the generator's friction curve; `μ ≤ us + uv·v` by `stribeck_bounds` -/
theorem hertz_friction_opposes_slip_le_limit (sqrt : K → K) (hs : SqrtSpec sqrt) (signif vtrans : K) (hvt : 0 < vtrans)
    (m1 m2 : HertzMat K) (normal origin : V3 K) (depth : K) (p12 w12 v12 : V3 K) (R e : K)
    (hud : 0 ≤ combineMu2 m1.ud m2.ud) (hus : combineMu2 m1.ud m2.ud ≤ combineMu2 m1.us m2.us)
    (huv : 0 ≤ combineMu2 m1.uv m2.uv) :
    let o := hertzContact sqrt signif vtrans m1 m2 normal origin depth p12 w12 v12 R e
    let vslip := sqrt (normSq o.velTangent)
    let mu := stribeck (combineMu2 m1.us m2.us) (combineMu2 m1.ud m2.ud) (combineMu2 m1.uv m2.uv * vtrans) (vslip * (1 / vtrans))
    dot o.fric o.velTangent ≤ 0 ∧ normSq o.fric ≤ (o.fNormal * mu) * (o.fNormal * mu) := by
  simp only [hertzContact]
  split_ifs with h1 h2 h3
  · exact ⟨by rw [dot_zero_left], by rw [normSq_zero]; exact mul_self_nonneg _⟩
  · exact ⟨by rw [dot_zero_left], by rw [normSq_zero]; exact mul_self_nonneg _⟩
  · generalize hN : V3.normSq (K := K) _ = N at h3 ⊢
    have hN0 : 0 ≤ N := hN ▸ normSq_nonneg _
    have hsq := hs.sq N hN0
    have hspos : 0 < sqrt N := by
      rcases lt_or_eq_of_le (hs.nonneg N) with h | h
      · exact h
      · exfalso; rw [← h] at hsq; simp only [mul_zero] at hsq
        have : 0 ≤ signif * signif := mul_self_nonneg _
        rw [← hsq] at h3; linarith
    have hmu := (stribeck_bounds (combineMu2 m1.us m2.us) (combineMu2 m1.ud m2.ud) (combineMu2 m1.uv m2.uv * vtrans)
      (sqrt N * (1 / vtrans)) hud hus (mul_nonneg huv hvt.le) (mul_nonneg hspos.le (by positivity))).1
    generalize sqrt N = s at hsq hspos hmu ⊢
    revert h2
    generalize (e * (4 / 3) * _ * depth * sqrt _ + _ : K) = F
    intro h2
    have hf : 0 ≤ F := (not_le.mp h2).le
    constructor
    · rw [smul_dot]
      have : dot _ _ = N := hN
      rw [this]
      have h1' := div_nonneg (mul_nonneg hf hmu) hspos.le
      have e : ∀ a : K, -a / s * N = -((a / s) * N) := by intro a; ring
      rw [e]; exact neg_nonpos.mpr (mul_nonneg h1' hN0)
    · rw [smul_normSq, hN, ← hsq]
      apply le_of_eq
      field_simp
  · exact ⟨by rw [dot_zero_left], by rw [normSq_zero]; exact mul_self_nonneg _⟩

/-- magnitude: the coded normal force `fH + fHC` is the documented Hunt–Crossley/Hertz value
`(4/3)√R E x^{3/2}(1 + 3/2 c ẋ)` (circular contact, `e = 1`), `E = k^{3/2}`, `k = k1·k2/(k1+k2)` -/
theorem hertz_normal_eq_doc (sqrt : K → K) (hs : SqrtSpec sqrt) (R k c x xdot : K) (hR : 0 ≤ R) (hk : 0 ≤ k) (hx : 0 ≤ x) :
    (1 : K) * (4 / 3) * k * x * sqrt (R * k * x) + (1 : K) * (4 / 3) * k * x * sqrt (R * k * x) * (3 / 2) * c * xdot
      = docHertzForce sqrt R k c x xdot := by
  rw [← hertz_force_eq_doc sqrt hs R k c x xdot hR hk hx]; ring

/-! ### Elastic foundation, one spring -/

/-- normal force of a spring never attractive; equals the documented `k a x (1 + c v)` when that is positive -/
theorem ef_normal_nonattractive (sqrt : K → K) (vt : K) (P : EFParams K) (area : K) (np sp : V3 K)
    (X1 X2 : Pose K) (V1 V2 : Vel K) :
    0 ≤ (efSpring sqrt vt P area np sp X1 X2 V1 V2).f := by
  simp only [efSpring]
  split_ifs with h1 h2 <;> first | exact le_refl _ | exact h2.le

omit [LinearOrder K] [IsStrictOrderedRing K] in
theorem normSq_divS (d : V3 K) (s : K) (h : s * s = normSq d) (hs0 : s ≠ 0) : normSq (divS d s) = 1 := by
  simp only [normSq, dot, divS] at h ⊢
  field_simp
  linear_combination -h

/-- a spring with zero displacement applies nothing -/
theorem ef_vanishes_without_displacement (sqrt : K → K) (vt : K) (P : EFParams K) (area : K) (np sp : V3 K)
    (X1 X2 : Pose K) (V1 V2 : Vel K) (h0 : sqrt (normSq (np - sp)) = 0) :
    let o := efSpring sqrt vt P area np sp X1 X2 V1 V2
    o.F1 = SpF.zero ∧ o.F2 = SpF.zero ∧ o.pe = 0 := by
  simp only [efSpring, h0, lt_irrefl, not_false_eq_true, and_self, if_true]

/-- friction of a spring lies in the plane orthogonal to the displacement direction, opposes slip, and never
exceeds `f·μ` with the documented blend -/
theorem ef_friction (sqrt : K → K) (hs : SqrtSpec sqrt) (vt : K) (hvt : 0 < vt) (P : EFParams K) (area : K) (np sp : V3 K)
    (X1 X2 : Pose K) (V1 V2 : Vel K) (hud : 0 ≤ P.ud) (hus : P.ud ≤ P.us) (huv : 0 ≤ P.uv) :
    let o := efSpring sqrt vt P area np sp X1 X2 V1 V2
    let vslip := sqrt (normSq o.vtangent)
    dot o.fric o.forceDir = 0 ∧ 0 ≤ dot o.fric o.vtangent
      ∧ normSq o.fric ≤ (o.f * hollars P.us P.ud P.uv (vslip / vt) vslip) * (o.f * hollars P.us P.ud P.uv (vslip / vt) vslip) := by
  simp only [efSpring]
  by_cases h1 : ¬ (sqrt (normSq (np - sp)) < 0) ∧ ¬ (0 < sqrt (normSq (np - sp)))
  · simp only [if_pos h1]
    exact ⟨dot_zero_left _, by rw [dot_zero_left], by rw [normSq_zero]; exact mul_self_nonneg _⟩
  · simp only [if_neg h1]
    have hne : sqrt (normSq (np - sp)) ≠ 0 := by
      intro h; apply h1; rw [h]; exact ⟨lt_irrefl _, lt_irrefl _⟩
    have hunit := normSq_divS (np - sp) _ (hs.sq _ (normSq_nonneg _)) hne
    generalize divS (np - sp) (sqrt (normSq (np - sp))) = n at hunit ⊢
    generalize stationVel X2 V2 (X2.invApply np) - stationVel X1 V1 (X1.invApply np) = v
    generalize P.stiffness * area * sqrt (normSq (np - sp)) * (1 + P.dissipation * dot v n) = F
    generalize hN : normSq (v - smul (dot v n) n) = N
    have hN0 : 0 ≤ N := hN ▸ normSq_nonneg _
    have hsq := hs.sq N hN0
    have hs0 := hs.nonneg N
    have hmu := (hollars_bounds P.us P.ud P.uv (sqrt N / vt) (sqrt N) hud hus huv
      (div_nonneg (hs.nonneg _) hvt.le) (hs.nonneg _)).1
    generalize sqrt N = s at hsq hs0 hmu ⊢
    generalize hollars _ _ _ _ _ = mu at hmu ⊢
    by_cases hf : 0 < F
    · by_cases hsl : s < 0 ∨ 0 < s
      · have hc : 0 < F ∧ (s < 0 ∨ 0 < s) := ⟨hf, hsl⟩
        simp only [if_pos hc, if_pos hf]
        have hsne : s ≠ 0 := by
          rcases hsl with h | h
          · exact ne_of_lt h
          · exact ne_of_gt h
        refine ⟨?_, ?_, ?_⟩
        · rw [fric_dot, tangent_dot_normal _ _ hunit, mul_zero]
        · rw [fric_dot]
          have : dot (v - smul (dot v n) n) (v - smul (dot v n) n) = N := hN
          rw [this]
          exact mul_nonneg (div_nonneg (mul_nonneg hf.le hmu) hs0) hN0
        · rw [fric_normSq, hN, ← hsq]
          apply le_of_eq; field_simp
      · have hc : ¬ (0 < F ∧ (s < 0 ∨ 0 < s)) := fun h => hsl h.2
        simp only [if_neg hc]
        exact ⟨dot_zero_left _, by rw [dot_zero_left], by rw [normSq_zero]; exact mul_self_nonneg _⟩
    · have hc : ¬ (0 < F ∧ (s < 0 ∨ 0 < s)) := fun h => hf h.1
      simp only [if_neg hc]
      exact ⟨dot_zero_left _, by rw [dot_zero_left], by rw [normSq_zero]; exact mul_self_nonneg _⟩

/-! ### SmoothSphereHalfSpaceForce, friction -/

/-- friction of the smooth model lies in the tangent plane, has the sign of the normal force along the slip, and is
bounded by `|ff|` (`vs = √(|vt|²+cf) ≥ |vt|`) -/
theorem smooth_friction (sqrt tanh : K → K) (pow : K → K → K) (hs : SqrtSpec sqrt) (P : SmoothParams K) (hcf : 0 ≤ P.cf)
    (Xs Xh : Pose K) (Vs Vh : Vel K) (loc : V3 K) (Xhs : Pose K) (radius : K)
    (hn : normSq (Xh.R.mulVec Xhs.R.col0) = 1) :
    let o := smoothSphere sqrt tanh pow P Xs Xh Vs Vh loc Xhs radius
    let vslip := sqrt (normSq o.vtangent + P.cf)
    let ff := o.fhc_smooth * hollars P.us P.ud P.uv (vslip / P.vt) vslip
    dot o.fric o.normal = 0 ∧ normSq o.fric ≤ ff * ff
      ∧ (0 ≤ ff → 0 ≤ dot o.fric o.vtangent) := by
  simp only [smoothSphere]
  generalize hv : (stationVel Xs Vs _ - stationVel Xh Vh _ : V3 K) = v
  generalize hN : V3.normSq (K := K) (v - smul (dot v (Xh.R.mulVec Xhs.R.col0)) (Xh.R.mulVec Xhs.R.col0)) = N
  have hN0 : 0 ≤ N := hN ▸ normSq_nonneg _
  have hsq := hs.sq (N + P.cf) (add_nonneg hN0 hcf)
  have hs0 := hs.nonneg (N + P.cf)
  generalize sqrt (N + P.cf) = s at hsq hs0 ⊢
  generalize (_ * hollars P.us P.ud P.uv (s / P.vt) s : K) = ff
  refine ⟨?_, ?_, ?_⟩
  · rw [fric_dot, tangent_dot_normal _ _ hn, mul_zero]
  · rw [fric_normSq, hN]
    by_cases hs1 : s = 0
    · subst hs1; simp only [div_zero, zero_mul]; exact mul_self_nonneg _
    · have hspos : 0 < s * s := by positivity
      have : ff / s * (ff / s) * N = ff * ff * (N / (s * s)) := by field_simp
      rw [this]
      have hle : N / (s * s) ≤ 1 := by rw [div_le_one hspos]; linarith
      nlinarith [mul_self_nonneg ff]
  · intro hff
    rw [fric_dot]
    have : dot _ _ = N := hN
    rw [this]
    exact mul_nonneg (div_nonneg hff hs0) hN0

/-! ### magnitudes attached to the executed definitions -/

/-- the approach speed and combined dissipation reported by `hcContact` do not depend on the branch taken -/
theorem hc_vnormal_cdiss (sqrt : K → K) (vt : K) (h : HCContact K) :
    (hcContact sqrt vt h).vnormal =
        dot (stationVel h.X1 h.V1 (h.X1.invApply (h.c.location + smul (h.c.depth * (1 / 2 - h.p2.stiffness / (h.p1.stiffness + h.p2.stiffness))) h.c.normal))
            - stationVel h.X2 h.V2 (h.X2.invApply (h.c.location + smul (h.c.depth * (1 / 2 - h.p2.stiffness / (h.p1.stiffness + h.p2.stiffness))) h.c.normal)))
          h.c.normal
    ∧ (hcContact sqrt vt h).cdiss = h.p1.dissipation * (h.p2.stiffness / (h.p1.stiffness + h.p2.stiffness))
          + h.p2.dissipation * (1 - h.p2.stiffness / (h.p1.stiffness + h.p2.stiffness)) := by
  simp only [hcContact]
  split_ifs <;> exact ⟨rfl, rfl⟩

/-- **Hunt–Crossley magnitude**: the scalar normal force of `hcContact` is the documented
`f = (4/3)√R E x^{3/2}(1 + 3/2 c ẋ)` (`docHertzForce`, `ẋ = vnormal`, `c = cdiss`) whenever that is positive, else `0` -/
theorem hc_fn_eq_doc (sqrt : K → K) (hs : SqrtSpec sqrt) (vt : K) (h : HCContact K) (hR : 0 ≤ h.c.radius)
    (hk : 0 ≤ h.p1.stiffness * (h.p2.stiffness / (h.p1.stiffness + h.p2.stiffness))) (hx : 0 ≤ h.c.depth) :
    (hcContact sqrt vt h).fn =
      (let d := docHertzForce sqrt h.c.radius (h.p1.stiffness * (h.p2.stiffness / (h.p1.stiffness + h.p2.stiffness)))
                  (hcContact sqrt vt h).cdiss h.c.depth (hcContact sqrt vt h).vnormal
       if d ≤ 0 then 0 else d) := by
  rw [(hc_vnormal_cdiss sqrt vt h).1, (hc_vnormal_cdiss sqrt vt h).2, ← hertz_force_eq_doc sqrt hs _ _ _ _ _ hR hk hx]
  simp only [hcContact]
  split_ifs <;> rfl

/-- the penetration rate reported by `hertzContact` (penetrating case) -/
theorem hertz_xdot (sqrt : K → K) (signif vtrans : K) (m1 m2 : HertzMat K)
    (normal origin : V3 K) (depth : K) (p12 w12 v12 : V3 K) (R e : K) (hd : 0 < depth) :
    (hertzContact sqrt signif vtrans m1 m2 normal origin depth p12 w12 v12 R e).xdot
      = -(dot (v12 + cross w12 (origin + smul (depth * (1 / 2 - m2.k23 / (m1.k23 + m2.k23))) normal - p12)) normal) := by
  simp only [hertzContact, if_neg (not_le.mpr hd)]
  split_ifs <;> rfl

/-- **Hertz generator magnitude** (circular contact `e = 1`, `depth > 0`): `fNormal` is the documented value when positive, else `0` -/
theorem hertz_fNormal_eq_doc (sqrt : K → K) (hs : SqrtSpec sqrt) (signif vtrans : K) (m1 m2 : HertzMat K)
    (normal origin : V3 K) (depth : K) (p12 w12 v12 : V3 K) (R : K) (hd : 0 < depth) (hR : 0 ≤ R)
    (hk : 0 ≤ m1.k23 * (m2.k23 / (m1.k23 + m2.k23))) :
    (hertzContact sqrt signif vtrans m1 m2 normal origin depth p12 w12 v12 R 1).fNormal =
      (let d := docHertzForce sqrt R (m1.k23 * (m2.k23 / (m1.k23 + m2.k23)))
                  (m1.c * (m2.k23 / (m1.k23 + m2.k23)) + m2.c * (1 - m2.k23 / (m1.k23 + m2.k23))) depth
                  (hertzContact sqrt signif vtrans m1 m2 normal origin depth p12 w12 v12 R 1).xdot
       if d ≤ 0 then 0 else d) := by
  rw [hertz_xdot _ _ _ _ _ _ _ _ _ _ _ _ _ hd, ← hertz_normal_eq_doc sqrt hs _ _ _ _ _ hR hk hd.le]
  simp only [hertzContact, if_neg (not_le.mpr hd)]
  split_ifs <;> rfl

/-- **elastic foundation magnitude**: the force of a spring along its displacement is the documented `k a x (1 + c v)`
(`docEFForce`) when positive, else `0` -/
theorem ef_f_eq_doc (sqrt : K → K) (vt : K) (P : EFParams K) (area : K) (np sp : V3 K) (X1 X2 : Pose K) (V1 V2 : Vel K) :
    (efSpring sqrt vt P area np sp X1 X2 V1 V2).f =
      (let o := efSpring sqrt vt P area np sp X1 X2 V1 V2
       if 0 < docEFForce P.stiffness area o.x P.dissipation o.vnormal then docEFForce P.stiffness area o.x P.dissipation o.vnormal else 0) := by
  simp only [efSpring, docEFForce]
  by_cases h1 : ¬ (sqrt (normSq (np - sp)) < 0) ∧ ¬ (0 < sqrt (normSq (np - sp)))
  · have h0 : sqrt (normSq (np - sp)) = 0 := le_antisymm (not_lt.mp h1.2) (not_lt.mp h1.1)
    simp only [if_pos h1, h0]; simp
  · simp only [if_neg h1]

/-- `smooth_normal_sign` on the executed definition: the normal force `fhc_smooth` of `smoothSphere` is non-attractive in
the regime `1 + 3/2 c v ≥ 0` and strictly attractive for faster separation whenever the Hertz term is non-zero
(known finding `SmoothSphereHalfSpaceForce.fast_separation.*`) -/
theorem smooth_normal_sign_model (sqrt tanh : K → K) (pow : K → K → K) (hs : SqrtSpec sqrt) (ht : TanhSpec tanh)
    (hp : ∀ a b, 0 ≤ a → 0 ≤ pow a b) (P : SmoothParams K) (hk : 0 ≤ P.stiffness)
    (Xs Xh : Pose K) (Vs Vh : Vel K) (loc : V3 K) (Xhs : Pose K) (radius : K) :
    let o := smoothSphere sqrt tanh pow P Xs Xh Vs Vh loc Xhs radius
    (0 ≤ 1 + 3 / 2 * P.dissipation * o.vnormal → 0 ≤ o.fhc_smooth)
    ∧ (1 + 3 / 2 * P.dissipation * o.vnormal < 0 → 0 < o.fh_smooth → o.fhc_smooth < 0) := by
  intro o
  have e : o.fhc_smooth = o.fh_smooth * (1 + 3 / 2 * P.dissipation * o.vnormal)
      * (1 / 2 + 1 / 2 * tanh (P.bv * (o.vnormal + 2 / (3 * P.dissipation)))) := rfl
  rw [e]
  exact smooth_normal_sign tanh ht o.fh_smooth P.dissipation o.vnormal P.bv
    (smooth_fh_nonneg sqrt tanh pow hs ht hp P hk Xs Xh Vs Vh loc Xhs radius)

end ForceLaws
