import SimbodyProofs.C27
import Mathlib.Analysis.SpecialFunctions.Sqrt
/-! Witness that the hypothesis `C27.SqrtSpec` used by the C27 theorems is satisfiable: the real square root. -/
namespace C27
theorem sqrtSpec_real : SqrtSpec Real.sqrt := ⟨fun _ hx => Real.mul_self_sqrt hx, fun x _ => Real.sqrt_nonneg x⟩
/-- hence e.g. the quaternion round trip holds for every real unit quaternion with the real square root -/
example (q : Spatial.Quaternion ℝ) (h : q.normSq = 1) :
    Spatial.Rotation.fromQuaternion (Spatial.Rotation.toQuaternion Real.sqrt (Spatial.Rotation.fromQuaternion q))
      = Spatial.Rotation.fromQuaternion q := fromQuaternion_toQuaternion Real.sqrt sqrtSpec_real q h
end C27
