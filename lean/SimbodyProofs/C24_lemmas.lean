import SimbodyModel.C24
import Mathlib.Tactic.NormNum

/-! # C24 — unfoldings of the acceptance contracts (definitional; not property theorems)

Each lemma peels the `Bool`/`decide` wrapper off a contract so that its content can be read as a proposition. -/
namespace C24
/-! ## soundness of the contracts (`contract_sound`) -/

/-- LU / Cholesky / square solves: accepted ⇒ every row satisfies the componentwise backward-error bound -/
theorem luAccept_sound (tol : Rat) (A : Mat) (b x : List Rat) (h : luAccept tol A b x = true) :
    ∀ p ∈ A.zip b, absR (dot p.1 x - p.2) ≤ tol * (absDot p.1 x + absR p.2) := by
  unfold luAccept at h
  simp only [List.all_eq_true, decide_eq_true_eq] at h
  intro p hp; exact h p hp

/-- least squares: accepted ⇒ every component of `Aᵀ(Ax − b)` is within the bound -/
theorem lsAccept_sound (tol : Rat) (A : Mat) (n : Nat) (b x : List Rat) (h : lsAccept tol A n b x = true) :
    ∀ j < n, absR (dot (col A j) ((A.zip b).map (fun p => dot p.1 x - p.2)))
        ≤ tol * absDot (col A j) ((A.zip b).map (fun p => absDot p.1 x + absR p.2)) := by
  unfold lsAccept at h
  simp only [List.all_eq_true, decide_eq_true_eq, List.mem_range] at h
  intro j hj; exact h j hj

/-- minimum norm: accepted ⇒ every listed vector is *exactly* a null vector of `A` and `x` is orthogonal to it up to `tol` -/
theorem minNormAccept_sound (tol : Rat) (A : Mat) (x : List Rat) (N : List (List Rat)) (h : minNormAccept tol A x N = true) :
    ∀ v ∈ N, (∀ e ∈ mulVec A v, e = 0) ∧ dot x v * dot x v ≤ tol * tol * (dot x x) * (dot v v) := by
  unfold minNormAccept at h
  simp only [List.all_eq_true, Bool.and_eq_true, decide_eq_true_eq] at h
  intro v hv; exact h v hv

/-- inverse: accepted ⇒ `AX` and `XA` are within the normwise bound of the identity -/
theorem invAccept_sound (tol : Rat) (A X : Mat) (h : invAccept tol A X = true) :
    ∀ i < A.length, ∀ j < A.length,
      absR (dot (A.getD i []) ((transpose X A.length).getD j []) - kron i j)
        ≤ tol * (absSum (A.getD i []) * maxAbs ((transpose X A.length).getD j []) + kron i j) ∧
      absR (dot (X.getD i []) ((transpose A A.length).getD j []) - kron i j)
        ≤ tol * (maxAbs (X.getD i []) * absSum ((transpose A A.length).getD j []) + kron i j) := by
  unfold invAccept at h
  simp only [List.all_eq_true, Bool.and_eq_true, decide_eq_true_eq, List.mem_range] at h
  intro i hi j hj; exact h i hi j hj

/-- SVD: accepted ⇒ singular values non-negative and descending, both factor matrices orthonormal up to `tol`, and the
product reproduces every entry of `A` up to `tol·σ₁` -/
theorem svdAccept_sound (tol : Rat) (A : Mat) (n : Nat) (Ut : Mat) (S : List Rat) (Vt : Mat)
    (h : svdAccept tol A n Ut S Vt = true) :
    descendingNonneg S = true ∧ orthoAccept tol Ut = true ∧ orthoAccept tol Vt = true ∧
    ∀ i < A.length, ∀ j < n,
      absR ((A.getD i []).getD j 0 -
        ((List.range S.length).map (fun k => (Ut.getD k []).getD i 0 * S.getD k 0 * (Vt.getD k []).getD j 0)).foldl (· + ·) 0)
        ≤ tol * S.getD 0 0 := by
  unfold svdAccept at h
  simp only [Bool.and_eq_true, List.all_eq_true, decide_eq_true_eq, List.mem_range] at h
  exact ⟨h.1.1.1, h.1.1.2, h.1.2, fun i hi j hj => h.2 i hi j hj⟩

/-- eigen-decomposition: accepted ⇒ every returned pair is a non-degenerate vector satisfying `A v = λ v` (real and
imaginary parts) within the componentwise bound -/
theorem eigAccept_sound (tol : Rat) (A : Mat) (lr li : List Rat) (Vr Vi : Mat) (h : eigAccept tol A lr li Vr Vi = true) :
    ∀ k < A.length, eigPairAccept tol A (lr.getD k 0) (li.getD k 0) (Vr.getD k []) (Vi.getD k []) = true := by
  unfold eigAccept at h
  simp only [Bool.and_eq_true, List.all_eq_true, List.mem_range] at h
  intro k hk; exact h.2 k hk

/-- … and what one accepted pair says -/
theorem eigPairAccept_sound (tol : Rat) (A : Mat) (lr li : Rat) (vr vi : List Rat) (h : eigPairAccept tol A lr li vr vi = true) :
    (1 : Rat) / 1000000 ≤ dot vr vr + dot vi vi ∧
    ∀ i < A.length,
      absR (dot (A.getD i []) vr - (lr * vr.getD i 0 - li * vi.getD i 0))
        ≤ tol * (maxAbs (A.map maxAbs) * absSum (List.zipWith (fun a b => absR a + absR b) vr vi)
                 + (absR lr + absR li) * maxAbs (List.zipWith (fun a b => absR a + absR b) vr vi)) ∧
      absR (dot (A.getD i []) vi - (lr * vi.getD i 0 + li * vr.getD i 0))
        ≤ tol * (maxAbs (A.map maxAbs) * absSum (List.zipWith (fun a b => absR a + absR b) vr vi)
                 + (absR lr + absR li) * maxAbs (List.zipWith (fun a b => absR a + absR b) vr vi)) := by
  unfold eigPairAccept at h
  simp only [Bool.and_eq_true, List.all_eq_true, decide_eq_true_eq, List.mem_range] at h
  exact ⟨h.1, fun i hi => h.2 i hi⟩

/-- the default threshold is `max(nRow,nCol)·significant` -/
theorem defaultRcond_spec (m n : Nat) (s : Rat) : defaultRcond (fun k => (k : Rat)) m n s = (max m n : Nat) * s := by
  unfold defaultRcond
  by_cases h : m > n
  · simp [h, max_eq_left (le_of_lt h)]
  · simp [h, max_eq_right (not_lt.mp h)]

end C24
