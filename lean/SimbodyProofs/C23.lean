import SimbodyModel.C23
import Mathlib.Tactic.Ring
import Mathlib.Tactic.FieldSimp
import Mathlib.Tactic.Linarith
import Mathlib.Tactic.NormNum
import Mathlib.Algebra.Order.Field.Basic
import Mathlib.Algebra.Order.AbsoluteValue.Basic

/-!
# C23 — property theorems: Measures compute what their definitions say

Over an arbitrary linear ordered field `K`.  The model (`SimbodyModel/C23.lean`) mirrors `MeasureImplementation.h`.
-/
set_option linter.unusedSectionVars false
set_option linter.unnecessarySeqFocus false
namespace C23
variable {K : Type} [Field K] [LinearOrder K] [IsStrictOrderedRing K]

/-! ## Extreme -/

/-- the quantity an `Extreme` operation maximises -/
def keyOf (op : Op) (v : K) : K :=
  match op with
  | .maximum => v
  | .minimum => -v
  | .maxAbs => |v|
  | .minAbs => -|v|

theorem absK_eq_abs (x : K) : absK x = |x| := by
  unfold absK; split_ifs with h
  · exact (abs_of_neg h).symm
  · exact (abs_of_nonneg (not_lt.mp h)).symm

/-- `isNewExtreme` is the strict comparison of keys -/
theorem isNewExtreme_iff (op : Op) (nw old : K) : isNewExtreme op nw old = true ↔ keyOf op old < keyOf op nw := by
  cases op <;> simp [isNewExtreme, keyOf, absK_eq_abs]

/-- what is reported at a step (value, time of extreme) is exactly what the auto-update swap then stores: the measure's
value at step `k` is the extreme over the steps `0..k` -/
theorem extObserve_eq_advance (op : Op) (st : ExtSt K) (t v : K) :
    (extObserve op st t v).1 = (extAdvance op st t v).ext ∧ (extObserve op st t v).2.1 = (extAdvance op st t v).tExt := by
  unfold extObserve extAdvance; split_ifs <;> simp [*]

/-- **extreme_is_fold**: after any history the stored extreme (a) is one of the operand values seen, paired with the time
it was seen (`extreme_time`), and (b) no value of the history has a larger key: it is the running
maximum / minimum / value of largest / smallest magnitude -/
theorem extreme_is_fold (op : Op) (t0 v0 : K) (steps : List (K × K)) :
    let st := extFold op (extInit t0 v0) steps
    (st.tExt, st.ext) ∈ (t0, v0) :: steps ∧ ∀ p ∈ (t0, v0) :: steps, keyOf op p.2 ≤ keyOf op st.ext := by
  -- generalise over the starting state
  suffices h : ∀ (st0 : ExtSt K) (hist : List (K × K)),
      (st0.tExt, st0.ext) ∈ hist → (∀ p ∈ hist, keyOf op p.2 ≤ keyOf op st0.ext) →
      ((extFold op st0 steps).tExt, (extFold op st0 steps).ext) ∈ hist ++ steps ∧
      ∀ p ∈ hist ++ steps, keyOf op p.2 ≤ keyOf op (extFold op st0 steps).ext by
    have := h (extInit t0 v0) [(t0, v0)] (by simp [extInit]) (by simp [extInit])
    simpa using this
  induction steps with
  | nil => intro st0 hist hm hk; simp only [extFold, List.foldl_nil, List.append_nil]; exact ⟨hm, hk⟩
  | cons s rest ih =>
    intro st0 hist hm hk
    have hf : extFold op st0 (s :: rest) = extFold op (extAdvance op st0 s.1 s.2) rest := by simp [extFold]
    rw [hf]
    have key := ih (extAdvance op st0 s.1 s.2) (hist ++ [s]) ?_ ?_
    · simpa [List.append_assoc] using key
    · unfold extAdvance; split_ifs with hn
      · simp
      · simp [hm]
    · intro p hp
      unfold extAdvance; split_ifs with hn
      · have hlt := (isNewExtreme_iff op s.2 st0.ext).mp hn
        rcases List.mem_append.mp hp with h | h
        · exact le_trans (hk p h) (le_of_lt hlt)
        · simp only [List.mem_singleton] at h; subst h; exact le_refl _
      · have hge : keyOf op s.2 ≤ keyOf op st0.ext := by
          have : ¬ keyOf op st0.ext < keyOf op s.2 := fun hlt => hn ((isNewExtreme_iff op s.2 st0.ext).mpr hlt)
          exact not_lt.mp this
        rcases List.mem_append.mp hp with h | h
        · exact hk p h
        · simp only [List.mem_singleton] at h; subst h; exact hge

/-- `Maximum` is the running maximum, `Minimum` the running minimum (as folds of `max` / `min`) -/
theorem maximum_is_foldl_max (t0 v0 : K) (steps : List (K × K)) :
    (extFold .maximum (extInit t0 v0) steps).ext = (steps.map (·.2)).foldl max v0 := by
  suffices h : ∀ st : ExtSt K, (extFold .maximum st steps).ext = (steps.map (·.2)).foldl max st.ext by
    simpa [extInit] using h (extInit t0 v0)
  induction steps with
  | nil => intro st; simp [extFold]
  | cons s rest ih =>
    intro st
    have hf : extFold .maximum st (s :: rest) = extFold .maximum (extAdvance .maximum st s.1 s.2) rest := by simp [extFold]
    rw [hf, ih]
    simp only [List.map_cons, List.foldl_cons]
    congr 1
    unfold extAdvance isNewExtreme
    by_cases h : st.ext < s.2
    · simp [h, max_eq_right (le_of_lt h)]
    · simp [h, max_eq_left (not_lt.mp h)]

theorem minimum_is_foldl_min (t0 v0 : K) (steps : List (K × K)) :
    (extFold .minimum (extInit t0 v0) steps).ext = (steps.map (·.2)).foldl min v0 := by
  suffices h : ∀ st : ExtSt K, (extFold .minimum st steps).ext = (steps.map (·.2)).foldl min st.ext by
    simpa [extInit] using h (extInit t0 v0)
  induction steps with
  | nil => intro st; simp [extFold]
  | cons s rest ih =>
    intro st
    have hf : extFold .minimum st (s :: rest) = extFold .minimum (extAdvance .minimum st s.1 s.2) rest := by simp [extFold]
    rw [hf, ih]
    simp only [List.map_cons, List.foldl_cons]
    congr 1
    unfold extAdvance isNewExtreme
    by_cases h : s.2 < st.ext
    · simp [h, min_eq_right (le_of_lt h)]
    · simp [h, min_eq_left (not_lt.mp h)]



/-- the k-th observation of the executed trajectory function `extRun` is what the state after `k+1` steps stores: the
driver's `extRun` and the proved `extFold` are the same recursion -/
theorem extRun_getElem (op : Op) (st : ExtSt K) (steps : List (K × K)) (k : Nat) (hk : k < steps.length) :
    ∃ h : k < (extRun op st steps).length,
      (extRun op st steps)[k].1 = (extFold op st (steps.take (k + 1))).ext ∧
      (extRun op st steps)[k].2.1 = (extFold op st (steps.take (k + 1))).tExt := by
  induction steps generalizing st k with
  | nil => simp at hk
  | cons s rest ih =>
    obtain ⟨t, v⟩ := s
    cases k with
    | zero =>
      refine ⟨by simp [extRun], ?_⟩
      simp only [extRun, List.getElem_cons_zero, List.take_succ_cons, List.take_zero, extFold, List.foldl_cons, List.foldl_nil]
      unfold extObserve extAdvance; split_ifs <;> simp [*]
    | succ k =>
      obtain ⟨h, h1, h2⟩ := ih (extAdvance op st t v) k (by simpa using hk)
      refine ⟨by simpa [extRun] using h, ?_⟩
      simp only [extRun, List.getElem_cons_succ, List.take_succ_cons]
      have : extFold op st ((t, v) :: rest.take (k + 1)) = extFold op (extAdvance op st t v) (rest.take (k + 1)) := by
        simp [extFold]
      rw [this]; exact ⟨h1, h2⟩

/-- without report states the flagged trajectory function the driver executes is `extRun` -/
theorem extRunF_no_reports (op : Op) (st : ExtSt K) (steps : List (K × K)) :
    extRunF op st (steps.map (fun p => (false, p.1, p.2))) = extRun op st steps := by
  induction steps generalizing st with
  | nil => rfl
  | cons s rest ih => obtain ⟨t, v⟩ := s; simp [extRunF, extRun, ih]

/-- a report state is observed against the extreme of the completed steps and leaves no trace -/
theorem extRunF_report (op : Op) (st : ExtSt K) (t v : K) (rest : List (Bool × K × K)) :
    extRunF op st ((true, t, v) :: rest) = extObserve op st t v :: extRunF op st rest := by
  simp [extRunF]

/-! ## Delay buffer -/

/-- ring-buffer invariant at the logical level: times strictly increasing and no more entries than capacity -/
def Buf.WF (b : Buf K) : Prop := b.entries.Pairwise (fun x y => x.1 < y.1) ∧ b.size ≤ b.cap

theorem moreRoom_gt (n : Nat) : n + 1 ≤ moreRoom n := by
  unfold moreRoom; omega

theorem empty_wf : (Buf.empty : Buf K).WF := by simp [Buf.WF, Buf.empty, Buf.size]

/-- entries kept by `removeEntriesLaterOrEq(t)` are all earlier than `t` (sorted buffer) -/
theorem take_keepEarlier_lt (es : List (K × K)) (t : K) (hs : es.Pairwise (fun x y => x.1 < y.1)) :
    ∀ e ∈ es.take (keepEarlier es t), e.1 < t := by
  intro e he
  unfold keepEarlier at he
  cases hfl : findLastEarlier es t with
  | none => rw [hfl] at he; simp at he
  | some i =>
    rw [hfl] at he
    -- entry i has time < t and every entry at index ≤ i has a time ≤ that
    unfold findLastEarlier at hfl
    cases hr : es.reverse.findIdx? (fun e => decide (e.1 < t)) with
    | none => rw [hr] at hfl; simp at hfl
    | some k =>
      rw [hr] at hfl
      simp only [Option.map_some, Option.some.injEq] at hfl
      obtain ⟨hk, hpk, _⟩ := List.findIdx?_eq_some_iff_getElem.mp hr
      have hklen : k < es.length := by simpa using hk
      have hi : i = es.length - 1 - k := hfl.symm
      have hget : es.reverse[k] = es[es.length - 1 - k] := by
        rw [List.getElem_reverse]
      have hti : (es[es.length - 1 - k]'(by omega)).1 < t := by
        have := hpk; rw [hget] at this; simpa using this
      obtain ⟨j, hj, rfl⟩ := List.getElem_of_mem he
      have hjl : j < i + 1 := by simpa [List.length_take] using (Nat.lt_of_lt_of_le hj (by simp [List.length_take]))
      rw [List.getElem_take]
      have hjle : j ≤ es.length - 1 - k := by omega
      rcases Nat.lt_or_eq_of_le hjle with hlt | heq
      · have := List.pairwise_iff_getElem.mp hs j (es.length - 1 - k) (by omega) (by omega) hlt
        exact lt_trans this hti
      · simp only [heq]; exact hti

/-- **`append` preserves the invariant** (any arguments) -/
theorem append_wf (b : Buf K) (tE tNow v : K) (h : b.WF) : (b.append tE tNow v).WF := by
  obtain ⟨hs, hc⟩ := h
  unfold Buf.append Buf.WF Buf.size
  simp only
  set es1 := b.entries.drop (countUnneeded b.entries tE) with he1
  have hs1 : es1.Pairwise (fun x y => x.1 < y.1) := List.Pairwise.sublist (List.drop_sublist _ _) hs
  set es2 := es1.take (keepEarlier es1 tNow) with he2
  have hs2 : es2.Pairwise (fun x y => x.1 < y.1) := List.Pairwise.sublist (List.take_sublist _ _) hs1
  have hlt := take_keepEarlier_lt es1 tNow hs1
  have hlen : es2.length ≤ b.cap := by
    have h1 : es2.length ≤ es1.length := (List.take_sublist _ _).length_le
    have h2 : es1.length ≤ b.entries.length := by rw [he1, List.length_drop]; omega
    exact le_trans (le_trans h1 h2) hc
  constructor
  · rw [List.pairwise_append]
    refine ⟨hs2, by simp, ?_⟩
    intro x hx y hy
    simp only [List.mem_singleton] at hy; subst hy
    exact hlt x hx
  · rw [List.length_append, List.length_singleton]
    split_ifs with h1 h2
    · exact moreRoom_gt _
    · unfold lessRoom; simp only; split_ifs <;> omega
    · omega

/-- **`prepend` preserves the invariant** under its documented precondition -/
theorem prepend_wf (b : Buf K) (t v : K) (h : b.WF) (hpre : ∀ e ∈ b.entries, t < e.1) : (b.prepend t v).WF := by
  obtain ⟨hs, hc⟩ := h
  unfold Buf.prepend Buf.WF Buf.size
  simp only
  constructor
  · exact List.pairwise_cons.mpr ⟨fun e he => hpre e he, hs⟩
  · rw [List.length_cons]
    have hc' : b.entries.length ≤ b.cap := hc
    split_ifs with h1
    · exact moreRoom_gt _
    · omega

/-- **`copyInAndUpdate` preserves the invariant** whenever the number of entries to keep is not negative (which is the
case for `tEarliest ≤ tNow`, i.e. a non-negative delay) -/
theorem copyInAndUpdate_wf (this old : Buf K) (tE tNow v : K) (hold : old.WF)
    (hkeep : countUnneeded old.entries tE ≤ keepEarlier old.entries tNow) :
    (this.copyInAndUpdate old tE tNow v).WF := by
  obtain ⟨hs, _⟩ := hold
  unfold Buf.copyInAndUpdate Buf.WF Buf.size
  simp only
  set fn := countUnneeded old.entries tE
  set ke := keepEarlier old.entries tNow
  have hlt := take_keepEarlier_lt old.entries tNow hs
  have hsk : ((old.entries.take ke).drop fn).Pairwise (fun x y => x.1 < y.1) :=
    List.Pairwise.sublist ((List.drop_sublist _ _).trans (List.take_sublist _ _)) hs
  have hklen : ((old.entries.take ke).drop fn).length ≤ ke - fn := by
    rw [List.length_drop, List.length_take]; omega
  constructor
  · rw [List.pairwise_append]
    refine ⟨hsk, by simp, ?_⟩
    intro x hx y hy
    simp only [List.mem_singleton] at hy; subst hy
    exact hlt x (List.mem_of_mem_drop hx)
  · rw [List.length_append, List.length_singleton]
    have hns : ((ke : Int) - fn + 1).toNat = ke - fn + 1 := by omega
    rw [hns]
    split_ifs with h1 h2
    · omega
    · omega
    · have : ((ke : Int) - fn + 1) ≤ this.cap := not_lt.mp h1
      omega


/-! ## what a query returns (Delay clause) -/


/-- `calcValueAtTimeLinearOnly` as a function of the logical contents only (the capacity plays no role) -/
def vAt (es : List (K × K)) (tau : K) : Option K := (Buf.mk es 0).valueAt tau

theorem valueAt_eq_vAt (b : Buf K) (tau : K) : b.valueAt tau = vAt b.entries tau := rfl

def Sorted (es : List (K × K)) : Prop := es.Pairwise (fun x y => x.1 < y.1)

theorem findFirst_cons (e : K × K) (es : List (K × K)) (tau : K) :
    findFirstLaterOrEq (e :: es) tau = if tau ≤ e.1 then some 0 else (findFirstLaterOrEq es tau).map (· + 1) := by
  unfold findFirstLaterOrEq
  rw [List.findIdx?_cons]
  by_cases h : tau ≤ e.1 <;> simp [h]

/-- dropping the oldest entry does not change the answer as long as the *second* entry is still earlier than the query
time and at least two entries remain -/
theorem vAt_drop_head (e0 e1 e2 : K × K) (rest : List (K × K)) (tau : K)
    (hs : Sorted (e0 :: e1 :: e2 :: rest)) (h1 : e1.1 < tau) :
    vAt (e0 :: e1 :: e2 :: rest) tau = vAt (e1 :: e2 :: rest) tau := by
  have h01 : e0.1 < e1.1 := (List.pairwise_cons.mp hs).1 e1 (by simp)
  have h0 : ¬ tau ≤ e0.1 := not_le.mpr (lt_trans h01 h1)
  have h1' : ¬ tau ≤ e1.1 := not_le.mpr h1
  unfold vAt Buf.valueAt
  simp only [List.isEmpty_cons, Bool.false_eq_true, if_false]
  rw [findFirst_cons e0, if_neg h0, findFirst_cons e1, if_neg h1']
  cases hf : findFirstLaterOrEq (e2 :: rest) tau with
  | none =>
    have hb : rest.length < (e1 :: e2 :: rest).length := by simp only [List.length_cons]; omega
    simp [List.getElem?_eq_getElem hb]
  | some j => simp

/-- dropping `k` old entries is invisible to a query at `tau` provided the entries `1..k` are all earlier than `tau` and
two entries remain -/
theorem vAt_drop (es : List (K × K)) (tau : K) (k : Nat) (hs : Sorted es) (hlen : k = 0 ∨ k + 2 ≤ es.length)
    (hlt : ∀ i < k, (es.getD (i + 1) (0, 0)).1 < tau) : vAt (es.drop k) tau = vAt es tau := by
  induction k generalizing es with
  | zero => simp
  | succ k ih =>
    have hl : k + 3 ≤ es.length := by rcases hlen with h | h <;> omega
    rcases es with _ | ⟨e0, _ | ⟨e1, _ | ⟨e2, rest⟩⟩⟩
    · simp at hl
    · simp at hl
    · simp at hl
    · have hs' : Sorted (e1 :: e2 :: rest) := (List.pairwise_cons.mp hs).2
      have h1 : e1.1 < tau := by simpa using hlt 0 (by omega)
      have hl' : k = 0 ∨ k + 2 ≤ (e1 :: e2 :: rest).length := by
        simp only [List.length_cons] at hl ⊢; omega
      rw [List.drop_succ_cons, ih (e1 :: e2 :: rest) hs' hl' (fun i hi => by simpa using hlt (i + 1) (by omega))]
      exact (vAt_drop_head e0 e1 e2 rest tau hs h1).symm

theorem findFirst_some_iff (es : List (K × K)) (tau : K) (i : Nat) :
    findFirstLaterOrEq es tau = some i ↔
      ∃ h : i < es.length, tau ≤ es[i].1 ∧ ∀ j (hj : j < i), es[j].1 < tau := by
  unfold findFirstLaterOrEq
  rw [List.findIdx?_eq_some_iff_getElem]
  simp only [decide_eq_true_eq, not_le]

/-- what `countNumUnneededOldEntries` promises: either nothing is dropped, or at least two entries remain and every
dropped entry *and its successor* are earlier than `tEarliest` -/
theorem countUnneeded_spec (es : List (K × K)) (tE : K) :
    (countUnneeded es tE = 0 ∨ countUnneeded es tE + 2 ≤ es.length) ∧
    ∀ i < countUnneeded es tE, (es.getD (i + 1) (0, 0)).1 < tE := by
  unfold countUnneeded
  cases hf : findFirstLaterOrEq es tE with
  | none => simp
  | some f =>
    obtain ⟨hfl, _, hbefore⟩ := (findFirst_some_iff es tE f).mp hf
    simp only
    refine ⟨by omega, fun i hi => ?_⟩
    have hi1 : i + 1 < f := by omega
    have hb : i + 1 < es.length := by omega
    rw [List.getD_eq_getElem?_getD, List.getElem?_eq_getElem hb]
    exact hbefore (i + 1) hi1

/-- **forgetting is invisible**: the entries `append`/`copyInAndUpdate` discard for `tEarliest` are never needed to
answer a query at any `tau ≥ tEarliest` -/
theorem vAt_forget (es : List (K × K)) (tE tau : K) (hs : Sorted es) (h : tE ≤ tau) :
    vAt (es.drop (countUnneeded es tE)) tau = vAt es tau := by
  obtain ⟨h1, h2⟩ := countUnneeded_spec es tE
  exact vAt_drop es tau _ hs h1 (fun i hi => lt_of_lt_of_le (h2 i hi) h)


/-- the interpolation formula of `calcValueAtTimeLinearOnly` -/
def interp (e0 e1 : K × K) (tau : K) : K := e0.2 + (tau - e0.1) / (e1.1 - e0.1) * (e1.2 - e0.2)

/-- **delay_returns_interpolant**: on a well-formed buffer, a query time that is later than the oldest entry and not later
than the newest is answered from the two stored samples that bracket it: `t_i < tau ≤ t_{i+1}`, the value is their
linear interpolant, and it lies between the two stored values -/
theorem vAt_bracket (es : List (K × K)) (tau : K) (i : Nat) (hs : Sorted es)
    (hf : findFirstLaterOrEq es tau = some (i + 1)) :
    ∃ (h : i + 1 < es.length), es[i].1 < tau ∧ tau ≤ es[i + 1].1 ∧ vAt es tau = some (interp es[i] es[i + 1] tau) ∧
      min es[i].2 es[i + 1].2 ≤ interp es[i] es[i + 1] tau ∧ interp es[i] es[i + 1] tau ≤ max es[i].2 es[i + 1].2 := by
  obtain ⟨hlen, hle, hbefore⟩ := (findFirst_some_iff es tau (i + 1)).mp hf
  have hlt : es[i].1 < tau := hbefore i (by omega)
  refine ⟨hlen, hlt, hle, ?_, ?_⟩
  · unfold vAt Buf.valueAt
    have hne : es.isEmpty = false := by cases es <;> simp at hlen ⊢
    simp only [hne, Bool.false_eq_true, if_false, hf]
    have h1 : es.getD i (0, 0) = es[i] := by rw [List.getD_eq_getElem?_getD, List.getElem?_eq_getElem (by omega)]; rfl
    have h2 : es.getD (i + 1) (0, 0) = es[i + 1] := by rw [List.getD_eq_getElem?_getD, List.getElem?_eq_getElem hlen]; rfl
    simp only [h1, h2, interp]
  · have h01 : es[i].1 < es[i + 1].1 := List.pairwise_iff_getElem.mp hs i (i + 1) (by omega) hlen (by omega)
    have hd : 0 < es[i + 1].1 - es[i].1 := sub_pos.mpr h01
    have hf0 : 0 ≤ (tau - es[i].1) / (es[i + 1].1 - es[i].1) := div_nonneg (le_of_lt (sub_pos.mpr hlt)) (le_of_lt hd)
    have hf1 : (tau - es[i].1) / (es[i + 1].1 - es[i].1) ≤ 1 := by rw [div_le_one hd]; linarith
    unfold interp
    generalize (tau - es[i].1) / (es[i + 1].1 - es[i].1) = f at hf0 hf1
    rcases le_total es[i].2 es[i + 1].2 with h | h
    · rw [min_eq_left h, max_eq_right h]; constructor <;> nlinarith
    · rw [min_eq_right h, max_eq_left h]; constructor <;> nlinarith

/-- on a well-formed buffer the time of a stored sample is answered by exactly that sample's value -/
theorem vAt_at_sample (es : List (K × K)) (i : Nat) (hi : i < es.length) (hs : Sorted es) :
    vAt es es[i].1 = some es[i].2 := by
  have hf : findFirstLaterOrEq es es[i].1 = some i := by
    rw [findFirst_some_iff]
    exact ⟨hi, le_refl _, fun j hj => List.pairwise_iff_getElem.mp hs j i (by omega) hi hj⟩
  have hne : es.isEmpty = false := by cases es <;> simp at hi ⊢
  cases i with
  | zero =>
    unfold vAt Buf.valueAt
    simp only [hne, Bool.false_eq_true, if_false, hf]
    rw [List.getD_eq_getElem?_getD, List.getElem?_eq_getElem hi]; rfl
  | succ k =>
    obtain ⟨_, _, _, hv, _⟩ := vAt_bracket es es[k + 1].1 k hs hf
    rw [hv]
    have h01 : es[k].1 < es[k + 1].1 := List.pairwise_iff_getElem.mp hs k (k + 1) (by omega) hi (by omega)
    have hd : es[k + 1].1 - es[k].1 ≠ 0 := ne_of_gt (sub_pos.mpr h01)
    unfold interp; rw [div_self hd]; congr 1; ring


/-- every entry earlier than `t` is kept by `removeEntriesLaterOrEq(t)` (no sortedness needed) -/
theorem lt_keepEarlier (es : List (K × K)) (t : K) (i : Nat) (hi : i < es.length) (h : es[i].1 < t) :
    i < keepEarlier es t := by
  unfold keepEarlier findLastEarlier
  cases hr : es.reverse.findIdx? (fun e => decide (e.1 < t)) with
  | none =>
    have := List.findIdx?_eq_none_iff.mp hr es[i] (by simp)
    simp at this; exact absurd h (not_lt.mpr this)
  | some k =>
    obtain ⟨hk, _, hmin⟩ := List.findIdx?_eq_some_iff_getElem.mp hr
    have hklen : k < es.length := by simpa using hk
    simp only [Option.map_some]
    -- the reverse index of `i` satisfies the predicate, so `k` is at most that
    by_contra hcon
    have hlt : es.length - 1 - i < k := by omega
    have := hmin (es.length - 1 - i) hlt
    rw [List.getElem_reverse] at this
    have e : es.length - 1 - (es.length - 1 - i) = i := by omega
    simp only [e, decide_eq_true_eq] at this
    exact this h

theorem keepEarlier_le (es : List (K × K)) (t : K) : keepEarlier es t ≤ es.length := by
  unfold keepEarlier findLastEarlier
  cases hr : es.reverse.findIdx? (fun e => decide (e.1 < t)) with
  | none => simp
  | some k =>
    obtain ⟨hk, _, _⟩ := List.findIdx?_eq_some_iff_getElem.mp hr
    have hklen : k < es.length := by simpa using hk
    simp only [Option.map_some]; omega

/-- when every stored time is earlier than `t` nothing is removed -/
theorem keepEarlier_all (es : List (K × K)) (t : K) (h : ∀ e ∈ es, e.1 < t) : keepEarlier es t = es.length := by
  rcases Nat.eq_zero_or_pos es.length with h0 | hpos
  · have := keepEarlier_le es t; omega
  · have := lt_keepEarlier es t (es.length - 1) (by omega) (h _ (List.getElem_mem _))
    have := keepEarlier_le es t; omega

/-- the hypothesis of `copyInAndUpdate_wf` holds whenever `tEarliest ≤ tNow` (a non-negative delay) -/
theorem countUnneeded_le_keepEarlier (es : List (K × K)) (tE tNow : K) (h : tE ≤ tNow) :
    countUnneeded es tE ≤ keepEarlier es tNow := by
  unfold countUnneeded
  cases hf : findFirstLaterOrEq es tE with
  | none => simp
  | some f =>
    obtain ⟨hfl, _, hbefore⟩ := (findFirst_some_iff es tE f).mp hf
    simp only
    rcases Nat.lt_or_ge f 3 with h3 | h3
    · omega
    · have := lt_keepEarlier es tNow (f - 1) (by omega) (lt_of_lt_of_le (hbefore (f - 1) (by omega)) h)
      omega


/-! ### the Delay measure along a trajectory -/

/-- reference semantics of the Delay measure: at a step `(t, v)` the reported value is the linear-interpolation query at
`t − delay` on the **complete, unpruned** history of the earlier steps -/
def delaySpec (d : K) : List (K × K) → List (K × K) → List (Option K)
  | _, [] => []
  | hist, (t, v) :: rest => vAt hist (t - d) :: delaySpec d (hist ++ [(t, v)]) rest

theorem getD_drop' (l : List (K × K)) (j i : Nat) : (l.drop j).getD i (0, 0) = l.getD (j + i) (0, 0) := by
  simp [List.getD_eq_getElem?_getD, List.getElem?_drop]

theorem getD_append_left' (l m : List (K × K)) (i : Nat) (h : i < l.length) :
    (l ++ m).getD i (0, 0) = l.getD i (0, 0) := by
  simp [List.getD_eq_getElem?_getD, List.getElem?_append_left h]

/-- **delayRun_obs**: for strictly increasing step times (any delay), what the modelled Delay measure reports
(state-variable buffer pruned by `copyInAndUpdate` at every step, two `Buf` objects swapping roles) is exactly the
reference semantics on the unpruned history -/
theorem delayRun_eq_spec (d : K) :
    ∀ (steps hist : List (K × K)) (var cache : Buf K) (j : Nat) (tau0 : K),
      Sorted (hist ++ steps) → var.entries = hist.drop j → (j = 0 ∨ j + 2 ≤ hist.length) →
      (∀ i < j, (hist.getD (i + 1) (0, 0)).1 < tau0) → (∀ s ∈ steps, tau0 ≤ s.1 - d) →
      delayRun d var cache steps = delaySpec d hist steps := by
  intro steps
  induction steps with
  | nil => intro hist var cache j tau0 _ _ _ _ _; rfl
  | cons s rest ih =>
    intro hist var cache j tau0 hs hvar hj hlt hge
    obtain ⟨t, v⟩ := s
    have hsh : Sorted hist := (List.pairwise_append.mp hs).1
    have htau : tau0 ≤ t - d := hge (t, v) (by simp)
    have hall : ∀ e ∈ hist, e.1 < t := fun e he => (List.pairwise_append.mp hs).2.2 e he (t, v) (by simp)
    simp only [delayRun, delaySpec]
    congr 1
    · rw [valueAt_eq_vAt, hvar]
      exact vAt_drop hist (t - d) j hsh hj (fun i hi => lt_of_lt_of_le (hlt i hi) htau)
    · -- the update
      set es := var.entries with hes
      have hes' : es = hist.drop j := hvar
      have hse : Sorted es := by rw [hes']; exact List.Pairwise.sublist (List.drop_sublist _ _) hsh
      have hke : keepEarlier es t = es.length :=
        keepEarlier_all es t (fun e he => hall e (List.mem_of_mem_drop (by rw [hes'] at he; exact he)))
      obtain ⟨hfn1, hfn2⟩ := countUnneeded_spec es (t - d)
      set fn := countUnneeded es (t - d) with hfn
      have hlen_es : es.length = hist.length - j := by rw [hes', List.length_drop]
      have hjfn : j + fn ≤ hist.length := by rcases hfn1 with h | h <;> rcases hj with h' | h' <;> omega
      have hent : (cache.copyInAndUpdate var (t - d) t v).entries = (hist ++ [(t, v)]).drop (j + fn) := by
        unfold Buf.copyInAndUpdate
        simp only
        rw [← hes, hke, List.take_of_length_le (le_refl _), hes', List.drop_drop, List.drop_append_of_le_length hjfn]
        rw [hfn, hes']
      apply ih (hist ++ [(t, v)]) _ var (j + fn) (t - d)
      · simpa [List.append_assoc] using hs
      · exact hent
      · simp only [List.length_append, List.length_singleton]
        rcases hfn1 with h | h <;> rcases hj with h' | h' <;> omega
      · intro i hi
        have hi1 : i + 1 < hist.length := by rcases hfn1 with h | h <;> rcases hj with h' | h' <;> omega
        rw [getD_append_left' _ _ _ hi1]
        rcases Nat.lt_or_ge i j with hij | hij
        · exact lt_of_lt_of_le (hlt i hij) htau
        · have := hfn2 (i - j) (by omega)
          rw [hes', getD_drop'] at this
          have e : j + (i - j + 1) = i + 1 := by omega
          rw [e] at this; exact this
      · intro s hs'
        have hts : t < s.1 := by
          have := (List.pairwise_append.mp hs).2.1
          exact (List.pairwise_cons.mp this).1 s hs'
        linarith

/-- the Delay measure from its initialization: `initializeVirtual` stores the single sample `(t0, v0)`; afterwards every
reported value is the reference semantics on the unpruned history -/
theorem delayRun_from_init (d t0 v0 : K) (cache : Buf K) (steps : List (K × K))
    (hs : Sorted ((t0, v0) :: steps)) :
    delayRun d (delayInit d t0 v0) cache steps = delaySpec d [(t0, v0)] steps := by
  have hinit : (delayInit d t0 v0).entries = [(t0, v0)] := by
    simp [delayInit, Buf.append, Buf.empty, countUnneeded, findFirstLaterOrEq, keepEarlier, findLastEarlier]
  apply delayRun_eq_spec d steps [(t0, v0)] _ cache 0 (t0 - d)
  · simpa using hs
  · simpa using hinit
  · exact Or.inl rfl
  · intro i hi; omega
  · intro s hs'
    have : t0 < s.1 := (List.pairwise_cons.mp hs).1 s hs'
    linarith


/-- `copyInAndUpdate` preserves the invariant for every non-negative delay (`tEarliest ≤ tNow`); the keep-count
hypothesis of `copyInAndUpdate_wf` is derived -/
theorem copyInAndUpdate_wf_of_le (this old : Buf K) (tE tNow v : K) (hold : old.WF) (h : tE ≤ tNow) :
    (this.copyInAndUpdate old tE tNow v).WF :=
  copyInAndUpdate_wf this old tE tNow v hold (countUnneeded_le_keepEarlier old.entries tE tNow h)

/-! ## Differentiate (approximation in use) -/

/-- a realization at the same time keeps the previous estimate -/
theorem diff_same_time (st : DiffSt K) (t f : K) : (diffUpdate st t f true).fdot = st.fdot := by
  simp [diffUpdate]


/-- from the reachable initial state (`fdot = 0`, `derivIsGood = false`) every estimate of an affine operand sampled at
distinct times is exact -/
theorem diffRun_affine (a b : K) :
    ∀ (steps : List K) (st : DiffSt K), st.f = a * st.t0 + b → (st.good = true → st.fdot = a) →
      (List.Pairwise (· ≠ ·) (st.t0 :: steps)) →
      ∀ x ∈ diffRun st (steps.map (fun t => (t, a * t + b, false))), x = a := by
  intro steps
  induction steps with
  | nil => intro st _ _ _ x hx; simp [diffRun] at hx
  | cons t rest ih =>
    intro st hf hg hp x hx
    have hne : t ≠ st.t0 := fun h => (List.pairwise_cons.mp hp).1 t (by simp) h.symm
    have hd : t - st.t0 ≠ 0 := sub_ne_zero.mpr hne
    have hval : (diffUpdate st t (a * t + b) false).fdot = a := by
      unfold diffUpdate
      simp only [Bool.false_eq_true, if_false]
      cases hgd : st.good
      · simp only [Bool.false_eq_true, if_false]; rw [hf]; field_simp; ring
      · simp only [if_true]; rw [hf, hg hgd]; field_simp; ring
    simp only [List.map_cons, diffRun, List.mem_cons] at hx
    rcases hx with rfl | hx
    · exact hval
    · refine ih (diffUpdate st t (a * t + b) false) ?_ (fun _ => hval) ?_ x hx
      · simp [diffUpdate]
      · have hp' := (List.pairwise_cons.mp hp).2
        have : (diffUpdate st t (a * t + b) false).t0 = t := by simp [diffUpdate]
        rw [this]; exact hp'

/-- **the error of the "second order" estimate is never damped**: for a quadratic operand, if the stored estimate is off by
`e`, the next estimate is off by exactly `−e` (whatever the step) — the first step's first-order error alternates in sign
forever -/
theorem diff_quadratic_error_flips (a b c t0 t e : K) (h : t ≠ t0) :
    (diffUpdate ⟨a * t0 ^ 2 + b * t0 + c, 2 * a * t0 + b + e, true, t0⟩ t (a * t ^ 2 + b * t + c) false).fdot
      = 2 * a * t + b - e := by
  have hd : t - t0 ≠ 0 := sub_ne_zero.mpr h
  unfold diffUpdate
  simp only [Bool.false_eq_true, if_false, if_true]
  field_simp; ring

/-- the first estimate after initialization is the difference quotient: for a quadratic operand its error is `−a·h` -/
theorem diff_first_step_quadratic (a b c t0 t : K) (h : t ≠ t0) :
    (diffUpdate (diffInit t0 (a * t0 ^ 2 + b * t0 + c)) t (a * t ^ 2 + b * t + c) false).fdot
      = 2 * a * t + b - a * (t - t0) := by
  have hd : t - t0 ≠ 0 := sub_ne_zero.mpr h
  unfold diffUpdate diffInit
  simp only [Bool.false_eq_true, if_false]
  field_simp; ring

/-! Integrate -/

/-- **integrate_is_state** (explicit Euler): the integral reported after the steps is the initial condition plus the
left Riemann sum of the operand over the steps -/
theorem integEulerRun_last (z t0 v0 : K) (steps : List (K × K)) :
    ((z :: integEulerRun z t0 v0 steps).getLast (by simp)) =
      z + (List.zipWith (fun (p q : K × K) => (q.1 - p.1) * p.2) ((t0, v0) :: steps) steps).sum := by
  induction steps generalizing z t0 v0 with
  | nil => simp [integEulerRun]
  | cons s rest ih =>
    obtain ⟨t, v⟩ := s
    simp only [integEulerRun, List.zipWith_cons_cons, List.sum_cons]
    rw [List.getLast_cons (by simp), ih]
    unfold integEulerStep; ring


/-! ## non-vacuity -/
example : (extFold .maxAbs (extInit (0 : ℚ) 1) [(1, -3), (2, 2)]).ext = -3 := by
  norm_num [extFold, extAdvance, extInit, isNewExtreme, absK]
example : ((Buf.empty : Buf ℚ).append (-1) 0 5).WF := append_wf _ _ _ _ empty_wf
/-- the sortedness hypothesis of the query theorems matters: on an unsorted list the query is answered from the wrong pair -/
example : vAt [((2 : ℚ), 10), (1, 20), (3, 30)] (3 / 2) = some 10 := by
  norm_num [vAt, Buf.valueAt, findFirstLaterOrEq, List.findIdx?_cons]
example : Sorted [((0 : ℚ), (1 : ℚ)), (1, 2), (2, 4)] := by simp [Sorted]

end C23
