import SimbodyModel.C23
import Mathlib.Tactic.Ring
import Mathlib.Tactic.FieldSimp
import Mathlib.Tactic.Linarith
import Mathlib.Tactic.NormNum
import Mathlib.Algebra.Order.Field.Basic
import Mathlib.Algebra.Order.AbsoluteValue.Basic

/-!
# C23 — property theorems: Measures compute what their definitions say

Over an arbitrary linear ordered field `K`.  The model (`SimbodyModel/C23.lean`) mirrors `MeasureImplementation.h`.
-/
set_option linter.unusedSectionVars false
set_option linter.unnecessarySeqFocus false
namespace C23
variable {K : Type} [Field K] [LinearOrder K] [IsStrictOrderedRing K]

/-! ## Extreme -/

/-- the quantity an `Extreme` operation maximises -/
def keyOf (op : Op) (v : K) : K :=
  match op with
  | .maximum => v
  | .minimum => -v
  | .maxAbs => |v|
  | .minAbs => -|v|

theorem absK_eq_abs (x : K) : absK x = |x| := by
  unfold absK; split_ifs with h
  · exact (abs_of_neg h).symm
  · exact (abs_of_nonneg (not_lt.mp h)).symm

/-- `isNewExtreme` is the strict comparison of keys -/
theorem isNewExtreme_iff (op : Op) (nw old : K) : isNewExtreme op nw old = true ↔ keyOf op old < keyOf op nw := by
  cases op <;> simp [isNewExtreme, keyOf, absK_eq_abs]

/-- what is reported at a step (value, time of extreme) is exactly what the auto-update swap then stores: the measure's
value at step `k` is the extreme over the steps `0..k` -/
theorem extObserve_eq_advance (op : Op) (st : ExtSt K) (t v : K) :
    (extObserve op st t v).1 = (extAdvance op st t v).ext ∧ (extObserve op st t v).2.1 = (extAdvance op st t v).tExt := by
  unfold extObserve extAdvance; split_ifs <;> simp [*]

/-- **extreme_is_fold**: after any history the stored extreme (a) is one of the operand values seen, paired with the time
it was seen (`extreme_time`), and (b) no value of the history has a larger key: it is the running
maximum / minimum / value of largest / smallest magnitude -/
theorem extreme_is_fold (op : Op) (t0 v0 : K) (steps : List (K × K)) :
    let st := extFold op (extInit t0 v0) steps
    (st.tExt, st.ext) ∈ (t0, v0) :: steps ∧ ∀ p ∈ (t0, v0) :: steps, keyOf op p.2 ≤ keyOf op st.ext := by
  -- generalise over the starting state
  suffices h : ∀ (st0 : ExtSt K) (hist : List (K × K)),
      (st0.tExt, st0.ext) ∈ hist → (∀ p ∈ hist, keyOf op p.2 ≤ keyOf op st0.ext) →
      ((extFold op st0 steps).tExt, (extFold op st0 steps).ext) ∈ hist ++ steps ∧
      ∀ p ∈ hist ++ steps, keyOf op p.2 ≤ keyOf op (extFold op st0 steps).ext by
    have := h (extInit t0 v0) [(t0, v0)] (by simp [extInit]) (by simp [extInit])
    simpa using this
  induction steps with
  | nil => intro st0 hist hm hk; simp only [extFold, List.foldl_nil, List.append_nil]; exact ⟨hm, hk⟩
  | cons s rest ih =>
    intro st0 hist hm hk
    have hf : extFold op st0 (s :: rest) = extFold op (extAdvance op st0 s.1 s.2) rest := by simp [extFold]
    rw [hf]
    have key := ih (extAdvance op st0 s.1 s.2) (hist ++ [s]) ?_ ?_
    · simpa [List.append_assoc] using key
    · unfold extAdvance; split_ifs with hn
      · simp
      · simp [hm]
    · intro p hp
      unfold extAdvance; split_ifs with hn
      · have hlt := (isNewExtreme_iff op s.2 st0.ext).mp hn
        rcases List.mem_append.mp hp with h | h
        · exact le_trans (hk p h) (le_of_lt hlt)
        · simp only [List.mem_singleton] at h; subst h; exact le_refl _
      · have hge : keyOf op s.2 ≤ keyOf op st0.ext := by
          have : ¬ keyOf op st0.ext < keyOf op s.2 := fun hlt => hn ((isNewExtreme_iff op s.2 st0.ext).mpr hlt)
          exact not_lt.mp this
        rcases List.mem_append.mp hp with h | h
        · exact hk p h
        · simp only [List.mem_singleton] at h; subst h; exact hge

/-- `Maximum` is the running maximum, `Minimum` the running minimum (as folds of `max` / `min`) -/
theorem maximum_is_foldl_max (t0 v0 : K) (steps : List (K × K)) :
    (extFold .maximum (extInit t0 v0) steps).ext = (steps.map (·.2)).foldl max v0 := by
  suffices h : ∀ st : ExtSt K, (extFold .maximum st steps).ext = (steps.map (·.2)).foldl max st.ext by
    simpa [extInit] using h (extInit t0 v0)
  induction steps with
  | nil => intro st; simp [extFold]
  | cons s rest ih =>
    intro st
    have hf : extFold .maximum st (s :: rest) = extFold .maximum (extAdvance .maximum st s.1 s.2) rest := by simp [extFold]
    rw [hf, ih]
    simp only [List.map_cons, List.foldl_cons]
    congr 1
    unfold extAdvance isNewExtreme
    by_cases h : st.ext < s.2
    · simp [h, max_eq_right (le_of_lt h)]
    · simp [h, max_eq_left (not_lt.mp h)]

theorem minimum_is_foldl_min (t0 v0 : K) (steps : List (K × K)) :
    (extFold .minimum (extInit t0 v0) steps).ext = (steps.map (·.2)).foldl min v0 := by
  suffices h : ∀ st : ExtSt K, (extFold .minimum st steps).ext = (steps.map (·.2)).foldl min st.ext by
    simpa [extInit] using h (extInit t0 v0)
  induction steps with
  | nil => intro st; simp [extFold]
  | cons s rest ih =>
    intro st
    have hf : extFold .minimum st (s :: rest) = extFold .minimum (extAdvance .minimum st s.1 s.2) rest := by simp [extFold]
    rw [hf, ih]
    simp only [List.map_cons, List.foldl_cons]
    congr 1
    unfold extAdvance isNewExtreme
    by_cases h : s.2 < st.ext
    · simp [h, min_eq_right (le_of_lt h)]
    · simp [h, min_eq_left (not_lt.mp h)]

/-! ## Differentiate (approximation in use) -/

/-- the first-order estimate is exact for affine operands, and the second-order correction keeps it exact -/
theorem diff_exact_affine (a b t0 t : K) (good : Bool) (h : t ≠ t0) :
    (diffUpdate ⟨a * t0 + b, a, good, t0⟩ t (a * t + b) false).fdot = a := by
  have hd : t - t0 ≠ 0 := sub_ne_zero.mpr h
  unfold diffUpdate
  cases good <;> simp <;> field_simp <;> ring

/-- with an exact previous derivative the second-order update `2·slope − fdot₀` is exact for quadratic operands -/
theorem diff_second_order_exact_quadratic (a b c t0 t : K) (h : t ≠ t0) :
    (diffUpdate ⟨a * t0 ^ 2 + b * t0 + c, 2 * a * t0 + b, true, t0⟩ t (a * t ^ 2 + b * t + c) false).fdot = 2 * a * t + b := by
  have hd : t - t0 ≠ 0 := sub_ne_zero.mpr h
  unfold diffUpdate
  simp only [Bool.false_eq_true, if_false, if_true]
  field_simp; ring

/-- a realization at the same time keeps the previous estimate -/
theorem diff_same_time (st : DiffSt K) (t f : K) : (diffUpdate st t f true).fdot = st.fdot := by
  simp [diffUpdate]

/-! ## Delay buffer -/

/-- ring-buffer invariant at the logical level: times strictly increasing and no more entries than capacity -/
def Buf.WF (b : Buf K) : Prop := b.entries.Pairwise (fun x y => x.1 < y.1) ∧ b.size ≤ b.cap

theorem moreRoom_gt (n : Nat) : n + 1 ≤ moreRoom n := by
  unfold moreRoom; omega

theorem empty_wf : (Buf.empty : Buf K).WF := by simp [Buf.WF, Buf.empty, Buf.size]

/-- entries kept by `removeEntriesLaterOrEq(t)` are all earlier than `t` (sorted buffer) -/
theorem take_keepEarlier_lt (es : List (K × K)) (t : K) (hs : es.Pairwise (fun x y => x.1 < y.1)) :
    ∀ e ∈ es.take (keepEarlier es t), e.1 < t := by
  intro e he
  unfold keepEarlier at he
  cases hfl : findLastEarlier es t with
  | none => rw [hfl] at he; simp at he
  | some i =>
    rw [hfl] at he
    -- entry i has time < t and every entry at index ≤ i has a time ≤ that
    unfold findLastEarlier at hfl
    cases hr : es.reverse.findIdx? (fun e => decide (e.1 < t)) with
    | none => rw [hr] at hfl; simp at hfl
    | some k =>
      rw [hr] at hfl
      simp only [Option.map_some, Option.some.injEq] at hfl
      obtain ⟨hk, hpk, _⟩ := List.findIdx?_eq_some_iff_getElem.mp hr
      have hklen : k < es.length := by simpa using hk
      have hi : i = es.length - 1 - k := hfl.symm
      have hget : es.reverse[k] = es[es.length - 1 - k] := by
        rw [List.getElem_reverse]
      have hti : (es[es.length - 1 - k]'(by omega)).1 < t := by
        have := hpk; rw [hget] at this; simpa using this
      obtain ⟨j, hj, rfl⟩ := List.getElem_of_mem he
      have hjl : j < i + 1 := by simpa [List.length_take] using (Nat.lt_of_lt_of_le hj (by simp [List.length_take]))
      rw [List.getElem_take]
      have hjle : j ≤ es.length - 1 - k := by omega
      rcases Nat.lt_or_eq_of_le hjle with hlt | heq
      · have := List.pairwise_iff_getElem.mp hs j (es.length - 1 - k) (by omega) (by omega) hlt
        exact lt_trans this hti
      · simp only [heq]; exact hti

/-- **`append` preserves the invariant** (any arguments) -/
theorem append_wf (b : Buf K) (tE tNow v : K) (h : b.WF) : (b.append tE tNow v).WF := by
  obtain ⟨hs, hc⟩ := h
  unfold Buf.append Buf.WF Buf.size
  simp only
  set es1 := b.entries.drop (countUnneeded b.entries tE) with he1
  have hs1 : es1.Pairwise (fun x y => x.1 < y.1) := List.Pairwise.sublist (List.drop_sublist _ _) hs
  set es2 := es1.take (keepEarlier es1 tNow) with he2
  have hs2 : es2.Pairwise (fun x y => x.1 < y.1) := List.Pairwise.sublist (List.take_sublist _ _) hs1
  have hlt := take_keepEarlier_lt es1 tNow hs1
  have hlen : es2.length ≤ b.cap := by
    have h1 : es2.length ≤ es1.length := (List.take_sublist _ _).length_le
    have h2 : es1.length ≤ b.entries.length := by rw [he1, List.length_drop]; omega
    exact le_trans (le_trans h1 h2) hc
  constructor
  · rw [List.pairwise_append]
    refine ⟨hs2, by simp, ?_⟩
    intro x hx y hy
    simp only [List.mem_singleton] at hy; subst hy
    exact hlt x hx
  · rw [List.length_append, List.length_singleton]
    split_ifs with h1 h2
    · exact moreRoom_gt _
    · unfold lessRoom; simp only; split_ifs <;> omega
    · omega

/-- **`prepend` preserves the invariant** under its documented precondition -/
theorem prepend_wf (b : Buf K) (t v : K) (h : b.WF) (hpre : ∀ e ∈ b.entries, t < e.1) : (b.prepend t v).WF := by
  obtain ⟨hs, hc⟩ := h
  unfold Buf.prepend Buf.WF Buf.size
  simp only
  constructor
  · exact List.pairwise_cons.mpr ⟨fun e he => hpre e he, hs⟩
  · rw [List.length_cons]
    have hc' : b.entries.length ≤ b.cap := hc
    split_ifs with h1
    · exact moreRoom_gt _
    · omega

/-- **`copyInAndUpdate` preserves the invariant** whenever the number of entries to keep is not negative (which is the
case for `tEarliest ≤ tNow`, i.e. a non-negative delay) -/
theorem copyInAndUpdate_wf (this old : Buf K) (tE tNow v : K) (hold : old.WF)
    (hkeep : countUnneeded old.entries tE ≤ keepEarlier old.entries tNow) :
    (this.copyInAndUpdate old tE tNow v).WF := by
  obtain ⟨hs, _⟩ := hold
  unfold Buf.copyInAndUpdate Buf.WF Buf.size
  simp only
  set fn := countUnneeded old.entries tE
  set ke := keepEarlier old.entries tNow
  have hlt := take_keepEarlier_lt old.entries tNow hs
  have hsk : ((old.entries.take ke).drop fn).Pairwise (fun x y => x.1 < y.1) :=
    List.Pairwise.sublist ((List.drop_sublist _ _).trans (List.take_sublist _ _)) hs
  have hklen : ((old.entries.take ke).drop fn).length ≤ ke - fn := by
    rw [List.length_drop, List.length_take]; omega
  constructor
  · rw [List.pairwise_append]
    refine ⟨hsk, by simp, ?_⟩
    intro x hx y hy
    simp only [List.mem_singleton] at hy; subst hy
    exact hlt x (List.mem_of_mem_drop hx)
  · rw [List.length_append, List.length_singleton]
    have hns : ((ke : Int) - fn + 1).toNat = ke - fn + 1 := by omega
    rw [hns]
    split_ifs with h1 h2
    · omega
    · omega
    · have : ((ke : Int) - fn + 1) ≤ this.cap := not_lt.mp h1
      omega

/-- linear interpolation hits the stored samples exactly: asked for the time of the entry `(t₁,v₁)` that follows
`(t₀,v₀)`, the interpolation formula returns `v₁`; asked for `t₀` it returns `v₀` -/
theorem interpolation_exact_at_samples (t0 v0 t1 v1 : K) (h : t0 ≠ t1) :
    v0 + (t1 - t0) / (t1 - t0) * (v1 - v0) = v1 ∧ v0 + (t0 - t0) / (t1 - t0) * (v1 - v0) = v0 := by
  have hd : t1 - t0 ≠ 0 := sub_ne_zero.mpr (Ne.symm h)
  constructor
  · rw [div_self hd]; ring
  · simp

/-- **delay_returns_interpolant**: between two stored samples the returned value is the convex combination of the two
values, hence lies between them -/
theorem interpolant_between (t0 v0 t1 v1 tau : K) (h01 : t0 < t1) (h0 : t0 ≤ tau) (h1 : tau ≤ t1) :
    min v0 v1 ≤ v0 + (tau - t0) / (t1 - t0) * (v1 - v0) ∧ v0 + (tau - t0) / (t1 - t0) * (v1 - v0) ≤ max v0 v1 := by
  have hd : 0 < t1 - t0 := sub_pos.mpr h01
  have hf0 : 0 ≤ (tau - t0) / (t1 - t0) := div_nonneg (sub_nonneg.mpr h0) (le_of_lt hd)
  have hf1 : (tau - t0) / (t1 - t0) ≤ 1 := by rw [div_le_one hd]; linarith
  generalize (tau - t0) / (t1 - t0) = f at hf0 hf1
  rcases le_total v0 v1 with h | h
  · rw [min_eq_left h, max_eq_right h]; constructor <;> nlinarith
  · rw [min_eq_right h, max_eq_left h]; constructor <;> nlinarith

/-- the value query on a one-entry buffer (start-up of a Delay measure) is that entry's value for every time: the
operand is treated as constant before the simulation started -/
theorem valueAt_single (t0 v0 tau : K) : (Buf.mk [(t0, v0)] 8 : Buf K).valueAt tau = some v0 := by
  unfold Buf.valueAt findFirstLaterOrEq
  by_cases h : tau ≤ t0
  · simp [List.findIdx?_cons, h]
  · simp [List.findIdx?_cons, h]

/-! ## arithmetic measures -/

/-- `Sinusoid`: each reported derivative order is the trig-pair derivative (`ṡ = w·c`, `ċ = −w·s`) of the previous one -/
theorem sinusoid_deriv_chain (a w s c : K) :
    sinusoid 1 a w s c = a * (w * c) ∧
    sinusoid 2 a w s c = w * a * (-(w * s)) ∧
    sinusoid 3 a w s c = -w * w * a * (w * c) := by
  simp only [sinusoid]; refine ⟨by ring, by ring, by ring⟩

/-- `Scale`, `Plus`, `Minus` compose as the linear expression they denote -/
theorem arithmetic_identities (f x y : K) :
    plus (scale f x) y = f * x + y ∧ minus (scale f x) y = f * x - y ∧ scale f (plus x y) = plus (scale f x) (scale f y) := by
  refine ⟨rfl, rfl, ?_⟩
  simp only [plus, scale]; ring

/-! ## non-vacuity -/
example : (extFold .maxAbs (extInit (0 : ℚ) 1) [(1, -3), (2, 2)]).ext = -3 := by
  norm_num [extFold, extAdvance, extInit, isNewExtreme, absK]
example : ((Buf.empty : Buf ℚ).append (-1) 0 5).WF := append_wf _ _ _ _ empty_wf

end C23
