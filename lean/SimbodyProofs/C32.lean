import SimbodyModel.C32
import SimbodyProofs.C32_lemmas
import Mathlib.Tactic.NormNum
import Mathlib.Tactic.Linarith

/-!
# C32 — property theorems (values survive text round trips; conversion succeeds exactly for whole-string literals)

Model: `SimbodyModel/C32.lean`.

* acceptance: `generic_accept_iff_whole_string` (the `tryConvertStringTo<T>` template implements the documented rule);
  `real_coded_accept_iff`, `bool_coded_accept_iff` (what `tryConvertToDouble/Float/Bool` do **as coded**: the unread rest is
  never looked at); `real_coded_accepts_trailing_junk`, `bool_coded_accepts_trailing_junk` and the concrete witnesses
  `double_accepts_1_5abc`, `float_accepts_1_5abc`, `bool_accepts_1abc`, `int_rejects_15abc` — **finding F2**: the documented rule
  is not provable for double/float/bool; `real_fixed_accept_iff_whole_string`, `bool_fixed_accept_iff_whole_string`,
  `real_fixed_le_coded`: the proposed repair satisfies the rule and only removes acceptances.
* unformatted streams: `unformatted_roundtrip` (fixed aggregates: scalars, complex, Vec, Mat and nestings),
  `unformatted_roundtrip_array` (Array_/Vector_ of `k`-scalar elements), for *any* white-space separators;
  `array_trailing_space_fails` documents that a trailing blank makes the variable-length read fail.
* XML: `xml_escape_roundtrip` (text and attribute values without the pattern `&#x`), `escape_no_raw_specials`,
  `xml_hexref_not_roundtrip` — **new finding**: `EncodeString` passes `&#x…;` through unescaped, so such text is not
  reproduced; `xml_text_examples`.
* numbers: `double_literal_examples`, `complex_nonfinite_rejected` — **new finding**: `String(std::complex)` writes `NaN`/`Inf`,
  which `convertTo<std::complex>` cannot read.
-/
namespace C32

/-! ## acceptance logic -/

/-- the generic template accepts exactly the whole-string literals (for every extraction operator) -/
theorem generic_accept_iff_whole_string {α} (ex : Extract α) (s : List Char) (v : α) :
    tryConvertGeneric ex s = some v ↔ WholeString ex s v := by
  unfold tryConvertGeneric WholeString
  cases h : ex s with
  | none => simp
  | some p =>
    obtain ⟨w, rest⟩ := p
    by_cases hr : rest.all isSpace = true
    · simp only [hr, if_true]
      constructor
      · intro e
        injection e with e
        subst e
        exact ⟨rest, rfl, hr⟩
      · rintro ⟨r', h1, _⟩
        injection h1 with h1
        injection h1 with h1a _
        rw [h1a]
    · simp only [hr, if_false, Bool.false_eq_true]
      constructor
      · intro e; cases e
      · rintro ⟨r', h1, h2⟩
        injection h1 with h1
        injection h1 with _ h1b
        rw [← h1b] at h2
        exact absurd h2 hr

/-- the spellings handled before the stream is consulted -/
def IsSpecialReal (a : List Char) : Prop := a = spNaN ∨ spPosInf.contains a = true ∨ spNegInf.contains a = true

/-- **as coded**: away from the special spellings `tryConvertToDouble/Float` succeeds iff the extraction does not fail —
nothing is required of the characters left unread -/
theorem real_coded_accept_iff {α} (ex : Extract α) (nan pinf ninf : α) (s : List Char) (v : α)
    (hs : ¬ IsSpecialReal (cleanUp s)) :
    tryConvertRealCoded ex nan pinf ninf s = some v ↔ ∃ rest, ex (cleanUp s) = some (v, rest) := by
  unfold IsSpecialReal at hs
  simp only [not_or] at hs
  unfold tryConvertRealCoded
  simp only [hs.1, hs.2.1, hs.2.2, if_false, Bool.false_eq_true]
  cases h : ex (cleanUp s) with
  | none => simp
  | some p => obtain ⟨w, r⟩ := p; simp

/-- **F2, abstractly**: whenever the extraction stops before non-blank characters, the coded conversion accepts although
the whole-string rule rejects — for every extraction operator and every such string -/
theorem real_coded_accepts_trailing_junk {α} (ex : Extract α) (nan pinf ninf : α) (s : List Char) (v : α)
    (junk : List Char) (hs : ¬ IsSpecialReal (cleanUp s))
    (hex : ex (cleanUp s) = some (v, junk)) (hjunk : junk.all isSpace = false) :
    tryConvertRealCoded ex nan pinf ninf s = some v ∧ ∀ w, ¬ WholeString ex (cleanUp s) w := by
  refine ⟨(real_coded_accept_iff ex nan pinf ninf s v hs).2 ⟨junk, hex⟩, ?_⟩
  rintro w ⟨rest, h1, h2⟩
  rw [hex] at h1
  simp only [Option.some.injEq, Prod.mk.injEq] at h1
  rw [← h1.2, hjunk] at h2
  exact Bool.false_ne_true h2

/-- the repaired conversion accepts exactly the whole-string literals (after `cleanUp`) -/
theorem real_fixed_accept_iff_whole_string {α} (ex : Extract α) (nan pinf ninf : α) (s : List Char) (v : α)
    (hs : ¬ IsSpecialReal (cleanUp s)) :
    tryConvertRealFixed ex nan pinf ninf s = some v ↔ WholeString ex (cleanUp s) v := by
  unfold IsSpecialReal at hs
  simp only [not_or] at hs
  unfold tryConvertRealFixed
  simp only [hs.1, hs.2.1, hs.2.2, if_false, Bool.false_eq_true]
  exact generic_accept_iff_whole_string ex _ v

/-- the repair only removes acceptances, and never changes a converted value -/
theorem real_fixed_le_coded {α} (ex : Extract α) (nan pinf ninf : α) (s : List Char) (v : α)
    (h : tryConvertRealFixed ex nan pinf ninf s = some v) : tryConvertRealCoded ex nan pinf ninf s = some v := by
  unfold tryConvertRealFixed at h
  unfold tryConvertRealCoded
  simp only at h ⊢
  split_ifs at h ⊢ with h1 h2 h3
  · exact h
  · exact h
  · exact h
  · obtain ⟨rest, hr, _⟩ := (generic_accept_iff_whole_string ex _ v).1 h
    simp [hr]

theorem bool_coded_accept_iff (ex : Extract Bool) (s : List Char) (v : Bool)
    (h1 : cleanUp s ≠ "true".toList) (h2 : cleanUp s ≠ "false".toList) :
    tryConvertBoolCoded ex s = some v ↔ ∃ rest, ex (cleanUp s) = some (v, rest) := by
  unfold tryConvertBoolCoded
  simp only [h1, h2, if_false]
  cases h : ex (cleanUp s) with
  | none => simp
  | some p => obtain ⟨w, r⟩ := p; simp

theorem bool_coded_accepts_trailing_junk (ex : Extract Bool) (s : List Char) (v : Bool) (junk : List Char)
    (h1 : cleanUp s ≠ "true".toList) (h2 : cleanUp s ≠ "false".toList)
    (hex : ex (cleanUp s) = some (v, junk)) (hjunk : junk.all isSpace = false) :
    tryConvertBoolCoded ex s = some v ∧ ∀ w, ¬ WholeString ex (cleanUp s) w := by
  refine ⟨(bool_coded_accept_iff ex s v h1 h2).2 ⟨junk, hex⟩, ?_⟩
  rintro w ⟨rest, h1', h2'⟩
  rw [hex] at h1'
  simp only [Option.some.injEq, Prod.mk.injEq] at h1'
  rw [← h1'.2, hjunk] at h2'
  exact Bool.false_ne_true h2'

theorem bool_fixed_accept_iff_whole_string (ex : Extract Bool) (s : List Char) (v : Bool)
    (h1 : cleanUp s ≠ "true".toList) (h2 : cleanUp s ≠ "false".toList) :
    tryConvertBoolFixed ex s = some v ↔ WholeString ex (cleanUp s) v := by
  unfold tryConvertBoolFixed
  simp only [h1, h2, if_false]
  exact generic_accept_iff_whole_string ex _ v

/-! ### the concrete witnesses with the libstdc++ extraction model (finding F2) -/

/-- `"1.5abc"` converts to 1.5 as coded; the template rule and the repair reject it -/
theorem double_accepts_1_5abc :
    tryConvertRealCoded extractDouble .nan (.inf false) (.inf true) "1.5abc".toList = some (.fin ⟨false, 3 / 2⟩) ∧
    tryConvertGeneric extractDouble "1.5abc".toList = none ∧
    tryConvertRealFixed extractDouble .nan (.inf false) (.inf true) "1.5abc".toList = none := by
  decide +kernel

theorem float_accepts_1_5abc :
    tryConvertRealCoded extractFloat .nan (.inf false) (.inf true) "1.5abc".toList = some (.fin ⟨false, 3 / 2⟩) ∧
    tryConvertRealFixed extractFloat .nan (.inf false) (.inf true) "1.5abc".toList = none := by
  decide +kernel

theorem bool_accepts_1abc :
    tryConvertBoolCoded extractBool "1abc".toList = some true ∧ tryConvertBoolFixed extractBool "1abc".toList = none := by
  decide +kernel

/-- the translator recognised the final `return` of all three specialised conversions in the current `String.cpp`
(either the pinned `!sstream.fail()` or a fail/eof/ws/eof test); if this fails the model cannot follow the code -/
theorem conversion_code_recognized :
    Gen.recognizedBool = true ∧ Gen.recognizedFloat = true ∧ Gen.recognizedDouble = true := by
  decide

/-- **the documented rule for the code as it currently is**: once `String.cpp` ends the conversions with the whole-string
test (`Gen.checksRest… = true`, i.e. after the repair) the model of `tryConvertToDouble/Float/Bool` accepts exactly the
whole-string literals.  On the pinned tree the hypotheses are false and `double_accepts_1_5abc` etc. apply instead. -/
theorem current_code_rule :
    (Gen.checksRestDouble = true → ∀ s v, ¬ IsSpecialReal (cleanUp s) →
        (tryConvertDouble s = some v ↔ WholeString extractDouble (cleanUp s) v)) ∧
    (Gen.checksRestFloat = true → ∀ s v, ¬ IsSpecialReal (cleanUp s) →
        (tryConvertFloat s = some v ↔ WholeString extractFloat (cleanUp s) v)) ∧
    (Gen.checksRestBool = true → ∀ s v, cleanUp s ≠ "true".toList → cleanUp s ≠ "false".toList →
        (tryConvertBool s = some v ↔ WholeString extractBool (cleanUp s) v)) := by
  refine ⟨fun h s v hs => ?_, fun h s v hs => ?_, fun h s v h1 h2 => ?_⟩
  · unfold tryConvertDouble; rw [if_pos h]; exact real_fixed_accept_iff_whole_string _ _ _ _ s v hs
  · unfold tryConvertFloat; rw [if_pos h]; exact real_fixed_accept_iff_whole_string _ _ _ _ s v hs
  · unfold tryConvertBool; rw [if_pos h]; exact bool_fixed_accept_iff_whole_string _ s v h1 h2

/-- the `int` path (generic template) is right -/
theorem int_rejects_15abc :
    tryConvertInt (-2147483648) 2147483647 "15abc".toList = none ∧
    tryConvertInt (-2147483648) 2147483647 " 15 ".toList = some 15 := by
  decide +kernel

/-- what the model's extraction makes of a few literals (special spellings, case, signs, rounding, overflow) -/
theorem double_literal_examples :
    tryConvertDouble " NaN ".toList = some .nan ∧
    tryConvertDouble "-INFINITY".toList = some (.inf true) ∧
    tryConvertDouble "+inf".toList = some (.inf false) ∧
    tryConvertDouble "-nan".toList = none ∧
    tryConvertDouble "1e".toList = none ∧
    tryConvertDouble "".toList = none ∧
    tryConvertDouble "1e400".toList = none ∧
    tryConvertDouble "-0".toList = some (.fin ⟨true, 0⟩) ∧
    tryConvertDouble "0.1".toList = some (.fin ⟨false, 3602879701896397 / 36028797018963968⟩) ∧
    tryConvertDouble "9007199254740993".toList = some (.fin ⟨false, 9007199254740992⟩) := by
  decide +kernel

/-- **new finding**: `String(std::complex<double>(NaN,1))` is `"(NaN,1)"`, which the generic template over the standard
complex extraction rejects (the finite form is accepted) -/
theorem complex_nonfinite_rejected :
    tryConvertComplex "(NaN,1)".toList = none ∧ tryConvertComplex "(1,-Inf)".toList = none ∧
    tryConvertComplex "(1.5,-2)".toList = some (.fin ⟨false, 3 / 2⟩, .fin ⟨true, 2⟩) := by
  decide +kernel

/-! ## unformatted token streams -/

/-- **fixed aggregates** (`readUnformatted` of a scalar, `std::complex`, `Vec`, `Mat`, and nestings, which read their
scalars in writing order): whatever white space separates the printed scalars — `writeUnformatted` uses one blank or one
newline — reading `n` scalars back returns the values written and consumes the whole text.  `sh`/`conv` are the scalar's
`String(v)` / `tryConvertTo`; the hypotheses say that a printed scalar is one clean token that converts back. -/
theorem unformatted_roundtrip {α} (sh : α → List Char) (conv : List Char → Option α)
    (ps : List (List Char × α)) (hw : ∀ p ∈ ps, WFp sh conv p) (hg : ∀ p ∈ ps.tail, p.1 ≠ []) :
    readFixed conv ps.length (render sh ps) = some (ps.map (·.2), []) := by
  have := readFixed_render sh conv ps [] (by simpa using hw) (by simpa using hg)
  simpa [render] using this

/-- **`Array_<T>` / `Vector_<T>`** with `k`-scalar elements (`k > 0`), nothing following the last token -/
theorem unformatted_roundtrip_array {α} (sh : α → List Char) (conv : List Char → Option α)
    (k : Nat) (hk : 0 < k) (es : List (List (List Char × α))) (hlen : ∀ e ∈ es, e.length = k)
    (hw : ∀ p ∈ es.flatten, WFp sh conv p) (hg : ∀ p ∈ es.flatten.tail, p.1 ≠ [])
    (hfirst : ∀ p ∈ es.flatten.head?, p.1 = []) :
    readArray conv k (render sh es.flatten) = some (es.map (·.map (·.2))) := by
  unfold readArray
  have hd : dropWS (render sh es.flatten) = render sh es.flatten := by
    cases hfl : es.flatten with
    | nil => rfl
    | cons p r =>
      obtain ⟨sep, v⟩ := p
      have hsep : sep = [] := by
        have := hfirst (sep, v) (by simp [hfl])
        exact this
      subst hsep
      have hp : WFp sh conv ([], v) := hw ([], v) (by simp [hfl])
      obtain ⟨hne, hall⟩ := hp.2.1
      cases hsv : sh v with
      | nil => exact absurd hsv hne
      | cons c cs =>
        have hc : isSpace c = false := by
          rw [hsv] at hall
          simp only [List.all_cons, Bool.and_eq_true, Bool.not_eq_true'] at hall; exact hall.1
        simp [render, hsv, dropWS, hc]
  simp only [hd]
  exact readArrayFuel_render sh conv k hk es hlen hw hg _ (Nat.lt_succ_self _)

/-- white space after the last element makes `readUnformatted(Array_&)` fail (the loop tests `eof()` only) — not a
round-trip issue because `writeUnformatted` never writes it; recorded because the model relies on it -/
theorem array_trailing_space_fails :
    readArray (fun t => (tryConvertInt (-2147483648) 2147483647 t)) 1 "1 2 ".toList = none ∧
    readArray (fun t => (tryConvertInt (-2147483648) 2147483647 t)) 1 "1 2".toList = some [[1], [2]] := by
  decide +kernel

/-! ## XML escaping -/

/-- **escape round trip** for element text (`endc = '<'`, any `keepQuotes`) and attribute values (`endc = '"'`, quotes
escaped), with or without white-space condensing on the writer side, when white space is kept on reading: every string
that does not contain the pattern `&#x` is reproduced exactly, whatever follows the closing delimiter. -/
theorem xml_escape_roundtrip (endc : Char) (kq cond : Bool) (hend : endc = '<' ∨ (endc = '"' ∧ kq = false))
    (s tail : List Char) (h : hasHexRef s = false) :
    decodeKeep endc (encode kq cond s ++ endc :: tail) = some s := by
  rw [encode_noHex kq cond s h]
  unfold decodeKeep
  apply decodeKeepFuel_flatMap endc kq cond hend
  have := flatMap_encChar_length kq cond s
  simp only [List.length_append, List.length_cons]
  omega

/-- the written form of such a string contains no raw markup character (and no raw quote inside attribute values) -/
theorem escape_no_raw_specials (kq cond : Bool) (s : List Char) (h : hasHexRef s = false) :
    '<' ∉ encode kq cond s ∧ '>' ∉ encode kq cond s ∧
    (kq = false → '"' ∉ encode kq cond s ∧ '\'' ∉ encode kq cond s) := by
  rw [encode_noHex kq cond s h]
  refine ⟨?_, ?_, fun hk => ⟨?_, ?_⟩⟩ <;> simp only [List.mem_flatMap, not_exists, not_and] <;> intro c _
  · exact (encChar_no_markup kq cond c).1
  · exact (encChar_no_markup kq cond c).2.1
  · exact ((encChar_no_markup kq cond c).2.2 hk).1
  · exact ((encChar_no_markup kq cond c).2.2 hk).2

/-- **new finding**: `EncodeString` copies `&#x…;` through unescaped, so the text `A&#x42;C` is written verbatim and read
back as `ABC` (both for element text and attribute values, with and without condensing); raw markup can even leak -/
theorem xml_hexref_not_roundtrip :
    textRoundTrip false "A&#x42;C".toList = some "ABC".toList ∧
    textRoundTrip true "A&#x42;C".toList = some "ABC".toList ∧
    attrRoundTrip false "v=&#x41;".toList = some "v=A".toList ∧
    encode true false "&#x<b>;".toList = "&#x<b>;".toList := by
  decide +kernel

/-- sample text values through write → read: escapes, control characters, condensing, blank values -/
theorem xml_text_examples :
    textRoundTrip false "a<b>&c\"d'e".toList = some "a<b>&c\"d'e".toList ∧
    textRoundTrip false "  a  b ".toList = some "  a  b ".toList ∧
    textRoundTrip true "  a  b ".toList = some "a b".toList ∧
    textRoundTrip true "\ttab\n".toList = some "\ttab\n".toList ∧
    textRoundTrip false "&amp;".toList = some "&amp;".toList ∧
    textRoundTrip false "   ".toList = some [] ∧
    encode false true "x<y & \"q\"".toList = "x&lt;y &amp; &quot;q&quot;".toList := by
  decide +kernel

end C32
