import SimbodyModel.C32
import SimbodyProofs.C32_lemmas
import Mathlib.Tactic.NormNum
import Mathlib.Tactic.Linarith

/-!
# C32 — property theorems (values survive text round trips; conversion succeeds exactly for whole-string literals)

Model: `SimbodyModel/C32.lean`; the executed `tryConvertDouble/Float/Bool` follow the current `String.cpp` through
`Gen/StringConv.lean`.  Statements about the pre-repair code live in `SimbodyProofs/C32_history.lean` (not counted).

* acceptance: `generic_accept_iff_whole_string` (template logic ⇔ "extraction succeeded and only white space is left"),
  `real_fixed_accept_iff_whole_string`, `bool_fixed_accept_iff_whole_string`, `conversion_code_recognized`, `current_code_rule`
  (the rule for the conversions *as the current source has them*), `special_spellings`, `current_code_rejects_trailing_junk`,
  `decimal_literal_extraction`, `decimal_literal_accept_iff` (an independent literal grammar: what follows a decimal literal
  decides acceptance), `int_rejects_15abc`, `double_literal_examples`, `complex_nonfinite_rejected` (known finding).
* unformatted streams: `unformatted_roundtrip`, `unformatted_roundtrip_array` (conditional on the scalar printer/parser pair
  `conv (sh v) = some v`, which is predicate-only), `array_trailing_space_fails`.
* XML: `xml_escape_roundtrip`, `escape_no_raw_specials`, `xml_hexref_not_roundtrip` (known finding), `xml_text_examples`,
  `normalizeNL_of_noCR`, `xml_file_roundtrip_eq_string`, `xml_file_cr_not_roundtrip` (finding: raw CR in a file becomes LF).
-/
namespace C32

/-! ## acceptance logic -/

/-- the generic template accepts exactly the whole-string literals (for every extraction operator) -/
theorem generic_accept_iff_whole_string {α} (ex : Extract α) (s : List Char) (v : α) :
    tryConvertGeneric ex s = some v ↔ WholeString ex s v := by
  unfold tryConvertGeneric WholeString
  cases h : ex s with
  | none => simp
  | some p =>
    obtain ⟨w, rest⟩ := p
    by_cases hr : rest.all isSpace = true
    · simp only [hr, if_true]
      constructor
      · intro e
        injection e with e
        subst e
        exact ⟨rest, rfl, hr⟩
      · rintro ⟨r', h1, _⟩
        injection h1 with h1
        injection h1 with h1a _
        rw [h1a]
    · simp only [hr, if_false, Bool.false_eq_true]
      constructor
      · intro e; cases e
      · rintro ⟨r', h1, h2⟩
        injection h1 with h1
        injection h1 with _ h1b
        rw [← h1b] at h2
        exact absurd h2 hr

/-- the spellings handled before the stream is consulted -/
def IsSpecialReal (a : List Char) : Prop := a = spNaN ∨ spPosInf.contains a = true ∨ spNegInf.contains a = true

/-- the repaired conversion accepts exactly the whole-string literals (after `cleanUp`) -/
theorem real_fixed_accept_iff_whole_string {α} (ex : Extract α) (nan pinf ninf : α) (s : List Char) (v : α)
    (hs : ¬ IsSpecialReal (cleanUp s)) :
    tryConvertRealFixed ex nan pinf ninf s = some v ↔ WholeString ex (cleanUp s) v := by
  unfold IsSpecialReal at hs
  simp only [not_or] at hs
  unfold tryConvertRealFixed
  simp only [hs.1, hs.2.1, hs.2.2, if_false, Bool.false_eq_true]
  exact generic_accept_iff_whole_string ex _ v

theorem bool_fixed_accept_iff_whole_string (ex : Extract Bool) (s : List Char) (v : Bool)
    (h1 : cleanUp s ≠ "true".toList) (h2 : cleanUp s ≠ "false".toList) :
    tryConvertBoolFixed ex s = some v ↔ WholeString ex (cleanUp s) v := by
  unfold tryConvertBoolFixed
  simp only [h1, h2, if_false]
  exact generic_accept_iff_whole_string ex _ v

/-! ### the concrete witnesses with the libstdc++ extraction model (finding F2) -/

/-- the translator recognised the final `return` of all three specialised conversions in the current `String.cpp`
(either the pinned `!sstream.fail()` or a fail/eof/ws/eof test); if this fails the model cannot follow the code -/
theorem conversion_code_recognized :
    Gen.recognizedBool = true ∧ Gen.recognizedFloat = true ∧ Gen.recognizedDouble = true := by
  decide

/-- **the documented rule for the code as it currently is**: once `String.cpp` ends the conversions with the whole-string
test (`Gen.checksRest… = true`, i.e. after the repair) the model of `tryConvertToDouble/Float/Bool` accepts exactly the
whole-string literals.  On the pinned tree the hypotheses are false and `double_accepts_1_5abc` etc. apply instead. -/
theorem current_code_rule :
    (Gen.checksRestDouble = true → ∀ s v, ¬ IsSpecialReal (cleanUp s) →
        (tryConvertDouble s = some v ↔ WholeString extractDouble (cleanUp s) v)) ∧
    (Gen.checksRestFloat = true → ∀ s v, ¬ IsSpecialReal (cleanUp s) →
        (tryConvertFloat s = some v ↔ WholeString extractFloat (cleanUp s) v)) ∧
    (Gen.checksRestBool = true → ∀ s v, cleanUp s ≠ "true".toList → cleanUp s ≠ "false".toList →
        (tryConvertBool s = some v ↔ WholeString extractBool (cleanUp s) v)) := by
  refine ⟨fun h s v hs => ?_, fun h s v hs => ?_, fun h s v h1 h2 => ?_⟩
  · unfold tryConvertDouble; rw [if_pos h]; exact real_fixed_accept_iff_whole_string _ _ _ _ s v hs
  · unfold tryConvertFloat; rw [if_pos h]; exact real_fixed_accept_iff_whole_string _ _ _ _ s v hs
  · unfold tryConvertBool; rw [if_pos h]; exact bool_fixed_accept_iff_whole_string _ s v h1 h2

/-! ### the conversions as the current source has them -/

/-- the non-finite spellings `String(double/float)` produces (`NaN`, `Inf`, `-Inf`) and the documented alternatives, in any
case and with surrounding white space, convert to the corresponding value -/
theorem special_spellings :
    tryConvertDouble "NaN".toList = some .nan ∧ tryConvertDouble "Inf".toList = some (.inf false) ∧
    tryConvertDouble "-Inf".toList = some (.inf true) ∧ tryConvertFloat "NaN".toList = some .nan ∧
    tryConvertFloat " -INFINITY\n".toList = some (.inf true) ∧ tryConvertDouble "+infinity".toList = some (.inf false) ∧
    tryConvertBool " TRUE ".toList = some true ∧ tryConvertBool "False".toList = some false := by
  decide +kernel

/-- for every string whose cleaned form is a special spelling the repaired conversion returns the corresponding constant,
whatever the extraction operator -/
theorem real_fixed_special {α} (ex : Extract α) (nan pinf ninf : α) (s : List Char) :
    (cleanUp s = spNaN → tryConvertRealFixed ex nan pinf ninf s = some nan) ∧
    (cleanUp s ≠ spNaN → spPosInf.contains (cleanUp s) = true → tryConvertRealFixed ex nan pinf ninf s = some pinf) ∧
    (cleanUp s ≠ spNaN → spPosInf.contains (cleanUp s) = false → spNegInf.contains (cleanUp s) = true →
      tryConvertRealFixed ex nan pinf ninf s = some ninf) := by
  refine ⟨fun h => ?_, fun h1 h2 => ?_, fun h1 h2 h3 => ?_⟩ <;> unfold tryConvertRealFixed
  · simp only [h, if_true]
  · simp only [h1, h2, if_true, if_false]
  · simp only [h1, h2, h3, if_true, if_false, Bool.false_eq_true]

/-- **"fails when characters trail the number"** for the conversions of the current tree (translator-tied: this is false,
and the check alarms, if `String.cpp` goes back to `return !sstream.fail();`) -/
theorem current_code_rejects_trailing_junk :
    tryConvertDouble "1.5abc".toList = none ∧ tryConvertDouble "1.5 2".toList = none ∧
    tryConvertDouble "0x10".toList = none ∧ tryConvertFloat "1.5abc".toList = none ∧
    tryConvertBool "1abc".toList = none ∧ tryConvertBool "1.0".toList = none ∧
    tryConvertDouble " 1.5 ".toList = some (.fin ⟨false, 3 / 2⟩) ∧ tryConvertBool " 1 ".toList = some true := by
  decide +kernel

/-! ### an independent literal grammar -/

/-- **extraction of a decimal literal** `ip.fp` (`ip` nonempty digits, `fp` digits) followed by `rest`, where `rest` is empty
or starts with a character that is neither a digit nor `e`/`E`: `operator>>(double&)` of the model consumes exactly the
literal — its value is `strtod`'s — and leaves `rest` untouched (`none` only on overflow) -/
theorem decimal_literal_extraction (ip fp rest : List Char) (hip : ip ≠ []) (hipd : ip.all isDigit = true)
    (hfpd : fp.all isDigit = true) (hrest : ∀ c r, rest = c :: r → isDigit c = false ∧ c ≠ 'e' ∧ c ≠ 'E') :
    extractDouble (ip ++ '.' :: (fp ++ rest)) =
      (FloatLit.value 53 (-1074) 1024 ⟨false, ip, fp, false, false, false, []⟩).map (fun v => (FV.fin v, rest)) := by
  unfold extractDouble extractReal
  rw [scanFloat_decimal ip fp rest hip hipd hfpd hrest]
  have hv : FloatLit.valid ⟨false, ip, fp, false, false, false, []⟩ = true := by
    cases ip with
    | nil => exact absurd rfl hip
    | cons a b => simp [FloatLit.valid]
  simp only [hv, if_true]

/-- **acceptance is decided by what follows the literal**: the whole-string rule (generic template / repaired
conversions) accepts `ip.fp ++ rest` iff `rest` is white space only — e.g. `"1.5abc"`, `"1.5 2"`, `"1.5,"` are rejected,
`"1.5 "` is accepted — for every such literal that does not overflow -/
theorem decimal_literal_accept_iff (ip fp rest : List Char) (hip : ip ≠ []) (hipd : ip.all isDigit = true)
    (hfpd : fp.all isDigit = true) (hrest : ∀ c r, rest = c :: r → isDigit c = false ∧ c ≠ 'e' ∧ c ≠ 'E')
    (v : RealV) (hval : FloatLit.value 53 (-1074) 1024 ⟨false, ip, fp, false, false, false, []⟩ = some v) :
    tryConvertGeneric extractDouble (ip ++ '.' :: (fp ++ rest)) = (if rest.all isSpace then some (FV.fin v) else none) := by
  unfold tryConvertGeneric
  rw [decimal_literal_extraction ip fp rest hip hipd hfpd hrest, hval]
  rfl

/-- the integer-form literal `ip` (no `.`) likewise, `rest` not starting with a digit, `.`, `e`, `E` -/
theorem integer_literal_accept_iff (ip rest : List Char) (hip : ip ≠ []) (hipd : ip.all isDigit = true)
    (hrest : ∀ c r, rest = c :: r → isDigit c = false ∧ c ≠ '.' ∧ c ≠ 'e' ∧ c ≠ 'E')
    (v : RealV) (hval : FloatLit.value 53 (-1074) 1024 ⟨false, ip, [], false, false, false, []⟩ = some v) :
    tryConvertGeneric extractDouble (ip ++ rest) = (if rest.all isSpace then some (FV.fin v) else none) := by
  unfold tryConvertGeneric extractDouble extractReal
  rw [scanFloat_integer ip rest hip hipd hrest]
  have hv : FloatLit.valid ⟨false, ip, [], false, false, false, []⟩ = true := by
    cases ip with
    | nil => exact absurd rfl hip
    | cons a b => simp [FloatLit.valid]
  simp only [hv, if_true, hval]
  rfl

/-- non-vacuity: `"1.5" ++ "abc"` satisfies every hypothesis (value 3/2) and is therefore rejected, `"1.5" ++ " "` accepted -/
example : tryConvertGeneric extractDouble ("1".toList ++ '.' :: ("5".toList ++ "abc".toList)) = none ∧
    tryConvertGeneric extractDouble ("1".toList ++ '.' :: ("5".toList ++ " ".toList)) = some (FV.fin ⟨false, 3 / 2⟩) := by
  constructor
  · rw [decimal_literal_accept_iff "1".toList "5".toList "abc".toList (by decide) (by decide) (by decide)
      (fun c r h => by injection h with e _; rw [← e]; decide) ⟨false, 3 / 2⟩ (by decide +kernel)]
    decide +kernel
  · rw [decimal_literal_accept_iff "1".toList "5".toList " ".toList (by decide) (by decide) (by decide)
      (fun c r h => by injection h with e _; rw [← e]; decide) ⟨false, 3 / 2⟩ (by decide +kernel)]
    decide +kernel

/-- the `int` path (generic template) is right -/
theorem int_rejects_15abc :
    tryConvertInt (-2147483648) 2147483647 "15abc".toList = none ∧
    tryConvertInt (-2147483648) 2147483647 " 15 ".toList = some 15 := by
  decide +kernel

/-- what the model's extraction makes of a few literals (special spellings, case, signs, rounding, overflow) -/
theorem double_literal_examples :
    tryConvertDouble " NaN ".toList = some .nan ∧
    tryConvertDouble "-INFINITY".toList = some (.inf true) ∧
    tryConvertDouble "+inf".toList = some (.inf false) ∧
    tryConvertDouble "-nan".toList = none ∧
    tryConvertDouble "1e".toList = none ∧
    tryConvertDouble "".toList = none ∧
    tryConvertDouble "1e400".toList = none ∧
    tryConvertDouble "-0".toList = some (.fin ⟨true, 0⟩) ∧
    tryConvertDouble "0.1".toList = some (.fin ⟨false, 3602879701896397 / 36028797018963968⟩) ∧
    tryConvertDouble "9007199254740993".toList = some (.fin ⟨false, 9007199254740992⟩) := by
  decide +kernel

/-- **new finding**: `String(std::complex<double>(NaN,1))` is `"(NaN,1)"`, which the generic template over the standard
complex extraction rejects (the finite form is accepted) -/
theorem complex_nonfinite_rejected :
    tryConvertComplex "(NaN,1)".toList = none ∧ tryConvertComplex "(1,-Inf)".toList = none ∧
    tryConvertComplex "(1.5,-2)".toList = some (.fin ⟨false, 3 / 2⟩, .fin ⟨true, 2⟩) := by
  decide +kernel

/-! ## unformatted token streams -/

/-- **fixed aggregates** (`readUnformatted` of a scalar, `std::complex`, `Vec`, `Mat`, and nestings, which read their
scalars in writing order): whatever white space separates the printed scalars — `writeUnformatted` uses one blank or one
newline — reading `n` scalars back returns the values written and consumes the whole text.  `sh`/`conv` are the scalar's
`String(v)` / `tryConvertTo`; the hypotheses say that a printed scalar is one clean token that converts back. -/
theorem unformatted_roundtrip {α} (sh : α → List Char) (conv : List Char → Option α)
    (ps : List (List Char × α)) (hw : ∀ p ∈ ps, WFp sh conv p) (hg : ∀ p ∈ ps.tail, p.1 ≠ []) :
    readFixed conv ps.length (render sh ps) = some (ps.map (·.2), []) := by
  have := readFixed_render sh conv ps [] (by simpa using hw) (by simpa using hg)
  simpa [render] using this

/-- **`Array_<T>` / `Vector_<T>`** with `k`-scalar elements (`k > 0`), nothing following the last token -/
theorem unformatted_roundtrip_array {α} (sh : α → List Char) (conv : List Char → Option α)
    (k : Nat) (hk : 0 < k) (es : List (List (List Char × α))) (hlen : ∀ e ∈ es, e.length = k)
    (hw : ∀ p ∈ es.flatten, WFp sh conv p) (hg : ∀ p ∈ es.flatten.tail, p.1 ≠ [])
    (hfirst : ∀ p ∈ es.flatten.head?, p.1 = []) :
    readArray conv k (render sh es.flatten) = some (es.map (·.map (·.2))) := by
  unfold readArray
  have hd : dropWS (render sh es.flatten) = render sh es.flatten := by
    cases hfl : es.flatten with
    | nil => rfl
    | cons p r =>
      obtain ⟨sep, v⟩ := p
      have hsep : sep = [] := by
        have := hfirst (sep, v) (by simp [hfl])
        exact this
      subst hsep
      have hp : WFp sh conv ([], v) := hw ([], v) (by simp [hfl])
      obtain ⟨hne, hall⟩ := hp.2.1
      cases hsv : sh v with
      | nil => exact absurd hsv hne
      | cons c cs =>
        have hc : isSpace c = false := by
          rw [hsv] at hall
          simp only [List.all_cons, Bool.and_eq_true, Bool.not_eq_true'] at hall; exact hall.1
        simp [render, hsv, dropWS, hc]
  simp only [hd]
  exact readArrayFuel_render sh conv k hk es hlen hw hg _ (Nat.lt_succ_self _)

/-- white space after the last element makes `readUnformatted(Array_&)` fail (the loop tests `eof()` only) — not a
round-trip issue because `writeUnformatted` never writes it; recorded because the model relies on it -/
theorem array_trailing_space_fails :
    readArray (fun t => (tryConvertInt (-2147483648) 2147483647 t)) 1 "1 2 ".toList = none ∧
    readArray (fun t => (tryConvertInt (-2147483648) 2147483647 t)) 1 "1 2".toList = some [[1], [2]] := by
  decide +kernel

/-! ## XML escaping -/

/-- **escape round trip** for element text (`endc = '<'`, any `keepQuotes`) and attribute values (`endc = '"'`, quotes
escaped), with or without white-space condensing on the writer side, when white space is kept on reading: every string
that does not contain the pattern `&#x` is reproduced exactly, whatever follows the closing delimiter. -/
theorem xml_escape_roundtrip (endc : Char) (kq cond : Bool) (hend : endc = '<' ∨ (endc = '"' ∧ kq = false))
    (s tail : List Char) (h : hasHexRef s = false) :
    decodeKeep endc (encode kq cond s ++ endc :: tail) = some s := by
  rw [encode_noHex kq cond s h]
  unfold decodeKeep
  apply decodeKeepFuel_flatMap endc kq cond hend
  have := flatMap_encChar_length kq cond s
  simp only [List.length_append, List.length_cons]
  omega

/-- the written form of such a string contains no raw markup character (and no raw quote inside attribute values) -/
theorem escape_no_raw_specials (kq cond : Bool) (s : List Char) (h : hasHexRef s = false) :
    '<' ∉ encode kq cond s ∧ '>' ∉ encode kq cond s ∧
    (kq = false → '"' ∉ encode kq cond s ∧ '\'' ∉ encode kq cond s) := by
  rw [encode_noHex kq cond s h]
  refine ⟨?_, ?_, fun hk => ⟨?_, ?_⟩⟩ <;> simp only [List.mem_flatMap, not_exists, not_and] <;> intro c _
  · exact (encChar_no_markup kq cond c).1
  · exact (encChar_no_markup kq cond c).2.1
  · exact ((encChar_no_markup kq cond c).2.2 hk).1
  · exact ((encChar_no_markup kq cond c).2.2 hk).2

/-- **new finding**: `EncodeString` copies `&#x…;` through unescaped, so the text `A&#x42;C` is written verbatim and read
back as `ABC` (both for element text and attribute values, with and without condensing); raw markup can even leak -/
theorem xml_hexref_not_roundtrip :
    textRoundTrip false "A&#x42;C".toList = some "ABC".toList ∧
    textRoundTrip true "A&#x42;C".toList = some "ABC".toList ∧
    attrRoundTrip false "v=&#x41;".toList = some "v=A".toList ∧
    encode true false "&#x<b>;".toList = "&#x<b>;".toList := by
  decide +kernel

/-- a string without carriage returns is untouched by the file reader's end-of-line normalisation -/
theorem normalizeNL_of_noCR (s : List Char) (h : '\r' ∉ s) : normalizeNL s = s := by
  induction s with
  | nil => rfl
  | cons c r ih =>
    have hc : c ≠ '\r' := fun e => h (by simp [e])
    have hr : '\r' ∉ r := fun e => h (by simp [e])
    cases r with
    | nil => simp [normalizeNL]
    | cons d r' =>
      have : normalizeNL (c :: d :: r') = c :: normalizeNL (d :: r') := by
        simp [normalizeNL, hc]
      rw [this, ih hr]

/-- through a **file**, values free of carriage returns (and of `&#x`) behave exactly as through a string -/
theorem xml_file_roundtrip_eq_string (cond : Bool) (s : List Char) (h : hasHexRef s = false) (hcr : '\r' ∉ s) :
    textRoundTripFile cond s = textRoundTrip cond s ∧ attrRoundTripFile cond s = attrRoundTrip cond s := by
  have henc : ∀ kq, '\r' ∉ encode kq cond s := by
    intro kq
    rw [encode_noHex kq cond s h]
    simp only [List.mem_flatMap, not_exists, not_and]
    intro c hc
    exact encChar_noCR kq cond c (fun e => hcr (e ▸ hc))
  constructor
  · unfold textRoundTripFile textRoundTrip
    rw [normalizeNL_of_noCR]
    intro hm
    rcases List.mem_append.1 hm with h1 | h1
    · exact henc true h1
    · revert h1; decide
  · unfold attrRoundTripFile attrRoundTrip
    rw [normalizeNL_of_noCR]
    intro hm
    rcases List.mem_append.1 hm with h1 | h1
    · exact henc false h1
    · revert h1; decide

/-- **finding**: with white space kept, `EncodeString` writes a carriage return raw and `LoadFile` turns it into a line
feed: `a\rb\r\nc` comes back from a file as `a\nb\nc` (attribute `x\ry` as `x\ny`), while the string path and the
condensing mode (which writes `&#x0D;`) reproduce it -/
theorem xml_file_cr_not_roundtrip :
    textRoundTripFile false "a\rb\r\nc".toList = some "a\nb\nc".toList ∧
    attrRoundTripFile false "x\ry".toList = some "x\ny".toList ∧
    textRoundTrip false "a\rb\r\nc".toList = some "a\rb\r\nc".toList ∧
    attrRoundTripFile true "x\ry".toList = some "x\ry".toList := by
  decide +kernel

/-- sample text values through write → read: escapes, control characters, condensing, blank values -/
theorem xml_text_examples :
    textRoundTrip false "a<b>&c\"d'e".toList = some "a<b>&c\"d'e".toList ∧
    textRoundTrip false "  a  b ".toList = some "  a  b ".toList ∧
    textRoundTrip true "  a  b ".toList = some "a b".toList ∧
    textRoundTrip true "\ttab\n".toList = some "\ttab\n".toList ∧
    textRoundTrip false "&amp;".toList = some "&amp;".toList ∧
    textRoundTrip false "   ".toList = some [] ∧
    encode false true "x<y & \"q\"".toList = "x&lt;y &amp; &quot;q&quot;".toList := by
  decide +kernel

end C32
