import SimbodyModel.C36
import SimbodyProofs.C35_lemmas

/-!
# C36 — property theorems: mesh queries match brute force, bounding volumes contain

* `bnb_eq_bruteforce`: the branch-and-bound descent of `OBBTreeNodeImpl::findNearestPoint` / `intersectsRay`, over any
  tree whose node bounds are admissible (never exceed the cost of an item below them), returns a brute-force optimum;
* `obb_bound_admissible`: the bound used by the nearest-point descent (distance to the node's box) is admissible for
  every point the box contains; `obb_nearest_contained`: the clamped point is in the box;
* `box_contains_hull`: a box that contains the three vertices of a triangle contains the whole triangle (convexity), so
  "node contains its triangles' vertices" (checked on the real tree on every run) gives "node contains its triangles";
* `bounding_sphere_contains` (two / three points), `circumcentre_equidistant`;
* `topology_sound`: the decidable adjacency predicate implies the adjacency statements.
-/
namespace Geom
namespace Msh

section bnb
variable {K : Type} [LinearOrder K] {α : Type}

/-- `r` is a candidate of minimal cost among `items` -/
def IsOpt (c : α → Option K) (items : List α) (r : α) : Prop :=
  r ∈ items ∧ ∃ k, c r = some k ∧ ∀ x ∈ items, ∀ k', c x = some k' → k ≤ k'

/-- what a query result must satisfy with respect to the brute-force set of items -/
def Spec (c : α → Option K) (items : List α) : Option α → Prop
  | none => ∀ x ∈ items, c x = none
  | some r => IsOpt c items r

/-- `b` is a lower bound of every candidate cost in `xs` (`none` = there are no candidates) -/
def LB (c : α → Option K) (b : Option K) (xs : List α) : Prop :=
  ∀ x ∈ xs, ∀ k, c x = some k → ∃ d, b = some d ∧ d ≤ k

/-- every node's two bounds are admissible for the items below the respective child -/
def Adm (c : α → Option K) : BT α K → Prop
  | .leaf _ => True
  | .node b1 t1 b2 t2 => LB c b1 t1.items ∧ LB c b2 t2.items ∧ Adm c t1 ∧ Adm c t2

theorem olt_some_some (a b : K) : olt (some a) (some b) = true ↔ a < b := by simp [olt]
theorem olt_none (b : Option K) : olt (none : Option K) b = false := by cases b <;> rfl

/-- cost of a result satisfying `Spec`: `some` for `some`, `none` for `none` -/
theorem spec_cost {c : α → Option K} {items : List α} {r : Option α} (h : Spec c items r) :
    (r = none ∧ r.bind c = none) ∨ (∃ x k, r = some x ∧ r.bind c = some k ∧ c x = some k) := by
  cases r with
  | none => left; exact ⟨rfl, rfl⟩
  | some x => obtain ⟨_, k, hk, _⟩ := h; right; exact ⟨x, k, rfl, by simpa using hk, hk⟩

/-- merging the results of two disjoint item sets with `pick` -/
theorem spec_pick {c : α → Option K} {xs ys : List α} {r1 r2 : Option α}
    (h1 : Spec c xs r1) (h2 : Spec c ys r2) : Spec c (xs ++ ys) (pick c r1 r2) := by
  unfold pick
  cases r1 with
  | none =>
    simp only [Option.bind_none, olt_none]
    cases r2 with
    | none => intro x hx; rcases List.mem_append.mp hx with h | h; exact h1 x h; exact h2 x h
    | some b =>
      obtain ⟨hb, k, hk, hmin⟩ := h2
      refine ⟨List.mem_append_right _ hb, k, hk, ?_⟩
      intro x hx k' hk'
      rcases List.mem_append.mp hx with h | h
      · rw [h1 x h] at hk'; exact absurd hk' (by simp)
      · exact hmin x h k' hk'
  | some a =>
    obtain ⟨ha, ka, hka, hmina⟩ := h1
    cases r2 with
    | none =>
      simp only [Option.bind_some, hka, Option.bind_none, olt, if_true]
      refine ⟨List.mem_append_left _ ha, ka, hka, ?_⟩
      intro x hx k' hk'
      rcases List.mem_append.mp hx with h | h
      · exact hmina x h k' hk'
      · rw [h2 x h] at hk'; exact absurd hk' (by simp)
    | some b =>
      obtain ⟨hb, kb, hkb, hminb⟩ := h2
      simp only [Option.bind_some, hka, hkb, olt]
      by_cases hlt : ka < kb
      · simp only [hlt, decide_true, if_true]
        refine ⟨List.mem_append_left _ ha, ka, hka, ?_⟩
        intro x hx k' hk'
        rcases List.mem_append.mp hx with h | h
        · exact hmina x h k' hk'
        · exact le_trans (le_of_lt hlt) (hminb x h k' hk')
      · simp only [hlt, decide_false, Bool.false_eq_true, if_false]
        refine ⟨List.mem_append_right _ hb, kb, hkb, ?_⟩
        intro x hx k' hk'
        rcases List.mem_append.mp hx with h | h
        · exact le_trans (not_lt.mp hlt) (hmina x h k' hk')
        · exact hminb x h k' hk'

/-- a subtree that is skipped because its bound is not below the cost already found cannot improve the result -/
theorem spec_skip {c : α → Option K} {xs ys : List α} {r1 : Option α} {b : Option K}
    (h1 : Spec c xs r1) (hlb : LB c b ys) (hskip : olt b (r1.bind c) = false) :
    Spec c (xs ++ ys) (pick c r1 none) := by
  have hnone : Spec c ys none ∨ True := Or.inr trivial
  unfold pick
  cases r1 with
  | none =>
    simp only [Option.bind_none, olt_none]
    intro x hx
    rcases List.mem_append.mp hx with h | h
    · exact h1 x h
    · -- no candidate below a `none` bound; a `some` bound would have been below +∞
      cases hc : c x with
      | none => rfl
      | some k =>
        obtain ⟨d, hd, _⟩ := hlb x h k hc
        rw [hd] at hskip; simp [olt] at hskip
  | some a =>
    obtain ⟨ha, ka, hka, hmina⟩ := h1
    simp only [Option.bind_some, hka, Option.bind_none, olt, if_true]
    refine ⟨List.mem_append_left _ ha, ka, hka, ?_⟩
    intro x hx k' hk'
    rcases List.mem_append.mp hx with h | h
    · exact hmina x h k' hk'
    · obtain ⟨d, hd, hdk⟩ := hlb x h k' hk'
      rw [hd] at hskip
      simp only [Option.bind_some, hka, olt, decide_eq_false_iff_not, not_lt] at hskip
      exact le_trans hskip hdk

/-- the leaf loop returns a brute-force optimum of its items -/
theorem bestOf_spec (c : α → Option K) (items : List α) : Spec c items (bestOf c items) := by
  unfold bestOf
  suffices h : ∀ (ys pre : List α) (acc : Option α), Spec c pre acc →
      Spec c (pre ++ ys) (ys.foldl (fun acc x => if olt (c x) (acc.bind c) then some x else acc) acc) by
    simpa using h items [] none (by intro x hx; simp at hx)
  intro ys
  induction ys with
  | nil => intro pre acc h; simpa using h
  | cons y ys ih =>
    intro pre acc h
    have hstep : Spec c (pre ++ [y]) (if olt (c y) (acc.bind c) then some y else acc) := by
      have hy : Spec c [y] (if (c y).isSome then some y else none) := by
        cases hc : c y with
        | none => simp only [Option.isSome_none, Bool.false_eq_true, if_false]; intro x hx; simp at hx; rw [hx]; exact hc
        | some k =>
          simp only [Option.isSome_some, if_true]
          exact ⟨by simp, k, hc, by intro x hx k' hk'; simp at hx; rw [hx, hc] at hk'; simp at hk'; exact le_of_eq hk'⟩
      -- the loop step is `pick` with the roles reversed (new item first, strict improvement only)
      have hp := spec_pick hy h
      have hperm : Spec c ([y] ++ pre) (pick c (if (c y).isSome then some y else none) acc) →
          Spec c (pre ++ [y]) (if olt (c y) (acc.bind c) then some y else acc) := by
        intro hs
        have e : pick c (if (c y).isSome then some y else none) acc = (if olt (c y) (acc.bind c) then some y else acc) := by
          unfold pick
          cases hc : c y with
          | none => simp [olt_none]
          | some k => simp [hc]
        rw [e] at hs
        cases hres : (if olt (c y) (acc.bind c) then some y else acc) with
        | none => rw [hres] at hs; intro x hx; exact hs x (by simp at hx ⊢; tauto)
        | some r =>
          rw [hres] at hs
          obtain ⟨hm, k, hk, hmin⟩ := hs
          exact ⟨by simp at hm ⊢; tauto, k, hk, fun x hx => hmin x (by simp at hx ⊢; tauto)⟩
      exact hperm hp
    have := ih (pre ++ [y]) _ hstep
    simpa [List.append_assoc] using this

/-- **branch and bound = brute force**: with admissible bounds the descent returns an item of minimal cost among all
items of the tree (and `none` exactly when no item is a candidate) -/
theorem bnb_eq_bruteforce (c : α → Option K) (t : BT α K) (hadm : Adm c t) : Spec c t.items (search c t) := by
  induction t with
  | leaf xs => exact bestOf_spec c xs
  | node b1 t1 b2 t2 ih1 ih2 =>
    obtain ⟨hl1, hl2, ha1, ha2⟩ := hadm
    have s1 := ih1 ha1
    have s2 := ih2 ha2
    simp only [search, BT.items]
    split_ifs with hb hv2 hv1 hv1' hv1''
    · exact spec_pick s1 s2
    · exact spec_skip s1 hl2 (by simpa using hv2)
    · -- child 2 first, then child 1
      exact spec_pick s1 s2
    · -- child 1 skipped: symmetric to `spec_skip`
      have := spec_skip (xs := t2.items) (ys := t1.items) s2 hl1 (by simpa using hv1')
      have hcomm : ∀ r, Spec c (t2.items ++ t1.items) r → Spec c (t1.items ++ t2.items) r := by
        intro r hr
        cases r with
        | none => intro x hx; exact hr x (by simp at hx ⊢; tauto)
        | some a => obtain ⟨hm, k, hk, hmin⟩ := hr
                    exact ⟨by simp at hm ⊢; tauto, k, hk, fun x hx => hmin x (by simp at hx ⊢; tauto)⟩
      apply hcomm
      -- pick none r2 = r2 = pick r2 none under Spec
      have e : pick c none (search c t2) = pick c (search c t2) none := by
        unfold pick
        rcases spec_cost s2 with ⟨hn, _⟩ | ⟨x, k, hx, hk, _⟩
        · rw [hn]
        · rw [hx] at hk ⊢; simp only [Option.bind_none, Bool.false_eq_true, if_false, hk, olt, if_true]
      rw [e]; exact this
    · -- b2 = none: nothing below child 2
      have hb2 : b2 = none := by cases b2 <;> simp_all
      have hno2 : Spec c t2.items none := by
        intro x hx
        cases hc : c x with
        | none => rfl
        | some k => obtain ⟨d, hd, _⟩ := hl2 x hx k hc; rw [hb2] at hd; simp at hd
      exact spec_pick s1 hno2
    · -- both skipped: b2 = none and b1 not below +∞, i.e. b1 = none
      have hb2 : b2 = none := by cases b2 <;> simp_all
      have hb1 : b1 = none := by
        cases b1 with
        | none => rfl
        | some d => simp [olt] at hv1''
      have hno1 : Spec c t1.items none := by
        intro x hx
        cases hc : c x with
        | none => rfl
        | some k => obtain ⟨d, hd, _⟩ := hl1 x hx k hc; rw [hb1] at hd; simp at hd
      have hno2 : Spec c t2.items none := by
        intro x hx
        cases hc : c x with
        | none => rfl
        | some k => obtain ⟨d, hd, _⟩ := hl2 x hx k hc; rw [hb2] at hd; simp at hd
      exact spec_pick hno1 hno2

/-- consequently the cost found by the descent equals the brute-force minimum -/
theorem bnb_cost_eq_bruteforce (c : α → Option K) (t : BT α K) (hadm : Adm c t) :
    (search c t).bind c = (bruteForce c t).bind c := by
  have h1 := bnb_eq_bruteforce c t hadm
  have h2 : Spec c t.items (bruteForce c t) := bestOf_spec c t.items
  rcases spec_cost h1 with ⟨hn1, hc1⟩ | ⟨x1, k1, hx1, hc1, hk1⟩ <;>
  rcases spec_cost h2 with ⟨hn2, hc2⟩ | ⟨x2, k2, hx2, hc2, hk2⟩
  · rw [hc1, hc2]
  · rw [hn1] at h1; rw [hx2] at h2
    have := h1 x2 h2.1; rw [hk2] at this; simp at this
  · rw [hn2] at h2; rw [hx1] at h1
    have := h2 x1 h1.1; rw [hk1] at this; simp at this
  · rw [hx1] at h1; rw [hx2] at h2
    obtain ⟨m1, k1', hk1', hmin1⟩ := h1
    obtain ⟨m2, k2', hk2', hmin2⟩ := h2
    rw [hk1] at hk1'; rw [hk2] at hk2'
    simp only [Option.some.injEq] at hk1' hk2'
    subst hk1'; subst hk2'
    rw [hc1, hc2]
    exact congrArg some (le_antisymm (hmin1 x2 m2 k2 hk2) (hmin2 x1 m1 k1 hk1))
end bnb


/-! ## oriented bounding boxes -/
section obb
variable {K : Type} [Field K] [LinearOrder K] [IsStrictOrderedRing K]

omit [IsStrictOrderedRing K] in
theorem within_iff (s c : K) : within s c = true ↔ 0 ≤ c ∧ c ≤ s := by
  simp [within]

theorem clampTo_spec (s c : K) (hs : 0 ≤ s) :
    (0 ≤ clampTo s c ∧ clampTo s c ≤ s) ∧ ∀ y, 0 ≤ y → y ≤ s → (clampTo s c - c) * (clampTo s c - c) ≤ (y - c) * (y - c) := by
  unfold clampTo
  simp only []
  split_ifs with h1 h2 h3
  · exact ⟨⟨hs, le_refl _⟩, fun y hy hys => by nlinarith⟩
  · exact ⟨⟨le_refl _, hs⟩, fun y hy hys => by nlinarith⟩
  · exact ⟨⟨hs, le_refl _⟩, fun y hy hys => by nlinarith⟩
  · exact ⟨⟨not_lt.mp h1, not_lt.mp h3⟩, fun y _ _ => by nlinarith [mul_self_nonneg (y - c)]⟩

omit [LinearOrder K] [IsStrictOrderedRing K] in
theorem inv_app {X : Xf K} (hR : IsRot X.R) (v : V3 K) : Xf.inv X (Xf.app X v) = v := by
  have e : V3.sub (Xf.app X v) X.p = M3.mulVec X.R v := by
    simp only [Xf.app, V3.sub, V3.add]; apply V3.ext' <;> (simp only; ring)
  simp only [Xf.inv, e, tmul_mul hR]

omit [LinearOrder K] [IsStrictOrderedRing K] in
/-- the box frame is an isometry: distances can be measured in box coordinates -/
theorem normSq_inv_sub {X : Xf K} (hR : IsRot X.R) (a b : V3 K) :
    V3.normSq (V3.sub (Xf.inv X a) (Xf.inv X b)) = V3.normSq (V3.sub a b) := by
  have e : V3.sub (Xf.inv X a) (Xf.inv X b) = M3.tmulVec X.R (V3.sub a b) := by
    simp only [Xf.inv, M3.tmulVec, M3.mulVec, M3.transpose, M3.col0, M3.col1, M3.col2, V3.sub, V3.dot]
    apply V3.ext' <;> (simp only; ring)
  rw [e, normSq_tmulVec hR]

/-- `findNearestPoint` returns a point of the box -/
theorem obb_nearest_contained (b : Obb K) (hR : IsRot b.X.R) (hs : 0 ≤ b.size.x ∧ 0 ≤ b.size.y ∧ 0 ≤ b.size.z) (p : V3 K) :
    b.contains (b.nearest p) = true := by
  simp only [Obb.contains, Obb.nearest, inv_app hR, Bool.and_eq_true, within_iff]
  exact ⟨⟨(clampTo_spec _ _ hs.1).1, (clampTo_spec _ _ hs.2.1).1⟩, (clampTo_spec _ _ hs.2.2).1⟩

/-- **admissible bound**: the squared distance from the query to a node's box never exceeds the squared distance to
any point the box contains — in particular to any point of a triangle stored below that node -/
theorem obb_bound_admissible (b : Obb K) (hR : IsRot b.X.R) (hs : 0 ≤ b.size.x ∧ 0 ≤ b.size.y ∧ 0 ≤ b.size.z)
    (p q : V3 K) (hq : b.contains q = true) : b.dist2 p ≤ V3.normSq (V3.sub q p) := by
  simp only [Obb.contains, Bool.and_eq_true, within_iff] at hq
  obtain ⟨⟨⟨qx0, qx1⟩, ⟨qy0, qy1⟩⟩, ⟨qz0, qz1⟩⟩ := hq
  rw [Obb.dist2, ← normSq_inv_sub hR (b.nearest p) p, ← normSq_inv_sub hR q p]
  simp only [Obb.nearest, inv_app hR]
  have cx := (clampTo_spec b.size.x (Xf.inv b.X p).x hs.1).2 _ qx0 qx1
  have cy := (clampTo_spec b.size.y (Xf.inv b.X p).y hs.2.1).2 _ qy0 qy1
  have cz := (clampTo_spec b.size.z (Xf.inv b.X p).z hs.2.2).2 _ qz0 qz1
  simp only [V3.normSq, V3.dot, V3.sub]
  linarith

/-- **a box containing the vertices contains the triangle**: every convex combination `u v1 + s v2 + t v3`
(`u+s+t = 1`, all non-negative) of contained points is contained -/
theorem box_contains_hull (b : Obb K) (v1 v2 v3 : V3 K) (u s t : K) (hu : 0 ≤ u) (hs : 0 ≤ s) (ht : 0 ≤ t)
    (hsum : u + s + t = 1) (h1 : b.contains v1 = true) (h2 : b.contains v2 = true) (h3 : b.contains v3 = true) :
    b.contains (V3.add (V3.smul u v1) (V3.add (V3.smul s v2) (V3.smul t v3))) = true := by
  simp only [Obb.contains, Bool.and_eq_true, within_iff] at h1 h2 h3 ⊢
  have e : Xf.inv b.X (V3.add (V3.smul u v1) (V3.add (V3.smul s v2) (V3.smul t v3)))
      = V3.add (V3.smul u (Xf.inv b.X v1)) (V3.add (V3.smul s (Xf.inv b.X v2)) (V3.smul t (Xf.inv b.X v3))) := by
    simp only [Xf.inv, M3.tmulVec, M3.mulVec, M3.transpose, M3.col0, M3.col1, M3.col2, V3.sub, V3.dot, V3.add, V3.smul]
    apply V3.ext'
    · simp only; linear_combination (b.X.R.r0.x * b.X.p.x + b.X.R.r1.x * b.X.p.y + b.X.R.r2.x * b.X.p.z) * hsum
    · simp only; linear_combination (b.X.R.r0.y * b.X.p.x + b.X.R.r1.y * b.X.p.y + b.X.R.r2.y * b.X.p.z) * hsum
    · simp only; linear_combination (b.X.R.r0.z * b.X.p.x + b.X.R.r1.z * b.X.p.y + b.X.R.r2.z * b.X.p.z) * hsum
  rw [e]
  obtain ⟨⟨⟨a0, a1⟩, ⟨a2, a3⟩⟩, ⟨a4, a5⟩⟩ := h1
  obtain ⟨⟨⟨b0, b1⟩, ⟨b2, b3⟩⟩, ⟨b4, b5⟩⟩ := h2
  obtain ⟨⟨⟨c0, c1⟩, ⟨c2, c3⟩⟩, ⟨c4, c5⟩⟩ := h3
  simp only [V3.add, V3.smul]
  have key : ∀ (x1 x2 x3 S : K), 0 ≤ x1 → x1 ≤ S → 0 ≤ x2 → x2 ≤ S → 0 ≤ x3 → x3 ≤ S →
      0 ≤ u * x1 + (s * x2 + t * x3) ∧ u * x1 + (s * x2 + t * x3) ≤ S := by
    intro x1 x2 x3 S p1 q1 p2 q2 p3 q3
    constructor
    · positivity
    · have : u * x1 + (s * x2 + t * x3) ≤ u * S + (s * S + t * S) := by
        have := mul_le_mul_of_nonneg_left q1 hu
        have := mul_le_mul_of_nonneg_left q2 hs
        have := mul_le_mul_of_nonneg_left q3 ht
        linarith
      have e2 : u * S + (s * S + t * S) = S := by linear_combination S * hsum
      linarith
  exact ⟨⟨key _ _ _ _ a0 a1 b0 b1 c0 c1, key _ _ _ _ a2 a3 b2 b3 c2 c3⟩, key _ _ _ _ a4 a5 b4 b5 c4 c5⟩
end obb


/-! ## the nearest-point query of a mesh over its real OBB tree = brute force over all faces -/
section meshq
variable {K : Type} [Field K] [LinearOrder K] [IsStrictOrderedRing K]

/-- the parameters `(s,t)` returned by `findNearestPointToFace` are barycentric coordinates of a point of the triangle
(`det = |e0|²|e1|² − (e0·e1)² > 0`: the triangle is not degenerate) -/
theorem triNearest_params (v1 v2 v3 p : V3 K)
    (hdet : 0 < V3.normSq (V3.sub v2 v1) * V3.normSq (V3.sub v3 v1) - V3.dot (V3.sub v2 v1) (V3.sub v3 v1) * V3.dot (V3.sub v2 v1) (V3.sub v3 v1)) :
    0 ≤ (triNearest v1 v2 v3 p).2.1 ∧ 0 ≤ (triNearest v1 v2 v3 p).2.2 ∧
    (triNearest v1 v2 v3 p).2.1 + (triNearest v1 v2 v3 p).2.2 ≤ 1 := by
  have ha0 := normSq_nonneg (V3.sub v2 v1)
  have hc0 := normSq_nonneg (V3.sub v3 v1)
  unfold triNearest
  simp only []
  generalize V3.normSq (V3.sub v2 v1) = a at *
  generalize V3.normSq (V3.sub v3 v1) = c at *
  generalize V3.dot (V3.sub v2 v1) (V3.sub v3 v1) = b at *
  generalize V3.dot (V3.sub v2 v1) (V3.sub v1 p) = d
  generalize V3.dot (V3.sub v3 v1) (V3.sub v1 p) = e
  have ha : 0 < a := by
    rcases lt_or_eq_of_le ha0 with h | h
    · exact h
    · exfalso; rw [← h] at hdet; nlinarith [mul_self_nonneg b]
  have hc : 0 < c := by
    rcases lt_or_eq_of_le hc0 with h | h
    · exact h
    · exfalso; rw [← h] at hdet; nlinarith [mul_self_nonneg b]
  have hden : 0 < a - 2 * b + c := by nlinarith [mul_self_nonneg (a - b), mul_self_nonneg (c - b), mul_self_nonneg (a - c)]
  split_ifs <;> simp only [not_decide_lt, not_le, not_lt, Bool.not_eq_true', decide_eq_false_iff_not] at * <;>
    refine ⟨?_, ?_, ?_⟩ <;>
    first
      | (exact le_refl _)
      | (exact zero_le_one)
      | (simp; done)
      | (apply div_nonneg <;> linarith)
      | (rw [div_le_one (by linarith)]; linarith)
      | (rw [sub_nonneg, div_le_one (by linarith)]; linarith)
      | (rw [add_zero, div_le_one (by linarith)]; linarith)
      | (rw [zero_add, div_le_one (by linarith)]; linarith)
      | (exact mul_nonneg (by linarith) (div_nonneg zero_le_one hdet.le))
      | (rw [← add_mul, mul_one_div, div_le_one hdet]; linarith)
      | linarith

omit [IsStrictOrderedRing K] in
/-- the returned point is the convex combination `(1−s−t) v1 + s v2 + t v3` -/
theorem triNearest_point (v1 v2 v3 p : V3 K) :
    (triNearest v1 v2 v3 p).1 = V3.add (V3.smul (1 - (triNearest v1 v2 v3 p).2.1 - (triNearest v1 v2 v3 p).2.2) v1)
      (V3.add (V3.smul (triNearest v1 v2 v3 p).2.1 v2) (V3.smul (triNearest v1 v2 v3 p).2.2 v3)) := by
  have h : ∀ (s t : K), V3.add v1 (V3.add (V3.smul s (V3.sub v2 v1)) (V3.smul t (V3.sub v3 v1)))
      = V3.add (V3.smul (1 - s - t) v1) (V3.add (V3.smul s v2) (V3.smul t v3)) := by
    intro s t; simp only [V3.add, V3.smul, V3.sub]; apply V3.ext' <;> (simp only; ring)
  exact h _ _

/-- the non-degeneracy condition of a face: `|e0|²|e1|² − (e0·e1)² > 0` -/
def NonDeg (T : V3 K × V3 K × V3 K) : Prop :=
  0 < V3.normSq (V3.sub T.2.1 T.1) * V3.normSq (V3.sub T.2.2 T.1)
      - V3.dot (V3.sub T.2.1 T.1) (V3.sub T.2.2 T.1) * V3.dot (V3.sub T.2.1 T.1) (V3.sub T.2.2 T.1)

/-- a box that contains the three vertices contains the point `findNearestPointToFace` returns (mem_hull + convexity) -/
theorem triNearest_in_box (b : Obb K) (T : V3 K × V3 K × V3 K) (p : V3 K) (hT : NonDeg T)
    (h1 : b.contains T.1 = true) (h2 : b.contains T.2.1 = true) (h3 : b.contains T.2.2 = true) :
    b.contains (triNearest T.1 T.2.1 T.2.2 p).1 = true := by
  obtain ⟨hs, ht, hst⟩ := triNearest_params T.1 T.2.1 T.2.2 p hT
  rw [triNearest_point]
  exact box_contains_hull b _ _ _ _ _ _ (by linarith) hs ht (by ring) h1 h2 h3

/-- what is checked on the real exported tree on every run (`node_contains_triangles`): every node's box is a proper box
(rotation frame, non-negative extents) and contains the three vertices of every face stored below it -/
def XT.Valid (tri : Nat → V3 K × V3 K × V3 K) : XT K → Prop
  | .leaf b fs => (IsRot b.X.R ∧ 0 ≤ b.size.x ∧ 0 ≤ b.size.y ∧ 0 ≤ b.size.z) ∧
      ∀ f ∈ fs, b.contains (tri f).1 = true ∧ b.contains (tri f).2.1 = true ∧ b.contains (tri f).2.2 = true
  | .node b c1 c2 => (IsRot b.X.R ∧ 0 ≤ b.size.x ∧ 0 ≤ b.size.y ∧ 0 ≤ b.size.z) ∧
      (∀ f ∈ c1.faces ++ c2.faces, b.contains (tri f).1 = true ∧ b.contains (tri f).2.1 = true ∧ b.contains (tri f).2.2 = true) ∧
      XT.Valid tri c1 ∧ XT.Valid tri c2

omit [LinearOrder K] [IsStrictOrderedRing K] in
theorem XT.items_toBT (bound : Obb K → Option K) (t : XT K) : (t.toBT bound).items = t.faces := by
  induction t with
  | leaf b fs => rfl
  | node b c1 c2 ih1 ih2 => simp only [XT.toBT, BT.items, XT.faces, ih1, ih2]

theorem XT.valid_top (tri : Nat → V3 K × V3 K × V3 K) (t : XT K) (h : XT.Valid tri t) :
    (IsRot t.box.X.R ∧ 0 ≤ t.box.size.x ∧ 0 ≤ t.box.size.y ∧ 0 ≤ t.box.size.z) ∧
    ∀ f ∈ t.faces, t.box.contains (tri f).1 = true ∧ t.box.contains (tri f).2.1 = true ∧ t.box.contains (tri f).2.2 = true := by
  cases t with
  | leaf b fs => exact h
  | node b c1 c2 => exact ⟨h.1, h.2.1⟩

/-- the distance to a valid node's box is an admissible bound for the cost of every face below it -/
theorem XT.box_bound_admissible (tri : Nat → V3 K × V3 K × V3 K) (p : V3 K) (t : XT K) (h : XT.Valid tri t)
    (hnd : ∀ f ∈ t.faces, NonDeg (tri f)) :
    LB (fun f => some (triDist2 (tri f).1 (tri f).2.1 (tri f).2.2 p)) (some (t.box.dist2 p)) t.faces := by
  obtain ⟨⟨hR, hx, hy, hz⟩, hc⟩ := XT.valid_top tri t h
  intro f hf k hk
  simp only [Option.some.injEq] at hk
  refine ⟨_, rfl, ?_⟩
  rw [← hk, triDist2]
  obtain ⟨c1, c2, c3⟩ := hc f hf
  exact obb_bound_admissible t.box hR ⟨hx, hy, hz⟩ p _ (triNearest_in_box t.box (tri f) p (hnd f hf) c1 c2 c3)

theorem XT.adm (tri : Nat → V3 K × V3 K × V3 K) (p : V3 K) (t : XT K) (h : XT.Valid tri t)
    (hnd : ∀ f ∈ t.faces, NonDeg (tri f)) :
    Adm (fun f => some (triDist2 (tri f).1 (tri f).2.1 (tri f).2.2 p)) (t.toBT (fun b => some (b.dist2 p))) := by
  induction t with
  | leaf b fs => trivial
  | node b c1 c2 ih1 ih2 =>
    obtain ⟨_, _, v1, v2⟩ := h
    have n1 : ∀ f ∈ c1.faces, NonDeg (tri f) := fun f hf => hnd f (by simp [XT.faces, hf])
    have n2 : ∀ f ∈ c2.faces, NonDeg (tri f) := fun f hf => hnd f (by simp [XT.faces, hf])
    refine ⟨?_, ?_, ih1 v1 n1, ih2 v2 n2⟩
    · rw [XT.items_toBT]; exact XT.box_bound_admissible tri p c1 v1 n1
    · rw [XT.items_toBT]; exact XT.box_bound_admissible tri p c2 v2 n2

/-- **mesh nearest point = brute force** for the executed query `meshNearest` over the exported real tree: if every node box
contains the vertices of the faces below it (checked per run) and no face is degenerate (the mesh constructor rejects
those), the face found by the OBB-tree descent minimises `triDist2` over *all* faces of the mesh.
(That `triDist2` itself is the true point–triangle distance is NOT proved: implementation-side predicate only.) -/
theorem mesh_nearest_eq_bruteforce (tri : Nat → V3 K × V3 K × V3 K) (tree : XT K) (p : V3 K)
    (hv : XT.Valid tri tree) (hnd : ∀ f ∈ tree.faces, NonDeg (tri f)) :
    Spec (fun f => some (triDist2 (tri f).1 (tri f).2.1 (tri f).2.2 p)) tree.faces (meshNearest tri tree p) := by
  have h := bnb_eq_bruteforce _ _ (XT.adm tri p tree hv hnd)
  rw [XT.items_toBT] at h
  exact h
end meshq

/-! ## `findNearestPointToFace` returns the closest point of the face (KKT + convexity, all seven regions) -/
section tmin
variable {K : Type} [Field K] [LinearOrder K] [IsStrictOrderedRing K]

/-- the `(s,t)` part of `triNearest` as a function of the five scalars -/
def stOf (a b c d e : K) : K × K :=
  let det := a * c - b * b
  let s := b * e - c * d
  let t := b * d - a * e
  let le (x y : K) : Bool := !decide (y < x)
  let ge (x y : K) : Bool := !decide (x < y)
  let edgeT : K := if ge e 0 then 0 else (if ge (-e) c then 1 else -e / c)
  let edgeS : K := if ge d 0 then 0 else (if ge (-d) a then 1 else -d / a)
  if le (s + t) det then
    if s < 0 then
      if t < 0 then
        if d < 0 then ((if ge (-d) a then 1 else -d / a), 0) else (0, edgeT)
      else (0, edgeT)
    else if t < 0 then (edgeS, 0)
    else (s * (1 / det), t * (1 / det))
  else
    if s < 0 then
      let temp0 := b + d
      let temp1 := c + e
      if temp0 < temp1 then
        let numer := temp1 - temp0
        let denom := a - 2 * b + c
        let s' := if ge numer denom then 1 else numer / denom
        (s', 1 - s')
      else (0, if le temp1 0 then 1 else (if ge e 0 then 0 else -e / c))
    else if t < 0 then
      let temp0 := b + e
      let temp1 := a + d
      if temp0 < temp1 then
        let numer := temp1 - temp0
        let denom := a - 2 * b + c
        let t' := if ge numer denom then 1 else numer / denom
        (1 - t', t')
      else ((if le temp1 0 then 1 else (if ge d 0 then 0 else -d / a)), 0)
    else
      let numer := c + e - b - d
      let s' := if le numer 0 then 0 else
        (let denom := a - 2 * b + c; if ge numer denom then 1 else numer / denom)
      (s', 1 - s')

theorem triNearest_st (v1 v2 v3 p : V3 K) :
    ((triNearest v1 v2 v3 p).2.1, (triNearest v1 v2 v3 p).2.2) =
      stOf (V3.normSq (V3.sub v2 v1)) (V3.dot (V3.sub v2 v1) (V3.sub v3 v1)) (V3.normSq (V3.sub v3 v1))
        (V3.dot (V3.sub v2 v1) (V3.sub v1 p)) (V3.dot (V3.sub v3 v1) (V3.sub v1 p)) := rfl

/-- KKT conditions of `min Q` over the triangle `s,t ≥ 0, s+t ≤ 1` at `(s,t)`, tested at the three vertices -/
def KKT (a b c d e s t : K) : Prop :=
  0 ≤ -((a * s + b * t + d) * s) - (b * s + c * t + e) * t ∧
  0 ≤ (a * s + b * t + d) * (1 - s) - (b * s + c * t + e) * t ∧
  0 ≤ -((a * s + b * t + d) * s) + (b * s + c * t + e) * (1 - t)

theorem kkt_V0 (a b c d e : K) (hd : 0 ≤ d) (he : 0 ≤ e) : KKT a b c d e 0 0 := by
  refine ⟨?_, ?_, ?_⟩ <;> nlinarith
theorem kkt_V1 (a b c d e : K) (h1 : a + d ≤ 0) (h2 : a + d ≤ b + e) : KKT a b c d e 1 0 := by
  refine ⟨?_, ?_, ?_⟩ <;> nlinarith
theorem kkt_V2 (a b c d e : K) (h1 : c + e ≤ 0) (h2 : c + e ≤ b + d) : KKT a b c d e 0 1 := by
  refine ⟨?_, ?_, ?_⟩ <;> nlinarith
theorem kkt_Es0 (a b c d e u : K) (hc : 0 < c) (hu : c * u = -e) (hs0 : b * e - c * d ≤ 0) : KKT a b c d e 0 u := by
  have e1 : c * (b * u + d) = -(b * e - c * d) := by linear_combination b * hu
  have g : 0 ≤ b * u + d := by
    by_contra hn; push Not at hn; have := mul_neg_of_pos_of_neg hc hn; linarith
  have h0 : b * 0 + c * u + e = 0 := by linarith
  have h1 : a * 0 + b * u + d = b * u + d := by ring
  refine ⟨?_, ?_, ?_⟩ <;> (rw [h0, h1]; nlinarith)
theorem kkt_Et0 (a b c d e u : K) (ha : 0 < a) (hu : a * u = -d) (ht0 : b * d - a * e ≤ 0) : KKT a b c d e u 0 := by
  have e1 : a * (b * u + e) = -(b * d - a * e) := by linear_combination b * hu
  have g : 0 ≤ b * u + e := by
    by_contra hn; push Not at hn; have := mul_neg_of_pos_of_neg ha hn; linarith
  have h0 : a * u + b * 0 + d = 0 := by linarith
  have h1 : b * u + c * 0 + e = b * u + e := by ring
  refine ⟨?_, ?_, ?_⟩ <;> (rw [h0, h1]; nlinarith)
theorem kkt_Ehyp (a b c d e s t : K) (hden : 0 < a - 2 * b + c) (hst : s + t = 1)
    (hs : (a - 2 * b + c) * s = c + e - b - d) (hcond : a * c - b * b ≤ (b * e - c * d) + (b * d - a * e)) : KKT a b c d e s t := by
  have ht : t = 1 - s := by linarith
  subst ht
  have e1 : (a - 2 * b + c) * (a * s + b * (1 - s) + d) = (a * c - b * b) - ((b * e - c * d) + (b * d - a * e)) := by
    linear_combination (a - b) * hs
  have g : a * s + b * (1 - s) + d ≤ 0 := by
    by_contra hn; push Not at hn; have := mul_pos hden hn; linarith
  have e2 : b * s + c * (1 - s) + e = a * s + b * (1 - s) + d := by linarith
  refine ⟨?_, ?_, ?_⟩ <;> (rw [e2]; nlinarith)
theorem kkt_I (a b c d e i : K) (hi : (a * c - b * b) * i = 1) :
    KKT a b c d e ((b * e - c * d) * i) ((b * d - a * e) * i) := by
  have g1 : a * ((b * e - c * d) * i) + b * ((b * d - a * e) * i) + d = 0 := by linear_combination (-d) * hi
  have g2 : b * ((b * e - c * d) * i) + c * ((b * d - a * e) * i) + e = 0 := by linear_combination (-e) * hi
  refine ⟨?_, ?_, ?_⟩ <;> (rw [g1, g2]; simp)




theorem quad_form_nonneg (a b c x y : K) (ha : 0 < a) (hdet : 0 < a * c - b * b) : 0 ≤ a * x * x + 2 * b * x * y + c * y * y := by
  have h : a * (a * x * x + 2 * b * x * y + c * y * y) = (a * x + b * y) * (a * x + b * y) + (a * c - b * b) * (y * y) := by ring
  have h2 : 0 ≤ a * (a * x * x + 2 * b * x * y + c * y * y) := by
    rw [h]; exact add_nonneg (mul_self_nonneg _) (mul_nonneg hdet.le (mul_self_nonneg y))
  by_contra hn; push Not at hn
  have := mul_neg_of_pos_of_neg ha hn
  linarith

/-- convexity at a point `(sv,tv)`: `∇Q(v)·(m − v) ≤ 0` for the unconstrained minimiser `m = (s0,t0)/det`, written without
division: `gs·(s0 − sv·det) + gt·(t0 − tv·det) ≤ 0` -/
theorem grad_dot (a b c d e sv tv : K) (ha : 0 < a) (hdet : 0 < a * c - b * b) :
    (a * sv + b * tv + d) * ((b * e - c * d) - sv * (a * c - b * b))
      + (b * sv + c * tv + e) * ((b * d - a * e) - tv * (a * c - b * b)) ≤ 0 := by
  have id : (a * c - b * b) * ((a * sv + b * tv + d) * ((b * e - c * d) - sv * (a * c - b * b))
      + (b * sv + c * tv + e) * ((b * d - a * e) - tv * (a * c - b * b)))
      = -(a * ((b * e - c * d) - sv * (a * c - b * b)) * ((b * e - c * d) - sv * (a * c - b * b))
          + 2 * b * ((b * e - c * d) - sv * (a * c - b * b)) * ((b * d - a * e) - tv * (a * c - b * b))
          + c * ((b * d - a * e) - tv * (a * c - b * b)) * ((b * d - a * e) - tv * (a * c - b * b))) := by ring
  have hq := quad_form_nonneg a b c ((b * e - c * d) - sv * (a * c - b * b)) ((b * d - a * e) - tv * (a * c - b * b)) ha hdet
  by_contra hn; push Not at hn
  have := mul_pos hdet hn
  linarith

theorem r3_V0 (a b c d e : K) (ha : 0 < a) (hdet : 0 < a * c - b * b)
    (hs0 : b * e - c * d < 0) (ht0 : 0 ≤ b * d - a * e) (he : 0 ≤ e) : 0 ≤ d := by
  have P := grad_dot a b c d e 0 0 ha hdet
  by_contra hn; push Not at hn
  have h1 := mul_pos_of_neg_of_neg hn hs0
  have h2 := mul_nonneg he ht0
  nlinarith
theorem r5_V0 (a b c d e : K) (ha : 0 < a) (hdet : 0 < a * c - b * b)
    (ht0 : b * d - a * e < 0) (hs0 : 0 ≤ b * e - c * d) (hd : 0 ≤ d) : 0 ≤ e := by
  have P := grad_dot a b c d e 0 0 ha hdet
  by_contra hn; push Not at hn
  have h1 := mul_pos_of_neg_of_neg hn ht0
  have h2 := mul_nonneg hd hs0
  nlinarith
theorem r3_V2 (a b c d e : K) (ha : 0 < a) (hdet : 0 < a * c - b * b)
    (hs0 : b * e - c * d < 0) (hst : b * e - c * d + (b * d - a * e) ≤ a * c - b * b) (h : c + e ≤ 0) : c + e ≤ b + d := by
  have P := grad_dot a b c d e 0 1 ha hdet
  by_contra hn; push Not at hn
  have h1 := mul_pos_of_neg_of_neg hs0 (sub_neg.mpr hn)          -- s0 * ((b+d) - (c+e)) > 0
  have h2 := mul_nonneg (neg_nonneg.mpr h) (sub_nonneg.mpr hst)   -- (-(c+e)) * (det - (s0+t0)) ≥ 0
  nlinarith
theorem r5_V1 (a b c d e : K) (ha : 0 < a) (hdet : 0 < a * c - b * b)
    (ht0 : b * d - a * e < 0) (hst : b * e - c * d + (b * d - a * e) ≤ a * c - b * b) (h : a + d ≤ 0) : a + d ≤ b + e := by
  have P := grad_dot a b c d e 1 0 ha hdet
  by_contra hn; push Not at hn
  have h1 := mul_pos_of_neg_of_neg ht0 (sub_neg.mpr hn)
  have h2 := mul_nonneg (neg_nonneg.mpr h) (sub_nonneg.mpr hst)
  nlinarith
theorem r2_V1 (a b c d e : K) (ha : 0 < a) (hdet : 0 < a * c - b * b)
    (ht0 : 0 ≤ b * d - a * e) (hst : a * c - b * b < b * e - c * d + (b * d - a * e)) (h : a + d ≤ b + e) : a + d ≤ 0 := by
  have P := grad_dot a b c d e 1 0 ha hdet
  by_contra hn; push Not at hn
  have h1 := mul_pos hn (sub_pos.mpr hst)                         -- (a+d) * ((s0+t0) - det) > 0
  have h2 := mul_nonneg (sub_nonneg.mpr h) ht0                    -- ((b+e)-(a+d)) * t0 ≥ 0
  nlinarith
theorem r6_V2 (a b c d e : K) (ha : 0 < a) (hdet : 0 < a * c - b * b)
    (hs0 : 0 ≤ b * e - c * d) (hst : a * c - b * b < b * e - c * d + (b * d - a * e)) (h : c + e ≤ b + d) : c + e ≤ 0 := by
  have P := grad_dot a b c d e 0 1 ha hdet
  by_contra hn; push Not at hn
  have h1 := mul_pos hn (sub_pos.mpr hst)
  have h2 := mul_nonneg (sub_nonneg.mpr h) hs0
  nlinarith

/-- region 4 (both unconstrained parameters negative) with `d < 0`, `-d ≥ a`: the minimiser is the vertex `(1,0)` -/
theorem region4_V1 (a b c d e : K) (ha : 0 < a) (hdet : 0 < a * c - b * b)
    (hs0 : b * e - c * d < 0) (ht0 : b * d - a * e < 0) (hd : d < 0) (h : a ≤ -d) : a + d ≤ b + e := by
  have hb : b ≤ 0 := by
    by_contra hb; push Not at hb
    have h1 := mul_neg_of_pos_of_neg ha hs0
    have h2 := mul_neg_of_pos_of_neg hb ht0
    have h3 := mul_pos (neg_pos.mpr hd) hdet
    nlinarith
  have h4 : 0 ≤ (a + d) * (b - a) := mul_nonneg_of_nonpos_of_nonpos (by linarith) (by linarith)
  by_contra hn; push Not at hn
  have h5 := mul_pos ha (sub_pos.mpr hn)
  nlinarith

/-! the seven regions of the code, as separate pieces of `stOf` -/
def clampT (c e : K) : K := if (!decide (e < 0)) = true then 0 else (if (!decide (-e < c)) = true then 1 else -e / c)
def clampS (a d : K) : K := if (!decide (d < 0)) = true then 0 else (if (!decide (-d < a)) = true then 1 else -d / a)
def st4 (a c d e : K) : K × K := if d < 0 then ((if (!decide (-d < a)) = true then 1 else -d / a), 0) else (0, clampT c e)
def st2 (a b c d e : K) : K × K :=
  if b + d < c + e then
    ((if (!decide (c + e - (b + d) < a - 2 * b + c)) = true then 1 else (c + e - (b + d)) / (a - 2 * b + c)),
     1 - (if (!decide (c + e - (b + d) < a - 2 * b + c)) = true then 1 else (c + e - (b + d)) / (a - 2 * b + c)))
  else (0, if (!decide (0 < c + e)) = true then 1 else (if (!decide (e < 0)) = true then 0 else -e / c))
def st6 (a b c d e : K) : K × K :=
  if b + e < a + d then
    (1 - (if (!decide (a + d - (b + e) < a - 2 * b + c)) = true then 1 else (a + d - (b + e)) / (a - 2 * b + c)),
     (if (!decide (a + d - (b + e) < a - 2 * b + c)) = true then 1 else (a + d - (b + e)) / (a - 2 * b + c)))
  else ((if (!decide (0 < a + d)) = true then 1 else (if (!decide (d < 0)) = true then 0 else -d / a)), 0)
def st1 (a b c d e : K) : K × K :=
  ((if (!decide (0 < c + e - b - d)) = true then 0 else (if (!decide (c + e - b - d < a - 2 * b + c)) = true then 1 else (c + e - b - d) / (a - 2 * b + c))),
   1 - (if (!decide (0 < c + e - b - d)) = true then 0 else (if (!decide (c + e - b - d < a - 2 * b + c)) = true then 1 else (c + e - b - d) / (a - 2 * b + c))))

theorem stOf_regions (a b c d e : K) : stOf a b c d e =
    if (!decide (a * c - b * b < b * e - c * d + (b * d - a * e))) = true then
      (if b * e - c * d < 0 then (if b * d - a * e < 0 then st4 a c d e else (0, clampT c e))
       else if b * d - a * e < 0 then (clampS a d, 0)
       else ((b * e - c * d) * (1 / (a * c - b * b)), (b * d - a * e) * (1 / (a * c - b * b))))
    else (if b * e - c * d < 0 then st2 a b c d e else if b * d - a * e < 0 then st6 a b c d e else st1 a b c d e) := rfl

section regions
variable (a b c d e : K) (ha : 0 < a) (hc : 0 < c) (hdet : 0 < a * c - b * b)
include ha hc hdet

theorem kkt_r4 (hA : b * e - c * d + (b * d - a * e) ≤ a * c - b * b) (hs : b * e - c * d < 0) (ht : b * d - a * e < 0) :
    KKT a b c d e (st4 a c d e).1 (st4 a c d e).2 := by
  unfold st4 clampT
  split_ifs <;> simp only [not_le, not_lt, Bool.not_eq_true', decide_eq_false_iff_not] at * <;>
    first
      | (refine kkt_V0 a b c d e ?_ ?_ <;> first | assumption | linarith)
      | (refine kkt_V1 a b c d e ?_ ?_ <;> first | linarith | (exact r5_V1 a b c d e ha hdet ht hA (by linarith)))
      | (refine kkt_V2 a b c d e ?_ ?_ <;> first | linarith | (exact r3_V2 a b c d e ha hdet hs hA (by linarith)))
      | (refine kkt_Es0 a b c d e _ hc ?_ ?_ <;> first | (field_simp; done) | linarith)
      | (refine kkt_Et0 a b c d e _ ha ?_ ?_ <;> first | (field_simp; done) | linarith)

theorem kkt_r3 (hA : b * e - c * d + (b * d - a * e) ≤ a * c - b * b) (hs : b * e - c * d < 0) (ht : 0 ≤ b * d - a * e) :
    KKT a b c d e 0 (clampT c e) := by
  unfold clampT
  split_ifs <;> simp only [not_le, not_lt, Bool.not_eq_true', decide_eq_false_iff_not] at * <;>
    first
      | (refine kkt_V0 a b c d e ?_ ?_ <;> first | assumption | (exact r3_V0 a b c d e ha hdet hs ht (by assumption)))
      | (refine kkt_V2 a b c d e ?_ ?_ <;> first | linarith | (exact r3_V2 a b c d e ha hdet hs hA (by linarith)))
      | (refine kkt_Es0 a b c d e _ hc ?_ ?_ <;> first | (field_simp; done) | linarith)

theorem kkt_r5 (hA : b * e - c * d + (b * d - a * e) ≤ a * c - b * b) (hs : 0 ≤ b * e - c * d) (ht : b * d - a * e < 0) :
    KKT a b c d e (clampS a d) 0 := by
  unfold clampS
  split_ifs <;> simp only [not_le, not_lt, Bool.not_eq_true', decide_eq_false_iff_not] at * <;>
    first
      | (refine kkt_V0 a b c d e ?_ ?_ <;> first | assumption | (exact r5_V0 a b c d e ha hdet ht hs (by assumption)))
      | (refine kkt_V1 a b c d e ?_ ?_ <;> first | linarith | (exact r5_V1 a b c d e ha hdet ht hA (by linarith)))
      | (refine kkt_Et0 a b c d e _ ha ?_ ?_ <;> first | (field_simp; done) | linarith)

theorem kkt_r2 (hB : a * c - b * b < b * e - c * d + (b * d - a * e)) (hs : b * e - c * d < 0) :
    KKT a b c d e (st2 a b c d e).1 (st2 a b c d e).2 := by
  have hden : 0 < a - 2 * b + c := by nlinarith [mul_self_nonneg (a - b), mul_self_nonneg (c - b), mul_self_nonneg (a - c)]
  have ht : 0 ≤ b * d - a * e := by linarith
  unfold st2
  split_ifs <;> simp only [not_le, not_lt, Bool.not_eq_true', decide_eq_false_iff_not] at * <;>
    first
      | (refine kkt_V0 a b c d e ?_ ?_ <;> first | assumption | (exact r3_V0 a b c d e ha hdet hs ht (by assumption)))
      | (rw [sub_self]; refine kkt_V1 a b c d e ?_ ?_ <;> first | linarith | (exact r2_V1 a b c d e ha hdet ht hB (by linarith)))
      | (refine kkt_V2 a b c d e ?_ ?_ <;> linarith)
      | (refine kkt_Es0 a b c d e _ hc ?_ ?_ <;> first | (field_simp; done) | linarith)
      | (refine kkt_Ehyp a b c d e _ _ hden ?_ ?_ ?_ <;> first | (ring; done) | (field_simp; done) | (field_simp; ring; done) | linarith)

theorem kkt_r6 (hB : a * c - b * b < b * e - c * d + (b * d - a * e)) (hs : 0 ≤ b * e - c * d) (ht : b * d - a * e < 0) :
    KKT a b c d e (st6 a b c d e).1 (st6 a b c d e).2 := by
  have hden : 0 < a - 2 * b + c := by nlinarith [mul_self_nonneg (a - b), mul_self_nonneg (c - b), mul_self_nonneg (a - c)]
  unfold st6
  split_ifs <;> simp only [not_le, not_lt, Bool.not_eq_true', decide_eq_false_iff_not] at * <;>
    first
      | (refine kkt_V0 a b c d e ?_ ?_ <;> first | assumption | (exact r5_V0 a b c d e ha hdet ht hs (by assumption)))
      | (refine kkt_V1 a b c d e ?_ ?_ <;> linarith)
      | (rw [sub_self]; refine kkt_V2 a b c d e ?_ ?_ <;> first | linarith | (exact r6_V2 a b c d e ha hdet hs hB (by linarith)))
      | (refine kkt_Et0 a b c d e _ ha ?_ ?_ <;> first | (field_simp; done) | linarith)
      | (refine kkt_Ehyp a b c d e _ _ hden ?_ ?_ ?_ <;> first | (ring; done) | (field_simp; done) | (field_simp; ring; done) | linarith)

theorem kkt_r1 (hB : a * c - b * b < b * e - c * d + (b * d - a * e)) (hs : 0 ≤ b * e - c * d) (ht : 0 ≤ b * d - a * e) :
    KKT a b c d e (st1 a b c d e).1 (st1 a b c d e).2 := by
  have hden : 0 < a - 2 * b + c := by nlinarith [mul_self_nonneg (a - b), mul_self_nonneg (c - b), mul_self_nonneg (a - c)]
  unfold st1
  split_ifs <;> simp only [not_le, not_lt, Bool.not_eq_true', decide_eq_false_iff_not] at * <;>
    first
      | (rw [sub_self]; refine kkt_V1 a b c d e ?_ ?_ <;> first | linarith | (exact r2_V1 a b c d e ha hdet ht hB (by linarith)))
      | (rw [sub_zero]; refine kkt_V2 a b c d e ?_ ?_ <;> first | linarith | (exact r6_V2 a b c d e ha hdet hs hB (by linarith)))
      | (refine kkt_Ehyp a b c d e _ _ hden ?_ ?_ ?_ <;> first | (ring; done) | (field_simp; done) | (field_simp; ring; done) | linarith)

/-- **KKT for the code's `(s,t)`** in all seven regions -/
theorem stOf_kkt : KKT a b c d e (stOf a b c d e).1 (stOf a b c d e).2 := by
  rw [stOf_regions]
  split_ifs with h1 h2 h3 h4 h5 h6 <;> simp only [not_le, not_lt, Bool.not_eq_true', decide_eq_false_iff_not] at *
  · exact kkt_r4 a b c d e ha hc hdet h1 h2 h3
  · exact kkt_r3 a b c d e ha hc hdet h1 h2 h3
  · exact kkt_r5 a b c d e ha hc hdet h1 h2 h4
  · exact kkt_I a b c d e _ (mul_one_div_cancel (ne_of_gt hdet))
  · exact kkt_r2 a b c d e ha hc hdet h1 h5
  · exact kkt_r6 a b c d e ha hc hdet h1 h5 h6
  · exact kkt_r1 a b c d e ha hc hdet h1 h5 h6
end regions

/-- the squared distance from `p` to `v1 + s e0 + t e1`, up to the constant `|v1 − p|²` -/
def Q (a b c d e s t : K) : K := a * s * s + 2 * b * s * t + c * t * t + 2 * d * s + 2 * e * t

/-- KKT at `(s,t)` + convexity ⇒ `(s,t)` minimises `Q` over the triangle -/
theorem Q_min_of_KKT (a b c d e s t : K) (ha : 0 < a) (hdet : 0 < a * c - b * b) (hk : KKT a b c d e s t)
    (s' t' : K) (h0 : 0 ≤ s') (h1 : 0 ≤ t') (h2 : s' + t' ≤ 1) : Q a b c d e s t ≤ Q a b c d e s' t' := by
  obtain ⟨k0, k1, k2⟩ := hk
  have hG : 0 ≤ (a * s + b * t + d) * (s' - s) + (b * s + c * t + e) * (t' - t) := by
    have e1 : (a * s + b * t + d) * (s' - s) + (b * s + c * t + e) * (t' - t)
        = (1 - s' - t') * (-((a * s + b * t + d) * s) - (b * s + c * t + e) * t)
          + s' * ((a * s + b * t + d) * (1 - s) - (b * s + c * t + e) * t)
          + t' * (-((a * s + b * t + d) * s) + (b * s + c * t + e) * (1 - t)) := by ring
    rw [e1]
    exact add_nonneg (add_nonneg (mul_nonneg (by linarith) k0) (mul_nonneg h0 k1)) (mul_nonneg h1 k2)
  have hq := quad_form_nonneg a b c (s' - s) (t' - t) ha hdet
  have e2 : Q a b c d e s' t' - Q a b c d e s t
      = 2 * ((a * s + b * t + d) * (s' - s) + (b * s + c * t + e) * (t' - t))
        + (a * (s' - s) * (s' - s) + 2 * b * (s' - s) * (t' - t) + c * (t' - t) * (t' - t)) := by unfold Q; ring
  linarith

omit [LinearOrder K] [IsStrictOrderedRing K] in
theorem normSq_tri (v1 v2 v3 p : V3 K) (s t : K) :
    V3.normSq (V3.sub (V3.add v1 (V3.add (V3.smul s (V3.sub v2 v1)) (V3.smul t (V3.sub v3 v1)))) p)
      = Q (V3.normSq (V3.sub v2 v1)) (V3.dot (V3.sub v2 v1) (V3.sub v3 v1)) (V3.normSq (V3.sub v3 v1))
          (V3.dot (V3.sub v2 v1) (V3.sub v1 p)) (V3.dot (V3.sub v3 v1) (V3.sub v1 p)) s t + V3.normSq (V3.sub v1 p) := by
  simp only [Q, V3.normSq, V3.dot, V3.sub, V3.add, V3.smul]
  ring

/-- **`findNearestPointToFace` returns the closest point of the triangle** (non-degenerate face): no point
`v1 + s' e0 + t' e1` with `s', t' ≥ 0`, `s' + t' ≤ 1` is nearer to `p` than the returned one -/
theorem triNearest_minimal (v1 v2 v3 p : V3 K)
    (hdet : 0 < V3.normSq (V3.sub v2 v1) * V3.normSq (V3.sub v3 v1) - V3.dot (V3.sub v2 v1) (V3.sub v3 v1) * V3.dot (V3.sub v2 v1) (V3.sub v3 v1))
    (s' t' : K) (h0 : 0 ≤ s') (h1 : 0 ≤ t') (h2 : s' + t' ≤ 1) :
    triDist2 v1 v2 v3 p ≤ V3.normSq (V3.sub (V3.add v1 (V3.add (V3.smul s' (V3.sub v2 v1)) (V3.smul t' (V3.sub v3 v1)))) p) := by
  have ha0 := normSq_nonneg (V3.sub v2 v1)
  have hc0 := normSq_nonneg (V3.sub v3 v1)
  have ha : 0 < V3.normSq (V3.sub v2 v1) := by
    rcases lt_or_eq_of_le ha0 with h | h
    · exact h
    · exfalso; rw [← h] at hdet; nlinarith [mul_self_nonneg (V3.dot (V3.sub v2 v1) (V3.sub v3 v1))]
  have hc : 0 < V3.normSq (V3.sub v3 v1) := by
    rcases lt_or_eq_of_le hc0 with h | h
    · exact h
    · exfalso; rw [← h] at hdet; nlinarith [mul_self_nonneg (V3.dot (V3.sub v2 v1) (V3.sub v3 v1))]
  have hk := stOf_kkt _ _ _ (V3.dot (V3.sub v2 v1) (V3.sub v1 p)) (V3.dot (V3.sub v3 v1) (V3.sub v1 p)) ha hc hdet
  have hpt : (triNearest v1 v2 v3 p).1 = V3.add v1 (V3.add
      (V3.smul (stOf (V3.normSq (V3.sub v2 v1)) (V3.dot (V3.sub v2 v1) (V3.sub v3 v1)) (V3.normSq (V3.sub v3 v1))
        (V3.dot (V3.sub v2 v1) (V3.sub v1 p)) (V3.dot (V3.sub v3 v1) (V3.sub v1 p))).1 (V3.sub v2 v1))
      (V3.smul (stOf (V3.normSq (V3.sub v2 v1)) (V3.dot (V3.sub v2 v1) (V3.sub v3 v1)) (V3.normSq (V3.sub v3 v1))
        (V3.dot (V3.sub v2 v1) (V3.sub v1 p)) (V3.dot (V3.sub v3 v1) (V3.sub v1 p))).2 (V3.sub v3 v1))) := rfl
  unfold triDist2
  rw [hpt, normSq_tri, normSq_tri]
  have := Q_min_of_KKT _ _ _ _ _ _ _ ha hdet hk s' t' h0 h1 h2
  linarith

/-- the same for a point of the face given by barycentric weights -/
theorem triNearest_minimal_hull (v1 v2 v3 p : V3 K)
    (hdet : 0 < V3.normSq (V3.sub v2 v1) * V3.normSq (V3.sub v3 v1) - V3.dot (V3.sub v2 v1) (V3.sub v3 v1) * V3.dot (V3.sub v2 v1) (V3.sub v3 v1))
    (u s t : K) (hu : 0 ≤ u) (hs : 0 ≤ s) (ht : 0 ≤ t) (hsum : u + s + t = 1) :
    triDist2 v1 v2 v3 p ≤ V3.normSq (V3.sub (V3.add (V3.smul u v1) (V3.add (V3.smul s v2) (V3.smul t v3))) p) := by
  have e : V3.add (V3.smul u v1) (V3.add (V3.smul s v2) (V3.smul t v3))
      = V3.add v1 (V3.add (V3.smul s (V3.sub v2 v1)) (V3.smul t (V3.sub v3 v1))) := by
    have hu' : u = 1 - s - t := by linarith
    subst hu'
    simp only [V3.add, V3.smul, V3.sub]; apply V3.ext' <;> (simp only; ring)
  rw [e]
  exact triNearest_minimal v1 v2 v3 p hdet s t hs ht (by linarith)
end tmin

section closest
variable {K : Type} [Field K] [LinearOrder K] [IsStrictOrderedRing K]
/-- **the face found by the mesh query holds the nearest point of the whole surface**: composition of
`mesh_nearest_eq_bruteforce` (descent = brute force over faces) and `triNearest_minimal_hull` (per-face routine = closest
point of the face): no point of any face of the mesh is nearer to `p` than the point returned for the reported face -/
theorem mesh_nearest_is_closest (tri : Nat → V3 K × V3 K × V3 K) (tree : XT K) (p : V3 K)
    (hv : XT.Valid tri tree) (hnd : ∀ f ∈ tree.faces, NonDeg (tri f)) (f : Nat) (hf : meshNearest tri tree p = some f) :
    f ∈ tree.faces ∧ ∀ g ∈ tree.faces, ∀ u s t : K, 0 ≤ u → 0 ≤ s → 0 ≤ t → u + s + t = 1 →
      triDist2 (tri f).1 (tri f).2.1 (tri f).2.2 p
        ≤ V3.normSq (V3.sub (V3.add (V3.smul u (tri g).1) (V3.add (V3.smul s (tri g).2.1) (V3.smul t (tri g).2.2))) p) := by
  have h := mesh_nearest_eq_bruteforce tri tree p hv hnd
  rw [hf] at h
  obtain ⟨hmem, k, hk, hmin⟩ := h
  simp only [Option.some.injEq] at hk
  refine ⟨hmem, ?_⟩
  intro g hg u s t hu hs ht hsum
  have h1 := hmin g hg _ rfl
  have h2 := triNearest_minimal_hull (tri g).1 (tri g).2.1 (tri g).2.2 p (hnd g hg) u s t hu hs ht hsum
  rw [hk]; exact le_trans h1 h2
end closest

/-! ## the ray query of a mesh over its real OBB tree = brute force over all faces -/
section rayq
variable {K : Type} [Field K] [LinearOrder K] [IsStrictOrderedRing K]

theorem slab_aux (mn mx lam : K) (h1 : mn ≤ lam) (h2 : lam ≤ mx) (hlam : 0 ≤ lam) :
    ∃ st' : Option K × Option K, (if mx < mn ∨ mx < 0 then none else some (some mn, some mx)) = some st' ∧
      (∀ m, st'.1 = some m → m ≤ lam) ∧ (∀ M, st'.2 = some M → lam ≤ M) := by
  have : ¬ (mx < mn ∨ mx < 0) := by rintro (h | h) <;> linarith
  rw [if_neg this]
  refine ⟨_, rfl, ?_, ?_⟩
  · intro m hm; simp only [Option.some.injEq] at hm; linarith
  · intro M hM; simp only [Option.some.injEq] at hM; linarith

/-- one slab keeps the invariant `minDist ≤ λ ≤ maxDist` for every ray parameter `λ ≥ 0` whose point lies inside the slab,
and does not reject the ray -/
theorem slab_sound (o d s lam : K) (st : Option K × Option K) (hlam : 0 ≤ lam)
    (hin0 : 0 ≤ o + lam * d) (hin1 : o + lam * d ≤ s)
    (h1 : ∀ m, st.1 = some m → m ≤ lam) (h2 : ∀ M, st.2 = some M → lam ≤ M) :
    ∃ st', slab o d s st = some st' ∧ (∀ m, st'.1 = some m → m ≤ lam) ∧ (∀ M, st'.2 = some M → lam ≤ M) := by
  unfold slab
  by_cases hd : d < 0 ∨ 0 < d
  · rw [if_pos hd]
    dsimp only
    have hlo : (if -o / d < (s - o) / d then -o / d else (s - o) / d) ≤ lam := by
      rcases hd with hd | hd
      · have e2 : (s - o) / d ≤ lam := by rw [div_le_iff_of_neg hd]; linarith
        split_ifs with h <;> linarith
      · have e1 : -o / d ≤ lam := by rw [div_le_iff₀ hd]; linarith
        split_ifs with h <;> linarith
    have hhi : lam ≤ (if -o / d < (s - o) / d then (s - o) / d else -o / d) := by
      rcases hd with hd | hd
      · have e1 : lam ≤ -o / d := by rw [le_div_iff_of_neg hd]; linarith
        split_ifs with h <;> linarith
      · have e2 : lam ≤ (s - o) / d := by rw [le_div_iff₀ hd]; linarith
        split_ifs with h <;> linarith
    generalize (if -o / d < (s - o) / d then -o / d else (s - o) / d) = lo at hlo ⊢
    generalize (if -o / d < (s - o) / d then (s - o) / d else -o / d) = hi at hhi ⊢
    obtain ⟨a, b⟩ := st
    cases a with
    | none =>
      cases b with
      | none => exact slab_aux _ _ _ hlo hhi hlam
      | some M =>
        have hM := h2 M rfl
        refine slab_aux _ _ _ hlo ?_ hlam
        dsimp only; split_ifs <;> linarith
    | some m =>
      have hm := h1 m rfl
      cases b with
      | none =>
        refine slab_aux _ _ _ ?_ hhi hlam
        dsimp only; split_ifs <;> linarith
      | some M =>
        have hM := h2 M rfl
        refine slab_aux _ _ _ ?_ ?_ hlam
        · dsimp only; split_ifs <;> linarith
        · dsimp only; split_ifs <;> linarith
  · rw [if_neg hd]
    have hd0 : d = 0 := by
      rcases lt_trichotomy d 0 with h | h | h
      · exact absurd (Or.inl h) hd
      · exact h
      · exact absurd (Or.inr h) hd
    subst hd0
    have : ¬ (o < 0 ∨ s < o) := by
      rintro (h | h) <;> simp at hin0 hin1 <;> linarith
    rw [if_neg this]
    exact ⟨st, rfl, h1, h2⟩

omit [LinearOrder K] [IsStrictOrderedRing K] in
theorem inv_ray_point (X : Xf K) (o d : V3 K) (lam : K) :
    Xf.inv X (V3.add o (V3.smul lam d)) = V3.add (Xf.inv X o) (V3.smul lam (M3.tmulVec X.R d)) := by
  simp only [Xf.inv, M3.tmulVec, M3.mulVec, M3.transpose, M3.col0, M3.col1, M3.col2, V3.sub, V3.dot, V3.add, V3.smul]
  apply V3.ext' <;> (simp only; ring)

/-- **admissible ray bound**: if the ray point at parameter `λ ≥ 0` lies in the box, `OrientedBoundingBox::intersectsRay`
reports a hit with entry distance `≤ λ` (so the box's distance never exceeds the hit parameter of a triangle it contains) -/
theorem obb_ray_admissible (negInf : K) (hneg : negInf ≤ 0) (b : Obb K) (o d : V3 K) (lam : K) (hlam : 0 ≤ lam)
    (hin : b.contains (V3.add o (V3.smul lam d)) = true) : ∃ m, b.ray negInf o d = some m ∧ m ≤ lam := by
  simp only [Obb.contains, Bool.and_eq_true, within_iff, inv_ray_point] at hin
  obtain ⟨⟨⟨x0, x1⟩, ⟨y0, y1⟩⟩, ⟨z0, z1⟩⟩ := hin
  simp only [V3.add, V3.smul] at x0 x1 y0 y1 z0 z1
  obtain ⟨s1, e1, a1, b1⟩ := slab_sound (Xf.inv b.X o).x (M3.tmulVec b.X.R d).x b.size.x lam (none, none) hlam x0 x1
    (by intro m h; simp at h) (by intro m h; simp at h)
  obtain ⟨s2, e2, a2, b2⟩ := slab_sound (Xf.inv b.X o).y (M3.tmulVec b.X.R d).y b.size.y lam s1 hlam y0 y1 a1 b1
  obtain ⟨s3, e3, a3, b3⟩ := slab_sound (Xf.inv b.X o).z (M3.tmulVec b.X.R d).z b.size.z lam s2 hlam z0 z1 a2 b2
  simp only [Obb.ray, e1, e2, e3]
  refine ⟨_, rfl, ?_⟩
  cases h : s3.1 with
  | none => simp only; split_ifs <;> linarith
  | some m => simp only; have := a3 m h; split_ifs <;> linarith

omit [IsStrictOrderedRing K] in
/-- `intersectsRay` of a face never reports a negative ray parameter -/
theorem triRay_param_nonneg (n v1 v2 v3 o d : V3 K) (t : K) (h : triRay n v1 v2 v3 o d = some t) : 0 ≤ t := by
  unfold triRay at h
  dsimp only at h
  by_cases hvd : V3.dot n d < 0 ∨ 0 < V3.dot n d
  · rw [if_pos hvd] at h
    by_cases ht : V3.dot n (V3.sub v1 o) / V3.dot n d < 0
    · rw [if_pos ht] at h; exact absurd h (by simp)
    · rw [if_neg ht] at h
      split_ifs at h <;> (simp only [Option.some.injEq] at h; rw [← h]; exact le_of_not_gt ht)
  · rw [if_neg hvd] at h; exact absurd h (by simp)

/-- hypothesis of the ray theorem (NOT proved about `triRay`; the harness compares every reported hit with an independent
ray–triangle routine): a reported hit parameter is non-negative and its point lies in the face (convex combination) -/
def HitInFace (tri : Nat → V3 K × V3 K × V3 K) (cost : Nat → Option K) (o d : V3 K) : Prop :=
  ∀ f k, cost f = some k → 0 ≤ k ∧ ∃ u s t : K, 0 ≤ u ∧ 0 ≤ s ∧ 0 ≤ t ∧ u + s + t = 1 ∧
    V3.add o (V3.smul k d) = V3.add (V3.smul u (tri f).1) (V3.add (V3.smul s (tri f).2.1) (V3.smul t (tri f).2.2))

theorem XT.ray_bound_admissible (negInf : K) (hneg : negInf ≤ 0) (tri : Nat → V3 K × V3 K × V3 K) (cost : Nat → Option K)
    (o d : V3 K) (hh : HitInFace tri cost o d) (t : XT K) (h : XT.Valid tri t) :
    LB cost (t.box.ray negInf o d) t.faces := by
  obtain ⟨_, hc⟩ := XT.valid_top tri t h
  intro f hf k hk
  obtain ⟨hk0, u, s, w, hu, hs, hw, hsum, hp⟩ := hh f k hk
  obtain ⟨c1, c2, c3⟩ := hc f hf
  exact obb_ray_admissible negInf hneg t.box o d k hk0 (by rw [hp]; exact box_contains_hull t.box _ _ _ u s w hu hs hw hsum c1 c2 c3)

theorem XT.adm_ray (negInf : K) (hneg : negInf ≤ 0) (tri : Nat → V3 K × V3 K × V3 K) (cost : Nat → Option K)
    (o d : V3 K) (hh : HitInFace tri cost o d) (t : XT K) (h : XT.Valid tri t) :
    Adm cost (t.toBT (fun b => b.ray negInf o d)) := by
  induction t with
  | leaf b fs => trivial
  | node b c1 c2 ih1 ih2 =>
    obtain ⟨_, _, v1, v2⟩ := h
    refine ⟨?_, ?_, ih1 v1, ih2 v2⟩
    · rw [XT.items_toBT]; exact XT.ray_bound_admissible negInf hneg tri cost o d hh c1 v1
    · rw [XT.items_toBT]; exact XT.ray_bound_admissible negInf hneg tri cost o d hh c2 v2

/-- **mesh ray = brute force** for the executed query `meshRay` over the exported real tree, given that every node box
contains the vertices below it (checked per run) and that a face's reported hit lies in the face (`HitInFace`,
predicate-only): the face found has the smallest hit parameter of *all* faces, and "no hit" means no face is hit. -/
theorem mesh_ray_eq_bruteforce (negInf : K) (hneg : negInf ≤ 0) (tri : Nat → V3 K × V3 K × V3 K) (cost : Nat → Option K)
    (tree : XT K) (o d : V3 K) (hv : XT.Valid tri tree) (hh : HitInFace tri cost o d) :
    Spec cost tree.faces (meshRay negInf cost tree o d) := by
  unfold meshRay
  cases hroot : tree.box.ray negInf o d with
  | none =>
    intro f hf
    cases hc : cost f with
    | none => rfl
    | some k =>
      obtain ⟨m, hm, _⟩ := XT.ray_bound_admissible negInf hneg tri cost o d hh tree hv f hf k hc
      rw [hroot] at hm; exact absurd hm (by simp)
  | some m =>
    have h := bnb_eq_bruteforce _ _ (XT.adm_ray negInf hneg tri cost o d hh tree hv)
    rw [XT.items_toBT] at h
    exact h
end rayq

/-! ## bounding spheres -/
section spheres
variable {K : Type} [Field K] [LinearOrder K] [IsStrictOrderedRing K]

omit [IsStrictOrderedRing K] in
theorem le_max3 (a b c : K) : a ≤ max3 a b c ∧ b ≤ max3 a b c ∧ c ≤ max3 a b c := by
  unfold max3
  simp only []
  split_ifs with h1 h2 h3
  · exact ⟨le_of_lt (lt_trans h1 h2), le_of_lt h2, le_refl _⟩
  · exact ⟨le_of_lt h1, le_refl _, not_lt.mp h2⟩
  · exact ⟨le_of_lt h3, le_trans (not_lt.mp h1) (le_of_lt h3), le_refl _⟩
  · exact ⟨le_refl _, not_lt.mp h1, not_lt.mp h3⟩

omit [LinearOrder K] [IsStrictOrderedRing K] in
/-- the midpoint is equidistant from the two points -/
theorem sphere2_equidistant (p0 p1 : V3 K) (h2 : (2 : K) ≠ 0) :
    V3.normSq (V3.sub p0 (V3.sdiv (V3.add p0 p1) 2)) = V3.normSq (V3.sub p1 (V3.sdiv (V3.add p0 p1) 2)) := by
  simp only [V3.normSq, V3.dot, V3.sub, V3.sdiv, V3.add]
  field_simp
  ring

/-- two points: in the regular branch (`rad > tol/2`) both points are within the returned radius of the returned centre -/
theorem sphere2_bounding_sphere_contains (sqrt : K → K) (hsq : SqrtSpec sqrt) (tol : K) (p0 p1 : V3 K)
    (hbig : tol / 2 < (sphere2 sqrt tol p0 p1).2) :
    V3.normSq (V3.sub p0 (sphere2 sqrt tol p0 p1).1) ≤ (sphere2 sqrt tol p0 p1).2 * (sphere2 sqrt tol p0 p1).2 ∧
    V3.normSq (V3.sub p1 (sphere2 sqrt tol p0 p1).1) ≤ (sphere2 sqrt tol p0 p1).2 * (sphere2 sqrt tol p0 p1).2 := by
  have e := sphere2_equidistant p0 p1 two_ne_zero
  have hn0 := normSq_nonneg (V3.sub p0 (V3.sdiv (V3.add p0 p1) 2))
  have hn1 := normSq_nonneg (V3.sub p1 (V3.sdiv (V3.add p0 p1) 2))
  unfold sphere2 at hbig ⊢
  simp only [] at hbig ⊢
  split_ifs at hbig ⊢ with h1 h2 h3
  · simp only; rw [hsq.sq _ hn1]; exact ⟨le_of_lt h1, le_refl _⟩
  · simp only at hbig; exact absurd (lt_of_lt_of_le hbig (hsq.nonneg _ hn1)) h2
  · simp only; rw [hsq.sq _ hn0]; exact ⟨le_refl _, not_lt.mp h1⟩
  · simp only at hbig; exact absurd (lt_of_lt_of_le hbig (hsq.nonneg _ hn0)) h3

/-- three points: whatever branch chose the centre, all three points are within the returned radius -/
theorem sphere3_bounding_sphere_contains (sqrt : K → K) (hsq : SqrtSpec sqrt) (tol : K) (a b c : V3 K) (force : Bool) :
    let S := sphere3 sqrt tol a b c force
    V3.normSq (V3.sub a S.1) ≤ S.2 * S.2 ∧ V3.normSq (V3.sub b S.1) ≤ S.2 * S.2 ∧ V3.normSq (V3.sub c S.1) ≤ S.2 * S.2 := by
  intro S
  have hrad : S.2 * S.2 = max3 (V3.normSq (V3.sub a S.1)) (V3.normSq (V3.sub b S.1)) (V3.normSq (V3.sub c S.1)) := by
    have hnn : 0 ≤ max3 (V3.normSq (V3.sub a S.1)) (V3.normSq (V3.sub b S.1)) (V3.normSq (V3.sub c S.1)) :=
      le_trans (normSq_nonneg _) (le_max3 _ _ _).1
    exact hsq.sq _ hnn
  rw [hrad]
  exact le_max3 _ _ _

omit [LinearOrder K] [IsStrictOrderedRing K] in
/-- the point `a + s·ab + t·ac` with the code's Cramer coefficients is the circumcentre: equidistant from a, b, c -/
theorem circumcentre_equidistant (a b c : V3 K)
    (hdm : 2 * (V3.normSq (V3.sub b a) * V3.normSq (V3.sub c a) - V3.dot (V3.sub b a) (V3.sub c a) * V3.dot (V3.sub b a) (V3.sub c a)) ≠ 0) :
    let ab := V3.sub b a
    let ac := V3.sub c a
    let ab2 := V3.normSq ab
    let ac2 := V3.normSq ac
    let abac := V3.dot ab ac
    let dm2 := 2 * (ab2 * ac2 - abac * abac)
    let s := (ab2 * ac2 - ac2 * abac) * (1 / dm2)
    let t := (ab2 * ac2 - ab2 * abac) * (1 / dm2)
    let ctr := V3.add a (V3.add (V3.smul s ab) (V3.smul t ac))
    V3.normSq (V3.sub a ctr) = V3.normSq (V3.sub b ctr) ∧ V3.normSq (V3.sub a ctr) = V3.normSq (V3.sub c ctr) := by
  intro ab ac ab2 ac2 abac dm2 s t ctr
  have hdm' : dm2 ≠ 0 := hdm
  -- P - a = s ab + t ac ; |P-a|² = |P-b|² ⇔ 2 (P-a)·ab = |ab|²
  have key1 : 2 * (s * ab2 + t * abac) = ab2 := by
    simp only [s, t]; field_simp; simp only [dm2]; ring
  have key2 : 2 * (s * abac + t * ac2) = ac2 := by
    simp only [s, t]; field_simp; simp only [dm2]; ring
  constructor
  · have e : V3.normSq (V3.sub b ctr) - V3.normSq (V3.sub a ctr) = ab2 - 2 * (s * ab2 + t * abac) := by
      simp only [ctr, ab2, abac, ab, ac, V3.normSq, V3.dot, V3.sub, V3.add, V3.smul]; ring
    rw [key1] at e; linear_combination (-1 : K) * e
  · have e : V3.normSq (V3.sub c ctr) - V3.normSq (V3.sub a ctr) = ac2 - 2 * (s * abac + t * ac2) := by
      simp only [ctr, ac2, abac, ab, ac, V3.normSq, V3.dot, V3.sub, V3.add, V3.smul]; ring
    rw [key2] at e; linear_combination (-1 : K) * e
end spheres

/-! ## mesh topology: the decidable predicate is sound -/
theorem sameSet_sound (a b : Nat × Nat) (h : sameSet a b = true) : (a.1 = b.1 ∧ a.2 = b.2) ∨ (a.1 = b.2 ∧ a.2 = b.1) := by
  simpa [sameSet] using h

/-- if `Topo.consistent` holds then: the tables have matching sizes; every face has three distinct valid vertices; the
edge in slot `k` of a face joins the face's vertices `k` and `k+1` and lists the face among its two faces; every edge
has two distinct faces each of which has the edge in one of its slots; and `2E = 3F` -/
theorem topology_sound (T : Topo) (h : T.consistent = true) :
    T.fe.size = T.fv.size ∧ T.ef.size = T.ev.size ∧ 2 * T.ev.size = 3 * T.fv.size ∧
    (∀ f, f < T.fv.size → T.faceOk f = true) ∧ (∀ e, e < T.ev.size → T.edgeOk e = true) := by
  simp only [Topo.consistent, Bool.and_eq_true, beq_iff_eq, List.all_eq_true, List.mem_range] at h
  obtain ⟨⟨⟨⟨h1, h2⟩, h3⟩, h4⟩, h5⟩ := h
  exact ⟨h1, h2, h5, h3, h4⟩

/-- unfolding of `faceOk` for one slot -/
theorem slot_sound (T : Topo) (f k : Nat) (h : T.slotOk f k = true) :
    let e := tri (T.fe.getD f (0, 0, 0)) k
    e < T.ev.size ∧
    ((T.ev.getD e (0, 0)).1 = tri (T.fv.getD f (0, 0, 0)) k ∧ (T.ev.getD e (0, 0)).2 = tri (T.fv.getD f (0, 0, 0)) ((k + 1) % 3) ∨
     (T.ev.getD e (0, 0)).1 = tri (T.fv.getD f (0, 0, 0)) ((k + 1) % 3) ∧ (T.ev.getD e (0, 0)).2 = tri (T.fv.getD f (0, 0, 0)) k) ∧
    ((T.ef.getD e (0, 0)).1 = f ∨ (T.ef.getD e (0, 0)).2 = f) := by
  intro e
  simp only [Topo.slotOk, Bool.and_eq_true, Bool.or_eq_true, decide_eq_true_eq, beq_iff_eq] at h
  obtain ⟨⟨⟨h1, _⟩, h3⟩, h4⟩ := h
  exact ⟨h1, sameSet_sound _ _ h3, h4⟩

/-! ## non-vacuity -/

/-- a two-leaf tree with admissible bounds (costs 5,7 | 3,9; bounds 4 and 2): the descent finds cost 3 -/
example : Adm (K := Nat) (fun x : Nat => some x) (.node (some 4) (.leaf [5, 7]) (some 2) (.leaf [3, 9])) ∧
    search (K := Nat) (fun x : Nat => some x) (.node (some 4) (.leaf [5, 7]) (some 2) (.leaf [3, 9])) = some 3 := by
  refine ⟨⟨?_, ?_, trivial, trivial⟩, by decide⟩
  · intro x hx k hk; simp [BT.items] at hx; rcases hx with rfl | rfl <;> simp at hk <;> subst hk <;> exact ⟨4, rfl, by decide⟩
  · intro x hx k hk; simp [BT.items] at hx; rcases hx with rfl | rfl <;> simp at hk <;> subst hk <;> exact ⟨2, rfl, by decide⟩

/-- the unit box contains its corner and centre -/
example : (⟨⟨⟨⟨1, 0, 0⟩, ⟨0, 1, 0⟩, ⟨0, 0, 1⟩⟩, ⟨0, 0, 0⟩⟩, ⟨1, 1, 1⟩⟩ : Obb ℚ).contains ⟨1 / 2, 1 / 2, 1⟩ = true := by
  norm_num [Obb.contains, within, Xf.inv, M3.tmulVec, M3.mulVec, M3.transpose, M3.col0, M3.col1, M3.col2, V3.dot, V3.sub]

end Msh
end Geom
