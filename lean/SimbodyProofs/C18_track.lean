import SimbodyProofs.C18_ghost
/-!
C18 — tracking of the discrete variables (value, value version, last update time; everything but the list of
dependents) through every operation, and of individual cache entries through the global maps.  Core Lean only.
-/
namespace C18

def DV.nodeps (d : DV) : DV := { d with deps := [] }
def Sub.dpart (sb : Sub) : List DV := sb.dvs.map DV.nodeps
def St.dparts (st : St) : List (List DV) := st.subs.map Sub.dpart

theorem dparts_mapCE (st : St) (f : Key → CE → CE) : (st.mapCE f).dparts = st.dparts := by
  unfold St.dparts St.mapCE
  exact map_mapI_of_proj Sub.dpart _ _ (fun _ _ => rfl)

theorem dparts_mapDV (st : St) (f : Key → DV → DV) (hf : ∀ k d, (f k d).nodeps = d.nodeps) :
    (st.mapDV f).dparts = st.dparts := by
  unfold St.dparts St.mapDV
  apply map_mapI_of_proj
  intro i sb
  unfold Sub.dpart
  exact map_mapI_of_proj DV.nodeps _ _ (fun c d => hf (i, c) d)

theorem dparts_notify (st : St) (ks) : (st.notify ks).dparts = st.dparts := dparts_mapCE _ _

theorem dparts_register (st : St) (k : Key) (e : CE) : (st.register k e).dparts = st.dparts := by
  unfold St.register
  simp only
  rw [dparts_mapCE, dparts_mapDV _ _ (by intro dk d; split <;> rfl)]
  rfl

theorem dparts_unregister (st : St) (k : Key) (e : CE) : (st.unregister k e).dparts = st.dparts := by
  unfold St.unregister
  simp only
  rw [dparts_mapCE, dparts_mapDV _ _ (by intro dk d; split <;> rfl)]
  rfl

theorem dparts_foldl_unregister (l : List (Key × CE)) (st : St) :
    (l.foldl (fun acc ke => acc.unregister ke.1 ke.2) st).dparts = st.dparts := by
  induction l generalizing st with
  | nil => rfl
  | cons a as ih => simp only [List.foldl_cons]; rw [ih, dparts_unregister]

theorem dparts_noteQ (st : St) : st.noteQ.dparts = st.dparts := by unfold St.noteQ; rw [dparts_notify]; rfl
theorem dparts_noteU (st : St) : st.noteU.dparts = st.dparts := by unfold St.noteU; rw [dparts_notify]; rfl
theorem dparts_noteZ (st : St) : st.noteZ.dparts = st.dparts := by unfold St.noteZ; rw [dparts_notify]; rfl
theorem dparts_noteY (st : St) : st.noteY.dparts = st.dparts := by
  unfold St.noteY; rw [dparts_noteZ, dparts_noteU, dparts_noteQ]

theorem dparts_modSub (st : St) (s : Nat) (f : Sub → Sub) (hf : ∀ sb, (f sb).dpart = sb.dpart) :
    (st.modSub s f).dparts = st.dparts := by
  unfold St.dparts St.modSub
  exact map_modAt_of_proj Sub.dpart _ _ _ hf

theorem dparts_modCE (st : St) (k : Key) (f : CE → CE) : (st.modCE k f).dparts = st.dparts :=
  dparts_modSub _ _ _ (fun _ => rfl)

theorem dparts_markCE (st : St) (k : Key) : (st.markCE k).dparts = st.dparts := by
  unfold St.markCE
  split
  · rfl
  · exact dparts_modCE _ _ _

theorem invalSys_subs (st : St) (g : Nat) :
    (st.invalSys g).subs = st.subs ∨
    (st.invalSys g).subs = (({ st with q := [], u := [], z := [] } : St).noteY).subs := by
  unfold St.invalSys
  by_cases h0 : st.sys < g
  · left; rw [if_pos h0]
  · rw [if_neg h0]
    by_cases h1 : 2 ≤ st.sys ∧ g ≤ 2
    · right
      by_cases h2 : g ≤ 1
      · simp only [if_pos h1, if_pos h2]
      · simp only [if_pos h1, if_neg h2]
    · left
      by_cases h2 : g ≤ 1
      · simp only [if_neg h1, if_pos h2]
      · simp only [if_neg h1, if_neg h2]

theorem dparts_invalSys (st : St) (g : Nat) : (st.invalSys g).dparts = st.dparts := by
  rcases invalSys_subs st g with h | h
  · unfold St.dparts; rw [h]
  · have := dparts_noteY ({ st with q := [], u := [], z := [] } : St)
    unfold St.dparts at this ⊢
    rw [h, this]

/-- discrete variables of a subsystem after `restoreToStage`: a prefix of what was there -/
theorem restore_dpart_prefix (sb : Sub) (g : Nat) : ∃ r, sb.dpart = (sb.restore g).dpart ++ r := by
  unfold Sub.restore
  split
  · exact ⟨[], by simp [Sub.dpart]⟩
  · split
    · exact ⟨sb.dpart, by simp [Sub.dpart]⟩
    · obtain ⟨r, hr⟩ := popBack_prefix DV.alloc g sb.dvs
      refine ⟨r.map DV.nodeps, ?_⟩
      simp only [Sub.dpart]
      rw [← List.map_append, ← hr]

/-- the discrete-variable part of a restored subsystem only depends on the stage and the discrete-variable part -/
theorem restore_dpart_congr (a b : Sub) (hc : a.cur = b.cur) (hd : a.dpart = b.dpart) (g : Nat) :
    (a.restore g).dpart = (b.restore g).dpart := by
  unfold Sub.restore
  rw [hc]
  split
  · exact hd
  · split
    · rfl
    · simp only [Sub.dpart] at hd ⊢
      rw [← popBack_map DV.alloc DV.alloc DV.nodeps g _ (fun _ => rfl),
          ← popBack_map DV.alloc DV.alloc DV.nodeps g _ (fun _ => rfl), hd]

theorem curs_invalSys (st : St) (g : Nat) : (st.invalSys g).subs.map Sub.cur = st.subs.map Sub.cur := by
  have h := congrArg St.subs (view_invalSys st g)
  have h1 : (st.invalSys g).view.subs.map Sub.cur = st.view.subs.map Sub.cur := by rw [h]
  simpa [St.view, List.map_map, Function.comp_def] using h1

theorem map_congr_of_two {α β γ δ : Type} (p : α → β) (q : α → γ) (F : α → δ) (l l' : List α)
    (hp : l.map p = l'.map p) (hq : l.map q = l'.map q)
    (hF : ∀ a b, p a = p b → q a = q b → F a = F b) : l.map F = l'.map F := by
  induction l generalizing l' with
  | nil => cases l' with
    | nil => rfl
    | cons b bs => simp at hp
  | cons a as ih => cases l' with
    | nil => simp at hp
    | cons b bs =>
      simp only [List.map_cons, List.cons.injEq] at hp hq ⊢
      exact ⟨hF a b hp.1 hq.1, ih bs hp.2 hq.2⟩

theorem dparts_invalAll (st : St) (g : Nat) :
    (st.invalAll g).dparts = st.subs.map (fun sb => (sb.restore (g - 1)).dpart) := by
  unfold St.invalAll
  simp only
  rw [dparts_foldl_unregister]
  simp only [St.dparts, List.map_map]
  exact map_congr_of_two Sub.cur Sub.dpart _ _ _ (curs_invalSys st g) (dparts_invalSys st g)
    (fun a b hc hd => restore_dpart_congr a b hc hd _)

theorem dparts_of_subs {a b : St} (h : a.subs = b.subs) : a.dparts = b.dparts := by
  unfold St.dparts; rw [h]

theorem dparts_advSys (st : St) (g : Nat) : (st.advSys g).dparts = st.dparts := by
  unfold St.advSys
  split
  · rfl
  · split
    · simp only
      refine Eq.trans (dparts_of_subs (b := (((_ : St).notify _).notify _).notify _) (by rfl)) ?_
      rw [dparts_notify, dparts_notify, dparts_notify]; rfl
    · rfl


theorem map_modAt {α β : Type} (p : α → β) (l : List α) (i : Nat) (f : α → α) (f' : β → β)
    (h : ∀ x, p (f x) = f' (p x)) : (modAt l i f).map p = modAt (l.map p) i f' := by
  induction l generalizing i with
  | nil => rfl
  | cons a as ih => cases i <;> simp [modAt, ih, h]

/-- discrete-variable parts after an invalidating operation other than a discrete-variable update -/
theorem dparts_applyS_inval (st : St) (op : SOp) (g : Nat) (h : invalStage st op = some g)
    (hn : ∀ s d v, op ≠ .setDV s d v) :
    (applyS st op).dparts = st.subs.map (fun sb => (sb.restore (g - 1)).dpart) := by
  cases op <;> simp only [invalStage, Option.some.injEq, reduceCtorEq] at h
  case invalAll g' => subst h; exact dparts_invalAll st _
  case invalCache g' => subst h; exact dparts_invalAll st _
  case updQ w => subst h; show ((st.invalAll 5).noteQ).dparts = _; rw [dparts_noteQ, dparts_invalAll]
  case updU w => subst h; show ((st.invalAll 6).noteU).dparts = _; rw [dparts_noteU, dparts_invalAll]
  case updZ w => subst h; show ((st.invalAll 7).noteZ).dparts = _; rw [dparts_noteZ, dparts_invalAll]
  case updQsub s w => subst h; show ((st.invalAll 5).noteQ).dparts = _; rw [dparts_noteQ, dparts_invalAll]
  case updUsub s w => subst h; show ((st.invalAll 6).noteU).dparts = _; rw [dparts_noteU, dparts_invalAll]
  case updZsub s w => subst h; show ((st.invalAll 7).noteZ).dparts = _; rw [dparts_noteZ, dparts_invalAll]
  case updY => subst h; show ((st.invalAll 5).noteY).dparts = _; rw [dparts_noteY, dparts_invalAll]
  case setTime v => subst h; show (st.invalAll 4).dparts = _; rw [dparts_invalAll]
  case updUW => subst h; exact dparts_invalAll st _
  case updZW => subst h; exact dparts_invalAll st _
  case updUWsub s => subst h; exact dparts_invalAll st _
  case updZWsub s => subst h; exact dparts_invalAll st _
  case updQErrW => subst h; exact dparts_invalAll st _
  case updUErrW => subst h; exact dparts_invalAll st _
  case updQErrWsub s => subst h; exact dparts_invalAll st _
  case updUErrWsub s => subst h; exact dparts_invalAll st _
  case setDV s d v => exact absurd rfl (hn s d v)

/-- `a` and `b` list, subsystem by subsystem, discrete variables such that one list is a prefix of the other -/
def PrefRel (a b : List (List DV)) : Prop :=
  a.length = b.length ∧ ∀ (s : Nat) x y, a[s]? = some x → b[s]? = some y → (∃ r, x = y ++ r) ∨ (∃ r, y = x ++ r)

theorem PrefRel.refl (a : List (List DV)) : PrefRel a a :=
  ⟨rfl, fun s x y hx hy => by rw [hx] at hy; cases hy; exact Or.inl ⟨[], by simp⟩⟩

theorem PrefRel.of_eq {a b : List (List DV)} (h : b = a) : PrefRel a b := h ▸ PrefRel.refl a

theorem PrefRel.modSub_ext (st : St) (s : Nat) (f : Sub → Sub) (hf : ∀ sb, ∃ r, (f sb).dpart = sb.dpart ++ r) :
    PrefRel st.dparts (st.modSub s f).dparts := by
  refine ⟨by simp [St.dparts, St.modSub], ?_⟩
  intro s' x y hx hy
  simp only [St.dparts, St.modSub, List.getElem?_map, Option.map_eq_some_iff] at hx hy
  obtain ⟨sb, hsb, rfl⟩ := hx
  obtain ⟨sb', hsb', rfl⟩ := hy
  rw [getElem?_modAt] at hsb'
  split at hsb'
  · rw [hsb] at hsb'; simp only [Option.map_some, Option.some.injEq] at hsb'; subst hsb'
    obtain ⟨r, hr⟩ := hf sb
    exact Or.inr ⟨r, hr⟩
  · rw [hsb] at hsb'; cases hsb'; exact Or.inl ⟨[], by simp⟩

/-- **Discrete variables change only on request.**  Every operation on a State other than
`autoUpdateDiscreteVariables` and an explicit `updDiscreteVariable`/`setDiscreteVariable` leaves every discrete
variable that still exists afterwards with the same value, value version and last-update time: per subsystem the
list of discrete variables (dependents lists aside) afterwards is a prefix of the old list (variables allocated
at an invalidated stage are forgotten) or the old list extended by newly allocated variables. -/
theorem dvs_change_only_on_request (st : St) (op : SOp) (h1 : op ≠ .autoUpdate)
    (h2 : ∀ s d v, op ≠ .setDV s d v) : PrefRel st.dparts (stepS st op).dparts := by
  unfold stepS
  cases hexc : excOf st op with
  | some c => exact PrefRel.refl _
  | none =>
  simp only
  cases hiv : invalStage st op with
  | some g =>
    rw [dparts_applyS_inval st op g hiv h2]
    refine ⟨by simp [St.dparts], ?_⟩
    intro s x y hx hy
    simp only [St.dparts, List.getElem?_map, Option.map_eq_some_iff] at hx hy
    obtain ⟨sb, hsb, rfl⟩ := hx
    obtain ⟨sb', hsb', rfl⟩ := hy
    rw [hsb] at hsb'; cases hsb'
    exact Or.inl (restore_dpart_prefix sb _)
  | none =>
  have keep : ∀ (s : Nat) (f : Sub → Sub), (∀ sb, (f sb).dpart = sb.dpart) →
      PrefRel st.dparts (st.modSub s f).dparts := fun s f hf => PrefRel.of_eq (dparts_modSub st s f hf)
  cases op with
  | advSub s g => exact keep s _ (fun _ => rfl)
  | advSys g => exact PrefRel.of_eq (dparts_advSys st g)
  | allocQ s vals => exact keep s _ (fun _ => rfl)
  | allocU s vals => exact keep s _ (fun _ => rfl)
  | allocZ s vals => exact keep s _ (fun _ => rfl)
  | allocQErr s n => exact keep s _ (fun _ => rfl)
  | allocUErr s n => exact keep s _ (fun _ => rfl)
  | allocUDotErr s n => exact keep s _ (fun _ => rfl)
  | allocTrig s g n => exact keep s _ (fun _ => rfl)
  | allocDV s inv v =>
    exact PrefRel.modSub_ext st s _ (fun sb => ⟨[DV.nodeps { alloc := sb.cur + 1, inval := inv, value := v }], by simp [Sub.dpart, Sub.pushDV]⟩)
  | allocAutoDV s inv v ud =>
    exact PrefRel.modSub_ext st s _ (fun sb => ⟨[DV.nodeps { alloc := sb.cur + 1, inval := inv, value := v, auto := some sb.ces.length }], by simp [Sub.dpart, Sub.pushDV, Sub.pushCE]⟩)
  | allocCE s dep comp v => exact keep s _ (fun _ => rfl)
  | allocCEpre s dep comp q u z dvs ces v =>
    show PrefRel st.dparts (match st.subs[s]? with
      | none => st
      | some sb => _).dparts
    split
    · exact PrefRel.refl _
    · simp only
      rw [dparts_register]
      exact keep s _ (fun _ => rfl)
  | mark s c => exact PrefRel.of_eq (dparts_markCE st _)
  | unmark s c => exact PrefRel.of_eq (dparts_notify st _)
  | markDVUpd s d =>
    show PrefRel st.dparts (match st.dv? (s, d) with
      | some dv => match dv.auto with | some cx => st.markCE (s, cx) | none => st
      | none => st).dparts
    split
    · split
      · exact PrefRel.of_eq (dparts_markCE st _)
      · exact PrefRel.refl _
    · exact PrefRel.refl _
  | setCE s c v => exact PrefRel.of_eq (dparts_modCE st _ _)
  | getCE s c => exact PrefRel.refl _
  | setTopoVer v => exact PrefRel.refl _
  | autoUpdate => exact absurd rfl h1
  | setDV s d v => exact absurd rfl (h2 s d v)
  | invalAll g => simp [invalStage] at hiv
  | invalCache g => simp [invalStage] at hiv
  | updQ w => simp [invalStage] at hiv
  | updU w => simp [invalStage] at hiv
  | updZ w => simp [invalStage] at hiv
  | updQsub s w => simp [invalStage] at hiv
  | updUsub s w => simp [invalStage] at hiv
  | updZsub s w => simp [invalStage] at hiv
  | updY => simp [invalStage] at hiv
  | setTime v => simp [invalStage] at hiv
  | updUW => simp [invalStage] at hiv
  | updZW => simp [invalStage] at hiv
  | updUWsub s => simp [invalStage] at hiv
  | updZWsub s => simp [invalStage] at hiv
  | updQErrW => simp [invalStage] at hiv
  | updUErrW => simp [invalStage] at hiv
  | updQErrWsub s => simp [invalStage] at hiv
  | updUErrWsub s => simp [invalStage] at hiv

theorem ceOpt_modCE_self (st : St) (k : Key) (f : CE → CE) : (st.modCE k f).ce? k = (st.ce? k).map f := by
  unfold St.ce? St.modCE St.modSub
  simp only [getElem?_modAt, if_true]
  cases st.subs[k.1]? with
  | none => rfl
  | some sb => simp [getElem?_modAt]

theorem ceOpt_mapCE (st : St) (f : Key → CE → CE) (k : Key) : (st.mapCE f).ce? k = (st.ce? k).map (f k) := by
  unfold St.ce? St.mapCE
  simp only [getElem?_mapI]
  cases st.subs[k.1]? with
  | none => rfl
  | some sb => simp [getElem?_mapI]

theorem getElemOpt_setSlot (l : List (Option St)) (k j : Nat) (o : Option St) (h : j ≠ k) :
    (setSlot l k o)[j]? = l[j]? := by
  unfold setSlot; rw [getElem?_modAt, if_neg h]



/-! ### an explicit update of one discrete variable -/

theorem dparts_modDV (st : St) (k : Key) (f g : DV → DV) (h : ∀ d, (f d).nodeps = g d.nodeps) :
    (st.modDV k f).dparts = modAt st.dparts k.1 (fun l => modAt l k.2 g) := by
  unfold St.dparts St.modDV St.modSub
  apply map_modAt
  intro sb
  unfold Sub.dpart
  exact map_modAt DV.nodeps sb.dvs k.2 f g h

/-- what `updDiscreteVariable` + assignment does to the variable itself -/
def DV.updated (τ : Option Int) (v : Int) (d : DV) : DV := { d with valVer := d.valVer + 1, tLast := τ, value := v }

/-- the State just before the variable itself is touched in `updDiscreteVariable(k)` -/
def St.preSetDV (st : St) (k : Key) (dv : DV) : St :=
  match dv.auto with
  | some cx => (st.invalAll dv.inval).notify [(k.1, cx)]
  | none => st.invalAll dv.inval

/-- discrete-variable parts after `updDiscreteVariable(k) = v`: the stacks restored to just below the invalidated
stage, with variable `k` given the new value, the next value version and the update time -/
theorem dparts_setDV (st : St) (k : Key) (v : Int) (dv : DV) (h : st.dv? k = some dv) :
    (st.setDV k v).dparts =
      modAt (st.subs.map (fun sb => (sb.restore (dv.inval - 1)).dpart)) k.1
        (fun l => modAt l k.2 (DV.updated (st.preSetDV k dv).t v)) := by
  have hpre : (st.preSetDV k dv).dparts = st.subs.map (fun sb => (sb.restore (dv.inval - 1)).dpart) := by
    unfold St.preSetDV
    split
    · rw [dparts_notify, dparts_invalAll]
    · rw [dparts_invalAll]
  have hdef : st.setDV k v =
      ((st.preSetDV k dv).modDV k (fun d => { d with valVer := d.valVer + 1, tLast := (st.preSetDV k dv).t, value := v })).notify
        (match (st.preSetDV k dv).dv? k with | some d => d.deps | none => []) := by
    unfold St.setDV St.preSetDV
    simp only [h]
    rfl
  rw [hdef, dparts_notify, ← hpre]
  exact dparts_modDV _ k _ (DV.updated (st.preSetDV k dv).t v) (fun _ => rfl)

theorem getElem?_prefix {α : Type} {l p r : List α} (h : l = p ++ r) {i : Nat} {y : α} (hy : p[i]? = some y) :
    l[i]? = some y := by
  rw [h]
  have hi : i < p.length := (List.getElem?_eq_some_iff.mp hy).1
  rw [List.getElem?_append_left hi]; exact hy


/-! ### freshness is only ever *set* by a mark -/

/-- every cache entry that is fresh in `b` sits at the same key in `a` and was fresh there -/
def FreshLe (a b : St) : Prop :=
  ∀ k e', b.ce? k = some e' → e'.fresh = true → ∃ e, a.ce? k = some e ∧ e.fresh = true

theorem FreshLe.refl (a : St) : FreshLe a a := fun _ e' h hf => ⟨e', h, hf⟩
theorem FreshLe.trans {a b c : St} (h1 : FreshLe a b) (h2 : FreshLe b c) : FreshLe a c := by
  intro k e' h hf
  obtain ⟨e, he, hef⟩ := h2 k e' h hf
  exact h1 k e he hef

theorem ce?_of_subs {a b : St} (h : a.subs = b.subs) (k : Key) : a.ce? k = b.ce? k := by
  unfold St.ce?; rw [h]

theorem FreshLe.of_subs {a b : St} (h : b.subs = a.subs) : FreshLe a b := by
  intro k e' he hf; exact ⟨e', by rw [← ce?_of_subs h k]; exact he, hf⟩

theorem FreshLe.mapCE (st : St) (f : Key → CE → CE) (hf : ∀ k e, (f k e).fresh = true → e.fresh = true) :
    FreshLe st (st.mapCE f) := by
  intro k e' he hfr
  rw [ceOpt_mapCE] at he
  cases h : st.ce? k with
  | none => rw [h] at he; cases he
  | some e =>
    rw [h] at he
    simp only [Option.map_some, Option.some.injEq] at he
    subst he
    exact ⟨e, rfl, hf k e hfr⟩

theorem ce?_mapDV (st : St) (f : Key → DV → DV) (k : Key) : (st.mapDV f).ce? k = st.ce? k := by
  unfold St.ce? St.mapDV
  simp only [getElem?_mapI]
  cases st.subs[k.1]? <;> rfl

theorem FreshLe.mapDV (st : St) (f : Key → DV → DV) : FreshLe st (st.mapDV f) := by
  intro k e' he hf; exact ⟨e', by rw [← ce?_mapDV st f k]; exact he, hf⟩

theorem CE.invN_fresh (e : CE) (n : Nat) (h : (e.invN n).fresh = true) : e.fresh = true := by
  unfold CE.invN at h; split at h
  · exact h
  · cases h

theorem FreshLe.notify (st : St) (ks : List Key) : FreshLe st (st.notify ks) :=
  FreshLe.mapCE st _ (fun _ e h => CE.invN_fresh e _ h)

theorem FreshLe.of_map {a b : St}
    (h : ∀ key, ∃ g : CE → CE, (∀ c, (g c).fresh = true → c.fresh = true) ∧ b.ce? key = (a.ce? key).map g) :
    FreshLe a b := by
  intro k e' he hf
  obtain ⟨g, hg, hk⟩ := h k
  rw [hk] at he
  cases ha : a.ce? k with
  | none => rw [ha] at he; cases he
  | some e =>
    rw [ha] at he
    simp only [Option.map_some, Option.some.injEq] at he
    subst he
    exact ⟨e, rfl, hg e hf⟩

theorem FreshLe.register (st : St) (k : Key) (e : CE) : FreshLe st (st.register k e) := by
  apply FreshLe.of_map
  intro key
  refine ⟨fun c => if e.preCE.contains key then { c with deps := c.deps ++ [k] } else c,
          fun c h => by split at h <;> exact h, ?_⟩
  unfold St.register
  simp only
  rw [ceOpt_mapCE, ce?_mapDV]
  rfl

theorem FreshLe.unregister (st : St) (k : Key) (e : CE) : FreshLe st (st.unregister k e) := by
  apply FreshLe.of_map
  intro key
  refine ⟨fun c => if e.preCE.contains key then { c with deps := c.deps.erase k } else c,
          fun c h => by split at h <;> exact h, ?_⟩
  unfold St.unregister
  simp only
  rw [ceOpt_mapCE, ce?_mapDV]
  rfl

theorem FreshLe.foldl_unregister (l : List (Key × CE)) (st : St) :
    FreshLe st (l.foldl (fun acc ke => acc.unregister ke.1 ke.2) st) := by
  induction l generalizing st with
  | nil => exact FreshLe.refl _
  | cons a as ih => exact FreshLe.trans (FreshLe.unregister st a.1 a.2) (ih _)

theorem FreshLe.noteQ (st : St) : FreshLe st st.noteQ := by
  unfold St.noteQ
  have h1 : FreshLe st ({ st with qVer := st.qVer + 1 } : St) := FreshLe.of_subs rfl
  exact FreshLe.trans h1 (FreshLe.notify _ _)
theorem FreshLe.noteU (st : St) : FreshLe st st.noteU := by
  unfold St.noteU
  have h1 : FreshLe st ({ st with uVer := st.uVer + 1 } : St) := FreshLe.of_subs rfl
  exact FreshLe.trans h1 (FreshLe.notify _ _)
theorem FreshLe.noteZ (st : St) : FreshLe st st.noteZ := by
  unfold St.noteZ
  have h1 : FreshLe st ({ st with zVer := st.zVer + 1 } : St) := FreshLe.of_subs rfl
  exact FreshLe.trans h1 (FreshLe.notify _ _)
theorem FreshLe.noteY (st : St) : FreshLe st st.noteY := by
  unfold St.noteY
  exact FreshLe.trans (FreshLe.trans (FreshLe.noteQ st) (FreshLe.noteU _)) (FreshLe.noteZ _)

theorem FreshLe.invalSys (st : St) (g : Nat) : FreshLe st (st.invalSys g) := by
  rcases invalSys_subs st g with h | h
  · exact FreshLe.of_subs h
  · refine FreshLe.trans ?_ (FreshLe.of_subs (a := (({ st with q := [], u := [], z := [] } : St).noteY)) h)
    exact FreshLe.trans (FreshLe.of_subs (by rfl)) (FreshLe.noteY _)

/-- subsystem-wise: the entries of `b` are obtained from a prefix of those of `a` without raising `fresh` -/
theorem FreshLe.of_sub_prefix (a b : St)
    (h : ∀ (s : Nat) (sb' : Sub), b.subs[s]? = some sb' → ∃ sb : Sub, a.subs[s]? = some sb ∧
        ∀ (c : Nat) (e' : CE), sb'.ces[c]? = some e' → e'.fresh = true → ∃ e : CE, sb.ces[c]? = some e ∧ e.fresh = true) :
    FreshLe a b := by
  intro k e' he hf
  obtain ⟨sb', hs', hc'⟩ := ce?_mem he
  obtain ⟨sb, hs, hall⟩ := h k.1 sb' hs'
  obtain ⟨e, hc, hfe⟩ := hall k.2 e' hc' hf
  exact ⟨e, by unfold St.ce?; simp [hs, hc], hfe⟩

theorem restore_fresh (sb : Sub) (g c : Nat) (e' : CE) (h : (sb.restore g).ces[c]? = some e') (hf : e'.fresh = true) :
    ∃ e, sb.ces[c]? = some e ∧ e.fresh = true := by
  have key : ∀ (l : List CE) (cur : Nat), (l.map (fun e => e.unfresh g cur))[c]? = some e' →
      ∃ e, l[c]? = some e ∧ e.fresh = true := by
    intro l cur hl
    simp only [List.getElem?_map, Option.map_eq_some_iff] at hl
    obtain ⟨e, he, rfl⟩ := hl
    refine ⟨e, he, ?_⟩
    unfold CE.unfresh at hf; split at hf
    · cases hf
    · exact hf
  unfold Sub.restore at h
  split at h
  · exact key _ _ h
  · split at h
    · simp at h
    · obtain ⟨e, he, hfe⟩ := key _ _ h
      obtain ⟨r, hr⟩ := popBack_prefix CE.alloc g sb.ces
      exact ⟨e, getElem?_prefix hr he, hfe⟩

theorem FreshLe.invalAll (st : St) (g : Nat) : FreshLe st (st.invalAll g) := by
  unfold St.invalAll
  simp only
  refine FreshLe.trans (FreshLe.trans (FreshLe.invalSys st g) ?_) (FreshLe.foldl_unregister _ _)
  apply FreshLe.of_sub_prefix
  intro s sb' hs'
  simp only [List.getElem?_map, Option.map_eq_some_iff] at hs'
  obtain ⟨sb, hs, rfl⟩ := hs'
  exact ⟨sb, hs, fun c e' hc hf => restore_fresh sb _ c e' hc hf⟩

theorem FreshLe.modSub (st : St) (s : Nat) (f : Sub → Sub)
    (hf : ∀ (sb : Sub) (c : Nat) (e' : CE), (f sb).ces[c]? = some e' → e'.fresh = true →
        ∃ e : CE, sb.ces[c]? = some e ∧ e.fresh = true) :
    FreshLe st (st.modSub s f) := by
  apply FreshLe.of_sub_prefix
  intro s' sb' hs'
  unfold St.modSub at hs'
  simp only at hs'
  rw [getElem?_modAt] at hs'
  split at hs'
  · simp only [Option.map_eq_some_iff] at hs'
    obtain ⟨sb, hs, rfl⟩ := hs'
    exact ⟨sb, hs, hf sb⟩
  · exact ⟨sb', hs', fun c e' hc hfe => ⟨e', hc, hfe⟩⟩

theorem FreshLe.modCE (st : St) (k : Key) (f : CE → CE) (hf : ∀ e, (f e).fresh = true → e.fresh = true) :
    FreshLe st (st.modCE k f) := by
  unfold St.modCE
  apply FreshLe.modSub
  intro sb c e' hc hfe
  simp only at hc
  rw [getElem?_modAt] at hc
  split at hc
  · simp only [Option.map_eq_some_iff] at hc
    obtain ⟨e, he, rfl⟩ := hc
    exact ⟨e, he, hf e hfe⟩
  · exact ⟨e', hc, hfe⟩

theorem FreshLe.modDV (st : St) (k : Key) (f : DV → DV) : FreshLe st (st.modDV k f) := by
  unfold St.modDV
  apply FreshLe.modSub
  intro sb c e' hc hfe
  exact ⟨e', hc, hfe⟩

theorem FreshLe.pushCE (st : St) (s : Nat) (f : Sub → Sub) (e0 : Sub → CE) (h0 : ∀ sb, (e0 sb).fresh = false)
    (hf : ∀ sb, (f sb).ces = sb.ces ++ [e0 sb]) : FreshLe st (st.modSub s f) := by
  apply FreshLe.modSub
  intro sb c e' hc hfe
  rw [hf] at hc
  by_cases hlt : c < sb.ces.length
  · rw [List.getElem?_append_left hlt] at hc; exact ⟨e', hc, hfe⟩
  · rw [List.getElem?_append_right (by omega)] at hc
    cases hcc : c - sb.ces.length with
    | zero => rw [hcc] at hc; simp at hc; subst hc; rw [h0] at hfe; cases hfe
    | succ n => rw [hcc] at hc; simp at hc

end C18
