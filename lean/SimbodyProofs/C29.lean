import SimbodyModel.C29
import SimbodyProofs.Spatial

/-!
# C29 — mass-property and spatial-algebra identities

Model: `SimbodyModel/Spatial.lean` (mirrors MassProperties.h/.cpp, SpatialAlgebra.h).  Everything is over an
arbitrary field `K` (ordered for the validity test).  "Dense" means the 6×6 matrix written as 2×2 blocks of 3×3
(`SpatialMat`) acting on pairs of 3-vectors (`SpatialVec`).
-/
namespace C29
open Spatial Spatial.Mat33

macro "ext_ring" : tactic => `(tactic| ((try ext) <;> (try simp only []) <;> ring1))

section Field
variable {K : Type} [Field K]

/-! ## Point masses and the parallel-axis shift -/

/-- the two hand-written point-mass formulas agree: `Inertia::pointMassAt(p,m) = m · UnitInertia::pointMassAt(p)` -/
theorem pointMassAt_eq (p : Vec3 K) (m : K) :
    Inertia.pointMassAt p m = SymMat33.smul m (UnitInertia.pointMassAt p) := by
  simp only [Inertia.pointMassAt, UnitInertia.pointMassAt, SymMat33.smul]; ext_ring

/-- the point-mass inertia is `m (|p|² 1 − p pᵀ)`: its quadratic form is `m |p × ω|²` -/
theorem pointMassAt_quadratic_form (p w : Vec3 K) (m : K) :
    w.dot ((Inertia.pointMassAt p m).mulVec w) = m * (p.cross w).normSq := by
  simp only [Inertia.pointMassAt]; spatial_unfold; ring

/-- **shifting from and to the mass centre is exact and invertible** -/
theorem shift_roundtrip (I : SymMat33 K) (p : Vec3 K) (m : K) :
    Inertia.shiftToMassCenter (Inertia.shiftFromMassCenter I p m) p m = I ∧
    Inertia.shiftFromMassCenter (Inertia.shiftToMassCenter I p m) p m = I := by
  constructor <;> simp only [Inertia.shiftToMassCenter, Inertia.shiftFromMassCenter, Inertia.pointMassAt,
    SymMat33.add, SymMat33.sub] <;> ext_ring

/-- parallel-axis theorem in matrix form: `I_O = I_C + m (|p|² 1 − p pᵀ)` -/
theorem parallel_axis (I : SymMat33 K) (p : Vec3 K) (m : K) :
    (Inertia.shiftFromMassCenter I p m).toMat33 =
      I.toMat33.add (Mat33.smul m ((Mat33.diag p.normSq).sub (Mat33.ofCols (Vec3.smul p.x p) (Vec3.smul p.y p) (Vec3.smul p.z p)))) := by
  simp only [Inertia.shiftFromMassCenter, Inertia.pointMassAt, SymMat33.add]; spatial_unfold; ext_ring

/-- unit-inertia centroid shifts are exact and invertible -/
theorem unit_shift_roundtrip (G : SymMat33 K) (p : Vec3 K) :
    UnitInertia.shiftToCentroid (UnitInertia.shiftFromCentroid G p) p = G ∧
    UnitInertia.shiftFromCentroid (UnitInertia.shiftToCentroid G p) p = G := by
  constructor <;> simp only [UnitInertia.shiftToCentroid, UnitInertia.shiftFromCentroid, UnitInertia.pointMassAt,
    SymMat33.add, SymMat33.sub] <;> ext_ring

/-! ## Re-expression -/

/-- `Inertia::reexpress(R_FB)` is `R_FBᵀ I R_FB` -/
theorem reexpress_eq (I : SymMat33 K) (R : Mat33 K) (h : IsProper R) :
    (Inertia.reexpress I R).toMat33 = (R.transpose.mul I.toMat33).mul R := by
  have := Rotation.reexpressSymMat33_eq' R.transpose h.transpose I
  rwa [Mat33.transpose_transpose] at this

omit [Field K] in
theorem symMat_ext_of_toMat33 {a b : SymMat33 K} (h : a.toMat33 = b.toMat33) : a = b := by
  simp only [SymMat33.toMat33, Mat33.mk.injEq] at h
  obtain ⟨h1, h2, h3, -, h5, h6, -, -, h9⟩ := h
  ext <;> assumption

/-- re-expression is linear -/
theorem reexpress_linear (a b : SymMat33 K) (k : K) (R : Mat33 K) :
    Inertia.reexpress (a.add b) R = (Inertia.reexpress a R).add (Inertia.reexpress b R) ∧
    Inertia.reexpress (SymMat33.smul k a) R = SymMat33.smul k (Inertia.reexpress a R) := by
  constructor <;> simp only [Inertia.reexpress, Rotation.reexpressSymMat33, SymMat33.add, SymMat33.smul, Mat33.transpose] <;>
    ext_ring

/-- **re-expression preserves the principal moments**: the three coefficients of the characteristic polynomial
(trace, sum of principal 2×2 minors, determinant) are unchanged -/
theorem reexpress_preserves_char_poly (I : SymMat33 K) (R : Mat33 K) (h : IsProper R) :
    (Inertia.reexpress I R).trace = I.trace ∧ (Inertia.reexpress I R).minors2 = I.minors2 ∧
    (Inertia.reexpress I R).det = I.det := by
  have e := reexpress_eq I R h
  have hm := h.mult
  have hd := h.det1
  -- work with the full matrix B = Rᵀ A R
  set A := I.toMat33 with hA
  have tr : ((R.transpose.mul A).mul R).trace = A.trace := by
    rw [Mat33.trace_mul_comm, ← Mat33.mul_assoc, hm, Mat33.one_mul]
  have dt : ((R.transpose.mul A).mul R).det = A.det := by
    rw [Mat33.det_mul, Mat33.det_mul, Mat33.det_transpose, hd]; ring
  -- sum of principal minors = trace of the adjugate; adj(Rᵀ A R) = Rᵀ adj(A) R
  have key2 : ∀ S : SymMat33 K, S.minors2 = S.toMat33.adj.trace := by
    intro S; spatial_unfold; ring
  have adjmul : ∀ a b : Mat33 K, (a.mul b).adj = b.adj.mul a.adj := by intro a b; spatial_ring
  have adjB : ((R.transpose.mul A).mul R).adj = (R.transpose.mul A.adj).mul R := by
    rw [adjmul, adjmul, h.adj_eq, h.transpose.adj_eq, Mat33.transpose_transpose, Mat33.mul_assoc]
  refine ⟨?_, ?_, ?_⟩
  · show (Inertia.reexpress I R).toMat33.trace = A.trace
    rw [e, tr]
  · rw [key2, key2, e, adjB, Mat33.trace_mul_comm, ← Mat33.mul_assoc, hm, Mat33.one_mul]
  · show (Inertia.reexpress I R).toMat33.det = A.det
    rw [e, dt]

/-- re-expressing there and back is the identity -/
theorem reexpress_roundtrip (I : SymMat33 K) (R : Mat33 K) (h : IsProper R) :
    Inertia.reexpress (Inertia.reexpress I R) R.transpose = I := by
  apply symMat_ext_of_toMat33
  rw [reexpress_eq _ _ h.transpose, reexpress_eq _ _ h, Mat33.transpose_transpose]
  calc (R.mul ((R.transpose.mul I.toMat33).mul R)).mul R.transpose
      = ((R.mul R.transpose).mul I.toMat33).mul (R.mul R.transpose) := by simp only [Mat33.mul_assoc]
    _ = I.toMat33 := by rw [h.mult, Mat33.one_mul, Mat33.mul_one]

/-! ## SpatialInertia: structured operations equal the dense 6×6 ones -/

/-- **`SpatialInertia * SpatialVec` (the 45-flop structured product) equals the dense 6×6 product** with
`toSpatialMat()` -/
theorem si_mulVec_dense (s : SpatialInertia K) (V : SpatialVec K) :
    s.mulVec V = s.toSpatialMat.mulVec V := by
  simp only [SpatialInertia.mulVec, SpatialInertia.toSpatialMat]; spatial_unfold
  ext <;> simp only [] <;> ring1

/-- the dense form is symmetric -/
theorem si_toSpatialMat_symm (s : SpatialInertia K) : s.toSpatialMat.transpose = s.toSpatialMat := by
  simp only [SpatialInertia.toSpatialMat]; spatial_unfold
  ext <;> simp only [] <;> ring1

/-- `PhiMatrixTranspose` is the transpose of `PhiMatrix` -/
theorem phiTMat_eq_transpose (l : Vec3 K) : phiTMat l = (phiMat l).transpose := by
  simp only [phiTMat, phiMat]; spatial_unfold
  ext <;> simp only [] <;> ring1

/-- the structured `PhiMatrix` products equal the dense ones -/
theorem phi_ops_dense (l : Vec3 K) (V : SpatialVec K) (m : SpatialMat K) :
    phiMulVec l V = (phiMat l).mulVec V ∧ phiTMulVec l V = (phiTMat l).mulVec V ∧
    phiMulMat l m = (phiMat l).mul m ∧ matMulPhi m l = m.mul (phiMat l) ∧
    phiTMulMat l m = (phiTMat l).mul m ∧ matMulPhiT m l = m.mul (phiTMat l) := by
  refine ⟨?_, ?_, ?_, ?_, ?_, ?_⟩ <;>
    simp only [phiMulVec, phiTMulVec, phiMulMat, matMulPhi, phiTMulMat, matMulPhiT, phiMat, phiTMat] <;>
    spatial_unfold <;> ext <;> simp only [] <;> ring1

/-- **shift of a rigid-body spatial inertia in dense form**: moving the origin by `S` is the congruence
`φ(-S) M φ(-S)ᵀ` with the rigid shift operator -/
theorem si_shift_dense (s : SpatialInertia K) (S : Vec3 K) :
    (s.shift S).toSpatialMat = ((phiMat S.neg).mul s.toSpatialMat).mul (phiTMat S.neg) := by
  simp only [SpatialInertia.shift, SpatialInertia.toSpatialMat, UnitInertia.shiftToCentroid,
    UnitInertia.shiftFromCentroid, UnitInertia.pointMassAt, phiMat, phiTMat]
  spatial_unfold
  ext <;> simp only [] <;> ring1

/-- **spatial momentum shifts like a spatial force**: `M' V' = shiftForceBy(M V, S)` when the inertia and the
velocity are both shifted to the new origin `O + S` -/
theorem si_shift_momentum (s : SpatialInertia K) (S : Vec3 K) (V : SpatialVec K) :
    (s.shift S).mulVec (shiftVelocityBy V S) = shiftForceBy (s.mulVec V) S := by
  simp only [SpatialInertia.shift, SpatialInertia.mulVec, UnitInertia.shiftToCentroid,
    UnitInertia.shiftFromCentroid, UnitInertia.pointMassAt, shiftVelocityBy, shiftForceBy]
  spatial_unfold
  ext <;> simp only [] <;> ring1

/-- **power is invariant** when force and velocity are shifted to the same point -/
theorem power_shift_invariant (F V : SpatialVec K) (r : Vec3 K) :
    (shiftForceBy F r).dot (shiftVelocityBy V r) = F.dot V := by
  simp only [shiftForceBy, shiftVelocityBy]; spatial_unfold; ring

/-- **kinetic energy is invariant under a consistent shift** of spatial inertia and spatial velocity -/
theorem ke_shift_invariant (s : SpatialInertia K) (S : Vec3 K) (V : SpatialVec K) :
    (shiftVelocityBy V S).dot ((s.shift S).mulVec (shiftVelocityBy V S)) = V.dot (s.mulVec V) := by
  rw [si_shift_momentum]
  simp only [shiftForceBy, shiftVelocityBy, SpatialInertia.mulVec]; spatial_unfold; ring

/-- shifts compose additively and shifting back is the identity -/
theorem shift_by_add (V : SpatialVec K) (r s : Vec3 K) :
    shiftVelocityBy (shiftVelocityBy V r) s = shiftVelocityBy V (r.add s) ∧
    shiftForceBy (shiftForceBy V r) s = shiftForceBy V (r.add s) ∧
    shiftVelocityBy (shiftVelocityBy V r) r.neg = V ∧ shiftForceBy (shiftForceBy V r) r.neg = V := by
  refine ⟨?_, ?_, ?_, ?_⟩ <;> simp only [shiftVelocityBy, shiftForceBy] <;> spatial_unfold <;>
    ext <;> simp only [] <;> ring1

/-- `shiftVelocityFromTo` / `shiftForceFromTo` are the `By` forms with `to - from` -/
theorem shift_from_to (V : SpatialVec K) (a b : Vec3 K) :
    shiftVelocityFromTo V a b = shiftVelocityBy V (b.sub a) ∧ shiftForceFromTo V a b = shiftForceBy V (b.sub a) :=
  ⟨rfl, rfl⟩

/-- **`shiftAccelerationBy` is the time derivative of `shiftVelocityBy`** for an offset `r` fixed in the moving
body (`ṙ = ω × r`): the jet of the shifted velocity along `(V̇ = A, ṙ = ω × r)` has derivative part
`shiftAccelerationBy(A, ω, r)` -/
theorem shiftAcceleration_is_derivative (V A : SpatialVec K) (r : Vec3 K) :
    let Vj : SpatialVec (Jet K) := ⟨Vec3.jet V.w A.w, Vec3.jet V.v A.v⟩
    let rj : Vec3 (Jet K) := Vec3.jet r (V.w.cross r)
    (shiftVelocityBy Vj rj).w.map Jet.eps = (shiftAccelerationBy A V.w r).w ∧
    (shiftVelocityBy Vj rj).v.map Jet.eps = (shiftAccelerationBy A V.w r).v := by
  constructor <;> simp only [shiftVelocityBy, shiftAccelerationBy, Vec3.jet, Vec3.map, Vec3.add, Vec3.cross] <;>
    jet_simp <;> ext <;> simp only [] <;> ring1

/-- re-expression commutes with the spatial product: `M_B (Rᵀ V) = Rᵀ (M V)` — hence kinetic energy and momentum are
independent of the frame of expression -/
theorem si_reexpress_mulVec (s : SpatialInertia K) (R : Mat33 K) (h : IsProper R) (V : SpatialVec K) :
    (s.reexpress R).mulVec (V.trot R) = (s.mulVec V).trot R := by
  have hT := h.transpose
  have hG : ∀ w : Vec3 K, (UnitInertia.reexpress s.G R).mulVec (R.tmulVec w) = R.tmulVec (s.G.mulVec w) := by
    intro w
    have e := reexpress_eq s.G R h
    simp only [UnitInertia.reexpress, SymMat33.mulVec, Mat33.tmulVec]
    rw [e, ← Mat33.mulVec_mulVec, Mat33.mulVec_mulVec R, h.mult, Mat33.one_mulVec, Mat33.mulVec_mulVec]
  have hx : ∀ a b : Vec3 K, (R.tmulVec a).cross (R.tmulVec b) = R.tmulVec (a.cross b) := by
    intro a b; exact hT.cross a b
  simp only [SpatialInertia.reexpress, SpatialInertia.mulVec, SpatialVec.trot, SpatialVec.smul]
  rw [hG, hx, hx]
  simp only [Mat33.tmulVec]
  ext <;> simp only [Vec3.smul, Vec3.add, Vec3.sub, Mat33.mulVec, Mat33.transpose] <;> ring1

/-- **kinetic energy is invariant under re-expression** -/
theorem ke_reexpress_invariant (s : SpatialInertia K) (R : Mat33 K) (h : IsProper R) (V : SpatialVec K) :
    (V.trot R).dot ((s.reexpress R).mulVec (V.trot R)) = V.dot (s.mulVec V) := by
  rw [si_reexpress_mulVec s R h V]
  have hT := h.transpose
  simp only [SpatialVec.trot, SpatialVec.dot, Mat33.tmulVec]
  rw [hT.dot, hT.dot]

/-- **`transform` agrees with shift followed by re-expression**, in dense form: `X_FB` maps `M` to
`diag(Rᵀ,Rᵀ) φ(-p) M φ(-p)ᵀ diag(R,R)` acting on vectors -/
theorem si_transform_mulVec (s : SpatialInertia K) (X : Transform K) (h : IsProper X.R) (V : SpatialVec K) :
    (s.transform X).mulVec ((shiftVelocityBy V X.p).trot X.R) = (shiftForceBy (s.mulVec V) X.p).trot X.R := by
  unfold SpatialInertia.transform
  rw [si_reexpress_mulVec _ _ h, si_shift_momentum]

/-- composite body: adding two spatial inertias adds their dense matrices (total mass ≠ 0) -/
theorem si_add_dense (a b : SpatialInertia K) (h : a.m + b.m ≠ 0) :
    (a.add b).toSpatialMat = a.toSpatialMat.add b.toSpatialMat := by
  simp only [SpatialInertia.add, SpatialInertia.toSpatialMat, SpatialInertia.calcMassMoment, SpatialInertia.calcInertia]
  spatial_unfold
  ext <;> simp only [] <;> field_simp <;> ring1

/-- **power is invariant under re-expression** of force and velocity in another frame -/
theorem power_reexpress_invariant (R : Mat33 K) (h : IsProper R) (F V : SpatialVec K) :
    (F.trot R).dot (V.trot R) = F.dot V := by
  have hT := h.transpose
  simp only [SpatialVec.trot, SpatialVec.dot, Mat33.tmulVec]
  rw [hT.dot, hT.dot]

/-! ### König: the central inertia of a cloud is the cloud's inertia about its mass centre -/

/-- inertia about the origin, total mass and first moment of a cloud of point masses -/
def cloudInertia : List (Vec3 K × K) → SymMat33 K
  | [] => SymMat33.diag 0
  | pm :: r => (cloudInertia r).add (Inertia.pointMassAt pm.1 pm.2)
def cloudMass : List (Vec3 K × K) → K
  | [] => 0
  | pm :: r => cloudMass r + pm.2
def cloudMoment : List (Vec3 K × K) → Vec3 K
  | [] => Vec3.zero
  | pm :: r => (cloudMoment r).add (Vec3.smul pm.2 pm.1)
/-- the same cloud seen from the point `c` -/
def cloudAbout (c : Vec3 K) : List (Vec3 K × K) → SymMat33 K
  | [] => SymMat33.diag 0
  | pm :: r => (cloudAbout c r).add (Inertia.pointMassAt (pm.1.sub c) pm.2)

/-- the symmetric bilinear cross term of the point-mass inertia: `pm(p-c,m) = pm(p,m) - B(m p, c) + pm(c,m)` -/
def crossTerm (a c : Vec3 K) : SymMat33 K :=
  ⟨2 * (a.y * c.y + a.z * c.z), 2 * (a.x * c.x + a.z * c.z), 2 * (a.x * c.x + a.y * c.y),
   -(a.x * c.y + a.y * c.x), -(a.x * c.z + a.z * c.x), -(a.y * c.z + a.z * c.y)⟩

theorem cloudAbout_eq (c : Vec3 K) (l : List (Vec3 K × K)) :
    cloudAbout c l = ((cloudInertia l).sub (crossTerm (cloudMoment l) c)).add (Inertia.pointMassAt c (cloudMass l)) := by
  induction l with
  | nil => simp only [cloudAbout, cloudInertia, cloudMoment, cloudMass, crossTerm, Inertia.pointMassAt, Vec3.zero,
      SymMat33.diag, SymMat33.add, SymMat33.sub]; ext <;> simp only [] <;> ring1
  | cons pm r ih =>
    simp only [cloudAbout, cloudInertia, cloudMoment, cloudMass, ih]
    simp only [crossTerm, Inertia.pointMassAt, SymMat33.add, SymMat33.sub, Vec3.add, Vec3.sub, Vec3.smul]
    ext <;> simp only [] <;> ring1

/-- **König / parallel-axis theorem for a whole body**: if `c` is the mass centre (`M c = Σ mᵢ pᵢ`), then
`shiftToMassCenter` of the body's inertia about the origin is the body's inertia about `c` -/
theorem shiftToMassCenter_cloud (l : List (Vec3 K × K)) (c : Vec3 K)
    (hc : Vec3.smul (cloudMass l) c = cloudMoment l) :
    Inertia.shiftToMassCenter (cloudInertia l) c (cloudMass l) = cloudAbout c l := by
  rw [cloudAbout_eq, ← hc]
  simp only [Inertia.shiftToMassCenter, crossTerm, Inertia.pointMassAt, SymMat33.add, SymMat33.sub, Vec3.smul]
  ext <;> simp only [] <;> ring1

/-! ## ArticulatedInertia -/

/-- `ArticulatedInertia * SpatialVec` equals the dense product -/
theorem abi_mulVec_dense (P : ArticulatedInertia K) (V : SpatialVec K) : P.mulVec V = P.toSpatialMat.mulVec V := by
  simp only [ArticulatedInertia.mulVec, ArticulatedInertia.toSpatialMat]; spatial_unfold

/-- **`ArticulatedInertia::shift(s)` (the 72-flop structured formula with `halfCrossDiff`) equals the dense
`φ(s) P φ(s)ᵀ`** — all 36 entries, for every articulated inertia -/
theorem abi_shift_dense (P : ArticulatedInertia K) (s : Vec3 K) :
    (P.shift s).toSpatialMat = ((phiMat s).mul P.toSpatialMat).mul (phiTMat s) := by
  simp only [ArticulatedInertia.shift, ArticulatedInertia.toSpatialMat, ArticulatedInertia.halfCrossDiff, phiMat, phiTMat]
  spatial_unfold
  ext <;> simp only [] <;> ring1

/-- the documented sign convention: the articulated shift by `s` of a rigid-body inertia is the rigid-body shift by `-s` -/
theorem abi_shift_of_si (si : SpatialInertia K) (s : Vec3 K) :
    (ArticulatedInertia.ofSpatialInertia si).shift s = ArticulatedInertia.ofSpatialInertia (si.shift s.neg) := by
  simp only [ArticulatedInertia.shift, ArticulatedInertia.ofSpatialInertia, ArticulatedInertia.halfCrossDiff,
    SpatialInertia.shift, SpatialInertia.calcInertia, SpatialInertia.calcMassMoment, UnitInertia.shiftToCentroid,
    UnitInertia.shiftFromCentroid, UnitInertia.pointMassAt]
  spatial_unfold
  ext <;> simp only [] <;> ring1

/-- the rigid-body case of the articulated constructor has the same dense matrix -/
theorem abi_of_si_dense (si : SpatialInertia K) :
    (ArticulatedInertia.ofSpatialInertia si).toSpatialMat = si.toSpatialMat := by
  simp only [ArticulatedInertia.ofSpatialInertia, ArticulatedInertia.toSpatialMat, SpatialInertia.toSpatialMat,
    SpatialInertia.calcInertia, SpatialInertia.calcMassMoment]
  spatial_unfold
  ext <;> simp only [] <;> ring1

/-! ## MassProperties agree with SpatialInertia -/

/-- **transforming a body's mass properties agrees with transforming its spatial inertia** (`m ≠ 0`) -/
theorem mp_transform_agrees (mp : MassProperties K) (X : Transform K) (hm : mp.mass ≠ 0) :
    (mp.calcTransformedMassProps X).toSpatialInertia = mp.toSpatialInertia.transform X := by
  simp only [MassProperties.calcTransformedMassProps, MassProperties.ofInertia, MassProperties.toSpatialInertia,
    MassProperties.calcTransformedInertia, MassProperties.calcShiftedInertia, MassProperties.calcCentralInertia,
    MassProperties.calcInertia, SpatialInertia.transform, SpatialInertia.shift, SpatialInertia.reexpress,
    UnitInertia.reexpress, UnitInertia.shiftToCentroid, UnitInertia.shiftFromCentroid, UnitInertia.pointMassAt,
    Inertia.pointMassAt, Inertia.reexpress, Rotation.reexpressSymMat33, Transform.shiftBaseStationToFrame]
  spatial_unfold
  ext <;> simp only [] <;> field_simp <;> ring1

/-- shifting mass properties agrees with shifting the spatial inertia (`m ≠ 0`) -/
theorem mp_shift_agrees (mp : MassProperties K) (S : Vec3 K) (hm : mp.mass ≠ 0) :
    (mp.calcShiftedMassProps S).toSpatialInertia = mp.toSpatialInertia.shift S := by
  simp only [MassProperties.calcShiftedMassProps, MassProperties.ofInertia, MassProperties.toSpatialInertia,
    MassProperties.calcShiftedInertia, MassProperties.calcCentralInertia, MassProperties.calcInertia,
    SpatialInertia.shift, UnitInertia.shiftToCentroid, UnitInertia.shiftFromCentroid, UnitInertia.pointMassAt,
    Inertia.pointMassAt]
  spatial_unfold
  ext <;> simp only [] <;> field_simp <;> ring1

/-- `MassProperties::toSpatialMat` is the spatial inertia's dense matrix; `reexpress` agrees too -/
theorem mp_dense_agrees (mp : MassProperties K) (R : Mat33 K) :
    mp.toSpatialMat = mp.toSpatialInertia.toSpatialMat ∧
    (mp.reexpress R).toSpatialInertia = mp.toSpatialInertia.reexpress R := by
  constructor
  · simp only [MassProperties.toSpatialMat, MassProperties.toSpatialInertia, SpatialInertia.toSpatialMat]
    spatial_unfold
    ext <;> simp only [] <;> ring1
  · rfl

end Field

/-! ## Validity test (`Inertia_::isValidInertiaMatrix`) -/
section Ordered
variable {K : Type} [Field K] [LinearOrder K] [IsStrictOrderedRing K]

/-- the necessary conditions the code tests, without numerical slop: nonnegative moments, triangle inequalities,
products bounded by the opposite moment -/
structure IsPhysical (S : SymMat33 K) : Prop where
  dx : 0 ≤ S.xx
  dy : 0 ≤ S.yy
  dz : 0 ≤ S.zz
  t1 : S.zz ≤ S.xx + S.yy
  t2 : S.yy ≤ S.xx + S.zz
  t3 : S.xx ≤ S.yy + S.zz
  p1 : |2 * S.yz| ≤ S.xx
  p2 : |2 * S.xz| ≤ S.yy
  p3 : |2 * S.xy| ≤ S.zz

theorem absK_eq_abs (x : K) : absK x = |x| := by
  unfold absK
  split_ifs with h
  · exact (abs_of_neg h).symm
  · exact (abs_of_nonneg (not_lt.mp h)).symm

/-- **what acceptance means**: if `isValidInertiaMatrix` returns true then the moments are nonnegative and the
triangle inequalities and product bounds hold up to the slop `max(trace,1)·signif` the code allows -/
theorem valid_sound (signif : K) (S : SymMat33 K) (h : Inertia.isValidInertiaMatrix signif S = true) :
    let slop := max (S.xx + S.yy + S.zz) 1 * signif
    0 ≤ S.xx ∧ 0 ≤ S.yy ∧ 0 ≤ S.zz ∧
    S.zz ≤ S.xx + S.yy + slop ∧ S.yy ≤ S.xx + S.zz + slop ∧ S.xx ≤ S.yy + S.zz + slop ∧
    |2 * S.yz| ≤ S.xx + slop ∧ |2 * S.xz| ≤ S.yy + slop ∧ |2 * S.xy| ≤ S.zz + slop := by
  intro slop
  have hmax : maxK (0 + S.xx + S.yy + S.zz) 1 = max (S.xx + S.yy + S.zz) 1 := by
    unfold maxK
    rw [zero_add]
    split_ifs with c
    · exact (max_eq_right c.le).symm
    · exact (max_eq_left (not_lt.mp c)).symm
  unfold Inertia.isValidInertiaMatrix at h
  simp only [hmax, absK_eq_abs] at h
  split_ifs at h with c1 c2 c3
  · simp only [not_or, not_lt] at c1
    simp only [not_lt] at c2 c3
    exact ⟨c1.1, c1.2.1, c1.2.2, c2.1, c2.2.1, c2.2.2, c3.1, c3.2.1, c3.2.2⟩

/-- **rejection of what the code tests** (these are *necessary* conditions of a physical inertia; matrices that are invalid
only because they are not positive semi-definite are NOT rejected, see `accepted_not_psd`): a negative moment, a triangle
inequality violated by more than the slop, or a product of inertia exceeding its bound by more than the slop ⇒ rejected -/
theorem invalid_rejected (signif : K) (S : SymMat33 K)
    (h : S.xx < 0 ∨ S.yy < 0 ∨ S.zz < 0 ∨
         S.xx + S.yy + max (S.xx + S.yy + S.zz) 1 * signif < S.zz ∨
         S.xx + S.zz + max (S.xx + S.yy + S.zz) 1 * signif < S.yy ∨
         S.yy + S.zz + max (S.xx + S.yy + S.zz) 1 * signif < S.xx ∨
         S.xx + max (S.xx + S.yy + S.zz) 1 * signif < |2 * S.yz| ∨
         S.yy + max (S.xx + S.yy + S.zz) 1 * signif < |2 * S.xz| ∨
         S.zz + max (S.xx + S.yy + S.zz) 1 * signif < |2 * S.xy|) :
    Inertia.isValidInertiaMatrix signif S = false := by
  by_contra hne
  have hv : Inertia.isValidInertiaMatrix signif S = true := by
    cases hb : Inertia.isValidInertiaMatrix signif S
    · exact absurd hb hne
    · rfl
  obtain ⟨a1, a2, a3, b1, b2, b3, c1, c2, c3⟩ := valid_sound signif S hv
  rcases h with h | h | h | h | h | h | h | h | h <;> linarith

/-- every slop-free physical matrix is accepted, whatever nonnegative `signif` is used -/
theorem physical_accepted (signif : K) (hs : 0 ≤ signif) (S : SymMat33 K) (h : IsPhysical S) :
    Inertia.isValidInertiaMatrix signif S = true := by
  have hmax : maxK (0 + S.xx + S.yy + S.zz) 1 = max (S.xx + S.yy + S.zz) 1 := by
    unfold maxK
    rw [zero_add]
    split_ifs with c
    · exact (max_eq_right c.le).symm
    · exact (max_eq_left (not_lt.mp c)).symm
  have hslop : 0 ≤ max (S.xx + S.yy + S.zz) 1 * signif :=
    mul_nonneg (le_trans zero_le_one (le_max_right _ _)) hs
  obtain ⟨dx, dy, dz, t1, t2, t3, p1, p2, p3⟩ := h
  unfold Inertia.isValidInertiaMatrix
  simp only [hmax, absK_eq_abs]
  rw [if_neg (by simp only [not_or, not_lt]; exact ⟨dx, dy, dz⟩)]
  rw [if_neg (by simp only [not_not, not_lt]; exact ⟨by linarith, by linarith, by linarith⟩)]
  rw [if_neg (by simp only [not_not, not_lt]; exact ⟨by linarith, by linarith, by linarith⟩)]

/-- a point mass (`m ≥ 0`) anywhere is physical … -/
theorem pointMass_physical (p : Vec3 K) (m : K) (hm : 0 ≤ m) : IsPhysical (Inertia.pointMassAt p m) := by
  have hx := mul_nonneg hm (mul_self_nonneg p.x)
  have hy := mul_nonneg hm (mul_self_nonneg p.y)
  have hz := mul_nonneg hm (mul_self_nonneg p.z)
  have s1 := mul_nonneg hm (mul_self_nonneg (p.y - p.z))
  have s2 := mul_nonneg hm (mul_self_nonneg (p.y + p.z))
  have s3 := mul_nonneg hm (mul_self_nonneg (p.x - p.z))
  have s4 := mul_nonneg hm (mul_self_nonneg (p.x + p.z))
  have s5 := mul_nonneg hm (mul_self_nonneg (p.x - p.y))
  have s6 := mul_nonneg hm (mul_self_nonneg (p.x + p.y))
  refine ⟨?_, ?_, ?_, ?_, ?_, ?_, ?_, ?_, ?_⟩ <;> simp only [Inertia.pointMassAt] <;>
    first
    | nlinarith
    | (rw [abs_le]; constructor <;> nlinarith)

/-- … sums and nonnegative multiples of physical matrices are physical … -/
theorem physical_add (a b : SymMat33 K) (ha : IsPhysical a) (hb : IsPhysical b) : IsPhysical (a.add b) := by
  obtain ⟨a1, a2, a3, a4, a5, a6, a7, a8, a9⟩ := ha
  obtain ⟨b1, b2, b3, b4, b5, b6, b7, b8, b9⟩ := hb
  refine ⟨?_, ?_, ?_, ?_, ?_, ?_, ?_, ?_, ?_⟩ <;> simp only [SymMat33.add] <;>
    first
    | linarith
    | (rw [abs_le] at *; constructor <;> linarith)

theorem physical_smul (k : K) (hk : 0 ≤ k) (a : SymMat33 K) (ha : IsPhysical a) : IsPhysical (SymMat33.smul k a) := by
  obtain ⟨a1, a2, a3, a4, a5, a6, a7, a8, a9⟩ := ha
  rw [abs_le] at a7 a8 a9
  refine ⟨?_, ?_, ?_, ?_, ?_, ?_, ?_, ?_, ?_⟩ <;> simp only [SymMat33.smul] <;>
    first
    | nlinarith
    | (rw [abs_le]; constructor <;> nlinarith)

/-- … so **every inertia built from a cloud of nonnegative point masses is accepted** and is positive
semi-definite -/
theorem cloud_accepted_and_psd (signif : K) (hs : 0 ≤ signif) (pts : List (Vec3 K × K)) (hm : ∀ pm ∈ pts, 0 ≤ pm.2) :
    let I := pts.foldl (fun acc pm => acc.add (Inertia.pointMassAt pm.1 pm.2)) (SymMat33.diag 0)
    Inertia.isValidInertiaMatrix signif I = true ∧ ∀ w : Vec3 K, 0 ≤ w.dot (I.mulVec w) := by
  intro I
  suffices h : ∀ (l : List (Vec3 K × K)) (acc : SymMat33 K), (∀ pm ∈ l, 0 ≤ pm.2) → IsPhysical acc →
      (∀ w : Vec3 K, 0 ≤ w.dot (acc.mulVec w)) →
      IsPhysical (l.foldl (fun acc pm => acc.add (Inertia.pointMassAt pm.1 pm.2)) acc) ∧
      ∀ w : Vec3 K, 0 ≤ w.dot ((l.foldl (fun acc pm => acc.add (Inertia.pointMassAt pm.1 pm.2)) acc).mulVec w) by
    have z : IsPhysical (SymMat33.diag (0 : K)) := by
      refine ⟨?_, ?_, ?_, ?_, ?_, ?_, ?_, ?_, ?_⟩ <;> simp [SymMat33.diag]
    have zq : ∀ w : Vec3 K, 0 ≤ w.dot ((SymMat33.diag (0 : K)).mulVec w) := by
      intro w; simp [SymMat33.diag, SymMat33.mulVec, SymMat33.toMat33, Mat33.mulVec, Vec3.dot]
    obtain ⟨h1, h2⟩ := h pts _ hm z zq
    exact ⟨physical_accepted signif hs _ h1, h2⟩
  intro l
  induction l with
  | nil => intro acc _ h1 h2; exact ⟨h1, h2⟩
  | cons pm rest ih =>
    intro acc hpos h1 h2
    simp only [List.foldl_cons]
    apply ih
    · intro q hq; exact hpos q (List.mem_cons_of_mem _ hq)
    · exact physical_add _ _ h1 (pointMass_physical pm.1 pm.2 (hpos pm List.mem_cons_self))
    · intro w
      have e : w.dot ((acc.add (Inertia.pointMassAt pm.1 pm.2)).mulVec w)
          = w.dot (acc.mulVec w) + w.dot ((Inertia.pointMassAt pm.1 pm.2).mulVec w) := by
        spatial_unfold; ring
      rw [e, pointMassAt_quadratic_form]
      have : 0 ≤ pm.2 * (pm.1.cross w).normSq := by
        apply mul_nonneg (hpos pm List.mem_cons_self)
        simp only [Vec3.normSq, Vec3.dot]; nlinarith [mul_self_nonneg (pm.1.cross w).x, mul_self_nonneg (pm.1.cross w).y, mul_self_nonneg (pm.1.cross w).z]
      linarith [h2 w]

/-- **acceptance does NOT imply positive semi-definiteness** (finding, see notes/C29.md): the matrix with moments
`(1, 1, 1/5)` and products `(1/10, 1/2, 1/2)` passes every test of `isValidInertiaMatrix` (even with zero slop)
but has a negative eigen-direction: `ωᵀ I ω = -1/5 < 0` for `ω = (1, 1, -2)`.  The coded conditions are necessary
for a physical inertia, not sufficient. -/
theorem accepted_not_psd :
    Inertia.isValidInertiaMatrix (0 : Rat) ⟨1, 1, 1 / 5, 1 / 10, 1 / 2, 1 / 2⟩ = true ∧
    (⟨1, 1, -2⟩ : Vec3 Rat).dot ((⟨1, 1, 1 / 5, 1 / 10, 1 / 2, 1 / 2⟩ : SymMat33 Rat).mulVec ⟨1, 1, -2⟩) < 0 := by
  constructor
  · apply physical_accepted 0 le_rfl
    refine ⟨?_, ?_, ?_, ?_, ?_, ?_, ?_, ?_, ?_⟩ <;> norm_num [abs_le]
  · norm_num [Vec3.dot, SymMat33.mulVec, SymMat33.toMat33, Mat33.mulVec]

end Ordered

/-! ## Non-vacuity -/
example : IsProper (Rotation.aboutAxis (⟨3 / 5, 4 / 5⟩ : Trig Rat) .Z) := by
  refine ⟨?_, ?_, ?_⟩ <;> norm_num [Rotation.aboutAxis, Mat33.transpose, Mat33.mul, Mat33.one, Mat33.diag, Mat33.det]
example : IsPhysical (Inertia.pointMassAt (⟨1, 2, 3⟩ : Vec3 Rat) 2) := pointMass_physical _ _ (by norm_num)

end C29
