import SimbodyModel.C20
import SimbodyProofs.C20_lemmas
import Mathlib.Tactic.Module
import Mathlib.Tactic.Ring
import Mathlib.Tactic.FieldSimp
import Mathlib.Tactic.NormNum
import Mathlib.Tactic.Linarith
import Mathlib.Tactic.Positivity
import Mathlib.Algebra.Module.Basic
import Mathlib.Algebra.Order.Field.Basic

/-!
# C20 — property theorems: the integration methods are what their documentation says

The model (`SimbodyModel/C20.lean`) mirrors the C++ step routines statement by statement.  Here:

* **code = tableau**: each coded step equals the generic Runge–Kutta step of the Butcher tableau printed in
  the source comment — for every field `K`, every `K`-module `V` (all dimensions at once), every right-hand
  side `f`;
* **order conditions**: the tableaux satisfy *all* rooted-tree order conditions up to the documented order
  (and provably not the next one: the orders are sharp);
* **embedded error estimates** are what the comments claim;
* **quadrature exactness / linear test equation**: direct consequences stated on the *code*;
* **step-size controller**: bounds, soundness of the error test (accepted ⇔ err ≤ accuracy), hysteresis,
  progress of the retry loop — about the constants re-extracted from the current source
  (`SimbodyModel/Gen/Controller.lean`);
* **Hermite interpolation** reproduces every cubic and the end points.

Not formalised (cited): Butcher's theorem "order conditions up to p ⇒ local error O(h^{p+1})" for general
smooth `f` (Hairer–Nørsett–Wanner I, Thm II.2.13).
-/
set_option linter.unusedSimpArgs false
set_option linter.unusedTactic false
set_option linter.unreachableTactic false
set_option linter.unusedSectionVars false

namespace C20

/-! ## 1. code = tableau -/
section Tab
variable {K V : Type} [Field K] [CharZero K] [AddCommGroup V] [Module K V]

/-- Merson: the propagated solution is the `b` row and the `y1hat` of the comment is the `bhat` row of the
Butcher diagram printed in RungeKuttaMersonIntegrator.cpp -/
theorem merson_is_tableau (vabs : V → V) (f : K → V → V) (t0 h : K) (y0 : V) :
    (mersonStep vabs f t0 (t0 + h) y0 (f t0 y0)).1 = (rkStep mersonTableau f t0 h y0).1
    ∧ mersonY1hat f t0 (t0 + h) y0 (f t0 y0) = (rkStep mersonTableau f t0 h y0).2 := by
  simp only [mersonStep, mersonStepFull, mersonY1hat, rkStep, mersonTableau, rkStages, lincomb,
    List.nil_append, List.cons_append, add_sub_cancel_left]
  push_cast
  simp only [zero_mul, add_zero, one_mul, mul_zero, zero_smul]
  rw [show t0 + 1/3*h = t0 + h/3 by ring, show t0 + 1/2*h = t0 + h/2 by ring]
  generalize f t0 y0 = k0
  rw [show y0 + (h*(1/3)) • k0 = y0 + (h/3) • k0 by module]
  generalize f (t0 + h/3) (y0 + (h/3) • k0) = k1
  rw [show y0 + (h*(1/6)) • k0 + (h*(1/6)) • k1 = y0 + (h/6) • (k0 + k1) by module]
  generalize f (t0 + h/3) (y0 + (h/6) • (k0 + k1)) = k2
  rw [show y0 + (h*(1/8)) • k0 + (h*(3/8)) • k2 = y0 + (h/8) • (k0 + (3:K) • k2) by module]
  generalize f (t0 + h/2) (y0 + (h/8) • (k0 + (3:K) • k2)) = k3
  rw [show y0 + (h*(1/2)) • k0 + (h * -(3/2)) • k2 + (h*2) • k3
        = y0 + (h/2) • (k0 - (3:K) • k2 + (4:K) • k3) by module]
  generalize f (t0 + h) (y0 + (h/2) • (k0 - (3:K) • k2 + (4:K) • k3)) = k4
  constructor <;> module

/-- Merson's error estimate, exactly as the source comment claims:
`y1hat − y1 = (1/5)(y1 − ysave)`; the code stores `0.2·|y1 − ysave|`. -/
theorem merson_error_identity (vabs : V → V) (f : K → V → V) (t0 t1 : K) (y0 f0 : V) :
    let r := mersonStepFull vabs f t0 t1 y0 f0
    mersonY1hat f t0 t1 y0 f0 - r.1 = ((1:K)/5) • (r.1 - r.2.2)
    ∧ r.2.1 = ((2:K)/10) • vabs (r.1 - r.2.2)
    ∧ (mersonStep vabs f t0 t1 y0 f0).2 = r.2.1 := by
  simp only [mersonStep, mersonStepFull, mersonY1hat]
  push_cast
  refine ⟨?_, by first | trivial | rfl, by first | trivial | rfl⟩
  generalize t1 - t0 = h
  generalize f (t0 + h/3) (y0 + (h/3) • f0) = k1
  generalize f (t0 + h/3) (y0 + (h/6) • (f0 + k1)) = k2
  generalize f (t0 + h/2) (y0 + (h/8) • (f0 + (3:K) • k2)) = k3
  generalize f t1 (y0 + (h/2) • (f0 - (3:K) • k2 + (4:K) • k3)) = k4
  module

/-- Fehlberg: the code propagates the 4th-order row (`CY`) and its error estimate is
(5th-order solution) − (4th-order solution) -/
theorem rkf_is_tableau (f : K → V → V) (t0 h : K) (y0 : V) :
    (rkfStep f t0 (t0 + h) y0 (f t0 y0)).1 = (rkStep rkfTableau f t0 h y0).1
    ∧ (rkfStep f t0 (t0 + h) y0 (f t0 y0)).2
        = (rkStep rkfTableau f t0 h y0).2 - (rkStep rkfTableau f t0 h y0).1 := by
  simp only [rkfStep, rkStep, rkfTableau, rkStages, lincomb, List.nil_append, List.cons_append,
    add_sub_cancel_left]
  push_cast
  simp only [zero_mul, add_zero, mul_one, mul_zero, zero_smul]
  rw [show t0 + 1/4*h = t0 + h*(1/4) by ring, show t0 + 3/8*h = t0 + h*(3/8) by ring,
      show t0 + 12/13*h = t0 + h*(12/13) by ring, show t0 + 1/2*h = t0 + h*(1/2) by ring,
      show t0 + 1*h = t0 + h by ring]
  generalize f t0 y0 = k0
  generalize f (t0 + h*(1/4)) (y0 + (h*(1/4)) • k0) = k1
  generalize f (t0 + h*(3/8)) (y0 + (h*(3/32)) • k0 + (h*(9/32)) • k1) = k2
  generalize f (t0 + h*(12/13)) (y0 + (h*(1932/2197)) • k0 + (h * -(7200/2197)) • k1 + (h*(7296/2197)) • k2) = k3
  generalize f (t0 + h) (y0 + (h*(439/216)) • k0 + (h * -8) • k1 + (h*(3680/513)) • k2 + (h * -(845/4104)) • k3) = k4
  generalize f (t0 + h*(1/2)) (y0 + (h * -(8/27)) • k0 + (h*2) • k1 + (h * -(3544/2565)) • k2
      + (h*(1859/4104)) • k3 + (h * -(11/40)) • k4) = k5
  constructor <;> module

/-- RK3(2): propagated = Butcher's 3rd-order row; estimate = |y1 − explicit-midpoint solution| -/
theorem rk3_is_tableau (vabs : V → V) (f : K → V → V) (t0 h : K) (y0 : V) :
    (rk3Step vabs f t0 (t0 + h) y0 (f t0 y0)).1 = (rkStep rk3Tableau f t0 h y0).1
    ∧ (rk3Step vabs f t0 (t0 + h) y0 (f t0 y0)).2
        = vabs ((rkStep rk3Tableau f t0 h y0).1 - (rkStep rk3Tableau f t0 h y0).2) := by
  simp only [rk3Step, rkStep, rk3Tableau, rkStages, lincomb, List.nil_append, List.cons_append,
    add_sub_cancel_left]
  push_cast
  simp only [zero_mul, add_zero, one_mul, mul_zero, zero_smul, mul_one]
  rw [show t0 + 1/2*h = t0 + h/2 by ring]
  generalize f t0 y0 = k0
  rw [show y0 + (h*(1/2)) • k0 = y0 + (h/2) • k0 by module]
  generalize f (t0 + h/2) (y0 + (h/2) • k0) = k1
  rw [show y0 + (h * -1) • k0 + (h*2) • k1 = y0 + h • ((2:K) • k1 - k0) by module]
  generalize f (t0 + h) (y0 + h • ((2:K) • k1 - k0)) = k2
  refine ⟨by module, ?_⟩
  congr 1
  module

/-- RK2(1): propagated = explicit trapezoid row; estimate = |y1 − (y0 + h f1)| -/
theorem rk2_is_tableau (vabs : V → V) (f : K → V → V) (t0 h : K) (y0 : V) :
    (rk2Step vabs f t0 (t0 + h) y0 (f t0 y0)).1 = (rkStep rk2Tableau f t0 h y0).1
    ∧ (rk2Step vabs f t0 (t0 + h) y0 (f t0 y0)).2
        = vabs ((rkStep rk2Tableau f t0 h y0).1 - (rkStep rk2Tableau f t0 h y0).2) := by
  simp only [rk2Step, rkStep, rk2Tableau, rkStages, lincomb, List.nil_append, List.cons_append,
    add_sub_cancel_left]
  push_cast
  simp only [zero_mul, add_zero, one_mul, mul_zero, zero_smul, mul_one]
  generalize f t0 y0 = k0
  generalize f (t0 + h) (y0 + h • k0) = k1
  refine ⟨by module, ?_⟩
  congr 1
  module

/-- explicit Euler: propagated = Euler row; (signed) estimate = Euler solution − explicit-trapezoid solution -/
theorem euler_is_tableau (f : K → V → V) (t0 h : K) (y0 : V) :
    (eulerStep f t0 (t0 + h) y0 (f t0 y0)).1 = (rkStep eulerTableau f t0 h y0).1
    ∧ (eulerStep f t0 (t0 + h) y0 (f t0 y0)).2
        = (rkStep eulerTableau f t0 h y0).1 - (rkStep eulerTableau f t0 h y0).2 := by
  simp only [eulerStep, rkStep, eulerTableau, rkStages, lincomb, List.nil_append, List.cons_append,
    add_sub_cancel_left]
  push_cast
  simp only [zero_mul, add_zero, one_mul, mul_zero, zero_smul, mul_one]
  generalize f t0 y0 = k0
  generalize f (t0 + h) (y0 + h • k0) = k1
  constructor <;> first | trivial | module

/-- the Euler estimate is exactly (Euler solution) − (RK2 solution): both use `f1 = f(t1, y0 + h f0)` -/
theorem euler_err_eq_rk2_diff (vabs : V → V) (f : K → V → V) (t0 t1 : K) (y0 f0 : V) :
    (eulerStep f t0 t1 y0 f0).2 = (eulerStep f t0 t1 y0 f0).1 - (rk2Step vabs f t0 t1 y0 f0).1 := by
  simp only [eulerStep, rk2Step]

/-- SemiExplicitEuler2 = two SemiExplicitEuler half steps; its estimate = that − one big step
(`g` is evaluated once, at the half-step state, as in the code) -/
theorem see2_is_two_half_steps (nmul : V → V → V) (g : K → V → V → V → V × V) (t0 h : K)
    (q0 u0 z0 udot0 zdot0 : V) :
    let half := seeStep nmul t0 (t0 + h/2) q0 u0 z0 udot0 zdot0
    let d := g (t0 + h/2) half.1 half.2.1 half.2.2
    let full := seeStep nmul (t0 + h/2) (t0 + h/2 + h/2) half.1 half.2.1 half.2.2 d.1 d.2
    let big := seeStep nmul t0 (t0 + h) q0 u0 z0 udot0 zdot0
    let r := see2Step nmul g t0 (t0 + h) q0 u0 z0 udot0 zdot0
    r.1 = full ∧ r.2 = (full.1 - big.1, full.2.1 - big.2.1, full.2.2 - big.2.2) := by
  simp only [see2Step, seeStep, add_sub_cancel_left]
  push_cast
  constructor <;> rfl

end Tab

/-! ## 2. order conditions (all rooted trees up to order 5) -/
section Order
variable {K : Type} [Field K] [CharZero K]

/-- Merson: rows sum to `c`, the propagated weights satisfy all 8 conditions of order 4 — and not order 5;
the embedded weights satisfy all 4 conditions of order 3 — and not order 4 (so the estimate is a genuine
`O(h⁴)` quantity as the comment says) -/
theorem merson_order :
    RowSums (mersonTableau : Tableau K) ∧ Order4 (mersonTableau : Tableau K) mersonTableau.b
    ∧ ¬ Order5 (mersonTableau : Tableau K) mersonTableau.b
    ∧ Order3 (mersonTableau : Tableau K) mersonTableau.bhat
    ∧ ¬ Order4 (mersonTableau : Tableau K) mersonTableau.bhat := by
  refine ⟨?_, ?_, ?_, ?_, ?_⟩
  · simp only [RowSums, mersonTableau, List.mem_cons, List.not_mem_nil, or_false]
    rintro r (rfl | rfl | rfl | rfl | rfl) <;> norm_num
  all_goals
    simp only [Order5, Order4, Order3, Order2, Order1, mersonTableau, Tableau.c, Tableau.A, dot, had,
      List.map, List.zipWith, List.sum_cons, List.sum_nil]
    norm_num

/-- Fehlberg: the *propagated* weights (`CY`) are of order exactly 4; the weights `CY+CE` behind the
error estimate satisfy all 17 conditions of order 5.  (The constructor advertises order 5 through
`getMethodMinOrder()`; what is propagated is the 4th-order solution.) -/
theorem rkf_order :
    RowSums (rkfTableau : Tableau K) ∧ Order4 (rkfTableau : Tableau K) rkfTableau.b
    ∧ ¬ Order5 (rkfTableau : Tableau K) rkfTableau.b
    ∧ Order5 (rkfTableau : Tableau K) rkfTableau.bhat := by
  refine ⟨?_, ?_, ?_, ?_⟩
  · simp only [RowSums, rkfTableau, List.mem_cons, List.not_mem_nil, or_false]
    rintro r (rfl | rfl | rfl | rfl | rfl | rfl) <;> norm_num
  all_goals
    simp only [Order5, Order4, Order3, Order2, Order1, rkfTableau, Tableau.c, Tableau.A, dot, had,
      List.map, List.zipWith, List.sum_cons, List.sum_nil]
    norm_num

/-- RK3(2): order exactly 3, embedded (explicit midpoint) order exactly 2 -/
theorem rk3_order :
    RowSums (rk3Tableau : Tableau K) ∧ Order3 (rk3Tableau : Tableau K) rk3Tableau.b
    ∧ ¬ Order4 (rk3Tableau : Tableau K) rk3Tableau.b
    ∧ Order2 (rk3Tableau : Tableau K) rk3Tableau.bhat
    ∧ ¬ Order3 (rk3Tableau : Tableau K) rk3Tableau.bhat := by
  refine ⟨?_, ?_, ?_, ?_, ?_⟩
  · simp only [RowSums, rk3Tableau, List.mem_cons, List.not_mem_nil, or_false]
    rintro r (rfl | rfl | rfl) <;> norm_num
  all_goals
    simp only [Order4, Order3, Order2, Order1, rk3Tableau, Tableau.c, Tableau.A, dot, had,
      List.map, List.zipWith, List.sum_cons, List.sum_nil]
    norm_num

/-- RK2(1): order exactly 2, embedded order exactly 1 -/
theorem rk2_order :
    RowSums (rk2Tableau : Tableau K) ∧ Order2 (rk2Tableau : Tableau K) rk2Tableau.b
    ∧ ¬ Order3 (rk2Tableau : Tableau K) rk2Tableau.b
    ∧ Order1 (rk2Tableau : Tableau K) rk2Tableau.bhat
    ∧ ¬ Order2 (rk2Tableau : Tableau K) rk2Tableau.bhat := by
  refine ⟨?_, ?_, ?_, ?_, ?_⟩
  · simp only [RowSums, rk2Tableau, List.mem_cons, List.not_mem_nil, or_false]
    rintro r (rfl | rfl) <;> norm_num
  all_goals
    simp only [Order3, Order2, Order1, rk2Tableau, Tableau.c, Tableau.A, dot, had,
      List.map, List.zipWith, List.sum_cons, List.sum_nil]
    norm_num

/-- explicit Euler: order exactly 1; its comparison solution (explicit trapezoid) has order 2 -/
theorem euler_order :
    RowSums (eulerTableau : Tableau K) ∧ Order1 (eulerTableau : Tableau K) eulerTableau.b
    ∧ ¬ Order2 (eulerTableau : Tableau K) eulerTableau.b
    ∧ Order2 (eulerTableau : Tableau K) eulerTableau.bhat := by
  refine ⟨?_, ?_, ?_, ?_⟩
  · simp only [RowSums, eulerTableau, List.mem_cons, List.not_mem_nil, or_false]
    rintro r (rfl | rfl) <;> norm_num
  all_goals
    simp only [Order2, Order1, eulerTableau, Tableau.c, Tableau.A, dot, had,
      List.map, List.zipWith, List.sum_cons, List.sum_nil]
    norm_num

end Order

/-! ## 3. consequences stated on the code: quadrature exactness, linear test equation -/
section Direct
variable {K V : Type} [Field K] [CharZero K] [AddCommGroup V] [Module K V]

/-- antiderivative increment of `a0 + t a1 + t² a2 + t³ a3 + t⁴ a4` over `[t0, t0+h]` -/
def polyIncr (t0 h : K) (a0 a1 a2 a3 a4 : V) : V :=
  h • a0 + (((t0 + h)^2 - t0^2) / 2) • a1 + (((t0 + h)^3 - t0^3) / 3) • a2
    + (((t0 + h)^4 - t0^4) / 4) • a3 + (((t0 + h)^5 - t0^5) / 5) • a4

/-- Merson integrates `y' = p(t)`, `deg p ≤ 3` (vector coefficients) exactly -/
theorem merson_exact_cubic_quadrature (vabs : V → V) (t0 h : K) (y0 a0 a1 a2 a3 : V) :
    let f : K → V → V := fun t _ => a0 + t • a1 + t^2 • a2 + t^3 • a3
    (mersonStep vabs f t0 (t0 + h) y0 (f t0 y0)).1 = y0 + polyIncr t0 h a0 a1 a2 a3 0 := by
  simp only [mersonStep, mersonStepFull, polyIncr, add_sub_cancel_left]
  push_cast
  module

/-- RKF: the propagated (4th-order) solution is exact for `deg p ≤ 3`, the 5th-order solution
`y1 + y1err` for `deg p ≤ 4` -/
theorem rkf_exact_quadrature (t0 h : K) (y0 a0 a1 a2 a3 a4 : V) :
    (let f : K → V → V := fun t _ => a0 + t • a1 + t^2 • a2 + t^3 • a3
     (rkfStep f t0 (t0 + h) y0 (f t0 y0)).1 = y0 + polyIncr t0 h a0 a1 a2 a3 0)
    ∧ (let f : K → V → V := fun t _ => a0 + t • a1 + t^2 • a2 + t^3 • a3 + t^4 • a4
       (rkfStep f t0 (t0 + h) y0 (f t0 y0)).1 + (rkfStep f t0 (t0 + h) y0 (f t0 y0)).2
         = y0 + polyIncr t0 h a0 a1 a2 a3 a4) := by
  constructor
  · simp only [rkfStep, polyIncr, add_sub_cancel_left]
    push_cast
    module
  · simp only [rkfStep, polyIncr, add_sub_cancel_left]
    push_cast
    module

/-- RK3 exact for `deg p ≤ 2`, RK2 for `deg p ≤ 1`, Euler for constants -/
theorem low_order_exact_quadrature (vabs : V → V) (t0 h : K) (y0 a0 a1 a2 : V) :
    (let f : K → V → V := fun t _ => a0 + t • a1 + t^2 • a2
     (rk3Step vabs f t0 (t0 + h) y0 (f t0 y0)).1 = y0 + polyIncr t0 h a0 a1 a2 0 0)
    ∧ (let f : K → V → V := fun t _ => a0 + t • a1
       (rk2Step vabs f t0 (t0 + h) y0 (f t0 y0)).1 = y0 + polyIncr t0 h a0 a1 0 0 0)
    ∧ (let f : K → V → V := fun _ _ => a0
       (eulerStep f t0 (t0 + h) y0 (f t0 y0)).1 = y0 + polyIncr t0 h a0 0 0 0 0) := by
  refine ⟨?_, ?_, ?_⟩
  · simp only [rk3Step, polyIncr, add_sub_cancel_left]; push_cast; module
  · simp only [rk2Step, polyIncr, add_sub_cancel_left]; push_cast; module
  · simp only [eulerStep, polyIncr, add_sub_cancel_left]; module

/-- Linear test equation `y' = λ y` (any module `V`): each coded step multiplies `y0` by the Taylor
polynomial of `e^z`, `z = hλ`, to the method's order, plus the stated remainder term. -/
theorem linear_test_equation (vabs : V → V) (lam t0 h : K) (y0 : V) :
    let f : K → V → V := fun _ y => lam • y
    let z := h * lam
    (mersonStep vabs f t0 (t0 + h) y0 (f t0 y0)).1
        = (1 + z + z^2/2 + z^3/6 + z^4/24 + z^5/144) • y0
    ∧ mersonY1hat f t0 (t0 + h) y0 (f t0 y0)
        = (1 + z + z^2/2 + z^3/6 + z^4/24 + z^5/120) • y0
    ∧ (rkfStep f t0 (t0 + h) y0 (f t0 y0)).1
        = (1 + z + z^2/2 + z^3/6 + z^4/24 + z^5/104) • y0
    ∧ (rkfStep f t0 (t0 + h) y0 (f t0 y0)).1 + (rkfStep f t0 (t0 + h) y0 (f t0 y0)).2
        = (1 + z + z^2/2 + z^3/6 + z^4/24 + z^5/120 + z^6/2080) • y0
    ∧ (rk3Step vabs f t0 (t0 + h) y0 (f t0 y0)).1 = (1 + z + z^2/2 + z^3/6) • y0
    ∧ (rk2Step vabs f t0 (t0 + h) y0 (f t0 y0)).1 = (1 + z + z^2/2) • y0
    ∧ (eulerStep f t0 (t0 + h) y0 (f t0 y0)).1 = (1 + z) • y0 := by
  refine ⟨?_, ?_, ?_, ?_, ?_, ?_, ?_⟩
  · simp only [mersonStep, mersonStepFull, add_sub_cancel_left]; push_cast; module
  · simp only [mersonY1hat, add_sub_cancel_left]; push_cast; module
  · simp only [rkfStep, add_sub_cancel_left]; push_cast; module
  · simp only [rkfStep, add_sub_cancel_left]; push_cast; module
  · simp only [rk3Step, add_sub_cancel_left]; push_cast; module
  · simp only [rk2Step, add_sub_cancel_left]; push_cast; module
  · simp only [eulerStep, add_sub_cancel_left]; module

end Direct

/-! ## 4. Hermite / linear interpolation -/
section Interp
variable {K V : Type} [Field K] [CharZero K] [AddCommGroup V] [Module K V]

/-- `interpolateOrder3` returns `y0` at `t0` and `y1` at `t1` -/
theorem hermite_endpoints (t0 t1 : K) (y0 f0 y1 f1 : V) (h01 : t0 ≠ t1) :
    interpolateOrder3 t0 y0 f0 t1 y1 f1 t0 = y0 ∧ interpolateOrder3 t0 y0 f0 t1 y1 f1 t1 = y1 := by
  have hne : t1 - t0 ≠ 0 := sub_ne_zero.mpr (Ne.symm h01)
  constructor
  · simp only [interpolateOrder3, sub_self, zero_div]
    push_cast
    module
  · simp only [interpolateOrder3, div_self hne]
    push_cast
    module

/-- `interpolateOrder3` reproduces every cubic (vector coefficients) exactly from its end values and end
derivatives, at every `t` -/
theorem hermite_exact_for_cubics (t0 t1 t : K) (a0 a1 a2 a3 : V) (h01 : t0 ≠ t1) :
    let p : K → V := fun s => a0 + s • a1 + s^2 • a2 + s^3 • a3
    let dp : K → V := fun s => a1 + (2*s) • a2 + (3*s^2) • a3
    interpolateOrder3 t0 (p t0) (dp t0) t1 (p t1) (dp t1) t = p t := by
  have hne : t1 - t0 ≠ 0 := sub_ne_zero.mpr (Ne.symm h01)
  intro p dp
  -- write t = t0 + d h, t1 = t0 + h
  obtain ⟨h, rfl⟩ : ∃ h, t1 = t0 + h := ⟨t1 - t0, by ring⟩
  have hh : h ≠ 0 := by simpa using hne
  obtain ⟨d, rfl⟩ : ∃ d, t = t0 + d * h := ⟨(t - t0) / h, by field_simp; ring⟩
  simp only [interpolateOrder3, p, dp, add_sub_cancel_left, mul_div_assoc, div_self hh, mul_one]
  push_cast
  module

/-- the linear interpolation of the Euler variants reproduces affine functions and the end points -/
theorem linear_interp_exact_for_affine (t0 t1 t : K) (a0 a1 : V) (h01 : t0 ≠ t1) :
    interpolateLinear t0 (a0 + t0 • a1) t1 (a0 + t1 • a1) t = a0 + t • a1 := by
  have hne : t1 - t0 ≠ 0 := sub_ne_zero.mpr (Ne.symm h01)
  obtain ⟨h, rfl⟩ : ∃ h, t1 = t0 + h := ⟨t1 - t0, by ring⟩
  have hh : h ≠ 0 := by simpa using hne
  obtain ⟨d, rfl⟩ : ∃ d, t = t0 + d * h := ⟨(t - t0) / h, by field_simp; ring⟩
  have e : (t0 + h - (t0 + d * h)) / (t0 + h - t0) = 1 - d := by
    rw [add_sub_cancel_left]; field_simp; ring
  simp only [interpolateLinear, e]
  push_cast
  module

end Interp

/-! ## 5. step-size controller -/
section Ctl
variable {K : Type} [Field K] [LinearOrder K] [IsStrictOrderedRing K]

/-- the translator found every controller literal exactly once in the current source -/
theorem gen_extraction_ok : Gen.extractionOK = true := by decide

/-- the inequalities between the constants extracted from the current source that the controller
theorems below rely on (re-proved by `norm_num` against `Gen/Controller.lean` on every run) -/
theorem controller_constants_sane :
    (0 : K) < MinShrink ∧ (MinShrink : K) ≤ HysteresisLow ∧ (HysteresisLow : K) < 1
    ∧ (0 : K) < Safety ∧ (Safety : K) < 1
    ∧ (1 : K) < HysteresisHigh ∧ (HysteresisHigh : K) ≤ MaxGrow
    ∧ (0 : K) < LimitLow ∧ (LimitLow : K) < 1 ∧ (1 : K) < LimitHigh := by
  simp only [MinShrink, HysteresisLow, Safety, HysteresisHigh, MaxGrow, LimitLow, LimitHigh,
    Gen.minShrinkNum, Gen.minShrinkDen, Gen.hystLowNum, Gen.hystLowDen, Gen.safetyNum, Gen.safetyDen,
    Gen.hystHighNum, Gen.hystHighDen, Gen.maxGrowNum, Gen.maxGrowDen, Gen.limitLowNum, Gen.limitLowDen,
    Gen.limitHighNum, Gen.limitHighDen]
  norm_num

/-- With no user limits and `h > 0`, whatever the error and whatever `pow` returns:
`MinShrink·h ≤ h' ≤ MaxGrow·h`; `success ⇔ h' ≥ h`; a step that met the accuracy is never shrunk (and is
accepted); an artificially limited step never grows; a rejected step shrinks at least to `HysteresisLow·h`;
and the size either stays, or grows by ≥ `HysteresisHigh`, or shrinks by ≤ `HysteresisLow` (no dithering). -/
theorem adjust_bounds (pow : K → K → K) (acc err h : K) (errFinite limited : Bool) (p : Nat) (hpos : 0 < h) :
    let r := adjustStepSize pow acc none none errFinite err p limited h
    MinShrink * h ≤ r.1 ∧ r.1 ≤ MaxGrow * h
    ∧ (r.2 = true ↔ h ≤ r.1)
    ∧ (errFinite = true → err ≤ acc → h ≤ r.1)
    ∧ (limited = true → r.1 ≤ h)
    ∧ (r.2 = false → r.1 ≤ HysteresisLow * h)
    ∧ (r.1 = h ∨ HysteresisHigh * h ≤ r.1 ∨ r.1 ≤ HysteresisLow * h) := by
  obtain ⟨c1, c2, c3, -, -, c6, c7, -, -, -⟩ := controller_constants_sane (K := K)
  exact adjust_core pow acc err h errFinite limited p hpos c1 c2 c3 c6 c7

/-- Soundness and completeness of the error test (no user limits): provided `pow x e ≤ 1` for `0 ≤ x ≤ 1`
(true of `std::pow` for `e ≥ 0`), a step is accepted **iff** its error norm is finite and `≤ accuracy`. -/
theorem adjust_success_iff_err_le_acc (pow : K → K → K) (acc err h : K) (errFinite limited : Bool) (p : Nat)
    (hpos : 0 < h) (hacc : 0 < acc) (herr : 0 ≤ err)
    (hpow : ∀ x e, 0 ≤ x → x ≤ 1 → pow x e ≤ 1) :
    (adjustStepSize pow acc none none errFinite err p limited h).2 = true
      ↔ (errFinite = true ∧ err ≤ acc) := by
  obtain ⟨c1, c2, c3, c4, c5, c6, c7, -, -, -⟩ := controller_constants_sane (K := K)
  exact adjust_success_core pow acc err h errFinite limited p hpos hacc herr hpow c1 c2 c3 c4 c5 c6 c7

example : ∀ x e : ℚ, 0 ≤ x → x ≤ 1 → (fun x _ => x) x e ≤ 1 := fun _ _ _ h => h

/-- user limits are respected whenever they are consistent (`umin ≤ umax`); in particular
`setFixedStepSize(h)` (`umin = umax = h`) accepts every step with the size unchanged -/
theorem adjust_user_limits (pow : K → K → K) (acc err h lo hi : K) (errFinite limited : Bool) (p : Nat)
    (hlh : lo ≤ hi) :
    let r := adjustStepSize pow acc (some lo) (some hi) errFinite err p limited h
    lo ≤ r.1 ∧ r.1 ≤ hi ∧ (lo = hi → h = lo → r.1 = h ∧ r.2 = true) := by
  simp only [adjustStepSize]
  generalize cmax (cmin _ (MaxGrow * h)) (MinShrink * h) = x
  have h1 : lo ≤ cmin (cmax x lo) hi := le_cmin _ _ _ (le_cmax_right _ _) hlh
  have h2 : cmin (cmax x lo) hi ≤ hi := cmin_le_right _ _
  refine ⟨h1, h2, ?_⟩
  rintro rfl rfl
  have e : cmin (cmax x h) h = h := le_antisymm h2 h1
  exact ⟨e, by simp [e]⟩

example : ∃ lo hi : ℚ, lo ≤ hi := ⟨1, 2, by norm_num⟩

/-- the trial end time chosen by `takeOneStep`: strictly ahead, never beyond `tMax`, never more than
`LimitHigh·h` ahead; the "artificially limited" flag is raised exactly when the step was cut below
`LimitLow·h` -/
theorem chooseT1_spec (t0 h tMax : K) (hpos : 0 < h) (hmax : t0 < tMax) :
    let r := chooseT1 t0 h tMax
    t0 < r.1 ∧ r.1 ≤ tMax ∧ r.1 ≤ t0 + LimitHigh * h ∧ (r.2 = true ↔ r.1 < t0 + LimitLow * h)
    ∧ (r.2 = false → t0 + LimitLow * h ≤ r.1) := by
  obtain ⟨-, -, -, -, -, -, -, c8, c9, c10⟩ := controller_constants_sane (K := K)
  have a1 : LimitLow * h < h := by nlinarith
  have a2 : h < LimitHigh * h := by nlinarith
  have a3 : 0 < LimitLow * h := by positivity
  simp only [chooseT1]
  generalize (LimitLow : K) * h = lo at *
  generalize (LimitHigh : K) * h = hi at *
  split_ifs with h1 h2
  · refine ⟨hmax, le_refl _, by linarith, by simpa using h1, by simp⟩
  · refine ⟨by linarith, by linarith, by linarith, ?_, ?_⟩
    · simp; linarith
    · intro _; linarith
  · refine ⟨hmax, le_refl _, by linarith, ?_, ?_⟩
    · simp; linarith
    · intro _; linarith

example : (0:ℚ) < 1 ∧ (0:ℚ) < 2 := by norm_num

/-- the retry loop: whenever it returns `ok`, the returned step passed the error test
(`errNorm ≤ accuracy`, no user minimum), ends strictly after `t0` and not beyond `tMax`; and every retry
used a step at most `HysteresisLow` times the previous one. -/
theorem takeOneStep_accepts_only_accurate {S : Type} (pow : K → K → K) (acc : K) (umax : Option K) (p : Nat)
    (attempt : K → S × K × Bool) (t0 tMax : K) (hmax : t0 < tMax) (hacc : 0 < acc)
    (hpow : ∀ x e, 0 ≤ x → x ≤ 1 → pow x e ≤ 1)
    (hnorm : ∀ t, 0 ≤ (attempt t).2.1) (humax : ∀ m, umax = some m → 0 < m)
    (fuel : Nat) (h : K) (nf : Nat) (hpos : 0 < h) :
    let r := takeOneStep pow acc none umax p attempt t0 tMax fuel h nf
    r.ok = true → (r.errNormLast ≤ acc ∧ t0 < r.t1 ∧ r.t1 ≤ tMax ∧ r.lastStep = r.t1 - t0) := by
  obtain ⟨c1, c2, c3, c4, c5, -, -, c8, -, c10⟩ := controller_constants_sane (K := K)
  exact takeOneStep_core pow acc umax p attempt t0 tMax hmax hacc hpow hnorm humax c1 c2 c3 c4 c5 c8 c10 fuel h nf hpos

example : ∀ t : ℚ, 0 ≤ ((fun _ => ((), (0:ℚ), true)) t : Unit × ℚ × Bool).2.1 := fun _ => le_refl _

end Ctl

/-! ## 6. Velocity Verlet; non-negativity of the error norm -/
section VerletThm
variable {K V : Type} [Field K] [LinearOrder K] [IsStrictOrderedRing K] [AddCommGroup V] [Module K V]

/-- Velocity Verlet on constant acceleration (`qdot = u`, `udot = a`, `zdot = c`): the iteration converges at
once, the result is the exact solution `q0 + h u0 + h²/2 a`, `u0 + h a`, `z0 + h c`, and all three error
estimates vanish. -/
theorem verlet_exact_for_constant_acceleration (vnorm : V → K) (tiny acc t0 h : K) (q0 u0 z0 a c : V)
    (hn0 : vnorm 0 = 0) (hacc : 0 ≤ acc) :
    let deriv : K → V → V → V → V × V × V := fun _ _ u _ => (u, a, c)
    verletStep vnorm tiny acc deriv t0 (t0 + h) q0 u0 z0 u0 a c a
      = ((q0 + h • u0 + (h * h / 2) • a, u0 + h • a, z0 + h • c), (0, 0, 0), true) := by
  intro deriv
  have htol : (0 : K) ≤ verletTol acc := by
    simp only [verletTol, cmin]
    push_cast
    split_ifs <;> positivity
  have eu : u0 + (h / 2) • (a + a) = u0 + h • a := by module
  have ez : z0 + (h / 2) • (c + c) = z0 + h • c := by module
  simp only [verletStep, verletIter, deriv, add_sub_cancel_left]
  push_cast
  simp only [eu, ez, sub_self, hn0, zero_div, cmax, lt_self_iff_false, if_false, if_pos htol]
  refine Prod.ext rfl (Prod.ext (Prod.ext ?_ (Prod.ext ?_ ?_)) rfl)
  · simp only; module
  · simp
  · simp
example : (fun _ : ℚ => (0 : ℚ)) 0 = 0 := rfl

end VerletThm

section Norms
variable {K : Type} [Field K] [LinearOrder K] [IsStrictOrderedRing K]

theorem winf_nonneg (w v : List K) : 0 ≤ winf w v := by
  simp only [winf]
  push_cast
  generalize List.zipWith (fun wi vi => cabs (wi * vi)) w v = l
  have : ∀ (l : List K) (m : K), 0 ≤ m → 0 ≤ l.foldl (fun m a => if m < a then a else m) m := by
    intro l
    induction l with
    | nil => intro m hm; simpa using hm
    | cons a l ih =>
      intro m hm
      simp only [List.foldl_cons]
      apply ih
      split_ifs with h
      · exact le_trans hm h.le
      · exact hm
  exact this l 0 le_rfl

theorem wrms_nonneg (sqrt : K → K) (hs : ∀ x, 0 ≤ sqrt x) (w v : List K) : 0 ≤ wrms sqrt w v := by
  simp only [wrms]
  push_cast
  split_ifs
  · exact le_rfl
  · exact hs _

/-- the error norm handed to the controller is never negative (only `0 ≤ sqrt x` is assumed of `sqrt`):
the hypothesis `hnorm` of `takeOneStep_accepts_only_accurate` holds for `calcErrorNorm` -/
theorem errNorm_nonneg (sqrt : K → K) (hs : ∀ x, 0 ≤ sqrt x) (useInf : Bool) (wq su sz eq eu ez : List K) :
    0 ≤ errNorm sqrt useInf wq su sz eq eu ez := by
  simp only [errNorm]
  cases useInf <;> simp only [Bool.false_eq_true, if_false, if_true] <;> split_ifs <;>
    first | exact winf_nonneg _ _ | exact wrms_nonneg sqrt hs _ _

/-- `takeOneStep_accepts_only_accurate` with the error norm instantiated by the modelled `calcErrorNorm`:
no hypothesis on the norm is left, only `0 ≤ sqrt x` and the `pow` bound. -/
theorem takeOneStep_calcErrorNorm_accepts_only_accurate {S : Type} (pow : K → K → K) (sqrt : K → K)
    (hs : ∀ x, 0 ≤ sqrt x) (acc : K) (umax : Option K) (p : Nat) (useInf : Bool) (wq su sz : List K)
    (stepf : K → S × (List K × List K × List K) × Bool) (t0 tMax : K) (hmax : t0 < tMax) (hacc : 0 < acc)
    (hpow : ∀ x e, 0 ≤ x → x ≤ 1 → pow x e ≤ 1) (humax : ∀ m, umax = some m → 0 < m)
    (fuel : Nat) (h : K) (nf : Nat) (hpos : 0 < h) :
    let attempt : K → S × K × Bool := fun t =>
      ((stepf t).1, errNorm sqrt useInf wq su sz (stepf t).2.1.1 (stepf t).2.1.2.1 (stepf t).2.1.2.2, (stepf t).2.2)
    let r := takeOneStep pow acc none umax p attempt t0 tMax fuel h nf
    r.ok = true → (r.errNormLast ≤ acc ∧ t0 < r.t1 ∧ r.t1 ≤ tMax ∧ r.lastStep = r.t1 - t0) := by
  intro attempt
  exact takeOneStep_accepts_only_accurate pow acc umax p attempt t0 tMax hmax hacc hpow
    (fun t => errNorm_nonneg sqrt hs useInf wq su sz _ _ _) humax fuel h nf hpos

example : ∀ x : ℚ, 0 ≤ (fun _ => (0 : ℚ)) x := fun _ => le_refl _

end Norms

end C20
