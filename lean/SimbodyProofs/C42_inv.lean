import SimbodyProofs.C42_lemmas

/-! # C42 — the structural invariant of the graph maker and its preservation by `addMob` -/
namespace C42

/-- Structural invariant maintained by every step of `generateGraph` after the first loop. -/
structure Inv (g : Input) (s : St) : Prop where
  nb_pos : 0 < g.bodies.length
  nb_ge : g.bodies.length ≤ s.nb
  joints_wf : ∀ j, j < s.joints.length → (jointAt s j).parent < g.bodies.length ∧ (jointAt s j).child < g.bodies.length
  lvl0 : s.level 0 = some 0
  tree : ∀ b, (s.level b).isSome = true ↔ (b = 0 ∨ b ∈ outbs s)
  outb_nodup : (outbs s).Nodup
  outb_pos : 0 ∉ outbs s
  outb_lt : ∀ m ∈ s.mobs, m.outb < s.nb
  ordered : OrderedFrom [0] s.mobs
  joint_nodup : (mjoints s).Nodup
  jmob_some : ∀ j, (s.jmob j).isSome = true ↔ j ∈ mjoints s
  jmob_idx : ∀ j i, s.jmob j = some i → (s.mobs[i]?).map (·.joint) = some j
  bmob_idx : ∀ b i, s.bmob b = some i → (s.mobs[i]?).map (·.outb) = some b
  mob_kind : ∀ m ∈ s.mobs, m.joint < s.joints.length ∧ (TreeMob g s m ∨ SlaveMob g s m)
  levels : ∀ m ∈ s.mobs, s.level m.outb = some m.level ∧ ∃ l, s.level m.inb = some l ∧ m.level = l + 1
  lvl_bound : ∀ m ∈ s.mobs, m.level ≤ s.mobs.length
  masters : ∀ b, b < g.bodies.length → s.master b = none

/-- what the call sites of `addMobilizerForJoint` guarantee (the C++ `assert`s) -/
structure Pre (s : St) (j : Nat) : Prop where
  lt : j < s.joints.length
  free : s.jmob j = none
  notLoop : (jointAt s j).mustLoop = false
  xor : inTree s (jointAt s j).parent ≠ inTree s (jointAt s j).child

theorem jointAt_congr {s s' : St} (h : s'.joints = s.joints) (j : Nat) : jointAt s' j = jointAt s j := by
  simp [jointAt, h]

theorem TreeMob_congr {g : Input} {s s' : St} (h : s'.joints = s.joints) (m : Mob) :
    TreeMob g s' m ↔ TreeMob g s m := by
  simp [TreeMob, jointAt_congr h]

theorem SlaveMob_congr {g : Input} {s s' : St} (h : s'.joints = s.joints) (hm : s'.master = s.master)
    (hs : s'.slaves = s.slaves) (m : Mob) : SlaveMob g s' m ↔ SlaveMob g s m := by
  simp [SlaveMob, jointAt_congr h, hm, hs]

/-- `addMob` when the new mobilizer is `m` -/
def addMobWith (s : St) (j : Nat) (m : Mob) : St :=
  { s with level := upd s.level m.outb (some m.level), mobs := s.mobs ++ [m],
           bmob := upd s.bmob m.outb (some s.mobs.length), jmob := upd s.jmob j (some s.mobs.length) }

/-- explicit description of `addMob` under its precondition -/
theorem addMob_eq {s : St} {j : Nat} (h : Pre s j) :
    ∃ m l, s.level m.inb = some l ∧ s.level m.outb = none ∧ m.level = l + 1 ∧ m.joint = j ∧
      ((m.rev = false ∧ m.inb = (jointAt s j).parent ∧ m.outb = (jointAt s j).child) ∨
       (m.rev = true ∧ m.inb = (jointAt s j).child ∧ m.outb = (jointAt s j).parent)) ∧
      addMob s j = addMobWith s j m := by
  have hx := h.xor
  unfold inTree at hx
  cases hp : s.level (jointAt s j).parent with
  | some lp =>
    cases hc : s.level (jointAt s j).child with
    | some lc => simp [hp, hc] at hx
    | none =>
      refine ⟨⟨j, lp + 1, (jointAt s j).parent, (jointAt s j).child, false⟩, lp, hp, hc, rfl, rfl, Or.inl ⟨rfl, rfl, rfl⟩, ?_⟩
      simp [addMob, addMobWith, hp]
  | none =>
    cases hc : s.level (jointAt s j).child with
    | none => simp [hp, hc] at hx
    | some lc =>
      refine ⟨⟨j, lc + 1, (jointAt s j).child, (jointAt s j).parent, true⟩, lc, hc, hp, rfl, rfl, Or.inr ⟨rfl, rfl, rfl⟩, ?_⟩
      simp [addMob, addMobWith, hp, hc]

theorem mem_outbs {s : St} {b : Nat} : b ∈ outbs s ↔ ∃ m ∈ s.mobs, m.outb = b := by
  simp [outbs]

theorem mem_mjoints {s : St} {j : Nat} : j ∈ mjoints s ↔ ∃ m ∈ s.mobs, m.joint = j := by
  simp [mjoints]

/-- General step: push mobilizer `m` (outboard body not yet in the tree, inboard body in the tree, joint unused),
possibly creating the outboard body (`nb'`, `master'`, `slaves'`). -/
def pushMob (s : St) (m : Mob) (nb' : Nat) (master' : Nat → Option Nat) (slaves' : Nat → List Nat) : St :=
  { s with nb := nb', master := master', slaves := slaves',
           level := upd s.level m.outb (some m.level), mobs := s.mobs ++ [m],
           bmob := upd s.bmob m.outb (some s.mobs.length), jmob := upd s.jmob m.joint (some s.mobs.length) }

theorem push_inv {g : Input} {s : St} {m : Mob} {l nb' : Nat} {master' : Nat → Option Nat} {slaves' : Nat → List Nat}
    (hI : Inv g s) (hinb : s.level m.inb = some l) (houtb : s.level m.outb = none) (hlev : m.level = l + 1)
    (hjlt : m.joint < s.joints.length) (hfree : s.jmob m.joint = none) (hnb : s.nb ≤ nb') (houtlt : m.outb < nb')
    (hkind_new : TreeMob g (pushMob s m nb' master' slaves') m ∨ SlaveMob g (pushMob s m nb' master' slaves') m)
    (hkind_old : ∀ m' ∈ s.mobs, SlaveMob g s m' → SlaveMob g (pushMob s m nb' master' slaves') m')
    (hmasters : ∀ b, b < g.bodies.length → master' b = none) :
    Inv g (pushMob s m nb' master' slaves') := by
  -- facts about the new mobilizer
  have hout_notin : m.outb ∉ outbs s := by
    intro hmem
    have := (hI.tree m.outb).mpr (Or.inr hmem)
    simp [houtb] at this
  have hout_ne0 : m.outb ≠ 0 := by
    intro h0; rw [h0, hI.lvl0] at houtb; cases houtb
  have hinb_tree : m.inb = 0 ∨ m.inb ∈ outbs s := (hI.tree m.inb).mp (by simp [hinb])
  have hj_notin : m.joint ∉ mjoints s := by
    intro hmem
    have := (hI.jmob_some m.joint).mpr hmem
    simp [hfree] at this
  have hne_inb : m.inb ≠ m.outb := by
    intro he; rw [he, houtb] at hinb; cases hinb
  have hJ : (pushMob s m nb' master' slaves').joints = s.joints := rfl
  refine
    { nb_pos := hI.nb_pos, nb_ge := Nat.le_trans hI.nb_ge hnb, joints_wf := ?_, lvl0 := ?_, tree := ?_, outb_nodup := ?_,
      outb_pos := ?_, outb_lt := ?_, ordered := ?_, joint_nodup := ?_, jmob_some := ?_, jmob_idx := ?_,
      bmob_idx := ?_, mob_kind := ?_, levels := ?_, lvl_bound := ?_, masters := hmasters }
  · intro k hk; exact hI.joints_wf k hk
  · show upd s.level m.outb (some m.level) 0 = some 0
    rw [upd_ne _ _ (Ne.symm hout_ne0)]; exact hI.lvl0
  · intro b
    show (upd s.level m.outb (some m.level) b).isSome = true ↔ (b = 0 ∨ b ∈ (s.mobs ++ [m]).map (·.outb))
    by_cases hb : b = m.outb
    · subst hb; simp
    · rw [upd_ne _ _ hb]
      have := hI.tree b
      simp only [outbs] at this
      simp [this, hb]
  · show ((s.mobs ++ [m]).map (·.outb)).Nodup
    simp only [List.map_append, List.map_cons, List.map_nil]
    rw [List.nodup_append]
    refine ⟨hI.outb_nodup, by simp, ?_⟩
    intro a ha b hb
    simp at hb; subst hb
    intro he; subst he; exact hout_notin ha
  · show 0 ∉ (s.mobs ++ [m]).map (·.outb)
    simp only [List.map_append, List.map_cons, List.map_nil, List.mem_append, List.mem_singleton, not_or]
    exact ⟨hI.outb_pos, Ne.symm hout_ne0⟩
  · intro m' hm'
    replace hm' : m' ∈ s.mobs ∨ m' = m := by simpa [pushMob] using hm'
    rcases hm' with hm' | rfl
    · exact Nat.lt_of_lt_of_le (hI.outb_lt m' hm') hnb
    · exact houtlt
  · show OrderedFrom [0] (s.mobs ++ [m])
    rw [orderedFrom_snoc]
    refine ⟨hI.ordered, ?_⟩
    rcases hinb_tree with h0 | hm
    · left; simp [h0]
    · right; exact hm
  · show ((s.mobs ++ [m]).map (·.joint)).Nodup
    simp only [List.map_append, List.map_cons, List.map_nil]
    rw [List.nodup_append]
    refine ⟨hI.joint_nodup, by simp, ?_⟩
    intro a ha b hb
    simp at hb; subst hb
    intro he; subst he; exact hj_notin ha
  · intro k
    show (upd s.jmob m.joint (some s.mobs.length) k).isSome = true ↔ k ∈ (s.mobs ++ [m]).map (·.joint)
    by_cases hk : k = m.joint
    · subst hk; simp
    · rw [upd_ne _ _ hk]
      have := hI.jmob_some k
      simp only [mjoints] at this
      simp [this, hk]
  · intro k i hki
    show ((s.mobs ++ [m])[i]?).map (·.joint) = some k
    change upd s.jmob m.joint (some s.mobs.length) k = some i at hki
    by_cases hk : k = m.joint
    · subst hk; simp at hki; subst hki; simp
    · rw [upd_ne _ _ hk] at hki
      have := hI.jmob_idx k i hki
      have hi : i < s.mobs.length := by
        by_contra hcon
        simp [List.getElem?_eq_none (Nat.le_of_not_lt hcon)] at this
      rw [List.getElem?_append_left hi]; exact this
  · intro b i hbi
    show ((s.mobs ++ [m])[i]?).map (·.outb) = some b
    change upd s.bmob m.outb (some s.mobs.length) b = some i at hbi
    by_cases hb : b = m.outb
    · subst hb; simp at hbi; subst hbi; simp
    · rw [upd_ne _ _ hb] at hbi
      have := hI.bmob_idx b i hbi
      have hi : i < s.mobs.length := by
        by_contra hcon
        simp [List.getElem?_eq_none (Nat.le_of_not_lt hcon)] at this
      rw [List.getElem?_append_left hi]; exact this
  · intro m' hm'
    replace hm' : m' ∈ s.mobs ∨ m' = m := by simpa [pushMob] using hm'
    rcases hm' with hm' | rfl
    · obtain ⟨h1, h2⟩ := hI.mob_kind m' hm'
      refine ⟨h1, ?_⟩
      rcases h2 with h2 | h2
      · left; exact (TreeMob_congr hJ m').mpr h2
      · right; exact hkind_old m' hm' h2
    · exact ⟨hjlt, hkind_new⟩
  · intro m' hm'
    replace hm' : m' ∈ s.mobs ∨ m' = m := by simpa [pushMob] using hm'
    show upd s.level m.outb (some m.level) m'.outb = some m'.level ∧
         ∃ l', upd s.level m.outb (some m.level) m'.inb = some l' ∧ m'.level = l' + 1
    rcases hm' with hm' | rfl
    · obtain ⟨h1, l', h2, h3⟩ := hI.levels m' hm'
      have hne1 : m'.outb ≠ m.outb := by
        intro he; rw [he, houtb] at h1; cases h1
      have hne2 : m'.inb ≠ m.outb := by
        intro he; rw [he, houtb] at h2; cases h2
      rw [upd_ne _ _ hne1, upd_ne _ _ hne2]
      exact ⟨h1, l', h2, h3⟩
    · rw [upd_same, upd_ne _ _ hne_inb]
      exact ⟨rfl, l, hinb, hlev⟩
  · intro m' hm'
    replace hm' : m' ∈ s.mobs ∨ m' = m := by simpa [pushMob] using hm'
    show m'.level ≤ (s.mobs ++ [m]).length
    simp only [List.length_append, List.length_cons, List.length_nil]
    rcases hm' with hm' | rfl
    · have := hI.lvl_bound m' hm'; omega
    · rcases hinb_tree with h0 | hm
      · rw [h0, hI.lvl0] at hinb; cases hinb; omega
      · obtain ⟨m'', hm'', ho⟩ := mem_outbs.mp hm
        have h1 := (hI.levels m'' hm'').1
        rw [ho, hinb] at h1; cases h1
        have := hI.lvl_bound m'' hm''; omega

theorem addMobWith_eq_push (s : St) (m : Mob) : addMobWith s m.joint m = pushMob s m s.nb s.master s.slaves := rfl

theorem addMob_inv {g : Input} {s : St} {j : Nat} (hI : Inv g s) (h : Pre s j) : Inv g (addMob s j) := by
  obtain ⟨m, l, hinb, houtb, hlev, hmj, hends, heq⟩ := addMob_eq h
  subst hmj
  rw [heq, addMobWith_eq_push]
  have hjw := hI.joints_wf m.joint h.lt
  have hout_lt : m.outb < g.bodies.length := by
    rcases hends with ⟨_, _, ho⟩ | ⟨_, _, ho⟩ <;> rw [ho] <;> [exact hjw.2; exact hjw.1]
  refine push_inv hI hinb houtb hlev h.lt h.free (Nat.le_refl _) (Nat.lt_of_lt_of_le hout_lt hI.nb_ge) ?_ ?_ hI.masters
  · left
    exact (TreeMob_congr (s := s) (s' := pushMob s m s.nb s.master s.slaves) rfl m).mpr ⟨hout_lt, h.notLoop, hends⟩
  · intro m' _ hk
    exact (SlaveMob_congr (s := s) (s' := pushMob s m s.nb s.master s.slaves) rfl rfl rfl m').mpr hk

end C42
