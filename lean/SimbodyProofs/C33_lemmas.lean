import SimbodyModel.C33
import Mathlib.Data.List.Nodup
import Mathlib.Tactic.Linarith
import Mathlib.Tactic.Ring
/-!
# C33 — lemmas about the pure index bookkeeping (striping, quadtree partition, binStart)

Everything here is parametric: every thread count, task count, subdivision level, grid size.
The property theorems are stated in `SimbodyProofs/C33.lean`.
-/
namespace C33


theorem same_residue_gap {T i idx : Nat} (hlt : idx < i) (hm : i % T = idx % T) : idx + T ≤ i := by
  have h1 := Nat.div_add_mod i T
  have h2 := Nat.div_add_mod idx T
  have h3 : T * (idx / T) < T * (i / T) := by omega
  have h4 : idx / T < i / T := Nat.lt_of_mul_lt_mul_left h3
  have h5 : T * (idx / T + 1) ≤ T * (i / T) := Nat.mul_le_mul_left T h4
  rw [Nat.mul_add, Nat.mul_one] at h5
  omega

theorem mem_stripeLoop {T count : Nat} (hT : 0 < T) :
    ∀ fuel idx i, count ≤ idx + fuel →
      (i ∈ stripeLoop T count fuel idx ↔ idx ≤ i ∧ i < count ∧ i % T = idx % T) := by
  intro fuel
  induction fuel with
  | zero => intro idx i h; simp [stripeLoop]; omega
  | succ f ih =>
    intro idx i h
    unfold stripeLoop
    by_cases hc : idx < count
    · rw [if_pos hc, List.mem_cons, ih (idx + T) i (by omega), Nat.add_mod_right]
      constructor
      · rintro (rfl | ⟨h1, h2, h3⟩)
        · exact ⟨le_refl _, hc, rfl⟩
        · exact ⟨by omega, h2, h3⟩
      · rintro ⟨h1, h2, h3⟩
        by_cases he : i = idx
        · exact Or.inl he
        · exact Or.inr ⟨same_residue_gap (by omega) h3, h2, h3⟩
    · rw [if_neg hc]; simp; omega

theorem stripeLoop_sorted {T count : Nat} (hT : 0 < T) :
    ∀ fuel idx, (stripeLoop T count fuel idx).Pairwise (· < ·) := by
  intro fuel
  induction fuel with
  | zero => intro idx; simp [stripeLoop]
  | succ f ih =>
    intro idx
    unfold stripeLoop
    split
    · rw [List.pairwise_cons]
      refine ⟨?_, ih _⟩
      intro a ha
      -- a ≥ idx + T
      have : ∀ f idx a, a ∈ stripeLoop T count f idx → idx ≤ a := by
        intro f
        induction f with
        | zero => intro idx a h; simp [stripeLoop] at h
        | succ f ih2 =>
          intro idx a h
          unfold stripeLoop at h
          split at h
          · rcases List.mem_cons.mp h with rfl | h
            · exact le_refl _
            · have := ih2 _ _ h; omega
          · simp at h
      have := this _ _ _ ha
      omega
    · simp

theorem mem_stripe {T count w i : Nat} (hT : 0 < T) (hw : w < T) :
    i ∈ stripe T count w ↔ i < count ∧ i % T = w := by
  unfold stripe
  rw [mem_stripeLoop hT count w i (by omega), Nat.mod_eq_of_lt hw]
  constructor
  · rintro ⟨_, h2, h3⟩; exact ⟨h2, h3⟩
  · rintro ⟨h2, h3⟩; exact ⟨by rw [← h3]; exact Nat.mod_le _ _, h2, h3⟩

theorem stripe_nodup {T count w : Nat} (hT : 0 < T) : (stripe T count w).Nodup :=
  (stripeLoop_sorted hT count w).imp (fun h => Nat.ne_of_lt h)

/-- flattened assignment: every index exactly once -/
theorem peAssignment_nodup (n times : Nat) : (peAssignment n times).flatten.Nodup := by
  unfold peAssignment
  split
  · simp [List.nodup_range]
  · rename_i h
    have hT : 0 < n := by omega
    rw [List.nodup_flatten]
    constructor
    · intro l hl
      obtain ⟨w, _, rfl⟩ := List.mem_map.mp hl
      exact stripe_nodup hT
    · rw [List.pairwise_map]
      refine List.Pairwise.imp_of_mem ?_ (List.nodup_range (n := n))
      intro a b ha hb hab
      have ha' := List.mem_range.mp ha
      have hb' := List.mem_range.mp hb
      intro i hi hj
      rw [mem_stripe hT ha'] at hi
      rw [mem_stripe hT hb'] at hj
      omega

theorem mem_peAssignment (n times i : Nat) : i ∈ (peAssignment n times).flatten ↔ i < times := by
  unfold peAssignment
  split
  · simp
  · rename_i h
    have hT : 0 < n := by omega
    simp only [List.mem_flatten, List.mem_map, List.mem_range]
    constructor
    · rintro ⟨l, ⟨w, hw, rfl⟩, hi⟩
      exact ((mem_stripe hT hw).mp hi).1
    · intro hi
      exact ⟨_, ⟨i % n, Nat.mod_lt _ hT, rfl⟩, (mem_stripe hT (Nat.mod_lt _ hT)).mpr ⟨hi, rfl⟩⟩

/-! ## Parallel2DExecutor partition -/


theorem div_pow_succ (a l : Nat) : a / 2 ^ (l + 1) = a / 2 ^ l / 2 := by
  rw [Nat.pow_succ, Nat.div_div_eq_div_mul]

theorem two_pow_succ (l : Nat) : 2 ^ (l + 1) = 2 * 2 ^ l := by rw [Nat.pow_succ]; omega

theorem div_pow_succ' (a l : Nat) : a / 2 ^ (l + 1) = a / 2 / 2 ^ l := by
  rw [Nat.pow_succ', Nat.div_div_eq_div_mul]

/-- what `addSquare X Y p l` produces: column bins of block `X`, row bins (`y+1`) of block `Y+1`,
heap-numbered passes of block `p+1` (all at scale `2^l`) -/
structure SqSpec (X Y p l : Nat) (s : Sq) : Prop where
  hx : s.x / 2 ^ l = X
  hy : (s.y + 1) / 2 ^ l = Y + 1
  hp : (s.pass + 1) / 2 ^ l = p + 1

theorem addSquare_spec : ∀ l X Y p s, s ∈ addSquare X Y p l → SqSpec X Y p l s := by
  intro l
  induction l with
  | zero =>
    intro X Y p s h
    simp [addSquare] at h
    subst h
    exact ⟨by simp, by simp, by simp⟩
  | succ l ih =>
    intro X Y p s h
    simp only [addSquare, List.mem_append] at h
    rcases h with ((h | h) | h) | h <;> have := ih _ _ _ _ h <;>
      exact ⟨by rw [div_pow_succ, this.hx]; omega, by rw [div_pow_succ, this.hy]; omega,
             by rw [div_pow_succ, this.hp]; omega⟩

/-- two leaf squares may run in the same pass only if they share no bin -/
def NoShare (s t : Sq) : Prop := s.x ≠ t.x ∧ s.y ≠ t.y ∧ s.x ≠ t.y + 1 ∧ s.y + 1 ≠ t.x

def Compat (s t : Sq) : Prop := (s.x, s.y) ≠ (t.x, t.y) ∧ (s.pass = t.pass → NoShare s t)

theorem sq_cross {X1 Y1 p1 X2 Y2 p2 l : Nat} {s t : Sq} (hs : SqSpec X1 Y1 p1 l s) (ht : SqSpec X2 Y2 p2 l t)
    (hk : X1 ≠ X2 ∨ Y1 ≠ Y2) (hc : p1 = p2 → X1 ≠ X2 ∧ Y1 ≠ Y2 ∧ X1 ≠ Y2 + 1 ∧ Y1 + 1 ≠ X2) : Compat s t := by
  obtain ⟨sx, sy, sp⟩ := hs
  obtain ⟨tx, ty, tp⟩ := ht
  constructor
  · intro h
    simp only [Prod.mk.injEq] at h
    rw [h.1, tx] at sx
    rw [h.2, ty] at sy
    omega
  · intro hp
    rw [hp, tp] at sp
    obtain ⟨c1, c2, c3, c4⟩ := hc (by omega)
    refine ⟨?_, ?_, ?_, ?_⟩ <;> intro h
    · rw [h, tx] at sx; omega
    · rw [h, ty] at sy; omega
    · rw [h, ty] at sx; omega
    · rw [h, tx] at sy; omega

theorem addSquare_pairwise : ∀ l X Y p, X ≠ Y + 1 → (addSquare X Y p l).Pairwise Compat := by
  intro l
  induction l with
  | zero => intro X Y p _; simp [addSquare]
  | succ l ih =>
    intro X Y p hXY
    simp only [addSquare]
    refine List.pairwise_append.mpr ⟨List.pairwise_append.mpr ⟨List.pairwise_append.mpr ⟨?_, ?_, ?_⟩, ?_, ?_⟩, ?_, ?_⟩
    · exact ih _ _ _ (by omega)
    · exact ih _ _ _ (by omega)
    · intro s hs t ht
      exact sq_cross (addSquare_spec _ _ _ _ _ hs) (addSquare_spec _ _ _ _ _ ht) (by omega) (by omega)
    · exact ih _ _ _ (by omega)
    · intro s hs t ht
      rcases List.mem_append.mp hs with hs | hs <;>
      exact sq_cross (addSquare_spec _ _ _ _ _ hs) (addSquare_spec _ _ _ _ _ ht) (by omega) (by omega)
    · exact ih _ _ _ (by omega)
    · intro s hs t ht
      rcases List.mem_append.mp hs with hs | hs
      · rcases List.mem_append.mp hs with hs | hs <;>
        exact sq_cross (addSquare_spec _ _ _ _ _ hs) (addSquare_spec _ _ _ _ _ ht) (by omega) (by omega)
      · exact sq_cross (addSquare_spec _ _ _ _ _ hs) (addSquare_spec _ _ _ _ _ ht) (by omega) (by omega)

theorem addSquare_cover : ∀ l X Y p x r, x / 2 ^ l = X → r / 2 ^ l = Y + 1 →
    ∃ s ∈ addSquare X Y p l, s.x = x ∧ s.y + 1 = r := by
  intro l
  induction l with
  | zero =>
    intro X Y p x r hx hr
    simp at hx hr
    exact ⟨⟨p, X, Y⟩, by simp [addSquare], hx.symm, hr.symm⟩
  | succ l ih =>
    intro X Y p x r hx hr
    rw [div_pow_succ] at hx hr
    simp only [addSquare, List.mem_append]
    have hx' : x / 2 ^ l = 2 * X + 0 ∨ x / 2 ^ l = 2 * X + 1 := by omega
    have hr' : r / 2 ^ l = (2 * Y + 1) + 1 ∨ r / 2 ^ l = (2 * Y + 2) + 1 := by omega
    rcases hx' with hx' | hx' <;> rcases hr' with hr' | hr'
    · obtain ⟨s, hs, h⟩ := ih _ _ (2 * p + 1) x r hx' hr'; exact ⟨s, Or.inl (Or.inl (Or.inl hs)), h⟩
    · obtain ⟨s, hs, h⟩ := ih _ _ (2 * p + 2) x r hx' hr'; exact ⟨s, Or.inl (Or.inr hs), h⟩
    · obtain ⟨s, hs, h⟩ := ih _ _ (2 * p + 2) x r hx' hr'; exact ⟨s, Or.inr hs, h⟩
    · obtain ⟨s, hs, h⟩ := ih _ _ (2 * p + 1) x r hx' hr'; exact ⟨s, Or.inl (Or.inl (Or.inr hs)), h⟩

/-- what `addTriangle k k 0 L` produces -/
structure TriSpec (k L : Nat) (s : Sq) : Prop where
  hx : s.x / 2 ^ L = k
  hy : (s.y + 1) / 2 ^ L = k
  hp : s.pass + 1 < 2 ^ L
  hp1 : 1 ≤ s.pass
  hlt : s.x < s.y + 1
  hne : s.x / 2 ≠ (s.y + 1) / 2

theorem sq_to_tri {k l : Nat} {s : Sq} (h : SqSpec (2 * k) (2 * k) 0 (l + 1) s) : TriSpec k (l + 2) s := by
  obtain ⟨sx, sy, sp⟩ := h
  refine ⟨by rw [div_pow_succ, sx]; omega, by rw [div_pow_succ, sy]; omega, ?_, ?_, ?_, ?_⟩
  · have h2 : 0 < 2 ^ (l + 1) := Nat.two_pow_pos _
    have := Nat.lt_of_div_lt_div (a := s.pass + 1) (b := 2 * 2 ^ (l + 1)) (c := 2 ^ (l + 1)) (by
      rw [sp, Nat.mul_div_cancel _ h2]; omega)
    rw [two_pow_succ (l + 1)]; omega
  · rcases Nat.eq_zero_or_pos s.pass with h0 | h0
    · rw [h0] at sp
      have : 1 < 2 ^ (l + 1) := Nat.one_lt_two_pow (by omega)
      rw [Nat.div_eq_of_lt this] at sp; omega
    · exact h0
  · by_contra hge
    have := Nat.div_le_div_right (c := 2 ^ (l + 1)) (Nat.le_of_not_lt hge)
    omega
  · intro he
    rw [div_pow_succ'] at sx sy
    rw [he] at sx; omega

theorem addTriangle_spec : ∀ L k p s, p = 0 → s ∈ addTriangle k k p L → TriSpec k L s := by
  intro L
  induction L using Nat.strong_induction_on with
  | _ L ih =>
    intro k p s hp h
    match L, ih, h with
    | 0, _, h => simp [addTriangle] at h
    | 1, _, h => simp [addTriangle] at h
    | l + 2, ih, h =>
      subst hp
      simp only [addTriangle, List.mem_append] at h
      rcases h with (h | h) | h
      · exact sq_to_tri (addSquare_spec _ _ _ _ _ h)
      · have t := ih (l + 1) (by omega) (2 * k) _ s (by omega) h
        exact ⟨by rw [div_pow_succ, t.hx]; omega, by rw [div_pow_succ, t.hy]; omega,
               by have := t.hp; rw [two_pow_succ (l + 1)]; omega, t.hp1, t.hlt, t.hne⟩
      · have t := ih (l + 1) (by omega) (2 * k + 1) _ s (by omega) h
        exact ⟨by rw [div_pow_succ, t.hx]; omega, by rw [div_pow_succ, t.hy]; omega,
               by have := t.hp; rw [two_pow_succ (l + 1)]; omega, t.hp1, t.hlt, t.hne⟩

theorem pass_ge_of_sq {k l : Nat} {s : Sq} (h : SqSpec (2 * k) (2 * k) 0 (l + 1) s) : 2 ^ (l + 1) ≤ s.pass + 1 := by
  by_contra hlt
  have := h.hp
  rw [Nat.div_eq_of_lt (by omega)] at this
  omega

theorem tri_cross_sq {k l : Nat} {s t : Sq} (hs : SqSpec (2 * k) (2 * k) 0 (l + 1) s) (k' : Nat)
    (ht : TriSpec k' (l + 1) t) : Compat s t := by
  have hge := pass_ge_of_sq hs
  have hlt := ht.hp
  constructor
  · intro h
    simp only [Prod.mk.injEq] at h
    have sx := hs.hx; have sy := hs.hy; have tx := ht.hx; have ty := ht.hy
    rw [h.1, tx] at sx
    rw [h.2, ty] at sy
    omega
  · intro hp; omega

theorem tri_cross_tri {k1 k2 L : Nat} {s t : Sq} (hs : TriSpec k1 L s) (ht : TriSpec k2 L t) (hk : k1 ≠ k2) : Compat s t := by
  have sx := hs.hx; have sy := hs.hy; have tx := ht.hx; have ty := ht.hy
  constructor
  · intro h
    simp only [Prod.mk.injEq] at h
    rw [h.1, tx] at sx; omega
  · intro _
    refine ⟨?_, ?_, ?_, ?_⟩ <;> intro h
    · rw [h, tx] at sx; omega
    · rw [h, ty] at sy; omega
    · rw [h, ty] at sx; omega
    · rw [h, tx] at sy; omega

theorem addTriangle_pairwise : ∀ L k p, p = 0 → (addTriangle k k p L).Pairwise Compat := by
  intro L
  induction L using Nat.strong_induction_on with
  | _ L ih =>
    intro k p hp
    match L, ih with
    | 0, _ => simp [addTriangle]
    | 1, _ => simp [addTriangle]
    | l + 2, ih =>
      subst hp
      simp only [addTriangle]
      refine List.pairwise_append.mpr ⟨List.pairwise_append.mpr ⟨?_, ?_, ?_⟩, ?_, ?_⟩
      · exact addSquare_pairwise _ _ _ _ (by omega)
      · exact ih (l + 1) (by omega) _ _ (by omega)
      · intro s hs t ht
        exact tri_cross_sq (addSquare_spec _ _ _ _ _ hs) (2 * k) (addTriangle_spec _ _ _ _ (by omega) ht)
      · exact ih (l + 1) (by omega) _ _ (by omega)
      · intro s hs t ht
        have ht' := addTriangle_spec _ _ _ _ (by omega) ht
        rcases List.mem_append.mp hs with hs | hs
        · exact tri_cross_sq (addSquare_spec _ _ _ _ _ hs) (2 * k + 1) ht'
        · exact tri_cross_tri (addTriangle_spec _ _ _ _ (by omega) hs) ht' (by omega)

theorem addTriangle_cover : ∀ L k p a b, p = 0 → b / 2 ^ L = k → a / 2 ^ L = k → b < a → b / 2 ≠ a / 2 →
    ∃ s ∈ addTriangle k k p L, s.x = b ∧ s.y + 1 = a := by
  intro L
  induction L using Nat.strong_induction_on with
  | _ L ih =>
    intro k p a b hp hb ha hlt hne
    match L, ih, hb, ha with
    | 0, _, hb, ha => simp at hb ha; omega
    | 1, _, hb, ha => simp at hb ha; omega
    | l + 2, ih, hb, ha =>
      subst hp
      simp only [addTriangle, List.mem_append]
      rw [div_pow_succ] at hb ha
      have hle := Nat.div_le_div_right (c := 2 ^ (l + 1)) (Nat.le_of_lt hlt)
      have hb' : b / 2 ^ (l + 1) = 2 * k ∨ b / 2 ^ (l + 1) = 2 * k + 1 := by omega
      have ha' : a / 2 ^ (l + 1) = 2 * k ∨ a / 2 ^ (l + 1) = 2 * k + 1 := by omega
      rcases hb' with hb' | hb' <;> rcases ha' with ha' | ha'
      · obtain ⟨s, hs, h⟩ := ih (l + 1) (by omega) (2 * k) (2 * 0) a b (by omega) hb' ha' hlt hne
        exact ⟨s, Or.inl (Or.inr hs), h⟩
      · obtain ⟨s, hs, h⟩ := addSquare_cover (l + 1) (2 * k) (2 * k) (2 * 0) b a hb' ha'
        exact ⟨s, Or.inl (Or.inl hs), h⟩
      · omega
      · obtain ⟨s, hs, h⟩ := ih (l + 1) (by omega) (2 * k + 1) (2 * 0) a b (by omega) hb' ha' hlt hne
        exact ⟨s, Or.inr hs, h⟩

/-- all leaf squares for `levels = L` -/
def allSquares (L : Nat) : List Sq := addTriangle 0 0 0 L

theorem lt_two_pow_iff_div (a L : Nat) : a / 2 ^ L = 0 ↔ a < 2 ^ L := by
  rw [Nat.div_eq_zero_iff]; simp

/-- bin-level coverage: the leaf squares are exactly the bin pairs (column `b`, row `a`), `b < a < 2^L`, that do
not lie in one of the 2-bin diagonal triangles; none is produced twice -/
theorem squares_cover (L a b : Nat) :
    (∃ s ∈ allSquares L, s.x = b ∧ s.y + 1 = a) ↔ (b < a ∧ a < 2 ^ L ∧ b / 2 ≠ a / 2) := by
  constructor
  · rintro ⟨s, hs, rfl, rfl⟩
    have t := addTriangle_spec L 0 0 s rfl hs
    exact ⟨t.hlt, (lt_two_pow_iff_div _ _).mp t.hy, t.hne⟩
  · rintro ⟨h1, h2, h3⟩
    exact addTriangle_cover L 0 0 a b rfl ((lt_two_pow_iff_div _ _).mpr (by omega)) ((lt_two_pow_iff_div _ _).mpr h2) h1 h3

theorem squares_keys_nodup (L : Nat) : ((allSquares L).map (fun s => (s.x, s.y))).Nodup := by
  rw [List.Nodup, List.pairwise_map]
  exact (addTriangle_pairwise L 0 0 rfl).imp (fun h => h.1)

theorem squares_pass_valid (L : Nat) {s : Sq} (hs : s ∈ allSquares L) : 1 ≤ s.pass ∧ s.pass - 1 < 2 ^ L - 1 - 1 := by
  have t := addTriangle_spec L 0 0 s rfl hs
  have := t.hp; have := t.hp1
  omega

/-- `pass_conflict_free` at bin level: two different entries of `squares[p]` share neither their column bin nor
their row bin, nor is the column bin of one the row bin of the other -/
theorem passSquares_conflict_free (L p : Nat) :
    (passSquares (allSquares L) p).Pairwise
      (fun s t => s.1 ≠ t.1 ∧ s.2 ≠ t.2 ∧ s.1 ≠ t.2 + 1 ∧ s.2 + 1 ≠ t.1) := by
  unfold passSquares
  rw [List.pairwise_map]
  refine ((addTriangle_pairwise L 0 0 rfl).filter _).imp_of_mem ?_
  intro s t hs ht h
  have hs' := (List.mem_filter.mp hs).2
  have ht' := (List.mem_filter.mp ht).2
  simp only [beq_iff_eq] at hs' ht'
  exact h.2 (by omega)

/-! ### index level -/

theorem nodup_flatMap_of_inj {α β : Type} {l : List α} {f : α → List β} (hl : l.Nodup)
    (h1 : ∀ a ∈ l, (f a).Nodup) (h2 : ∀ a ∈ l, ∀ b ∈ l, ∀ e, e ∈ f a → e ∈ f b → a = b) :
    (l.flatMap f).Nodup := by
  rw [List.nodup_flatMap]
  refine ⟨h1, ?_⟩
  refine List.Pairwise.imp_of_mem ?_ hl
  intro a b ha hb hab
  intro e hea heb
  exact hab (h2 a ha b hb e hea heb)

theorem mem_span {a b i : Nat} : i ∈ span a b ↔ a ≤ i ∧ i < b := by
  unfold span
  simp only [List.mem_map, List.mem_range]
  constructor
  · rintro ⟨k, hk, rfl⟩; omega
  · rintro ⟨h1, h2⟩; exact ⟨i - a, by omega, by omega⟩

theorem span_nodup (a b : Nat) : (span a b).Nodup := by
  unfold span
  exact List.Nodup.map (fun x y h => by simpa using h) List.nodup_range

/-- `for i in [a,b): for j in [c, h i): (i,j)` -/
def wedge (a b c : Nat) (h : Nat → Nat) : List (Nat × Nat) :=
  (span a b).flatMap fun i => (span c (h i)).map fun j => (i, j)

theorem mem_wedge {a b c : Nat} {h : Nat → Nat} {i j : Nat} :
    (i, j) ∈ wedge a b c h ↔ (a ≤ i ∧ i < b) ∧ (c ≤ j ∧ j < h i) := by
  unfold wedge
  simp only [List.mem_flatMap, List.mem_map, mem_span, Prod.mk.injEq]
  constructor
  · rintro ⟨i', hi', j', hj', rfl, rfl⟩; exact ⟨hi', hj'⟩
  · rintro ⟨hi, hj⟩; exact ⟨i, hi, j, hj, rfl, rfl⟩

theorem wedge_nodup (a b c : Nat) (h : Nat → Nat) : (wedge a b c h).Nodup := by
  unfold wedge
  apply nodup_flatMap_of_inj (span_nodup _ _)
  · intro i _
    exact List.Nodup.map (fun x y hxy => by simpa using hxy) (span_nodup _ _)
  · intro i _ i' _ e he he'
    obtain ⟨j, _, rfl⟩ := List.mem_map.mp he
    obtain ⟨j', _, h'⟩ := List.mem_map.mp he'
    simp only [Prod.mk.injEq] at h'
    exact h'.1.symm

/-- `for i in [a,b): for j in [c,d): (i,j); (j,i)` -/
def symRect (a b c d : Nat) : List (Nat × Nat) :=
  (span a b).flatMap fun i => (span c d).flatMap fun j => [(i, j), (j, i)]

theorem mem_symRect {a b c d p q : Nat} :
    (p, q) ∈ symRect a b c d ↔ ((a ≤ p ∧ p < b) ∧ (c ≤ q ∧ q < d)) ∨ ((a ≤ q ∧ q < b) ∧ (c ≤ p ∧ p < d)) := by
  unfold symRect
  simp only [List.mem_flatMap, mem_span, List.mem_cons, Prod.mk.injEq, List.not_mem_nil, or_false]
  constructor
  · rintro ⟨i, hi, j, hj, (⟨rfl, rfl⟩ | ⟨rfl, rfl⟩)⟩
    · exact Or.inl ⟨hi, hj⟩
    · exact Or.inr ⟨hi, hj⟩
  · rintro (⟨hi, hj⟩ | ⟨hi, hj⟩)
    · exact ⟨p, hi, q, hj, Or.inl ⟨rfl, rfl⟩⟩
    · exact ⟨q, hi, p, hj, Or.inr ⟨rfl, rfl⟩⟩

theorem symRect_nodup {a b c d : Nat} (hd : b ≤ c ∨ d ≤ a) : (symRect a b c d).Nodup := by
  unfold symRect
  apply nodup_flatMap_of_inj (span_nodup _ _)
  · intro i hi
    have hi := mem_span.mp hi
    apply nodup_flatMap_of_inj (span_nodup _ _)
    · intro j hj
      have hj := mem_span.mp hj
      simp only [List.nodup_cons, List.mem_cons, Prod.mk.injEq, List.not_mem_nil, or_false, not_false_eq_true,
        List.nodup_nil, and_true]
      omega
    · intro j hj j' hj' e he he'
      have hj := mem_span.mp hj
      have hj' := mem_span.mp hj'
      simp only [List.mem_cons, List.not_mem_nil, or_false] at he he'
      rcases he with rfl | rfl <;> rcases he' with h | h <;> simp only [Prod.mk.injEq] at h <;> omega
  · intro i hi i' hi' e he he'
    have hi := mem_span.mp hi
    have hi' := mem_span.mp hi'
    simp only [List.mem_flatMap, List.mem_cons, List.not_mem_nil, or_false] at he he'
    obtain ⟨j, hj, he⟩ := he
    obtain ⟨j', hj', he'⟩ := he'
    have hj := mem_span.mp hj
    have hj' := mem_span.mp hj'
    rcases he with rfl | rfl <;> rcases he' with h | h <;> simp only [Prod.mk.injEq] at h <;> omega

/-- the upper end of the inner loop of `TriangleTask::execute` -/
def triUpper (rt : RangeType) (stop : Nat) : Nat → Nat :=
  match rt with
  | .full => fun _ => stop
  | .half => fun i => i
  | .halfPlusDiag => fun i => i + 1

theorem triPairs_eq (bs : Nat → Nat) (rt : RangeType) (w k : Nat) :
    triPairs bs rt w k = wedge (bs (w * k)) (bs (w * (k + 1))) (bs (w * k)) (triUpper rt (bs (w * (k + 1)))) := by
  cases rt <;> rfl

theorem sqPairs_eq_full (bs : Nat → Nat) (x y : Nat) :
    sqPairs bs .full (x, y) = symRect (bs (y + 1)) (bs (y + 2)) (bs x) (bs (x + 1)) := rfl

theorem sqPairs_eq_half (bs : Nat → Nat) (rt : RangeType) (hrt : rt ≠ .full) (x y : Nat) :
    sqPairs bs rt (x, y) = wedge (bs (y + 1)) (bs (y + 2)) (bs x) (fun _ => bs (x + 1)) := by
  cases rt
  · exact absurd rfl hrt
  · rfl
  · rfl

/-- facts about `binStart` that the coverage proof uses -/
structure BinsOK (bs : Nat → Nat) (B g : Nat) : Prop where
  mono : ∀ i j, i ≤ j → j ≤ B → bs i ≤ bs j
  zero : bs 0 = 0
  last : bs B = g

def InBin (bs : Nat → Nat) (b i : Nat) : Prop := bs b ≤ i ∧ i < bs (b + 1)

theorem inBin_exists {bs : Nat → Nat} {B g i : Nat} (h : BinsOK bs B g) (hi : i < g) : ∃ b, b < B ∧ InBin bs b i := by
  have key : ∀ n, i < bs n → ∃ b, b < n ∧ InBin bs b i := by
    intro n
    induction n with
    | zero => intro hn; rw [h.zero] at hn; omega
    | succ n ih =>
      intro hn
      by_cases hlt : i < bs n
      · obtain ⟨b, hb, hin⟩ := ih hlt; exact ⟨b, by omega, hin⟩
      · exact ⟨n, by omega, by unfold InBin; omega⟩
  exact key B (by rw [h.last]; exact hi)

theorem inBin_le {bs : Nat → Nat} {B g i j b b' : Nat} (h : BinsOK bs B g) (hb : b < B) (hb' : b' < B)
    (hi : InBin bs b i) (hj : InBin bs b' j) (hij : i ≤ j) : b ≤ b' := by
  by_contra hlt
  have := h.mono (b' + 1) b (by omega) (by omega)
  unfold InBin at hi hj; omega

theorem inBin_unique {bs : Nat → Nat} {B g i b b' : Nat} (h : BinsOK bs B g) (hb : b < B) (hb' : b' < B)
    (hi : InBin bs b i) (hi' : InBin bs b' i) : b = b' :=
  Nat.le_antisymm (inBin_le h hb hb' hi hi' (le_refl _)) (inBin_le h hb' hb hi' hi (le_refl _))

theorem binStart_ok (g B : Nat) (hB : 0 < B) : BinsOK (binStart g B) B g := by
  have hlt : ∀ i, i ≤ B → (2 * i * g + B) / (2 * B) ≤ g := by
    intro i hi
    have h1 : i * g ≤ B * g := Nat.mul_le_mul_right g hi
    have h2 : 2 * i * g + B < (g + 1) * (2 * B) := by
      have : 2 * i * g = 2 * (i * g) := by ring
      have : (g + 1) * (2 * B) = 2 * (B * g) + 2 * B := by ring
      omega
    have := (Nat.div_lt_iff_lt_mul (by omega : 0 < 2 * B)).mpr h2
    omega
  refine ⟨?_, ?_, by simp [binStart]⟩
  · intro i j hij hj
    unfold binStart
    by_cases hjB : j = B
    · rw [if_pos hjB]
      split
      · exact le_refl _
      · exact hlt i (by omega)
    · rw [if_neg hjB, if_neg (by omega)]
      apply Nat.div_le_div_right
      have : i * g ≤ j * g := Nat.mul_le_mul_right g hij
      have e1 : 2 * i * g = 2 * (i * g) := by ring
      have e2 : 2 * j * g = 2 * (j * g) := by ring
      omega
  · unfold binStart
    rw [if_neg (by omega)]
    simp only [Nat.mul_zero, Nat.zero_mul, Nat.zero_add]
    exact Nat.div_eq_of_lt (by omega)

section Cover
variable {bs : Nat → Nat} {B g L : Nat}

theorem tri_bins (h : BinsOK bs B g) {rt : RangeType} {k i j : Nat} (hk : 2 * k + 2 ≤ B)
    (he : (i, j) ∈ triPairs bs rt 2 k) :
    ∃ a b, a < B ∧ b < B ∧ InBin bs a i ∧ InBin bs b j ∧ a / 2 = k ∧ b / 2 = k := by
  rw [triPairs_eq, mem_wedge] at he
  obtain ⟨⟨i1, i2⟩, j1, j2⟩ := he
  have e1 : 2 * (k + 1) = 2 * k + 1 + 1 := by ring
  rw [e1] at i2 j2
  have hj2 : j < bs (2 * k + 1 + 1) := by
    cases rt <;> simp only [triUpper] at j2 <;> omega
  have pick : ∀ t, bs (2 * k) ≤ t → t < bs (2 * k + 1 + 1) → ∃ a, a < B ∧ InBin bs a t ∧ a / 2 = k := by
    intro t t1 t2
    by_cases hm : t < bs (2 * k + 1)
    · exact ⟨2 * k, by omega, ⟨t1, hm⟩, by omega⟩
    · exact ⟨2 * k + 1, by omega, ⟨by omega, t2⟩, by omega⟩
  obtain ⟨a, ha, hai, hak⟩ := pick i i1 i2
  obtain ⟨b, hb, hbj, hbk⟩ := pick j j1 hj2
  exact ⟨a, b, ha, hb, hai, hbj, hak, hbk⟩

theorem sq_bins {rt : RangeType} {x y i j : Nat} (he : (i, j) ∈ sqPairs bs rt (x, y)) :
    (InBin bs (y + 1) i ∧ InBin bs x j) ∨ (rt = .full ∧ InBin bs (y + 1) j ∧ InBin bs x i) := by
  by_cases hrt : rt = .full
  · subst hrt
    rw [sqPairs_eq_full, mem_symRect] at he
    rcases he with ⟨h1, h2⟩ | ⟨h1, h2⟩
    · exact Or.inl ⟨h1, h2⟩
    · exact Or.inr ⟨rfl, h1, h2⟩
  · rw [sqPairs_eq_half _ _ hrt, mem_wedge] at he
    exact Or.inl ⟨he.1, he.2⟩

theorem sqPairs_nodup (h : BinsOK bs B g) (rt : RangeType) {x y : Nat} (hxy : x < y + 1) (hy : y + 1 < B) :
    (sqPairs bs rt (x, y)).Nodup := by
  by_cases hrt : rt = .full
  · subst hrt
    rw [sqPairs_eq_full]
    exact symRect_nodup (Or.inr (h.mono (x + 1) (y + 1) (by omega) (by omega)))
  · rw [sqPairs_eq_half _ _ hrt]; exact wedge_nodup _ _ _ _

/-- a pair lies in at most one leaf square (squares identified by their bins) -/
theorem sq_unique (h : BinsOK bs B g) {rt : RangeType} {x y x' y' i j : Nat}
    (hxy : x < y + 1) (hy : y + 1 < B) (hxy' : x' < y' + 1) (hy' : y' + 1 < B)
    (he : (i, j) ∈ sqPairs bs rt (x, y)) (he' : (i, j) ∈ sqPairs bs rt (x', y')) : x = x' ∧ y = y' := by
  rcases sq_bins he with ⟨a1, a2⟩ | ⟨_, a1, a2⟩ <;> rcases sq_bins he' with ⟨b1, b2⟩ | ⟨_, b1, b2⟩
  · have := inBin_unique h (by omega) (by omega) a1 b1
    have := inBin_unique h (by omega) (by omega) a2 b2
    omega
  · have := inBin_unique h (by omega) (by omega) a1 b2
    have := inBin_unique h (by omega) (by omega) a2 b1
    omega
  · have := inBin_unique h (by omega) (by omega) a1 b2
    have := inBin_unique h (by omega) (by omega) a2 b1
    omega
  · have := inBin_unique h (by omega) (by omega) a1 b1
    have := inBin_unique h (by omega) (by omega) a2 b2
    omega

theorem compat_symm {s t : Sq} (h : Compat s t) : Compat t s := by
  obtain ⟨h1, h2⟩ := h
  refine ⟨fun e => h1 e.symm, fun hp => ?_⟩
  obtain ⟨a, b, c, d⟩ := h2 hp.symm
  exact ⟨fun e => a e.symm, fun e => b e.symm, fun e => d e.symm, fun e => c e.symm⟩

theorem pairwise_mem_ne {α : Type} {R : α → α → Prop} (hsymm : ∀ a b, R a b → R b a) :
    ∀ {l : List α}, l.Pairwise R → ∀ {a b}, a ∈ l → b ∈ l → a ≠ b → R a b := by
  intro l
  induction l with
  | nil => intro _ a b ha; simp at ha
  | cons x xs ih =>
    intro hp a b ha hb hne
    rw [List.pairwise_cons] at hp
    rcases List.mem_cons.mp ha with ha' | ha' <;> rcases List.mem_cons.mp hb with hb' | hb'
    · exact absurd (ha'.trans hb'.symm) hne
    · rw [ha']; exact hp.1 _ hb'
    · rw [hb']; exact hsymm _ _ (hp.1 _ ha')
    · exact ih hp.2 ha' hb' hne

theorem key_inj (L : Nat) {s t : Sq} (hs : s ∈ allSquares L) (ht : t ∈ allSquares L) (hx : s.x = t.x) (hy : s.y = t.y) :
    s = t := by
  by_contra hne
  have := pairwise_mem_ne (fun _ _ h => compat_symm h) (addTriangle_pairwise L 0 0 rfl) hs ht hne
  exact this.1 (by rw [hx, hy])

theorem sq_mem_bounds {s : Sq} (hs : s ∈ allSquares L) : s.x < s.y + 1 ∧ s.y + 1 < 2 ^ L ∧ s.x / 2 ≠ (s.y + 1) / 2 := by
  have t := addTriangle_spec L 0 0 s rfl hs
  exact ⟨t.hlt, (lt_two_pow_iff_div _ _).mp t.hy, t.hne⟩

/-- the user invocations of one `Parallel2DExecutor::execute` (parallel branch), for any `binStart`-like `bs` -/
def pairsOf (bs : Nat → Nat) (rt : RangeType) (B : Nat) (squares : List (List (Nat × Nat))) : List (Nat × Nat) :=
  ((((List.range (B / 2)).map (triPairs bs rt 2)) ::
      squares.map (fun sqs => sqs.map (sqPairs bs rt))).map List.flatten).flatten

def squaresOf (L : Nat) : List (List (Nat × Nat)) := (List.range (2 ^ L - 1)).map (passSquares (allSquares L))

theorem mem_squaresOf {L : Nat} {P : Nat × Nat → Prop} :
    (∃ sqs ∈ squaresOf L, ∃ sq ∈ sqs, P sq) ↔ ∃ s ∈ allSquares L, P (s.x, s.y) := by
  constructor
  · rintro ⟨sqs, hsqs, sq, hsq, hP⟩
    obtain ⟨p, _, rfl⟩ := List.mem_map.mp hsqs
    obtain ⟨s, hs, rfl⟩ := List.mem_map.mp hsq
    exact ⟨s, (List.mem_filter.mp hs).1, hP⟩
  · rintro ⟨s, hs, hP⟩
    have := squares_pass_valid L hs
    refine ⟨passSquares (allSquares L) (s.pass - 1), List.mem_map.mpr ⟨s.pass - 1, List.mem_range.mpr (by omega), rfl⟩,
      (s.x, s.y), ?_, hP⟩
    exact List.mem_map.mpr ⟨s, List.mem_filter.mpr ⟨hs, by simp only [beq_iff_eq]; omega⟩, rfl⟩

theorem mem_pairsOf {rt : RangeType} {e : Nat × Nat} :
    e ∈ pairsOf bs rt (2 ^ L) (squaresOf L) ↔
      (∃ k, k < 2 ^ L / 2 ∧ e ∈ triPairs bs rt 2 k) ∨ (∃ s ∈ allSquares L, e ∈ sqPairs bs rt (s.x, s.y)) := by
  unfold pairsOf
  simp only [List.map_cons, List.flatten_cons, List.mem_append, List.mem_flatten, List.mem_map, List.mem_range,
    List.map_map]
  constructor
  · rintro (⟨_, ⟨k, hk, rfl⟩, he⟩ | ⟨_, ⟨sqs, hsqs, rfl⟩, he⟩)
    · exact Or.inl ⟨k, hk, he⟩
    · right
      simp only [Function.comp, List.mem_flatten, List.mem_map] at he
      obtain ⟨_, ⟨sq, hsq, rfl⟩, he⟩ := he
      exact (mem_squaresOf (P := fun sq => e ∈ sqPairs bs rt sq)).mp ⟨sqs, hsqs, sq, hsq, he⟩
  · rintro (⟨k, hk, he⟩ | h)
    · exact Or.inl ⟨_, ⟨k, hk, rfl⟩, he⟩
    · right
      obtain ⟨sqs, hsqs, sq, hsq, he⟩ := (mem_squaresOf (P := fun sq => e ∈ sqPairs bs rt sq)).mpr h
      refine ⟨_, ⟨sqs, hsqs, rfl⟩, ?_⟩
      simp only [Function.comp, List.mem_flatten, List.mem_map]
      exact ⟨_, ⟨sq, hsq, rfl⟩, he⟩

theorem two_pow_even (hL : 1 ≤ L) : 2 ^ L = 2 * (2 ^ L / 2) := by
  obtain ⟨l, rfl⟩ : ∃ l, L = l + 1 := ⟨L - 1, by omega⟩
  rw [two_pow_succ]; omega

/-- coverage: a pair is executed iff it belongs to the requested range -/
theorem mem_pairsOf_iff (h : BinsOK bs (2 ^ L) g) (hL : 1 ≤ L) (rt : RangeType) (i j : Nat) :
    (i, j) ∈ pairsOf bs rt (2 ^ L) (squaresOf L) ↔ InRange rt g i j := by
  have hB := two_pow_even hL
  rw [mem_pairsOf]
  constructor
  · rintro (⟨k, hk, he⟩ | ⟨s, hs, he⟩)
    · rw [triPairs_eq, mem_wedge] at he
      obtain ⟨⟨i1, i2⟩, j1, j2⟩ := he
      have := h.mono (2 * (k + 1)) (2 ^ L) (by omega) (le_refl _)
      rw [h.last] at this
      cases rt <;> simp only [triUpper] at j2 <;> simp only [InRange] <;> omega
    · obtain ⟨b1, b2, _⟩ := sq_mem_bounds hs
      have m1 := h.mono (s.y + 1 + 1) (2 ^ L) (by omega) (le_refl _)
      have m2 := h.mono (s.x + 1) (s.y + 1) (by omega) (by omega)
      rw [h.last] at m1
      rcases sq_bins he with ⟨a1, a2⟩ | ⟨hrt, a1, a2⟩
      · unfold InBin at a1 a2
        cases rt <;> simp only [InRange] <;> omega
      · unfold InBin at a1 a2
        subst hrt; simp only [InRange]; omega
  · intro hr
    have hij : i < g ∧ j < g := by cases rt <;> simp only [InRange] at hr <;> omega
    obtain ⟨a, ha, hai⟩ := inBin_exists h hij.1
    obtain ⟨b, hb, hbj⟩ := inBin_exists h hij.2
    by_cases hab : a / 2 = b / 2
    · left
      refine ⟨a / 2, by omega, ?_⟩
      rw [triPairs_eq, mem_wedge]
      have e1 : 2 * (a / 2 + 1) = 2 * (a / 2) + 2 := by ring
      rw [e1]
      have m1 := h.mono (2 * (a / 2)) a (by omega) (by omega)
      have m2 := h.mono (a + 1) (2 * (a / 2) + 2) (by omega) (by omega)
      have m3 := h.mono (2 * (a / 2)) b (by omega) (by omega)
      have m4 := h.mono (b + 1) (2 * (a / 2) + 2) (by omega) (by omega)
      unfold InBin at hai hbj
      cases rt <;> simp only [triUpper, InRange] at hr ⊢ <;> omega
    · right
      by_cases hlt : b < a
      · obtain ⟨s, hs, sx, sy⟩ := (squares_cover L a b).mpr ⟨hlt, ha, fun e => hab e.symm⟩
        refine ⟨s, hs, ?_⟩
        by_cases hrt : rt = .full
        · subst hrt
          rw [sqPairs_eq_full, mem_symRect]
          left; rw [sx, show s.y + 2 = a + 1 by omega, sy]; exact ⟨hai, hbj⟩
        · rw [sqPairs_eq_half _ _ hrt, mem_wedge]
          rw [sx, show s.y + 2 = a + 1 by omega, sy]; exact ⟨hai, hbj⟩
      · have hlt' : a < b := by omega
        have m := h.mono (a + 1) b (by omega) (by omega)
        unfold InBin at hai hbj
        have hij' : i < j := by omega
        obtain ⟨s, hs, sx, sy⟩ := (squares_cover L b a).mpr ⟨hlt', hb, hab⟩
        refine ⟨s, hs, ?_⟩
        cases rt
        · rw [sqPairs_eq_full, mem_symRect]
          right; rw [sx, show s.y + 2 = b + 1 by omega, sy]; exact ⟨hbj, hai⟩
        · simp only [InRange] at hr; omega
        · simp only [InRange] at hr; omega

theorem passSquares_nodup (L p : Nat) : (passSquares (allSquares L) p).Nodup := by
  unfold passSquares
  exact ((squares_keys_nodup L).sublist (List.Sublist.map _ List.filter_sublist))

theorem mem_passSquares {L p : Nat} {sq : Nat × Nat} (h : sq ∈ passSquares (allSquares L) p) :
    ∃ s ∈ allSquares L, s.pass = p + 1 ∧ sq = (s.x, s.y) := by
  unfold passSquares at h
  obtain ⟨s, hs, rfl⟩ := List.mem_map.mp h
  obtain ⟨h1, h2⟩ := List.mem_filter.mp hs
  exact ⟨s, h1, by simpa using h2, rfl⟩

/-- exactly once: no pair is executed twice -/
theorem pairsOf_nodup (h : BinsOK bs (2 ^ L) g) (hL : 1 ≤ L) (rt : RangeType) :
    (pairsOf bs rt (2 ^ L) (squaresOf L)).Nodup := by
  have hB := two_pow_even hL
  unfold pairsOf
  rw [List.nodup_flatten]
  constructor
  · -- every round is duplicate free
    intro r hr
    simp only [List.map_cons, List.mem_cons, List.mem_map, List.map_map] at hr
    rcases hr with rfl | ⟨sqs, hsqs, rfl⟩
    · rw [← List.flatMap_def]
      apply nodup_flatMap_of_inj List.nodup_range
      · intro k _; rw [triPairs_eq]; exact wedge_nodup _ _ _ _
      · intro k hk k' hk' e he he'
        have hk := List.mem_range.mp hk
        have hk' := List.mem_range.mp hk'
        obtain ⟨a, _, ha, _, hai, _, hak, _⟩ := tri_bins h (by omega) he
        obtain ⟨a', _, ha', _, hai', _, hak', _⟩ := tri_bins h (by omega) he'
        have := inBin_unique h ha ha' hai hai'
        omega
    · simp only [Function.comp]
      obtain ⟨p, _, rfl⟩ := List.mem_map.mp hsqs
      rw [← List.flatMap_def]
      apply nodup_flatMap_of_inj (passSquares_nodup L p)
      · intro sq hsq
        obtain ⟨s, hs, _, rfl⟩ := mem_passSquares hsq
        obtain ⟨b1, b2, _⟩ := sq_mem_bounds hs
        exact sqPairs_nodup h rt b1 b2
      · intro sq hsq sq' hsq' e he he'
        obtain ⟨s, hs, _, rfl⟩ := mem_passSquares hsq
        obtain ⟨s', hs', _, rfl⟩ := mem_passSquares hsq'
        obtain ⟨b1, b2, _⟩ := sq_mem_bounds hs
        obtain ⟨b1', b2', _⟩ := sq_mem_bounds hs'
        obtain ⟨e1, e2⟩ := sq_unique h b1 b2 b1' b2' he he'
        rw [e1, e2]
  · -- different rounds are disjoint
    simp only [List.map_cons, List.pairwise_cons, List.map_map]
    constructor
    · intro r hr e he he'
      obtain ⟨sqs, hsqs, rfl⟩ := List.mem_map.mp hr
      obtain ⟨p, _, rfl⟩ := List.mem_map.mp hsqs
      simp only [Function.comp, List.mem_flatten, List.mem_map, List.mem_range] at he he'
      obtain ⟨_, ⟨k, hk, rfl⟩, he⟩ := he
      obtain ⟨_, ⟨sq, hsq, rfl⟩, he'⟩ := he'
      obtain ⟨s, hs, _, rfl⟩ := mem_passSquares hsq
      obtain ⟨b1, b2, b3⟩ := sq_mem_bounds hs
      obtain ⟨a, b, ha, hb, hai, hbj, hak, hbk⟩ := tri_bins h (by omega) (show (e.1, e.2) ∈ _ from he)
      rcases sq_bins (show (e.1, e.2) ∈ _ from he') with ⟨c1, c2⟩ | ⟨_, c1, c2⟩
      · have := inBin_unique h ha (by omega) hai c1
        have := inBin_unique h hb (by omega) hbj c2
        omega
      · have := inBin_unique h ha (by omega) hai c2
        have := inBin_unique h hb (by omega) hbj c1
        omega
    · rw [List.pairwise_map]
      unfold squaresOf
      rw [List.pairwise_map]
      refine List.Pairwise.imp_of_mem ?_ (List.nodup_range (n := 2 ^ L - 1))
      intro p q _ _ hpq e he he'
      simp only [Function.comp, List.mem_flatten, List.mem_map] at he he'
      obtain ⟨_, ⟨sq, hsq, rfl⟩, he⟩ := he
      obtain ⟨_, ⟨sq', hsq', rfl⟩, he'⟩ := he'
      obtain ⟨s, hs, hp, rfl⟩ := mem_passSquares hsq
      obtain ⟨s', hs', hp', rfl⟩ := mem_passSquares hsq'
      obtain ⟨b1, b2, _⟩ := sq_mem_bounds hs
      obtain ⟨b1', b2', _⟩ := sq_mem_bounds hs'
      obtain ⟨e1, e2⟩ := sq_unique h b1 b2 b1' b2' (show (e.1, e.2) ∈ _ from he) (show (e.1, e.2) ∈ _ from he')
      have := key_inj L hs hs' e1 e2
      rw [this] at hp
      omega
end Cover
end C33
