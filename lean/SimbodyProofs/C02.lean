import SimbodyProofs.TreeDynAbs
import SimbodyProofs.TreeDynRefine
import SimbodyProofs.TreeDynSim
import SimbodyProofs.TreeDynSimAbi
import SimbodyProofs.TreeDynSimFwd

/-!
# C02 — forward and inverse dynamics of trees are exact inverses

About the abstract twin `TreeDynAbs.MBT` (any rose tree, any joint dimensions, any `H`, `phi`, `M`, any field).
Bias terms are arbitrary per-body data: `ab n` = mobilizer Coriolis acceleration `a`, `fb n` = gyroscopic force
minus applied body force `b − F`; `fm` = applied mobility forces (`fieldF` reads them from the nodes).

* forward dynamics  `udotA ab fb fm`  : `calcUDotPass1Inward` / `calcUDotPass2Outward`
  (`calcAccelerationIgnoringConstraints`, `realize(Acceleration)`)
* inverse dynamics  `resid ab fb fm pol = Hᵀ F − f`, `F = FrP ab fb pol` :
  `calcBodyAccelerationsFromUdotOutward` + `calcInverseDynamicsPass2Inward` (`calcResidualForceIgnoringConstraints`)

`AllN ab pol Q t A⁺` says `Q` holds at every body of `t`, each body seeing the acceleration the outward pass
(driven by the accelerations `pol`) delivers to it.
-/

open Matrix

namespace C02
open TreeDynAbs TreeDynAbs.MBT

variable {K : Type} [Field K] {ι : Type} [Fintype ι] [DecidableEq ι]
variable (ab fb : Bd K ι → ι → K) (fm : MobF K ι)

/-- **inverse dynamics of the forward-dynamics accelerations returns a zero residual — at every body**
(`M u̇ + f_inertial = f_applied`) -/
theorem rnea_aba_zero (t : MBT K ι) (Ap : ι → K) (h : WF t) :
    AllN ab (udotA ab fb fm) (fun t Ap => resid ab fb fm (udotA ab fb fm) t Ap = 0) t Ap :=
  allN_of_forall ab (udotA ab fb fm) _
    (fun t Ap h => by simp only [resid, residual_root ab fb fm t Ap h, sub_self]) t Ap h

/-- forest form (bodies hanging off Ground, whose acceleration is zero) -/
theorem forest_rnea_aba_zero (cs : List (MBT K ι)) (h : ∀ c ∈ cs, WF c) :
    AllNk ab (udotA ab fb fm) (fun t Ap => resid ab fb fm (udotA ab fb fm) t Ap = 0) cs 0 :=
  allNk_of_forall ab (udotA ab fb fm) _
    (fun t Ap h => by simp only [resid, residual_root ab fb fm t Ap h, sub_self]) cs 0 h

/-- **forward dynamics of (residual + applied force) reproduces the accelerations given to inverse dynamics**:
if at every body the mobility force handed to forward dynamics is `f' = resid(u̇) + f` — i.e. `Hᵀ F(u̇) = f'` — then
forward dynamics returns `u̇` at every body.  `u̇` is an arbitrary policy (e.g. `fieldPol`). -/
theorem aba_rnea (udot : Pol K ι) (t : MBT K ι) (Ap : ι → K) (h : WF t)
    (hf : AllN ab udot (fun t Ap => (bd t).Hᵀ *ᵥ FrP ab fb udot t Ap = fm t) t Ap) :
    AllN ab udot (fun t Ap => udotA ab fb fm t Ap = udot t Ap) t Ap :=
  (inverse_core ab fb fm udot t Ap h hf).2

/-- forest form of `aba_rnea` -/
theorem forest_aba_rnea (udot : Pol K ι) (cs : List (MBT K ι)) (h : ∀ c ∈ cs, WF c)
    (hf : AllNk ab udot (fun t Ap => (bd t).Hᵀ *ᵥ FrP ab fb udot t Ap = fm t) cs 0) :
    AllNk ab udot (fun t Ap => udotA ab fb fm t Ap = udot t Ap) cs 0 :=
  (inverse_kids ab fb fm udot cs 0 h hf).2

/-- the hypothesis of `aba_rnea` in the property's words: `f' = residual(u̇; f) + f` -/
theorem residual_plus_applied (f' : MobF K ι) (udot : Pol K ι) (t : MBT K ι) (Ap : ι → K)
    (h : f' t = resid ab fb fm udot t Ap + fm t) : (bd t).Hᵀ *ᵥ FrP ab fb udot t Ap = f' t := by
  rw [h, resid]; abel

/-- **applied body forces enter exactly as `Jᵀ F`** in forward dynamics … -/
theorem bodyForce_as_JT (X : Bd K ι → ι → K) (t : MBT K ι) (Ap : ι → K) :
    udotA ab (fun n => fb n - X n) fm t Ap = udotA ab fb (fun t => fm t + JT X t) t Ap :=
  udotA_bodyforce ab fb fm X t Ap

/-- … and in inverse dynamics -/
theorem bodyForce_as_JT_inverse (X : Bd K ι → ι → K) (udot : Pol K ι) (t : MBT K ι) (Ap : ι → K) :
    resid ab (fun n => fb n - X n) fm udot t Ap = resid ab fb (fun t => fm t + JT X t) udot t Ap :=
  resid_bodyforce ab fb fm X udot t Ap

/-- **the velocity-dependent terms are the same in both directions**: with the bias residual
`C = resid(u̇ = 0; f = 0)` (same `ab`, `fb` in both recursions), forward dynamics driven by `−C` … i.e. by the mobility
force that inverse dynamics of zero acceleration demands, gives zero acceleration at every body -/
theorem bias_shared (t : MBT K ι) (Ap : ι → K) (h : WF t)
    (hf : AllN ab (fun _ _ => 0) (fun t Ap => (bd t).Hᵀ *ᵥ FrP ab fb (fun _ _ => 0) t Ap = fm t) t Ap) :
    AllN ab (fun _ _ => 0) (fun t Ap => udotA ab fb fm t Ap = 0) t Ap :=
  (inverse_core ab fb fm (fun _ _ => 0) t Ap h hf).2

/-- the spatial force through a joint under forward dynamics is `P⁺ A⁺ + z⁺` (used by C14) -/
theorem joint_force_eq (t : MBT K ι) (Ap : ι → K) (h : WF t) :
    FrP ab fb (udotA ab fb fm) t Ap = PP t *ᵥ Ap + zP ab fb fm t := Fr_eq ab fb fm t Ap h

/-! ## non-vacuity: the hypotheses are satisfiable (a 2-body chain over ℚ, non-zero bias and forces) -/
section example_tree
abbrev b1 : Bd ℚ (Fin 1) :=
  { d := 1, H := 1, phi := 1, M := 1, DI := 1, f := fun _ => 3, ud := fun _ => 2,
    a := fun _ => 5, b := fun _ => 7, Fa := fun _ => 1 }
theorem leaf_WF : WF (MBT.mk b1 []) := by
  refine WF.mk b1 [] (by simp) (by simp) ?_ ?_
  · simp [P, Pkids]
  · simp [P, Pkids]
theorem leaf_PP : PP (MBT.mk b1 []) = 0 := by
  rw [PP_mk]; simp [P, Pkids]
theorem chain_WF : WF (MBT.mk b1 [MBT.mk b1 []]) := by
  refine WF.mk b1 _ (by simp) ?_ ?_ ?_
  · intro c hc
    simp only [List.mem_cons, List.not_mem_nil, or_false] at hc
    rw [hc]; exact leaf_WF
  · simp only [P]; rw [Pkids_cons, leaf_PP]; simp [Pkids]
  · simp only [P]; rw [Pkids_cons, leaf_PP]; simp [Pkids]
example : AllN (fun n => n.a) (udotA (fun n => n.a) (fun n => n.b - n.Fa) fieldF)
    (fun t Ap => resid (fun n => n.a) (fun n => n.b - n.Fa) fieldF
      (udotA (fun n => n.a) (fun n => n.b - n.Fa) fieldF) t Ap = 0) (MBT.mk b1 [MBT.mk b1 []]) 0 :=
  rnea_aba_zero _ _ _ _ _ chain_WF
end example_tree


/-! ## simulation: the EXECUTED forward / inverse dynamics compute the twin's quantities at every node
(see the corresponding section of `SimbodyProofs/C01.lean` for what is and is not covered) -/
section simulation
open TreeDyn
variable {F : Type} [Field F]

/-- executed `calcTreeResidualForces`: at every node the stored residual is the twin's `resid = Hᵀ F − f` (bias `a`,
`b − F_applied` from the bias table, accelerations = blocks of the given `u̇`), the stored `A_GB` is `accP` -/
theorem exec_inverseDynamics (f udot : Array F) (t : Tr (Body F × Bias F)) (AP : SV F) :
    (invRoot f udot t AP).2.2.2
        = List.ofFn (resid abF fbF fieldF fieldPol (absT (decI f udot) t) ((phiMat t.val.1.l)ᵀ *ᵥ AP.toVec)) ∧
    (invRoot f udot t AP).2.1.toVec
        = accP abF fieldPol (absT (decI f udot) t) ((phiMat t.val.1.l)ᵀ *ᵥ AP.toVec) :=
  ⟨sim_inv_resid f udot t AP, sim_inv_acc f udot t AP⟩

/-- executed `calcTreeAccelerations` (`calcUDotPass1Inward` / `Pass2Outward` on the ABI-annotated tree): at every node `u̇`,
`A_GB` are the twin's `udotA`, `accP` -/
theorem exec_forwardDynamics (f udotP : Array F) (tab : Array (Bias F)) (ta : Tr (Body F × Abi F)) (AP : SV F)
    (hok : AbiOK (exF f tab) ta) (hwf : WF (absT (decA (exF f tab)) ta)) :
    (fwdDown f udotP tab ta AP).udot
        = List.ofFn (udotA abF fbF fieldF (absT (decA (exF f tab)) ta) ((phiMat ta.val.1.l)ᵀ *ᵥ AP.toVec)) ∧
    (fwdDown f udotP tab ta AP).A.toVec
        = accP abF (udotA abF fbF fieldF) (absT (decA (exF f tab)) ta) ((phiMat ta.val.1.l)ᵀ *ᵥ AP.toVec) :=
  ⟨(sim_fwd_down f udotP tab ta AP hok hwf).1, (sim_fwd_down f udotP tab ta AP hok hwf).2.1⟩

/-- executed `multiplyBySystemJacobianTranspose`: at every node the stored block is the twin's `JT` -/
theorem exec_JT (forces : Array (SV F)) (t : Tr (Body F)) :
    (jtRoot forces t).2.2 = List.ofFn (JT (fun n => n.Fa) (absT (decJ forces) t)) := sim_jt_block forces t
end simulation

end C02
