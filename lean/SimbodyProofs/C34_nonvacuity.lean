import SimbodyProofs.C34_lemmas
import Mathlib.Analysis.Real.Sqrt
/-! Non-vacuity of `Geom.SqrtSpec`: the real square root satisfies it, so every theorem of the geometry family
that assumes `SqrtSpec sqrt` has an instance (over `ℝ`). -/
namespace Geom
example : SqrtSpec Real.sqrt := ⟨fun _ hx => Real.mul_self_sqrt hx, fun x _ => Real.sqrt_nonneg x⟩
end Geom
