import SimbodyModel.C25
import SimbodyModel.C25_small
import Mathlib.Tactic.Ring

/-!
# C25 — the recursive determinant `detN` (the `det(Mat<M,M>)` template, M ≥ 4) at the sizes where the C++ recurses
-/
namespace C25
variable {R : Type} [CommRing R]

/-- a 4×4 matrix from its 16 entries in row order -/
def m4 (a : Fin 16 → R) : List (List R) :=
  [[a 0, a 1, a 2, a 3], [a 4, a 5, a 6, a 7], [a 8, a 9, a 10, a 11], [a 12, a 13, a 14, a 15]]

theorem detN_four_transpose_lemma (a : Fin 16 → R) :
    detN 4 (m4 a) = detN 4 (ltranspose 4 4 (m4 a)) := by
  simp [detN, dropNth, List.range, List.range.loop, m4, ltranspose, lget]; ring

theorem detN_four_mul_lemma (a b : Fin 16 → R) :
    detN 4 (lmul 4 4 (m4 a) (m4 b)) = detN 4 (m4 a) * detN 4 (m4 b) := by
  simp [detN, dropNth, List.range, List.range.loop, m4, lmul, lget]; ring

/-- upper-triangular 5×5 and 6×6: the expansion gives the product of the diagonal -/
theorem detN_five_triangular_lemma (d1 d2 d3 d4 d5 a b c e f g h i j k : R) :
    detN 5 [[d1, a, b, c, e], [0, d2, f, g, h], [0, 0, d3, i, j], [0, 0, 0, d4, k], [0, 0, 0, 0, d5]] = d1 * d2 * d3 * d4 * d5 := by
  simp [detN, dropNth, List.range, List.range.loop]; ring

theorem detN_six_triangular_lemma (d1 d2 d3 d4 d5 d6 a b c e f g h i j k l m n o p : R) :
    detN 6 [[d1, a, b, c, e, l], [0, d2, f, g, h, m], [0, 0, d3, i, j, n], [0, 0, 0, d4, k, o], [0, 0, 0, 0, d5, p],
            [0, 0, 0, 0, 0, d6]] = d1 * d2 * d3 * d4 * d5 * d6 := by
  simp [detN, dropNth, List.range, List.range.loop]; ring

end C25
