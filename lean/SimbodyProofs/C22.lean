import SimbodyModel.C22
import SimbodyModel.Gen.EventTables
import Mathlib.Tactic.Ring
import Mathlib.Tactic.Linarith
import Mathlib.Tactic.NormNum
import Mathlib.Tactic.Positivity
import Mathlib.Algebra.Order.Field.Basic
import Mathlib.Order.MinMax
import Mathlib.Data.List.Sort
/-!
# C22 — property theorems: events are detected, localised and ordered

Model: `SimbodyModel/C22.lean`.  Scalars range over an arbitrary linear ordered field `K`; trigger-function values at
probe times are an arbitrary oracle `eval`.  The tables of `Gen/EventTables.lean` are re-extracted from the current source
on every run, so `classify_sound` & co. are re-checked against the code as it is now.
-/
namespace C22

/-! ## Classification truth tables (translator-tied) -/

/-- the generated table of `Event::classifyTransition` is the model's function, on the whole domain {-1,0,1}² -/
theorem classify_sound :
    (∀ r ∈ Gen.classifyTable, classifyTransition r.1 r.2.1 = r.2.2) ∧
    Gen.classifyTable.map (fun r => (r.1, r.2.1)) =
      [(-1, -1), (-1, 0), (-1, 1), (0, -1), (0, 0), (0, 1), (1, -1), (1, 0), (1, 1)] := by
  decide

/-- the generated tables of `maskTransition`, `calcTransitionMask`, `calcTransitionToReport` are the model's functions on
their whole domains, the enum has the modelled bit values and both directions are monitored by default -/
theorem mask_tables_sound :
    (∀ r ∈ Gen.maskTable, maskTransition r.1 r.2.1 = r.2.2) ∧
    Gen.maskTable.map (fun r => (r.1, r.2.1)) =
      [(0,0),(0,1),(0,2),(0,3),(1,0),(1,1),(1,2),(1,3),(2,0),(2,1),(2,2),(2,3),(3,0),(3,1),(3,2),(3,3)] ∧
    (∀ r ∈ Gen.flagsTable, calcTransitionMask r.1 r.2.1 = r.2.2) ∧
    Gen.flagsTable.map (fun r => (r.1, r.2.1)) = [(false,false),(false,true),(true,false),(true,true)] ∧
    (∀ r ∈ Gen.reportTable, calcTransitionToReport r.1 = r.2) ∧
    Gen.reportTable.map (fun r => r.1) = [1, 2, 3] ∧
    Gen.triggerEnum = [0, 1, 2, 1, 2, 3] ∧ Gen.defaultFlags = (true, true) := by
  decide

/-- what the classification means: a transition is reported iff the sign before is non-zero and differs from the sign
after; it is Falling (1) iff the sign before is +1 and Rising (2) iff it is -1 -/
theorem classify_meaning (b a : Int) (hb : b = -1 ∨ b = 0 ∨ b = 1) (ha : a = -1 ∨ a = 0 ∨ a = 1) :
    (classifyTransition b a ≠ 0 ↔ (b ≠ 0 ∧ b ≠ a)) ∧
    (classifyTransition b a = 1 ↔ (b = 1 ∧ a ≠ 1)) ∧
    (classifyTransition b a = 2 ↔ (b = -1 ∧ a ≠ -1)) := by
  rcases hb with rfl | rfl | rfl <;> rcases ha with rfl | rfl | rfl <;> decide

/-- a masked transition survives iff its direction bit is in the mask; the reported transition is that same direction -/
theorem mask_meaning (t m : Nat) (ht : t = 1 ∨ t = 2) (hm : m ≤ 3) :
    (maskTransition t m ≠ 0 ↔ Nat.land t m ≠ 0) ∧ (maskTransition t m ≠ 0 → calcTransitionToReport (maskTransition t m) = t) := by
  have hm' : m = 0 ∨ m = 1 ∨ m = 2 ∨ m = 3 := by omega
  rcases ht with rfl | rfl <;> rcases hm' with rfl | rfl | rfl | rfl <;> decide

/-- the literals of the buffer zone and of the step-end rule, as extracted from the source -/
theorem literals_ok :
    0 < Gen.bufferFraction.1 ∧ 2 * Gen.bufferFraction.1 ≤ Gen.bufferFraction.2 ∧
    0 < Gen.c095.1 ∧ Gen.c095.1 < Gen.c095.2 ∧ Gen.c1001.2 < Gen.c1001.1 := by
  decide

/-! ## Scalar part -/
section Field
variable {K : Type} [Field K] [LinearOrder K] [IsStrictOrderedRing K]

omit [Field K] [IsStrictOrderedRing K] in
theorem mx_eq_max (a b : K) : mx a b = max a b := by
  unfold mx; split <;> rename_i h
  · exact (max_eq_right (le_of_lt h)).symm
  · exact (max_eq_left (not_lt.mp h)).symm

omit [Field K] [IsStrictOrderedRing K] in
theorem mn_eq_min (a b : K) : mn a b = min a b := by
  unfold mn; split <;> rename_i h
  · exact (min_eq_right (le_of_lt h)).symm
  · exact (min_eq_left (not_lt.mp h)).symm

/-- `estimateRootTime` never returns an end point: `tLow < t < tHigh`; and when the secant branch is taken
(both values non-zero, interval wider than `minWindow`) the estimate keeps the buffer zone
`max(tenth·h, minWindow/2)` from both ends — for ANY function values and ANY positive bias. -/
theorem root_estimate_inside (tenth tLow fLow tHigh fHigh bias mw : K)
    (hlt : tLow < tHigh) (hmw : 0 < mw) (_ht : 0 < tenth) (ht2 : 2 * tenth ≤ 1) :
    tLow < estimateRootTime tenth tLow fLow tHigh fHigh bias mw ∧
    estimateRootTime tenth tLow fLow tHigh fHigh bias mw < tHigh ∧
    ((isZero fLow || isZero fHigh || decide (tHigh - tLow ≤ mw)) = false →
      tLow + max (tenth * (tHigh - tLow)) (mw / 2) ≤ estimateRootTime tenth tLow fLow tHigh fHigh bias mw ∧
      estimateRootTime tenth tLow fLow tHigh fHigh bias mw ≤ tHigh - max (tenth * (tHigh - tLow)) (mw / 2)) := by
  unfold estimateRootTime
  simp only []
  split
  · rename_i hc
    refine ⟨by linarith, by linarith, ?_⟩
    intro hf; rw [hf] at hc; cases hc
  · rename_i hc
    have hw : mw < tHigh - tLow := by
      simp only [Bool.or_eq_true, decide_eq_true_eq, not_or, not_le] at hc
      exact hc.2
    set h := tHigh - tLow with hh
    have hpos : 0 < h := by linarith
    rw [mx_eq_max, mx_eq_max, mn_eq_min]
    set buf := max (tenth * h) (mw / 2) with hbuf
    have hb1 : buf ≤ h / 2 := by
      apply max_le
      · nlinarith
      · linarith
    have hb0 : 0 < buf := lt_of_lt_of_le (by linarith) (le_max_right _ _)
    have lo_le_hi : tLow + buf ≤ tHigh - buf := by linarith
    have r1 : tLow + buf ≤ min (max (tHigh - fHigh / (fHigh - bias * fLow) * h) (tLow + buf)) (tHigh - buf) :=
      le_min (le_max_right _ _) lo_le_hi
    have r2 : min (max (tHigh - fHigh / (fHigh - bias * fLow) * h) (tLow + buf)) (tHigh - buf) ≤ tHigh - buf :=
      min_le_right _ _
    exact ⟨by linarith, by linarith, fun _ => ⟨r1, r2⟩⟩

/-- the trial end time of `takeOneStep` satisfies the oracle contract of C19: `t0 < t1 ≤ tMax` -/
theorem chooseT1_contract (c095 c1001 t0 h tMax : K) (hh : 0 < h) (hm : t0 < tMax) :
    t0 < chooseT1 c095 c1001 t0 h tMax ∧ (1 ≤ c1001 → chooseT1 c095 c1001 t0 h tMax ≤ tMax) := by
  unfold chooseT1
  split
  · exact ⟨hm, fun _ => le_refl _⟩
  · split
    · rename_i h2
      refine ⟨by linarith, fun hc => ?_⟩
      have : h ≤ c1001 * h := by nlinarith
      linarith
    · exact ⟨hm, fun _ => le_refl _⟩

/-- the buffer-zone literal extracted from the current source satisfies what `root_estimate_inside` needs, and the
step-end literals satisfy `0 < 0.95 < 1 ≤ 1.001` (needed by `chooseT1_contract`) -/
theorem gen_literals_field :
    (0 : K) < (Gen.bufferFraction.1 : K) / (Gen.bufferFraction.2 : K) ∧
    2 * ((Gen.bufferFraction.1 : K) / (Gen.bufferFraction.2 : K)) ≤ 1 ∧
    (1 : K) ≤ (Gen.c1001.1 : K) / (Gen.c1001.2 : K) ∧ (Gen.c095.1 : K) / (Gen.c095.2 : K) < 1 := by
  simp only [Gen.bufferFraction, Gen.c1001, Gen.c095]
  norm_num

/-! ## `findEventCandidates` -/

variable (tenth inf accTs : K) (infos : Nat → TrigInfo K) (tLow : K) (eLow : Nat → K) (tHigh : K) (eHigh : Nat → K)
  (bias mw : K)

/-- trigger `e` shows a sign change in a monitored direction across `(tLow, tHigh]` -/
def Monitored (infos : Nat → TrigInfo K) (eLow eHigh : Nat → K) (e : Nat) : Prop :=
  maskTransition (classifyTransition (sign (eLow e)) (sign (eHigh e))) (infos e).mask ≠ 0

/-- invariant of the accumulator of `findEventCandidates` -/
structure FecInv (viable : List Nat) (acc : Cands K) : Prop where
  len_ests : acc.ests.length = acc.cands.length
  len_trans : acc.trans.length = acc.cands.length
  sub : ∀ e ∈ acc.cands, e ∈ viable
  mon : ∀ e ∈ acc.cands, Monitored infos eLow eHigh e
  inside : ∀ t ∈ acc.ests, tLow < t ∧ t < tHigh
  earliest_le : ∀ t ∈ acc.ests, acc.earliest ≤ t
  earliest_mem : acc.cands ≠ [] → acc.earliest ∈ acc.ests
  narrow : acc.cands ≠ [] → mw ≤ acc.narrowest
  empty : acc.cands = [] → acc.earliest = inf ∧ acc.narrowest = inf

theorem fecStep_inv (viable : List Nat) (acc : Cands K) (e : Nat) (he : e ∈ viable)
    (hlt : tLow < tHigh) (hmw : 0 < mw) (ht : 0 < tenth) (ht2 : 2 * tenth ≤ 1) (hinf : tHigh ≤ inf)
    (h : FecInv inf infos tLow eLow tHigh eHigh mw viable acc) :
    FecInv inf infos tLow eLow tHigh eHigh mw viable
      (fecStep tenth accTs infos tLow eLow tHigh eHigh bias mw acc e) := by
  unfold fecStep
  simp only []
  split
  · rename_i hseen
    obtain ⟨h1, h2, h3, h4, h5, h6, h7, h8, h9⟩ := h
    have hest := root_estimate_inside tenth tLow (eLow e) tHigh (eHigh e) bias mw hlt hmw ht ht2
    refine ⟨by simp [h1], by simp [h2], ?_, ?_, ?_, ?_, ?_, ?_, ?_⟩
    · intro x hx; simp at hx; rcases hx with hx | hx
      · exact h3 x hx
      · subst hx; exact he
    · intro x hx; simp at hx; rcases hx with hx | hx
      · exact h4 x hx
      · subst hx; exact hseen
    · intro t ht'; simp at ht'; rcases ht' with ht' | ht'
      · exact h5 t ht'
      · subst ht'; exact ⟨hest.1, hest.2.1⟩
    · intro t ht'; simp at ht'; rw [mn_eq_min]; rcases ht' with ht' | ht'
      · exact le_trans (min_le_left _ _) (h6 t ht')
      · subst ht'; exact min_le_right _ _
    · intro _
      rw [mn_eq_min]
      simp only [List.mem_append, List.mem_singleton]
      by_cases hc : acc.cands = []
      · right
        rw [(h9 hc).1]
        exact min_eq_right (le_of_lt (lt_of_lt_of_le hest.2.1 hinf))
      · rcases min_choice acc.earliest (estimateRootTime tenth tLow (eLow e) tHigh (eHigh e) bias mw) with hm | hm
        · left; rw [hm]; exact h7 hc
        · right; exact hm
    · intro _; rw [mx_eq_max]; exact le_max_right _ _
    · intro hc; simp at hc
  · exact h

/-- everything `findEventCandidates` guarantees about its result, for any trigger values:
lists of equal length; candidates come from the viable list and each shows a monitored sign change across the interval;
every time estimate lies strictly inside `(tLow, tHigh)`; `earliestTimeEst` is the least estimate (and one of them);
`narrowestWindow ≥ minWindow`; no candidate ⇒ both are `Infinity`. -/
theorem findEventCandidates_spec (viable : List Nat)
    (hlt : tLow < tHigh) (hmw : 0 < mw) (ht : 0 < tenth) (ht2 : 2 * tenth ≤ 1) (hinf : tHigh ≤ inf) :
    FecInv inf infos tLow eLow tHigh eHigh mw viable
      (findEventCandidates tenth inf accTs infos viable tLow eLow tHigh eHigh bias mw) := by
  unfold findEventCandidates
  have key : ∀ (l : List Nat) (acc : Cands K), (∀ e ∈ l, e ∈ viable) →
      FecInv inf infos tLow eLow tHigh eHigh mw viable acc →
      FecInv inf infos tLow eLow tHigh eHigh mw viable
        (l.foldl (fecStep tenth accTs infos tLow eLow tHigh eHigh bias mw) acc) := by
    intro l
    induction l with
    | nil => intro acc _ h; exact h
    | cons x xs ih =>
      intro acc hsub h
      simp only [List.foldl_cons]
      apply ih
      · intro e he; exact hsub e (List.mem_cons_of_mem _ he)
      · exact fecStep_inv tenth inf accTs infos tLow eLow tHigh eHigh bias mw viable acc x
          (hsub x List.mem_cons_self) hlt hmw ht ht2 hinf h
  apply key viable _ (fun e he => he)
  refine ⟨rfl, rfl, ?_, ?_, ?_, ?_, ?_, ?_, ?_⟩ <;> simp


/-! ### completeness of `findEventCandidates` -/

omit [Field K] [LinearOrder K] [IsStrictOrderedRing K] in
/-- the classification of a transition depends only on the (non-zero) sign before, as long as the sign after differs -/
theorem classify_dep (b a1 a2 : Int) (h1 : b ≠ a1) (h2 : b ≠ a2) :
    classifyTransition b a1 = classifyTransition b a2 := by
  unfold classifyTransition
  simp [h1, h2]

theorem fecStep_cands_grow (acc : Cands K) (e x : Nat) (h : x ∈ acc.cands) :
    x ∈ (fecStep tenth accTs infos tLow eLow tHigh eHigh bias mw acc e).cands := by
  unfold fecStep
  simp only []
  split
  · simp [h]
  · exact h

/-- every viable trigger that shows a monitored sign change across the interval IS a candidate (no trigger is dropped) -/
theorem findEventCandidates_complete (viable : List Nat) (e : Nat) (he : e ∈ viable)
    (hm : Monitored infos eLow eHigh e) :
    e ∈ (findEventCandidates tenth inf accTs infos viable tLow eLow tHigh eHigh bias mw).cands := by
  unfold findEventCandidates
  have key : ∀ (l : List Nat) (acc : Cands K), (e ∈ acc.cands ∨ e ∈ l) →
      e ∈ (l.foldl (fecStep tenth accTs infos tLow eLow tHigh eHigh bias mw) acc).cands := by
    intro l
    induction l with
    | nil => intro acc h; rcases h with h | h; exact h; simp at h
    | cons x xs ih =>
      intro acc h
      simp only [List.foldl_cons]
      apply ih
      rcases h with h | h
      · exact Or.inl (fecStep_cands_grow tenth accTs infos tLow eLow tHigh eHigh bias mw acc x e h)
      · simp only [List.mem_cons] at h
        rcases h with rfl | h
        · left
          unfold fecStep
          simp only []
          have hm' : maskTransition (classifyTransition (sign (eLow e)) (sign (eHigh e))) (infos e).mask ≠ 0 := hm
          rw [if_pos hm']
          simp
        · exact Or.inr h
  exact key viable _ (Or.inr he)

/-! ## The localisation loop of `takeOneStep` -/

variable (eval : K → Nat → K) (tReport : K)

/-- invariant of the localisation loop; `first` = candidates of the first pass over the whole step `[t0, t1]` -/
structure LocInv (t0 t1 : K) (first : List Nat) (s : Loc K) : Prop where
  lo : t0 ≤ s.tLow
  lt : s.tLow < s.tHigh
  hi : s.tHigh ≤ t1
  elo : s.eLow = eval s.tLow
  ehi : s.eHigh = eval s.tHigh
  sub : ∀ e ∈ s.c.cands, e ∈ first
  fec : ∃ V, FecInv inf infos s.tLow s.eLow s.tHigh s.eHigh mw V s.c

/-- one pass through the loop body keeps the invariant and leaves the report time outside the open window -/
theorem locIter_inv (t0 t1 : K) (first : List Nat) (s : Loc K)
    (hmw : 0 < mw) (ht : 0 < tenth) (ht2 : 2 * tenth ≤ 1) (hinf : t1 ≤ inf)
    (h : LocInv inf infos mw eval t0 t1 first s) (hne : s.c.cands ≠ []) :
    LocInv inf infos mw eval t0 t1 first (locIter tenth inf accTs infos eval tReport mw s) ∧
    ¬ ((locIter tenth inf accTs infos eval tReport mw s).tLow < tReport ∧
        tReport < (locIter tenth inf accTs infos eval tReport mw s).tHigh) ∧
    (∀ e ∈ (locIter tenth inf accTs infos eval tReport mw s).c.cands, e ∈ s.c.cands) := by
  obtain ⟨h1, h2, h3, h4, h5, h6, V, hV⟩ := h
  -- the probe time lies strictly inside the current window
  have hmid : s.tLow < (if s.tLow < tReport ∧ tReport < s.tHigh then tReport else s.c.earliest) ∧
      (if s.tLow < tReport ∧ tReport < s.tHigh then tReport else s.c.earliest) < s.tHigh := by
    split
    · rename_i hr; exact hr
    · exact hV.inside _ (hV.earliest_mem hne)
  unfold locIter
  simp only []
  set bias' := (if s.side2 ≠ 0 ∧ s.side1 ≠ 0 then
      (if s.side2 ≠ s.side1 then (1 : K) else if s.side1 < 0 then s.bias / 2 else s.bias * 2) else s.bias) with hb
  set tMid := (if s.tLow < tReport ∧ tReport < s.tHigh then tReport else s.c.earliest) with hm
  have specLo := findEventCandidates_spec tenth inf accTs infos s.tLow s.eLow tMid (eval tMid) bias' mw s.c.cands
    hmid.1 hmw ht ht2 (le_trans (le_of_lt hmid.2) (le_trans h3 hinf))
  have specHi := findEventCandidates_spec tenth inf accTs infos tMid (eval tMid) s.tHigh s.eHigh bias' mw s.c.cands
    hmid.2 hmw ht ht2 (le_trans h3 hinf)
  split
  · -- the earliest event is in (tLow, tMid]
    refine ⟨⟨h1, hmid.1, le_trans (le_of_lt hmid.2) h3, h4, rfl, ?_, ⟨_, specLo⟩⟩, ?_, ?_⟩
    · intro e he; exact h6 e (specLo.sub e he)
    · simp only []
      rintro ⟨q1, q2⟩
      by_cases hr : s.tLow < tReport ∧ tReport < s.tHigh
      · rw [hm, if_pos hr] at q2; exact lt_irrefl _ q2
      · exact hr ⟨q1, lt_trans q2 hmid.2⟩
    · intro e he; exact specLo.sub e he
  · -- it is in (tMid, tHigh]
    refine ⟨⟨le_trans h1 (le_of_lt hmid.1), hmid.2, h3, rfl, h5, ?_, ⟨_, specHi⟩⟩, ?_, ?_⟩
    · intro e he; exact h6 e (specHi.sub e he)
    · simp only []
      rintro ⟨q1, q2⟩
      by_cases hr : s.tLow < tReport ∧ tReport < s.tHigh
      · rw [hm, if_pos hr] at q1; exact lt_irrefl _ q1
      · exact hr ⟨lt_trans hmid.1 q1, q2⟩
    · intro e he; exact specHi.sub e he

/-- **locIter_nonempty** (completeness of one bisection step): a candidate that shows a monitored sign change across
`(tLow, tHigh]` shows the SAME monitored transition across `(tLow, tMid]` or across `(tMid, tHigh]`, whatever the trigger
values at the probe time — so the candidate list never becomes empty (the `assert(!newEventCandidates.empty())` of the
C++ cannot fire, contrary to its TODO comment, for states satisfying the loop invariant). -/
theorem locIter_nonempty (t0 t1 : K) (first : List Nat) (s : Loc K)
    (h : LocInv inf infos mw eval t0 t1 first s) (hne : s.c.cands ≠ []) :
    (locIter tenth inf accTs infos eval tReport mw s).c.cands ≠ [] := by
  obtain ⟨h1, h2, h3, h4, h5, h6, V, hV⟩ := h
  obtain ⟨e, he⟩ := List.exists_mem_of_ne_nil _ hne
  have hmon := hV.mon e he
  unfold locIter
  simp only []
  set bias' := (if s.side2 ≠ 0 ∧ s.side1 ≠ 0 then
      (if s.side2 ≠ s.side1 then (1 : K) else if s.side1 < 0 then s.bias / 2 else s.bias * 2) else s.bias) with hb
  set tMid := (if s.tLow < tReport ∧ tReport < s.tHigh then tReport else s.c.earliest) with hm
  split
  · rename_i hlo; exact hlo
  · rename_i hlo
    simp only []
    -- lower half found nothing: then the sign at tMid equals the sign at tLow, and the upper half keeps the candidate
    have hsame : sign (s.eLow e) = sign (eval tMid e) := by
      by_contra hdiff
      apply hlo
      have : Monitored infos s.eLow (eval tMid) e := by
        unfold Monitored at hmon ⊢
        have hne2 : sign (s.eLow e) ≠ sign (s.eHigh e) := by
          intro heq; apply hmon; unfold classifyTransition; simp [heq, maskTransition]
        rw [classify_dep _ _ _ hdiff hne2]; exact hmon
      exact List.ne_nil_of_mem
        (findEventCandidates_complete tenth inf accTs infos s.tLow s.eLow tMid (eval tMid) bias' mw s.c.cands e he this)
    have : Monitored infos (eval tMid) s.eHigh e := by
      unfold Monitored at hmon ⊢
      rw [← hsame]; exact hmon
    exact List.ne_nil_of_mem
      (findEventCandidates_complete tenth inf accTs infos tMid (eval tMid) s.tHigh s.eHigh bias' mw s.c.cands e he this)

/-- the `do … while` loop: whatever the trigger values at the probe times, when it exits the window satisfies the
invariant, is no wider than `narrowestWindow`, and does not contain the report time in its interior -/
theorem locLoop_spec (t0 t1 : K) (first : List Nat)
    (hmw : 0 < mw) (ht : 0 < tenth) (ht2 : 2 * tenth ≤ 1) (hinf : t1 ≤ inf) (hinf2 : t1 - t0 ≤ inf) :
    ∀ (fuel : Nat) (s r : Loc K), LocInv inf infos mw eval t0 t1 first s → s.c.cands ≠ [] →
      locLoop tenth inf accTs infos eval tReport mw fuel s = some r →
      LocInv inf infos mw eval t0 t1 first r ∧ r.tHigh - r.tLow ≤ r.c.narrowest ∧
      ¬ (r.tLow < tReport ∧ tReport < r.tHigh) := by
  intro fuel
  induction fuel with
  | zero => intro s r _ _ e; simp [locLoop] at e
  | succ n ih =>
    intro s r h hne e
    obtain ⟨i1, i2, _⟩ := locIter_inv tenth inf accTs infos mw eval tReport t0 t1 first s hmw ht ht2 hinf h hne
    unfold locLoop at e
    simp only [] at e
    split at e
    · rename_i hw
      apply ih _ _ i1 _ e
      intro hc
      obtain ⟨V, hV⟩ := i1.fec
      have := (hV.empty hc).2
      rw [this] at hw
      have : (locIter tenth inf accTs infos eval tReport mw s).tHigh - (locIter tenth inf accTs infos eval tReport mw s).tLow
          ≤ t1 - t0 := by linarith [i1.lo, i1.hi]
      linarith
    · rename_i hw
      injection e with e1; subst e1
      exact ⟨i1, not_lt.mp hw, i2⟩

/-- **window_invariant / window_narrow_on_exit / report_not_inside_window / classification of the listed events.**
If the event part of `takeOneStep` reports an event for a step `t0 < t1`, then for ANY trigger functions:
`t0 ≤ tLow < tHigh ≤ t1`; the window is no wider than `narrowestWindow` (≥ `minWindow`); the report time is not
strictly inside it; every listed trigger was a first-pass candidate and changes sign in a monitored direction across
the reported window `(tLow, tHigh]`; every estimated event time lies strictly inside the window; the three lists have
equal lengths. -/
theorem localize_spec (n : Nat) (t0 t1 : K) (fuel : Nat) (r : LocResult K)
    (h01 : t0 < t1) (hmw : 0 < mw) (ht : 0 < tenth) (ht2 : 2 * tenth ≤ 1) (hinf : t1 ≤ inf) (hinf2 : t1 - t0 ≤ inf)
    (e : localize tenth inf accTs infos eval n t0 t1 tReport mw fuel = .event r) :
    t0 ≤ r.tLow ∧ r.tLow < r.tHigh ∧ r.tHigh ≤ t1 ∧
    r.tHigh - r.tLow ≤ r.c.narrowest ∧ (r.c.cands ≠ [] → mw ≤ r.c.narrowest) ∧
    ¬ (r.tLow < tReport ∧ tReport < r.tHigh) ∧
    (∀ e ∈ r.c.cands, e ∈ (findEventCandidates tenth inf accTs infos (List.range n) t0 (eval t0) t1 (eval t1) 1 mw).cands
        ∧ Monitored infos (eval r.tLow) (eval r.tHigh) e) ∧
    (∀ t ∈ r.c.ests, r.tLow < t ∧ t < r.tHigh) ∧
    r.c.ests.length = r.c.cands.length ∧ r.c.trans.length = r.c.cands.length := by
  have specFirst := findEventCandidates_spec tenth inf accTs infos t0 (eval t0) t1 (eval t1) 1 mw (List.range n)
    h01 hmw ht ht2 hinf
  unfold localize at e
  simp only [] at e
  split at e
  · cases e
  · rename_i hne
    split at e
    · rename_i hshort
      injection e with e1; subst e1
      exact ⟨le_refl _, h01, le_refl _, hshort.1, fun _ => specFirst.narrow hne, hshort.2,
        fun e he => ⟨he, specFirst.mon e he⟩, specFirst.inside, specFirst.len_ests, specFirst.len_trans⟩
    · split at e
      · cases e
      · rename_i s hs
        injection e with e1; subst e1
        have h0 : LocInv inf infos mw eval t0 t1
            (findEventCandidates tenth inf accTs infos (List.range n) t0 (eval t0) t1 (eval t1) 1 mw).cands
            { tLow := t0, eLow := eval t0, tHigh := t1, eHigh := eval t1, bias := 1, side2 := 0, side1 := 0,
              c := findEventCandidates tenth inf accTs infos (List.range n) t0 (eval t0) t1 (eval t1) 1 mw } :=
          ⟨le_refl _, h01, le_refl _, rfl, rfl, fun e he => he, ⟨_, specFirst⟩⟩
        obtain ⟨i1, i2, i3⟩ := locLoop_spec tenth inf accTs infos mw eval tReport t0 t1 _ hmw ht ht2 hinf hinf2
          fuel _ s h0 hne hs
        obtain ⟨V, hV⟩ := i1.fec
        refine ⟨i1.lo, i1.lt, i1.hi, i2, hV.narrow, i3, ?_, hV.inside, hV.len_ests, hV.len_trans⟩
        intro e he
        refine ⟨i1.sub e he, ?_⟩
        have := hV.mon e he
        rw [i1.elo, i1.ehi] at this
        exact this

/-- **localize_reports_nonempty** (completeness): an event report always lists at least one trigger — for any trigger
functions.  Together with `localize_spec` (every listed trigger changes sign across the reported window) this is the
clause "the window brackets a crossing". -/
theorem localize_reports_nonempty (n : Nat) (t0 t1 : K) (fuel : Nat) (r : LocResult K)
    (h01 : t0 < t1) (hmw : 0 < mw) (ht : 0 < tenth) (ht2 : 2 * tenth ≤ 1) (hinf : t1 ≤ inf)
    (e : localize tenth inf accTs infos eval n t0 t1 tReport mw fuel = .event r) : r.c.cands ≠ [] := by
  have specFirst := findEventCandidates_spec tenth inf accTs infos t0 (eval t0) t1 (eval t1) 1 mw (List.range n)
    h01 hmw ht ht2 hinf
  have loopNE : ∀ (fuel : Nat) (s r : Loc K),
      LocInv inf infos mw eval t0 t1
        (findEventCandidates tenth inf accTs infos (List.range n) t0 (eval t0) t1 (eval t1) 1 mw).cands s →
      s.c.cands ≠ [] → locLoop tenth inf accTs infos eval tReport mw fuel s = some r → r.c.cands ≠ [] := by
    intro fuel
    induction fuel with
    | zero => intro s r _ _ e; simp [locLoop] at e
    | succ k ih =>
      intro s r hs hne e
      have i1 := (locIter_inv tenth inf accTs infos mw eval tReport t0 t1 _ s hmw ht ht2 hinf hs hne).1
      have i2 := locIter_nonempty tenth inf accTs infos mw eval tReport t0 t1 _ s hs hne
      unfold locLoop at e
      simp only [] at e
      split at e
      · exact ih _ _ i1 i2 e
      · injection e with e1; subst e1; exact i2
  unfold localize at e
  simp only [] at e
  split at e
  · cases e
  · rename_i hne
    split at e
    · injection e with e1; subst e1; exact hne
    · split at e
      · cases e
      · rename_i s hs
        injection e with e1; subst e1
        exact loopNE fuel _ s ⟨le_refl _, h01, le_refl _, rfl, rfl, fun e he => he, ⟨_, specFirst⟩⟩ hne hs

/-! ## Event ordering (`calcEventOrder` / `setTriggeredEvents`) -/

omit [Field K] [IsStrictOrderedRing K] in
theorem sorterLt_iff (a b : K × Nat) : sorterLt a b = true ↔ (a.1 < b.1 ∨ (a.1 = b.1 ∧ a.2 < b.2)) := by
  unfold sorterLt
  split
  · rename_i h; simp [h]
  · rename_i h
    split
    · rename_i h2
      simp only [Bool.false_eq_true, false_iff, not_or, not_and]
      exact ⟨h, fun he => absurd h2 (by rw [he]; exact lt_irrefl _)⟩
    · rename_i h2
      have : a.1 = b.1 := le_antisymm (not_lt.mp h2) (not_lt.mp h)
      simp [this]

/-- `a` is not after `b` in the (estimated time, id) order -/
def NotAfter (a b : K × Nat) : Prop := sorterLt b a = false

omit [Field K] [IsStrictOrderedRing K] in
theorem insertSorted_mem (x : K × Nat) (l : List (K × Nat)) (w : K × Nat) :
    w ∈ insertSorted x l ↔ w = x ∨ w ∈ l := by
  induction l with
  | nil => simp [insertSorted]
  | cons y ys ih =>
    unfold insertSorted
    split
    · simp
    · simp only [List.mem_cons, ih]
      constructor
      · rintro (h | h | h)
        · exact Or.inr (Or.inl h)
        · exact Or.inl h
        · exact Or.inr (Or.inr h)
      · rintro (h | h | h)
        · exact Or.inr (Or.inl h)
        · exact Or.inl h
        · exact Or.inr (Or.inr h)

omit [Field K] [IsStrictOrderedRing K] in
theorem insertSorted_pairwise (x : K × Nat) (l : List (K × Nat)) (h : l.Pairwise NotAfter) :
    (insertSorted x l).Pairwise NotAfter := by
  induction l with
  | nil => simp [insertSorted]
  | cons y ys ih =>
    rw [List.pairwise_cons] at h
    unfold insertSorted
    split
    · rename_i hxy
      rw [sorterLt_iff] at hxy
      refine List.Pairwise.cons ?_ (List.Pairwise.cons h.1 h.2)
      intro z hz
      simp only [List.mem_cons] at hz
      unfold NotAfter
      rw [Bool.eq_false_iff, Ne, sorterLt_iff]
      rcases hz with rfl | hz
      · rintro (q | ⟨q1, q2⟩)
        · rcases hxy with p | ⟨p1, p2⟩
          · exact lt_asymm p q
          · rw [p1] at q; exact lt_irrefl _ q
        · rcases hxy with p | ⟨p1, p2⟩
          · rw [q1] at p; exact lt_irrefl _ p
          · omega
      · have hyz := h.1 z hz
        unfold NotAfter at hyz
        rw [Bool.eq_false_iff, Ne, sorterLt_iff] at hyz
        rintro (q | ⟨q1, q2⟩)
        · rcases hxy with p | ⟨p1, p2⟩
          · exact hyz (Or.inl (lt_trans q p))
          · exact hyz (Or.inl (by rw [← p1]; exact q))
        · rcases hxy with p | ⟨p1, p2⟩
          · exact hyz (Or.inl (by rw [q1]; exact p))
          · exact hyz (Or.inr ⟨by rw [q1, p1], by omega⟩)
    · rename_i hxy
      refine List.Pairwise.cons ?_ (ih h.2)
      intro w hw
      rw [insertSorted_mem] at hw
      rcases hw with rfl | hw
      · unfold NotAfter; simpa using hxy
      · exact h.1 w hw

omit [Field K] [IsStrictOrderedRing K] in
theorem insertSorted_perm (x : K × Nat) (l : List (K × Nat)) : (insertSorted x l).Perm (x :: l) := by
  induction l with
  | nil => simp [insertSorted]
  | cons y ys ih =>
    unfold insertSorted
    split
    · exact List.Perm.refl _
    · exact (List.Perm.cons y ih).trans (List.Perm.swap x y ys)

omit [Field K] [IsStrictOrderedRing K] in
/-- **events_sorted**: the triggered events are handed out in nondecreasing order of estimated occurrence time, ties in
ascending event id, and they are exactly the localised candidates (a permutation) -/
theorem events_sorted (evs : List (K × Nat)) :
    (sortEvents evs).Pairwise NotAfter ∧ (sortEvents evs).Perm evs ∧
    (sortEvents evs).Pairwise (fun a b => a.1 ≤ b.1) := by
  have hp : (sortEvents evs).Pairwise NotAfter ∧ (sortEvents evs).Perm evs := by
    unfold sortEvents
    induction evs with
    | nil => simp
    | cons x xs ih =>
      simp only [List.foldr_cons]
      exact ⟨insertSorted_pairwise x _ ih.1, (insertSorted_perm x _).trans (List.Perm.cons x ih.2)⟩
  refine ⟨hp.1, hp.2, ?_⟩
  apply List.Pairwise.imp _ hp.1
  intro a b hab
  unfold NotAfter at hab
  rw [Bool.eq_false_iff, Ne, sorterLt_iff] at hab
  exact not_lt.mp (fun h => hab (Or.inl h))

end Field

/-! ## TimeStepper dispatch and non-vacuity -/

/-- (definitional: a table lookup; the real switch also tests `getTime() >= nextScheduledReport`, `reportAllSignificantStates`
and `getTime() >= time`, which are NOT modelled) every status the integrator can return is dispatched, and only event-type returns reach a handler:
triggered → Triggered, scheduled → Scheduled, time advanced → TimeAdvanced, end → Termination -/
theorem tsDispatch_total :
    (∀ st, 1 ≤ st → st ≤ 7 → (tsDispatch st).isSome) ∧
    tsDispatch 2 = some (.handle 2) ∧ tsDispatch 3 = some (.handle 3) ∧ tsDispatch 4 = some (.handle 4) ∧
    tsDispatch 6 = some (.handle 6) ∧ tsDispatch 1 = some .report ∧
    tsDispatch 5 = some .continueLoop ∧ tsDispatch 7 = some .continueLoop := by
  refine ⟨?_, rfl, rfl, rfl, rfl, rfl, rfl, rfl⟩
  intro st h1 h7
  have : st = 1 ∨ st = 2 ∨ st = 3 ∨ st = 4 ∨ st = 5 ∨ st = 6 ∨ st = 7 := by omega
  rcases this with rfl | rfl | rfl | rfl | rfl | rfl | rfl <;> rfl

/-- non-vacuity of `localize_spec` / `root_estimate_inside`: over ℚ, the trigger `t - 3/10` (rising, monitored both
ways, window 1/10, accuracy·timescale 1/10000) on the step [0, 1] is localised to a window that brackets 3/10 -/
example :
    (match localize (K := Rat) (1/10) 1000 (1/10000) (fun _ => ⟨3, 1/10, 0⟩) (fun t _ => t - 3/10) 1 0 1 1000 (1/100000000) 50 with
     | .event r => decide (r.tLow < 3/10 ∧ 3/10 ≤ r.tHigh ∧ r.tHigh - r.tLow ≤ 1/100000 ∧ r.c.cands = [0] ∧ r.c.trans = [2])
     | _ => false) = true := by
  decide +kernel

end C22
