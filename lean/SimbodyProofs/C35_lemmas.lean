import SimbodyModel.C35
import SimbodyProofs.C34_lemmas

/-! Rotation / rigid-transform algebra used by C35 (and C47): a rotation enters only through the orthonormality
equations of its rows and columns (`IsRot`). -/
namespace Geom
variable {K : Type} [Field K]

/-- `R` is orthogonal: columns orthonormal (`RᵀR = 1`) and rows orthonormal (`RRᵀ = 1`) -/
structure IsRot (R : M3 K) : Prop where
  c00 : V3.dot (M3.col0 R) (M3.col0 R) = 1
  c11 : V3.dot (M3.col1 R) (M3.col1 R) = 1
  c22 : V3.dot (M3.col2 R) (M3.col2 R) = 1
  c01 : V3.dot (M3.col0 R) (M3.col1 R) = 0
  c02 : V3.dot (M3.col0 R) (M3.col2 R) = 0
  c12 : V3.dot (M3.col1 R) (M3.col2 R) = 0
  r00 : V3.dot R.r0 R.r0 = 1
  r11 : V3.dot R.r1 R.r1 = 1
  r22 : V3.dot R.r2 R.r2 = 1
  r01 : V3.dot R.r0 R.r1 = 0
  r02 : V3.dot R.r0 R.r2 = 0
  r12 : V3.dot R.r1 R.r2 = 0

theorem V3.ext' {a b : V3 K} (hx : a.x = b.x) (hy : a.y = b.y) (hz : a.z = b.z) : a = b := by
  cases a; cases b; simp_all

/-- `Rᵀ (R v) = v` -/
theorem tmul_mul {R : M3 K} (h : IsRot R) (v : V3 K) : M3.tmulVec R (M3.mulVec R v) = v := by
  obtain ⟨c00, c11, c22, c01, c02, c12, _, _, _, _, _, _⟩ := h
  simp only [M3.tmulVec, M3.mulVec, M3.transpose, M3.col0, M3.col1, M3.col2, V3.dot] at *
  apply V3.ext'
  · simp only; linear_combination v.x * c00 + v.y * c01 + v.z * c02
  · simp only; linear_combination v.x * c01 + v.y * c11 + v.z * c12
  · simp only; linear_combination v.x * c02 + v.y * c12 + v.z * c22

/-- `R (Rᵀ v) = v` -/
theorem mul_tmul {R : M3 K} (h : IsRot R) (v : V3 K) : M3.mulVec R (M3.tmulVec R v) = v := by
  obtain ⟨_, _, _, _, _, _, r00, r11, r22, r01, r02, r12⟩ := h
  simp only [M3.tmulVec, M3.mulVec, M3.transpose, M3.col0, M3.col1, M3.col2, V3.dot] at *
  apply V3.ext'
  · simp only; linear_combination v.x * r00 + v.y * r01 + v.z * r02
  · simp only; linear_combination v.x * r01 + v.y * r11 + v.z * r12
  · simp only; linear_combination v.x * r02 + v.y * r12 + v.z * r22

/-- rotations preserve the dot product -/
theorem dot_mulVec {R : M3 K} (h : IsRot R) (a b : V3 K) : V3.dot (M3.mulVec R a) (M3.mulVec R b) = V3.dot a b := by
  obtain ⟨c00, c11, c22, c01, c02, c12, _, _, _, _, _, _⟩ := h
  simp only [M3.mulVec, M3.col0, M3.col1, M3.col2, V3.dot] at *
  linear_combination (a.x * b.x) * c00 + (a.y * b.y) * c11 + (a.z * b.z) * c22 + (a.x * b.y + a.y * b.x) * c01
    + (a.x * b.z + a.z * b.x) * c02 + (a.y * b.z + a.z * b.y) * c12

theorem dot_tmulVec {R : M3 K} (h : IsRot R) (a b : V3 K) : V3.dot (M3.tmulVec R a) (M3.tmulVec R b) = V3.dot a b := by
  obtain ⟨_, _, _, _, _, _, r00, r11, r22, r01, r02, r12⟩ := h
  simp only [M3.tmulVec, M3.mulVec, M3.transpose, M3.col0, M3.col1, M3.col2, V3.dot] at *
  linear_combination (a.x * b.x) * r00 + (a.y * b.y) * r11 + (a.z * b.z) * r22 + (a.x * b.y + a.y * b.x) * r01
    + (a.x * b.z + a.z * b.x) * r02 + (a.y * b.z + a.z * b.y) * r12

theorem normSq_mulVec {R : M3 K} (h : IsRot R) (a : V3 K) : V3.normSq (M3.mulVec R a) = V3.normSq a :=
  dot_mulVec h a a

theorem normSq_tmulVec {R : M3 K} (h : IsRot R) (a : V3 K) : V3.normSq (M3.tmulVec R a) = V3.normSq a :=
  dot_tmulVec h a a

/-! linearity of `mulVec` -/
theorem mulVec_add (R : M3 K) (a b : V3 K) : M3.mulVec R (V3.add a b) = V3.add (M3.mulVec R a) (M3.mulVec R b) := by
  simp only [M3.mulVec, V3.add, V3.dot]; apply V3.ext' <;> (simp only; ring)
theorem mulVec_sub (R : M3 K) (a b : V3 K) : M3.mulVec R (V3.sub a b) = V3.sub (M3.mulVec R a) (M3.mulVec R b) := by
  simp only [M3.mulVec, V3.sub, V3.dot]; apply V3.ext' <;> (simp only; ring)
theorem mulVec_smul (R : M3 K) (s : K) (a : V3 K) : M3.mulVec R (V3.smul s a) = V3.smul s (M3.mulVec R a) := by
  simp only [M3.mulVec, V3.smul, V3.dot]; apply V3.ext' <;> (simp only; ring)
theorem mulVec_sdiv (R : M3 K) (s : K) (a : V3 K) : M3.mulVec R (V3.sdiv a s) = V3.sdiv (M3.mulVec R a) s := by
  simp only [M3.mulVec, V3.sdiv, V3.dot]; apply V3.ext' <;> (simp only; ring)
theorem mulVec_neg (R : M3 K) (a : V3 K) : M3.mulVec R (V3.neg a) = V3.neg (M3.mulVec R a) := by
  simp only [M3.mulVec, V3.neg, V3.dot]; apply V3.ext' <;> (simp only; ring)

/-- `(A B) v = A (B v)` -/
theorem mulVec_mul (A B : M3 K) (v : V3 K) : M3.mulVec (M3.mul A B) v = M3.mulVec A (M3.mulVec B v) := by
  simp only [M3.mulVec, M3.mul, M3.col0, M3.col1, M3.col2, V3.dot]; apply V3.ext' <;> (simp only; ring)
/-- `(A B)ᵀ v = Bᵀ (Aᵀ v)` -/
theorem tmulVec_mul (A B : M3 K) (v : V3 K) : M3.tmulVec (M3.mul A B) v = M3.tmulVec B (M3.tmulVec A v) := by
  simp only [M3.tmulVec, M3.mulVec, M3.mul, M3.transpose, M3.col0, M3.col1, M3.col2, V3.dot]
  apply V3.ext' <;> (simp only; ring)
/-- `(Aᵀ)ᵀ v = A v` -/
theorem tmulVec_transpose (A : M3 K) (v : V3 K) : M3.tmulVec (M3.transpose A) v = M3.mulVec A v := by
  simp only [M3.tmulVec, M3.mulVec, M3.transpose, M3.col0, M3.col1, M3.col2]
theorem mulVec_transpose (A : M3 K) (v : V3 K) : M3.mulVec (M3.transpose A) v = M3.tmulVec A v := rfl

/-! rigid transforms -/
theorem app_comp (G X : Xf K) (v : V3 K) : Xf.app (Xf.comp G X) v = Xf.app G (Xf.app X v) := by
  simp only [Xf.app, Xf.comp, mulVec_mul, mulVec_add]
  simp only [V3.add]; apply V3.ext' <;> (simp only; ring)

theorem inv_comp_app {G : Xf K} (hG : IsRot G.R) (X : Xf K) (v : V3 K) :
    Xf.inv (Xf.comp G X) (Xf.app G v) = Xf.inv X v := by
  simp only [Xf.inv, Xf.comp, tmulVec_mul]
  have e : V3.sub (Xf.app G v) (Xf.app G X.p) = M3.mulVec G.R (V3.sub v X.p) := by
    simp only [Xf.app, mulVec_sub]; simp only [V3.sub, V3.add]; apply V3.ext' <;> (simp only; ring)
  rw [e, tmul_mul hG]

theorem app_invComp (X1 X2 : Xf K) (v : V3 K) : Xf.app (Xf.invComp X1 X2) v = Xf.inv X1 (Xf.app X2 v) := by
  simp only [Xf.app, Xf.invComp, Xf.inv, mulVec_mul, mulVec_transpose]
  simp only [M3.tmulVec, M3.mulVec, M3.transpose, V3.add, V3.sub, V3.dot, M3.col0, M3.col1, M3.col2]
  apply V3.ext' <;> (simp only; ring)

theorem tmulVec_invComp (X1 X2 : Xf K) (v : V3 K) :
    M3.tmulVec (Xf.invComp X1 X2).R v = M3.tmulVec X2.R (M3.mulVec X1.R v) := by
  simp only [Xf.invComp, tmulVec_mul, tmulVec_transpose]

/-- the relative transform `~X1*X2` does not change under a common rigid motion: as far as it is used
(`Tᵀ·`, `T·`) -/
theorem tmulVec_invComp_comp {G : Xf K} (hG : IsRot G.R) (X1 X2 : Xf K) (v : V3 K) :
    M3.tmulVec (Xf.invComp (Xf.comp G X1) (Xf.comp G X2)).R v = M3.tmulVec (Xf.invComp X1 X2).R v := by
  simp only [tmulVec_invComp, Xf.comp, tmulVec_mul, mulVec_mul, tmul_mul hG]

theorem app_invComp_comp {G : Xf K} (hG : IsRot G.R) (X1 X2 : Xf K) (v : V3 K) :
    Xf.app (Xf.invComp (Xf.comp G X1) (Xf.comp G X2)) v = Xf.app (Xf.invComp X1 X2) v := by
  simp only [app_invComp, app_comp, inv_comp_app hG]

/-! products and transposes of rotations are rotations -/
theorem isRot_transpose {R : M3 K} (h : IsRot R) : IsRot (M3.transpose R) := by
  obtain ⟨c00, c11, c22, c01, c02, c12, r00, r11, r22, r01, r02, r12⟩ := h
  constructor <;> simp only [M3.transpose, M3.col0, M3.col1, M3.col2, V3.dot] at * <;> assumption

theorem col0_mul (A B : M3 K) : M3.col0 (M3.mul A B) = M3.mulVec A (M3.col0 B) := by
  simp only [M3.mul, M3.col0, M3.col1, M3.col2, M3.mulVec, V3.dot]
theorem col1_mul (A B : M3 K) : M3.col1 (M3.mul A B) = M3.mulVec A (M3.col1 B) := by
  simp only [M3.mul, M3.col0, M3.col1, M3.col2, M3.mulVec, V3.dot]
theorem col2_mul (A B : M3 K) : M3.col2 (M3.mul A B) = M3.mulVec A (M3.col2 B) := by
  simp only [M3.mul, M3.col0, M3.col1, M3.col2, M3.mulVec, V3.dot]
theorem row0_mul (A B : M3 K) : (M3.mul A B).r0 = M3.tmulVec B A.r0 := by
  simp only [M3.mul, M3.tmulVec, M3.mulVec, M3.transpose, V3.dot, M3.col0, M3.col1, M3.col2]
  apply V3.ext' <;> (simp only; ring)
theorem row1_mul (A B : M3 K) : (M3.mul A B).r1 = M3.tmulVec B A.r1 := by
  simp only [M3.mul, M3.tmulVec, M3.mulVec, M3.transpose, V3.dot, M3.col0, M3.col1, M3.col2]
  apply V3.ext' <;> (simp only; ring)
theorem row2_mul (A B : M3 K) : (M3.mul A B).r2 = M3.tmulVec B A.r2 := by
  simp only [M3.mul, M3.tmulVec, M3.mulVec, M3.transpose, V3.dot, M3.col0, M3.col1, M3.col2]
  apply V3.ext' <;> (simp only; ring)

theorem isRot_mul {A B : M3 K} (hA : IsRot A) (hB : IsRot B) : IsRot (M3.mul A B) := by
  constructor
  · rw [col0_mul, dot_mulVec hA]; exact hB.c00
  · rw [col1_mul, dot_mulVec hA]; exact hB.c11
  · rw [col2_mul, dot_mulVec hA]; exact hB.c22
  · rw [col0_mul, col1_mul, dot_mulVec hA]; exact hB.c01
  · rw [col0_mul, col2_mul, dot_mulVec hA]; exact hB.c02
  · rw [col1_mul, col2_mul, dot_mulVec hA]; exact hB.c12
  · rw [row0_mul, dot_tmulVec hB]; exact hA.r00
  · rw [row1_mul, dot_tmulVec hB]; exact hA.r11
  · rw [row2_mul, dot_tmulVec hB]; exact hA.r22
  · rw [row0_mul, row1_mul, dot_tmulVec hB]; exact hA.r01
  · rw [row0_mul, row2_mul, dot_tmulVec hB]; exact hA.r02
  · rw [row1_mul, row2_mul, dot_tmulVec hB]; exact hA.r12

/-- the relative frame `~X1*X2` of two rigid frames is a rotation -/
theorem isRot_invComp {X1 X2 : Xf K} (h1 : IsRot X1.R) (h2 : IsRot X2.R) : IsRot (Xf.invComp X1 X2).R :=
  isRot_mul (isRot_transpose h1) h2

end Geom
