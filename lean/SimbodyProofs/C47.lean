import SimbodyModel.C47
import SimbodyProofs.C35_lemmas

/-!
# C47 — property theorems: closed-form geodesics lie on their surfaces, have unit tangents orthogonal to the surface
normal, zero geodesic curvature, and are parametrised by arc length

Over any field; the angle enters through a trig pair `(c, s)` with `c² + s² = 1`; "derivative with respect to arc
length" is the ε-part of the model evaluated on jets with the lift `ċ = −s φ̇`, `ṡ = c φ̇` of the trig pair.
Sphere: great circle through the unit normal `n` with unit tangent `t ⟂ n`.  Cylinder: helix from the unit normal
`n0` (`n0.z = 0`) with unit tangent `t0 ⟂ n0`.
-/
namespace Geom
namespace Geo
variable {K : Type} [Field K]

/-- the trig pair of `φ(s)` as jets in `s`, `φ̇ = w` -/
def cJ (c s w : K) : Jet1 K := ⟨c, -(s * w)⟩
def sJ (c s w : K) : Jet1 K := ⟨s, c * w⟩
/-- the arc length itself as a jet -/
def arcJ (sArc : K) : Jet1 K := ⟨sArc, 1⟩

/-! ## sphere -/
section sphere
variable (r : K) (n t : V3 K) (sArc c s : K)

theorem Sph.on_surface (hn : V3.dot n n = 1) (ht : V3.dot t t = 1) (hnt : V3.dot n t = 0) (hcs : c * c + s * s = 1) :
    Geom.Sph.value r (Sph.knot r n t sArc c s).point = 0 := by
  simp only [Sph.knot, Geom.Sph.value, V3.dot, V3.smul, V3.add] at *
  linear_combination (-(r * r * c * c)) * hn + (-(r * r * s * s)) * ht + (-(2 * r * r * c * s)) * hnt + (-(r * r)) * hcs

theorem Sph.unit_tangent (hn : V3.dot n n = 1) (ht : V3.dot t t = 1) (hnt : V3.dot n t = 0) (hcs : c * c + s * s = 1) :
    V3.normSq (Sph.knot r n t sArc c s).tangent = 1 := by
  simp only [Sph.knot, V3.normSq, V3.dot, V3.smul, V3.add] at *
  linear_combination (s * s) * hn + (c * c) * ht + (-(2 * c * s)) * hnt + hcs

/-- the surface normal at the knot is `point / r`; the tangent is orthogonal to it -/
theorem Sph.tangent_orthogonal_normal (hn : V3.dot n n = 1) (ht : V3.dot t t = 1) (hnt : V3.dot n t = 0) :
    V3.dot (Sph.knot r n t sArc c s).tangent (Sph.knot r n t sArc c s).point = 0 := by
  simp only [Sph.knot, V3.dot, V3.smul, V3.add] at *
  linear_combination (-(r * c * s)) * hn + (r * c * s) * ht + (r * (c * c - s * s)) * hnt

/-- arc-length parametrisation: `d point / ds = tangent` (so the length between two knots is the difference of their
arc-length parameters: **length closed form** `L = r · angle`) -/
theorem Sph.length_closed_form (hr : r ≠ 0) :
    epsV (Sph.knot (Jet1.const r) (constV n) (constV t) (arcJ sArc) (cJ c s (1 / r)) (sJ c s (1 / r))).point
      = (Sph.knot r n t sArc c s).tangent := by
  simp only [Sph.knot, epsV, constV, cJ, sJ, V3.smul, V3.add, Jet1.mul_e, Jet1.add_e, Jet1.const_v, Jet1.const_e,
    Jet1.neg_v, Jet1.neg_e]
  apply V3.ext' <;> (simp only; field_simp; ring)

/-- **zero geodesic curvature**: the acceleration `d tangent / ds` is `−point / r²`, parallel to the surface normal -/
theorem Sph.geodesic_curvature_zero (hr : r ≠ 0) :
    epsV (Sph.knot (Jet1.const r) (constV n) (constV t) (arcJ sArc) (cJ c s (1 / r)) (sJ c s (1 / r))).tangent
      = V3.smul (-(1 / (r * r))) (Sph.knot r n t sArc c s).point := by
  simp only [Sph.knot, epsV, constV, cJ, sJ, V3.smul, V3.add, Jet1.mul_e, Jet1.add_e, Jet1.const_v, Jet1.const_e,
    Jet1.neg_v, Jet1.neg_e]
  apply V3.ext' <;> (simp only; field_simp; ring)

/-- the Jacobi scalars written by the code are the closed forms `r sin`, `cos`, `cos`, `−sin / r` -/
theorem Sph.jacobi_closed_form (hn : V3.dot n n = 1) (ht : V3.dot t t = 1) (hnt : V3.dot n t = 0) :
    (Sph.knot r n t sArc c s).jRot = r * s ∧ (Sph.knot r n t sArc c s).jRotDot = c ∧
    (Sph.knot r n t sArc c s).jTrans = c ∧ (Sph.knot r n t sArc c s).jTransDot = -s / r := by
  have htn : V3.dot t n = 0 := by simp only [V3.dot] at hnt ⊢; linear_combination hnt
  simp only [Sph.knot, V3.dot, V3.smul, V3.add] at *
  refine ⟨?_, ?_, ?_, ?_⟩
  · linear_combination (r * s) * hn + (-(r * c)) * hnt
  · linear_combination c * hn + s * hnt
  · linear_combination (-s) * htn + c * ht
  · have e : t.x * (c * n.x + s * t.x) + t.y * (c * n.y + s * t.y) + t.z * (c * n.z + s * t.z) = s := by
      linear_combination c * htn + s * ht
    rw [e]
end sphere

/-! ## cylinder -/
section cylinder
variable (R : K) (n0 t0 : V3 K) (h0 sArc c s : K)

/-- a unit tangent orthogonal to the horizontal unit normal has horizontal part `τ·(−n_y, n_x)` with `τ = −(t×n)_z` -/
theorem Cyl.tangent_decomposition (hz : n0.z = 0) (hn : V3.dot n0 n0 = 1) (hnt : V3.dot n0 t0 = 0) :
    t0.x = (V3.cross t0 n0).z * n0.y ∧ t0.y = -((V3.cross t0 n0).z * n0.x) := by
  simp only [V3.dot, V3.cross, hz, mul_zero, add_zero, zero_mul] at *
  constructor
  · linear_combination (-t0.x) * hn + n0.x * hnt
  · linear_combination (-t0.y) * hn + n0.y * hnt

theorem Cyl.on_surface (hz : n0.z = 0) (hn : V3.dot n0 n0 = 1) (hcs : c * c + s * s = 1) :
    Geom.Cyl.value R (Cyl.knot R n0 t0 h0 sArc c s).point = 0 := by
  simp only [Cyl.knot, Cyl.rotZ, Geom.Cyl.value, V3.dot, hz, mul_zero, add_zero] at *
  linear_combination (-(R * R * (c * c + s * s))) * hn + (-(R * R)) * hcs

theorem Cyl.unit_tangent (ht : V3.dot t0 t0 = 1) (hcs : c * c + s * s = 1) :
    V3.normSq (Cyl.knot R n0 t0 h0 sArc c s).tangent = 1 := by
  simp only [Cyl.knot, Cyl.rotZ, V3.normSq, V3.dot] at *
  linear_combination ht + (t0.x * t0.x + t0.y * t0.y) * hcs

/-- the surface normal at the knot is the start normal rotated by the same angle; the tangent is orthogonal to it -/
theorem Cyl.tangent_orthogonal_normal (hz : n0.z = 0) (hnt : V3.dot n0 t0 = 0) (hcs : c * c + s * s = 1) :
    V3.dot (Cyl.knot R n0 t0 h0 sArc c s).tangent (Cyl.rotZ c s n0) = 0 := by
  simp only [Cyl.knot, Cyl.rotZ, V3.dot, hz, mul_zero, add_zero] at *
  linear_combination (c * c + s * s) * hnt

/-- the point is `R·normal + height`, the height grows linearly with slope `t0.z` -/
theorem Cyl.point_form (hz : n0.z = 0) :
    (Cyl.knot R n0 t0 h0 sArc c s).point = V3.add (V3.smul R (Cyl.rotZ c s n0)) ⟨0, 0, h0 + sArc * t0.z⟩ := by
  simp only [Cyl.knot, Cyl.rotZ, V3.add, V3.smul, hz]
  apply V3.ext' <;> (simp only; ring)

/-- arc-length parametrisation: `d point / ds = tangent` (**length closed form**: the helix of angle `φ` and height gain
`Δh` has length `s` with `φ = ω s`, `Δh = t0.z s`) -/
theorem Cyl.length_closed_form (hR : R ≠ 0) (hz : n0.z = 0) (hn : V3.dot n0 n0 = 1) (hnt : V3.dot n0 t0 = 0) :
    epsV (Cyl.knot (Jet1.const R) (constV n0) (constV t0) (Jet1.const h0) (arcJ sArc)
        (cJ c s (Cyl.omega R n0 t0)) (sJ c s (Cyl.omega R n0 t0))).point
      = (Cyl.knot R n0 t0 h0 sArc c s).tangent := by
  obtain ⟨d1, d2⟩ := Cyl.tangent_decomposition n0 t0 hz hn hnt
  simp only [Cyl.knot, Cyl.rotZ, Cyl.omega, epsV, constV, cJ, sJ, arcJ, Jet1.mul_e, Jet1.add_e, Jet1.sub_e, Jet1.const_v,
    Jet1.const_e, Jet1.mul_v, Jet1.sub_v, Jet1.add_v, Jet1.zero_e, Jet1.zero_v]
  generalize (V3.cross t0 n0).z = bz at d1 d2
  apply V3.ext'
  · simp only; rw [d1, d2]; field_simp; ring
  · simp only; rw [d1, d2]; field_simp; ring
  · simp only; rw [hz]; ring

/-- **zero geodesic curvature**: the acceleration `d tangent / ds` is `−(ω² R)·normal`, parallel to the surface normal -/
theorem Cyl.geodesic_curvature_zero (hR : R ≠ 0) (hz : n0.z = 0) (hn : V3.dot n0 n0 = 1) (hnt : V3.dot n0 t0 = 0) :
    epsV (Cyl.knot (Jet1.const R) (constV n0) (constV t0) (Jet1.const h0) (arcJ sArc)
        (cJ c s (Cyl.omega R n0 t0)) (sJ c s (Cyl.omega R n0 t0))).tangent
      = V3.smul (-(Cyl.omega R n0 t0 * Cyl.omega R n0 t0 * R)) (Cyl.rotZ c s n0) := by
  obtain ⟨d1, d2⟩ := Cyl.tangent_decomposition n0 t0 hz hn hnt
  simp only [Cyl.knot, Cyl.rotZ, Cyl.omega, epsV, constV, cJ, sJ, V3.smul, Jet1.mul_e, Jet1.add_e, Jet1.sub_e, Jet1.const_v,
    Jet1.const_e, Jet1.mul_v, Jet1.sub_v, Jet1.add_v]
  generalize (V3.cross t0 n0).z = bz at d1 d2
  apply V3.ext'
  · simp only; rw [d1, d2]; field_simp; ring
  · simp only; rw [d1, d2]; field_simp; ring
  · simp only; rw [hz]; ring

end cylinder

/-! ## start frame and non-vacuity -/

/-- the projected start tangent is a unit vector orthogonal to the normal (whenever the two normalisations are defined) -/
theorem start_tangent_orthonormal (sqrt : K → K) (n ta : V3 K)
    (h2 : sqrt (V3.normSq (V3.cross (V3.unit sqrt (V3.cross n ta)) n)) * sqrt (V3.normSq (V3.cross (V3.unit sqrt (V3.cross n ta)) n))
        = V3.normSq (V3.cross (V3.unit sqrt (V3.cross n ta)) n))
    (h2' : sqrt (V3.normSq (V3.cross (V3.unit sqrt (V3.cross n ta)) n)) ≠ 0) :
    V3.dot (startTangent sqrt n ta) n = 0 ∧ V3.normSq (startTangent sqrt n ta) = 1 := by
  refine ⟨?_, unit_normSq sqrt _ h2 h2'⟩
  unfold startTangent
  generalize V3.unit sqrt (V3.cross n ta) = u at h2 h2' ⊢
  simp only [V3.unit, V3.sdiv, V3.dot]
  generalize sqrt (V3.normSq (V3.cross u n)) = m at h2'
  simp only [V3.cross]
  field_simp
  ring

/-- hypotheses are satisfiable: 3-4-5 trig pair, `n = x`, `t = y` on the unit sphere gives the point (3/5, 4/5, 0) -/
example : (Sph.knot (1 : ℚ) ⟨1, 0, 0⟩ ⟨0, 1, 0⟩ 0 (3 / 5) (4 / 5)).point = ⟨3 / 5, 4 / 5, 0⟩ ∧
    V3.dot (⟨1, 0, 0⟩ : V3 ℚ) ⟨0, 1, 0⟩ = 0 ∧ ((3 : ℚ) / 5) * (3 / 5) + (4 / 5) * (4 / 5) = 1 := by
  norm_num [Sph.knot, V3.smul, V3.add, V3.dot]

/-- a helix on the unit cylinder: `n0 = x`, `t0 = (0, 3/5, 4/5)`: `ω = 3/5`, the height grows with slope 4/5 -/
example : Cyl.omega (1 : ℚ) ⟨1, 0, 0⟩ ⟨0, 3 / 5, 4 / 5⟩ = 3 / 5 ∧ V3.dot (⟨1, 0, 0⟩ : V3 ℚ) ⟨0, 3 / 5, 4 / 5⟩ = 0 ∧
    V3.dot (⟨0, 3 / 5, 4 / 5⟩ : V3 ℚ) ⟨0, 3 / 5, 4 / 5⟩ = 1 := by
  norm_num [Cyl.omega, V3.cross, V3.dot]


/-! ## the loop as coded (`R = dR * R`) equals the closed form; unit speed; start frame from `SqrtSpec` -/
section loop
variable {K : Type} [Field K]

/-- the iterated trig pair stays on the unit circle -/
theorem trigIter_unit (cd sd : K) (h : cd * cd + sd * sd = 1) (k : Nat) :
    (trigIter cd sd k).1 * (trigIter cd sd k).1 + (trigIter cd sd k).2 * (trigIter cd sd k).2 = 1 := by
  induction k with
  | zero => simp [trigIter]
  | succ k ih =>
    simp only [trigIter]
    generalize (trigIter cd sd k).1 = C at ih ⊢
    generalize (trigIter cd sd k).2 = S at ih ⊢
    linear_combination (cd * cd + sd * sd) * ih + h

/-- `Rotation(Δφ, n × t)` acts on the plane spanned by the orthonormal pair `(n, t)` as the plane rotation by `Δφ` -/
theorem axisAngle_plane (n t : V3 K) (cd sd al be : K)
    (hn : V3.dot n n = 1) (ht : V3.dot t t = 1) (hnt : V3.dot n t = 0) :
    M3.mulVec (axisAngle (V3.neg (V3.cross t n)) cd sd) (V3.add (V3.smul al n) (V3.smul be t))
      = V3.add (V3.smul (al * cd - be * sd) n) (V3.smul (al * sd + be * cd) t) := by
  simp only [axisAngle, M3.mulVec, V3.dot, V3.neg, V3.cross, V3.add, V3.smul] at *
  apply V3.ext'
  · simp only
    linear_combination (al * sd * t.x) * hn + (-(be * sd * n.x)) * ht + (be * sd * t.x - al * sd * n.x) * hnt
  · simp only
    linear_combination (al * sd * t.y) * hn + (-(be * sd * n.y)) * ht + (be * sd * t.y - al * sd * n.y) * hnt
  · simp only
    linear_combination (al * sd * t.z) * hn + (-(be * sd * n.z)) * ht + (be * sd * t.z - al * sd * n.z) * hnt

omit [Field K] in
theorem col0_frameOfCols (x y z : V3 K) : M3.col0 (frameOfCols x y z) = x := rfl
omit [Field K] in
theorem col1_frameOfCols (x y z : V3 K) : M3.col1 (frameOfCols x y z) = y := rfl

/-- **the sphere loop = the closed form**: after `k` passes through `R = dR * R` the normal and tangent columns of the frame
are `C_k n + S_k t` and `−S_k n + C_k t`, `(C_k, S_k)` the trig pair of `k·Δφ` (addition law) -/
theorem Sph.frameIter_cols (n t b : V3 K) (cd sd : K)
    (hn : V3.dot n n = 1) (ht : V3.dot t t = 1) (hnt : V3.dot n t = 0) (k : Nat) :
    M3.col1 (frameIter (axisAngle (V3.neg (V3.cross t n)) cd sd) k (frameOfCols t n b))
        = V3.add (V3.smul (trigIter cd sd k).1 n) (V3.smul (trigIter cd sd k).2 t) ∧
    M3.col0 (frameIter (axisAngle (V3.neg (V3.cross t n)) cd sd) k (frameOfCols t n b))
        = V3.add (V3.smul (-(trigIter cd sd k).2) n) (V3.smul (trigIter cd sd k).1 t) := by
  induction k with
  | zero =>
    simp only [frameIter, trigIter, col0_frameOfCols, col1_frameOfCols, V3.add, V3.smul]
    constructor <;> (apply V3.ext' <;> (simp only; ring))
  | succ k ih =>
    obtain ⟨i1, i0⟩ := ih
    simp only [frameIter, trigIter, col0_mul, col1_mul, i1, i0, axisAngle_plane n t cd sd _ _ hn ht hnt]
    constructor <;> (simp only [V3.add, V3.smul]; apply V3.ext' <;> (simp only; ring))

/-- the knot written by the loop at pass `k` is the closed-form knot at the trig pair of `k·Δφ` -/
theorem Sph.loop_eq_closed_form (r : K) (n t : V3 K) (cd sd : K)
    (hn : V3.dot n n = 1) (ht : V3.dot t t = 1) (hnt : V3.dot n t = 0) (k : Nat) (sArc : K) :
    Sph.knotLoop r n t cd sd k sArc = Sph.knot r n t sArc (trigIter cd sd k).1 (trigIter cd sd k).2 := by
  obtain ⟨i1, i0⟩ := Sph.frameIter_cols n t (V3.cross t n) cd sd hn ht hnt k
  simp only [Sph.knotLoop, Sph.knotOfFrame, i1, i0, Sph.knot]

/-- hence every knot of the loop lies on the sphere and carries a unit tangent orthogonal to the normal -/
theorem Sph.loop_on_surface (r : K) (n t : V3 K) (cd sd : K)
    (hn : V3.dot n n = 1) (ht : V3.dot t t = 1) (hnt : V3.dot n t = 0) (hcs : cd * cd + sd * sd = 1) (k : Nat) (sArc : K) :
    Geom.Sph.value r (Sph.knotLoop r n t cd sd k sArc).point = 0 ∧
    V3.normSq (Sph.knotLoop r n t cd sd k sArc).tangent = 1 ∧
    V3.dot (Sph.knotLoop r n t cd sd k sArc).tangent (Sph.knotLoop r n t cd sd k sArc).point = 0 := by
  rw [Sph.loop_eq_closed_form r n t cd sd hn ht hnt]
  have hk := trigIter_unit cd sd hcs k
  exact ⟨Sph.on_surface r n t sArc _ _ hn ht hnt hk, Sph.unit_tangent r n t sArc _ _ hn ht hnt hk,
    Sph.tangent_orthogonal_normal r n t sArc _ _ hn ht hnt⟩

/-- `Rotation(Δφ, ZAxis)` is the plane rotation about z -/
theorem axisAngle_z (cd sd : K) (v : V3 K) : M3.mulVec (axisAngle (⟨0, 0, 1⟩ : V3 K) cd sd) v = Cyl.rotZ cd sd v := by
  simp only [axisAngle, M3.mulVec, V3.dot, Cyl.rotZ]
  apply V3.ext' <;> (simp only; try ring)

theorem Cyl.rotZ_rotZ (c1 s1 c2 s2 : K) (v : V3 K) :
    Cyl.rotZ c2 s2 (Cyl.rotZ c1 s1 v) = Cyl.rotZ (c1 * c2 - s1 * s2) (s1 * c2 + c1 * s2) v := by
  simp only [Cyl.rotZ]
  apply V3.ext' <;> (simp only; try ring)

/-- **the cylinder loop = the closed form** -/
theorem Cyl.frameIter_cols (n0 t0 b : V3 K) (cd sd : K) (k : Nat) :
    M3.col1 (frameIter (axisAngle (⟨0, 0, 1⟩ : V3 K) cd sd) k (frameOfCols t0 n0 b))
        = Cyl.rotZ (trigIter cd sd k).1 (trigIter cd sd k).2 n0 ∧
    M3.col0 (frameIter (axisAngle (⟨0, 0, 1⟩ : V3 K) cd sd) k (frameOfCols t0 n0 b))
        = Cyl.rotZ (trigIter cd sd k).1 (trigIter cd sd k).2 t0 := by
  induction k with
  | zero =>
    simp only [frameIter, trigIter, col0_frameOfCols, col1_frameOfCols, Cyl.rotZ]
    constructor <;> (apply V3.ext' <;> (simp only; try ring))
  | succ k ih =>
    obtain ⟨i1, i0⟩ := ih
    constructor <;> simp only [frameIter, trigIter, col0_mul, col1_mul, i1, i0, axisAngle_z, Cyl.rotZ_rotZ]

theorem Cyl.loop_eq_closed_form (R : K) (n0 t0 : V3 K) (h0 cd sd : K) (k : Nat) (sArc : K) :
    Cyl.knotLoop R n0 t0 h0 cd sd k sArc = Cyl.knot R n0 t0 h0 sArc (trigIter cd sd k).1 (trigIter cd sd k).2 := by
  obtain ⟨i1, i0⟩ := Cyl.frameIter_cols n0 t0 (V3.cross t0 n0) cd sd k
  simp only [Cyl.knotLoop, i1, i0, Cyl.knot]

theorem Cyl.loop_on_surface (R : K) (n0 t0 : V3 K) (h0 cd sd : K)
    (hz : n0.z = 0) (hn : V3.dot n0 n0 = 1) (ht : V3.dot t0 t0 = 1) (hcs : cd * cd + sd * sd = 1) (k : Nat) (sArc : K) :
    Geom.Cyl.value R (Cyl.knotLoop R n0 t0 h0 cd sd k sArc).point = 0 ∧
    V3.normSq (Cyl.knotLoop R n0 t0 h0 cd sd k sArc).tangent = 1 := by
  rw [Cyl.loop_eq_closed_form]
  have hk := trigIter_unit cd sd hcs k
  exact ⟨Cyl.on_surface R n0 t0 h0 sArc _ _ hz hn hk, Cyl.unit_tangent R n0 t0 h0 sArc _ _ ht hk⟩

/-- the closed-form great circle is traversed at unit speed: `|d point/ds| = 1` (what "length = r·angle" means for the knots) -/
theorem Sph.unit_speed (r : K) (n t : V3 K) (sArc c s : K) (hr : r ≠ 0)
    (hn : V3.dot n n = 1) (ht : V3.dot t t = 1) (hnt : V3.dot n t = 0) (hcs : c * c + s * s = 1) :
    V3.normSq (epsV (Sph.knot (Jet1.const r) (constV n) (constV t) (arcJ sArc) (cJ c s (1 / r)) (sJ c s (1 / r))).point) = 1 := by
  rw [Sph.length_closed_form r n t sArc c s hr]; exact Sph.unit_tangent r n t sArc c s hn ht hnt hcs

theorem Cyl.unit_speed (R : K) (n0 t0 : V3 K) (h0 sArc c s : K) (hR : R ≠ 0) (hz : n0.z = 0)
    (hn : V3.dot n0 n0 = 1) (ht : V3.dot t0 t0 = 1) (hnt : V3.dot n0 t0 = 0) (hcs : c * c + s * s = 1) :
    V3.normSq (epsV (Cyl.knot (Jet1.const R) (constV n0) (constV t0) (Jet1.const h0) (arcJ sArc)
        (cJ c s (Cyl.omega R n0 t0)) (sJ c s (Cyl.omega R n0 t0))).point) = 1 := by
  rw [Cyl.length_closed_form R n0 t0 h0 sArc c s hR hz hn hnt]; exact Cyl.unit_tangent R n0 t0 h0 sArc c s ht hcs
end loop

section ordered
variable {K : Type} [Field K] [LinearOrder K] [IsStrictOrderedRing K]

/-- `start_tangent_orthonormal` from `SqrtSpec`: for a unit normal and an approximate tangent not parallel to it the
projected start tangent is a unit vector orthogonal to the normal -/
theorem start_tangent_orthonormal_spec (sqrt : K → K) (hsq : SqrtSpec sqrt) (n ta : V3 K) (hn : V3.dot n n = 1)
    (hgen : 0 < V3.normSq (V3.cross n ta)) :
    V3.dot (startTangent sqrt n ta) n = 0 ∧ V3.normSq (startTangent sqrt n ta) = 1 := by
  have hm2 := hsq.sq _ hgen.le
  have hm0 : sqrt (V3.normSq (V3.cross n ta)) ≠ 0 := by
    intro h; rw [h, mul_zero] at hm2; exact absurd hm2 (ne_of_lt hgen)
  have hu := unit_normSq sqrt (V3.cross n ta) hm2 hm0
  have hun : V3.dot (V3.unit sqrt (V3.cross n ta)) n = 0 := by
    simp only [V3.unit, V3.sdiv, V3.dot, V3.cross]
    field_simp
    ring
  have hlag : V3.normSq (V3.cross (V3.unit sqrt (V3.cross n ta)) n) = 1 := by
    generalize V3.unit sqrt (V3.cross n ta) = u at hu hun
    simp only [V3.normSq, V3.dot, V3.cross] at *
    linear_combination (n.x * n.x + n.y * n.y + n.z * n.z) * hu + hn - (u.x * n.x + u.y * n.y + u.z * n.z) * hun
  refine start_tangent_orthonormal sqrt n ta ?_ ?_
  · rw [hlag]; exact hsq.sq 1 zero_le_one
  · rw [hlag]; intro h; have := hsq.sq 1 zero_le_one; rw [h, mul_zero] at this; exact zero_ne_one this
end ordered

/-- the loop is non-vacuous: two passes with the 3-4-5 pair give the pair of the double angle, and the loop's knot 1 on the
unit sphere is the closed-form knot -/
example : trigIter ((3 : ℚ) / 5) (4 / 5) 2 = (-7 / 25, 24 / 25) ∧
    (Sph.knotLoop (1 : ℚ) ⟨1, 0, 0⟩ ⟨0, 1, 0⟩ (3 / 5) (4 / 5) 1 0).point = ⟨3 / 5, 4 / 5, 0⟩ := by
  norm_num [trigIter, Sph.knotLoop, Sph.knotOfFrame, frameIter, axisAngle, frameOfCols, M3.mul, M3.col0, M3.col1, M3.col2,
    V3.cross, V3.neg, V3.smul, V3.dot]

end Geo
end Geom
