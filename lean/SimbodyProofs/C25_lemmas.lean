import SimbodyModel.C25
import SimbodyModel.C25_small
import Mathlib.Tactic.Ring
import Mathlib.Tactic.FieldSimp
import Mathlib.Tactic.Linarith
import Mathlib.Tactic.LinearCombination
import Mathlib.Tactic.NormNum
import Mathlib.Data.List.Nodup
import Mathlib.Data.List.Range
import Mathlib.Data.Nat.Choose.Basic

/-!
# C25 — helper lemmas (lists, arrays, triangular numbers) for `SimbodyProofs/C25.lean`
-/
namespace C25

/-! ## strictly increasing index lists -/

theorem strictInc_cons {a : Nat} {l : List Nat} (h : strictInc (a :: l) = true) :
    strictInc l = true ∧ ∀ x ∈ l, a < x := by
  induction l generalizing a with
  | nil => simp [strictInc]
  | cons b t ih =>
    simp only [strictInc, Bool.and_eq_true, decide_eq_true_eq] at h
    obtain ⟨hab, ht⟩ := h
    refine ⟨ht, ?_⟩
    intro x hx
    rcases List.mem_cons.mp hx with rfl | hx
    · exact hab
    · exact lt_trans hab ((ih ht).2 x hx)

theorem strictInc_nodup {l : List Nat} (h : strictInc l = true) : l.Nodup := by
  induction l with
  | nil => exact List.nodup_nil
  | cons a t ih =>
    obtain ⟨ht, hlt⟩ := strictInc_cons h
    refine List.nodup_cons.mpr ⟨?_, ih ht⟩
    intro ha
    exact lt_irrefl _ (hlt a ha)

/-- distinct positions of a strictly increasing list hold distinct values -/
theorem strictInc_getD_inj {l : List Nat} (h : strictInc l = true) {a b : Nat} (ha : a < l.length)
    (hb : b < l.length) (e : l.getD a 0 = l.getD b 0) : a = b := by
  have hn := strictInc_nodup h
  have e1 : l.getD a 0 = l[a] := by simp [List.getD, ha]
  have e2 : l.getD b 0 = l[b] := by simp [List.getD, hb]
  rw [e1, e2] at e
  exact (List.Nodup.getElem_inj_iff hn).mp e

theorem all_lt_getD {l : List Nat} {n : Nat} (h : l.all (fun k => decide (k < n)) = true) {a : Nat}
    (ha : a < l.length) : l.getD a 0 < n := by
  have e1 : l.getD a 0 = l[a] := by simp [List.getD, ha]
  rw [e1]
  have := List.all_eq_true.mp h (l[a]) (List.getElem_mem ha)
  simpa using this

/-! ## index pairs -/

theorem mem_indexPairs {nr nc : Nat} {p : Nat × Nat} : p ∈ indexPairs nr nc ↔ p.1 < nr ∧ p.2 < nc := by
  obtain ⟨i, j⟩ := p
  simp only [indexPairs, List.mem_flatMap, List.mem_range, List.mem_map, Prod.mk.injEq]
  constructor
  · rintro ⟨j', hj', i', hi', rfl, rfl⟩; exact ⟨hi', hj'⟩
  · rintro ⟨hi, hj⟩; exact ⟨j, hj, i, hi, rfl, rfl⟩

theorem nodup_indexPairs (nr nc : Nat) : (indexPairs nr nc).Nodup := by
  unfold indexPairs
  rw [List.nodup_flatMap]
  refine ⟨?_, ?_⟩
  · intro j _
    exact (List.nodup_range).map (fun a b h => by simpa using h)
  · refine List.Pairwise.imp_of_mem ?_ (List.nodup_range (n := nc))
    intro a b _ _ hab
    simp only [Function.onFun, List.disjoint_left, List.mem_map, List.mem_range]
    rintro p ⟨i, _, rfl⟩ ⟨i', _, h⟩
    simp only [Prod.mk.injEq] at h
    exact hab h.2.symm

/-! ## sequential writes into an array -/

variable {K : Type}

/-- writing the values `g p` at the pairwise distinct in-bounds addresses `a p`, one after the other -/
theorem foldl_set_spec (a : Nat × Nat → Nat) (g : Nat × Nat → K) (dflt : K) :
    ∀ (l : List (Nat × Nat)) (s : Array K), (l.map a).Nodup → (∀ p ∈ l, a p < s.size) →
      let r := l.foldl (fun acc p => acc.setIfInBounds (a p) (g p)) s
      r.size = s.size ∧ (∀ p ∈ l, r.getD (a p) dflt = g p) ∧
        (∀ x, (∀ p ∈ l, a p ≠ x) → r.getD x dflt = s.getD x dflt) := by
  intro l
  induction l with
  | nil => intro s _ _; simp
  | cons q t ih =>
    intro s hnd hin
    simp only [List.map_cons, List.nodup_cons, List.mem_map, not_exists, not_and] at hnd
    obtain ⟨hq, hnt⟩ := hnd
    have hqin : a q < s.size := hin q (List.mem_cons_self ..)
    have hin' : ∀ p ∈ t, a p < (s.setIfInBounds (a q) (g q)).size := by
      intro p hp; rw [Array.size_setIfInBounds]; exact hin p (List.mem_cons_of_mem _ hp)
    obtain ⟨hs, hw, hu⟩ := ih (s.setIfInBounds (a q) (g q)) hnt hin'
    simp only [List.foldl_cons]
    refine ⟨by rw [hs, Array.size_setIfInBounds], ?_, ?_⟩
    · intro p hp
      rcases List.mem_cons.mp hp with rfl | hp
      · rw [hu (a p) (fun p' hp' h => hq p' hp' h)]
        simp [Array.getD, Array.size_setIfInBounds, hqin]
      · exact hw p hp
    · intro x hx
      rw [hu x (fun p hp => hx p (List.mem_cons_of_mem _ hp))]
      have hne : a q ≠ x := hx q (List.mem_cons_self ..)
      simp only [Array.getD, Array.size_setIfInBounds]
      split
      · rename_i h; exact Array.getElem_setIfInBounds_ne h hne
      · rfl

/-! ## triangular numbers and the packed lower-triangle index -/

/-- `j*(j-1)/2` -/
def tri (j : Nat) : Nat := j * (j - 1) / 2

theorem tri_succ (j : Nat) : tri (j + 1) = tri j + j := by
  unfold tri; exact Nat.triangle_succ j

theorem tri_le (j n : Nat) (h : j ≤ n) : tri j + j ≤ j * n := by
  induction j with
  | zero => simp [tri]
  | succ k ih =>
    have hk : k ≤ n := by omega
    have := ih hk
    rw [tri_succ]
    have e : (k + 1) * n = k * n + n := by ring
    rw [e]; omega

/-- start of column `j` of the packed strict lower triangle of an n×n matrix -/
def colStart (n j : Nat) : Nat := j * (n - 1) - tri j

theorem colStart_succ (n j : Nat) (h : j < n) : colStart n (j + 1) = colStart n j + (n - 1 - j) := by
  unfold colStart
  have h1 := tri_le j (n - 1) (by omega)
  rw [tri_succ]
  have e : (j + 1) * (n - 1) = j * (n - 1) + (n - 1) := by ring
  rw [e]; omega

theorem colStart_mono (n : Nat) : ∀ j k, j ≤ k → k ≤ n → colStart n j ≤ colStart n k := by
  intro j k hjk
  induction k with
  | zero => intro _; have : j = 0 := by omega
            subst this; exact le_refl _
  | succ m ih =>
    intro hm
    rcases Nat.lt_or_ge j (m + 1) with h | h
    · have := ih (by omega) (by omega)
      rw [colStart_succ n m (by omega)]; omega
    · have : j = m + 1 := by omega
      subst this; exact le_refl _

theorem lowerIx_eq (n i j : Nat) (hji : j < i) (hin : i < n) : lowerIx n i j = colStart n j + (i - j - 1) := by
  unfold lowerIx colStart
  have h1 := tri_le j (n - 1) (by omega)
  show (i - j - 1) + j * (n - 1) - tri j = j * (n - 1) - tri j + (i - j - 1)
  omega

theorem lowerIx_lt_next (n i j : Nat) (hji : j < i) (hin : i < n) : lowerIx n i j < colStart n (j + 1) := by
  rw [lowerIx_eq n i j hji hin, colStart_succ n j (by omega)]; omega

/-- total size of the packed strict lower triangle: `colStart n (n-1) = n(n-1)/2` -/
theorem colStart_last (n : Nat) : colStart n n = tri n := by
  induction n with
  | zero => simp [colStart, tri]
  | succ m ih =>
    -- colStart (m+1) (m+1) = (m+1)*m - tri (m+1) = (m+1)*m - tri m - m
    unfold colStart
    have h1 := tri_le m m (le_refl _)
    rw [tri_succ]
    have e : (m + 1) * (m + 1 - 1) = m * m + m := by
      have : m + 1 - 1 = m := by omega
      rw [this]; ring
    rw [e]
    -- tri (m+1) = tri m + m and 2*tri m = m*(m-1)
    have h2 : tri m * 2 = m * (m - 1) := by
      unfold tri
      exact Nat.div_mul_cancel (by
        rcases Nat.even_or_odd m with ⟨k, hk⟩ | ⟨k, hk⟩
        · exact Dvd.dvd.mul_right ⟨k, by omega⟩ _
        · exact Dvd.dvd.mul_left ⟨k, by omega⟩ _)
    cases m with
    | zero => simp [tri]
    | succ k =>
      have h3 : (k + 1) * (k + 1 - 1) = (k + 1) * k := by
        have : k + 1 - 1 = k := by omega
        rw [this]
      rw [h3] at h2
      have e2 : (k + 1) * (k + 1) = (k + 1) * k + (k + 1) := by ring
      rw [e2]; omega

end C25
