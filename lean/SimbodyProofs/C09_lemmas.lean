import SimbodyModel.C09
import Mathlib.Algebra.Order.Field.Basic
import Mathlib.Tactic.Linarith
import Mathlib.Tactic.Ring
import Mathlib.Tactic.FieldSimp

/-!
# C09 — helper lemmas: norms of empty vectors, entry block, the Newton loop invariant, pack/unpack
-/
namespace C09
set_option linter.unusedSectionVars false

section
variable {K : Type} [Field K] [LinearOrder K] [IsStrictOrderedRing K]

theorem norm_nil (sqrt : K → K) (useInf : Bool) : norm sqrt useInf ([] : List K) = 0 := by
  cases useInf <;> simp [norm, normW, normInfW, normRMSW]

theorem norm_of_length_zero (sqrt : K → K) (useInf : Bool) (xs : List K) (h : xs.length = 0) :
    norm sqrt useInf xs = 0 := by
  have : xs = [] := List.eq_nil_of_length_eq_zero h
  subst this; exact norm_nil sqrt useInf

theorem entry_perrIn (sqrt : K → K) (useInf : Bool) (perr w quat : List K) :
    (entryNormQ sqrt useInf perr w quat).perrIn = norm sqrt useInf (scale perr w) := by
  unfold entryNormQ norm; simp only; split <;> rfl

theorem entry_quatIn (sqrt : K → K) (useInf : Bool) (perr w quat : List K) :
    (entryNormQ sqrt useInf perr w quat).quatIn = norm sqrt useInf quat := by
  unfold entryNormQ norm; simp only; split <;> rfl

theorem entry_normIn (sqrt : K → K) (useInf : Bool) (perr w quat : List K) :
    let e := entryNormQ sqrt useInf perr w quat
    e.normIn = if e.quatIn ≤ e.perrIn then e.perrIn else e.quatIn := by
  unfold entryNormQ; simp only; split <;> simp_all

/-- the reported entry norm dominates both partial norms (this is where totality of the order is used) -/
theorem entry_normIn_ge (sqrt : K → K) (useInf : Bool) (perr w quat : List K) :
    let e := entryNormQ sqrt useInf perr w quat
    e.perrIn ≤ e.normIn ∧ e.quatIn ≤ e.normIn := by
  intro e
  have h := entry_normIn sqrt useInf perr w quat
  simp only at h
  by_cases hc : e.quatIn ≤ e.perrIn
  · rw [show e.normIn = e.perrIn by simpa [e, hc] using h]; exact ⟨le_refl _, hc⟩
  · rw [show e.normIn = e.quatIn by simpa [e, hc] using h]; exact ⟨le_of_lt (not_le.mp hc), le_refl _⟩

theorem entry_normIn_le (sqrt : K → K) (useInf : Bool) (perr w quat : List K) (a : K) :
    let e := entryNormQ sqrt useInf perr w quat
    e.perrIn ≤ a → e.quatIn ≤ a → e.normIn ≤ a := by
  intro e hp hq
  have h := entry_normIn sqrt useInf perr w quat
  simp only at h
  by_cases hc : e.quatIn ≤ e.perrIn
  · rw [show e.normIn = e.perrIn by simpa [e, hc] using h]; exact hp
  · rw [show e.normIn = e.quatIn by simpa [e, hc] using h]; exact hq

theorem maxK_le {a b c : K} (ha : a ≤ c) (hb : b ≤ c) : maxK a b ≤ c := by
  unfold maxK; split <;> assumption

/-- invariant of the `do … while` loop: at least one and at most `fuel` iterations; what is reported as achieved is
the norm of the state actually held; a back-step happens only under LocalOnly from the 2nd iteration on. -/
theorem newtonLoop_spec (localOnly : Bool) (tryFor : K) (nrm nrmBack : Nat → K) :
    ∀ (fuel its : Nat) (prev : K), 0 < fuel →
      let L := newtonLoop localOnly tryFor nrm nrmBack fuel its prev
      its + 1 ≤ L.its ∧ L.its ≤ its + fuel ∧
      ((L.diverged = false ∧ L.sel = .iter L.its ∧ L.achieved = nrm (L.its - 1)) ∨
       (L.diverged = true ∧ L.sel = .back L.its ∧ L.achieved = nrmBack (L.its - 1) ∧ localOnly = true ∧ 2 ≤ L.its)) := by
  intro fuel
  induction fuel with
  | zero => intro its prev h; exact absurd h (lt_irrefl 0)
  | succ n ih =>
    intro its prev _
    simp only [newtonLoop]
    split_ifs with h1 h2
    · simp only [Bool.and_eq_true, decide_eq_true_eq] at h1
      refine ⟨le_refl _, by dsimp only; omega, Or.inr ⟨rfl, rfl, by simp, h1.1.1, h1.1.2⟩⟩
    · simp only [Bool.and_eq_true, decide_eq_true_eq] at h2
      have := ih (its + 1) (nrm its) h2.2
      simp only at this
      obtain ⟨a, b, c⟩ := this
      exact ⟨by omega, by omega, c⟩
    · exact ⟨le_refl _, by dsimp only; omega, Or.inl ⟨rfl, rfl, by simp⟩⟩

end

/-! ### pack / unpack -/
section Pack
variable {K : Type}

theorem unpack_length (free : List Nat) (packed base : List K) :
    (unpack free packed base).length = base.length := by
  unfold unpack
  generalize free.zip packed = l
  induction l generalizing base with
  | nil => rfl
  | cons a t ih => simp only [List.foldl_cons]; rw [ih]; simp

/-- a slot that is not a free index keeps what `base` holds -/
theorem unpack_getElem?_of_not_mem (free : List Nat) (packed base : List K) (i : Nat) (hi : i ∉ free) :
    (unpack free packed base)[i]? = base[i]? := by
  unfold unpack
  induction free generalizing packed base with
  | nil => simp
  | cons f fs ih =>
    cases packed with
    | nil => simp
    | cons p ps =>
      simp only [List.zip_cons_cons, List.foldl_cons]
      have hne : f ≠ i := fun h => hi (by simp [h])
      have hi' : i ∉ fs := fun h => hi (by simp [h])
      rw [ih ps (base.set f p) hi', List.getElem?_set_ne hne]

/-- a free slot receives its packed value (indices distinct and in range) -/
theorem unpack_getElem?_of_mem (free : List Nat) (packed base : List K) (hnd : free.Nodup)
    (hlen : packed.length = free.length) (hrange : ∀ i ∈ free, i < base.length) (j : Nat) (hj : j < free.length) :
    (unpack free packed base)[free[j]]? = packed[j]? := by
  unfold unpack
  induction free generalizing packed base j with
  | nil => simp at hj
  | cons f fs ih =>
    cases packed with
    | nil => simp at hlen
    | cons p ps =>
      simp only [List.zip_cons_cons, List.foldl_cons]
      have hnd' := (List.nodup_cons.mp hnd)
      cases j with
      | zero =>
        simp only [List.getElem_cons_zero, List.getElem?_cons_zero]
        have h1 := unpack_getElem?_of_not_mem fs ps (base.set f p) f hnd'.1
        unfold unpack at h1
        rw [h1, List.getElem?_set_self (hrange f (by simp))]
      | succ j' =>
        simp only [List.getElem_cons_succ, List.getElem?_cons_succ]
        apply ih ps (base.set f p) hnd'.2 (by simpa using hlen)
        · intro i hi; simp only [List.length_set]; exact hrange i (by simp [hi])

/-- `pack ∘ unpack = id` on the packed vector -/
theorem pack_unpack (free : List Nat) (packed base : List K) (d : K) (hnd : free.Nodup)
    (hlen : packed.length = free.length) (hrange : ∀ i ∈ free, i < base.length) :
    pack free (unpack free packed base) d = packed := by
  apply List.ext_getElem?
  intro j
  unfold pack
  by_cases hj : j < free.length
  · rw [List.getElem?_map, List.getElem?_eq_getElem hj]
    simp only [Option.map_some]
    have h := unpack_getElem?_of_mem free packed base hnd hlen hrange j hj
    have hj' : j < packed.length := by omega
    rw [List.getElem?_eq_getElem hj'] at h ⊢
    rw [List.getD_eq_getElem?_getD, h]; rfl
  · have h1 : free.length ≤ j := Nat.le_of_not_lt hj
    rw [List.getElem?_eq_none (by simpa using h1), List.getElem?_eq_none (by omega)]

end Pack

end C09
