import SimbodyModel.C32
import SimbodyProofs.C32
import Mathlib.Tactic.NormNum

/-!
# C32 — historical statements (NOT counted as property obligations)

These theorems describe `String::tryConvertToDouble/Float/Bool` as they were **before** the repair of finding F2
(`return !sstream.fail();`, modelled by `tryConvertRealCoded` / `tryConvertBoolCoded`).  The model the driver executes
(`tryConvertDouble` …) follows the current source through `Gen/StringConv.lean` and on the repaired tree runs the `…Fixed`
definitions only; the statements below are kept as the record of why the documented rule was not provable for the old code.
-/
namespace C32

/-- **as coded**: away from the special spellings `tryConvertToDouble/Float` succeeds iff the extraction does not fail —
nothing is required of the characters left unread -/
theorem real_coded_accept_iff {α} (ex : Extract α) (nan pinf ninf : α) (s : List Char) (v : α)
    (hs : ¬ IsSpecialReal (cleanUp s)) :
    tryConvertRealCoded ex nan pinf ninf s = some v ↔ ∃ rest, ex (cleanUp s) = some (v, rest) := by
  unfold IsSpecialReal at hs
  simp only [not_or] at hs
  unfold tryConvertRealCoded
  simp only [hs.1, hs.2.1, hs.2.2, if_false, Bool.false_eq_true]
  cases h : ex (cleanUp s) with
  | none => simp
  | some p => obtain ⟨w, r⟩ := p; simp


/-- **F2, abstractly**: whenever the extraction stops before non-blank characters, the coded conversion accepts although
the whole-string rule rejects — for every extraction operator and every such string -/
theorem real_coded_accepts_trailing_junk {α} (ex : Extract α) (nan pinf ninf : α) (s : List Char) (v : α)
    (junk : List Char) (hs : ¬ IsSpecialReal (cleanUp s))
    (hex : ex (cleanUp s) = some (v, junk)) (hjunk : junk.all isSpace = false) :
    tryConvertRealCoded ex nan pinf ninf s = some v ∧ ∀ w, ¬ WholeString ex (cleanUp s) w := by
  refine ⟨(real_coded_accept_iff ex nan pinf ninf s v hs).2 ⟨junk, hex⟩, ?_⟩
  rintro w ⟨rest, h1, h2⟩
  rw [hex] at h1
  simp only [Option.some.injEq, Prod.mk.injEq] at h1
  rw [← h1.2, hjunk] at h2
  exact Bool.false_ne_true h2


/-- the repair only removes acceptances, and never changes a converted value -/
theorem real_fixed_le_coded {α} (ex : Extract α) (nan pinf ninf : α) (s : List Char) (v : α)
    (h : tryConvertRealFixed ex nan pinf ninf s = some v) : tryConvertRealCoded ex nan pinf ninf s = some v := by
  unfold tryConvertRealFixed at h
  unfold tryConvertRealCoded
  simp only at h ⊢
  split_ifs at h ⊢ with h1 h2 h3
  · exact h
  · exact h
  · exact h
  · obtain ⟨rest, hr, _⟩ := (generic_accept_iff_whole_string ex _ v).1 h
    simp [hr]


theorem bool_coded_accept_iff (ex : Extract Bool) (s : List Char) (v : Bool)
    (h1 : cleanUp s ≠ "true".toList) (h2 : cleanUp s ≠ "false".toList) :
    tryConvertBoolCoded ex s = some v ↔ ∃ rest, ex (cleanUp s) = some (v, rest) := by
  unfold tryConvertBoolCoded
  simp only [h1, h2, if_false]
  cases h : ex (cleanUp s) with
  | none => simp
  | some p => obtain ⟨w, r⟩ := p; simp


theorem bool_coded_accepts_trailing_junk (ex : Extract Bool) (s : List Char) (v : Bool) (junk : List Char)
    (h1 : cleanUp s ≠ "true".toList) (h2 : cleanUp s ≠ "false".toList)
    (hex : ex (cleanUp s) = some (v, junk)) (hjunk : junk.all isSpace = false) :
    tryConvertBoolCoded ex s = some v ∧ ∀ w, ¬ WholeString ex (cleanUp s) w := by
  refine ⟨(bool_coded_accept_iff ex s v h1 h2).2 ⟨junk, hex⟩, ?_⟩
  rintro w ⟨rest, h1', h2'⟩
  rw [hex] at h1'
  simp only [Option.some.injEq, Prod.mk.injEq] at h1'
  rw [← h1'.2, hjunk] at h2'
  exact Bool.false_ne_true h2'


/-- `"1.5abc"` converts to 1.5 as coded; the template rule and the repair reject it -/
theorem double_accepts_1_5abc :
    tryConvertRealCoded extractDouble .nan (.inf false) (.inf true) "1.5abc".toList = some (.fin ⟨false, 3 / 2⟩) ∧
    tryConvertGeneric extractDouble "1.5abc".toList = none ∧
    tryConvertRealFixed extractDouble .nan (.inf false) (.inf true) "1.5abc".toList = none := by
  decide +kernel


theorem float_accepts_1_5abc :
    tryConvertRealCoded extractFloat .nan (.inf false) (.inf true) "1.5abc".toList = some (.fin ⟨false, 3 / 2⟩) ∧
    tryConvertRealFixed extractFloat .nan (.inf false) (.inf true) "1.5abc".toList = none := by
  decide +kernel


theorem bool_accepts_1abc :
    tryConvertBoolCoded extractBool "1abc".toList = some true ∧ tryConvertBoolFixed extractBool "1abc".toList = none := by
  decide +kernel


end C32
