import SimbodyModel.C16
/-!
C16 — helper lemmas: list updates, the lazy-cache invariant through `ensure` / `calcForce`, and what
`realizeSubsystemDynamicsImpl` delivers.  Core Lean only.
-/
namespace C16

/-! ### setAt -/

@[simp] theorem length_setAt {α : Type} (l : List α) (i : Nat) (x : α) : (setAt l i x).length = l.length := by
  induction l generalizing i with
  | nil => cases i <;> rfl
  | cons a as ih => cases i <;> simp [setAt, ih]

theorem getD_setAt {α : Type} (l : List α) (i j : Nat) (x d : α) :
    (setAt l i x).getD j d = if j = i ∧ i < l.length then x else l.getD j d := by
  induction l generalizing i j with
  | nil => cases i <;> simp [setAt]
  | cons a as ih =>
    cases i with
    | zero => cases j <;> simp [setAt]
    | succ i' =>
      cases j with
      | zero => simp [setAt]
      | succ j' =>
        simp only [setAt, List.getD_cons_succ, ih, List.length_cons]
        by_cases h : j' = i' ∧ i' < as.length
        · rw [if_pos h, if_pos ⟨by omega, by omega⟩]
        · rw [if_neg h, if_neg (fun hx => h ⟨by omega, by omega⟩)]

theorem getD_setAt_ne {α : Type} (l : List α) (i j : Nat) (x d : α) (h : j ≠ i) :
    (setAt l i x).getD j d = l.getD j d := by
  rw [getD_setAt, if_neg (fun hx => h hx.1)]

theorem getD_setAt_self {α : Type} (l : List α) (i : Nat) (x d : α) (h : i < l.length) :
    (setAt l i x).getD i d = x := by
  rw [getD_setAt, if_pos ⟨rfl, h⟩]

theorem getD_map_const_false (l : List Bool) (i : Nat) : (l.map (fun _ => false)).getD i false = false := by
  simp only [List.getD_eq_getElem?_getD, List.getElem?_map]
  cases l[i]? <;> rfl

/-! ### what a force reads -/

/-- the contribution force `i` delivers when computed from the values `v` -/
def contrib (fs : List Force) (v : Vars) (i : Nat) : Nat × Snap := (i, inputs fs v i)

def posContribs (fs : List Force) (v : Vars) : List (Nat × Snap) :=
  (enabledIdx fs v (·.posOnly)).map (contrib fs v)

/-- the force totals determined by the current values alone (in the order the subsystem accumulates them) -/
def canonical (fs : List Force) (v : Vars) : List (Nat × Snap) :=
  if !anyPosOnly fs then (enabledIdx fs v (fun _ => true)).map (contrib fs v)
  else (enabledIdx fs v (fun f => !f.posOnly)).map (contrib fs v) ++ posContribs fs v

theorem inputs_congr (fs : List Force) (v w : Vars) (i : Nat)
    (hp : w.params.getD i [] = v.params.getD i [])
    (hz : (fs.getD i default).gravity = true → w.zeroMag.getD i false = v.zeroMag.getD i false)
    (ht : w.t = v.t) (hq : w.q = v.q) (hi : w.inst = v.inst) (ho : w.opt = v.opt)
    (hu : (fs.getD i default).gravity = false → (fs.getD i default).posOnly = false → w.u = v.u ∧ w.z = v.z) :
    inputs fs w i = inputs fs v i := by
  unfold inputs
  simp only [hp, ht, hq, hi, ho]
  by_cases hg : (fs.getD i default).gravity = true
  · rw [if_pos hg, if_pos hg, hz hg]
  · rw [if_neg hg, if_neg hg]
    by_cases hpo : (fs.getD i default).posOnly = true
    · rw [if_pos hpo, if_pos hpo]
    · rw [if_neg hpo, if_neg hpo]
      have := hu (by simpa using hg) (by simpa using hpo)
      rw [this.1, this.2]

/-- for a zero-magnitude gravity element the inputs do not contain t, q -/
theorem inputs_zero (fs : List Force) (v w : Vars) (i : Nat) (hg : (fs.getD i default).gravity = true)
    (hp : w.params.getD i [] = v.params.getD i [])
    (hz : w.zeroMag.getD i false = true) (hz' : v.zeroMag.getD i false = true) :
    inputs fs w i = inputs fs v i := by
  unfold inputs
  simp only
  rw [if_pos hg, if_pos hg, if_pos hz, if_pos hz', hp]

/-! ### the lazy (Force::Gravity) caches -/

structure LInv (fs : List Force) (st : St) : Prop where
  lenF : st.lazyFresh.length = fs.length
  lenS : st.lazySnap.length = fs.length
  lazy : ∀ i, (fs.getD i default).gravity = true → st.lazyFresh.getD i false = true →
           st.lazySnap.getD i [] = inputs fs st.vars i
  low : st.stage < 5 → ∀ i, st.lazyFresh.getD i false = false
  zero : ∀ i, (fs.getD i default).gravity = true → st.vars.zeroMag.getD i false = true →
           st.lazySnap.getD i [] = inputs fs st.vars i

theorem gravity_lt {fs : List Force} {i : Nat} (h : (fs.getD i default).gravity = true) : i < fs.length := by
  by_cases hi : i < fs.length
  · exact hi
  · have : fs.getD i default = default := by
      simp [List.getD_eq_getElem?_getD, List.getElem?_eq_none (Nat.le_of_not_lt hi)]
    rw [this] at h; cases h

/-- frame of operations that only touch the lazy caches and the counters -/
structure SameCore (a b : St) : Prop where
  vars : b.vars = a.vars
  stage : b.stage = a.stage
  cv : b.cachedValid = a.cachedValid
  ct : b.cacheTotal = a.cacheTotal
  tot : b.total = a.total
  m : b.m = a.m

theorem SameCore.refl (a : St) : SameCore a a := ⟨rfl, rfl, rfl, rfl, rfl, rfl⟩
theorem SameCore.trans {a b c : St} (h1 : SameCore a b) (h2 : SameCore b c) : SameCore a c :=
  ⟨h2.vars.trans h1.vars, h2.stage.trans h1.stage, h2.cv.trans h1.cv, h2.ct.trans h1.ct, h2.tot.trans h1.tot,
   h2.m.trans h1.m⟩

theorem ensure_spec (fs : List Force) (st : St) (i : Nat) (h : LInv fs st) (hs : 5 ≤ st.stage)
    (hg : (fs.getD i default).gravity = true) :
    LInv fs (st.ensure fs i) ∧ SameCore st (st.ensure fs i) ∧
    (st.ensure fs i).lazySnap.getD i [] = inputs fs st.vars i := by
  have hi := gravity_lt hg
  unfold St.ensure
  by_cases h1 : st.stage ≥ 5 ∧ st.lazyFresh.getD i false = true
  · rw [if_pos h1]
    exact ⟨h, SameCore.refl _, h.lazy i hg h1.2⟩
  · rw [if_neg h1]
    by_cases h2 : st.vars.zeroMag.getD i false = true
    · rw [if_pos h2]
      refine ⟨⟨by simp [h.lenF], h.lenS, ?_, fun hlt => absurd hs (by simp only at hlt; omega), h.zero⟩,
              ⟨rfl, rfl, rfl, rfl, rfl, rfl⟩, h.zero i hg h2⟩
      intro k hk hf
      by_cases hki : k = i
      · subst hki; exact h.zero k hk h2
      · simp only [getD_setAt_ne _ _ _ _ _ hki] at hf
        exact h.lazy k hk hf
    · rw [if_neg h2]
      refine ⟨⟨by simp [h.lenF], by simp [h.lenS], ?_, fun hlt => absurd hs (by simp only at hlt; omega), ?_⟩,
              ⟨rfl, rfl, rfl, rfl, rfl, rfl⟩, ?_⟩
      · intro k hk hf
        by_cases hki : k = i
        · subst hki; exact getD_setAt_self _ _ _ _ (by rw [h.lenS]; exact hi)
        · simp only [getD_setAt_ne _ _ _ _ _ hki] at hf ⊢
          exact h.lazy k hk hf
      · intro k hk hz
        by_cases hki : k = i
        · subst hki; exact getD_setAt_self _ _ _ _ (by rw [h.lenS]; exact hi)
        · simp only [getD_setAt_ne _ _ _ _ _ hki]
          exact h.zero k hk hz
      · exact getD_setAt_self _ _ _ _ (by rw [h.lenS]; exact hi)

theorem LInv.of_counters {fs : List Force} {st : St} (h : LInv fs st) (c e : List Nat) :
    LInv fs { st with calls := c, evals := e } := ⟨h.lenF, h.lenS, h.lazy, h.low, h.zero⟩

theorem calc_spec (fs : List Force) (st : St) (i : Nat) (h : LInv fs st) (hs : 5 ≤ st.stage) :
    LInv fs (st.calc fs i).1 ∧ SameCore st (st.calc fs i).1 ∧ (st.calc fs i).2 = contrib fs st.vars i := by
  unfold St.calc
  simp only
  by_cases hg : (fs.getD i default).gravity = true
  · rw [if_pos hg]
    have h' : LInv fs { st with calls := bumpAt st.calls i } := ⟨h.lenF, h.lenS, h.lazy, h.low, h.zero⟩
    obtain ⟨a, b, c⟩ := ensure_spec fs { st with calls := bumpAt st.calls i } i h' hs hg
    exact ⟨a, ⟨b.vars, b.stage, b.cv, b.ct, b.tot, b.m⟩, by simp only [contrib]; rw [c]⟩
  · rw [if_neg hg]
    exact ⟨⟨h.lenF, h.lenS, h.lazy, h.low, h.zero⟩, ⟨rfl, rfl, rfl, rfl, rfl, rfl⟩, rfl⟩

theorem calcAll_spec (fs : List Force) (is : List Nat) (st : St) (h : LInv fs st) (hs : 5 ≤ st.stage) :
    LInv fs (st.calcAll fs is).1 ∧ SameCore st (st.calcAll fs is).1 ∧
    (st.calcAll fs is).2 = is.map (contrib fs st.vars) := by
  induction is generalizing st with
  | nil => exact ⟨h, SameCore.refl _, rfl⟩
  | cons i is ih =>
    obtain ⟨a1, b1, c1⟩ := calc_spec fs st i h hs
    obtain ⟨a2, b2, c2⟩ := ih (st.calc fs i).1 a1 (by rw [b1.stage]; exact hs)
    simp only [St.calcAll]
    refine ⟨a2, b1.trans b2, ?_⟩
    simp only [List.map_cons, c1, c2, b1.vars]


/-! ### the matter subsystem's entries: flags and contents -/

theorem MC.flag_setFlag (m : MC) (e e' : ME) (b : Bool) :
    (m.setFlag e b).flag e' = if e' = e then b else m.flag e' := by
  cases e <;> cases e' <;> rfl
theorem MC.snap_setFlag (m : MC) (e e' : ME) (b : Bool) : (m.setFlag e b).snap e' = m.snap e' := by
  cases e <;> cases e' <;> rfl
theorem MC.flag_setSnap (m : MC) (e e' : ME) (s : Snap) : (m.setSnap e s).flag e' = m.flag e' := by
  cases e <;> cases e' <;> rfl
theorem MC.snap_setSnap (m : MC) (e e' : ME) (s : Snap) :
    (m.setSnap e s).snap e' = if e' = e then s else m.snap e' := by
  cases e <;> cases e' <;> rfl

theorem MC.flag_clear (es : List ME) (m : MC) (e' : ME) :
    (m.clear es).flag e' = (m.flag e' && !(es.contains e')) := by
  induction es generalizing m with
  | nil => simp [MC.clear]
  | cons e es ih =>
    have : m.clear (e :: es) = (m.setFlag e false).clear es := rfl
    rw [this, ih, MC.flag_setFlag, List.contains_cons]
    by_cases h : e' = e
    · subst h; simp
    · rw [if_neg h]
      have : (e' == e) = false := by simpa using h
      rw [this]; simp

theorem MC.snap_clear (es : List ME) (m : MC) (e' : ME) : (m.clear es).snap e' = m.snap e' := by
  induction es generalizing m with
  | nil => rfl
  | cons e es ih =>
    have : m.clear (e :: es) = (m.setFlag e false).clear es := rfl
    rw [this, ih, MC.snap_setFlag]

theorem MC.flag_mark (m : MC) (e e' : ME) (s : Snap) : (m.mark e s).flag e' = if e' = e then true else m.flag e' := by
  unfold MC.mark; rw [MC.flag_setSnap, MC.flag_setFlag]
theorem MC.snap_mark (m : MC) (e e' : ME) (s : Snap) : (m.mark e s).snap e' = if e' = e then s else m.snap e' := by
  unfold MC.mark; rw [MC.snap_setSnap, MC.snap_setFlag]

/-- "whatever is marked valid was computed from the values `v`" -/
def MC.Cur (m : MC) (v : Vars) : Prop := ∀ e, m.flag e = true → m.snap e = minputs v e

theorem MC.Cur.mark {m : MC} {v : Vars} (h : m.Cur v) (e : ME) : (m.mark e (minputs v e)).Cur v := by
  intro e' hf
  rw [MC.snap_mark]
  rw [MC.flag_mark] at hf
  by_cases he : e' = e
  · rw [if_pos he, he]
  · rw [if_neg he] at hf ⊢; exact h e' hf

theorem MC.Cur.ensure {m : MC} {v : Vars} (h : m.Cur v) (e : ME) : (m.ensure e (minputs v e)).Cur v := by
  unfold MC.ensure; split
  · exact h
  · exact h.mark e

theorem MC.flag_ensure_self (m : MC) (e : ME) (s : Snap) : (m.ensure e s).flag e = true := by
  unfold MC.ensure; split
  · assumption
  · rw [MC.flag_mark, if_pos rfl]

theorem MC.flag_ensure_mono (m : MC) (e e' : ME) (s : Snap) (h : m.flag e' = true) : (m.ensure e s).flag e' = true := by
  unfold MC.ensure; split
  · exact h
  · rw [MC.flag_mark]; split
    · rfl
    · exact h

theorem MC.flag_ensure_of (m : MC) (e e' : ME) (s : Snap) (h : (m.ensure e s).flag e' = true) :
    m.flag e' = true ∨ e' = e := by
  unfold MC.ensure at h; split at h
  · exact Or.inl h
  · rw [MC.flag_mark] at h
    by_cases he : e' = e
    · exact Or.inr he
    · rw [if_neg he] at h; exact Or.inl h

theorem MC.snap_ensure_ne (m : MC) (e e' : ME) (s : Snap) (h : e' ≠ e) : (m.ensure e s).snap e' = m.snap e' := by
  unfold MC.ensure; split
  · rfl
  · rw [MC.snap_mark, if_neg h]

/-- folding `ensure` over a list of entries -/
def MC.ensureAll (m : MC) (v : Vars) (l : List ME) : MC := l.foldl (fun m e => m.ensure e (minputs v e)) m

theorem MC.advance_eq (m : MC) (a b : Nat) (v : Vars) : m.advance a b v = m.ensureAll v (MC.toEnsure a b) := rfl

theorem MC.Cur.ensureAll {v : Vars} (l : List ME) {m : MC} (h : m.Cur v) : (m.ensureAll v l).Cur v := by
  induction l generalizing m with
  | nil => exact h
  | cons e es ih => exact ih (h.ensure e)

theorem MC.flag_ensureAll_mono (v : Vars) (l : List ME) (m : MC) (e' : ME) (h : m.flag e' = true) :
    (m.ensureAll v l).flag e' = true := by
  induction l generalizing m with
  | nil => exact h
  | cons e es ih => exact ih _ (MC.flag_ensure_mono m e e' _ h)

theorem MC.flag_ensureAll_mem (v : Vars) (l : List ME) (m : MC) (e' : ME) (h : e' ∈ l) :
    (m.ensureAll v l).flag e' = true := by
  induction l generalizing m with
  | nil => cases h
  | cons e es ih =>
    rcases List.mem_cons.mp h with rfl | h'
    · exact MC.flag_ensureAll_mono v es _ _ (MC.flag_ensure_self m _ _)
    · exact ih _ h'

theorem MC.flag_ensureAll_of (v : Vars) (l : List ME) (m : MC) (e' : ME) (h : (m.ensureAll v l).flag e' = true) :
    m.flag e' = true ∨ e' ∈ l := by
  induction l generalizing m with
  | nil => exact Or.inl h
  | cons e es ih =>
    rcases ih _ h with h1 | h1
    · rcases MC.flag_ensure_of m e e' _ h1 with h2 | h2
      · exact Or.inl h2
      · exact Or.inr (by rw [h2]; exact List.mem_cons_self)
    · exact Or.inr (List.mem_cons_of_mem _ h1)

theorem MC.snap_ensureAll_notMem (v : Vars) (l : List ME) (m : MC) (e' : ME) (h : e' ∉ l) :
    (m.ensureAll v l).snap e' = m.snap e' := by
  induction l generalizing m with
  | nil => rfl
  | cons e es ih =>
    have h1 : e' ≠ e := fun hx => h (by rw [hx]; exact List.mem_cons_self)
    have h2 : e' ∉ es := fun hx => h (List.mem_cons_of_mem _ hx)
    exact (ih _ h2).trans (MC.snap_ensure_ne m e e' _ h1)

theorem mem_toEnsure (a b : Nat) (e : ME) : e ∈ MC.toEnsure a b ↔ (e ≠ .cbi ∧ a < e.comp ∧ e.comp ≤ b) := by
  unfold MC.toEnsure
  simp only [List.mem_filter, Bool.and_eq_true, decide_eq_true_eq]
  cases e <;> simp [ME.comp]

/-! ### operations on the force caches leave the matter entries alone -/

theorem ensure_m (fs : List Force) (st : St) (i : Nat) : (st.ensure fs i).m = st.m := by
  unfold St.ensure; split
  · rfl
  · split <;> rfl
theorem ensure_vars (fs : List Force) (st : St) (i : Nat) : (st.ensure fs i).vars = st.vars := by
  unfold St.ensure; split
  · rfl
  · split <;> rfl
theorem ensure_stage (fs : List Force) (st : St) (i : Nat) : (st.ensure fs i).stage = st.stage := by
  unfold St.ensure; split
  · rfl
  · split <;> rfl

theorem calc_m (fs : List Force) (st : St) (i : Nat) : (st.calc fs i).1.m = st.m := by
  unfold St.calc; simp only; split
  · exact ensure_m fs _ i
  · rfl

theorem calcAll_m (fs : List Force) (is : List Nat) (st : St) : (st.calcAll fs is).1.m = st.m := by
  induction is generalizing st with
  | nil => rfl
  | cons i is ih => simp only [St.calcAll]; rw [ih, calc_m]

theorem dynamics_m (fs : List Force) (st : St) : (st.dynamics fs).m = st.m := by
  unfold St.dynamics
  split
  · exact calcAll_m fs _ st
  · split
    · exact calcAll_m fs _ st
    · exact calcAll_m fs _ st

theorem foldl_ensure_frame (fs : List Force) (l : List Nat) (st : St) :
    (l.foldl (fun acc i => acc.ensure fs i) st).m = st.m ∧ (l.foldl (fun acc i => acc.ensure fs i) st).vars = st.vars ∧
    (l.foldl (fun acc i => acc.ensure fs i) st).stage = st.stage := by
  induction l generalizing st with
  | nil => exact ⟨rfl, rfl, rfl⟩
  | cons i is ih =>
    simp only [List.foldl_cons]
    obtain ⟨a, b, c⟩ := ih (st.ensure fs i)
    exact ⟨a.trans (ensure_m fs st i), b.trans (ensure_vars fs st i), c.trans (ensure_stage fs st i)⟩

/-! ### filtering the one-pass result -/

theorem filter_map_contrib (fs : List Force) (v : Vars) (l : List Nat) (a p : Nat → Bool) :
    ((l.filter a).map (contrib fs v)).filter (fun c => p c.1) = (l.filter (fun i => a i && p i)).map (contrib fs v) := by
  induction l with
  | nil => rfl
  | cons x xs ih =>
    by_cases ha : a x = true
    · by_cases hp : p x = true
      · simp [ha, hp, contrib, ← ih]
      · simp [ha, hp, contrib, ← ih]
    · simp [ha, ← ih]

end C16
