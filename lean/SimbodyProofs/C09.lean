import SimbodyProofs.C09_lemmas
import Mathlib.LinearAlgebra.Matrix.NonsingularInverse
import Mathlib.Tactic.LinearCombination
import Mathlib.Tactic.Positivity
import Mathlib.Tactic.NormNum
import Mathlib.LinearAlgebra.Matrix.Notation
import Mathlib.LinearAlgebra.Matrix.Determinant.Basic

/-!
# C09 — Successful projection lands on the constraint manifold minimally

Theorems about the model `SimbodyModel/C09.lean` (control skeleton of `projectQ` / `projectU`, quaternion
normalisation, free/prescribed packing, weighted least-squares step), over an arbitrary linear ordered field `K`.

* `success_sound`, `success_sound_U`   for EVERY oracle (whatever error vectors the numerical Newton step produces):
  if the skeleton reports `Succeeded` then the reported exit norm, the weighted norm (RMS or infinity, as selected) of
  the holonomic errors of the state it holds, and the norm of the quaternion errors of that state are all `≤ accuracy`,
  and nothing was thrown.
* `no_change_if_ok`, `no_change_if_ok_U`, `no_change_state`   not forced ∧ entry norm ≤ accuracy ⇒ the state is the
  input state, `anyChangeMade = false`, 0 iterations (and `Succeeded` with exit norm = entry norm unless the projection
  limit is below the entry norm).
* `skeleton_accepted`, `skeleton_accepted_U`   every run of the skeleton is accepted by the PATH-AWARE kind-K contract
  `acceptsQ` / `acceptsU` that the correspondence check applies to the observed `ProjectResults`: the exit is decided
  from the entry norms exactly as the code decides it (so "ForceProjection ignored" is rejected), and on the Newton
  path, when no quaternion can fail afterwards, a failure never returns a worse norm than it got and "exit norm = entry
  norm" means the saved state was written back;
  `accepts_sound`, `accepts_sound_U`   acceptance ∧ Succeeded ⇒ exit norm ≤ accuracy.
* `no_throw_is_success`, `_U`, `defaultOpts_spec`   with the options `System::project(state, acc)` builds (no limit, no
  DontThrow, accuracy > 0) "did not throw" is "Succeeded".
* `normalize_unit`, `errest_orthogonal`, `normalizeQuatsMasked_spec`   quaternion normalisation (prescribed skipped).
* `prescribed_untouched`, `pack_unpack_id`   packing lemmas.
* `min_norm_of_multiplier`, `min_norm_weighted`, `min_norm_linear`, `min_norm_documented_step`   the weighted
  least-squares correction is the weighted minimum-norm solution (N = identity);
  `min_norm_step_general`   the same with the coupling matrix: for ANY `S` (the code's `Wq⁺ = N Wu⁻¹ N⁺` restricted to
  the free columns) the weighted unknown is the minimum-norm solution of `(Pq S) z = perr` and `dq = S z` solves
  `Pq dq = perr`;  `uRelScale_pos`, `min_norm_relative_scaling`   projectU minimises `Σ (du_j / uRelScale_j)²`.

PARTIAL (named here, not silently weakened): convergence of the Newton iteration itself is numerical and is not a
theorem; the oracle hides the Jacobian / QTZ pseudo-inverse / realizePosition.  `success_sound` speaks about the
holonomic errors measured BEFORE the final quaternion normalisation (that is what the code tests); that normalising
does not change them ("we normalize internally for calculations") is an assumption of the code, checked by the
harness predicate on the final state.  The theorems need a TOTAL order: over IEEE doubles `¬(x > acc)` does not give
`x ≤ acc` when `x` is NaN — exactly the implementation defect reported in notes/C09.md.
-/
namespace C09
set_option linter.unusedSectionVars false
set_option linter.unusedSimpArgs false
variable {K : Type} [Field K] [LinearOrder K] [IsStrictOrderedRing K]

/-- `setRequiredAccuracy` always yields a positive accuracy (given a positive default) -/
theorem setRequiredAccuracy_pos (dflt a : K) (hd : 0 < dflt) : 0 < setRequiredAccuracy dflt a := by
  unfold setRequiredAccuracy; split <;> assumption

/-- **success_sound (projectQ).**  The norm is `norm sqrt o.useInf` (RMS or infinity per `UseInfinityNorm`), applied
to `Tp ∘ perr` for the holonomic errors and to the raw quaternion-length errors; the accuracy is
`o.acc = ProjectOptions::getRequiredAccuracy()` (not the overshoot target). -/
theorem success_sound (sqrt : K → K) (o : Opts K) (orc : OracleQ K) (hacc : 0 ≤ o.acc)
    (h : (runQ sqrt o orc).status = .succeeded) :
    (∃ n, (runQ sqrt o orc).normOut = some n ∧ n ≤ o.acc) ∧
    norm sqrt o.useInf (scale (perrAt orc (runQ sqrt o orc).sel) orc.w) ≤ o.acc ∧
    norm sqrt o.useInf (quatAt orc (runQ sqrt o orc)) ≤ o.acc ∧
    (runQ sqrt o orc).threw = false := by
  have hp := entry_perrIn sqrt o.useInf orc.perr0 orc.w orc.quat0
  have hq := entry_quatIn sqrt o.useInf orc.perr0 orc.w orc.quat0
  have hn := entry_normIn_le sqrt o.useInf orc.perr0 orc.w orc.quat0 o.acc
  have hL := newtonLoop_spec o.localOnly (maxK (o.overshoot * o.acc) o.sig)
    (fun i => norm sqrt o.useInf (scale (orc.perrIt i) orc.w))
    (fun i => norm sqrt o.useInf (scale (orc.perrBack i) orc.w)) maxItsQ 0
    (entryNormQ sqrt o.useInf orc.perr0 orc.w orc.quat0).perrIn (by decide)
  simp only at hn hL
  revert h
  unfold runQ
  simp only
  generalize entryNormQ sqrt o.useInf orc.perr0 orc.w orc.quat0 = e at *
  generalize newtonLoop o.localOnly (maxK (o.overshoot * o.acc) o.sig)
    (fun i => norm sqrt o.useInf (scale (orc.perrIt i) orc.w))
    (fun i => norm sqrt o.useInf (scale (orc.perrBack i) orc.w)) maxItsQ 0 e.perrIn = L at *
  have hsel : norm sqrt o.useInf (scale (perrAt orc L.sel) orc.w) = L.achieved := by
    rcases hL.2.2 with ⟨_, hs, ha⟩ | ⟨_, hs, ha, _⟩ <;> rw [hs, ha] <;> rfl
  split_ifs with h1 h2 h3 h4 h5 h6 h7 h8 h9 h10
  all_goals first
    | (intro hf; exact hf.elim)
    | (intro _)
  · -- only quaternions normalised, successfully
    simp only [Bool.or_eq_true, Bool.and_eq_true, decide_eq_true_eq, beq_iff_eq, Bool.not_eq_true'] at h2
    refine ⟨⟨_, rfl, not_lt.mp h4⟩, ?_, ?_, rfl⟩
    · show norm sqrt o.useInf (scale orc.perr0 orc.w) ≤ o.acc
      rw [← hp]; rcases h2 with h2 | h2
      · rw [h2]; exact hacc
      · exact h2.1
    · show norm sqrt o.useInf orc.quatA ≤ o.acc
      exact not_lt.mp h4
  · -- nothing to do
    simp only [Bool.or_eq_true, Bool.and_eq_true, decide_eq_true_eq, beq_iff_eq, Bool.not_eq_true', not_or, not_lt] at h2 h3
    have hpa : e.perrIn ≤ o.acc := by
      rcases h2 with h2 | h2
      · rw [h2]; exact hacc
      · exact h2.1
    refine ⟨⟨_, rfl, hn hpa h3.1⟩, ?_, ?_, rfl⟩
    · show norm sqrt o.useInf (scale orc.perr0 orc.w) ≤ o.acc
      rw [← hp]; exact hpa
    · show norm sqrt o.useInf orc.quat0 ≤ o.acc
      rw [← hq]; exact h3.1
  · -- Newton loop reached the accuracy, quaternions normalised
    have hne : L.its ≠ 0 := by omega
    refine ⟨⟨_, rfl, maxK_le (not_lt.mp h5) (not_lt.mp h10)⟩, ?_, ?_, rfl⟩
    · show norm sqrt o.useInf (scale (perrAt orc L.sel) orc.w) ≤ o.acc
      rw [hsel]; exact not_lt.mp h5
    · show norm sqrt o.useInf (if L.its = 0 then orc.quatA else orc.quatB) ≤ o.acc
      rw [if_neg hne]; exact not_lt.mp h10
  · -- Newton loop reached the accuracy, no quaternions in use
    have hz : e.quatIn = 0 := by rw [hq]; exact norm_of_length_zero _ _ _ (not_not.mp h9)
    refine ⟨⟨_, rfl, maxK_le (not_lt.mp h5) (by rw [hz]; exact hacc)⟩, ?_, ?_, rfl⟩
    · show norm sqrt o.useInf (scale (perrAt orc L.sel) orc.w) ≤ o.acc
      rw [hsel]; exact not_lt.mp h5
    · show norm sqrt o.useInf orc.quat0 ≤ o.acc
      rw [← hq, hz]; exact hacc

/-- **no_change_if_ok (projectQ).**  Not forced and the reported entry norm (the larger of the weighted perr norm
and the quaternion norm) within the accuracy: the skeleton touches nothing — it holds the entry state, does not
normalise quaternions (they are within the accuracy too), reports `anyChangeMade = false`, 0 iterations, throws
nothing; and unless the projection limit is below the entry norm it reports Succeeded with exit norm = entry norm. -/
theorem no_change_if_ok (sqrt : K → K) (o : Opts K) (orc : OracleQ K) (hf : o.force = false)
    (hin : (entryNormQ sqrt o.useInf orc.perr0 orc.w orc.quat0).normIn ≤ o.acc) :
    (runQ sqrt o orc).sel = .entry ∧ (runQ sqrt o orc).normalized = false ∧ (runQ sqrt o orc).anyChange = false ∧
    (runQ sqrt o orc).its = 0 ∧ (runQ sqrt o orc).threw = false ∧
    (exceeds o.limit (entryNormQ sqrt o.useInf orc.perr0 orc.w orc.quat0).normIn = false →
      (runQ sqrt o orc).status = .succeeded ∧ (runQ sqrt o orc).normOut = (runQ sqrt o orc).normIn) := by
  have hge := entry_normIn_ge sqrt o.useInf orc.perr0 orc.w orc.quat0
  simp only at hge
  unfold runQ
  simp only
  generalize entryNormQ sqrt o.useInf orc.perr0 orc.w orc.quat0 = e at *
  have hp : e.perrIn ≤ o.acc := le_trans hge.1 hin
  have hq : e.quatIn ≤ o.acc := le_trans hge.2 hin
  split_ifs with h1 h2 h3 h4 h5 h6 h7 h8 h9 h10
  · simp [h1]
  · simp only [Bool.or_eq_true, decide_eq_true_eq, hf] at h3
    rcases h3 with h3 | h3
    · exact absurd h3 (not_lt.mpr hq)
    · exact absurd h3 (by simp)
  · simp only [Bool.or_eq_true, decide_eq_true_eq, hf] at h3
    rcases h3 with h3 | h3
    · exact absurd h3 (not_lt.mpr hq)
    · exact absurd h3 (by simp)
  · simp
  all_goals (exfalso; apply h2; simp [hp, hf])

/-- **success_sound (projectU).**  Succeeded ⇒ reported exit norm and the weighted norm of the velocity errors of the
state held are within the accuracy. -/
theorem success_sound_U (sqrt : K → K) (o : Opts K) (orc : OracleU K) (hacc : 0 ≤ o.acc)
    (h : (runU sqrt o orc).status = .succeeded) :
    (∃ n, (runU sqrt o orc).normOut = some n ∧ n ≤ o.acc) ∧
    norm sqrt o.useInf (scale (verrAt orc (runU sqrt o orc).sel) orc.w) ≤ o.acc ∧
    (runU sqrt o orc).threw = false := by
  have hL := newtonLoop_spec o.localOnly (maxK (o.overshoot * o.acc) o.sig)
    (fun i => norm sqrt o.useInf (scale (orc.verrIt i) orc.w))
    (fun i => norm sqrt o.useInf (scale (orc.verrBack i) orc.w)) maxItsU 0
    (normW sqrt o.useInf (scale orc.verr0 orc.w)).1 (by decide)
  simp only at hL
  revert h
  unfold runU
  simp only
  have he : (normW sqrt o.useInf (scale orc.verr0 orc.w)).1 = norm sqrt o.useInf (scale orc.verr0 orc.w) := rfl
  generalize normW sqrt o.useInf (scale orc.verr0 orc.w) = e at *
  generalize newtonLoop o.localOnly (maxK (o.overshoot * o.acc) o.sig)
    (fun i => norm sqrt o.useInf (scale (orc.verrIt i) orc.w))
    (fun i => norm sqrt o.useInf (scale (orc.verrBack i) orc.w)) maxItsU 0 e.1 = L at *
  have hsel : norm sqrt o.useInf (scale (verrAt orc L.sel) orc.w) = L.achieved := by
    rcases hL.2.2 with ⟨_, hs, ha⟩ | ⟨_, hs, ha, _⟩ <;> rw [hs, ha] <;> rfl
  split_ifs with h1 h2 h3 h4 h5 h6
  all_goals first
    | (intro hf; exact hf.elim)
    | (intro _)
  · simp only [Bool.or_eq_true, Bool.and_eq_true, decide_eq_true_eq, beq_iff_eq, Bool.not_eq_true'] at h2
    have hpa : e.1 ≤ o.acc := by
      rcases h2 with h2 | h2
      · rw [h2]; exact hacc
      · exact h2.1
    refine ⟨⟨_, rfl, hpa⟩, ?_, rfl⟩
    show norm sqrt o.useInf (scale orc.verr0 orc.w) ≤ o.acc
    rw [← he]; exact hpa
  · refine ⟨⟨_, rfl, not_lt.mp h3⟩, ?_, rfl⟩
    show norm sqrt o.useInf (scale (verrAt orc L.sel) orc.w) ≤ o.acc
    rw [hsel]; exact not_lt.mp h3

/-- **no_change_if_ok (projectU).** -/
theorem no_change_if_ok_U (sqrt : K → K) (o : Opts K) (orc : OracleU K) (hf : o.force = false)
    (hin : norm sqrt o.useInf (scale orc.verr0 orc.w) ≤ o.acc) :
    (runU sqrt o orc).sel = .entry ∧ (runU sqrt o orc).normalized = false ∧ (runU sqrt o orc).anyChange = false ∧
    (runU sqrt o orc).its = 0 ∧ (runU sqrt o orc).threw = false ∧
    (exceeds o.limit (norm sqrt o.useInf (scale orc.verr0 orc.w)) = false →
      (runU sqrt o orc).status = .succeeded ∧ (runU sqrt o orc).normOut = (runU sqrt o orc).normIn) := by
  unfold runU
  simp only
  have he : (normW sqrt o.useInf (scale orc.verr0 orc.w)).1 = norm sqrt o.useInf (scale orc.verr0 orc.w) := rfl
  rw [← he] at hin ⊢
  generalize normW sqrt o.useInf (scale orc.verr0 orc.w) = e at *
  split_ifs with h1 h2 h3 h4 h5 h6
  · simp [h1]
  · simp
  all_goals (exfalso; apply h2; simp [hin, hf])

/-- state-level reading of `no_change_if_ok`: whatever the iteration / back-step / restore / normalise operations do,
the state returned is the state passed in -/
theorem no_change_state {S : Type} (sqrt : K → K) (o : Opts K) (orc : OracleQ K) (hf : o.force = false)
    (hin : (entryNormQ sqrt o.useInf orc.perr0 orc.w orc.quat0).normIn ≤ o.acc)
    (s0 : S) (it bk : Nat → S) (sv : S) (nz : S → S) :
    finalState s0 it bk sv nz (runQ sqrt o orc) = s0 := by
  obtain ⟨h1, h2, _⟩ := no_change_if_ok sqrt o orc hf hin
  unfold finalState
  rw [h1, h2]; rfl

/-- **skeleton_accepted (projectQ).**  Whatever the oracle, the results the skeleton produces satisfy the path-aware
contract that the correspondence check applies to the implementation's observed `ProjectResults` (the exit is decided
from the two entry norms as the code decides it; the clause of that exit must hold). -/
theorem skeleton_accepted (sqrt : K → K) (o : Opts K) (orc : OracleQ K) (hacc : 0 ≤ o.acc) (dflt : K) :
    acceptsQ o orc.quat0.length (entryNormQ sqrt o.useInf orc.perr0 orc.w orc.quat0).perrIn
      (entryNormQ sqrt o.useInf orc.perr0 orc.w orc.quat0).quatIn ((runQ sqrt o orc).obs dflt) = true := by
  have hnI := entry_normIn sqrt o.useInf orc.perr0 orc.w orc.quat0
  have hL := newtonLoop_spec o.localOnly (maxK (o.overshoot * o.acc) o.sig)
    (fun i => norm sqrt o.useInf (scale (orc.perrIt i) orc.w))
    (fun i => norm sqrt o.useInf (scale (orc.perrBack i) orc.w)) maxItsQ 0
    (entryNormQ sqrt o.useInf orc.perr0 orc.w orc.quat0).perrIn (by decide)
  have hqz := entry_quatIn sqrt o.useInf orc.perr0 orc.w orc.quat0
  simp only at hnI hL
  unfold runQ acceptsQ
  simp only
  generalize entryNormQ sqrt o.useInf orc.perr0 orc.w orc.quat0 = e at *
  generalize newtonLoop o.localOnly (maxK (o.overshoot * o.acc) o.sig)
    (fun i => norm sqrt o.useInf (scale (orc.perrIt i) orc.w))
    (fun i => norm sqrt o.useInf (scale (orc.perrBack i) orc.w)) maxItsQ 0 e.perrIn = L at *
  obtain ⟨hL1, hL2, hL3⟩ := hL
  have hits1 : 1 ≤ L.its := by omega
  have hits2 : L.its ≤ maxItsQ := by omega
  rw [← hnI]
  have hnewton : ¬(e.perrIn == 0 || decide (e.perrIn ≤ o.acc) && !o.force) = true → (o.force = true ∨ o.acc < e.perrIn) := by
    intro h
    simp only [Bool.or_eq_true, Bool.and_eq_true, decide_eq_true_eq, beq_iff_eq, Bool.not_eq_true', not_or, not_and] at h
    by_cases hf : o.force = true
    · exact Or.inl hf
    · right
      by_contra hc
      exact hf (by simpa using h.2 (not_lt.mp hc))
  split_ifs with h1 h2 h3 h4 h5 h6 h7 h8 h9 h10
  · simp [limitOutcome, Results.obs, h1]
  · simp [Results.obs, h1, h2, h3, h4]
  · simp [Results.obs, h1, h2, h3, not_lt.mp h4]
  · simp [Results.obs, h1, h2, h3]
  all_goals have hc := hnewton h2
  · -- diverged, made worse: saved state written back
    have hd : o.localOnly = true ∧ 2 ≤ L.its := by
      rcases hL3 with ⟨hd, _⟩ | ⟨_, _, _, h1, h2⟩
      · rw [h6] at hd; exact absurd hd (by simp)
      · exact ⟨h1, h2⟩
    rcases hc with hc | hc <;>
      simp [newtonOutcome, Results.obs, hits1, hits2, hd.1, hd.2, hc]
  · have hd : o.localOnly = true ∧ 2 ≤ L.its := by
      rcases hL3 with ⟨hd, _⟩ | ⟨_, _, _, h1, h2⟩
      · rw [h6] at hd; exact absurd hd (by simp)
      · exact ⟨h1, h2⟩
    have hlt : L.achieved < e.perrIn := by simpa using h7
    simp [newtonOutcome, Results.obs, hits1, hits2, hd.1, hd.2, h5, le_of_lt hlt, ne_of_lt hlt]
  · rcases hc with hc | hc <;>
      simp [newtonOutcome, Results.obs, hits1, hits2, hc]
  · have hlt : L.achieved < e.perrIn := by simpa using h8
    simp [newtonOutcome, Results.obs, hits1, hits2, h5, le_of_lt hlt, ne_of_lt hlt]
  · have hq0 : (orc.quat0.length == 0) = false := by simpa using h9
    simp [newtonOutcome, Results.obs, hits1, hits2, h10, hq0]
  · have hm := maxK_le (not_lt.mp h5) (not_lt.mp h10)
    simp [newtonOutcome, Results.obs, hits1, hits2, hm]
  · have hz : e.quatIn ≤ o.acc := by rw [hqz, norm_of_length_zero _ _ _ (not_not.mp h9)]; exact hacc
    have hm := maxK_le (not_lt.mp h5) hz
    simp [newtonOutcome, Results.obs, hits1, hits2, hm]

/-- **skeleton_accepted (projectU).** -/
theorem skeleton_accepted_U (sqrt : K → K) (o : Opts K) (orc : OracleU K) (dflt : K) :
    acceptsU o (norm sqrt o.useInf (scale orc.verr0 orc.w)) ((runU sqrt o orc).obs dflt) = true := by
  have hL := newtonLoop_spec o.localOnly (maxK (o.overshoot * o.acc) o.sig)
    (fun i => norm sqrt o.useInf (scale (orc.verrIt i) orc.w))
    (fun i => norm sqrt o.useInf (scale (orc.verrBack i) orc.w)) maxItsU 0
    (normW sqrt o.useInf (scale orc.verr0 orc.w)).1 (by decide)
  simp only at hL
  unfold runU acceptsU
  simp only
  rw [show norm sqrt o.useInf (scale orc.verr0 orc.w) = (normW sqrt o.useInf (scale orc.verr0 orc.w)).1 from rfl]
  generalize normW sqrt o.useInf (scale orc.verr0 orc.w) = e at *
  generalize newtonLoop o.localOnly (maxK (o.overshoot * o.acc) o.sig)
    (fun i => norm sqrt o.useInf (scale (orc.verrIt i) orc.w))
    (fun i => norm sqrt o.useInf (scale (orc.verrBack i) orc.w)) maxItsU 0 e.1 = L at *
  obtain ⟨hL1, hL2, hL3⟩ := hL
  have hits1 : 1 ≤ L.its := by omega
  have hits2 : L.its ≤ maxItsU := by omega
  have hnewton : ¬(e.1 == 0 || decide (e.1 ≤ o.acc) && !o.force) = true → (o.force = true ∨ o.acc < e.1) := by
    intro h
    simp only [Bool.or_eq_true, Bool.and_eq_true, decide_eq_true_eq, beq_iff_eq, Bool.not_eq_true', not_or, not_and] at h
    by_cases hf : o.force = true
    · exact Or.inl hf
    · right
      by_contra hc
      exact hf (by simpa using h.2 (not_lt.mp hc))
  split_ifs with h1 h2 h3 h4 h5 h6
  · simp [limitOutcome, Results.obs]
  · simp [Results.obs]
  all_goals have hc := hnewton h2
  · have hd : o.localOnly = true ∧ 2 ≤ L.its := by
      rcases hL3 with ⟨hd, _⟩ | ⟨_, _, _, h1, h2⟩
      · rw [h4] at hd; exact absurd hd (by simp)
      · exact ⟨h1, h2⟩
    rcases hc with hc | hc <;>
      simp [newtonOutcome, Results.obs, hits1, hits2, hd.1, hd.2, hc]
  · have hd : o.localOnly = true ∧ 2 ≤ L.its := by
      rcases hL3 with ⟨hd, _⟩ | ⟨_, _, _, h1, h2⟩
      · rw [h4] at hd; exact absurd hd (by simp)
      · exact ⟨h1, h2⟩
    have hlt : L.achieved < e.1 := by simpa using h5
    simp [newtonOutcome, Results.obs, hits1, hits2, hd.1, hd.2, h3, le_of_lt hlt, ne_of_lt hlt]
  · rcases hc with hc | hc <;>
      simp [newtonOutcome, Results.obs, hits1, hits2, hc]
  · have hlt : L.achieved < e.1 := by simpa using h6
    simp [newtonOutcome, Results.obs, hits1, hits2, h3, le_of_lt hlt, ne_of_lt hlt]
  · simp [newtonOutcome, Results.obs, hits1, hits2, not_lt.mp h3]

/-- soundness of the contract itself: an accepted observation that says Succeeded carries an exit norm within the
accuracy and was not thrown (so the correspondence check on `ProjectResults` enforces the property clause) -/
theorem accepts_sound (o : Opts K) (mQuats : Nat) (perrIn quatIn : K) (ob : Obs K) (hacc : 0 ≤ o.acc)
    (h : acceptsQ o mQuats perrIn quatIn ob = true) (hs : ob.status = .succeeded) :
    ∃ n, ob.normOut = some n ∧ n ≤ o.acc ∧ ob.threw = false := by
  unfold acceptsQ at h
  simp only at h
  generalize hN : (if quatIn ≤ perrIn then perrIn else quatIn) = normIn at h
  by_cases h1 : exceeds o.limit normIn = true
  · simp [h1, limitOutcome, hs] at h
  · simp only [h1, Bool.false_eq_true, if_false, Bool.and_eq_true, Bool.not_eq_true'] at h
    obtain ⟨_, h⟩ := h
    by_cases h2 : (perrIn == 0 || decide (perrIn ≤ o.acc) && !o.force) = true
    · rw [if_pos h2] at h
      by_cases h3 : (decide (o.acc < quatIn) || o.force) = true
      · rw [if_pos h3] at h
        cases hno : ob.normOut with
        | none => simp [hno] at h
        | some n =>
          refine ⟨n, rfl, ?_⟩
          simp [hno, hs] at h
          exact h.2
      · rw [if_neg h3] at h
        cases hno : ob.normOut with
        | none => simp [hno] at h
        | some n =>
          refine ⟨n, rfl, ?_⟩
          simp only [hno, hs, Bool.and_eq_true, beq_iff_eq, Bool.not_eq_true', beq_self_eq_true, true_and] at h
          simp only [Bool.or_eq_true, Bool.and_eq_true, decide_eq_true_eq, beq_iff_eq, Bool.not_eq_true', not_or, not_lt] at h2 h3
          have hp : perrIn ≤ o.acc := by
            rcases h2 with h2 | h2
            · rw [h2]; exact hacc
            · exact h2.1
          have hn : normIn ≤ o.acc := by
            rw [← hN]; split
            · exact hp
            · exact h3.1
          exact ⟨by rw [h.2]; exact hn, h.1.1.2⟩
    · rw [if_neg h2] at h
      unfold newtonOutcome at h
      cases hno : ob.normOut with
      | none => simp [hno] at h
      | some n =>
        refine ⟨n, rfl, ?_⟩
        simp [hno, hs] at h
        exact h.2

/-- the same for the projectU contract -/
theorem accepts_sound_U (o : Opts K) (verrIn : K) (ob : Obs K) (hacc : 0 ≤ o.acc) (h : acceptsU o verrIn ob = true)
    (hs : ob.status = .succeeded) :
    ∃ n, ob.normOut = some n ∧ n ≤ o.acc ∧ ob.threw = false := by
  unfold acceptsU at h
  by_cases h1 : exceeds o.limit verrIn = true
  · simp [h1, limitOutcome, hs] at h
  · simp only [h1, Bool.false_eq_true, if_false, Bool.and_eq_true, Bool.not_eq_true'] at h
    obtain ⟨_, h⟩ := h
    by_cases h2 : (verrIn == 0 || decide (verrIn ≤ o.acc) && !o.force) = true
    · rw [if_pos h2] at h
      cases hno : ob.normOut with
      | none => simp [hno] at h
      | some n =>
        refine ⟨n, rfl, ?_⟩
        simp only [hno, hs, Bool.and_eq_true, beq_iff_eq, Bool.not_eq_true', beq_self_eq_true, true_and] at h
        simp only [Bool.or_eq_true, Bool.and_eq_true, decide_eq_true_eq, beq_iff_eq, Bool.not_eq_true'] at h2
        have hp : verrIn ≤ o.acc := by
          rcases h2 with h2 | h2
          · rw [h2]; exact hacc
          · exact h2.1
        exact ⟨by rw [h.2]; exact hp, h.1.1.2⟩
    · rw [if_neg h2] at h
      unfold newtonOutcome at h
      cases hno : ob.normOut with
      | none => simp [hno] at h
      | some n =>
        refine ⟨n, rfl, ?_⟩
        simp [hno, hs] at h
        exact h.2

/-- with the options `System::project(state, accuracy)` uses (no projection limit, no DontThrow) a call that does not
throw has succeeded — this is why "returned normally" is read as "success reported" for `System::project` -/
theorem no_throw_is_success (sqrt : K → K) (o : Opts K) (orc : OracleQ K) (hl : o.limit = none) (hd : o.dontThrow = false)
    (h : (runQ sqrt o orc).threw = false) : (runQ sqrt o orc).status = .succeeded := by
  revert h
  unfold runQ
  simp only [hl, hd, exceeds]
  split_ifs <;> simp_all

theorem no_throw_is_success_U (sqrt : K → K) (o : Opts K) (orc : OracleU K) (hl : o.limit = none) (hd : o.dontThrow = false)
    (h : (runU sqrt o orc).threw = false) : (runU sqrt o orc).status = .succeeded := by
  revert h
  unfold runU
  simp only [hl, hd, exceeds]
  split_ifs <;> simp_all

/-- the options `ProjectOptions(accuracy)` builds satisfy the hypotheses of `no_throw_is_success` and of
`success_sound` -/
theorem defaultOpts_spec (dfltAcc ov sig acc : K) (hd : 0 < dfltAcc) :
    (defaultOpts dfltAcc ov sig acc).limit = none ∧ (defaultOpts dfltAcc ov sig acc).dontThrow = false ∧
    (defaultOpts dfltAcc ov sig acc).force = false ∧ 0 < (defaultOpts dfltAcc ov sig acc).acc := by
  refine ⟨rfl, rfl, rfl, ?_⟩
  show 0 < setRequiredAccuracy dfltAcc acc
  unfold setRequiredAccuracy; split <;> assumption

/-- `normalizeQuaternions` skips prescribed quaternions: entries flagged `false` come back unchanged, entries flagged
`true` come back normalised, order and flags preserved -/
theorem normalizeQuatsMasked_spec (sqrt : K → K) (qs : List (Bool × Quat K)) (i : Nat) (hi : i < qs.length) :
    ((normalizeQuatsMasked sqrt qs)[i]?).map Prod.fst = some qs[i].1 ∧
    (qs[i].1 = false → (normalizeQuatsMasked sqrt qs)[i]? = some qs[i]) ∧
    (qs[i].1 = true → (normalizeQuatsMasked sqrt qs)[i]? = some (true, normalizeQuat sqrt qs[i].2)) := by
  unfold normalizeQuatsMasked
  rw [List.getElem?_map, List.getElem?_eq_getElem hi]
  simp only [Option.map_some]
  cases hq : qs[i].1 <;> simp [hq]

/-! ### quaternion normalisation -/

/-- **normalize_unit.** `normalizeQuaternions` on one quaternion yields unit length, given that `sqrt` really is a
square root of the squared length and the quaternion is not zero. -/
theorem normalize_unit (sqrt : K → K) (q : Quat K) (hs : sqrt q.normSq * sqrt q.normSq = q.normSq)
    (hne : q.normSq ≠ 0) : (normalizeQuat sqrt q).normSq = 1 := by
  have hn : sqrt q.normSq ≠ 0 := by
    intro h; rw [h] at hs; exact hne (by rw [← hs]; ring)
  unfold normalizeQuat Quat.normSq at *
  simp only
  generalize sqrt (0 + q.w * q.w + q.x * q.x + q.y * q.y + q.z * q.z) = n at *
  field_simp
  linear_combination (-1 : K) * hs

/-- non-vacuity: the quaternion (3,0,4,0) with `sqrt 25 = 5` -/
example : (normalizeQuat (fun _ => (5 : ℚ)) ⟨3, 0, 4, 0⟩).normSq = 1 :=
  normalize_unit _ _ (by norm_num [Quat.normSq]) (by norm_num [Quat.normSq])

/-- the error estimate, after `qerr -= dot(qerr,quat)*quat`, has no component along the unit quaternion -/
theorem errest_orthogonal (quat e : Quat K) (hu : quat.normSq = 1) : (projectErrEst quat e).dot quat = 0 := by
  unfold projectErrEst Quat.dot Quat.normSq at *
  simp only
  linear_combination (-(0 + e.w * quat.w + e.x * quat.x + e.y * quat.y + e.z * quat.z)) * hu

/-! ### free / prescribed packing -/

/-- **prescribed_untouched.** Whatever is done to the packed free coordinates (`f`), unpacking the result back into
`q` leaves every slot that is not a free index exactly as it was. -/
theorem prescribed_untouched (free : List Nat) (q : List K) (d : K) (f : List K → List K) (i : Nat) (hi : i ∉ free) :
    (unpack free (f (pack free q d)) q)[i]? = q[i]? :=
  unpack_getElem?_of_not_mem free _ q i hi

/-- `pack ∘ unpack = id` on the free slots (distinct in-range free indices), and the length is preserved -/
theorem pack_unpack_id (free : List Nat) (packed base : List K) (d : K) (hnd : free.Nodup)
    (hlen : packed.length = free.length) (hrange : ∀ i ∈ free, i < base.length) :
    pack free (unpack free packed base) d = packed ∧ (unpack free packed base).length = base.length :=
  ⟨pack_unpack free packed base d hnd hlen hrange, unpack_length free packed base⟩

/-- non-vacuity: 5 coordinates, slots 1 and 3 prescribed -/
example : unpack [0, 2, 4] [(10 : ℚ), 20, 30] [1, 2, 3, 4, 5] = [10, 2, 20, 4, 30] ∧
    pack [0, 2, 4] [(10 : ℚ), 2, 20, 4, 30] 0 = [10, 20, 30] := by decide

open Matrix

/-- every entry of projectU's relative scale is positive when the u weights are -/
theorem uRelScale_pos (u wu : List K) (hw : ∀ x ∈ wu, 0 < x) : ∀ x ∈ uRelScale u wu, 0 < x := by
  unfold uRelScale
  induction u generalizing wu with
  | nil => intro x hx; simp at hx
  | cons a t ih =>
    cases wu with
    | nil => intro x hx; simp at hx
    | cons b s =>
      intro x hx
      simp only [List.zipWith_cons_cons, List.mem_cons] at hx
      have hb : 0 < b := hw b (by simp)
      rcases hx with hx | hx
      · rw [hx]
        split_ifs with h1 h2 h2
        · -- 1 < -a * b
          by_contra hc
          have : -a * b ≤ 0 := mul_nonpos_of_nonpos_of_nonneg (not_lt.mp hc) (le_of_lt hb)
          linarith
        · exact one_div_pos.mpr hb
        · by_contra hc
          have : a * b ≤ 0 := mul_nonpos_of_nonpos_of_nonneg (not_lt.mp hc) (le_of_lt hb)
          linarith
        · exact one_div_pos.mpr hb
      · exact ih s (fun y hy => hw y (by simp [hy])) x hx


section MinNorm
variable {m n p : Type} [Fintype m] [Fintype n] [Fintype p] [DecidableEq m] [DecidableEq n] [DecidableEq p]

/-- **min_norm_of_multiplier** (certificate form; no invertibility needed).  Let `d j > 0` be the squared weights
(`d = Wu²`).  If the multipliers `lam` solve `(A D⁻¹ Aᵀ) lam = b`, then `x = D⁻¹ Aᵀ lam` solves `A x = b` and has the
smallest weighted norm `Σ d_j x_j²` among ALL solutions of `A y = b`. -/
theorem min_norm_of_multiplier (A : Matrix m n K) (d : n → K) (hd : ∀ j, 0 < d j) (b lam : m → K)
    (hlam : (A * Matrix.diagonal (fun j => (d j)⁻¹) * Aᵀ) *ᵥ lam = b) :
    A *ᵥ (fun j => (d j)⁻¹ * (Aᵀ *ᵥ lam) j) = b ∧
    ∀ y : n → K, A *ᵥ y = b →
      ∑ j, d j * ((d j)⁻¹ * (Aᵀ *ᵥ lam) j) ^ 2 ≤ ∑ j, d j * y j ^ 2 := by
  have hx : (fun j => (d j)⁻¹ * (Aᵀ *ᵥ lam) j) = Matrix.diagonal (fun j => (d j)⁻¹) *ᵥ (Aᵀ *ᵥ lam) := by
    funext j; rw [Matrix.mulVec_diagonal]
  have hAx : A *ᵥ (fun j => (d j)⁻¹ * (Aᵀ *ᵥ lam) j) = b := by
    rw [hx, Matrix.mulVec_mulVec, Matrix.mulVec_mulVec]; exact hlam
  refine ⟨hAx, ?_⟩
  intro y hy
  set x : n → K := fun j => (d j)⁻¹ * (Aᵀ *ᵥ lam) j with hxdef
  -- z = y - x is in the null space of A
  have hz : A *ᵥ (y - x) = 0 := by rw [Matrix.mulVec_sub, hy, hAx, sub_self]
  -- the cross term vanishes:  Σ d_j x_j z_j = (Aᵀ lam) ⬝ z = lam ⬝ (A z) = 0
  have hcross : ∑ j, d j * x j * (y j - x j) = 0 := by
    have h1 : ∑ j, d j * x j * (y j - x j) = (Aᵀ *ᵥ lam) ⬝ᵥ (y - x) := by
      unfold dotProduct
      apply Finset.sum_congr rfl
      intro j _
      have hdj : d j ≠ 0 := ne_of_gt (hd j)
      simp only [hxdef, Pi.sub_apply]
      field_simp
    rw [h1, Matrix.mulVec_transpose, ← Matrix.dotProduct_mulVec, hz, dotProduct_zero]
  have hsplit : ∑ j, d j * y j ^ 2 = ∑ j, d j * x j ^ 2 + ∑ j, d j * (y j - x j) ^ 2 := by
    have : ∀ j, d j * y j ^ 2 = d j * x j ^ 2 + 2 * (d j * x j * (y j - x j)) + d j * (y j - x j) ^ 2 := by
      intro j; ring
    simp only [this, Finset.sum_add_distrib, ← Finset.mul_sum, hcross, mul_zero, add_zero]
  rw [hsplit]
  have hnn : 0 ≤ ∑ j, d j * (y j - x j) ^ 2 :=
    Finset.sum_nonneg (fun j _ => mul_nonneg (le_of_lt (hd j)) (sq_nonneg _))
  linarith

/-- **min_norm_weighted** (inverse form): with `M = A D⁻¹ Aᵀ` invertible, `x = D⁻¹ Aᵀ M⁻¹ b` solves `A x = b` and
minimises the weighted norm `Σ d_j y_j²` over all solutions. -/
theorem min_norm_weighted (A : Matrix m n K) (d : n → K) (hd : ∀ j, 0 < d j) (b : m → K)
    (hM : IsUnit (A * Matrix.diagonal (fun j => (d j)⁻¹) * Aᵀ).det) :
    let lam := (A * Matrix.diagonal (fun j => (d j)⁻¹) * Aᵀ)⁻¹ *ᵥ b
    A *ᵥ (fun j => (d j)⁻¹ * (Aᵀ *ᵥ lam) j) = b ∧
    ∀ y : n → K, A *ᵥ y = b → ∑ j, d j * ((d j)⁻¹ * (Aᵀ *ᵥ lam) j) ^ 2 ≤ ∑ j, d j * y j ^ 2 := by
  intro lam
  apply min_norm_of_multiplier A d hd b lam
  show (A * Matrix.diagonal (fun j => (d j)⁻¹) * Aᵀ) *ᵥ ((A * Matrix.diagonal (fun j => (d j)⁻¹) * Aᵀ)⁻¹ *ᵥ b) = b
  rw [Matrix.mulVec_mulVec, Matrix.mul_nonsing_inv _ hM, Matrix.one_mulVec]

/-- **min_norm_linear** (unit weights): for `A Aᵀ` invertible, `x = Aᵀ (A Aᵀ)⁻¹ b` solves `A x = b`, and
`‖x‖² ≤ ‖y‖²` for every `y` with `A y = b`. -/
theorem min_norm_linear (A : Matrix m n K) (b : m → K) (hM : IsUnit (A * Aᵀ).det) :
    A *ᵥ (Aᵀ *ᵥ ((A * Aᵀ)⁻¹ *ᵥ b)) = b ∧
    ∀ y : n → K, A *ᵥ y = b → (Aᵀ *ᵥ ((A * Aᵀ)⁻¹ *ᵥ b)) ⬝ᵥ (Aᵀ *ᵥ ((A * Aᵀ)⁻¹ *ᵥ b)) ≤ y ⬝ᵥ y := by
  have h1 : Matrix.diagonal (fun _ : n => ((1 : K))⁻¹) = 1 := by simp
  have h2 : Matrix.diagonal (fun _ : n => (1 : K)) = 1 := Matrix.diagonal_one
  have hM' : IsUnit (A * Matrix.diagonal (fun _ : n => ((1 : K))⁻¹) * Aᵀ).det := by rw [h1, Matrix.mul_one]; exact hM
  have h := min_norm_weighted A (fun _ => (1 : K)) (fun _ => one_pos) b hM'
  simp only [inv_one, one_mul, h2, Matrix.mul_one] at h
  refine ⟨h.1, fun y hy => ?_⟩
  have := h.2 y hy
  simpa [dotProduct, pow_two] using this

/-- **min_norm_documented_step**: the step exactly as documented in projectQ / calcWeightedPqrTranspose (N = identity):
`A' = Tp A Wu⁻¹`, `μ` solves `(A' A'ᵀ) μ = Tp b` (what the QTZ factorisation delivers at full row rank),
`dq = Wu⁻¹ A'ᵀ μ`.  Then `A dq = b` and `dq` minimises `Σ (Wu_j y_j)²` over all `y` with `A y = b`; the constraint
tolerances `Tp` (any nonzero values) do not influence the result. -/
theorem min_norm_documented_step (A : Matrix m n K) (t : m → K) (ht : ∀ i, t i ≠ 0) (w : n → K) (hw : ∀ j, 0 < w j)
    (b mu : m → K)
    (hmu : ((Matrix.diagonal t * A * Matrix.diagonal (fun j => (w j)⁻¹)) *
            (Matrix.diagonal t * A * Matrix.diagonal (fun j => (w j)⁻¹))ᵀ) *ᵥ mu = fun i => t i * b i) :
    let dq : n → K := fun j => (w j)⁻¹ * ((Matrix.diagonal t * A * Matrix.diagonal (fun j => (w j)⁻¹))ᵀ *ᵥ mu) j
    A *ᵥ dq = b ∧ ∀ y : n → K, A *ᵥ y = b → ∑ j, (w j * dq j) ^ 2 ≤ ∑ j, (w j * y j) ^ 2 := by
  intro dq
  have hd : ∀ j, 0 < (w j) ^ 2 := fun j => pow_pos (hw j) 2
  -- multipliers of the unscaled problem
  set lam : m → K := fun i => t i * mu i with hlamdef
  have hlamv : lam = Matrix.diagonal t *ᵥ mu := by funext i; rw [Matrix.mulVec_diagonal]
  have hdiag : Matrix.diagonal (fun j => (w j)⁻¹) * Matrix.diagonal (fun j => (w j)⁻¹)
      = Matrix.diagonal (fun j => ((w j) ^ 2)⁻¹) := by
    rw [Matrix.diagonal_mul_diagonal]; congr 1; funext j
    have : w j ≠ 0 := ne_of_gt (hw j)
    field_simp
  -- A' A'ᵀ = T (A D⁻¹ Aᵀ) T
  have hgram : (Matrix.diagonal t * A * Matrix.diagonal (fun j => (w j)⁻¹)) *
      (Matrix.diagonal t * A * Matrix.diagonal (fun j => (w j)⁻¹))ᵀ
      = Matrix.diagonal t * (A * Matrix.diagonal (fun j => ((w j) ^ 2)⁻¹) * Aᵀ) * Matrix.diagonal t := by
    rw [Matrix.transpose_mul, Matrix.transpose_mul, Matrix.diagonal_transpose, Matrix.diagonal_transpose, ← hdiag]
    simp only [Matrix.mul_assoc]
  have hlam : (A * Matrix.diagonal (fun j => ((w j) ^ 2)⁻¹) * Aᵀ) *ᵥ lam = b := by
    rw [hgram, ← Matrix.mulVec_mulVec, ← Matrix.mulVec_mulVec, ← hlamv] at hmu
    funext i
    have := congrFun hmu i
    rw [Matrix.mulVec_diagonal] at this
    exact mul_left_cancel₀ (ht i) this
  -- the documented dq is D⁻¹ Aᵀ lam
  have hdq : dq = fun j => ((w j) ^ 2)⁻¹ * (Aᵀ *ᵥ lam) j := by
    funext j
    have hwj : w j ≠ 0 := ne_of_gt (hw j)
    show (w j)⁻¹ * ((Matrix.diagonal t * A * Matrix.diagonal (fun j => (w j)⁻¹))ᵀ *ᵥ mu) j = _
    rw [Matrix.transpose_mul, Matrix.transpose_mul, Matrix.diagonal_transpose, Matrix.diagonal_transpose,
      ← Matrix.mulVec_mulVec, Matrix.mulVec_diagonal, ← Matrix.mulVec_mulVec, ← hlamv]
    field_simp
  have h := min_norm_of_multiplier A (fun j => (w j) ^ 2) hd b lam hlam
  have hdqj : ∀ j, ((w j) ^ 2)⁻¹ * (Aᵀ *ᵥ lam) j = dq j := fun j => (congrFun hdq j).symm
  refine ⟨by rw [hdq]; exact h.1, fun y hy => ?_⟩
  have := h.2 y hy
  simp only [hdqj] at this
  simpa [mul_pow] using this

/-- **min_norm_step_general** — the position step with the coupling matrix `N`: for ANY matrix `S`
(the code's `S = Wq⁺ = N Wu⁻¹ N⁺` with the prescribed columns removed), `A' = Tp A S`, `μ` with `(A'A'ᵀ) μ = Tp b`:
the weighted unknown `z = A'ᵀ μ` (`dfq_WLS`) solves `(A S) z = b` with the smallest Euclidean norm among all such `z`,
and the correction `dq = S z` satisfies `A dq = b`.  (When `S` is invertible this says: `dq` minimises `‖S⁻¹ dq‖`,
i.e. the documented `Wq`-weighted norm; the tolerances `Tp` cancel.) -/
theorem min_norm_step_general (A : Matrix m n K) (S : Matrix n p K) (t : m → K) (ht : ∀ i, t i ≠ 0) (b mu : m → K)
    (hmu : ((Matrix.diagonal t * (A * S)) * (Matrix.diagonal t * (A * S))ᵀ) *ᵥ mu = fun i => t i * b i) :
    let z : p → K := (Matrix.diagonal t * (A * S))ᵀ *ᵥ mu
    (A * S) *ᵥ z = b ∧ A *ᵥ (S *ᵥ z) = b ∧ ∀ y : p → K, (A * S) *ᵥ y = b → z ⬝ᵥ z ≤ y ⬝ᵥ y := by
  intro z
  set B := A * S with hB
  set lam : m → K := Matrix.diagonal t *ᵥ mu with hlam
  have hz : z = Bᵀ *ᵥ lam := by
    show (Matrix.diagonal t * B)ᵀ *ᵥ mu = _
    rw [Matrix.transpose_mul, Matrix.diagonal_transpose, ← Matrix.mulVec_mulVec]
  have hBB : (B * Bᵀ) *ᵥ lam = b := by
    have h1 : (Matrix.diagonal t * B) * (Matrix.diagonal t * B)ᵀ = Matrix.diagonal t * (B * Bᵀ) * Matrix.diagonal t := by
      rw [Matrix.transpose_mul, Matrix.diagonal_transpose]; simp only [Matrix.mul_assoc]
    rw [h1, ← Matrix.mulVec_mulVec, ← Matrix.mulVec_mulVec, ← hlam] at hmu
    funext i
    have := congrFun hmu i
    rw [Matrix.mulVec_diagonal] at this
    exact mul_left_cancel₀ (ht i) this
  have h1 : Matrix.diagonal (fun _ : p => ((1 : K))⁻¹) = 1 := by simp
  have hm := min_norm_of_multiplier B (fun _ => (1 : K)) (fun _ => one_pos) b lam
    (by rw [h1, Matrix.mul_one]; exact hBB)
  simp only [inv_one, one_mul] at hm
  have hBz : B *ᵥ z = b := by rw [hz]; exact hm.1
  refine ⟨hBz, by rw [Matrix.mulVec_mulVec]; exact hBz, fun y hy => ?_⟩
  have := hm.2 y hy
  rw [hz]
  simpa [dotProduct, pow_two] using this

/-- **min_norm_relative_scaling** — the velocity step: with the relative scale `E_j > 0` (`uRelScale`, see
`uRelScale_pos`), `A' = Tpv [P;V] E`, `(A'A'ᵀ) μ = Tpv verr`, the correction `du = E A'ᵀ μ` solves `[P;V] du = verr` and
minimises `Σ (du_j / E_j)²` — the norm projectU actually minimises (NOT the `Wu`-weighted one when `|u_j| Wu_j > 1`). -/
theorem min_norm_relative_scaling (A : Matrix m n K) (t : m → K) (ht : ∀ i, t i ≠ 0) (E : n → K) (hE : ∀ j, 0 < E j)
    (b mu : m → K)
    (hmu : ((Matrix.diagonal t * A * Matrix.diagonal E) * (Matrix.diagonal t * A * Matrix.diagonal E)ᵀ) *ᵥ mu
             = fun i => t i * b i) :
    let du : n → K := fun j => E j * ((Matrix.diagonal t * A * Matrix.diagonal E)ᵀ *ᵥ mu) j
    A *ᵥ du = b ∧ ∀ y : n → K, A *ᵥ y = b → ∑ j, (du j / E j) ^ 2 ≤ ∑ j, (y j / E j) ^ 2 := by
  intro du
  have hinv : (fun j => ((E j)⁻¹)⁻¹) = E := by funext j; simp
  have h := min_norm_documented_step A t ht (fun j => (E j)⁻¹) (fun j => inv_pos.mpr (hE j)) b mu
    (by simpa [hinv] using hmu)
  simp only [hinv, inv_inv] at h
  refine ⟨h.1, fun y hy => ?_⟩
  have h2 := h.2 y hy
  have e1 : ∀ j, du j / E j = (E j)⁻¹ * du j := fun j => by rw [div_eq_inv_mul]
  have e2 : ∀ j, y j / E j = (E j)⁻¹ * y j := fun j => by rw [div_eq_inv_mul]
  simp only [e1, e2]
  exact h2

end MinNorm

/-! ### non-vacuity of the skeleton theorems (K = ℚ, infinity norm so that `sqrt` is irrelevant) -/

/-- accuracy 10, overshoot 1, no projection limit, infinity norm, not forced, DontThrow -/
def exOpts : Opts ℚ := ⟨10, 1, none, 0, true, false, true, false⟩
def exOracle : OracleQ ℚ :=
  { perr0 := [100], w := [1], quat0 := [50], chgA := true, quatA := [0],
    perrIt := fun _ => [1], perrBack := fun _ => [100], chgB := true, quatB := [0] }
def exOracleOk : OracleQ ℚ := { exOracle with perr0 := [1], quat0 := [2] }
/-- `success_sound` is not vacuous: this run takes the Newton path (1 iteration) and succeeds -/
example : (runQ id exOpts exOracle).status = .succeeded ∧ (runQ id exOpts exOracle).its = 1 ∧
    (runQ id exOpts exOracle).normOut = some 1 := by
  norm_num [runQ, exOpts, exOracle, entryNormQ, normW, normInfW, absK, scale, exceeds, newtonLoop, maxItsQ, maxK, norm]
/-- `no_change_if_ok` is not vacuous: its hypotheses hold for `exOracleOk` -/
example : exOpts.force = false ∧
    (entryNormQ id exOpts.useInf exOracleOk.perr0 exOracleOk.w exOracleOk.quat0).normIn ≤ exOpts.acc := by
  norm_num [exOpts, exOracleOk, exOracle, entryNormQ, normW, normInfW, absK, scale]
/-- the contract rejects `Succeeded` with an exit norm above the accuracy -/
example : acceptsQ exOpts 1 100 50 ⟨.succeeded, true, false, 2, 100, some 50, false, false⟩ = false := by decide
/-- … and accepts a failing run as a failing run -/
example : acceptsQ exOpts 1 100 50 ⟨.failedAcc, true, false, 20, 100, some 100, false, true⟩ = true := by decide
/-- a FORCED projection reported as "nothing done" is rejected (ForceProjection must iterate) -/
example : acceptsQ { exOpts with force := true } 0 5 0 ⟨.succeeded, false, false, 0, 5, some 5, false, true⟩ = false := by decide
/-- a failure whose exit norm equals the entry norm must have restored the entry state (no quaternions) -/
example : acceptsQ exOpts 0 100 0 ⟨.failedAcc, true, false, 20, 100, some 100, false, false⟩ = false := by decide

/-- `min_norm_linear` is not vacuous: the single constraint `y₀ + y₁ = 2` (A Aᵀ = (2) is invertible) -/
example : IsUnit ((!![1, 1] : Matrix (Fin 1) (Fin 2) ℚ) * (!![1, 1] : Matrix (Fin 1) (Fin 2) ℚ)ᵀ).det := by
  rw [Matrix.det_fin_one]
  simp [Matrix.mul_apply, Fin.sum_univ_two]

end C09
