import SimbodyModel.C25
import SimbodyModel.C25_small
import SimbodyModel.C25_machine
import SimbodyProofs.C25_lemmas
import SimbodyProofs.C25_machine_lemmas
import SimbodyProofs.C25_det_lemmas
import Mathlib.Tactic.Ring
import Mathlib.Tactic.FieldSimp
import Mathlib.Tactic.Linarith
import Mathlib.Tactic.LinearCombination
import Mathlib.Tactic.NormNum
import Mathlib.Algebra.Field.Basic
import Mathlib.Data.Finset.Card
import Mathlib.Data.Finset.Sigma
import Mathlib.Algebra.BigOperators.Intervals

/-!
# C25 — property theorems: views behave like the matrices they denote; small fixed-size arithmetic

Part I  (kind D, index maps): `view_compose`, `view_compose_all`, `view_injective`, `view_in_bounds`,
          `write_through_view_changes_exactly_viewed`, `transpose_involutive`, `block_of_transpose`,
          `eltIndexer_postIndexBy`, `indexer_compose`.
Part II (kind A, any commutative ring / field): `mat33_inv_mul`, `mat33_mul_inv`, `mat22_inv_mul`, `det_mul_2`,
          `det_mul_3`, `det_transpose_3`, `symmat33_inv_mul`, `symmat33_det`, cross-product identities,
          `negator_algebra`, `negator_vec3`, `conjugate_algebra`, `detN_two`, `detN_three`.
Part III (kind D): `symmat_index` — the packed SymMat storage index is a bijection.
-/
namespace C25

/-! ## Part I — view algebra -/

/-- `EltIndexer::postIndexBy` composes the index maps: the composite applied to view indices (i,j) is the old
indexer applied to what `post` yields. -/
theorem eltIndexer_postIndexBy (e p : EltIndexer) (i j : Int) :
    (e.postIndexBy p).row i j = e.row (p.row i j) (p.col i j) ∧
    (e.postIndexBy p).col i j = e.col (p.row i j) (p.col i j) := by
  simp only [EltIndexer.postIndexBy, EltIndexer.row, EltIndexer.col]
  constructor <;> ring

/-- `ElementFilter::Indexer(old, ix)` composes affine index maps (with offsets). -/
theorem indexer_compose (old ix : Indexer) (x y : Int) :
    (Indexer.compose old ix).row x y = old.row (ix.row x y) (ix.col x y) ∧
    (Indexer.compose old ix).col x y = old.col (ix.row x y) (ix.col x y) := by
  simp only [Indexer.compose, Indexer.row, Indexer.col]
  constructor <;> ring

theorem eltIndexer_transpose_involutive (e : EltIndexer) : e.transpose.transpose = e := by
  cases e; rfl

/-- **view of a view = composed index map** (one step): the physical descriptor the C++ helper computes for
`op` applied to the view `v` addresses, for every in-range index of the new view, exactly the element of `v` the
index map of `op` names; its shape and sign are the logical ones. -/
theorem view_compose (v w : AView) (op : VOp) (h : v.apply op = some w) :
    w.shape = op.shape v.shape ∧ w.neg = xor op.flipsSign v.neg ∧
    ∀ i j, i < w.nr → j < w.nc → w.addr i j = v.addr (op.map (i, j)).1 (op.map (i, j)).2 := by
  cases op with
  | block i0 j0 m n =>
    simp only [AView.apply, Option.some.injEq] at h
    subst h
    unfold AView.block
    by_cases hn : n = 1
    · subst hn
      simp only [if_true, AView.shape, VOp.shape, VOp.flipsSign, Bool.false_xor, VOp.map, AView.addr, true_and]
      intro i j _ hj
      have : j = 0 := by omega
      subst this; ring
    · by_cases hm : m = 1
      · subst hm
        simp only [hn, if_false, if_true, AView.shape, VOp.shape, VOp.flipsSign, Bool.false_xor, VOp.map,
          AView.addr, true_and]
        intro i j hi _
        have : i = 0 := by omega
        subst this; ring
      · simp only [hn, hm, if_false, AView.shape, VOp.shape, VOp.flipsSign, Bool.false_xor, VOp.map,
          AView.addr, true_and]
        intro i j _ _; ring
  | row i0 =>
    simp only [AView.apply, Option.some.injEq] at h
    subst h
    unfold AView.block
    by_cases hn : v.nc = 1
    · simp only [hn, if_true, AView.shape, VOp.shape, VOp.flipsSign, Bool.false_xor, VOp.map, AView.addr, true_and]
      intro i j hi hj
      have : j = 0 := by omega
      subst this
      have : i = 0 := by omega
      subst this; ring
    · simp only [hn, if_false, if_true, AView.shape, VOp.shape, VOp.flipsSign, Bool.false_xor, VOp.map,
        AView.addr, true_and]
      intro i j hi _
      have : i = 0 := by omega
      subst this; ring
  | col j0 =>
    simp only [AView.apply, Option.some.injEq] at h
    subst h
    unfold AView.block
    simp only [if_true, AView.shape, VOp.shape, VOp.flipsSign, Bool.false_xor, VOp.map, AView.addr, true_and]
    intro i j _ hj
    have : j = 0 := by omega
    subst this; ring
  | diag =>
    simp only [AView.apply, Option.some.injEq] at h
    subst h
    simp only [AView.diag, AView.shape, VOp.shape, VOp.flipsSign, Bool.false_xor, VOp.map, AView.addr, true_and]
    intro i j _ _; ring
  | transpose =>
    simp only [AView.apply, Option.some.injEq] at h
    subst h
    simp only [AView.transpose, AView.shape, VOp.shape, VOp.flipsSign, Bool.false_xor, VOp.map, AView.addr, true_and]
    intro i j _ _; ring
  | negate =>
    simp only [AView.apply, Option.some.injEq] at h
    subst h
    simp only [AView.negate, AView.shape, VOp.shape, VOp.flipsSign, Bool.true_xor, VOp.map, AView.addr, true_and]
    intro i j _ _; trivial
  | index r ix => simp [AView.apply] at h

/-- a legal view operation maps in-range indices of the view to in-range indices of what is viewed -/
theorem map_in_range (op : VOp) (s : Nat × Nat) (hl : op.legal s = true) (p : Nat × Nat)
    (h1 : p.1 < (op.shape s).1) (h2 : p.2 < (op.shape s).2) :
    (op.map p).1 < s.1 ∧ (op.map p).2 < s.2 := by
  obtain ⟨nr, nc⟩ := s
  obtain ⟨i, j⟩ := p
  cases op with
  | block i0 j0 m n =>
    simp only [VOp.legal, Bool.and_eq_true, decide_eq_true_eq] at hl
    simp only [VOp.shape] at h1 h2
    simp only [VOp.map]; omega
  | row i0 =>
    simp only [VOp.legal, decide_eq_true_eq] at hl
    simp only [VOp.shape] at h1 h2
    simp only [VOp.map]; omega
  | col j0 =>
    simp only [VOp.legal, decide_eq_true_eq] at hl
    simp only [VOp.shape] at h1 h2
    simp only [VOp.map]; omega
  | diag =>
    simp only [VOp.shape] at h1 h2
    simp only [VOp.map]; omega
  | transpose =>
    simp only [VOp.shape] at h1 h2
    simp only [VOp.map]; omega
  | negate =>
    simp only [VOp.shape] at h1 h2
    simp only [VOp.map]; omega
  | index r ix =>
    simp only [VOp.legal, Bool.and_eq_true] at hl
    obtain ⟨⟨_, hall⟩, hshape⟩ := hl
    cases r with
    | true =>
      simp only [VOp.shape, if_true] at h1 h2
      simp only [if_true, beq_iff_eq] at hshape hall
      have hi : i = 0 := by omega
      subst hi
      have := all_lt_getD (n := nc) hall (a := 0 + j) (by omega)
      simp only [VOp.map, if_true]; omega
    | false =>
      simp only [VOp.shape, Bool.false_eq_true, if_false] at h1 h2
      simp only [Bool.false_eq_true, if_false, beq_iff_eq] at hshape hall
      have hj : j = 0 := by omega
      subst hj
      have := all_lt_getD (n := nr) hall (a := i + 0) (by omega)
      simp only [VOp.map, Bool.false_eq_true, if_false]; omega

/-- a legal view operation never shows the same element twice -/
theorem map_injective (op : VOp) (s : Nat × Nat) (hl : op.legal s = true) (p q : Nat × Nat)
    (hp1 : p.1 < (op.shape s).1) (hp2 : p.2 < (op.shape s).2)
    (hq1 : q.1 < (op.shape s).1) (hq2 : q.2 < (op.shape s).2) (e : op.map p = op.map q) : p = q := by
  obtain ⟨nr, nc⟩ := s
  obtain ⟨i, j⟩ := p
  obtain ⟨i', j'⟩ := q
  cases op with
  | block i0 j0 m n => simp only [VOp.map, Prod.mk.injEq] at e ⊢; omega
  | row i0 => simp only [VOp.map, Prod.mk.injEq] at e ⊢; omega
  | col j0 => simp only [VOp.map, Prod.mk.injEq] at e ⊢; omega
  | diag =>
    simp only [VOp.shape] at hp1 hp2 hq1 hq2
    simp only [VOp.map, Prod.mk.injEq] at e ⊢; omega
  | transpose => simp only [VOp.map, Prod.mk.injEq] at e ⊢; omega
  | negate => simpa [VOp.map] using e
  | index r ix =>
    simp only [VOp.legal, Bool.and_eq_true] at hl
    obtain ⟨⟨hinc, _⟩, _⟩ := hl
    cases r with
    | true =>
      simp only [VOp.shape, if_true] at hp1 hp2 hq1 hq2
      simp only [VOp.map, if_true, Prod.mk.injEq, true_and] at e
      have := strictInc_getD_inj hinc (a := i + j) (b := i' + j') (by omega) (by omega) e
      simp only [Prod.mk.injEq]; omega
    | false =>
      simp only [VOp.shape, Bool.false_eq_true, if_false] at hp1 hp2 hq1 hq2
      simp only [VOp.map, Bool.false_eq_true, if_false, Prod.mk.injEq, and_true] at e
      have := strictInc_getD_inj hinc (a := i + j) (b := i' + j') (by omega) (by omega) e
      simp only [Prod.mk.injEq]; omega

/-- in-range indices of a legal view expression are in-range indices of the owner -/
theorem mapAll_in_range (ops : List VOp) : ∀ (s : Nat × Nat), legalAll ops s = true → ∀ p : Nat × Nat,
    p.1 < (shapeOf ops s).1 → p.2 < (shapeOf ops s).2 → (mapAll ops p).1 < s.1 ∧ (mapAll ops p).2 < s.2 := by
  induction ops with
  | nil => intro s _ p h1 h2; exact ⟨h1, h2⟩
  | cons op rest ih =>
    intro s hl p h1 h2
    simp only [legalAll, Bool.and_eq_true] at hl
    simp only [shapeOf] at h1 h2
    obtain ⟨r1, r2⟩ := ih (op.shape s) hl.2 p h1 h2
    exact map_in_range op s hl.1 (mapAll rest p) r1 r2

/-- **view_injective (logical)**: a legal view expression — blocks, rows, columns, diagonals, transposes,
negations, index selections in any order and depth — never shows an owner element twice. -/
theorem mapAll_injective (ops : List VOp) : ∀ (s : Nat × Nat), legalAll ops s = true → ∀ p q : Nat × Nat,
    p.1 < (shapeOf ops s).1 → p.2 < (shapeOf ops s).2 → q.1 < (shapeOf ops s).1 → q.2 < (shapeOf ops s).2 →
    mapAll ops p = mapAll ops q → p = q := by
  induction ops with
  | nil => intro s _ p q _ _ _ _ e; exact e
  | cons op rest ih =>
    intro s hl p q hp1 hp2 hq1 hq2 e
    simp only [legalAll, Bool.and_eq_true] at hl
    simp only [shapeOf] at hp1 hp2 hq1 hq2
    obtain ⟨a1, a2⟩ := mapAll_in_range rest (op.shape s) hl.2 p hp1 hp2
    obtain ⟨b1, b2⟩ := mapAll_in_range rest (op.shape s) hl.2 q hq1 hq2
    have := map_injective op s hl.1 _ _ a1 a2 b1 b2 e
    exact ih (op.shape s) hl.2 p q hp1 hp2 hq1 hq2 this

/-- **view of a view = composed index map** (whole expressions): if the C++ helpers can represent the
expression by a regularly spaced descriptor `w`, then `w` has the logical shape and sign and addresses, for every
in-range (i,j), the store cell of the owner element `mapAll ops (i,j)`. -/
theorem view_compose_all (ops : List VOp) : ∀ (v w : AView), v.applyAll ops = some w → legalAll ops v.shape = true →
    w.shape = shapeOf ops v.shape ∧ w.neg = xor (negAll ops) v.neg ∧
    ∀ i j, i < w.nr → j < w.nc → w.addr i j = v.addr (mapAll ops (i, j)).1 (mapAll ops (i, j)).2 := by
  induction ops with
  | nil =>
    intro v w h _
    simp only [AView.applyAll, Option.some.injEq] at h
    subst h
    simp [shapeOf, negAll, mapAll]
  | cons op rest ih =>
    intro v w h hl
    simp only [legalAll, Bool.and_eq_true] at hl
    simp only [AView.applyAll] at h
    cases hv : v.apply op with
    | none => rw [hv] at h; simp at h
    | some v1 =>
      rw [hv] at h
      simp only at h
      obtain ⟨s1, n1, a1⟩ := view_compose v v1 op hv
      have hl2 : legalAll rest v1.shape = true := by rw [s1]; exact hl.2
      obtain ⟨s2, n2, a2⟩ := ih v1 w h hl2
      refine ⟨by rw [s2, s1]; rfl, ?_, ?_⟩
      · rw [n2, n1]; simp only [negAll]
        cases op.flipsSign <;> cases negAll rest <;> cases v.neg <;> rfl
      · intro i j hi hj
        rw [a2 i j hi hj]
        have hsh : w.shape = shapeOf rest v1.shape := s2
        have hi' : (i, j).1 < (shapeOf rest v1.shape).1 := by rw [← hsh]; exact hi
        have hj' : (i, j).2 < (shapeOf rest v1.shape).2 := by rw [← hsh]; exact hj
        obtain ⟨r1, r2⟩ := mapAll_in_range rest v1.shape hl2 (i, j) hi' hj'
        simp only [mapAll]
        exact a1 _ _ r1 r2

/-- the three owner layouts address distinct in-bounds store cells -/
def IsOwnerLayout (own : AView) : Prop :=
  (∃ nr nc, own = AView.ownerMatrix nr nc) ∨ (∃ n, own = AView.ownerVector n) ∨ (∃ n, own = AView.ownerRowVector n) ∨
  (∃ nr nc, own = AView.ownerMatrixRowOrder nr nc)

theorem owner_addr_injective (own : AView) (ho : IsOwnerLayout own) (r c r' c' : Nat)
    (hr : r < own.nr) (hc : c < own.nc) (hr' : r' < own.nr) (hc' : c' < own.nc)
    (e : own.addr r c = own.addr r' c') : r = r' ∧ c = c' := by
  rcases ho with ⟨nr, nc, rfl⟩ | ⟨n, rfl⟩ | ⟨n, rfl⟩ | ⟨nr, nc, rfl⟩
  · simp only [AView.ownerMatrix, AView.addr] at *
    have h1 : (r + c * nr) % nr = (r' + c' * nr) % nr := by
      have : r + c * nr = r' + c' * nr := by omega
      rw [this]
    rw [Nat.add_mul_mod_self_right, Nat.add_mul_mod_self_right, Nat.mod_eq_of_lt hr, Nat.mod_eq_of_lt hr'] at h1
    subst h1
    have h2 : c * nr = c' * nr := by omega
    exact ⟨rfl, Nat.eq_of_mul_eq_mul_right (by omega) h2⟩
  · simp only [AView.ownerVector, AView.addr] at *; omega
  · simp only [AView.ownerRowVector, AView.addr] at *; omega
  · simp only [AView.ownerMatrixRowOrder, AView.addr] at *
    have h1 : (c + r * nc) % nc = (c' + r' * nc) % nc := by
      have : c + r * nc = c' + r' * nc := by omega
      rw [this]
    rw [Nat.add_mul_mod_self_right, Nat.add_mul_mod_self_right, Nat.mod_eq_of_lt hc, Nat.mod_eq_of_lt hc'] at h1
    subst h1
    have h2 : r * nc = r' * nc := by omega
    exact ⟨Nat.eq_of_mul_eq_mul_right (by omega) h2, rfl⟩

theorem owner_addr_in_bounds (own : AView) (ho : IsOwnerLayout own) (r c : Nat) (hr : r < own.nr) (hc : c < own.nc) :
    own.addr r c < own.nr * own.nc := by
  rcases ho with ⟨nr, nc, rfl⟩ | ⟨n, rfl⟩ | ⟨n, rfl⟩ | ⟨nr, nc, rfl⟩
  · simp only [AView.ownerMatrix, AView.addr] at *
    have h1 : (c + 1) * nr ≤ nc * nr := Nat.mul_le_mul_right nr (by omega)
    have h2 : (c + 1) * nr = c * nr + nr := by ring
    have h3 : nr * nc = nc * nr := Nat.mul_comm _ _
    omega
  · simp only [AView.ownerVector, AView.addr] at *; omega
  · simp only [AView.ownerRowVector, AView.addr] at *; omega
  · simp only [AView.ownerMatrixRowOrder, AView.addr] at *
    have h1 : (r + 1) * nc ≤ nr * nc := Nat.mul_le_mul_right nc (by omega)
    have h2 : (r + 1) * nc = r * nc + nc := by ring
    omega

/-- **view_injective**: through any legal view expression on an owner, distinct view elements live in distinct
store cells (`resolve` is what the executable model and the driver use). -/
theorem view_injective (own : AView) (ho : IsOwnerLayout own) (ops : List VOp) (hl : legalAll ops own.shape = true)
    (i j i' j' : Nat) (hi : i < (resolve own ops).nr) (hj : j < (resolve own ops).nc)
    (hi' : i' < (resolve own ops).nr) (hj' : j' < (resolve own ops).nc)
    (e : (resolve own ops).addr i j = (resolve own ops).addr i' j') : i = i' ∧ j = j' := by
  have key : ∀ (nr nc : Nat) (ad : Nat → Nat → Nat), (nr, nc) = shapeOf ops own.shape →
      (∀ a b, a < nr → b < nc → ad a b = own.addr (mapAll ops (a, b)).1 (mapAll ops (a, b)).2) →
      i < nr → j < nc → i' < nr → j' < nc → ad i j = ad i' j' → i = i' ∧ j = j' := by
    intro nr nc ad hs had hi hj hi' hj' e
    rw [had i j hi hj, had i' j' hi' hj'] at e
    have s1 : nr = (shapeOf ops own.shape).1 := by rw [← hs]
    have s2 : nc = (shapeOf ops own.shape).2 := by rw [← hs]
    obtain ⟨a1, a2⟩ := mapAll_in_range ops own.shape hl (i, j) (by simpa [← s1] using hi) (by simpa [← s2] using hj)
    obtain ⟨b1, b2⟩ := mapAll_in_range ops own.shape hl (i', j') (by simpa [← s1] using hi') (by simpa [← s2] using hj')
    obtain ⟨e1, e2⟩ := owner_addr_injective own ho _ _ _ _ a1 a2 b1 b2 e
    have := mapAll_injective ops own.shape hl (i, j) (i', j') (by simpa [← s1] using hi) (by simpa [← s2] using hj)
      (by simpa [← s1] using hi') (by simpa [← s2] using hj') (Prod.ext e1 e2)
    simpa using this
  unfold resolve at hi hj hi' hj' e
  cases hv : own.applyAll ops with
  | some w =>
    rw [hv] at hi hj hi' hj' e
    obtain ⟨s, _, a⟩ := view_compose_all ops own w hv hl
    exact key w.nr w.nc w.addr (by rw [← s]; rfl) a hi hj hi' hj' e
  | none =>
    rw [hv] at hi hj hi' hj' e
    exact key _ _ _ rfl (fun a b _ _ => rfl) hi hj hi' hj' e

/-- every element of a legal view lies inside the owner's store -/
theorem view_in_bounds (own : AView) (ho : IsOwnerLayout own) (ops : List VOp) (hl : legalAll ops own.shape = true)
    (i j : Nat) (hi : i < (resolve own ops).nr) (hj : j < (resolve own ops).nc) :
    (resolve own ops).addr i j < own.nr * own.nc := by
  unfold resolve at hi hj ⊢
  cases hv : own.applyAll ops with
  | some w =>
    rw [hv] at hi hj
    obtain ⟨s, _, a⟩ := view_compose_all ops own w hv hl
    simp only
    rw [a i j hi hj]
    have s1 : w.nr = (shapeOf ops own.shape).1 := by rw [← s]; rfl
    have s2 : w.nc = (shapeOf ops own.shape).2 := by rw [← s]; rfl
    obtain ⟨a1, a2⟩ := mapAll_in_range ops own.shape hl (i, j) (by simpa [← s1] using hi) (by simpa [← s2] using hj)
    exact owner_addr_in_bounds own ho _ _ a1 a2
  | none =>
    rw [hv] at hi hj
    obtain ⟨a1, a2⟩ := mapAll_in_range ops own.shape hl (i, j) hi hj
    exact owner_addr_in_bounds own ho _ _ a1 a2

theorem owner_not_negated (own : AView) (ho : IsOwnerLayout own) : own.neg = false := by
  rcases ho with ⟨nr, nc, rfl⟩ | ⟨n, rfl⟩ | ⟨n, rfl⟩ | ⟨nr, nc, rfl⟩ <;> rfl

/-- `resolve` yields the logical shape and sign of the expression (whichever route it takes) -/
theorem resolve_shape (own : AView) (ho : IsOwnerLayout own) (ops : List VOp) (hl : legalAll ops own.shape = true) :
    ((resolve own ops).nr, (resolve own ops).nc) = shapeOf ops own.shape ∧ (resolve own ops).neg = negAll ops := by
  unfold resolve
  cases hv : own.applyAll ops with
  | some w =>
    obtain ⟨s, n, _⟩ := view_compose_all ops own w hv hl
    rw [owner_not_negated own ho, Bool.xor_false] at n
    exact ⟨s, n⟩
  | none => exact ⟨rfl, rfl⟩

/-- the store address of every in-range element of a legal view expression, whichever route `resolve` takes -/
theorem resolve_addr (own : AView) (ops : List VOp) (hl : legalAll ops own.shape = true)
    (i j : Nat) (hi : i < (resolve own ops).nr) (hj : j < (resolve own ops).nc) :
    (resolve own ops).addr i j = own.addr (mapAll ops (i, j)).1 (mapAll ops (i, j)).2 := by
  unfold resolve at hi hj ⊢
  cases hv : own.applyAll ops with
  | some w =>
    rw [hv] at hi hj
    obtain ⟨_, _, a⟩ := view_compose_all ops own w hv hl
    exact a i j hi hj
  | none => rfl

theorem mapAll_append (ops : List VOp) (op : VOp) (p : Nat × Nat) : mapAll (ops ++ [op]) p = mapAll ops (op.map p) := by
  induction ops with
  | nil => rfl
  | cons o rest ih => simp only [List.cons_append, mapAll, ih]

theorem shapeOf_append (ops : List VOp) (op : VOp) (s : Nat × Nat) : shapeOf (ops ++ [op]) s = op.shape (shapeOf ops s) := by
  induction ops generalizing s with
  | nil => rfl
  | cons o rest ih => simp only [List.cons_append, shapeOf, ih]

theorem legalAll_append (ops : List VOp) (op : VOp) (s : Nat × Nat) :
    legalAll (ops ++ [op]) s = (legalAll ops s && op.legal (shapeOf ops s)) := by
  induction ops generalizing s with
  | nil => simp [legalAll, shapeOf]
  | cons o rest ih => simp only [List.cons_append, legalAll, shapeOf, ih, Bool.and_assoc]

theorem negAll_append (ops : List VOp) (op : VOp) : negAll (ops ++ [op]) = xor (negAll ops) op.flipsSign := by
  induction ops with
  | nil => simp [negAll]
  | cons o rest ih =>
    simp only [List.cons_append, negAll, ih]
    cases o.flipsSign <;> cases negAll rest <;> cases op.flipsSign <;> rfl

/-- **a view of a view denotes the composed matrix (value level)**: element (i,j) read through `expr/op` is the
element `op.map (i,j)` read through `expr` (negated if `op` is `negate`), for every store and every legal expression. -/
theorem view_denotes {K : Type} [InvolutiveNeg K] [OfNat K 0] (s : Array K) (own : AView) (ho : IsOwnerLayout own)
    (ops : List VOp) (op : VOp) (hl : legalAll (ops ++ [op]) own.shape = true) (i j : Nat)
    (hi : i < (resolve own (ops ++ [op])).nr) (hj : j < (resolve own (ops ++ [op])).nc) :
    rget s (resolve own (ops ++ [op])) i j =
      (if op.flipsSign then -(rget s (resolve own ops) (op.map (i, j)).1 (op.map (i, j)).2)
       else rget s (resolve own ops) (op.map (i, j)).1 (op.map (i, j)).2) := by
  have hl' := hl
  rw [legalAll_append, Bool.and_eq_true] at hl'
  obtain ⟨hl1, hl2⟩ := hl'
  obtain ⟨sh2, ng2⟩ := resolve_shape own ho (ops ++ [op]) hl
  obtain ⟨sh1, ng1⟩ := resolve_shape own ho ops hl1
  rw [shapeOf_append] at sh2
  have hi2 : (i, j).1 < (op.shape (shapeOf ops own.shape)).1 := by rw [← sh2]; exact hi
  have hj2 : (i, j).2 < (op.shape (shapeOf ops own.shape)).2 := by rw [← sh2]; exact hj
  obtain ⟨r1, r2⟩ := map_in_range op _ hl2 (i, j) hi2 hj2
  have r1' : (op.map (i, j)).1 < (resolve own ops).nr := by
    have : (resolve own ops).nr = (shapeOf ops own.shape).1 := by rw [← sh1]
    rw [this]; exact r1
  have r2' : (op.map (i, j)).2 < (resolve own ops).nc := by
    have : (resolve own ops).nc = (shapeOf ops own.shape).2 := by rw [← sh1]
    rw [this]; exact r2
  unfold rget
  rw [resolve_addr own (ops ++ [op]) hl i j hi hj, resolve_addr own ops hl1 _ _ r1' r2', mapAll_append, ng2, ng1,
    negAll_append]
  cases negAll ops <;> cases op.flipsSign <;> simp

/-- `~A` denotes the transposed matrix, a block denotes the sub-matrix, `-A` the negated matrix -/
theorem view_denotes_transpose {K : Type} [InvolutiveNeg K] [OfNat K 0] (s : Array K) (own : AView) (ho : IsOwnerLayout own)
    (ops : List VOp) (hl : legalAll (ops ++ [.transpose]) own.shape = true) (i j : Nat)
    (hi : i < (resolve own (ops ++ [.transpose])).nr) (hj : j < (resolve own (ops ++ [.transpose])).nc) :
    (denseOf s (resolve own (ops ++ [.transpose]))).el i j = (denseOf s (resolve own ops)).transpose.el i j := by
  have := view_denotes s own ho ops .transpose hl i j hi hj
  simpa [denseOf, Dense.transpose, VOp.flipsSign, VOp.map] using this

theorem view_denotes_block {K : Type} [InvolutiveNeg K] [OfNat K 0] (s : Array K) (own : AView) (ho : IsOwnerLayout own)
    (ops : List VOp) (i0 j0 m n : Nat) (hl : legalAll (ops ++ [.block i0 j0 m n]) own.shape = true) (i j : Nat)
    (hi : i < (resolve own (ops ++ [.block i0 j0 m n])).nr) (hj : j < (resolve own (ops ++ [.block i0 j0 m n])).nc) :
    (denseOf s (resolve own (ops ++ [.block i0 j0 m n]))).el i j = (denseOf s (resolve own ops)).el (i0 + i) (j0 + j) := by
  have := view_denotes s own ho ops (.block i0 j0 m n) hl i j hi hj
  simpa [denseOf, VOp.flipsSign, VOp.map] using this

theorem view_denotes_negate {K : Type} [InvolutiveNeg K] [OfNat K 0] (s : Array K) (own : AView) (ho : IsOwnerLayout own)
    (ops : List VOp) (hl : legalAll (ops ++ [.negate]) own.shape = true) (i j : Nat)
    (hi : i < (resolve own (ops ++ [.negate])).nr) (hj : j < (resolve own (ops ++ [.negate])).nc) :
    (denseOf s (resolve own (ops ++ [.negate]))).el i j = -((denseOf s (resolve own ops)).el i j) := by
  have := view_denotes s own ho ops .negate hl i j hi hj
  simpa [denseOf, VOp.flipsSign, VOp.map] using this

/-- **`index()` as coded versus as documented** (column source): the address `getElt_(0) + eltSize*ix[k]` the C++
computes equals the documented one exactly when the selected index is 0 or the source stride is 1 — the known
finding `VectorBase.index.noncontiguous_source.equals_dense` as a statement about the model. -/
theorem index_as_coded_iff (v : AView) (ix : List Nat) (k : Nat) :
    v.indexAsCoded ix k = v.indexDocumented false ix k ↔ (ix.getD k 0 = 0 ∨ v.rs = 1) := by
  simp only [AView.indexAsCoded, AView.indexDocumented, AView.addr, Bool.false_eq_true, if_false]
  generalize ix.getD k 0 = x
  constructor
  · intro h
    have h2 : x * v.rs = x * 1 := by omega
    rcases Nat.eq_zero_or_pos x with hx | hx
    · exact Or.inl hx
    · exact Or.inr (Nat.eq_of_mul_eq_mul_left hx h2)
  · rintro (h | h)
    · subst h; simp
    · rw [h]; simp

/-- the concrete instance of the finding: `m.diag().index({1,3})` of a 4×5 column-ordered matrix addresses cells 1 and 3
(elements (1,0), (3,0)) instead of cells 5 and 15 (elements (1,1), (3,3)) -/
example : ((AView.ownerMatrix 4 5).diag.indexAsCoded [1, 3] 0, (AView.ownerMatrix 4 5).diag.indexAsCoded [1, 3] 1) = (1, 3) ∧
    ((AView.ownerMatrix 4 5).diag.indexDocumented false [1, 3] 0, (AView.ownerMatrix 4 5).diag.indexDocumented false [1, 3] 1)
      = (5, 15) := by decide

/-- **write_through_view_changes_exactly_viewed**: writing `f i j` through a view whose elements live in
pairwise distinct in-bounds store cells (true of every legal view of an owner: `view_injective`,
`view_in_bounds`) leaves the store size unchanged, puts (the sign-adjusted) `f i j` into the cell of every viewed
element, and leaves every other cell of the store untouched. -/
theorem write_through_view_changes_exactly_viewed {K : Type} [Neg K] [OfNat K 0] (s : Array K) (v : RView)
    (f : Nat → Nat → K)
    (hinj : ∀ i j i' j', i < v.nr → j < v.nc → i' < v.nr → j' < v.nc → v.addr i j = v.addr i' j' → i = i' ∧ j = j')
    (hin : ∀ i j, i < v.nr → j < v.nc → v.addr i j < s.size) :
    (writeView s v f).size = s.size ∧
    (∀ i j, i < v.nr → j < v.nc →
        (writeView s v f).getD (v.addr i j) 0 = (if v.neg then -(f i j) else f i j)) ∧
    (∀ a, (∀ i j, i < v.nr → j < v.nc → v.addr i j ≠ a) → (writeView s v f).getD a 0 = s.getD a 0) := by
  have hnd : ((indexPairs v.nr v.nc).map (fun p : Nat × Nat => v.addr p.1 p.2)).Nodup := by
    refine List.Nodup.map_on ?_ (nodup_indexPairs v.nr v.nc)
    intro p hp q hq e
    obtain ⟨p1, p2⟩ := mem_indexPairs.mp hp
    obtain ⟨q1, q2⟩ := mem_indexPairs.mp hq
    obtain ⟨e1, e2⟩ := hinj _ _ _ _ p1 p2 q1 q2 e
    exact Prod.ext e1 e2
  have hb : ∀ p ∈ indexPairs v.nr v.nc, (fun p : Nat × Nat => v.addr p.1 p.2) p < s.size := by
    intro p hp
    obtain ⟨p1, p2⟩ := mem_indexPairs.mp hp
    exact hin _ _ p1 p2
  obtain ⟨h1, h2, h3⟩ := foldl_set_spec (fun p : Nat × Nat => v.addr p.1 p.2)
    (fun p : Nat × Nat => if v.neg then -(f p.1 p.2) else f p.1 p.2) (0 : K) (indexPairs v.nr v.nc) s hnd hb
  refine ⟨h1, ?_, ?_⟩
  · intro i j hi hj
    exact h2 (i, j) (mem_indexPairs.mpr ⟨hi, hj⟩)
  · intro a ha
    exact h3 a (fun p hp => by
      obtain ⟨p1, p2⟩ := mem_indexPairs.mp hp
      exact ha _ _ p1 p2)

/-- reading back through the same view returns exactly what was written (over any ring, where `-(-x) = x`) -/
theorem read_after_write {K : Type} [InvolutiveNeg K] [OfNat K 0] (s : Array K) (v : RView) (f : Nat → Nat → K)
    (hinj : ∀ i j i' j', i < v.nr → j < v.nc → i' < v.nr → j' < v.nc → v.addr i j = v.addr i' j' → i = i' ∧ j = j')
    (hin : ∀ i j, i < v.nr → j < v.nc → v.addr i j < s.size) (i j : Nat) (hi : i < v.nr) (hj : j < v.nc) :
    rget (writeView s v f) v i j = f i j := by
  obtain ⟨_, h2, _⟩ := write_through_view_changes_exactly_viewed s v f hinj hin
  unfold rget
  simp only [h2 i j hi hj]
  cases v.neg <;> simp

/-- non-vacuity: the hypotheses hold for a transposed block of a 3×4 owner, whose cells are then exactly written -/
example : ∀ i j i' j', i < 2 → j < 2 → i' < 2 → j' < 2 →
    (resolve (AView.ownerMatrix 3 4) [.transpose, .block 1 0 2 2]).addr i j =
    (resolve (AView.ownerMatrix 3 4) [.transpose, .block 1 0 2 2]).addr i' j' → i = i' ∧ j = j' := by
  intro i j i' j' hi hj hi' hj' e
  exact view_injective (AView.ownerMatrix 3 4) (Or.inl ⟨3, 4, rfl⟩) [.transpose, .block 1 0 2 2] (by decide)
    i j i' j' hi hj hi' hj' e

/-- **transpose_involutive** (physical descriptor, dense value, index map) -/
theorem transpose_involutive (v : AView) : v.transpose.transpose = v := by
  cases v; rfl

theorem transpose_map_involutive (p : Nat × Nat) : VOp.transpose.map (VOp.transpose.map p) = p := by
  obtain ⟨i, j⟩ := p; rfl

theorem dense_transpose_involutive {K : Type} (a : Dense K) : a.transpose.transpose = a := by
  cases a; rfl

theorem negate_involutive (v : AView) : v.negate.negate = v := by
  cases v with
  | mk off nr nc rs cs neg => cases neg <;> rfl

/-- **block_of_transpose**: the (i,j,m,n) block of `~A` is the transpose of the (j,i,n,m) block of `A`: same
shape, same sign, same store cell for every element. -/
theorem block_of_transpose (v : AView) (i0 j0 m n : Nat) :
    (v.transpose.block i0 j0 m n).shape = ((v.block j0 i0 n m).transpose).shape ∧
    (v.transpose.block i0 j0 m n).neg = ((v.block j0 i0 n m).transpose).neg ∧
    ∀ i j, i < m → j < n →
      (v.transpose.block i0 j0 m n).addr i j = ((v.block j0 i0 n m).transpose).addr i j := by
  unfold AView.block AView.transpose
  by_cases hn : n = 1 <;> by_cases hm : m = 1 <;> simp only [hn, hm, if_true, if_false, AView.shape, AView.addr]
  · refine ⟨trivial, trivial, ?_⟩
    intro i j hi hj
    have : i = 0 := by omega
    subst this
    have : j = 0 := by omega
    subst this; ring
  · refine ⟨trivial, trivial, ?_⟩
    intro i j _ hj
    have : j = 0 := by omega
    subst this; ring
  · refine ⟨trivial, trivial, ?_⟩
    intro i j hi _
    have : i = 0 := by omega
    subst this; ring
  · refine ⟨trivial, trivial, ?_⟩
    intro i j _ _; ring

/-- the same statement for the index maps: taking a block of a transpose = transposing the mirrored block -/
theorem block_of_transpose_map (i0 j0 m n : Nat) (p : Nat × Nat) :
    mapAll [.transpose, .block i0 j0 m n] p = mapAll [.block j0 i0 n m, .transpose] p := by
  obtain ⟨i, j⟩ := p; rfl

/-- the diagonal of `~A` is the diagonal of `A` -/
theorem diag_of_transpose (v : AView) : v.transpose.diag = { v.diag with nr := min v.nc v.nr } := by
  cases v with
  | mk off nr nc rs cs neg => simp [AView.transpose, AView.diag, Nat.add_comm]

/-! ## Part II — fixed-size arithmetic over an arbitrary commutative ring / field -/

section ring
variable {R : Type} [CommRing R]

/-- **det_mul** 2×2 -/
theorem det_mul_2 (a b : M22 R) : (a.mul b).det = a.det * b.det := by
  simp only [M22.mul, M22.det]; ring

/-- **det_mul** 3×3 -/
theorem det_mul_3 (a b : M33 R) : (a.mul b).det = a.det * b.det := by
  simp only [M33.mul, M33.det]; ring

theorem det_transpose_3 (a : M33 R) : a.transpose.det = a.det := by
  simp only [M33.transpose, M33.det]; ring

theorem det_neg_3 (a : M33 R) : a.neg.det = -a.det := by
  simp only [M33.neg, M33.det]; ring

omit [CommRing R] in
theorem mat33_transpose_involutive (a : M33 R) : a.transpose.transpose = a := by cases a; rfl

theorem mat33_transpose_mul (a b : M33 R) : (a.mul b).transpose = b.transpose.mul a.transpose := by
  simp only [M33.mul, M33.transpose, M33.mk.injEq]
  refine ⟨?_, ?_, ?_, ?_, ?_, ?_, ?_, ?_, ?_⟩ <;> ring

/-- the recursive template determinant (Laplace expansion along the first row) is the closed formula -/
theorem detN_two (a b c d : R) : detN 2 [[a, b], [c, d]] = (M22.mk a b c d).det := by
  simp [detN, dropNth, List.range, List.range.loop, M22.det]; ring1

theorem detN_three (m : M33 R) :
    detN 3 [[m.a00, m.a01, m.a02], [m.a10, m.a11, m.a12], [m.a20, m.a21, m.a22]] = m.det := by
  simp [detN, dropNth, List.range, List.range.loop, M33.det]; ring1

/-- **the recursive determinant where the C++ really recurses (M = 4)** is multiplicative and transpose-invariant;
at M = 5, 6 the expansion of an upper-triangular matrix is the product of its diagonal -/
theorem detN_four_mul (a b : Fin 16 → R) : detN 4 (lmul 4 4 (m4 a) (m4 b)) = detN 4 (m4 a) * detN 4 (m4 b) :=
  detN_four_mul_lemma a b

theorem detN_four_transpose (a : Fin 16 → R) : detN 4 (m4 a) = detN 4 (ltranspose 4 4 (m4 a)) :=
  detN_four_transpose_lemma a

theorem detN_triangular_5_6 (d1 d2 d3 d4 d5 d6 a b c e f g h i j k l m n o p : R) :
    detN 5 [[d1, a, b, c, e], [0, d2, f, g, h], [0, 0, d3, i, j], [0, 0, 0, d4, k], [0, 0, 0, 0, d5]] = d1 * d2 * d3 * d4 * d5 ∧
    detN 6 [[d1, a, b, c, e, l], [0, d2, f, g, h, m], [0, 0, d3, i, j, n], [0, 0, 0, d4, k, o], [0, 0, 0, 0, d5, p],
            [0, 0, 0, 0, 0, d6]] = d1 * d2 * d3 * d4 * d5 * d6 :=
  ⟨detN_five_triangular_lemma .., detN_six_triangular_lemma ..⟩

/-- the packed symmetric determinant is the determinant of the full symmetric matrix -/
theorem symmat33_det (s : S33 R) : s.det = s.toM33.det := by
  simp only [S33.det, S33.toM33, M33.det]

/-- cross products: `a×b ⟂ a`, `a×b ⟂ b` -/
theorem cross_perp_left (a b : V3 R) : (a.cross b).dot a = 0 := by
  simp only [V3.cross, V3.dot]; ring

theorem cross_perp_right (a b : V3 R) : (a.cross b).dot b = 0 := by
  simp only [V3.cross, V3.dot]; ring

theorem cross_anticomm (a b : V3 R) : a.cross b = (b.cross a).neg := by
  simp only [V3.cross, V3.neg, V3.mk.injEq]
  refine ⟨?_, ?_, ?_⟩ <;> ring

/-- Lagrange identity `|a×b|² = |a|²|b|² − (a·b)²` -/
theorem cross_lagrange (a b : V3 R) : (a.cross b).dot (a.cross b) = a.dot a * b.dot b - a.dot b * a.dot b := by
  simp only [V3.cross, V3.dot]; ring

/-- Jacobi identity `a×(b×c) + b×(c×a) + c×(a×b) = 0` -/
theorem cross_jacobi (a b c : V3 R) :
    ((a.cross (b.cross c)).add (b.cross (c.cross a))).add (c.cross (a.cross b)) = ⟨0, 0, 0⟩ := by
  simp only [V3.cross, V3.add, V3.mk.injEq]
  refine ⟨?_, ?_, ?_⟩ <;> ring

/-- `crossMat(a) * b = a × b` -/
theorem crossMat_mulVec (a b : V3 R) : (crossMat a).mulVec b = a.cross b := by
  simp only [crossMat, M33.mulVec, V3.cross, V3.mk.injEq]
  refine ⟨?_, ?_, ?_⟩ <;> ring

theorem cross2_antisymm (a b : V2 R) : a.cross b = -(b.cross a) := by
  simp only [V2.cross]; ring

/-- **negator_algebra**: `negator<N>` behaves as `−N` under every mixed `+`, `−`, `×`, the compound assignments,
construction from a value, and double negation. -/
theorem negator_algebra (l r : Negator R) (p : R) :
    (Negator.recast p).val = -p ∧ (Negator.ofVal p).val = p ∧ l.neg = -l.val ∧ (Negator.recast (Negator.recast p).neg).neg = p ∧
    l.addP p = l.val + p ∧ Negator.pAdd p r = p + r.val ∧ (l.addN r).val = l.val + r.val ∧
    (l.subP p).val = l.val - p ∧ Negator.pSub p r = p - r.val ∧ (l.subN r).val = l.val - r.val ∧
    (l.mulP p).val = l.val * p ∧ (Negator.pMul p r).val = p * r.val ∧ l.mulN r = l.val * r.val ∧
    (l.addAssign p).val = l.val + p ∧ (l.subAssign p).val = l.val - p ∧ (l.mulAssign p).val = l.val * p := by
  simp only [Negator.val, Negator.recast, Negator.ofVal, Negator.neg, Negator.addP, Negator.pAdd, Negator.addN,
    Negator.subP, Negator.pSub, Negator.subN, Negator.mulP, Negator.pMul, Negator.mulN, Negator.addAssign,
    Negator.subAssign, Negator.mulAssign]
  refine ⟨trivial, ?_, ?_, trivial, ?_, ?_, ?_, ?_, ?_, ?_, ?_, ?_, ?_, ?_, ?_, ?_⟩ <;> ring

/-- `Vec<3,negator<Real>>`: the templates instantiated at negated elements compute the same vectors as the plain
formulas on the denoted values. -/
theorem negator_vec3 (a b : V3 (Negator R)) (p : V3 R) (s : R) :
    (V3.recastN p).valN = p.neg ∧
    a.addNP p = a.valN.add p ∧ (a.subNP p).valN = a.valN.sub p ∧ (a.addNN b).valN = a.valN.add b.valN ∧
    (a.crossNP p).valN = a.valN.cross p ∧ (V3.crossPN p b).valN = p.cross b.valN ∧ a.crossNN b = a.valN.cross b.valN ∧
    (a.dotNP p).val = a.valN.dot p ∧ (a.smulN s).valN = a.valN.smul s := by
  refine ⟨?_, ?_, ?_, ?_, ?_, ?_, ?_, ?_, ?_⟩ <;>
    simp only [V3.recastN, V3.valN, V3.neg, V3.addNP, V3.subNP, V3.addNN, V3.crossNP, V3.crossPN, V3.crossNN, V3.dotNP,
      V3.smulN, V3.add, V3.sub, V3.cross, V3.dot, V3.smul, Negator.val, Negator.addP, Negator.subP, Negator.addN,
      Negator.subN, Negator.mulP, Negator.pMul, Negator.mulN, V3.mk.injEq] <;>
    (repeat' apply And.intro) <;> first | trivial | ring1

/-- **conjugate_algebra**: `conjugate<R>` (stored `re`, `negIm`) behaves as the complex conjugate it denotes -/
theorem conjugate_algebra (a c : Conj R) (t : Cx R) :
    (Conj.recast t).val = t.conj ∧ (Conj.ofCx t).val = t ∧
    (a.mulC c).val = a.val.mul c.val ∧ (a.mulX t).val = a.val.mul t ∧
    (a.addC c).val = a.val.add c.val ∧ (a.addX t).val = a.val.add t ∧ (a.subX t).val = a.val.sub t ∧
    a.neg = a.val.neg := by
  obtain ⟨ar, ai⟩ := a
  obtain ⟨cr, ci⟩ := c
  obtain ⟨tr, ti⟩ := t
  refine ⟨?_, ?_, ?_, ?_, ?_, ?_, ?_, ?_⟩ <;>
    simp only [Conj.recast, Conj.ofCx, Conj.val, Conj.mulC, Conj.mulX, Conj.addC, Conj.addX, Conj.subX, Conj.neg,
      Cx.conj, Cx.mul, Cx.add, Cx.sub, Cx.neg, Cx.mk.injEq] <;>
    (repeat' apply And.intro) <;> first | trivial | ring1

end ring

section field
variable {F : Type} [Field F]

/-- **mat33_inv_mul**: the transcribed `inverse(Mat33)` formula times the matrix is the identity whenever the
determinant is not zero. -/
theorem mat33_inv_mul (m : M33 F) (hd : m.det ≠ 0) : m.inverse.mul m = M33.one := by
  obtain ⟨a00, a01, a02, a10, a11, a12, a20, a21, a22⟩ := m
  have hd' : a00 * (a11 * a22 - a12 * a21) + a01 * (a12 * a20 - a10 * a22) + a02 * (a10 * a21 - a11 * a20) ≠ 0 := by
    intro h; apply hd; simp only [M33.det]; linear_combination h
  have h1 := one_div_mul_cancel hd'
  simp only [M33.inverse, M33.mul, M33.one, M33.mk.injEq]
  refine ⟨?_, ?_, ?_, ?_, ?_, ?_, ?_, ?_, ?_⟩ <;> first | ring1 | linear_combination h1

theorem mat33_mul_inv (m : M33 F) (hd : m.det ≠ 0) : m.mul m.inverse = M33.one := by
  obtain ⟨a00, a01, a02, a10, a11, a12, a20, a21, a22⟩ := m
  have hd' : a00 * (a11 * a22 - a12 * a21) + a01 * (a12 * a20 - a10 * a22) + a02 * (a10 * a21 - a11 * a20) ≠ 0 := by
    intro h; apply hd; simp only [M33.det]; linear_combination h
  have h1 := one_div_mul_cancel hd'
  simp only [M33.inverse, M33.mul, M33.one, M33.mk.injEq]
  refine ⟨?_, ?_, ?_, ?_, ?_, ?_, ?_, ?_, ?_⟩ <;> first | ring1 | linear_combination h1

theorem mat22_inv_mul (m : M22 F) (hd : m.det ≠ 0) : m.inverse.mul m = M22.one ∧ m.mul m.inverse = M22.one := by
  obtain ⟨a, b, c, d⟩ := m
  have hd' : a * d - b * c ≠ 0 := by simpa [M22.det] using hd
  have h1 := one_div_mul_cancel hd'
  simp only [M22.inverse, M22.det, M22.mul, M22.one, M22.mk.injEq]
  refine ⟨⟨?_, ?_, ?_, ?_⟩, ⟨?_, ?_, ?_, ?_⟩⟩ <;> first | ring1 | linear_combination h1

/-- the documented `inverse(SymMat33)` (packed) is the inverse of the full symmetric matrix -/
theorem symmat33_inv_mul (s : S33 F) (hd : s.det ≠ 0) : s.inverse.toM33.mul s.toM33 = M33.one := by
  obtain ⟨d0, d1, d2, l10, l20, l21⟩ := s
  have hd' : d0 * (d1 * d2 - l21 * l21) + l10 * (l21 * l20 - l10 * d2) + l20 * (l10 * l21 - d1 * l20) ≠ 0 := by
    intro h; apply hd; simp only [S33.det]; linear_combination h
  have h1 := one_div_mul_cancel hd'
  simp only [S33.inverse, S33.toM33, M33.mul, M33.one, M33.mk.injEq]
  refine ⟨?_, ?_, ?_, ?_, ?_, ?_, ?_, ?_, ?_⟩ <;> first | ring1 | linear_combination h1

/-- non-vacuity of the determinant hypotheses (over ℚ) -/
example : (M33.mk (2 : ℚ) 0 1 1 3 0 0 1 4).det ≠ 0 := by norm_num [M33.det]
example : (S33.ofRows (4 : ℚ) 1 5 2 3 9).det ≠ 0 := by norm_num [S33.det, S33.ofRows]
example : (M22.mk (1 : ℚ) 2 3 4).det ≠ 0 := by norm_num [M22.det]

end field

/-! ## Part III — the packed SymMat storage index -/

theorem tri_total (n : Nat) : n * (n + 1) / 2 = n + tri n := by
  have h := tri_succ n
  unfold tri at h ⊢
  have e : (n + 1) * (n + 1 - 1) = n * (n + 1) := by
    have : n + 1 - 1 = n := by omega
    rw [this]; ring
  rw [e] at h; omega

theorem colStart_find (n : Nat) : ∀ m, m ≤ n → ∀ p, p < colStart n m →
    ∃ j, j < m ∧ colStart n j ≤ p ∧ p < colStart n (j + 1) := by
  intro m
  induction m with
  | zero => intro _ p hp; simp [colStart, tri] at hp
  | succ k ih =>
    intro hk p hp
    rcases Nat.lt_or_ge p (colStart n k) with h | h
    · obtain ⟨j, hj, h1, h2⟩ := ih (by omega) p h
      exact ⟨j, by omega, h1, h2⟩
    · exact ⟨k, by omega, h, hp⟩

/-- **symmat_index**: the packed storage index of `SymMat<n>` (diagonal first, then the strict lower triangle
by columns, `lowerIx`) is a bijection between `{(i,j) | j ≤ i < n}` and `{0 .. n(n+1)/2 − 1}`. -/
theorem symmat_index (n : Nat) :
    (∀ i j, j ≤ i → i < n → symIx n i j < n * (n + 1) / 2) ∧
    (∀ i j i' j', j ≤ i → i < n → j' ≤ i' → i' < n → symIx n i j = symIx n i' j' → i = i' ∧ j = j') ∧
    (∀ k, k < n * (n + 1) / 2 → ∃ i j, j ≤ i ∧ i < n ∧ symIx n i j = k) := by
  rw [tri_total]
  have hlow : ∀ i j, j < i → i < n → lowerIx n i j < tri n := by
    intro i j hji hin
    have h1 := lowerIx_lt_next n i j hji hin
    have h2 := colStart_mono n (j + 1) n (by omega) (le_refl _)
    rw [colStart_last] at h2; omega
  refine ⟨?_, ?_, ?_⟩
  · intro i j hji hin
    unfold symIx
    split
    · omega
    · have := hlow i j (by omega) hin; omega
  · intro i j i' j' hji hin hji' hin' e
    unfold symIx at e
    by_cases h1 : i = j <;> by_cases h2 : i' = j' <;> simp only [h1, h2, if_true, if_false] at e
    · omega
    · omega
    · omega
    · have hj : j < i := by omega
      have hj' : j' < i' := by omega
      have e' : lowerIx n i j = lowerIx n i' j' := by omega
      rcases Nat.lt_trichotomy j j' with hlt | heq | hgt
      · have a := lowerIx_lt_next n i j hj hin
        have b := colStart_mono n (j + 1) j' (by omega) (by omega)
        have c := lowerIx_eq n i' j' hj' hin'
        omega
      · subst heq
        rw [lowerIx_eq n i j hj hin, lowerIx_eq n i' j hj' hin'] at e'
        omega
      · have a := lowerIx_lt_next n i' j' hj' hin'
        have b := colStart_mono n (j' + 1) j (by omega) (by omega)
        have c := lowerIx_eq n i j hj hin
        omega
  · intro k hk
    rcases Nat.lt_or_ge k n with h | h
    · exact ⟨k, k, le_refl _, h, by simp [symIx]⟩
    · have hp : k - n < colStart n n := by rw [colStart_last]; omega
      obtain ⟨j, hj, h1, h2⟩ := colStart_find n n (le_refl _) (k - n) hp
      rw [colStart_succ n j hj] at h2
      refine ⟨j + 1 + (k - n - colStart n j), j, by omega, by omega, ?_⟩
      unfold symIx
      have hne : ¬ (j + 1 + (k - n - colStart n j) = j) := by omega
      simp only [hne, if_false]
      rw [lowerIx_eq n _ j (by omega) (by omega)]
      omega

/-- the concrete layouts the harness observes for n = 3 and n = 4 (row-major list of the packed positions of the
lower-triangle elements (0,0) (1,0) (1,1) (2,0) ...) -/
example : (List.range 3).flatMap (fun i => (List.range (i + 1)).map fun j => symIx 3 i j) = [0, 3, 1, 4, 5, 2] := by decide
example : (List.range 4).flatMap (fun i => (List.range (i + 1)).map fun j => symIx 4 i j) = [0, 4, 1, 5, 7, 2, 6, 8, 9, 3] := by
  decide

/-! ## Part IV — the executed object / view machine (`SimbodyModel/C25_machine.lean`)

`step_inv` and `step_frame` (proved in `C25_machine_lemmas.lean`) are restated here; the write-through theorem is
instantiated to what `step` actually does (`resolveExpr`, `writeRes`, `ownerStore`), and the in-place / producing
operations are shown to store exactly the value of the dense reference operation. -/

section machine
set_option linter.unusedSectionVars false
variable {K : Type} [Add K] [Sub K] [Mul K] [InvolutiveNeg K] [OfNat K 0]

/-- every operation preserves "an owner's store has exactly the cells its layout addresses" -/
theorem step_preserves_store_invariant [Div K] [OfNat K 1] (sc : Scal K) (st : St K) (op : Op K) (h : Inv st) :
    match step sc st op with
    | .ok st' _ _ => Inv st'
    | _ => True := by
  have := step_inv sc st op h
  cases hs : step sc st op <;> simp only [hs, OutInv] at this ⊢ <;> first | exact this | trivial

theorem init_state_invariant : Inv (initSt K) := inv_init

/-- frame: handles an operation does not report are left exactly as they were; the number of handles is constant -/
theorem step_frames_untouched [Div K] [OfNat K 1] (sc : Scal K) (st st' : St K) (op : Op K)
    (res : List (String × Dense K)) (t : List Nat) (h : step sc st op = .ok st' res t) :
    st'.size = st.size ∧ ∀ i : Nat, i ∉ t → st'[i]? = st[i]? := by
  have := step_frame sc st op
  rw [h] at this
  exact this

theorem layoutOf_isOwner (k : Kind) (ro : Bool) (nr nc : Nat) : IsOwnerLayout (layoutOf k ro nr nc) := by
  unfold layoutOf
  cases k
  · cases ro
    · exact Or.inl ⟨nr, nc, rfl⟩
    · exact Or.inr (Or.inr (Or.inr ⟨nr, nc, rfl⟩))
  · exact Or.inr (Or.inl ⟨nr, rfl⟩)
  · exact Or.inr (Or.inr (Or.inl ⟨nc, rfl⟩))

/-- what `resolveExpr` returns: the addressed owner exists, the view is `resolve` of its layout, and `legal` says the
whole expression (handle recipe included) is legal on an owner -/
theorem resolveExpr_spec (st : St K) (e : Expr) (r : Res) (h : resolveExpr st e = some r) :
    ∃ ob, st[r.owner]? = some ob ∧ r.view = resolve ob.layout r.ops ∧
      r.legal = (legalAll r.ops ob.layout.shape && ob.isOwner) := by
  unfold resolveExpr at h
  cases ho : st[e.obj]? with
  | none => simp [ho] at h
  | some o =>
    simp only [ho] at h
    generalize (if o.isOwner = true then e.obj else o.base) = b at h
    cases hob : st[b]? with
    | none => simp [hob] at h
    | some ob =>
      simp only [hob] at h
      cases hx : elabX o.kind e.xs with
      | none => simp [hx] at h
      | some lk =>
        obtain ⟨l, k⟩ := lk
        simp only [hx, Option.some.injEq] at h
        subst h
        exact ⟨ob, hob, rfl, rfl⟩

/-- **write-through, as executed**: for a legal resolved expression in a state satisfying the invariant, no write is
dropped (every viewed cell is inside the store — `rset = setIfInBounds` is harmless only because of this), each
viewed cell receives its value, and no other cell of the owner's store changes. -/
theorem write_through_resolved (st : St K) (hinv : Inv st) (e : Expr) (r : Res) (hr : resolveExpr st e = some r)
    (hleg : r.legal = true) (f : Nat → Nat → K) :
    ∃ ob, st[r.owner]? = some ob ∧
      (∀ i j, i < r.view.nr → j < r.view.nc → r.view.addr i j < ob.store.size) ∧
      (writeView ob.store r.view f).size = ob.store.size ∧
      (∀ i j, i < r.view.nr → j < r.view.nc →
          (writeView ob.store r.view f).getD (r.view.addr i j) 0 = (if r.view.neg then -(f i j) else f i j)) ∧
      (∀ i j, i < r.view.nr → j < r.view.nc → rget (writeView ob.store r.view f) r.view i j = f i j) ∧
      (∀ a, (∀ i j, i < r.view.nr → j < r.view.nc → r.view.addr i j ≠ a) →
          (writeView ob.store r.view f).getD a 0 = ob.store.getD a 0) := by
  obtain ⟨ob, hob, hv, hl⟩ := resolveExpr_spec st e r hr
  rw [hl, Bool.and_eq_true] at hleg
  obtain ⟨hlegal, hown⟩ := hleg
  have hlay : IsOwnerLayout ob.layout := layoutOf_isOwner _ _ _ _
  have hsize : ob.store.size = ob.layout.nr * ob.layout.nc := hinv _ _ hob hown
  have hinj : ∀ i j i' j', i < r.view.nr → j < r.view.nc → i' < r.view.nr → j' < r.view.nc →
      r.view.addr i j = r.view.addr i' j' → i = i' ∧ j = j' := by
    rw [hv]; intro i j i' j' a b c d e
    exact view_injective ob.layout hlay r.ops hlegal i j i' j' a b c d e
  have hin : ∀ i j, i < r.view.nr → j < r.view.nc → r.view.addr i j < ob.store.size := by
    rw [hv, hsize]; intro i j a b
    exact view_in_bounds ob.layout hlay r.ops hlegal i j a b
  obtain ⟨w1, w2, w3⟩ := write_through_view_changes_exactly_viewed ob.store r.view f hinj hin
  exact ⟨ob, hob, hin, w1, w2, fun i j a b => read_after_write ob.store r.view f hinj hin i j a b, w3⟩

/-- after `writeRes` (what every in-place operation ends with) the destination reads back the dense value -/
theorem writeRes_reads_back (st : St K) (hinv : Inv st) (e : Expr) (r : Res) (hr : resolveExpr st e = some r)
    (hleg : r.legal = true) (d : Dense K) (m : Nat) :
    ∃ ob', (writeRes st r d m)[r.owner]? = some ob' ∧
      ∀ i j, i < r.view.nr → j < r.view.nc → rget ob'.store r.view i j = d.el i j := by
  obtain ⟨ob, hob, _, _, _, hread, _⟩ := write_through_resolved st hinv e r hr hleg d.el
  have hlt : r.owner < st.size := by
    rcases Nat.lt_or_ge r.owner st.size with h | h
    · exact h
    · rw [Array.getElem?_eq_none h] at hob; simp at hob
  refine ⟨{ ob with store := writeView ob.store r.view d.el, mag := m }, ?_, hread⟩
  unfold writeRes
  rw [hob]
  simp [Array.set!, Array.getElem?_setIfInBounds, hlt]

/-- **in-place unary operations store the dense reference value** (`fill zero sassign scale negip eadd esubfrom sdiv`
are `unIP` with the corresponding `Dense` function) -/
theorem unIP_refines (st st' : St K) (hinv : Inv st) (d : Expr) (f : Dense K → Dense K) (mag : Nat → Nat)
    (res : List (String × Dense K)) (t : List Nat) (h : unIP st d f mag = .ok st' res t) :
    ∃ rd ob', resolveExpr st d = some rd ∧ st'[rd.owner]? = some ob' ∧
      ∀ i j, i < rd.view.nr → j < rd.view.nc → rget ob'.store rd.view i j = (f (denseRes st rd)).el i j := by
  unfold unIP at h
  split at h
  · rename_i rd hrd
    split at h
    · simp at h
    · rename_i hleg
      dsimp only at h
      split at h
      · simp at h
      · simp only [Outcome.ok.injEq] at h
        obtain ⟨h1, _, _⟩ := h
        subst h1
        have hleg' : rd.legal = true := by simpa using hleg
        obtain ⟨ob', ho', hr'⟩ := writeRes_reads_back st hinv d rd hrd hleg' (f (denseRes st rd)) _
        exact ⟨rd, ob', hrd, ho', hr'⟩
  · simp at h

/-- **in-place binary operations store the dense reference value** (`copy`-into-view, `add sub emul rowscale colscale`
are `binIP` with `Dense.add`, `Dense.sub`, …); source and destination may share the owner when disjoint -/
theorem binIP_refines (st st' : St K) (hinv : Inv st) (d s : Expr) (f : Dense K → Dense K → Dense K)
    (req : Res → Res → Bool) (mag : Nat → Nat → Nat) (res : List (String × Dense K)) (t : List Nat)
    (h : binIP st d s f req mag = .ok st' res t) :
    ∃ rd rs ob', resolveExpr st d = some rd ∧ resolveExpr st s = some rs ∧ st'[rd.owner]? = some ob' ∧
      ∀ i j, i < rd.view.nr → j < rd.view.nc →
        rget ob'.store rd.view i j = (f (denseRes st rd) (denseRes st rs)).el i j := by
  unfold binIP at h
  split at h
  · rename_i rd rs hrd hrs
    split at h
    · simp at h
    · rename_i hc
      dsimp only at h
      split at h
      · simp at h
      · simp only [Outcome.ok.injEq] at h
        obtain ⟨h1, _, _⟩ := h
        subst h1
        have hleg' : rd.legal = true := by
          simp only [Bool.or_eq_true, Bool.not_eq_true', Bool.and_eq_true, not_or] at hc
          have := hc.1.1
          cases hrl : rd.legal <;> simp_all
        obtain ⟨ob', ho', hr'⟩ := writeRes_reads_back st hinv d rd hrd hleg' (f (denseRes st rd) (denseRes st rs)) _
        exact ⟨rd, rs, ob', hrd, hrs, ho', hr'⟩
  · simp at h

/-- a freshly built owner store (construction, reallocating assignment, producers `mul plus minus smul deep`)
reads back, through the owner's own layout, exactly the dense value it was built from -/
theorem ownerStore_reads_back (k : Kind) (ro : Bool) (d : Dense K) (i j : Nat) (hi : i < d.nr) (hj : j < d.nc)
    (hshape : (layoutOf k ro d.nr d.nc).shape = (d.nr, d.nc)) :
    rget (ownerStore k ro d) (resolve (layoutOf k ro d.nr d.nc) []) i j = d.el i j := by
  have hlay := layoutOf_isOwner k ro d.nr d.nc
  have hnr : (resolve (layoutOf k ro d.nr d.nc) []).nr = d.nr := by
    have := (resolve_shape _ hlay [] rfl).1
    simp only [shapeOf, hshape, Prod.mk.injEq] at this; exact this.1
  have hnc : (resolve (layoutOf k ro d.nr d.nc) []).nc = d.nc := by
    have := (resolve_shape _ hlay [] rfl).1
    simp only [shapeOf, hshape, Prod.mk.injEq] at this; exact this.2
  unfold ownerStore
  apply read_after_write
  · intro a b a' b' h1 h2 h3 h4 e
    exact view_injective _ hlay [] rfl a b a' b' h1 h2 h3 h4 e
  · intro a b h1 h2
    have := view_in_bounds _ hlay [] rfl a b h1 h2
    simpa using this
  · rw [hnr]; exact hi
  · rw [hnc]; exact hj

/-- the arithmetic / assignment operations of `step` are by definition the dense reference operations applied through
`unIP` / `binIP` / `produce` (definitional unfoldings, listed so that `unIP_refines`, `binIP_refines`,
`ownerStore_reads_back` can be read as statements about `step`) -/
theorem step_is_dense_reference [Div K] [OfNat K 1] (sc : Scal K) (st : St K) (d s : Expr) (x : K) :
    step sc st (.add d s) = binIP st d s Dense.add sameShape (· + ·) ∧
    step sc st (.sub d s) = binIP st d s Dense.sub sameShape (· + ·) ∧
    step sc st (.emul d s) = binIP st d s Dense.emul sameShape (fun a b => 2 * a * b) ∧
    step sc st (.scale d x) = unIP st d (fun m => m.scale x) (fun m => m * sc.absNat x) ∧
    step sc st (.negip d) = unIP st d Dense.neg id ∧
    step sc st (.fill d x) = unIP st d (fun m => Dense.const m.nr m.nc x) (fun m => max m (sc.absNat x + 3)) ∧
    step sc st (.zero d) = unIP st d (fun m => Dense.const m.nr m.nc 0) id ∧
    step sc st (.eadd d x) = unIP st d (fun m => m.addScalar x) (fun m => m + sc.absNat x + 3) ∧
    step sc st (.esubfrom d x) = unIP st d (fun m => m.subFromScalar x) (fun m => m + sc.absNat x + 3) := by
  refine ⟨rfl, rfl, rfl, rfl, rfl, rfl, rfl, rfl, rfl⟩

end machine

end C25
