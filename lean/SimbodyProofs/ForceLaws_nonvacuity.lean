import SimbodyProofs.ForceLaws_lemmas
import Mathlib.Analysis.Real.Sqrt

/-! Non-vacuity of the hypotheses the force-law theorems put on libm functions: the real square root satisfies `SqrtSpec`. -/
namespace ForceLaws

theorem sqrtSpec_real : SqrtSpec Real.sqrt :=
  ⟨fun _ hx => Real.mul_self_sqrt hx, fun x => Real.sqrt_nonneg x⟩

end ForceLaws
