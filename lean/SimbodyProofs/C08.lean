import SimbodyModel.C08
import Mathlib.Algebra.BigOperators.Fin
import Mathlib.Algebra.BigOperators.Ring.Finset
import Mathlib.Tactic.Ring
import Mathlib.Tactic.LinearCombination
import Mathlib.Tactic.NormNum
import Mathlib.LinearAlgebra.Matrix.Rank
import Mathlib.LinearAlgebra.Matrix.ToLin
import Mathlib.Tactic.FinCases
import Mathlib.Algebra.Order.Field.Rat

/-!
# C08 — constrained forward dynamics satisfies the constraints and Newton's law

Theorems about `SimbodyModel/C08.lean` (`loopFD` = `calcLoopForwardDynamicsOperator`), for every commutative ring `K`,
all sizes `m`, `n`, every `M`, `G`, `f`, `b`; `minv` and `pinv` are arbitrary functions satisfying the stated
contracts (the articulated-body `M⁻¹` operator, and the LAPACK QTZ pseudo-inverse whose *rank decision* is not
modelled — the one partial clause of this property).
-/
namespace C08
open Finset

variable {K : Type} [CommRing K]

theorem sumFin_eq_sum {n : Nat} (f : Fin n → K) : sumFin f = ∑ i, f i := by
  unfold sumFin
  have h : ∀ l : List (Fin n), l.foldr (fun i acc => f i + acc) 0 = (l.map f).sum := by
    intro l; induction l with
    | nil => simp
    | cons a t ih => simp [ih]
  rw [h, Fin.sum_univ_def]

theorem mulVec_apply {m n : Nat} (A : Mat K m n) (x : Vec K n) (i : Fin m) : mulVec A x i = ∑ j, A i j * x j := by
  simp [mulVec, sumFin_eq_sum]
theorem tmulVec_apply {m n : Nat} (A : Mat K m n) (y : Vec K m) (j : Fin n) : tmulVec A y j = ∑ i, A i j * y i := by
  simp [tmulVec, sumFin_eq_sum]
theorem dot_eq {n : Nat} (a b : Vec K n) : dot a b = ∑ i, a i * b i := by simp [dot, sumFin_eq_sum]

theorem mulVec_vsub {m n : Nat} (A : Mat K m n) (x y : Vec K n) : mulVec A (vsub x y) = vsub (mulVec A x) (mulVec A y) := by
  funext i; simp only [mulVec_apply, vsub, mul_sub, Finset.sum_sub_distrib]

/-- `⟪~G λ, u⟫ = ⟪λ, G u⟫` -/
theorem dot_tmulVec {m n : Nat} (G : Mat K m n) (lam : Vec K m) (u : Vec K n) :
    dot (tmulVec G lam) u = dot lam (mulVec G u) := by
  simp only [dot_eq, tmulVec_apply, mulVec_apply, Finset.sum_mul, Finset.mul_sum]
  rw [Finset.sum_comm]
  refine Finset.sum_congr rfl fun i _ => Finset.sum_congr rfl fun j _ => ?_
  ring

/-- `loopFD` is the composition of its four stages (what the driver evaluates one at a time) -/
theorem loopFD_stages {m n : Nat} (minv : Vec K n → Vec K n) (pinv : Vec K m → Vec K m) (G : Mat K m n) (f : Vec K n) (b : Vec K m) :
    loopFD minv pinv G f b =
      ⟨stageUdot0 minv f, stageRhs G (stageUdot0 minv f) b, stageLam pinv (stageRhs G (stageUdot0 minv f) b),
       stageUdot minv G f (stageLam pinv (stageRhs G (stageUdot0 minv f) b))⟩ := rfl

/-- the list-level operator on the enabled rows is `loopFD` on the assembled matrix (definitional) -/
theorem loopFDList_eq {n : Nat} (minv : Vec K n → Vec K n) (pinv : (m : Nat) → Mat K m n → Vec K m → Vec K m)
    (en : List Bool) (rows : List (List K)) (b : List K) (f : Vec K n) :
    loopFDList minv pinv en rows b f =
      (List.ofFn (loopFD minv (pinv _ (ofRows (assemble en rows))) (ofRows (assemble en rows)) f
          (fun i => (assemble en b).getD i.val 0)).udot,
       List.ofFn (loopFD minv (pinv _ (ofRows (assemble en rows))) (ofRows (assemble en rows)) f
          (fun i => (assemble en b).getD i.val 0)).lam) := rfl

/-- Newton's law with multipliers: `M udot + ~G λ = f` whenever `minv` is a right inverse of `M`
(no assumption on `pinv` at all) -/
theorem newton_with_multipliers {m n : Nat} (M : Mat K n n) (minv : Vec K n → Vec K n) (pinv : Vec K m → Vec K m)
    (G : Mat K m n) (f : Vec K n) (b : Vec K m) (hM : ∀ x, mulVec M (minv x) = x) :
    vadd (mulVec M (loopFD minv pinv G f b).udot) (tmulVec G (loopFD minv pinv G f b).lam) = f := by
  funext i; simp only [loopFD, hM, vadd, vsub]; ring

/-- the same as a zero residual (`calcResidualForce`) -/
theorem residual_zero {m n : Nat} (M : Mat K n n) (minv : Vec K n → Vec K n) (pinv : Vec K m → Vec K m)
    (G : Mat K m n) (f : Vec K n) (b : Vec K m) (hM : ∀ x, mulVec M (minv x) = x) :
    residual M G f (loopFD minv pinv G f b).udot (loopFD minv pinv G f b).lam = fun _ => 0 := by
  funext i
  have h := congrFun (newton_with_multipliers M minv pinv G f b hM) i
  simp only [residual, vsub]; rw [h]; ring

/-- the acceleration constraints hold, `G udot = b`, for every consistent right-hand side: it suffices that `pinv` is
a generalized inverse of `A = G M⁻¹ ~G` on its range (`A A⁺ A = A`) and that `rhs ∈ range A` -/
theorem aerr_zero_of_consistent {m n : Nat} (minv : Vec K n → Vec K n) (pinv : Vec K m → Vec K m)
    (G : Mat K m n) (f : Vec K n) (b : Vec K m)
    (hlin : ∀ x y, minv (vsub x y) = vsub (minv x) (minv y))
    (hpinv : ∀ y, gMinvGt minv G (pinv (gMinvGt minv G y)) = gMinvGt minv G y)
    (hcons : ∃ y, gMinvGt minv G y = (loopFD minv pinv G f b).rhs) :
    aerr G b (loopFD minv pinv G f b).udot = fun _ => 0 := by
  obtain ⟨y, hy⟩ := hcons
  have hA : gMinvGt minv G (pinv (loopFD minv pinv G f b).rhs) = (loopFD minv pinv G f b).rhs := by
    rw [← hy, hpinv]
  funext i
  have hAi := congrFun hA i
  simp only [loopFD, gMinvGt] at hAi
  simp only [aerr, loopFD, hlin, mulVec_vsub, vsub] at hAi ⊢
  rw [hAi]; ring

/-- the mathematically equivalent statement `G udot = b` -/
theorem constraints_satisfied {m n : Nat} (minv : Vec K n → Vec K n) (pinv : Vec K m → Vec K m)
    (G : Mat K m n) (f : Vec K n) (b : Vec K m)
    (hlin : ∀ x y, minv (vsub x y) = vsub (minv x) (minv y))
    (hpinv : ∀ y, gMinvGt minv G (pinv (gMinvGt minv G y)) = gMinvGt minv G y)
    (hcons : ∃ y, gMinvGt minv G y = (loopFD minv pinv G f b).rhs) :
    mulVec G (loopFD minv pinv G f b).udot = b := by
  funext i
  have h := congrFun (aerr_zero_of_consistent minv pinv G f b hlin hpinv hcons) i
  simp only [aerr, vsub] at h
  linear_combination h

/-- a full-row-rank system is always consistent: if `pinv` is a true right inverse of `A` the hypothesis
`hcons` is automatic -/
theorem consistent_of_right_inverse {m n : Nat} (minv : Vec K n → Vec K n) (pinv : Vec K m → Vec K m)
    (G : Mat K m n) (f : Vec K n) (b : Vec K m) (hA : ∀ r, gMinvGt minv G (pinv r) = r) :
    ∃ y, gMinvGt minv G y = (loopFD minv pinv G f b).rhs := ⟨pinv _, hA _⟩


/-! ### disabled constraints: the assembly filter of the executed model -/
section asm
variable {α : Type}

theorem assemble_insert_disabled (en1 en2 : List Bool) (r1 r2 : List α) (x : α) (h : en1.length = r1.length) :
    assemble (en1 ++ false :: en2) (r1 ++ x :: r2) = assemble (en1 ++ en2) (r1 ++ r2) := by
  simp only [assemble, List.zip_append h, List.zip_cons_cons, List.filter_append, List.filter_cons]
  simp

theorem assemble_congr (en : List Bool) (r r' : List α) (hl : r.length = r'.length)
    (h : ∀ i, en.getD i false = true → r[i]? = r'[i]?) : assemble en r = assemble en r' := by
  induction en generalizing r r' with
  | nil => simp [assemble]
  | cons e es ih =>
    cases r with
    | nil => cases r' with
      | nil => rfl
      | cons y ys => simp at hl
    | cons x xs => cases r' with
      | nil => simp at hl
      | cons y ys =>
        have ht : assemble es xs = assemble es ys := ih xs ys (by simpa using hl) (fun i hi => by simpa using h (i + 1) (by simpa using hi))
        cases e with
        | false => simpa [assemble] using ht
        | true =>
          have hx : x = y := by simpa using h 0 (by simp)
          simp only [assemble] at ht ⊢
          simp [hx, ht]
end asm

/-- **disabled constraints have no effect**: deleting a disabled constraint equation (row `x` of `G`, entry `y` of `b`,
wherever it sits in the list of all constraint equations) leaves every result of the forward-dynamics operator unchanged.
About the executed `loopFDList` (the driver runs it on the full constraint matrix exported with all constraints enabled,
plus the mask, and must reproduce the masked system's `udot`, `λ`). -/
theorem disabled_no_effect {n : Nat} (minv : Vec K n → Vec K n) (pinv : (m : Nat) → Mat K m n → Vec K m → Vec K m)
    (en1 en2 : List Bool) (r1 r2 : List (List K)) (x : List K) (b1 b2 : List K) (y : K) (f : Vec K n)
    (hr : en1.length = r1.length) (hb : en1.length = b1.length) :
    loopFDList minv pinv (en1 ++ false :: en2) (r1 ++ x :: r2) (b1 ++ y :: b2) f
      = loopFDList minv pinv (en1 ++ en2) (r1 ++ r2) (b1 ++ b2) f := by
  unfold loopFDList
  rw [assemble_insert_disabled en1 en2 r1 r2 x hr, assemble_insert_disabled en1 en2 b1 b2 y hb]

/-- the data of disabled constraints is never read -/
theorem disabled_data_irrelevant {n : Nat} (minv : Vec K n → Vec K n) (pinv : (m : Nat) → Mat K m n → Vec K m → Vec K m)
    (en : List Bool) (r r' : List (List K)) (b b' : List K) (f : Vec K n)
    (hlr : r.length = r'.length) (hlb : b.length = b'.length)
    (hr : ∀ i, en.getD i false = true → r[i]? = r'[i]?) (hb : ∀ i, en.getD i false = true → b[i]? = b'[i]?) :
    loopFDList minv pinv en r b f = loopFDList minv pinv en r' b' f := by
  unfold loopFDList
  rw [assemble_congr en r r' hlr hr, assemble_congr en b b' hlb hb]

/-- workless constraints: the constraint power `−⟪~Gλ, u⟫` equals `−⟪λ, G u⟫`, hence vanishes whenever the
(homogeneous) velocity errors `G u` are zero -/
theorem power_eq {m n : Nat} (G : Mat K m n) (lam : Vec K m) (u : Vec K n) : power G lam u = - dot lam (mulVec G u) := by
  simp only [power, dot_tmulVec]

theorem workless_power_zero {m n : Nat} (G : Mat K m n) (lam : Vec K m) (u : Vec K n)
    (hverr : mulVec G u = fun _ => 0) : power G lam u = 0 := by
  rw [power_eq, hverr, dot_eq]; simp


/-! ### consistency in the property's sense (`b ∈ range G`) discharges the hypothesis of `aerr_zero_of_consistent` -/
section bridge
variable {F : Type} [Field F] {m n : Nat}
open Matrix

/-- `range (G W ~G) = range G` when `W` (= `M⁻¹`) is definite (`x·Wx = 0 → x = 0`, true for the inverse of an SPD mass
matrix over an ordered field): so a redundant but consistent constraint set (`b = G x₀`) always has
`rhs = G udot0 − b ∈ range (G M⁻¹ ~G)` -/
theorem range_GWGt (G : Matrix (Fin m) (Fin n) F) (W : Matrix (Fin n) (Fin n) F)
    (hW : ∀ x : Fin n → F, x ⬝ᵥ (W *ᵥ x) = 0 → x = 0) :
    LinearMap.range (G * W * Gᵀ).mulVecLin = LinearMap.range G.mulVecLin := by
  have e : ∀ y, (G * W * Gᵀ) *ᵥ y = G *ᵥ (W *ᵥ (Gᵀ *ᵥ y)) := by
    intro y; simp only [Matrix.mulVec_mulVec, Matrix.mul_assoc]
  have hle : LinearMap.range (G * W * Gᵀ).mulVecLin ≤ LinearMap.range G.mulVecLin := by
    rintro _ ⟨y, rfl⟩
    exact ⟨W *ᵥ (Gᵀ *ᵥ y), by simp only [Matrix.mulVecLin_apply, e]⟩
  have hker : LinearMap.ker (G * W * Gᵀ).mulVecLin = LinearMap.ker Gᵀ.mulVecLin := by
    ext y
    simp only [LinearMap.mem_ker, Matrix.mulVecLin_apply]
    constructor
    · intro h
      apply hW
      have h0 : y ⬝ᵥ ((G * W * Gᵀ) *ᵥ y) = 0 := by rw [h]; simp
      rw [e, Matrix.dotProduct_mulVec, ← Matrix.mulVec_transpose] at h0
      exact h0
    · intro h
      rw [e, h]; simp
  have h1 := LinearMap.finrank_range_add_finrank_ker (G * W * Gᵀ).mulVecLin
  have h2 := LinearMap.finrank_range_add_finrank_ker Gᵀ.mulVecLin
  have h3 : Module.finrank F (LinearMap.range Gᵀ.mulVecLin) = Module.finrank F (LinearMap.range G.mulVecLin) := by
    have := Matrix.rank_transpose G
    simpa [Matrix.rank] using this
  rw [hker] at h1
  exact Submodule.eq_of_le_of_finrank_eq hle (by omega)

/-- the consistency hypothesis of `aerr_zero_of_consistent`, from `b ∈ range G` -/
theorem consistent_of_range_G (G : Matrix (Fin m) (Fin n) F) (W : Matrix (Fin n) (Fin n) F)
    (hW : ∀ x : Fin n → F, x ⬝ᵥ (W *ᵥ x) = 0 → x = 0) (f : Fin n → F) (b : Fin m → F)
    (hb : ∃ x0, G *ᵥ x0 = b) : ∃ y, (G * W * Gᵀ) *ᵥ y = G *ᵥ (W *ᵥ f) - b := by
  obtain ⟨x0, rfl⟩ := hb
  have hmem : G *ᵥ (W *ᵥ f) - G *ᵥ x0 ∈ LinearMap.range G.mulVecLin :=
    ⟨W *ᵥ f - x0, by simp [Matrix.mulVec_sub]⟩
  rw [← range_GWGt G W hW] at hmem
  obtain ⟨y, hy⟩ := hmem
  exact ⟨y, by simpa only [Matrix.mulVecLin_apply] using hy⟩

theorem mulVec_eq (A : Matrix (Fin m) (Fin n) F) (x : Fin n → F) : mulVec A x = A *ᵥ x := by
  funext i; exact (mulVec_apply (K := F) A x i).trans (by simp [Matrix.mulVec, dotProduct])
theorem tmulVec_eq (A : Matrix (Fin m) (Fin n) F) (y : Fin m → F) : tmulVec A y = Aᵀ *ᵥ y := by
  funext j; exact (tmulVec_apply (K := F) A y j).trans (by simp [Matrix.mulVec, dotProduct, Matrix.transpose_apply])

/-- **the acceleration constraints hold for every consistent constraint set, redundant or not**: `M⁻¹ = W` definite,
`pinv` a generalized inverse of `G W ~G` on its range, and consistency in the property's own sense `b ∈ range G`
⇒ `G udot = b` for the executed `loopFD` -/
theorem constraints_satisfied_of_range_G (G : Matrix (Fin m) (Fin n) F) (W : Matrix (Fin n) (Fin n) F)
    (pinv : (Fin m → F) → (Fin m → F)) (f : Fin n → F) (b : Fin m → F)
    (hW : ∀ x : Fin n → F, x ⬝ᵥ (W *ᵥ x) = 0 → x = 0)
    (hpinv : ∀ y, gMinvGt (mulVec W) G (pinv (gMinvGt (mulVec W) G y)) = gMinvGt (mulVec W) G y)
    (hb : ∃ x0, mulVec G x0 = b) :
    mulVec G (loopFD (mulVec W) pinv G f b).udot = b := by
  apply constraints_satisfied (mulVec W) pinv G f b (fun x y => mulVec_vsub W x y) hpinv
  obtain ⟨x0, hx0⟩ := hb
  obtain ⟨y, hy⟩ := consistent_of_range_G G W hW f b ⟨x0, by rw [← mulVec_eq]; exact hx0⟩
  refine ⟨y, ?_⟩
  simp only [gMinvGt, loopFD, mulVec_eq, tmulVec_eq]
  have e : G *ᵥ (W *ᵥ (Gᵀ *ᵥ y)) = (G * W * Gᵀ) *ᵥ y := by simp only [Matrix.mulVec_mulVec, Matrix.mul_assoc]
  rw [e, hy]; rfl

/-- non-vacuity of the definiteness hypothesis: `W = 1` over ℚ -/
example : ∀ x : Fin 2 → ℚ, x ⬝ᵥ ((1 : Matrix (Fin 2) (Fin 2) ℚ) *ᵥ x) = 0 → x = 0 := by
  intro x h
  simp only [Matrix.one_mulVec, dotProduct, Fin.sum_univ_two] at h
  have h' := mul_self_add_mul_self_eq_zero.mp h
  funext i; fin_cases i
  · exact h'.1
  · exact h'.2
end bridge

/-! ### non-vacuity: a 1-constraint, 2-dof example over ℚ with `M = I`, `G = [1 1]` -/
example : ∃ (minv : Vec ℚ 2 → Vec ℚ 2) (pinv : Vec ℚ 1 → Vec ℚ 1) (G : Mat ℚ 1 2),
    (∀ x y, minv (vsub x y) = vsub (minv x) (minv y)) ∧
    (∀ y, gMinvGt minv G (pinv (gMinvGt minv G y)) = gMinvGt minv G y) ∧
    (∀ f b, ∃ y, gMinvGt minv G y = (loopFD minv pinv G f b).rhs) := by
  refine ⟨id, fun r => fun _ => r 0 / 2, fun _ _ => 1, fun _ _ => rfl, ?_, ?_⟩
  · intro y; funext i
    simp [gMinvGt, mulVec_apply, tmulVec_apply]
  · intro f b
    refine ⟨fun _ => ((loopFD id (fun r => fun _ => r 0 / 2) (fun _ _ => (1 : ℚ)) f b).rhs 0) / 2, ?_⟩
    funext i
    have hi : i = 0 := Subsingleton.elim _ _
    subst hi
    simp [gMinvGt, mulVec_apply, tmulVec_apply]
    ring

end C08
