import SimbodyModel.C08
import Mathlib.Algebra.BigOperators.Fin
import Mathlib.Algebra.BigOperators.Ring.Finset
import Mathlib.Tactic.Ring
import Mathlib.Tactic.LinearCombination
import Mathlib.Tactic.NormNum

/-!
# C08 — constrained forward dynamics satisfies the constraints and Newton's law

Theorems about `SimbodyModel/C08.lean` (`loopFD` = `calcLoopForwardDynamicsOperator`), for every commutative ring `K`,
all sizes `m`, `n`, every `M`, `G`, `f`, `b`; `minv` and `pinv` are arbitrary functions satisfying the stated
contracts (the articulated-body `M⁻¹` operator, and the LAPACK QTZ pseudo-inverse whose *rank decision* is not
modelled — the one partial clause of this property).
-/
namespace C08
open Finset

variable {K : Type} [CommRing K]

theorem sumFin_eq_sum {n : Nat} (f : Fin n → K) : sumFin f = ∑ i, f i := by
  unfold sumFin
  have h : ∀ l : List (Fin n), l.foldr (fun i acc => f i + acc) 0 = (l.map f).sum := by
    intro l; induction l with
    | nil => simp
    | cons a t ih => simp [ih]
  rw [h, Fin.sum_univ_def]

theorem mulVec_apply {m n : Nat} (A : Mat K m n) (x : Vec K n) (i : Fin m) : mulVec A x i = ∑ j, A i j * x j := by
  simp [mulVec, sumFin_eq_sum]
theorem tmulVec_apply {m n : Nat} (A : Mat K m n) (y : Vec K m) (j : Fin n) : tmulVec A y j = ∑ i, A i j * y i := by
  simp [tmulVec, sumFin_eq_sum]
theorem dot_eq {n : Nat} (a b : Vec K n) : dot a b = ∑ i, a i * b i := by simp [dot, sumFin_eq_sum]

theorem mulVec_vsub {m n : Nat} (A : Mat K m n) (x y : Vec K n) : mulVec A (vsub x y) = vsub (mulVec A x) (mulVec A y) := by
  funext i; simp only [mulVec_apply, vsub, mul_sub, Finset.sum_sub_distrib]

/-- `⟪~G λ, u⟫ = ⟪λ, G u⟫` -/
theorem dot_tmulVec {m n : Nat} (G : Mat K m n) (lam : Vec K m) (u : Vec K n) :
    dot (tmulVec G lam) u = dot lam (mulVec G u) := by
  simp only [dot_eq, tmulVec_apply, mulVec_apply, Finset.sum_mul, Finset.mul_sum]
  rw [Finset.sum_comm]
  refine Finset.sum_congr rfl fun i _ => Finset.sum_congr rfl fun j _ => ?_
  ring

/-- Newton's law with multipliers: `M udot + ~G λ = f` whenever `minv` is a right inverse of `M`
(no assumption on `pinv` at all) -/
theorem newton_with_multipliers {m n : Nat} (M : Mat K n n) (minv : Vec K n → Vec K n) (pinv : Vec K m → Vec K m)
    (G : Mat K m n) (f : Vec K n) (b : Vec K m) (hM : ∀ x, mulVec M (minv x) = x) :
    vadd (mulVec M (loopFD minv pinv G f b).udot) (tmulVec G (loopFD minv pinv G f b).lam) = f := by
  funext i; simp only [loopFD, hM, vadd, vsub]; ring

/-- the same as a zero residual (`calcResidualForce`) -/
theorem residual_zero {m n : Nat} (M : Mat K n n) (minv : Vec K n → Vec K n) (pinv : Vec K m → Vec K m)
    (G : Mat K m n) (f : Vec K n) (b : Vec K m) (hM : ∀ x, mulVec M (minv x) = x) :
    residual M G f (loopFD minv pinv G f b).udot (loopFD minv pinv G f b).lam = fun _ => 0 := by
  funext i
  have h := congrFun (newton_with_multipliers M minv pinv G f b hM) i
  simp only [residual, vsub]; rw [h]; ring

/-- the acceleration constraints hold, `G udot = b`, for every consistent right-hand side: it suffices that `pinv` is
a generalized inverse of `A = G M⁻¹ ~G` on its range (`A A⁺ A = A`) and that `rhs ∈ range A` -/
theorem aerr_zero_of_consistent {m n : Nat} (minv : Vec K n → Vec K n) (pinv : Vec K m → Vec K m)
    (G : Mat K m n) (f : Vec K n) (b : Vec K m)
    (hlin : ∀ x y, minv (vsub x y) = vsub (minv x) (minv y))
    (hpinv : ∀ y, gMinvGt minv G (pinv (gMinvGt minv G y)) = gMinvGt minv G y)
    (hcons : ∃ y, gMinvGt minv G y = (loopFD minv pinv G f b).rhs) :
    aerr G b (loopFD minv pinv G f b).udot = fun _ => 0 := by
  obtain ⟨y, hy⟩ := hcons
  have hA : gMinvGt minv G (pinv (loopFD minv pinv G f b).rhs) = (loopFD minv pinv G f b).rhs := by
    rw [← hy, hpinv]
  funext i
  have hAi := congrFun hA i
  simp only [loopFD, gMinvGt] at hAi
  simp only [aerr, loopFD, hlin, mulVec_vsub, vsub] at hAi ⊢
  rw [hAi]; ring

/-- the mathematically equivalent statement `G udot = b` -/
theorem constraints_satisfied {m n : Nat} (minv : Vec K n → Vec K n) (pinv : Vec K m → Vec K m)
    (G : Mat K m n) (f : Vec K n) (b : Vec K m)
    (hlin : ∀ x y, minv (vsub x y) = vsub (minv x) (minv y))
    (hpinv : ∀ y, gMinvGt minv G (pinv (gMinvGt minv G y)) = gMinvGt minv G y)
    (hcons : ∃ y, gMinvGt minv G y = (loopFD minv pinv G f b).rhs) :
    mulVec G (loopFD minv pinv G f b).udot = b := by
  funext i
  have h := congrFun (aerr_zero_of_consistent minv pinv G f b hlin hpinv hcons) i
  simp only [aerr, vsub] at h
  linear_combination h

/-- a full-row-rank system is always consistent: if `pinv` is a true right inverse of `A` the hypothesis
`hcons` is automatic -/
theorem consistent_of_right_inverse {m n : Nat} (minv : Vec K n → Vec K n) (pinv : Vec K m → Vec K m)
    (G : Mat K m n) (f : Vec K n) (b : Vec K m) (hA : ∀ r, gMinvGt minv G (pinv r) = r) :
    ∃ y, gMinvGt minv G y = (loopFD minv pinv G f b).rhs := ⟨pinv _, hA _⟩

/-- disabled constraints have no effect: the operator reads only the enabled rows, so any two systems that agree on
the enabled rows (whatever the disabled constraints are, or whether they exist at all) give the same result -/
theorem disabled_no_effect {m m' ma n : Nat} (act : Fin ma → Fin m) (act' : Fin ma → Fin m')
    (minv : Vec K n → Vec K n) (pinv : Vec K ma → Vec K ma)
    (G : Mat K m n) (G' : Mat K m' n) (b : Vec K m) (b' : Vec K m') (f : Vec K n)
    (hG : ∀ k, G (act k) = G' (act' k)) (hb : ∀ k, b (act k) = b' (act' k)) :
    loopFD minv pinv (activeRows act G) f (activeVec act b) = loopFD minv pinv (activeRows act' G') f (activeVec act' b') := by
  have h1 : activeRows act G = activeRows act' G' := by funext k; exact hG k
  have h2 : activeVec act b = activeVec act' b' := by funext k; exact hb k
  rw [h1, h2]

/-- workless constraints: the constraint power `−⟪~Gλ, u⟫` equals `−⟪λ, G u⟫`, hence vanishes whenever the
(homogeneous) velocity errors `G u` are zero -/
theorem power_eq {m n : Nat} (G : Mat K m n) (lam : Vec K m) (u : Vec K n) : power G lam u = - dot lam (mulVec G u) := by
  simp only [power, dot_tmulVec]

theorem workless_power_zero {m n : Nat} (G : Mat K m n) (lam : Vec K m) (u : Vec K n)
    (hverr : mulVec G u = fun _ => 0) : power G lam u = 0 := by
  rw [power_eq, hverr, dot_eq]; simp

/-! ### non-vacuity: a 1-constraint, 2-dof example over ℚ with `M = I`, `G = [1 1]` -/
example : ∃ (minv : Vec ℚ 2 → Vec ℚ 2) (pinv : Vec ℚ 1 → Vec ℚ 1) (G : Mat ℚ 1 2),
    (∀ x y, minv (vsub x y) = vsub (minv x) (minv y)) ∧
    (∀ y, gMinvGt minv G (pinv (gMinvGt minv G y)) = gMinvGt minv G y) ∧
    (∀ f b, ∃ y, gMinvGt minv G y = (loopFD minv pinv G f b).rhs) := by
  refine ⟨id, fun r => fun _ => r 0 / 2, fun _ _ => 1, fun _ _ => rfl, ?_, ?_⟩
  · intro y; funext i
    simp [gMinvGt, mulVec_apply, tmulVec_apply]
  · intro f b
    refine ⟨fun _ => ((loopFD id (fun r => fun _ => r 0 / 2) (fun _ _ => (1 : ℚ)) f b).rhs 0) / 2, ?_⟩
    funext i
    have hi : i = 0 := Subsingleton.elim _ _
    subst hi
    simp [gMinvGt, mulVec_apply, tmulVec_apply]
    ring

end C08
