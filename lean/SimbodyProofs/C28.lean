import SimbodyModel.C28
import SimbodyProofs.Spatial

/-!
# C28 — angular-velocity rate helpers are exact derivatives

Model: `SimbodyModel/C28.lean` (static helpers of `Rotation_` in Rotation.h).  Time derivatives are taken with jets
`K[ε]/(ε²)`: a trig pair `(c,s)` of an angle moving at rate `q̇` is lifted to `(c - ε s q̇, s + ε c q̇)`
(`Trig.lift`; this convention is the definition of "derivative of cos/sin", DESIGN §3.6), the *same* model code is run
on jets, and "X is the time derivative of Y" reads `(Y jets).eps = X`.  "A rotation `R(t)` moves with angular
velocity ω" reads `Ṙ = [ω]× R` (ω in the parent) or `Ṙ = R [ω]×` (ω in the body).
Everything is over an arbitrary field `K`; the only side conditions are `c₁ ≠ 0` (away from the singularity) and
`2 ≠ 0` for the quaternion helpers (which halve).
-/
namespace C28
open Spatial Spatial.Mat33 Spatial.Rotation
variable {K : Type} [Field K]

def TrigValid (t : Trig K) : Prop := t.c * t.c + t.s * t.s = 1

/-! ## Body-fixed XYZ: N and N⁻¹ -/

/-- `N_B · NInv_B = I` and `NInv_B · N_B = I` away from `cos q₁ = 0` -/
theorem N_NInv_body (t1 t2 : Trig K) (h2 : TrigValid t2) (hc : t1.c ≠ 0) :
    (calcNForBodyXYZInBodyFrame t1 t2).mul (calcNInvForBodyXYZInBodyFrame t1 t2) = Mat33.one ∧
    (calcNInvForBodyXYZInBodyFrame t1 t2).mul (calcNForBodyXYZInBodyFrame t1 t2) = Mat33.one := by
  unfold TrigValid at h2
  constructor <;>
    simp only [calcNForBodyXYZInBodyFrame, calcNInvForBodyXYZInBodyFrame, Mat33.mul, Mat33.one, Mat33.diag] <;>
    ext <;> simp only [] <;> field_simp <;>
    first | ring1 | linear_combination h2 | linear_combination t1.c * h2 | linear_combination (-t1.s) * h2

/-- `N_P · NInv_P = I` and `NInv_P · N_P = I` away from `cos q₁ = 0` -/
theorem N_NInv_parent (t0 t1 : Trig K) (h0 : TrigValid t0) (hc : t1.c ≠ 0) :
    (calcNForBodyXYZInParentFrame t0 t1).mul (calcNInvForBodyXYZInParentFrame t0 t1) = Mat33.one ∧
    (calcNInvForBodyXYZInParentFrame t0 t1).mul (calcNForBodyXYZInParentFrame t0 t1) = Mat33.one := by
  unfold TrigValid at h0
  constructor <;>
    simp only [calcNForBodyXYZInParentFrame, calcNInvForBodyXYZInParentFrame, Mat33.mul, Mat33.one, Mat33.diag] <;>
    ext <;> simp only [] <;> field_simp <;>
    first | ring1 | linear_combination h0 | linear_combination t1.c * h0 | linear_combination (-t1.s) * h0

/-- the documented relations `N_B = N_P · R_PB` and `NInv_B = ~R_PB · NInv_P` -/
theorem N_body_eq_N_parent_mul_R (t0 t1 t2 : Trig K) (h0 : TrigValid t0) (h1 : TrigValid t1) (hc : t1.c ≠ 0) :
    calcNForBodyXYZInBodyFrame t1 t2 = (calcNForBodyXYZInParentFrame t0 t1).mul (bodyFixedXYZ t0 t1 t2) ∧
    calcNInvForBodyXYZInBodyFrame t1 t2 = (bodyFixedXYZ t0 t1 t2).transpose.mul (calcNInvForBodyXYZInParentFrame t0 t1) := by
  unfold TrigValid at *
  have e0 : t0.c ^ 2 = 1 - t0.s ^ 2 := by linear_combination h0
  have e1 : t1.c ^ 2 = 1 - t1.s ^ 2 := by linear_combination h1
  constructor <;>
    simp only [calcNForBodyXYZInBodyFrame, calcNForBodyXYZInParentFrame, calcNInvForBodyXYZInBodyFrame,
      calcNInvForBodyXYZInParentFrame, bodyFixedXYZ, Mat33.mul, Mat33.transpose] <;>
    ext <;> simp only [] <;> field_simp <;> ring_nf <;> (try simp only [e0, e1]) <;> ring

/-- the four hand-expanded products equal the dense matrix–vector products with `N_P`, `N_Pᵀ`, `NInv_P`, `NInv_Pᵀ` -/
theorem multiplyBy_eq_dense (t0 t1 : Trig K) (v : Vec3 K) :
    multiplyByBodyXYZ_N_P t0 t1 (1 / t1.c) v = (calcNForBodyXYZInParentFrame t0 t1).mulVec v ∧
    multiplyByBodyXYZ_NT_P t0 t1 (1 / t1.c) v = (calcNForBodyXYZInParentFrame t0 t1).transpose.mulVec v ∧
    multiplyByBodyXYZ_NInv_P t0 t1 v = (calcNInvForBodyXYZInParentFrame t0 t1).mulVec v ∧
    multiplyByBodyXYZ_NInvT_P t0 t1 v = (calcNInvForBodyXYZInParentFrame t0 t1).transpose.mulVec v := by
  refine ⟨?_, ?_, ?_, ?_⟩ <;>
    simp only [multiplyByBodyXYZ_N_P, multiplyByBodyXYZ_NT_P, multiplyByBodyXYZ_NInv_P, multiplyByBodyXYZ_NInvT_P,
      calcNForBodyXYZInParentFrame, calcNInvForBodyXYZInParentFrame, Mat33.mulVec, Mat33.transpose] <;>
    ext <;> simp only [] <;> ring

/-! ## Body-fixed XYZ: q̇ is the derivative of q for a rotation moving with ω -/

/-- **kinematic equation, ω in the parent**: with `q̇ = N_P(q) ω` the rotation `R(q)` satisfies `Ṙ = [ω]× R` -/
theorem xyz_kinematics_parent (t0 t1 t2 : Trig K) (h0 : TrigValid t0) (h1 : TrigValid t1) (hc : t1.c ≠ 0) (w : Vec3 K) :
    let qd := multiplyByBodyXYZ_N_P t0 t1 (1 / t1.c) w
    let R := bodyFixedXYZ (t0.lift qd.x) (t1.lift qd.y) (t2.lift qd.z)
    R.map Jet.eps = (Mat33.crossMat w).mul (R.map Jet.re) := by
  unfold TrigValid at *
  have e0 : t0.c ^ 2 = 1 - t0.s ^ 2 := by linear_combination h0
  have e1 : t1.c ^ 2 = 1 - t1.s ^ 2 := by linear_combination h1
  simp only [multiplyByBodyXYZ_N_P, bodyFixedXYZ, Mat33.map, Mat33.crossMat, Mat33.mul]
  jet_simp
  ext <;> simp only [] <;> field_simp <;> ring_nf <;> (try simp only [e0, e1]) <;> ring

/-- **kinematic equation, ω in the body**: with `q̇ = N_B(q) ω_B` the rotation satisfies `Ṙ = R [ω_B]×` -/
theorem xyz_kinematics_body (t0 t1 t2 : Trig K) (h1 : TrigValid t1) (h2 : TrigValid t2) (hc : t1.c ≠ 0) (w : Vec3 K) :
    let qd := convertAngVelInBodyFrameToBodyXYZDot t1 t2 w
    let R := bodyFixedXYZ (t0.lift qd.x) (t1.lift qd.y) (t2.lift qd.z)
    R.map Jet.eps = (R.map Jet.re).mul (Mat33.crossMat w) := by
  unfold TrigValid at *
  have e1 : t1.c ^ 2 = 1 - t1.s ^ 2 := by linear_combination h1
  have e2 : t2.c ^ 2 = 1 - t2.s ^ 2 := by linear_combination h2
  simp only [convertAngVelInBodyFrameToBodyXYZDot, calcNForBodyXYZInBodyFrame, Mat33.mulVec, bodyFixedXYZ, Mat33.map,
    Mat33.crossMat, Mat33.mul]
  jet_simp
  ext <;> simp only [] <;> field_simp <;> ring_nf <;> (try simp only [e1, e2]) <;> ring

/-- **the property's direction** ("the coordinate derivatives are the true time derivatives of the coordinates of a rotation
moving with the given angular velocity"): for *arbitrary* coordinate rates `q̇`, at every orientation (no singularity:
`NInv` is polynomial), the rotation moves with angular velocity `ω = NInv_P(q) q̇` (parent) / `ω_B = NInv_B(q) q̇` (body).
Together with `N·NInv = 1` this says `q̇ = N ω` is the *only* rate vector producing `ω`. -/
theorem xyz_kinematics_of_rates (t0 t1 t2 : Trig K) (h0 : TrigValid t0) (h1 : TrigValid t1) (h2 : TrigValid t2) (qd : Vec3 K) :
    let R := bodyFixedXYZ (t0.lift qd.x) (t1.lift qd.y) (t2.lift qd.z)
    R.map Jet.eps = (Mat33.crossMat (multiplyByBodyXYZ_NInv_P t0 t1 qd)).mul (R.map Jet.re) ∧
    R.map Jet.eps = (R.map Jet.re).mul (Mat33.crossMat (convertBodyXYZDotToAngVelInBodyFrame t1 t2 qd)) := by
  unfold TrigValid at *
  have e0 : t0.c ^ 2 = 1 - t0.s ^ 2 := by linear_combination h0
  have e1 : t1.c ^ 2 = 1 - t1.s ^ 2 := by linear_combination h1
  have e2 : t2.c ^ 2 = 1 - t2.s ^ 2 := by linear_combination h2
  constructor <;>
    simp only [multiplyByBodyXYZ_NInv_P, convertBodyXYZDotToAngVelInBodyFrame, calcNInvForBodyXYZInBodyFrame,
      Mat33.mulVec, bodyFixedXYZ, Mat33.map, Mat33.crossMat, Mat33.mul] <;>
    jet_simp <;> ext <;> simp only [] <;> ring_nf <;> (try simp only [e0, e1, e2]) <;> ring

/-! ## Body-fixed XYZ: NDot and the second-derivative helpers -/

/-- **`NDot_B` is the time derivative of `N_B`** along any coordinate rates `q̇` -/
theorem NDot_body_is_derivative (t1 t2 : Trig K) (hc : t1.c ≠ 0) (qd : Vec3 K) :
    (calcNForBodyXYZInBodyFrame (t1.lift qd.y) (t2.lift qd.z)).map Jet.eps = calcNDotForBodyXYZInBodyFrame t1 t2 qd := by
  simp only [calcNForBodyXYZInBodyFrame, calcNDotForBodyXYZInBodyFrame, Mat33.map]
  jet_simp
  ext <;> simp only [] <;> field_simp <;> ring

/-- **`NDot_P` is the time derivative of `N_P`** along any coordinate rates `q̇` -/
theorem NDot_parent_is_derivative (t0 t1 : Trig K) (hc : t1.c ≠ 0) (qd : Vec3 K) :
    (calcNForBodyXYZInParentFrame (t0.lift qd.x) (t1.lift qd.y)).map Jet.eps
      = calcNDotForBodyXYZInParentFrame t0 t1 (1 / t1.c) qd := by
  simp only [calcNForBodyXYZInParentFrame, calcNDotForBodyXYZInParentFrame, Mat33.map]
  jet_simp
  ext <;> simp only [] <;> field_simp <;> ring

/-- **`convertAngVelDotInBodyFrameToBodyXYZDotDot` is `d/dt (N_B(q) ω_B)`** with `q̇ = N_B ω_B`, `ω̇_B` given -/
theorem qdotdot_body_is_derivative (t1 t2 : Trig K) (hc : t1.c ≠ 0) (w wdot : Vec3 K) :
    let qd := convertAngVelInBodyFrameToBodyXYZDot t1 t2 w
    ((calcNForBodyXYZInBodyFrame (t1.lift qd.y) (t2.lift qd.z)).mulVec (Vec3.jet w wdot)).map Jet.eps
      = convertAngVelDotInBodyFrameToBodyXYZDotDot t1 t2 w wdot := by
  simp only [convertAngVelInBodyFrameToBodyXYZDot, convertAngVelDotInBodyFrameToBodyXYZDotDot,
    calcNForBodyXYZInBodyFrame, calcNDotForBodyXYZInBodyFrame, Mat33.mulVec, Vec3.map, Vec3.jet, Vec3.add]
  jet_simp
  ext <;> simp only [] <;> field_simp <;> ring

/-- **`convertAngAccInParentToBodyXYZDotDot` is `d/dt (N_P(q) ω)`**: for any rates `q̇`, with `ω = NInv_P q̇` and angular
acceleration `b`, the helper returns the derivative part of `N_P(q + ε q̇) (ω + ε b)` -/
theorem qdotdot_parent_is_derivative (t0 t1 : Trig K) (h0 : TrigValid t0) (h1 : TrigValid t1) (hc : t1.c ≠ 0)
    (qd b : Vec3 K) :
    let w := multiplyByBodyXYZ_NInv_P t0 t1 qd
    ((calcNForBodyXYZInParentFrame (t0.lift qd.x) (t1.lift qd.y)).mulVec (Vec3.jet w b)).map Jet.eps
      = convertAngAccInParentToBodyXYZDotDot t0 t1 (1 / t1.c) qd b := by
  unfold TrigValid at *
  have e0 : t0.c ^ 2 = 1 - t0.s ^ 2 := by linear_combination h0
  have e1 : t1.c ^ 2 = 1 - t1.s ^ 2 := by linear_combination h1
  simp only [multiplyByBodyXYZ_NInv_P, convertAngAccInParentToBodyXYZDotDot, multiplyByBodyXYZ_N_P,
    calcNForBodyXYZInParentFrame, Mat33.mulVec, Vec3.map, Vec3.jet, Vec3.add]
  jet_simp
  have e1' : t1.c ^ 3 = t1.c * (1 - t1.s ^ 2) := by rw [← e1]; ring
  ext <;> simp only [] <;> field_simp <;> ring_nf <;> (try simp only [e0, e1, e1']) <;> ring

/-! ## Body-fixed 3-2-1 -/

/-- `E · Einv = I`, `Einv · E = I` -/
theorem E321_Einv321 (t1 t2 : Trig K) (h2 : TrigValid t2) (hc : t1.c ≠ 0) :
    (E321 t1 t2).mul (Einv321 t1 t2) = Mat33.one ∧ (Einv321 t1 t2).mul (E321 t1 t2) = Mat33.one := by
  unfold TrigValid at h2
  constructor <;> simp only [E321, Einv321, Mat33.mul, Mat33.one, Mat33.diag] <;>
    ext <;> simp only [] <;> field_simp <;>
    first | ring1 | linear_combination h2 | linear_combination t1.c * h2 | linear_combination (-t1.s) * h2
          | linear_combination t1.s * h2

/-- **3-2-1 kinematic equation**: for the body-fixed Z-Y-X rotation, `q̇ = E(q) ω_B` gives `Ṙ = R [ω_B]×` -/
theorem zyx_kinematics_body (t0 t1 t2 : Trig K) (h1 : TrigValid t1) (h2 : TrigValid t2) (hc : t1.c ≠ 0) (w : Vec3 K) :
    let qd := convertAngVelToBodyFixed321Dot t1 t2 w
    let R := fromThreeAngles false (t0.lift qd.x) .Z (t1.lift qd.y) .Y (t2.lift qd.z) .X
    R.map Jet.eps = (R.map Jet.re).mul (Mat33.crossMat w) := by
  unfold TrigValid at *
  have e1 : t1.c ^ 2 = 1 - t1.s ^ 2 := by linear_combination h1
  have e2 : t2.c ^ 2 = 1 - t2.s ^ 2 := by linear_combination h2
  simp [convertAngVelToBodyFixed321Dot, E321, Mat33.mulVec, fromThreeAngles, threeAngleThreeAxesBodyFwd, Mat33.place,
    Mat33.ofFn, Mat33.get, Axis.pos, Axis.isReverseCyclical, Axis.prev, Trig.neg, Mat33.map, Mat33.crossMat, Mat33.mul,
    Trig.lift, -Mat33.mk.injEq]
  ext <;> simp only [] <;> field_simp <;> ring_nf <;> (try simp only [e1, e2]) <;> ring

/-- **`convertAngVelDotToBodyFixed321DotDot` is `d/dt (E(q) ω_B)`** with `q̇ = E ω_B` -/
theorem qdotdot_321_is_derivative (t1 t2 : Trig K) (hc : t1.c ≠ 0) (w wdot : Vec3 K) :
    let qd := convertAngVelToBodyFixed321Dot t1 t2 w
    ((E321 (t1.lift qd.y) (t2.lift qd.z)).mulVec (Vec3.jet w wdot)).map Jet.eps
      = convertAngVelDotToBodyFixed321DotDot t1 t2 w wdot := by
  simp only [convertAngVelToBodyFixed321Dot, convertAngVelDotToBodyFixed321DotDot, E321, Mat33.mulVec, Vec3.map,
    Vec3.jet, Vec3.add]
  jet_simp
  ext <;> simp only [] <;> field_simp <;> ring

/-! ## Quaternions, normalised or not -/

/-- `NInv(q) N(q) = |q|² I` (so `NInv` inverts `N` on unit quaternions) -/
theorem quat_NInv_N (q : Quaternion K) (w : Vec3 K) (h2 : (2 : K) ≠ 0) :
    convertQuaternionDotToAngVel q (convertAngVelToQuaternionDot q w) = Vec3.smul q.normSq w := by
  simp only [convertQuaternionDotToAngVel, convertAngVelToQuaternionDot, calcUnnormalizedNInvForQuaternion,
    calcUnnormalizedNForQuaternion, Mat43.mulVec, Mat34.mulVec, Vec3.dot, Quaternion.dot, Vec3.smul, Quaternion.normSq]
  ext <;> simp only [] <;> field_simp <;> ring

/-- `N(q) NInv(q) q̇ = |q|² q̇ - (q·q̇) q`: the identity on the tangent space `q·q̇ = 0` (and, as documented, not on all
of `K⁴`) -/
theorem quat_N_NInv (q qd : Quaternion K) (h2 : (2 : K) ≠ 0) :
    convertAngVelToQuaternionDot q (convertQuaternionDotToAngVel q qd)
      = (Quaternion.smul q.normSq qd).add (Quaternion.smul (-(q.dot qd)) q) := by
  simp only [convertQuaternionDotToAngVel, convertAngVelToQuaternionDot, calcUnnormalizedNInvForQuaternion,
    calcUnnormalizedNForQuaternion, Mat43.mulVec, Mat34.mulVec, Vec3.dot, Quaternion.dot, Quaternion.smul,
    Quaternion.add, Quaternion.normSq]
  ext <;> simp only [] <;> field_simp <;> ring

/-- the quaternion rate is orthogonal to the quaternion: `|q|` is constant along `q̇ = N(q) ω` -/
theorem quat_norm_constant (q : Quaternion K) (w : Vec3 K) :
    q.dot (convertAngVelToQuaternionDot q w) = 0 := by
  simp only [convertAngVelToQuaternionDot, calcUnnormalizedNForQuaternion, Mat43.mulVec, Vec3.dot, Quaternion.dot]
  ring

/-- **quaternion kinematic equation, any (also un-normalised) `q`**: with `q̇ = N(q) ω` the matrix
`R(q) = setRotationFromQuaternion(q)` satisfies `Ṙ = [ω]× R` -/
theorem quat_kinematics (q : Quaternion K) (w : Vec3 K) (h2 : (2 : K) ≠ 0) :
    let qd := convertAngVelToQuaternionDot q w
    let R := fromQuaternion (Quaternion.jet q qd)
    R.map Jet.eps = (Mat33.crossMat w).mul (R.map Jet.re) := by
  simp only [convertAngVelToQuaternionDot, calcUnnormalizedNForQuaternion, Mat43.mulVec, Vec3.dot, fromQuaternion,
    Quaternion.jet, Mat33.map, Mat33.crossMat, Mat33.mul]
  jet_simp
  ext <;> simp only [] <;> field_simp <;> ring

/-- **`NDot` is the time derivative of `N`** (`N` is linear in `q`) -/
theorem quat_NDot_is_derivative (q qd : Quaternion K) (h2 : (2 : K) ≠ 0) :
    (calcUnnormalizedNForQuaternion (Quaternion.jet q qd)).map Jet.eps = calcUnnormalizedNDotForQuaternion qd := by
  simp only [calcUnnormalizedNDotForQuaternion, calcUnnormalizedNForQuaternion, Quaternion.jet, Mat43.map, Vec3.map]
  jet_simp
  ext <;> simp only [] <;> field_simp <;> ring

/-- **`convertAngVelDotToQuaternionDotDot` is `d/dt (N(q) ω)`** with `q̇ = N(q) ω` and `ω̇ = b`
(in particular `NDot(q̇) ω = -¼ |ω|² q`) -/
theorem quat_qdotdot_is_derivative (q : Quaternion K) (w b : Vec3 K) (h2 : (2 : K) ≠ 0) :
    let qd := convertAngVelToQuaternionDot q w
    ((calcUnnormalizedNForQuaternion (Quaternion.jet q qd)).mulVec (Vec3.jet w b)).map Jet.eps
      = convertAngVelDotToQuaternionDotDot q w b := by
  have h4 : (4 : K) ≠ 0 := by
    have : (4 : K) = 2 * 2 := by norm_num
    rw [this]; exact mul_ne_zero h2 h2
  simp only [convertAngVelToQuaternionDot, convertAngVelDotToQuaternionDotDot, calcUnnormalizedNForQuaternion,
    Mat43.mulVec, Vec3.dot, Vec3.normSq, Quaternion.jet, Vec3.jet, Quaternion.map, Quaternion.add, Quaternion.smul]
  jet_simp
  ext <;> simp only [] <;> field_simp <;> ring

/-! ## Non-vacuity -/
example : TrigValid (⟨3 / 5, 4 / 5⟩ : Trig Rat) ∧ (⟨3 / 5, 4 / 5⟩ : Trig Rat).c ≠ 0 := by norm_num [TrigValid]
example : (2 : Rat) ≠ 0 := by norm_num

end C28
