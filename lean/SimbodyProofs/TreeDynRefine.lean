import SimbodyModel.TreeDyn
import Mathlib.Data.Matrix.Block
import Mathlib.Data.Matrix.Mul
import Mathlib.LinearAlgebra.Matrix.Notation
import Mathlib.Tactic.Ring
import Mathlib.Tactic.FinCases
import Mathlib.Tactic.FieldSimp
import Mathlib.Algebra.Field.Basic
import Mathlib.Algebra.BigOperators.Fin
import Mathlib.Tactic.Abel

/-!
# TreeDynRefine — the structured 6-D operations of the executable model are the dense matrix operations

The executable model (`SimbodyModel/TreeDyn.lean`) uses simbody's specialised formulas (`PhiMatrix * SpatialVec`
in 12 flops, `SpatialInertia * SpatialVec` in 45, `ArticulatedInertia * SpatialVec` in 66,
`ArticulatedInertia::shift` in 72, …).  The abstract twin (`TreeDynAbs`) works with arbitrary matrices over an
arbitrary finite index type.  Here spatial vectors are embedded as functions on `Fin 3 ⊕ Fin 3` and every
structured operation is proved equal to the dense one, so the abstract theorems speak about the same
quantities the executable recursions manipulate.
-/

open Matrix

namespace TreeDyn
variable {K : Type} [Field K]

abbrev I6 := Fin 3 ⊕ Fin 3

def V3.toFun (v : V3 K) : Fin 3 → K := ![v.x, v.y, v.z]
def M33.toMat (m : M33 K) : Matrix (Fin 3) (Fin 3) K :=
  !![m.r0.x, m.r0.y, m.r0.z; m.r1.x, m.r1.y, m.r1.z; m.r2.x, m.r2.y, m.r2.z]
def Sym3.toMat (m : Sym3 K) : Matrix (Fin 3) (Fin 3) K :=
  !![m.a00, m.a10, m.a20; m.a10, m.a11, m.a21; m.a20, m.a21, m.a22]
def SV.toVec (a : SV K) : I6 → K := Sum.elim a.w.toFun a.v.toFun
/-- `crossMat(l)` as a matrix -/
def crossM (l : V3 K) : Matrix (Fin 3) (Fin 3) K := (M33.crossMat l).toMat
/-- `PhiMatrix::toSpatialMat()` = `[1 l×; 0 1]` -/
def phiMat (l : V3 K) : Matrix I6 I6 K := fromBlocks 1 (crossM l) 0 1
/-- `SpatialInertia::toSpatialMat()` = `[m G, (m p)×; −(m p)×, m 1]` -/
def SpI.toMat (s : SpI K) : Matrix I6 I6 K :=
  fromBlocks (s.m • s.G.toMat) (crossM (V3.smul s.m s.p)) (-(crossM (V3.smul s.m s.p))) (s.m • (1 : Matrix (Fin 3) (Fin 3) K))
/-- `ArticulatedInertia::toSpatialMat()` = `[J F; ~F M]` -/
def ArtI.toMat (p : ArtI K) : Matrix I6 I6 K := fromBlocks p.J.toMat p.F.toMat p.F.toMatᵀ p.M.toMat

@[simp] theorem SV.toVec_inl (a : SV K) : a.toVec ∘ Sum.inl = a.w.toFun := by
  funext i; simp [SV.toVec]
@[simp] theorem SV.toVec_inr (a : SV K) : a.toVec ∘ Sum.inr = a.v.toFun := by
  funext i; simp [SV.toVec]

/-! ### 3-vectors and 3×3 matrices -/

theorem V3.add_toFun (a b : V3 K) : (a.add b).toFun = a.toFun + b.toFun := by
  funext i; fin_cases i <;> simp [V3.add, V3.toFun]
theorem V3.sub_toFun (a b : V3 K) : (a.sub b).toFun = a.toFun - b.toFun := by
  funext i; fin_cases i <;> simp [V3.sub, V3.toFun]
theorem V3.smul_toFun (s : K) (a : V3 K) : (V3.smul s a).toFun = s • a.toFun := by
  funext i; fin_cases i <;> simp [V3.smul, V3.toFun]
theorem V3.dot_toFun (a b : V3 K) : a.dot b = a.toFun ⬝ᵥ b.toFun := by
  simp [V3.dot, V3.toFun, dotProduct, Fin.sum_univ_three]
/-- `a % b = crossMat(a) * b` -/
theorem V3.cross_toFun (a b : V3 K) : (a.cross b).toFun = crossM a *ᵥ b.toFun := by
  funext i
  fin_cases i <;>
    simp [V3.cross, V3.toFun, crossM, M33.crossMat, M33.toMat, Matrix.mulVec, dotProduct, Fin.sum_univ_three] <;> ring
/-- `a % b = −crossMat(b) a = crossMat(b)ᵀ a` -/
theorem V3.cross_toFun' (a b : V3 K) : (a.cross b).toFun = (crossM b)ᵀ *ᵥ a.toFun := by
  funext i
  fin_cases i <;>
    simp [V3.cross, V3.toFun, crossM, M33.crossMat, M33.toMat, Matrix.mulVec, dotProduct, Fin.sum_univ_three] <;> ring
theorem crossM_transpose (l : V3 K) : (crossM l)ᵀ = -crossM l := by
  ext i j
  fin_cases i <;> fin_cases j <;> simp [crossM, M33.crossMat, M33.toMat]
theorem M33.mulVec_toFun (m : M33 K) (v : V3 K) : (m.mulVec v).toFun = m.toMat *ᵥ v.toFun := by
  funext i
  fin_cases i <;>
    simp [M33.mulVec, V3.dot, V3.toFun, M33.toMat, Matrix.mulVec, dotProduct, Fin.sum_univ_three]
theorem M33.tmulVec_toFun (m : M33 K) (v : V3 K) : (m.tmulVec v).toFun = m.toMatᵀ *ᵥ v.toFun := by
  funext i
  fin_cases i <;>
    simp [M33.tmulVec, V3.toFun, M33.toMat, Matrix.mulVec, dotProduct, Fin.sum_univ_three]
theorem Sym3.mulVec_toFun (m : Sym3 K) (v : V3 K) : (m.mulVec v).toFun = m.toMat *ᵥ v.toFun := by
  funext i
  fin_cases i <;>
    simp [Sym3.mulVec, V3.toFun, Sym3.toMat, Matrix.mulVec, dotProduct, Fin.sum_univ_three]
theorem Sym3.toMat_symm (m : Sym3 K) : m.toMatᵀ = m.toMat := by
  ext i j
  fin_cases i <;> fin_cases j <;> simp [Sym3.toMat]
theorem Sym3.add_toMat (a b : Sym3 K) : (a.add b).toMat = a.toMat + b.toMat := by
  ext i j
  fin_cases i <;> fin_cases j <;> simp [Sym3.add, Sym3.toMat]
theorem Sym3.sub_toMat (a b : Sym3 K) : (a.sub b).toMat = a.toMat - b.toMat := by
  ext i j
  fin_cases i <;> fin_cases j <;> simp [Sym3.sub, Sym3.toMat]
theorem Sym3.smul_toMat (s : K) (a : Sym3 K) : (Sym3.smul s a).toMat = s • a.toMat := by
  ext i j
  fin_cases i <;> fin_cases j <;> simp [Sym3.smul, Sym3.toMat]
theorem Sym3.diag_toMat (s : K) : (Sym3.diag s).toMat = s • (1 : Matrix (Fin 3) (Fin 3) K) := by
  ext i j
  fin_cases i <;> fin_cases j <;> simp [Sym3.diag, Sym3.toMat]
theorem M33.add_toMat (a b : M33 K) : (a.add b).toMat = a.toMat + b.toMat := by
  ext i j
  fin_cases i <;> fin_cases j <;> simp [M33.add, V3.add, M33.toMat]
theorem M33.sub_toMat (a b : M33 K) : (a.sub b).toMat = a.toMat - b.toMat := by
  ext i j
  fin_cases i <;> fin_cases j <;> simp [M33.sub, V3.sub, M33.toMat]
theorem M33.transpose_toMat (a : M33 K) : a.transpose.toMat = a.toMatᵀ := by
  ext i j
  fin_cases i <;> fin_cases j <;> simp [M33.transpose, M33.toMat]
/-- `s % M = crossMat(s) * M` -/
theorem Sym3.crossLeft_toMat (s : V3 K) (m : Sym3 K) : (Sym3.crossLeft s m).toMat = crossM s * m.toMat := by
  ext i j
  fin_cases i <;> fin_cases j <;>
    simp [Sym3.crossLeft, V3.cross, M33.toMat, Sym3.toMat, crossM, M33.crossMat, Matrix.mul_apply, Fin.sum_univ_three] <;> ring
/-- the symmetrisation is the identity on symmetric matrices -/
theorem Sym3.symmetrize_toMat (m : M33 K) (h : m.toMatᵀ = m.toMat) (h2 : (2 : K) ≠ 0) :
    (Sym3.symmetrize m).toMat = m.toMat := by
  have e01 : m.r1.x = m.r0.y := by have := congrFun (congrFun h 0) 1; simpa [M33.toMat] using this
  have e02 : m.r2.x = m.r0.z := by have := congrFun (congrFun h 0) 2; simpa [M33.toMat] using this
  have e12 : m.r2.y = m.r1.z := by have := congrFun (congrFun h 1) 2; simpa [M33.toMat] using this
  ext i j
  fin_cases i <;> fin_cases j <;> simp [Sym3.symmetrize, Sym3.toMat, M33.toMat, e01, e02, e12] <;> field_simp <;> ring

/-! ### spatial vectors -/

theorem SV.add_toVec (a b : SV K) : (a.add b).toVec = a.toVec + b.toVec := by
  funext i; rcases i with i | i <;> simp [SV.add, SV.toVec, V3.add_toFun]
theorem SV.sub_toVec (a b : SV K) : (a.sub b).toVec = a.toVec - b.toVec := by
  funext i; rcases i with i | i <;> simp [SV.sub, SV.toVec, V3.sub_toFun]
theorem SV.smul_toVec (s : K) (a : SV K) : (SV.smul s a).toVec = s • a.toVec := by
  funext i; rcases i with i | i <;> simp [SV.smul, SV.toVec, V3.smul_toFun]
theorem SV.zero_toVec : (SV.zero : SV K).toVec = 0 := by
  funext i; rcases i with i | i <;> fin_cases i <;> simp [SV.zero, V3.zero, SV.toVec, V3.toFun]
theorem SV.dot_toVec (a b : SV K) : a.dot b = a.toVec ⬝ᵥ b.toVec := by
  simp [SV.dot, SV.toVec, V3.dot_toFun, dotProduct, Fintype.sum_sum_type]

/-- `PhiMatrix * SpatialVec` (12 flops) is the dense product with `[1 l×; 0 1]` -/
theorem phiMul_toVec (l : V3 K) (f : SV K) : (phiMul l f).toVec = phiMat l *ᵥ f.toVec := by
  rw [phiMat, fromBlocks_mulVec]
  simp only [SV.toVec_inl, SV.toVec_inr, one_mulVec, zero_mulVec, zero_add]
  simp only [phiMul, SV.toVec, V3.add_toFun, V3.cross_toFun]

/-- `~PhiMatrix * SpatialVec` (12 flops) is the dense product with the transpose -/
theorem phiTMul_toVec (l : V3 K) (a : SV K) : (phiTMul l a).toVec = (phiMat l)ᵀ *ᵥ a.toVec := by
  rw [phiMat, fromBlocks_transpose, fromBlocks_mulVec]
  simp only [SV.toVec_inl, SV.toVec_inr, transpose_one, transpose_zero, one_mulVec, zero_mulVec, add_zero]
  simp only [phiTMul, SV.toVec, V3.add_toFun, V3.cross_toFun']
  rw [add_comm]

/-- `shiftForceBy(F, r) = Phi(−r) F` -/
theorem shiftForceBy_toVec (f : SV K) (r : V3 K) : (shiftForceBy f r).toVec = phiMat (V3.neg r) *ᵥ f.toVec := by
  rw [phiMat, fromBlocks_mulVec]
  simp only [SV.toVec_inl, SV.toVec_inr, one_mulVec, zero_mulVec, zero_add]
  simp only [shiftForceBy, SV.toVec, V3.sub_toFun, V3.cross_toFun]
  congr 1
  have : crossM (V3.neg r) = -crossM r := by
    ext i j
    fin_cases i <;> fin_cases j <;> simp [crossM, M33.crossMat, M33.toMat, V3.neg]
  rw [this, neg_mulVec, sub_eq_add_neg]

/-- `SpatialInertia * SpatialVec` (45 flops) is the dense product with `toSpatialMat()` -/
theorem SpI.mulSV_toVec (s : SpI K) (a : SV K) : (s.mulSV a).toVec = s.toMat *ᵥ a.toVec := by
  rw [SpI.toMat, fromBlocks_mulVec]
  simp only [SV.toVec_inl, SV.toVec_inr]
  funext i
  rcases i with i | i <;> fin_cases i <;>
    simp [SpI.mulSV, SV.smul, SV.toVec, V3.smul, V3.add, V3.sub, V3.cross, Sym3.mulVec, V3.toFun, Sym3.toMat,
      crossM, M33.crossMat, M33.toMat, Matrix.mulVec, dotProduct, Fin.sum_univ_three] <;> ring

/-- the spatial inertia matrix is symmetric -/
theorem SpI.toMat_symm (s : SpI K) : s.toMatᵀ = s.toMat := by
  rw [SpI.toMat, fromBlocks_transpose]
  congr 1
  · rw [transpose_smul, Sym3.toMat_symm]
  · rw [transpose_neg, crossM_transpose, neg_neg]
  · rw [crossM_transpose]
  · rw [transpose_smul, transpose_one]

/-- `ArticulatedInertia * SpatialVec` (66 flops) is the dense product with `toSpatialMat()` -/
theorem ArtI.mulSV_toVec (p : ArtI K) (a : SV K) : (p.mulSV a).toVec = p.toMat *ᵥ a.toVec := by
  rw [ArtI.toMat, fromBlocks_mulVec]
  simp only [SV.toVec_inl, SV.toVec_inr]
  simp only [ArtI.mulSV, SV.toVec, V3.add_toFun, Sym3.mulVec_toFun, M33.mulVec_toFun, M33.tmulVec_toFun]

theorem ArtI.toMat_symm (p : ArtI K) : p.toMatᵀ = p.toMat := by
  rw [ArtI.toMat, fromBlocks_transpose, Sym3.toMat_symm, Sym3.toMat_symm, transpose_transpose]

/-- `ArticulatedInertia(SpatialInertia)` has the same spatial matrix -/
theorem ArtI.ofSpI_toMat (s : SpI K) : (ArtI.ofSpI s).toMat = s.toMat := by
  rw [ArtI.toMat, SpI.toMat]
  simp only [ArtI.ofSpI, Sym3.smul_toMat, Sym3.diag_toMat]
  congr 1
  rw [← crossM_transpose]; rfl

theorem ArtI.add_toMat (a b : ArtI K) : (a.add b).toMat = a.toMat + b.toMat := by
  simp only [ArtI.toMat, ArtI.add, fromBlocks_add, Sym3.add_toMat, M33.add_toMat, transpose_add]
theorem ArtI.sub_toMat (a b : ArtI K) : (a.sub b).toMat = a.toMat - b.toMat := by
  rw [sub_eq_add_neg]
  simp only [ArtI.toMat, ArtI.sub, fromBlocks_neg, fromBlocks_add, Sym3.sub_toMat, M33.sub_toMat,
    transpose_add, transpose_neg, sub_eq_add_neg]

/-- `halfCrossDiff(s, ~F, F')` is `s× ~F − F' s×` when that matrix is symmetric, which it is for `F' = F + s× M` -/
theorem ArtI.shift_J (p : ArtI K) (s : V3 K) :
    (p.J.add (ArtI.halfCrossDiff s p.F.transpose (p.F.add (Sym3.crossLeft s p.M)))).toMat
      = p.J.toMat + crossM s * p.F.toMatᵀ + (p.F.toMat + crossM s * p.M.toMat) * (crossM s)ᵀ := by
  ext i j
  fin_cases i <;> fin_cases j <;>
    simp [ArtI.halfCrossDiff, Sym3.add, Sym3.toMat, M33.toMat, M33.transpose, M33.add, V3.add, Sym3.crossLeft,
      V3.cross, crossM, M33.crossMat, Matrix.mul_apply, Matrix.add_apply, Fin.sum_univ_three,
      Matrix.vecMul, dotProduct, Matrix.transpose_apply, vecHead, vecTail] <;> ring

/-- `ArticulatedInertia::shift(l)` (72 flops) is `Φ(l) P ~Φ(l)` -/
theorem ArtI.shift_toMat (p : ArtI K) (l : V3 K) :
    (p.shift l).toMat = phiMat l * p.toMat * (phiMat l)ᵀ := by
  have hJ := ArtI.shift_J p l
  simp only [phiMat, fromBlocks_transpose, ArtI.toMat, fromBlocks_multiply, ArtI.shift]
  rw [hJ]
  simp only [M33.add_toMat, Sym3.crossLeft_toMat, transpose_add, transpose_mul, Sym3.toMat_symm,
    transpose_one, transpose_zero, Matrix.one_mul, Matrix.mul_one, Matrix.zero_mul, Matrix.mul_zero,
    add_zero, zero_add]

/-! ### the hinge matrix as a list of spatial columns -/

/-- the hinge matrix `H` (6 × d) of a list of spatial columns -/
def hMat (h : List (SV K)) : Matrix I6 (Fin h.length) K := fun i j => (h.get j).toVec i
/-- a list of scalars as a vector indexed by `Fin d` (missing entries are 0) -/
def lvec (d : Nat) (u : List K) : Fin d → K := fun j => u.getD j 0

theorem foldl_SV_add_toVec (xs : List (SV K)) (a : SV K) :
    (xs.foldl SV.add a).toVec = a.toVec + (xs.map SV.toVec).sum := by
  induction xs generalizing a with
  | nil => simp
  | cons x xs ih => simp only [List.foldl_cons, List.map_cons, List.sum_cons, ih, SV.add_toVec]; abel

theorem hMat_mulVec : ∀ (h : List (SV K)) (u : List K),
    hMat h *ᵥ lvec h.length u = (List.zipWith (fun c s => s • c.toVec) h u).sum
  | [], u => by
      funext i; simp [Matrix.mulVec, dotProduct]
  | c :: cs, [] => by
      funext i; simp [Matrix.mulVec, dotProduct, lvec]
  | c :: cs, s :: ss => by
      have ih := hMat_mulVec cs ss
      funext i
      have ihi := congrFun ih i
      simp only [Matrix.mulVec, dotProduct, List.zipWith_cons_cons, List.sum_cons, Pi.add_apply, Pi.smul_apply,
        smul_eq_mul] at *
      rw [← ihi]
      simp only [List.length_cons]
      rw [Fin.sum_univ_succ]
      simp [hMat, lvec, mul_comm]

/-- `H * u` of the executable model (fold over the columns) is the dense matrix–vector product -/
theorem hMul_toVec (h : List (SV K)) (u : List K) : (hMul h u).toVec = hMat h *ᵥ lvec h.length u := by
  rw [hMat_mulVec]
  simp only [hMul, foldl_SV_add_toVec, SV.zero_toVec, zero_add]
  congr 1
  induction h generalizing u with
  | nil => simp
  | cons c cs ih =>
    cases u with
    | nil => simp
    | cons s ss => simp only [List.zipWith_cons_cons, List.map_cons, SV.smul_toVec, ih]

/-- `~H * F` of the executable model (one spatial dot product per column) is the dense transposed product -/
theorem hTMul_toVec (h : List (SV K)) (f : SV K) (j : Fin h.length) :
    (hTMul h f).getD j 0 = ((hMat h)ᵀ *ᵥ f.toVec) j := by
  simp only [hTMul, Matrix.mulVec, dotProduct, Matrix.transpose_apply, hMat]
  have hj : (j : Nat) < (List.map (fun c => c.dot f) h).length := by simp
  rw [List.getD_eq_getElem?_getD, List.getElem?_eq_getElem hj]
  simp only [Option.getD_some, List.getElem_map, SV.dot_toVec, dotProduct, List.get_eq_getElem]

end TreeDyn
