import SimbodyProofs.C18_view
/-!
C18 — the version-stamp invariant `Ghost`:  for every live cache entry `e` of subsystem `sb`
  * `e.stamp ≤ sb.ver e.dep`  (a stamp is never ahead of the stage version it was taken from), and
  * `e.stamp = sb.ver e.dep ∧ e.flag  ↔  e.fresh`   where the ghost `fresh` means "marked valid since the last
    time the depends-on stage was invalidated, `invalidate()` was called on the entry (explicitly, by a
    prerequisite's notification or by an auto-update swap), or it was copied without its depends-on stage".
It is preserved by every legal operation, including copy construction / assignment — the latter only because
`PerSubsystemInfo::copyFrom` raises the version of *every* stage above the copied one (`Gen.copyBumpsAbove`,
re-extracted from State.cpp on every run).  Core Lean only.
-/
namespace C18

structure CEok (sb : Sub) (e : CE) : Prop where
  vpos : 1 ≤ sb.ver e.dep
  le : e.stamp ≤ sb.ver e.dep
  iff : (e.stamp = sb.ver e.dep ∧ e.flag = true) ↔ e.fresh = true
  off : e.flag = false → e.hasPre = false → e.stamp = 0
  below : sb.cur < e.dep → e.stamp < sb.ver e.dep     -- below its depends-on stage an entry is stale by its stamp

def Ghost (st : St) : Prop := ∀ sb ∈ st.subs, ∀ e ∈ sb.ces, CEok sb e

theorem CEok.invN {sb : Sub} {e : CE} (h : CEok sb e) (n : Nat) : CEok sb (e.invN n) := by
  unfold CE.invN
  split
  · exact h
  · have := h.vpos
    exact ⟨h.vpos, by simp, by simp, by simp, fun _ => by simp only; omega⟩

theorem CEok.congr {sb sb' : Sub} {e e' : CE} (h : CEok sb e) (hv : sb'.vers = sb.vers) (hc : sb.cur ≤ sb'.cur)
    (hd : e'.dep = e.dep)
    (hs : e'.stamp = e.stamp) (hf : e'.flag = e.flag) (hr : e'.fresh = e.fresh) (hp : e'.hasPre = e.hasPre) :
    CEok sb' e' := by
  have hver : ∀ g, sb'.ver g = sb.ver g := fun g => by unfold Sub.ver; rw [hv]
  exact ⟨by rw [hver, hd]; exact h.vpos, by rw [hver, hd, hs]; exact h.le,
         by rw [hver, hd, hs, hf, hr]; exact h.iff, by rw [hf, hp, hs]; exact h.off,
         by rw [hver, hd, hs]; intro hlt; exact h.below (by omega)⟩

theorem Ghost.mapCE {st : St} (h : Ghost st) (f : Key → CE → CE)
    (hf : ∀ k sb e, CEok sb e → CEok sb (f k e)) : Ghost (st.mapCE f) := by
  intro sb' hsb' e' he'
  obtain ⟨s, sb, hsb, rfl⟩ := mem_mapI hsb'
  obtain ⟨c, e, he, rfl⟩ := mem_mapI he'
  exact (hf (s, c) sb e (h sb hsb e he)).congr rfl (Nat.le_refl _) rfl rfl rfl rfl rfl

theorem Ghost.mapDV {st : St} (h : Ghost st) (f : Key → DV → DV) : Ghost (st.mapDV f) := by
  intro sb' hsb' e' he'
  obtain ⟨s, sb, hsb, rfl⟩ := mem_mapI hsb'
  exact (h sb hsb e' he').congr rfl (Nat.le_refl _) rfl rfl rfl rfl rfl

theorem Ghost.invalidateMany {st : St} (h : Ghost st) (ks : List Key) : Ghost (st.invalidateMany ks) :=
  h.mapCE _ (fun _ _ _ he => he.invN _)

theorem Ghost.notify {st : St} (h : Ghost st) (ks : List Key) : Ghost (st.notify ks) := h.invalidateMany _

/-- Ghost only looks at the subsystems -/
theorem Ghost.of_subs {st st' : St} (h : Ghost st) (hs : st'.subs = st.subs) : Ghost st' := by
  unfold Ghost; rw [hs]; exact h

theorem Ghost.register {st : St} (h : Ghost st) (k : Key) (e : CE) : Ghost (st.register k e) := by
  unfold St.register
  simp only
  refine Ghost.mapCE ?_ _ (fun _ _ c hc => by
    split
    · exact hc.congr rfl (Nat.le_refl _) rfl rfl rfl rfl rfl
    · exact hc)
  exact Ghost.mapDV (h.of_subs (by rfl)) _

theorem Ghost.unregister {st : St} (h : Ghost st) (k : Key) (e : CE) : Ghost (st.unregister k e) := by
  unfold St.unregister
  simp only
  refine Ghost.mapCE ?_ _ (fun _ _ c hc => by
    split
    · exact hc.congr rfl (Nat.le_refl _) rfl rfl rfl rfl rfl
    · exact hc)
  exact Ghost.mapDV (h.of_subs (by rfl)) _

theorem Ghost.foldl_unregister (l : List (Key × CE)) {st : St} (h : Ghost st) :
    Ghost (l.foldl (fun acc ke => acc.unregister ke.1 ke.2) st) := by
  induction l generalizing st with
  | nil => exact h
  | cons a as ih => exact ih (h.unregister _ _)

theorem Ghost.foldl_register (l : List (Key × CE)) {st : St} (h : Ghost st) :
    Ghost (l.foldl (fun acc ke => acc.register ke.1 ke.2) st) := by
  induction l generalizing st with
  | nil => exact h
  | cons a as ih => exact ih (h.register _ _)

theorem Ghost.noteQ {st : St} (h : Ghost st) : Ghost st.noteQ := by
  unfold St.noteQ; exact Ghost.notify (h.of_subs (by rfl)) _
theorem Ghost.noteU {st : St} (h : Ghost st) : Ghost st.noteU := by
  unfold St.noteU; exact Ghost.notify (h.of_subs (by rfl)) _
theorem Ghost.noteZ {st : St} (h : Ghost st) : Ghost st.noteZ := by
  unfold St.noteZ; exact Ghost.notify (h.of_subs (by rfl)) _
theorem Ghost.noteY {st : St} (h : Ghost st) : Ghost st.noteY := h.noteQ.noteU.noteZ

theorem Ghost.modSub {st : St} (h : Ghost st) (s : Nat) (f : Sub → Sub)
    (hf : ∀ sb, st.subs[s]? = some sb → (∀ e ∈ sb.ces, CEok sb e) → ∀ e ∈ (f sb).ces, CEok (f sb) e) :
    Ghost (st.modSub s f) := by
  intro sb' hsb'
  rcases mem_modAt hsb' with hm | ⟨x, hx, rfl⟩
  · exact h sb' hm
  · exact hf x hx (h x (List.mem_of_getElem? hx))

theorem Ghost.modCE {st : St} (h : Ghost st) (k : Key) (f : CE → CE)
    (hf : ∀ sb e, st.subs[k.1]? = some sb → CEok sb e → CEok sb (f e)) : Ghost (st.modCE k f) := by
  unfold St.modCE
  apply h.modSub
  intro sb hs hall e' he'
  rcases mem_modAt he' with hm | ⟨x, hx, rfl⟩
  · exact (hall e' hm).congr rfl (Nat.le_refl _) rfl rfl rfl rfl rfl
  · exact (hf sb x hs (hall x (List.mem_of_getElem? hx))).congr rfl (Nat.le_refl _) rfl rfl rfl rfl rfl

theorem Ghost.modDV {st : St} (h : Ghost st) (k : Key) (f : DV → DV) : Ghost (st.modDV k f) := by
  unfold St.modDV
  apply h.modSub
  intro sb _ hall e he
  exact (hall e he).congr rfl (Nat.le_refl _) rfl rfl rfl rfl rfl

theorem Ghost.markCE {st : St} (h : Ghost st) (k : Key)
    (hk : ∀ sb e, st.subs[k.1]? = some sb → sb.ces[k.2]? = some e → e.dep ≤ sb.cur) : Ghost (st.markCE k) := by
  unfold St.markCE
  split
  · exact h
  · rename_i sb hs
    unfold St.modCE
    apply h.modSub
    intro sb' hs' hall e' he'
    rw [hs] at hs'; cases hs'
    rcases mem_modAt he' with hm | ⟨x, hx, rfl⟩
    · exact (hall e' hm).congr rfl (Nat.le_refl _) rfl rfl rfl rfl rfl
    · have he := hall x (List.mem_of_getElem? hx)
      have hdep := hk sb x hs hx
      exact ⟨he.vpos, Nat.le_refl _, ⟨fun _ => rfl, fun _ => ⟨rfl, rfl⟩⟩, by simp,
             fun (hlt : sb.cur < x.dep) => absurd hdep (by omega)⟩

/-! ### restoreToStage -/

theorem ver_lt_length {sb : Sub} {g : Nat} (h : 1 ≤ sb.ver g) : g < sb.vers.length := by
  unfold Sub.ver at h
  by_cases hg : g < sb.vers.length
  · exact hg
  · have : sb.vers.getD g 0 = 0 := by
      simp [List.getD_eq_getElem?_getD, List.getElem?_eq_none (Nat.le_of_not_lt hg)]
    omega

theorem CEok.restore {sb : Sub} {e : CE} (h : CEok sb e) (g : Nat) (hc : ¬ sb.cur ≤ g) (hg : g ≠ 0)
    : CEok (sb.restore g) (e.unfresh g sb.cur) := by
  have hl := ver_lt_length h.vpos
  have hver : (sb.restore g).ver e.dep = if g + 1 ≤ e.dep ∧ e.dep ≤ sb.cur then sb.ver e.dep + 1 else sb.ver e.dep := by
    unfold Sub.restore Sub.ver
    simp only [hc, if_false, hg]
    exact getD_bump _ _ _ _ hl
  have hcur : (sb.restore g).cur = g := by
    unfold Sub.restore; simp only [hc, if_false, hg]
  have h1 := h.vpos; have h2 := h.le
  unfold CE.unfresh
  by_cases hb : g < e.dep
  · simp only [hb, if_true]
    by_cases hb2 : e.dep ≤ sb.cur
    · rw [if_pos ⟨hb, hb2⟩] at hver
      refine ⟨by simp only; omega, by simp only; omega, ?_, h.off, fun _ => by simp only; omega⟩
      simp only [hver]
      constructor
      · intro ⟨h3, _⟩; omega
      · intro h3; cases h3
    · rw [if_neg (fun hx => hb2 hx.2)] at hver
      have h3 := h.below (by omega)
      refine ⟨by simp only; omega, by simp only; omega, ?_, h.off, fun _ => by simp only; omega⟩
      simp only [hver]
      constructor
      · intro ⟨h4, _⟩; omega
      · intro h4; cases h4
  · simp only [hb, if_false]
    rw [if_neg (fun hx => hb (by omega))] at hver
    exact ⟨by rw [hver]; exact h1, by rw [hver]; exact h2, by rw [hver]; exact h.iff, h.off,
           fun hlt => by rw [hcur] at hlt; omega⟩

theorem Ghost.restore_sub {sb : Sub} (h : ∀ e ∈ sb.ces, CEok sb e) (g : Nat) :
    ∀ e ∈ (sb.restore g).ces, CEok (sb.restore g) e := by
  by_cases hc : sb.cur ≤ g
  · -- early return of restoreToStage: stage and versions untouched; the ghost of entries depending on a stage above
    -- g is cleared, and those entries are below their depends-on stage, hence stale by their stamp already
    rw [Sub.restore, if_pos hc]
    intro e' he'
    obtain ⟨e, he, rfl⟩ := List.mem_map.mp he'
    have hk := h e he
    unfold CE.unfresh
    by_cases hb : g < e.dep
    · rw [if_pos hb]
      have hst := hk.below (by omega)
      refine ⟨hk.vpos, hk.le, ?_, hk.off, hk.below⟩
      constructor
      · intro ⟨h3, _⟩
        have h3' : e.stamp = sb.ver e.dep := h3
        omega
      · intro h3; cases h3
    · rw [if_neg hb]; exact hk.congr rfl (Nat.le_refl _) rfl rfl rfl rfl rfl
  · by_cases hg : g = 0
    · have : sb.restore g = {} := by rw [Sub.restore, if_neg hc, if_pos hg]
      rw [this]; intro e he; simp at he
    · intro e' he'
      have hces : (sb.restore g).ces = (popBack CE.alloc g sb.ces).map (fun e => e.unfresh g sb.cur) := by
        rw [Sub.restore, if_neg hc, if_neg hg]
      rw [hces] at he'
      obtain ⟨e, he, rfl⟩ := List.mem_map.mp he'
      exact (h e (popBack_sublist _ _ _ e he)).restore g hc hg

theorem Ghost.invalSys {st : St} (h : Ghost st) (g : Nat) : Ghost (st.invalSys g) := by
  unfold St.invalSys
  split
  · exact h
  · simp only
    have h1 : Ghost (if 2 ≤ st.sys ∧ g ≤ 2 then ({ st with q := [], u := [], z := [] } : St).noteY else st) := by
      split
      · exact Ghost.noteY (h.of_subs (by rfl))
      · exact h
    refine Ghost.of_subs (st := (if g ≤ 1 then { (if 2 ≤ st.sys ∧ g ≤ 2 then ({ st with q := [], u := [], z := [] } : St).noteY else st) with t := none } else (if 2 ≤ st.sys ∧ g ≤ 2 then ({ st with q := [], u := [], z := [] } : St).noteY else st))) ?_ rfl
    split
    · exact h1.of_subs rfl
    · exact h1

theorem Ghost.invalAll {st : St} (h : Ghost st) (g : Nat) : Ghost (st.invalAll g) := by
  unfold St.invalAll
  simp only
  apply Ghost.foldl_unregister
  intro sb' hsb'
  simp only at hsb'
  obtain ⟨sb, hsb, rfl⟩ := List.mem_map.mp hsb'
  exact Ghost.restore_sub ((h.invalSys g) sb hsb) _

theorem Ghost.advSys {st : St} (h : Ghost st) (g : Nat) : Ghost (st.advSys g) := by
  unfold St.advSys
  split
  · exact h.of_subs rfl
  · split
    · simp only
      refine Ghost.of_subs (st := (((_ : St).notify _).notify _).notify _) ?_ rfl
      exact Ghost.notify (Ghost.notify (Ghost.notify (h.of_subs (by rfl)) _) _) _
    · exact h.of_subs rfl

theorem Ghost.setDV {st : St} (h : Ghost st) (k : Key) (v : Int) : Ghost (st.setDV k v) := by
  unfold St.setDV
  split
  · exact h
  · simp only
    apply Ghost.notify
    apply Ghost.modDV
    split
    · exact (h.invalAll _).notify _
    · exact h.invalAll _

theorem Ghost.autoUpdateOne {st : St} (h : Ghost st) (k : Key) : Ghost (st.autoUpdateOne k) := by
  unfold St.autoUpdateOne
  split
  · exact h
  · split
    · exact h
    · split
      · exact h
      · split
        · apply Ghost.notify
          apply Ghost.modCE
          · exact h.modDV _ _
          · intro sb e _ he; exact he.congr rfl (Nat.le_refl _) rfl rfl rfl rfl rfl
        · exact h

theorem Ghost.foldl_autoUpdateOne (l : List Key) {st : St} (h : Ghost st) :
    Ghost (l.foldl (fun acc k => acc.autoUpdateOne k) st) := by
  induction l generalizing st with
  | nil => exact h
  | cons a as ih => exact ih (h.autoUpdateOne _)


/-! ### every legal operation on one State -/

theorem Inv.ver_pos {st : St} (h : Inv st) {s : Nat} {sb : Sub} (hs : st.subs[s]? = some sb) {g : Nat} (hg : g ≤ 9) :
    1 ≤ sb.ver g := by
  have hg' := h.sub hs
  exact getD_pos sb.vers hg'.vpos g (by have := hg'.vlen; simp only [Sub.view_vers] at this; omega)

theorem CEok.new {sb : Sub} (e : CE) (hv : 1 ≤ sb.ver e.dep) (hs : e.stamp = 0) (hf : e.fresh = false) :
    CEok sb e := by
  refine ⟨hv, by omega, ?_, fun _ _ => hs, fun _ => by omega⟩
  rw [hs, hf]
  constructor
  · intro ⟨h1, _⟩; omega
  · intro h1; cases h1

theorem Ghost.pushCE_sub {sb : Sub} (h : ∀ e ∈ sb.ces, CEok sb e) (e0 : CE) (h0 : CEok sb e0) :
    ∀ e ∈ (sb.pushCE e0).ces, CEok (sb.pushCE e0) e := by
  intro e he
  simp only [Sub.pushCE, List.mem_append, List.mem_singleton] at he
  rcases he with he | rfl
  · exact (h e he).congr rfl (Nat.le_refl _) rfl rfl rfl rfl rfl
  · exact h0.congr rfl (Nat.le_refl _) rfl rfl rfl rfl rfl

theorem Ghost.stepS {st : St} (hI : Inv st) (h : Ghost st) (op : SOp) (hl : legalS st op = true)
    (hstrict : strictS st op = true) :
    Ghost (C18.stepS st op) := by
  unfold C18.stepS
  cases hexc : excOf st op with
  | some c => exact h
  | none =>
  simp only
  have keep : ∀ (s : Nat) (f : Sub → Sub), (∀ sb, (f sb).ces = sb.ces) → (∀ sb, (f sb).vers = sb.vers) →
      (∀ sb, sb.cur ≤ (f sb).cur) → Ghost (st.modSub s f) := by
    intro s f h1 h2 h3
    apply h.modSub
    intro sb _ hall e he
    rw [h1] at he
    exact (hall e he).congr (h2 sb) (h3 sb) rfl rfl rfl rfl rfl
  cases op with
  | advSub s g =>
    apply h.modSub
    intro sb hsb hall e he
    simp only [legalS, hsb, Bool.and_eq_true, decide_eq_true_eq, beq_iff_eq] at hl
    exact (hall e he).congr rfl (by show sb.cur ≤ g; omega) rfl rfl rfl rfl rfl
  | advSys g => exact h.advSys g
  | invalAll g => exact h.invalAll g
  | invalCache g => exact h.invalAll g
  | allocQ s vals => exact keep s _ (fun _ => rfl) (fun _ => rfl) (fun _ => Nat.le_refl _)
  | allocU s vals => exact keep s _ (fun _ => rfl) (fun _ => rfl) (fun _ => Nat.le_refl _)
  | allocZ s vals => exact keep s _ (fun _ => rfl) (fun _ => rfl) (fun _ => Nat.le_refl _)
  | allocQErr s n => exact keep s _ (fun _ => rfl) (fun _ => rfl) (fun _ => Nat.le_refl _)
  | allocUErr s n => exact keep s _ (fun _ => rfl) (fun _ => rfl) (fun _ => Nat.le_refl _)
  | allocUDotErr s n => exact keep s _ (fun _ => rfl) (fun _ => rfl) (fun _ => Nat.le_refl _)
  | allocTrig s g n => exact keep s _ (fun _ => rfl) (fun _ => rfl) (fun _ => Nat.le_refl _)
  | allocDV s inv v => exact keep s _ (fun _ => rfl) (fun _ => rfl) (fun _ => Nat.le_refl _)
  | allocAutoDV s inv v ud =>
    apply h.modSub
    intro sb hs hall
    simp only [legalS, hs, hexc, Option.isSome_none, Bool.false_or, Bool.and_eq_true, decide_eq_true_eq] at hl
    have hall' : ∀ e ∈ (sb.pushDV { alloc := sb.cur + 1, inval := inv, value := v, auto := some sb.ces.length }).ces,
        CEok (sb.pushDV { alloc := sb.cur + 1, inval := inv, value := v, auto := some sb.ces.length }) e :=
      fun e he => (hall e he).congr rfl (Nat.le_refl _) rfl rfl rfl rfl rfl
    exact Ghost.pushCE_sub hall' _ (CEok.new _ (hI.ver_pos hs hl.2) rfl rfl)
  | allocCE s dep comp v =>
    apply h.modSub
    intro sb hs hall
    have hx := excOf_allocCE_none hs hexc
    exact Ghost.pushCE_sub hall _ (CEok.new _ (hI.ver_pos hs hx.2.1) rfl rfl)
  | allocCEpre s dep comp q u z dvs ces v =>
    show Ghost (match st.subs[s]? with
      | none => st
      | some sb => _)
    split
    · exact h
    · rename_i sb hs
      simp only
      apply Ghost.register
      apply h.modSub
      intro sb' hs' hall
      rw [hs] at hs'; cases hs'
      have hx := excOf_allocCEpre_none hs hexc
      exact Ghost.pushCE_sub hall _ (CEok.new _ (hI.ver_pos hs hx.2.1) rfl rfl)
  | mark s c =>
    refine h.markCE (s, c) ?_
    intro sb e hsb he
    simp only [strictS] at hstrict
    have hsb' : st.subs[s]? = some sb := hsb
    have he' : sb.ces[c]? = some e := he
    simp only [hsb', he', decide_eq_true_eq] at hstrict
    exact hstrict
  | unmark s c => exact h.notify _
  | markDVUpd s d =>
    show Ghost (match st.dv? (s, d) with
      | some dv => match dv.auto with | some cx => st.markCE (s, cx) | none => st
      | none => st)
    split
    · rename_i dv hdv
      split
      · rename_i cx hcx
        refine h.markCE (s, cx) ?_
        intro sb e hsb he
        obtain ⟨sb0, hs0, hd0⟩ := dv?_mem hdv
        have hsb' : st.subs[s]? = some sb := hsb
        rw [hs0] at hsb'; cases hsb'
        have he' : sb.ces[cx]? = some e := he
        have hd0' : sb.dvs[d]? = some dv := hd0
        simp only [strictS, hs0, hd0', hcx, he', decide_eq_true_eq] at hstrict
        exact hstrict
      · exact h
    · exact h
  | setCE s c v => exact h.modCE _ _ (fun _ _ _ he => he.congr rfl (Nat.le_refl _) rfl rfl rfl rfl rfl)
  | getCE s c => exact h
  | setDV s d v => exact h.setDV _ _
  | updQ w => exact Ghost.of_subs (h.invalAll 5).noteQ (by rfl)
  | updU w => exact Ghost.of_subs (h.invalAll 6).noteU (by rfl)
  | updZ w => exact Ghost.of_subs (h.invalAll 7).noteZ (by rfl)
  | updQsub s w => exact Ghost.of_subs (h.invalAll 5).noteQ (by rfl)
  | updUsub s w => exact Ghost.of_subs (h.invalAll 6).noteU (by rfl)
  | updZsub s w => exact Ghost.of_subs (h.invalAll 7).noteZ (by rfl)
  | updY => exact (h.invalAll 5).noteY
  | setTime v => exact Ghost.of_subs (h.invalAll 4) (by rfl)
  | updUW => exact h.invalAll _
  | updZW => exact h.invalAll _
  | updUWsub s => exact h.invalAll _
  | updZWsub s => exact h.invalAll _
  | updQErrW => exact h.invalAll _
  | updUErrW => exact h.invalAll _
  | updQErrWsub s => exact h.invalAll _
  | updUErrWsub s => exact h.invalAll _
  | autoUpdate => exact Ghost.foldl_autoUpdateOne _ h
  | setTopoVer v => exact h.of_subs (by rfl)

/-! ### copies -/

/-- the obligation on the code that the copy needs (re-extracted from State.cpp on every run) -/
theorem copy_bumps_above : Gen.copyBumpsAbove = true := by decide

theorem CEok.copied {sb : Sub} {e : CE} (h : CEok sb e) :
    CEok (Sub.copyOf sb) { e.copied (min sb.cur 3) with flag := !(e.copied (min sb.cur 3)).hasPre } := by
  have hl := ver_lt_length h.vpos
  have hver : (Sub.copyOf sb).ver e.dep = if e.dep ≤ min sb.cur 3 then sb.ver e.dep else sb.ver e.dep + 1 := by
    unfold Sub.copyOf Sub.ver
    simp only [copy_bumps_above, or_true, if_true]
    exact getD_mapI_nat _ _ _ hl
  have hpre : (e.copied (min sb.cur 3)).hasPre = e.hasPre := rfl
  have h1 := h.vpos; have h2 := h.le
  refine ⟨?_, ?_, ?_, ?_, ?_⟩
  · show 1 ≤ (Sub.copyOf sb).ver e.dep
    rw [hver]; split <;> omega
  · show e.stamp ≤ (Sub.copyOf sb).ver e.dep
    rw [hver]; split <;> omega
  · show (e.stamp = (Sub.copyOf sb).ver e.dep ∧ (!(e.copied (min sb.cur 3)).hasPre) = true) ↔
         (e.fresh && decide (e.dep ≤ min sb.cur 3) && !e.hasPre) = true
    rw [hver, hpre]
    by_cases hd : e.dep ≤ min sb.cur 3
    · simp only [hd, if_true, decide_true, Bool.and_true, Bool.and_eq_true, Bool.not_eq_eq_eq_not, Bool.not_true]
      constructor
      · intro ⟨h3, h4⟩
        refine ⟨?_, h4⟩
        by_cases hf : e.flag = true
        · exact h.iff.mp ⟨h3, hf⟩
        · have := h.off (by simpa using hf) h4
          omega
      · intro ⟨h3, h4⟩
        exact ⟨(h.iff.mpr h3).1, h4⟩
    · simp only [hd, if_false, decide_false, Bool.and_false, Bool.false_and, Bool.false_eq_true, iff_false, not_and]
      intro h3; omega
  · show (!(e.copied (min sb.cur 3)).hasPre) = false → (e.copied (min sb.cur 3)).hasPre = false → e.stamp = 0
    intro h3 h4; rw [h4] at h3; cases h3
  · show (Sub.copyOf sb).cur < e.dep → e.stamp < (Sub.copyOf sb).ver e.dep
    intro hlt
    have hlt' : min sb.cur 3 < e.dep := hlt
    rw [hver, if_neg (by omega)]; omega

theorem Ghost.copyFrom {src : St} (h : Ghost src) (dstVers : List Nat) : Ghost (St.copyFrom dstVers src) := by
  unfold St.copyFrom St.registerAll
  simp only
  apply Ghost.foldl_register
  intro sb' hsb' e' he'
  obtain ⟨s, sb1, hsb1, rfl⟩ := mem_mapI hsb'
  obtain ⟨c, e1, he1, rfl⟩ := mem_mapI he'
  simp only at hsb1
  obtain ⟨sb, hsb, rfl⟩ := List.mem_map.mp hsb1
  have hces : (Sub.copyOf sb).ces = (popBack CE.alloc (min sb.cur 3) sb.ces).map (fun e => e.copied (min sb.cur 3)) := rfl
  rw [hces] at he1
  obtain ⟨e, he, rfl⟩ := List.mem_map.mp he1
  exact (h sb hsb e (popBack_sublist _ _ _ e he)).copied.congr rfl (Nat.le_refl _) rfl rfl rfl rfl rfl

theorem Ghost.fresh : Ghost ({} : St) := by intro sb hsb; simp at hsb

end C18
