import SimbodyModel.C20
import Mathlib.Tactic.Ring
import Mathlib.Tactic.NormNum
import Mathlib.Tactic.Linarith
import Mathlib.Tactic.Positivity
import Mathlib.Algebra.Order.Field.Basic

/-! # C20 — definitions used in the statements (order conditions) and helper lemmas for the controller -/
set_option linter.unusedVariables false
set_option linter.unusedSimpArgs false
set_option linter.unusedTactic false
set_option linter.unreachableTactic false
set_option linter.unusedSectionVars false

namespace C20

section OrderDefs
variable {K : Type} [Field K]

/-- abscissae `c` of a tableau -/
def Tableau.c (T : Tableau K) : List K := T.rows.map (·.1)
def dot (a b : List K) : K := (List.zipWith (· * ·) a b).sum
/-- element-wise product -/
def had (a b : List K) : List K := List.zipWith (· * ·) a b
/-- `(A v)ᵢ = Σⱼ aᵢⱼ vⱼ` -/
def Tableau.A (T : Tableau K) (v : List K) : List K := T.rows.map (fun r => dot r.2 v)

/-- `cᵢ = Σⱼ aᵢⱼ` -/
def RowSums (T : Tableau K) : Prop := ∀ r ∈ T.rows, r.1 = r.2.sum
/-- tree τ -/
def Order1 (_T : Tableau K) (w : List K) : Prop := w.sum = 1
/-- + tree [τ] -/
def Order2 (T : Tableau K) (w : List K) : Prop := Order1 T w ∧ dot w T.c = 1/2
/-- + trees [τ,τ], [[τ]] -/
def Order3 (T : Tableau K) (w : List K) : Prop :=
  Order2 T w ∧ dot w (had T.c T.c) = 1/3 ∧ dot w (T.A T.c) = 1/6
/-- + the four trees of order 4 (8 conditions in all) -/
def Order4 (T : Tableau K) (w : List K) : Prop :=
  Order3 T w ∧ dot w (had T.c (had T.c T.c)) = 1/4 ∧ dot w (had T.c (T.A T.c)) = 1/8
    ∧ dot w (T.A (had T.c T.c)) = 1/12 ∧ dot w (T.A (T.A T.c)) = 1/24
/-- + the nine trees of order 5 (17 conditions in all) -/
def Order5 (T : Tableau K) (w : List K) : Prop :=
  let c := T.c
  let c2 := had c c
  let c3 := had c c2
  Order4 T w ∧ dot w (had c c3) = 1/5 ∧ dot w (had c2 (T.A c)) = 1/10 ∧ dot w (had c (T.A c2)) = 1/15
    ∧ dot w (had c (T.A (T.A c))) = 1/30 ∧ dot w (had (T.A c) (T.A c)) = 1/20 ∧ dot w (T.A c3) = 1/20
    ∧ dot w (T.A (had c (T.A c))) = 1/40 ∧ dot w (T.A (T.A c2)) = 1/60 ∧ dot w (T.A (T.A (T.A c))) = 1/120
end OrderDefs

section Ctl
variable {K : Type} [Field K] [LinearOrder K] [IsStrictOrderedRing K]

theorem adjust_core (pow : K → K → K) (acc err h : K) (errFinite limited : Bool) (p : Nat) (hpos : 0 < h)
    (c1 : (0 : K) < MinShrink) (c2 : (MinShrink : K) ≤ HysteresisLow) (c3 : (HysteresisLow : K) < 1)
    (c6 : (1 : K) < HysteresisHigh) (c7 : (HysteresisHigh : K) ≤ MaxGrow) :
    let r := adjustStepSize pow acc none none errFinite err p limited h
    MinShrink * h ≤ r.1 ∧ r.1 ≤ MaxGrow * h
    ∧ (r.2 = true ↔ h ≤ r.1)
    ∧ (errFinite = true → err ≤ acc → h ≤ r.1)
    ∧ (limited = true → r.1 ≤ h)
    ∧ (r.2 = false → r.1 ≤ HysteresisLow * h)
    ∧ (r.1 = h ∨ HysteresisHigh * h ≤ r.1 ∨ r.1 ≤ HysteresisLow * h) := by
  have a : MinShrink * h ≤ HysteresisLow * h := mul_le_mul_of_nonneg_right c2 hpos.le
  have b : HysteresisLow * h < h := by nlinarith
  have c : h < HysteresisHigh * h := by nlinarith
  have d : HysteresisHigh * h ≤ MaxGrow * h := mul_le_mul_of_nonneg_right c7 hpos.le
  simp only [adjustStepSize, cmin, cmax, decide_eq_true_eq, decide_eq_false_iff_not]
  generalize firstGuess pow acc errFinite err p h = n0
  generalize (MinShrink : K) * h = m at *
  generalize (HysteresisLow : K) * h = lo at *
  generalize (HysteresisHigh : K) * h = hi at *
  generalize (MaxGrow : K) * h = g at *
  split_ifs <;> simp only [decide_eq_true_eq, decide_eq_false_iff_not, not_lt, not_le, not_or, not_and,
      Bool.not_eq_true] at * <;> refine ⟨?_, ?_, ?_, ?_, ?_, ?_, ?_⟩ <;>
    first
    | linarith
    | exact Iff.rfl
    | trivial
    | (intro _ _; linarith)
    | (intro _; linarith)
    | (left; rfl)
    | (left; trivial)
    | (left; apply le_antisymm <;> assumption)
    | (right; left; linarith)
    | (right; right; linarith)
    | (right; left; exact (‹_ ∧ _›).2)
    | (intro hl; exfalso; simp_all; done)
    | (intros; exfalso; simp_all; linarith)
    | (intros; simp_all; linarith)
    | skip

/-- a first guess below `h` for a step that missed the accuracy always ends below `h` (no user minimum) -/
theorem adjust_lt_of_guess_lt (pow : K → K → K) (acc err h : K) (umax : Option K) (errFinite limited : Bool) (p : Nat)
    (hpos : 0 < h) (c1 : (0 : K) < MinShrink) (c2 : (MinShrink : K) ≤ HysteresisLow) (c3 : (HysteresisLow : K) < 1)
    (hg : firstGuess pow acc errFinite err p h < h) (hna : ¬(errFinite = true ∧ err ≤ acc)) :
    (adjustStepSize pow acc none umax errFinite err p limited h).1 < h := by
  have a : MinShrink * h ≤ HysteresisLow * h := mul_le_mul_of_nonneg_right c2 hpos.le
  have b : HysteresisLow * h < h := by nlinarith
  simp only [adjustStepSize, cmin, cmax]
  generalize firstGuess pow acc errFinite err p h = n0 at *
  generalize (MinShrink : K) * h = m at *
  generalize (HysteresisLow : K) * h = lo at *
  generalize (MaxGrow : K) * h = g at *
  simp only [if_neg (not_lt.mpr hg.le), if_pos hg, if_neg hna]
  cases umax with
  | none => simp only; split_ifs <;> linarith
  | some mx => simp only; split_ifs <;> linarith

theorem firstGuess_lt (pow : K → K → K) (acc err h : K) (errFinite : Bool) (p : Nat)
    (hpos : 0 < h) (hacc : 0 < acc) (herr : 0 ≤ err)
    (hpow : ∀ x e, 0 ≤ x → x ≤ 1 → pow x e ≤ 1)
    (c1 : (0 : K) < MinShrink) (c2 : (MinShrink : K) ≤ HysteresisLow) (c3 : (HysteresisLow : K) < 1)
    (c4 : (0 : K) < Safety) (c5 : (Safety : K) < 1)
    (hna : ¬(errFinite = true ∧ err ≤ acc)) :
    firstGuess pow acc errFinite err p h < h := by
  simp only [firstGuess]
  cases errFinite with
  | false =>
    simp only [Bool.not_false, if_true]
    have : (MinShrink : K) < 1 := lt_of_le_of_lt c2 c3
    nlinarith
  | true =>
    simp only [Bool.not_true, Bool.false_eq_true, if_false]
    have hlt : acc < err := by
      by_contra hc
      exact hna ⟨rfl, not_lt.mp hc⟩
    have hepos : 0 < err := lt_trans hacc hlt
    have hne : ¬((err ≤ ((0 : Nat) : K)) ∧ (((0 : Nat) : K) ≤ err)) := by
      rintro ⟨h1, -⟩
      simp only [Nat.cast_zero] at h1
      exact absurd hepos (not_lt.mpr h1)
    rw [if_neg hne]
    have hq0 : 0 ≤ acc / err := div_nonneg hacc.le hepos.le
    have hq1 : acc / err ≤ 1 := by rw [div_le_one hepos]; exact hlt.le
    have hp := hpow (acc / err) (((1 : Nat) : K) / ((p : Nat) : K)) hq0 hq1
    have sh : 0 < Safety * h := mul_pos c4 hpos
    calc Safety * h * pow (acc / err) (((1 : Nat) : K) / ((p : Nat) : K))
        ≤ Safety * h * 1 := mul_le_mul_of_nonneg_left hp sh.le
      _ = Safety * h := mul_one _
      _ < h := by nlinarith

theorem adjust_success_core (pow : K → K → K) (acc err h : K) (errFinite limited : Bool) (p : Nat)
    (hpos : 0 < h) (hacc : 0 < acc) (herr : 0 ≤ err)
    (hpow : ∀ x e, 0 ≤ x → x ≤ 1 → pow x e ≤ 1)
    (c1 : (0 : K) < MinShrink) (c2 : (MinShrink : K) ≤ HysteresisLow) (c3 : (HysteresisLow : K) < 1)
    (c4 : (0 : K) < Safety) (c5 : (Safety : K) < 1)
    (c6 : (1 : K) < HysteresisHigh) (c7 : (HysteresisHigh : K) ≤ MaxGrow) :
    (adjustStepSize pow acc none none errFinite err p limited h).2 = true
      ↔ (errFinite = true ∧ err ≤ acc) := by
  have core := adjust_core pow acc err h errFinite limited p hpos c1 c2 c3 c6 c7
  simp only at core
  obtain ⟨-, -, k3, k4, -, -, -⟩ := core
  constructor
  · intro hs
    by_contra hna
    have hg := firstGuess_lt pow acc err h errFinite p hpos hacc herr hpow c1 c2 c3 c4 c5 hna
    have := adjust_lt_of_guess_lt pow acc err h none errFinite limited p hpos c1 c2 c3 hg hna
    exact absurd (k3.mp hs) (not_le.mpr this)
  · rintro ⟨h1, h2⟩
    exact k3.mpr (k4 h1 h2)

/-- with a user maximum the success flag still implies the error test -/
theorem adjust_success_umax (pow : K → K → K) (acc err h : K) (umax : Option K) (errFinite limited : Bool) (p : Nat)
    (hpos : 0 < h) (hacc : 0 < acc) (herr : 0 ≤ err)
    (hpow : ∀ x e, 0 ≤ x → x ≤ 1 → pow x e ≤ 1)
    (c1 : (0 : K) < MinShrink) (c2 : (MinShrink : K) ≤ HysteresisLow) (c3 : (HysteresisLow : K) < 1)
    (c4 : (0 : K) < Safety) (c5 : (Safety : K) < 1)
    (hs : (adjustStepSize pow acc none umax errFinite err p limited h).2 = true) :
    errFinite = true ∧ err ≤ acc := by
  by_contra hna
  have hg := firstGuess_lt pow acc err h errFinite p hpos hacc herr hpow c1 c2 c3 c4 c5 hna
  have hlt := adjust_lt_of_guess_lt pow acc err h umax errFinite limited p hpos c1 c2 c3 hg hna
  have : h ≤ (adjustStepSize pow acc none umax errFinite err p limited h).1 := by
    simpa [adjustStepSize] using hs
  exact absurd this (not_le.mpr hlt)

theorem le_cmax_right (a b : K) : b ≤ cmax a b := by
  simp only [cmax]; split_ifs with h <;> [exact le_refl _; exact not_lt.mp h]

theorem lt_cmin (a b c : K) (h1 : c < a) (h2 : c < b) : c < cmin a b := by
  simp only [cmin]; split_ifs <;> assumption

theorem cmin_le_right (a b : K) : cmin a b ≤ b := by
  simp only [cmin]; split_ifs with h <;> [exact le_refl _; exact not_lt.mp h]

theorem le_cmin (a b c : K) (h1 : c ≤ a) (h2 : c ≤ b) : c ≤ cmin a b := by
  simp only [cmin]; split_ifs <;> assumption

/-- the new step size stays positive (no user minimum; a user maximum, if any, is positive) -/
theorem adjust_pos (pow : K → K → K) (acc err h : K) (umax : Option K) (errFinite limited : Bool) (p : Nat)
    (hpos : 0 < h) (c1 : (0 : K) < MinShrink) (humax : ∀ m, umax = some m → 0 < m) :
    0 < (adjustStepSize pow acc none umax errFinite err p limited h).1 := by
  have a : 0 < MinShrink * h := mul_pos c1 hpos
  simp only [adjustStepSize]
  cases umax with
  | none => exact lt_of_lt_of_le a (le_cmax_right _ _)
  | some mx => exact lt_cmin _ _ _ (lt_of_lt_of_le a (le_cmax_right _ _)) (humax mx rfl)

theorem takeOneStep_core {S : Type} (pow : K → K → K) (acc : K) (umax : Option K) (p : Nat)
    (attempt : K → S × K × Bool) (t0 tMax : K) (hmax : t0 < tMax) (hacc : 0 < acc)
    (hpow : ∀ x e, 0 ≤ x → x ≤ 1 → pow x e ≤ 1)
    (hnorm : ∀ t, 0 ≤ (attempt t).2.1) (humax : ∀ m, umax = some m → 0 < m)
    (c1 : (0 : K) < MinShrink) (c2 : (MinShrink : K) ≤ HysteresisLow) (c3 : (HysteresisLow : K) < 1)
    (c4 : (0 : K) < Safety) (c5 : (Safety : K) < 1) (c8 : (0 : K) < LimitLow) (c10 : (1 : K) < LimitHigh)
    (fuel : Nat) (h : K) (nf : Nat) (hpos : 0 < h) :
    let r := takeOneStep pow acc none umax p attempt t0 tMax fuel h nf
    r.ok = true → (r.errNormLast ≤ acc ∧ t0 < r.t1 ∧ r.t1 ≤ tMax ∧ r.lastStep = r.t1 - t0) := by
  induction fuel generalizing h nf with
  | zero => intro r hr; simp [r, takeOneStep] at hr
  | succ n ih =>
    intro r
    simp only [r, takeOneStep]
    split_ifs with hs
    · intro _
      have e := adjust_success_umax pow acc _ h umax _ _ p hpos hacc (hnorm _) hpow c1 c2 c3 c4 c5 hs
      refine ⟨e.2, ?_, ?_, rfl⟩
      · simp only [chooseT1]
        have : 0 < LimitLow * h := mul_pos c8 hpos
        split_ifs <;> linarith
      · simp only [chooseT1]
        have : h < LimitHigh * h := by nlinarith
        split_ifs <;> linarith
    · exact ih _ _ (adjust_pos pow acc _ h umax _ _ p hpos c1 humax)
end Ctl
end C20
