import SimbodyProofs.TreeDynSimAbi

/-!
# TreeDynSimFwd — executed forward dynamics / M⁻¹ / mobilizer reactions against the twin

Input: an ABI-annotated executed tree `ta : Tr (Body × Abi)` satisfying `AbiOK` (established for `Tr.mapUp abiIn t` by
`sim_abi`) whose abstraction is `WF`.  The executed passes are
`Tr.mapUp (fwdIn …)` (`calcUDotPass1Inward`) then `Tr.mapDown (fwdOut …)` (`calcUDotPass2Outward`) on the tree with the bias
table attached, resp. `mInvIn` / `mInvOut` (`multiplyByMInvPass1Inward/Pass2Outward`).
-/

open Matrix

namespace TreeDyn
open TreeDynAbs TreeDynAbs.MBT

variable {K : Type} [Field K]

/-! ## list plumbing for `eps`, `udot` -/

theorem lvec_ofFn (d : Nat) (e : Fin d → K) : lvec d (List.ofFn e) = e := by
  funext j
  simp [lvec, List.getD_eq_getElem?_getD]

theorem lsub_ofFn_right (d : Nat) (l : List K) (h : l.length = d) (a : Fin d → K) :
    lsub l (List.ofFn a) = List.ofFn (lvec d l - a) := by
  apply List.ext_getElem
  · simp [lsub, h]
  · intro i h1 h2
    have hi : i < l.length := by simp [lsub] at h1; omega
    simp [lsub, lvec, List.getD_eq_getElem?_getD, List.getElem?_eq_getElem hi]

theorem lsub_ofFn_ofFn (d : Nat) (a b : Fin d → K) : lsub (List.ofFn a) (List.ofFn b) = List.ofFn (a - b) := by
  apply List.ext_getElem
  · simp [lsub]
  · intro i h1 h2
    simp [lsub]

theorem foldl_add_sum (l : List K) (a : K) : l.foldl (· + ·) a = a + l.sum := by
  induction l generalizing a with
  | nil => simp
  | cons x xs ih => simp only [List.foldl_cons, List.sum_cons, ih]; ring

theorem ldot_ofFn : ∀ (d : Nat) (r : List K) (e : Fin d → K),
    ldot r (List.ofFn e) = ∑ j : Fin d, r.getD j 0 * e j
  | 0, r, e => by simp [ldot]
  | d + 1, [], e => by simp [ldot]
  | d + 1, x :: xs, e => by
      have ih := ldot_ofFn d xs (fun j => e j.succ)
      simp only [ldot, foldl_add_sum, zero_add] at ih ⊢
      rw [List.ofFn_succ, List.zipWith_cons_cons, List.sum_cons, ih, Fin.sum_univ_succ]
      simp

theorem lmulVec_ofFn (d : Nat) (di : List (List K)) (h : di.length = d) (e : Fin d → K) :
    lmulVec di (List.ofFn e) = List.ofFn (lmat d di *ᵥ e) := by
  apply List.ext_getElem
  · simp [lmulVec, h]
  · intro i h1 h2
    have hi : i < di.length := by simpa [lmulVec] using h1
    simp only [lmulVec, List.getElem_map, List.getElem_ofFn, ldot_ofFn, Matrix.mulVec, dotProduct, lmat]
    simp [List.getD_eq_getElem?_getD, List.getElem?_eq_getElem hi]

theorem zkids_sum (ab fb : Bd K I6 → I6 → K) (fm : MobF K I6) (ms : List (MBT K I6)) :
    zkids ab fb fm ms = (ms.map (fun m => (bd m).phi *ᵥ zP ab fb fm m)).sum := by
  induction ms with
  | nil => simp [zkids]
  | cons m ms ih => simp [zkids, ih, zP, eps]

/-! ## forward dynamics -/

section fwd
variable (f udotP : Array K) (tab : Array (Bias K))

/-- decorations of a body for forward dynamics: applied mobility-force block and the bias table entry -/
def exF (b : Body K) : List K × List K × Bias K := ([], slice f b.u0 b.d, tab.getD b.idx Bias.zero)

/-- the executed inward node function with the bias table attached (`attach`) -/
def fwdIn' (x : Body K × Abi K) (ks : List (FwdNode K)) : FwdNode K :=
  fwdIn f udotP (attach Bias.zero tab x) ks

def fwdUp (ta : Tr (Body K × Abi K)) : FwdNode K := (Tr.mapUp (fwdIn' f udotP tab) ta).val

theorem fwdUp_mk (x : Body K × Abi K) (cs : List (Tr (Body K × Abi K))) :
    fwdUp f udotP tab (Tr.mk x cs) = fwdIn' f udotP tab x (cs.map (fwdUp f udotP tab)) := by
  simp only [fwdUp, mapUp_val]; rfl

mutual
/-- **`calcUDotPass1Inward`, every node**: `z`, `z⁺`, `ε` are the twin's -/
theorem sim_fwd_up : ∀ (ta : Tr (Body K × Abi K)), AbiOK (exF f tab) ta → WF (absT (decA (exF f tab)) ta) →
    (fwdUp f udotP tab ta).body = ta.val.1 ∧ (fwdUp f udotP tab ta).abi = ta.val.2 ∧
    (fwdUp f udotP tab ta).bias = tab.getD ta.val.1.idx Bias.zero ∧
    (fwdUp f udotP tab ta).z.toVec = z abF fbF fieldF (absT (decA (exF f tab)) ta) ∧
    (fwdUp f udotP tab ta).eps = List.ofFn (eps abF fbF fieldF (absT (decA (exF f tab)) ta)) ∧
    (fwdUp f udotP tab ta).zPlus.toVec = zP abF fbF fieldF (absT (decA (exF f tab)) ta)
  | Tr.mk x cs, hok, hwf => by
      simp only [AbiOK] at hok
      obtain ⟨hb, hP, _, hG, hGlen, _, hokk⟩ := hok
      have hk := sim_fwd_up_kids cs hokk (WF.kids (by simpa only [absT] using hwf))
      rw [fwdUp_mk]
      -- the executed z
      have hz : (fwdIn' f udotP tab x (cs.map (fwdUp f udotP tab))).z.toVec
          = z abF fbF fieldF (absT (decA (exF f tab)) (Tr.mk x cs)) := by
        simp only [fwdIn', fwdIn, attach, hb, Bool.false_eq_true, if_false, foldl_add_toVec, SV.sub_toVec,
          SV.add_toVec, ArtI.mulSV_toVec, List.map_map, Function.comp_def]
        rw [hk, hP]
        simp only [absT, z, decA, absBd, exF, abF, fbF]
        abel
      have heps : (fwdIn' f udotP tab x (cs.map (fwdUp f udotP tab))).eps
          = List.ofFn (eps abF fbF fieldF (absT (decA (exF f tab)) (Tr.mk x cs))) := by
        have e1 : (fwdIn' f udotP tab x (cs.map (fwdUp f udotP tab))).eps
            = lsub (slice f x.1.u0 x.1.d) (hTMul x.1.H (fwdIn' f udotP tab x (cs.map (fwdUp f udotP tab))).z) := by
          simp only [fwdIn', fwdIn, attach]
        rw [e1, hTMul_eq_ofFn, hz, lsub_ofFn_right x.1.H.length _ (by simp [slice_length, Body.d])]
        simp only [eps, absT, bd, decA, absBd, exF, fieldF, Body.d]
        rfl
      refine ⟨by simp only [fwdIn', fwdIn, attach, Tr.val], by simp only [fwdIn', fwdIn, attach, Tr.val],
        by simp only [fwdIn', fwdIn, attach, Tr.val], hz, heps, ?_⟩
      have e2 : (fwdIn' f udotP tab x (cs.map (fwdUp f udotP tab))).zPlus
          = (fwdIn' f udotP tab x (cs.map (fwdUp f udotP tab))).z.add
              (hMul x.2.G (fwdIn' f udotP tab x (cs.map (fwdUp f udotP tab))).eps) := by
        simp only [fwdIn', fwdIn, attach, hb, Bool.false_eq_true, if_false]
      have hl : lvec x.1.H.length (List.ofFn (eps abF fbF fieldF (absT (decA (exF f tab)) (Tr.mk x cs))))
          = eps abF fbF fieldF (absT (decA (exF f tab)) (Tr.mk x cs)) := lvec_ofFn _ _
      rw [← hMat_eq_cmat] at hG
      rw [e2, SV.add_toVec, hz, heps, hMul_toVec_c x.1.H.length x.2.G hGlen, hl, hG]
      simp only [zP, G, absT, bd, decA, absBd]
      rfl
theorem sim_fwd_up_kids : ∀ (cs : List (Tr (Body K × Abi K))), AbiOKL (exF f tab) cs →
    (∀ c ∈ absL (decA (exF f tab)) cs, WF c) →
    (cs.map (fun c => (phiMul (fwdUp f udotP tab c).body.l (fwdUp f udotP tab c).zPlus).toVec)).sum
      = zkids abF fbF fieldF (absL (decA (exF f tab)) cs)
  | [], _, _ => by simp [absL, zkids]
  | c :: cs, hok, hwf => by
      simp only [AbiOKL] at hok
      simp only [absL, List.mem_cons, forall_eq_or_imp] at hwf
      obtain ⟨h1, _, _, _, _, h6⟩ := sim_fwd_up c hok.1 hwf.1
      rw [List.map_cons, List.sum_cons, sim_fwd_up_kids cs hok.2 hwf.2, zkids_sum, zkids_sum]
      simp only [absL, List.map_cons, List.sum_cons, phiMul_toVec, h1, h6, bd_absT]
      simp only [decA, absBd]
end

/-- the executed outward result at the root of a subtree, given the parent's acceleration `AP` -/
def fwdDown (ta : Tr (Body K × Abi K)) (AP : SV K) : AccNode K :=
  (Tr.mapDown (fwdOut udotP) (Tr.mapUp (fwdIn' f udotP tab) ta) AP).val

theorem fwdDown_eq (ta : Tr (Body K × Abi K)) (AP : SV K) :
    fwdDown f udotP tab ta AP = (fwdOut udotP AP (fwdUp f udotP tab ta)).1 := by
  cases h : Tr.mapUp (fwdIn' f udotP tab) ta with
  | mk y ys => simp only [fwdDown, fwdUp, h, mapDown_mk, Tr.val]

/-- **`calcUDotPass2Outward` and `calcMobilizerReactionForces`, every node**: `u̇`, `A_GB` and the reaction
`z⁺ + P⁺A⁺` of the executed model are the twin's `udotA`, `accP`, `PP A⁺ + zP` -/
theorem sim_fwd_down (ta : Tr (Body K × Abi K)) (AP : SV K) (hok : AbiOK (exF f tab) ta)
    (hwf : WF (absT (decA (exF f tab)) ta)) :
    (fwdDown f udotP tab ta AP).udot
        = List.ofFn (udotA abF fbF fieldF (absT (decA (exF f tab)) ta) ((phiMat ta.val.1.l)ᵀ *ᵥ AP.toVec)) ∧
    (fwdDown f udotP tab ta AP).A.toVec
        = accP abF (udotA abF fbF fieldF) (absT (decA (exF f tab)) ta) ((phiMat ta.val.1.l)ᵀ *ᵥ AP.toVec) ∧
    (reactionAtOrigin (fwdDown f udotP tab ta AP)).toVec
        = PP (absT (decA (exF f tab)) ta) *ᵥ ((phiMat ta.val.1.l)ᵀ *ᵥ AP.toVec)
            + zP abF fbF fieldF (absT (decA (exF f tab)) ta) := by
  obtain ⟨h1, h2, h3, _, h5, h6⟩ := sim_fwd_up f udotP tab ta hok hwf
  cases ta with
  | mk x cs =>
    simp only [AbiOK] at hok
    obtain ⟨hb, hP, hPP, hG, hGlen, hDIlen, _⟩ := hok
    simp only [Tr.val] at h1 h2 h3 ⊢
    rw [fwdDown_eq]
    have hbp : (fwdUp f udotP tab (Tr.mk x cs)).body.presc = false := by rw [h1]; exact hb
    have hud : (fwdOut udotP AP (fwdUp f udotP tab (Tr.mk x cs))).1.udot
        = List.ofFn (udotA abF fbF fieldF (absT (decA (exF f tab)) (Tr.mk x cs)) ((phiMat x.1.l)ᵀ *ᵥ AP.toVec)) := by
      simp only [fwdOut, hbp, hb, Bool.false_eq_true, if_false, h1, h2, h5]
      have hm : lmulVec x.2.DI (List.ofFn (eps abF fbF fieldF (absT (decA (exF f tab)) (Tr.mk x cs))))
          = List.ofFn (lmat x.1.H.length x.2.DI *ᵥ eps abF fbF fieldF (absT (decA (exF f tab)) (Tr.mk x cs))) :=
        lmulVec_ofFn x.1.H.length x.2.DI hDIlen _
      rw [← hMat_eq_cmat] at hG
      rw [hm, hTMul_ofFn_c x.1.H.length x.2.G hGlen, lsub_ofFn_ofFn, phiTMul_toVec, hG]
      simp only [udotA, G, absT, bd, decA, absBd]
      rfl
    refine ⟨hud, ?_, ?_⟩
    · have e : (fwdOut udotP AP (fwdUp f udotP tab (Tr.mk x cs))).1.A
          = ((phiTMul (fwdUp f udotP tab (Tr.mk x cs)).body.l AP).add
              (hMul (fwdUp f udotP tab (Tr.mk x cs)).body.H (fwdOut udotP AP (fwdUp f udotP tab (Tr.mk x cs))).1.udot)).add
              (fwdUp f udotP tab (Tr.mk x cs)).bias.a := by
        simp only [fwdOut]
      have hl2 : lvec x.1.H.length (List.ofFn (udotA abF fbF fieldF (absT (decA (exF f tab)) (Tr.mk x cs))
            ((phiMat x.1.l)ᵀ *ᵥ AP.toVec)))
          = udotA abF fbF fieldF (absT (decA (exF f tab)) (Tr.mk x cs)) ((phiMat x.1.l)ᵀ *ᵥ AP.toVec) := lvec_ofFn _ _
      rw [e, hud, h1, h3]
      simp only [SV.add_toVec, phiTMul_toVec, hMul_toVec]
      rw [hl2]
      simp only [accP, absT, bd, decA, absBd, exF, abF]
      rfl
    · simp only [reactionAtOrigin, fwdOut, SV.add_toVec, ArtI.mulSV_toVec, phiTMul_toVec, h1, h2, h6, hPP]
      abel
end fwd


/-! ## multiplyByMInv : `mInvIn` / `mInvOut`  ↔  `zP zb zb`, `udotA zb zb`, `accP zb` -/

section minv
variable (f : Array K)

/-- decorations for `M⁻¹ f`: the block of `f`; zero bias -/
def exM (b : Body K) : List K × List K × Bias K := ([], slice f b.u0 b.d, Bias.zero)

def mInvUp (ta : Tr (Body K × Abi K)) : Body K × Abi K × SV K × List K := (Tr.mapUp (mInvIn f) ta).val

theorem mInvUp_mk (x : Body K × Abi K) (cs : List (Tr (Body K × Abi K))) :
    mInvUp f (Tr.mk x cs) = mInvIn f x (cs.map (mInvUp f)) := by
  simp only [mInvUp, mapUp_val]; rfl

theorem z_zb (fm : MobF K I6) (n : Bd K I6) (ms : List (MBT K I6)) :
    z zb zb fm (MBT.mk n ms) = zkids zb zb fm ms := by
  simp [z, zb]

mutual
/-- **`multiplyByMInvPass1Inward`, every node** -/
theorem sim_mInv_up : ∀ (ta : Tr (Body K × Abi K)), AbiOK (exM f) ta → WF (absT (decA (exM f)) ta) →
    (mInvUp f ta).1 = ta.val.1 ∧ (mInvUp f ta).2.1 = ta.val.2 ∧
    (mInvUp f ta).2.2.2 = List.ofFn (eps zb zb fieldF (absT (decA (exM f)) ta)) ∧
    (mInvUp f ta).2.2.1.toVec = zP zb zb fieldF (absT (decA (exM f)) ta)
  | Tr.mk x cs, hok, hwf => by
      simp only [AbiOK] at hok
      obtain ⟨hb, _, _, hG, hGlen, _, hokk⟩ := hok
      have hk := sim_mInv_up_kids cs hokk (WF.kids (by simpa only [absT] using hwf))
      rw [mInvUp_mk]
      have hz : (List.foldl
            (fun (acc : SV K) (c : Body K × Abi K × SV K × List K) => acc.add (phiMul c.1.l c.2.2.1)) SV.zero
            (cs.map (mInvUp f))).toVec = z zb zb fieldF (absT (decA (exM f)) (Tr.mk x cs)) := by
        rw [foldl_add_toVec, SV.zero_toVec, zero_add]
        simp only [List.map_map, Function.comp_def]
        rw [hk]
        simp only [absT, z_zb]
      have heps : (mInvIn f x (cs.map (mInvUp f))).2.2.2
          = List.ofFn (eps zb zb fieldF (absT (decA (exM f)) (Tr.mk x cs))) := by
        simp only [mInvIn, hb, Bool.false_eq_true, if_false]
        rw [hTMul_eq_ofFn, hz, lsub_ofFn_right x.1.H.length _ (by simp [slice_length, Body.d])]
        simp only [eps, absT, bd, decA, absBd, exM, fieldF, Body.d]
        rfl
      refine ⟨by simp only [mInvIn, Tr.val]; split <;> rfl, by simp only [mInvIn, Tr.val]; split <;> rfl, heps, ?_⟩
      have hl : lvec x.1.H.length (List.ofFn (eps zb zb fieldF (absT (decA (exM f)) (Tr.mk x cs))))
          = eps zb zb fieldF (absT (decA (exM f)) (Tr.mk x cs)) := lvec_ofFn _ _
      have e2 : (mInvIn f x (cs.map (mInvUp f))).2.2.1
          = ((cs.map (mInvUp f)).foldl
              (fun (acc : SV K) (c : Body K × Abi K × SV K × List K) => acc.add (phiMul c.1.l c.2.2.1)) SV.zero).add
              (hMul x.2.G (mInvIn f x (cs.map (mInvUp f))).2.2.2) := by
        simp only [mInvIn, hb, Bool.false_eq_true, if_false]
      rw [← hMat_eq_cmat] at hG
      rw [e2, SV.add_toVec, hz, heps, hMul_toVec_c x.1.H.length x.2.G hGlen, hl, hG]
      simp only [zP, G, absT, bd, decA, absBd]
      rfl
theorem sim_mInv_up_kids : ∀ (cs : List (Tr (Body K × Abi K))), AbiOKL (exM f) cs →
    (∀ c ∈ absL (decA (exM f)) cs, WF c) →
    (cs.map (fun c => (phiMul (mInvUp f c).1.l (mInvUp f c).2.2.1).toVec)).sum
      = zkids zb zb fieldF (absL (decA (exM f)) cs)
  | [], _, _ => by simp [absL, zkids]
  | c :: cs, hok, hwf => by
      simp only [AbiOKL] at hok
      simp only [absL, List.mem_cons, forall_eq_or_imp] at hwf
      obtain ⟨h1, _, _, h4⟩ := sim_mInv_up c hok.1 hwf.1
      rw [List.map_cons, List.sum_cons, sim_mInv_up_kids cs hok.2 hwf.2, zkids_sum, zkids_sum]
      simp only [absL, List.map_cons, List.sum_cons, phiMul_toVec, h1, h4, bd_absT]
      simp only [decA, absBd]
end

/-- the executed outward result `((u0, block of M⁻¹f), A)` at the root of a subtree -/
def mInvDown (ta : Tr (Body K × Abi K)) (AP : SV K) : (Nat × List K) × SV K :=
  mInvOut AP (mInvUp f ta)

theorem mInvDown_val (ta : Tr (Body K × Abi K)) (AP : SV K) :
    (Tr.mapDown mInvOut (Tr.mapUp (mInvIn f) ta) AP).val = (mInvDown f ta AP).1 := by
  cases h : Tr.mapUp (mInvIn f) ta with
  | mk y ys => simp only [mInvDown, mInvUp, h, mapDown_mk, Tr.val]

/-- **`multiplyByMInvPass2Outward`, every node**: the block of `M⁻¹ f` is the twin's `udotA zb zb` and the propagated
acceleration is `accP zb` -/
theorem sim_mInv_down (ta : Tr (Body K × Abi K)) (AP : SV K) (hok : AbiOK (exM f) ta)
    (hwf : WF (absT (decA (exM f)) ta)) :
    (mInvDown f ta AP).1.2
        = List.ofFn (udotA zb zb fieldF (absT (decA (exM f)) ta) ((phiMat ta.val.1.l)ᵀ *ᵥ AP.toVec)) ∧
    (mInvDown f ta AP).2.toVec
        = accP zb (udotA zb zb fieldF) (absT (decA (exM f)) ta) ((phiMat ta.val.1.l)ᵀ *ᵥ AP.toVec) := by
  obtain ⟨h1, h2, h3, _⟩ := sim_mInv_up f ta hok hwf
  cases ta with
  | mk x cs =>
    simp only [AbiOK] at hok
    obtain ⟨hb, _, _, hG, hGlen, hDIlen, _⟩ := hok
    simp only [Tr.val] at h1 h2 ⊢
    have hud : (mInvDown f (Tr.mk x cs) AP).1.2
        = List.ofFn (udotA zb zb fieldF (absT (decA (exM f)) (Tr.mk x cs)) ((phiMat x.1.l)ᵀ *ᵥ AP.toVec)) := by
      simp only [mInvDown, mInvOut, h1, h2, h3, hb, Bool.false_eq_true, if_false]
      have hm : lmulVec x.2.DI (List.ofFn (eps zb zb fieldF (absT (decA (exM f)) (Tr.mk x cs))))
          = List.ofFn (lmat x.1.H.length x.2.DI *ᵥ eps zb zb fieldF (absT (decA (exM f)) (Tr.mk x cs))) :=
        lmulVec_ofFn x.1.H.length x.2.DI hDIlen _
      rw [← hMat_eq_cmat] at hG
      rw [hm, hTMul_ofFn_c x.1.H.length x.2.G hGlen, lsub_ofFn_ofFn, phiTMul_toVec, hG]
      simp only [udotA, G, absT, bd, decA, absBd]
      rfl
    refine ⟨hud, ?_⟩
    have e : (mInvDown f (Tr.mk x cs) AP).2
        = (phiTMul x.1.l AP).add (hMul x.1.H (mInvDown f (Tr.mk x cs) AP).1.2) := by
      simp only [mInvDown, mInvOut, h1, hb, Bool.false_eq_true, if_false]
    have hl2 : lvec x.1.H.length (List.ofFn (udotA zb zb fieldF (absT (decA (exM f)) (Tr.mk x cs))
          ((phiMat x.1.l)ᵀ *ᵥ AP.toVec)))
        = udotA zb zb fieldF (absT (decA (exM f)) (Tr.mk x cs)) ((phiMat x.1.l)ᵀ *ᵥ AP.toVec) := lvec_ofFn _ _
    rw [e, hud]
    simp only [SV.add_toVec, phiTMul_toVec, hMul_toVec]
    rw [hl2, accP_zb]
    simp only [absT, bd, decA, absBd]
    rfl
end minv

end TreeDyn
