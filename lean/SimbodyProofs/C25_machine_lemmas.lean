import SimbodyModel.C25
import SimbodyModel.C25_machine
import SimbodyProofs.C25_lemmas

/-!
# C25 — lemmas about the executed object/view state machine (`SimbodyModel/C25_machine.lean`)

Store-size invariant of `step`, frame property (stores of untouched handles are unchanged).
-/
namespace C25
set_option linter.unusedSectionVars false

variable {K : Type} [Add K] [Sub K] [Mul K] [Neg K] [OfNat K 0]

/-- writing through a view never changes the size of the store (out-of-range writes are dropped by `setIfInBounds`) -/
theorem writeView_size (s : Array K) (v : RView) (f : Nat → Nat → K) : (writeView s v f).size = s.size := by
  unfold writeView
  generalize indexPairs v.nr v.nc = l
  induction l generalizing s with
  | nil => rfl
  | cons p t ih => simp only [List.foldl_cons]; rw [ih]; simp [rset]

theorem rset_size (s : Array K) (v : RView) (i j : Nat) (x : K) : (rset s v i j x).size = s.size := by
  simp [rset]

/-- an owner's flat store has exactly as many cells as its layout addresses -/
def ObjOK (ob : Obj K) : Prop := ob.isOwner = true → ob.store.size = ob.layout.nr * ob.layout.nc

/-- the store-size invariant of the machine state -/
def Inv (st : St K) : Prop := ∀ (i : Nat) (ob : Obj K), st[i]? = some ob → ObjOK ob

def OutInv : Outcome K → Prop
  | .ok st' _ _ => Inv st'
  | .exc _ => True
  | .illegal => True

theorem inv_set {st : St K} (h : Inv st) (o : Nat) (ob : Obj K) (hob : ObjOK ob) : Inv (st.set! o ob) := by
  intro i x hx
  simp only [Array.set!, Array.getElem?_setIfInBounds] at hx
  split at hx
  · split at hx
    · simp only [Option.some.injEq] at hx; subst hx; exact hob
    · simp at hx
  · exact h i x hx

theorem objOK_empty (i : Nat) : ObjOK (emptyObj K i) := by
  intro _
  unfold emptyObj
  cases kindOfIdx i <;> simp [Obj.layout, layoutOf, AView.ownerMatrix, AView.ownerVector, AView.ownerRowVector]

theorem inv_init : Inv (initSt K) := by
  intro i ob h
  simp only [initSt, Array.getElem?_map] at h
  cases hr : (Array.range 8)[i]? with
  | none => simp [hr] at h
  | some k => simp only [hr, Option.map_some, Option.some.injEq] at h; subst h; exact objOK_empty k

theorem ownerStore_size (k : Kind) (ro : Bool) (d : Dense K) :
    (ownerStore k ro d).size = (layoutOf k ro d.nr d.nc).nr * (layoutOf k ro d.nr d.nc).nc := by
  simp [ownerStore, writeView_size]

theorem assignOwner_inv {st : St K} (h : Inv st) (o : Nat) (d : Dense K) (mag : Nat) : Inv (assignOwner st o d mag) := by
  unfold assignOwner
  cases ho : st[o]? with
  | none => exact h
  | some ob =>
    simp only
    apply inv_set h
    intro _
    simp [ownerStore_size, Obj.layout]

theorem writeRes_inv {st : St K} (h : Inv st) (r : Res) (d : Dense K) (mag : Nat) : Inv (writeRes st r d mag) := by
  unfold writeRes
  cases ho : st[r.owner]? with
  | none => exact h
  | some ob =>
    simp only
    apply inv_set h
    intro hown
    simp only [writeView_size]
    exact h _ _ ho hown

theorem unIP_inv {st : St K} (h : Inv st) (d : Expr) (f : Dense K → Dense K) (mag : Nat → Nat) :
    OutInv (unIP st d f mag) := by
  unfold unIP
  repeat' (first | trivial | exact writeRes_inv h _ _ _ | split | dsimp only)

theorem binIP_inv {st : St K} (h : Inv st) (d s : Expr) (f : Dense K → Dense K → Dense K)
    (req : Res → Res → Bool) (mag : Nat → Nat → Nat) : OutInv (binIP st d s f req mag) := by
  unfold binIP
  repeat' (first | trivial | exact writeRes_inv h _ _ _ | split | dsimp only)

theorem inv_set_store {st : St K} (h : Inv st) (b : Nat) (bb : Obj K) (hbb : st[b]? = some bb) (v : RView)
    (f : Nat → Nat → K) (m : Nat) : Inv (st.set! b { bb with store := writeView bb.store v f, mag := m }) := by
  apply inv_set h
  intro hown
  simp only [writeView_size]
  exact h _ _ hbb hown

theorem produce_inv {st : St K} (h : Inv st) (o : Nat) (d : Dense K) (mag : Nat) (src : List Nat) :
    OutInv (produce st o d mag src) := by
  unfold produce
  repeat' (first | trivial | exact assignOwner_inv h _ _ _ | (apply inv_set_store h; assumption) | split | dsimp only)

/-- closes `ObjOK x` for the objects `step` stores: empty handles, view handles, and objects of the old state with
an unchanged-size store -/
macro "objok" h:ident : tactic => `(tactic| first
  | exact objOK_empty _
  | (intro hown; exact absurd hown Bool.false_ne_true)
  | (intro hown; (try simp only [ownerStore_size, rset_size, writeView_size, Obj.layout]); first | done | rfl | exact $h _ _ (by assumption) hown))

macro "inv_leaf" h:ident : tactic => `(tactic| first
  | trivial
  | exact $h
  | exact unIP_inv $h _ _ _
  | exact binIP_inv $h _ _ _ _ _
  | exact produce_inv $h _ _ _ _
  | exact assignOwner_inv $h _ _ _
  | exact writeRes_inv $h _ _ _
  | (apply inv_set_store $h; assumption)
  | (apply inv_set $h; objok $h))

/-- **the store-size invariant is preserved by every operation of the executed machine** -/
theorem step_inv [Div K] [OfNat K 1] (sc : Scal K) (st : St K) (op : Op K) (h : Inv st) : OutInv (step sc st op) := by
  cases op <;> simp only [step] <;> repeat' (first | inv_leaf h | split | dsimp only)

/-! ## frame property: handles an operation does not report as touched are left exactly as they were -/

def Frame (st st' : St K) (touched : List Nat) : Prop :=
  st'.size = st.size ∧ ∀ i : Nat, i ∉ touched → st'[i]? = st[i]?

def OutFrame (st : St K) : Outcome K → Prop
  | .ok st' _ t => Frame st st' t
  | .exc _ => True
  | .illegal => True

theorem frame_refl (st : St K) (t : List Nat) : Frame st st t := ⟨rfl, fun _ _ => rfl⟩

theorem frame_set (st : St K) (o : Nat) (x : Obj K) (t : List Nat) (ho : o ∈ t) : Frame st (st.set! o x) t := by
  refine ⟨by simp [Array.set!], ?_⟩
  intro i hi
  simp only [Array.set!, Array.getElem?_setIfInBounds]
  split
  · rename_i h; subst h; exact absurd ho hi
  · rfl

theorem assignOwner_frame (st : St K) (o : Nat) (d : Dense K) (m : Nat) (t : List Nat) (ho : o ∈ t) :
    Frame st (assignOwner st o d m) t := by
  unfold assignOwner
  split
  · exact frame_refl _ _
  · exact frame_set _ _ _ _ ho

theorem writeRes_frame (st : St K) (r : Res) (d : Dense K) (m : Nat) (t : List Nat) (ho : r.owner ∈ t) :
    Frame st (writeRes st r d m) t := by
  unfold writeRes
  split
  · exact frame_refl _ _
  · exact frame_set _ _ _ _ ho

macro "frame_leaf" : tactic => `(tactic| first
  | trivial
  | exact frame_refl _ _
  | (apply frame_set; simp)
  | (apply assignOwner_frame; simp)
  | (apply writeRes_frame; simp))

theorem unIP_frame (st : St K) (d : Expr) (f : Dense K → Dense K) (mag : Nat → Nat) : OutFrame st (unIP st d f mag) := by
  unfold unIP
  repeat' (first | frame_leaf | split | dsimp only)

theorem binIP_frame (st : St K) (d s : Expr) (f : Dense K → Dense K → Dense K) (req : Res → Res → Bool)
    (mag : Nat → Nat → Nat) : OutFrame st (binIP st d s f req mag) := by
  unfold binIP
  repeat' (first | frame_leaf | split | dsimp only)

theorem produce_frame (st : St K) (o : Nat) (d : Dense K) (mag : Nat) (src : List Nat) :
    OutFrame st (produce st o d mag src) := by
  unfold produce
  repeat' (first | frame_leaf | split | dsimp only)

/-- **frame**: an operation leaves every handle it does not report as touched exactly as it was (store, shape,
view recipe, lock), and never changes the number of handles -/
theorem step_frame [Div K] [OfNat K 1] (sc : Scal K) (st : St K) (op : Op K) : OutFrame st (step sc st op) := by
  cases op <;> simp only [step] <;>
    repeat' (first | frame_leaf | exact unIP_frame _ _ _ _ | exact binIP_frame _ _ _ _ _ _ | exact produce_frame _ _ _ _ _
                   | split | dsimp only)

end C25
