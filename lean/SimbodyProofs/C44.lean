import SimbodyModel.C44
import SimbodyProofs.C44_lemmas
import Mathlib.Tactic.Ring
import Mathlib.Tactic.FieldSimp
import Mathlib.Tactic.Linarith
import Mathlib.Tactic.Positivity
import Mathlib.Tactic.NormNum
import Mathlib.Algebra.Order.Field.Basic

/-!
# C44 — property theorems: projected Gauss–Seidel impulses satisfy the contact inequalities

Over an arbitrary linear ordered field `K` with any `sqrt` satisfying `SqrtSpec`.  The model
(`SimbodyModel/C44.lean`) mirrors `PGSImpulseSolver::solve`.  Indices: `n` is the length of `pi`; every row index of a
constraint is `< n`; row sets of different constraints are disjoint as far as stated in `WellFormed`.
-/
set_option linter.unusedSectionVars false
namespace C44
variable {K : Type} [Field K] [LinearOrder K] [IsStrictOrderedRing K]

/-- the algebraic specification assumed of the square-root routine -/
structure SqrtSpec (sqrt : K → K) : Prop where
  sq : ∀ x, 0 ≤ x → sqrt x * sqrt x = x
  nonneg : ∀ x, 0 ≤ x → 0 ≤ sqrt x

/-! ## bound_postconditions -/

/-- `boundUnilateral`: afterwards `sign·pi ≤ 0` (the contact pushes, never pulls) -/
theorem boundUnilateral_post (sign pi : K) : sign * (boundUnilateral sign pi).1 ≤ 0 := by
  unfold boundUnilateral
  split_ifs with h
  · simp
  · exact not_lt.mp h

/-- `boundScalar`: afterwards `lb ≤ pi ≤ ub` -/
theorem boundScalar_post (lb pi ub : K) (h : lb ≤ ub) :
    lb ≤ (boundScalar lb pi ub).1 ∧ (boundScalar lb pi ub).1 ≤ ub := by
  unfold boundScalar
  split_ifs with h1 h2
  · exact ⟨h, le_refl _⟩
  · exact ⟨le_refl _, h⟩
  · exact ⟨not_lt.mp h2, not_lt.mp h1⟩

/-- **projection onto the ball**: the result has squared norm at most `limit2`; when the vector had to be scaled the
squared norm is *exactly* `limit2` (Sliding: on the boundary); when not, the vector is unchanged (Rolling) -/
theorem scaleToLimit_post (sqrt : K → K) (hs : SqrtSpec sqrt) (limit2 : K) (h0 : 0 ≤ limit2) (vs : List K) :
    normSq (scaleToLimit sqrt limit2 vs).1 ≤ limit2 ∧
    ((scaleToLimit sqrt limit2 vs).2 = false → normSq (scaleToLimit sqrt limit2 vs).1 = limit2) ∧
    ((scaleToLimit sqrt limit2 vs).2 = true → (scaleToLimit sqrt limit2 vs).1 = vs) := by
  unfold scaleToLimit
  simp only
  split_ifs with h
  · exact ⟨h, by simp, by simp⟩
  · have hn : limit2 < normSq vs := not_le.mp h
    have hpos : 0 < normSq vs := lt_of_le_of_lt h0 hn
    have hq : 0 ≤ limit2 / normSq vs := div_nonneg h0 (le_of_lt hpos)
    have e : normSq (vs.map (fun v => v * sqrt (limit2 / normSq vs))) = limit2 := by
      rw [normSq_map_mul, hs.sq _ hq]; field_simp
    exact ⟨le_of_eq e, fun _ => e, by simp⟩

/-- `boundVector(maxLen, IV, pi)`: afterwards `‖pi[IV]‖² ≤ maxLen²`, with equality when it reports Sliding -/
theorem boundVector_post (sqrt : K → K) (hs : SqrtSpec sqrt) (maxLen : K) (IV : List Nat) (pi : Array K)
    (hnd : IV.Nodup) (hlt : ∀ i ∈ IV, i < pi.size) :
    normSq (gather (boundVector sqrt maxLen IV pi).1 IV) ≤ square maxLen ∧
    ((boundVector sqrt maxLen IV pi).2 = false → normSq (gather (boundVector sqrt maxLen IV pi).1 IV) = square maxLen) := by
  have h0 : (0 : K) ≤ square maxLen := mul_self_nonneg _
  obtain ⟨p1, p2, p3⟩ := scaleToLimit_post sqrt hs (square maxLen) h0 (gather pi IV)
  unfold boundVector
  simp only
  cases hb : (scaleToLimit sqrt (square maxLen) (gather pi IV)).2
  · have hlen : IV.length = (scaleToLimit sqrt (square maxLen) (gather pi IV)).1.length := by
      rw [scaleToLimit_length]; simp [gather]
    simp only [Bool.false_eq_true, if_false]
    rw [gather_scatter _ _ _ hnd hlt hlen]
    exact ⟨p1, fun _ => p2 hb⟩
  · simp only [if_true]
    rw [← p3 hb]
    exact ⟨p1, fun h => by simp at h⟩

/-- `boundFriction(mu, IN, IF, pi)`: afterwards `‖pi[IF]‖² ≤ mu²·‖pi[IN]‖²` (normal rows are not modified) -/
theorem boundFriction_post (sqrt : K → K) (hs : SqrtSpec sqrt) (mu : K) (IN IF : List Nat) (pi : Array K)
    (hnd : IF.Nodup) (hlt : ∀ i ∈ IF, i < pi.size) (hdisj : ∀ j ∈ IN, j ∉ IF) :
    normSq (gather (boundFriction sqrt mu IN IF pi).1 IF)
      ≤ mu * mu * normSq (gather (boundFriction sqrt mu IN IF pi).1 IN) := by
  have hN : gather (boundFriction sqrt mu IN IF pi).1 IN = gather pi IN :=
    gather_congr _ _ _ (fun j hj => boundFriction_frame sqrt mu IN IF pi j (hdisj j hj))
  rw [hN]
  have h0 : (0 : K) ≤ mu * mu * normSq (gather pi IN) := mul_nonneg (mul_self_nonneg _) (normSq_nonneg _)
  obtain ⟨p1, _, p3⟩ := scaleToLimit_post sqrt hs _ h0 (gather pi IF)
  unfold boundFriction
  simp only
  cases hb : (scaleToLimit sqrt (mu * mu * normSq (gather pi IN)) (gather pi IF)).2
  · have hlen : IF.length = (scaleToLimit sqrt (mu * mu * normSq (gather pi IN)) (gather pi IF)).1.length := by
      rw [scaleToLimit_length]; simp [gather]
    simp only [Bool.false_eq_true, if_false]
    rw [gather_scatter _ _ _ hnd hlt hlen]
    exact p1
  · simp only [if_true]
    rw [← p3 hb]; exact p1

/-- forget the condition codes of a sweep result -/
def Sweep.toSt' (s : Sweep K) : St K := { pi := s.pi, sum2all := s.sum2all, sum2enf := s.sum2enf }

/-! ## the inequality each constraint kind must satisfy -/

def QNormal (c : UniContact K) (pi : Array K) : Prop := c.type = 2 → c.sign * vget pi c.Nk ≤ 0
def QFriction (piE : Array K) (c : UniContact K) (pi : Array K) : Prop :=
  (c.type ≠ 0 ∧ ¬ c.Fk.isEmpty) → normSq (gather pi c.Fk) ≤ square (c.mu * absK (vget pi c.Nk + vget piE c.Nk))
def QBounded (b : Bounded K) (pi : Array K) : Prop := b.lb ≤ vget pi b.ix ∧ vget pi b.ix ≤ b.ub
def QState (s : StateLtd K) (pi : Array K) : Prop := normSq (gather pi s.Fk) ≤ square (s.mu * s.knownN)
def QCons (c : ConsLtd K) (pi : Array K) : Prop := normSq (gather pi c.Fk) ≤ c.mu * c.mu * normSq (gather pi c.Nk)

/-- rows written by the steps -/
def rowsNormal (c : UniContact K) : List Nat := [c.Nk]
def rowsFriction (c : UniContact K) : List Nat := c.Fk
def readsFriction (c : UniContact K) : List Nat := c.Nk :: c.Fk

variable (sqrt : K → K) (cols : List Nat) (A : Array (Array K)) (D rhs piE : Array K) (sor : K)

/-! ### every step keeps the size, touches only its rows, and establishes its inequality -/

theorem stepUncond_size (st : St K) (g : List Nat) : (stepUncond cols A D rhs sor st g).1.pi.size = st.pi.size :=
  updateGroup_size ..
theorem stepUncond_frame (st : St K) (g : List Nat) (j : Nat) (h : j ∉ g) :
    vget (stepUncond cols A D rhs sor st g).1.pi j = vget st.pi j := updateGroup_frame _ _ _ _ _ _ _ _ h

theorem stepNormal_size (st : St K) (c : UniContact K) : (stepNormal cols A D rhs sor st c).1.pi.size = st.pi.size := by
  unfold stepNormal; split_ifs
  · simp [vset_size, doUpdate_size]
  · rfl
theorem stepNormal_frame (st : St K) (c : UniContact K) (j : Nat) (h : j ∉ rowsNormal c) :
    vget (stepNormal cols A D rhs sor st c).1.pi j = vget st.pi j := by
  have hne : j ≠ c.Nk := by simpa [rowsNormal] using h
  unfold stepNormal; split_ifs
  · simp only; rw [vget_vset_ne _ _ _ _ (Ne.symm hne), doUpdate_frame _ _ _ _ _ _ _ _ hne]
  · rfl
theorem stepNormal_post (st : St K) (c : UniContact K) (n : Nat) (hn : st.pi.size = n) (hlt : c.Nk < n) :
    QNormal c (stepNormal cols A D rhs sor st c).1.pi := by
  intro ht
  unfold stepNormal; rw [if_pos ht]; simp only
  rw [vget_vset_self _ _ _ (by rw [doUpdate_size, hn]; exact hlt)]
  exact boundUnilateral_post _ _

theorem stepFriction_size (st : St K) (c : UniContact K) :
    (stepFriction sqrt cols A D rhs piE sor st c).1.pi.size = st.pi.size := by
  unfold stepFriction; split_ifs
  · simp [boundVector_size, updateGroup_size]
  · rfl
theorem stepFriction_frame (st : St K) (c : UniContact K) (j : Nat) (h : j ∉ rowsFriction c) :
    vget (stepFriction sqrt cols A D rhs piE sor st c).1.pi j = vget st.pi j := by
  have h : j ∉ c.Fk := h
  unfold stepFriction; split_ifs
  · simp only; rw [boundVector_frame _ _ _ _ _ h, updateGroup_frame _ _ _ _ _ _ _ _ h]
  · rfl
theorem stepFriction_post (hs : SqrtSpec sqrt) (st : St K) (c : UniContact K) (n : Nat) (hn : st.pi.size = n)
    (hwf : (∀ i ∈ c.Fk, i < n) ∧ c.Fk.Nodup ∧ c.Nk ∉ c.Fk) :
    QFriction piE c (stepFriction sqrt cols A D rhs piE sor st c).1.pi := by
  intro ht
  unfold stepFriction; rw [if_pos ht]; simp only
  have hsz : (updateGroup cols c.Fk A D rhs sor st.pi).1.size = n := by rw [updateGroup_size, hn]
  have hN : vget (boundVector sqrt (c.mu * absK (vget (updateGroup cols c.Fk A D rhs sor st.pi).1 c.Nk + vget piE c.Nk)) c.Fk
      (updateGroup cols c.Fk A D rhs sor st.pi).1).1 c.Nk = vget (updateGroup cols c.Fk A D rhs sor st.pi).1 c.Nk :=
    boundVector_frame _ _ _ _ _ hwf.2.2
  rw [hN]
  exact (boundVector_post sqrt hs _ c.Fk _ hwf.2.1 (fun i hi => by rw [hsz]; exact hwf.1 i hi)).1

theorem stepBounded_size (st : St K) (b : Bounded K) : (stepBounded cols A D rhs sor st b).1.pi.size = st.pi.size := by
  unfold stepBounded; simp [vset_size, doUpdate_size]
theorem stepBounded_frame (st : St K) (b : Bounded K) (j : Nat) (h : j ∉ [b.ix]) :
    vget (stepBounded cols A D rhs sor st b).1.pi j = vget st.pi j := by
  have hne : j ≠ b.ix := by simpa using h
  unfold stepBounded; simp only
  rw [vget_vset_ne _ _ _ _ (Ne.symm hne), doUpdate_frame _ _ _ _ _ _ _ _ hne]
theorem stepBounded_post (st : St K) (b : Bounded K) (n : Nat) (hn : st.pi.size = n) (hwf : b.ix < n ∧ b.lb ≤ b.ub) :
    QBounded b (stepBounded cols A D rhs sor st b).1.pi := by
  unfold stepBounded QBounded; simp only
  rw [vget_vset_self _ _ _ (by rw [doUpdate_size, hn]; exact hwf.1)]
  exact boundScalar_post _ _ _ hwf.2

theorem stepStateLtd_size (st : St K) (s : StateLtd K) :
    (stepStateLtd sqrt cols A D rhs sor st s).1.pi.size = st.pi.size := by
  unfold stepStateLtd; simp [boundVector_size, updateGroup_size]
theorem stepStateLtd_frame (st : St K) (s : StateLtd K) (j : Nat) (h : j ∉ s.Fk) :
    vget (stepStateLtd sqrt cols A D rhs sor st s).1.pi j = vget st.pi j := by
  unfold stepStateLtd; simp only; rw [boundVector_frame _ _ _ _ _ h, updateGroup_frame _ _ _ _ _ _ _ _ h]
theorem stepStateLtd_post (hs : SqrtSpec sqrt) (st : St K) (s : StateLtd K) (n : Nat) (hn : st.pi.size = n)
    (hwf : (∀ i ∈ s.Fk, i < n) ∧ s.Fk.Nodup) : QState s (stepStateLtd sqrt cols A D rhs sor st s).1.pi := by
  unfold stepStateLtd QState; simp only
  have hsz : (updateGroup cols s.Fk A D rhs sor st.pi).1.size = n := by rw [updateGroup_size, hn]
  exact (boundVector_post sqrt hs _ s.Fk _ hwf.2 (fun i hi => by rw [hsz]; exact hwf.1 i hi)).1

theorem stepConsLtd_size (st : St K) (c : ConsLtd K) :
    (stepConsLtd sqrt cols A D rhs sor st c).1.pi.size = st.pi.size := by
  unfold stepConsLtd; simp [boundFriction_size, updateGroup_size]
theorem stepConsLtd_frame (st : St K) (c : ConsLtd K) (j : Nat) (h : j ∉ c.Fk) :
    vget (stepConsLtd sqrt cols A D rhs sor st c).1.pi j = vget st.pi j := by
  unfold stepConsLtd; simp only; rw [boundFriction_frame _ _ _ _ _ _ h, updateGroup_frame _ _ _ _ _ _ _ _ h]
theorem stepConsLtd_post (hs : SqrtSpec sqrt) (st : St K) (c : ConsLtd K) (n : Nat) (hn : st.pi.size = n)
    (hwf : (∀ i ∈ c.Fk, i < n) ∧ c.Fk.Nodup ∧ (∀ j ∈ c.Nk, j ∉ c.Fk)) :
    QCons c (stepConsLtd sqrt cols A D rhs sor st c).1.pi := by
  unfold stepConsLtd QCons; simp only
  have hsz : (updateGroup cols c.Fk A D rhs sor st.pi).1.size = n := by rw [updateGroup_size, hn]
  exact boundFriction_post sqrt hs _ c.Nk c.Fk _ hwf.2.1 (fun i hi => by rw [hsz]; exact hwf.1 i hi) hwf.2.2

/-! ### stability of the inequalities under writes elsewhere -/
theorem QNormal_stable (c : UniContact K) (pi pi' : Array K) (h : ∀ j ∈ rowsNormal c, vget pi' j = vget pi j) :
    QNormal c pi → QNormal c pi' := by
  intro q ht; rw [h c.Nk (by simp [rowsNormal])]; exact q ht
theorem QFriction_stable (c : UniContact K) (pi pi' : Array K) (h : ∀ j ∈ readsFriction c, vget pi' j = vget pi j) :
    QFriction piE c pi → QFriction piE c pi' := by
  intro q ht
  rw [h c.Nk (by simp [readsFriction]), gather_congr pi pi' c.Fk (fun j hj => h j (by simp [readsFriction, hj]))]
  exact q ht
theorem QBounded_stable (b : Bounded K) (pi pi' : Array K) (h : ∀ j ∈ [b.ix], vget pi' j = vget pi j) :
    QBounded b pi → QBounded b pi' := by
  intro q; unfold QBounded; rw [h b.ix (by simp)]; exact q
theorem QState_stable (s : StateLtd K) (pi pi' : Array K) (h : ∀ j ∈ s.Fk, vget pi' j = vget pi j) :
    QState s pi → QState s pi' := by
  intro q; unfold QState; rw [gather_congr pi pi' s.Fk h]; exact q
theorem QCons_stable (c : ConsLtd K) (pi pi' : Array K) (h : ∀ j ∈ c.Fk ++ c.Nk, vget pi' j = vget pi j) :
    QCons c pi → QCons c pi' := by
  intro q; unfold QCons
  rw [gather_congr pi pi' c.Fk (fun j hj => h j (by simp [hj])), gather_congr pi pi' c.Nk (fun j hj => h j (by simp [hj]))]
  exact q

/-! ## sweep_preserves_bounds / final_satisfies_inequalities -/

/-- rows written by the stages that follow the contact-normal stage, the contact-friction stage, … -/
def rowsAfterFriction (P : Problem K) : List Nat :=
  P.bounded.map (·.ix) ++ P.stateLtd.flatMap (·.Fk) ++ P.consLtd.flatMap (·.Fk)
def rowsAfterNormals (P : Problem K) : List Nat := P.uniContact.flatMap (·.Fk) ++ rowsAfterFriction P
def rowsAfterBounded (P : Problem K) : List Nat := P.stateLtd.flatMap (·.Fk) ++ P.consLtd.flatMap (·.Fk)
def rowsAfterState (P : Problem K) : List Nat := P.consLtd.flatMap (·.Fk)

/-- what the caller owes: indices in range, the multipliers of one constraint distinct, and no constraint's rows
written by a later step of the sweep (rows of different constraints are disjoint) -/
structure WellFormed (P : Problem K) (n : Nat) : Prop where
  uni_ok : ∀ c ∈ P.uniContact, c.Nk < n ∧ ((∀ i ∈ c.Fk, i < n) ∧ c.Fk.Nodup ∧ c.Nk ∉ c.Fk)
  bnd_ok : ∀ b ∈ P.bounded, b.ix < n ∧ b.lb ≤ b.ub
  st_ok : ∀ s ∈ P.stateLtd, (∀ i ∈ s.Fk, i < n) ∧ s.Fk.Nodup
  co_ok : ∀ c ∈ P.consLtd, (∀ i ∈ c.Fk, i < n) ∧ c.Fk.Nodup ∧ (∀ j ∈ c.Nk, j ∉ c.Fk)
  normals_pw : P.uniContact.Pairwise (fun x y => ∀ j ∈ rowsNormal x, j ∉ rowsNormal y)
  fric_pw : P.uniContact.Pairwise (fun x y => ∀ j ∈ readsFriction x, j ∉ rowsFriction y)
  bnd_pw : P.bounded.Pairwise (fun x y => ∀ j ∈ [x.ix], j ∉ [y.ix])
  st_pw : P.stateLtd.Pairwise (fun x y => ∀ j ∈ x.Fk, j ∉ y.Fk)
  co_pw : P.consLtd.Pairwise (fun x y => ∀ j ∈ x.Fk ++ x.Nk, j ∉ y.Fk)
  normal_later : ∀ c ∈ P.uniContact, c.Nk ∉ rowsAfterNormals P
  fric_later : ∀ c ∈ P.uniContact, ∀ j ∈ readsFriction c, j ∉ rowsAfterFriction P
  bnd_later : ∀ b ∈ P.bounded, b.ix ∉ rowsAfterBounded P
  st_later : ∀ s ∈ P.stateLtd, ∀ j ∈ s.Fk, j ∉ rowsAfterState P

/-- **final_satisfies_inequalities** (one sweep; `sweep_preserves_bounds`): whatever the iterate `pi0`, the
right-hand side, the relaxation factor and the matrix are, after a sweep every participating unilateral normal impulse
does not pull, every contact friction impulse is inside its cone `‖π_F‖ ≤ μ·|π_N + πE_N|`, every bounded impulse is
within its bounds, every state-limited friction vector within `μ·N`, every constraint-limited one within
`μ·‖π_N‖` — all with respect to the *final* values of the sweep -/
theorem sweep_final_inequalities (hs : SqrtSpec sqrt) (P : Problem K) (rhs : Array K) (sor : K) (pi0 : Array K)
    (n : Nat) (hn : pi0.size = n) (wf : WellFormed P n) :
    (∀ c ∈ P.uniContact, QNormal c (sweep sqrt P rhs sor pi0).pi ∧ QFriction P.piExpand c (sweep sqrt P rhs sor pi0).pi) ∧
    (∀ b ∈ P.bounded, QBounded b (sweep sqrt P rhs sor pi0).pi) ∧
    (∀ s ∈ P.stateLtd, QState s (sweep sqrt P rhs sor pi0).pi) ∧
    (∀ c ∈ P.consLtd, QCons c (sweep sqrt P rhs sor pi0).pi) := by
  -- names for the stage results
  set cols := P.participating with hcols
  set st0 : St K := { pi := pi0, sum2all := 0, sum2enf := 0 } with hst0
  set r1 := foldStage (stepUncond cols P.A P.D rhs sor) P.uncond st0 with hr1
  set r2 := foldStage (stepNormal cols P.A P.D rhs sor) P.uniContact r1.1 with hr2
  set r3 := foldStage (stepFriction sqrt cols P.A P.D rhs P.piExpand sor) P.uniContact r2.1 with hr3
  set r4 := foldStage (stepBounded cols P.A P.D rhs sor) P.bounded r3.1 with hr4
  set r5 := foldStage (stepStateLtd sqrt cols P.A P.D rhs sor) P.stateLtd r4.1 with hr5
  set r6 := foldStage (stepConsLtd sqrt cols P.A P.D rhs sor) P.consLtd r5.1 with hr6
  have hfinal : (sweep sqrt P rhs sor pi0).pi = r6.1.pi := rfl
  rw [hfinal]
  -- sizes
  have s1 : r1.1.pi.size = n := by
    rw [hr1, foldStage_size _ (stepUncond_size cols P.A P.D rhs sor)]; exact hn
  have s2 : r2.1.pi.size = n := by rw [hr2, foldStage_size _ (stepNormal_size cols P.A P.D rhs sor)]; exact s1
  have s3 : r3.1.pi.size = n := by
    rw [hr3, foldStage_size _ (stepFriction_size sqrt cols P.A P.D rhs P.piExpand sor)]; exact s2
  have s4 : r4.1.pi.size = n := by rw [hr4, foldStage_size _ (stepBounded_size cols P.A P.D rhs sor)]; exact s3
  have s5 : r5.1.pi.size = n := by rw [hr5, foldStage_size _ (stepStateLtd_size sqrt cols P.A P.D rhs sor)]; exact s4
  -- frames of the later stages
  have f3 : ∀ j, j ∉ P.uniContact.flatMap (·.Fk) → vget r3.1.pi j = vget r2.1.pi j := fun j hj =>
    foldStage_frame _ rowsFriction (stepFriction_frame sqrt cols P.A P.D rhs P.piExpand sor) _ _ j
      (fun x hx hm => hj (List.mem_flatMap.mpr ⟨x, hx, hm⟩))
  have f4 : ∀ j, j ∉ P.bounded.map (·.ix) → vget r4.1.pi j = vget r3.1.pi j := fun j hj =>
    foldStage_frame _ (fun b => [b.ix]) (stepBounded_frame cols P.A P.D rhs sor) _ _ j
      (fun x hx hm => hj (List.mem_map.mpr ⟨x, hx, by simpa using (List.mem_singleton.mp hm).symm⟩))
  have f5 : ∀ j, j ∉ P.stateLtd.flatMap (·.Fk) → vget r5.1.pi j = vget r4.1.pi j := fun j hj =>
    foldStage_frame _ (fun s => s.Fk) (stepStateLtd_frame sqrt cols P.A P.D rhs sor) _ _ j
      (fun x hx hm => hj (List.mem_flatMap.mpr ⟨x, hx, hm⟩))
  have f6 : ∀ j, j ∉ P.consLtd.flatMap (·.Fk) → vget r6.1.pi j = vget r5.1.pi j := fun j hj =>
    foldStage_frame _ (fun c => c.Fk) (stepConsLtd_frame sqrt cols P.A P.D rhs sor) _ _ j
      (fun x hx hm => hj (List.mem_flatMap.mpr ⟨x, hx, hm⟩))
  -- each stage establishes its inequalities
  have q2 : ∀ c ∈ P.uniContact, QNormal c r2.1.pi :=
    foldStage_inv _ rowsNormal rowsNormal QNormal n (fun c => c.Nk < n)
      (stepNormal_size cols P.A P.D rhs sor) (stepNormal_frame cols P.A P.D rhs sor)
      (fun st c h w => stepNormal_post cols P.A P.D rhs sor st c n h w) QNormal_stable
      _ (fun c hc => (wf.uni_ok c hc).1) wf.normals_pw _ s1
  have q3 : ∀ c ∈ P.uniContact, QFriction P.piExpand c r3.1.pi :=
    foldStage_inv _ rowsFriction readsFriction (QFriction P.piExpand) n
      (fun c => (∀ i ∈ c.Fk, i < n) ∧ c.Fk.Nodup ∧ c.Nk ∉ c.Fk)
      (stepFriction_size sqrt cols P.A P.D rhs P.piExpand sor) (stepFriction_frame sqrt cols P.A P.D rhs P.piExpand sor)
      (fun st c h w => stepFriction_post sqrt cols P.A P.D rhs P.piExpand sor hs st c n h w) (QFriction_stable P.piExpand)
      _ (fun c hc => (wf.uni_ok c hc).2) wf.fric_pw _ s2
  have q4 : ∀ b ∈ P.bounded, QBounded b r4.1.pi :=
    foldStage_inv _ (fun b => [b.ix]) (fun b => [b.ix]) QBounded n (fun b => b.ix < n ∧ b.lb ≤ b.ub)
      (stepBounded_size cols P.A P.D rhs sor) (stepBounded_frame cols P.A P.D rhs sor)
      (fun st b h w => stepBounded_post cols P.A P.D rhs sor st b n h w) QBounded_stable
      _ wf.bnd_ok wf.bnd_pw _ s3
  have q5 : ∀ s ∈ P.stateLtd, QState s r5.1.pi :=
    foldStage_inv _ (fun s => s.Fk) (fun s => s.Fk) QState n (fun s => (∀ i ∈ s.Fk, i < n) ∧ s.Fk.Nodup)
      (stepStateLtd_size sqrt cols P.A P.D rhs sor) (stepStateLtd_frame sqrt cols P.A P.D rhs sor)
      (fun st s h w => stepStateLtd_post sqrt cols P.A P.D rhs sor hs st s n h w) QState_stable
      _ wf.st_ok wf.st_pw _ s4
  have q6 : ∀ c ∈ P.consLtd, QCons c r6.1.pi :=
    foldStage_inv _ (fun c => c.Fk) (fun c => c.Fk ++ c.Nk) QCons n
      (fun c => (∀ i ∈ c.Fk, i < n) ∧ c.Fk.Nodup ∧ (∀ j ∈ c.Nk, j ∉ c.Fk))
      (stepConsLtd_size sqrt cols P.A P.D rhs sor) (stepConsLtd_frame sqrt cols P.A P.D rhs sor)
      (fun st c h w => stepConsLtd_post sqrt cols P.A P.D rhs sor hs st c n h w) QCons_stable
      _ wf.co_ok wf.co_pw _ s5
  -- and the later stages do not disturb them
  refine ⟨fun c hc => ⟨?_, ?_⟩, fun b hb => ?_, fun s hs' => ?_, q6⟩
  · apply QNormal_stable c r2.1.pi _ _ (q2 c hc)
    intro j hj
    have hj' : j = c.Nk := by simpa [rowsNormal] using hj
    subst hj'
    have hl := wf.normal_later c hc
    simp only [rowsAfterNormals, rowsAfterFriction, List.mem_append, not_or] at hl
    rw [f6 _ hl.2.2, f5 _ hl.2.1.2, f4 _ hl.2.1.1, f3 _ hl.1]
  · apply QFriction_stable P.piExpand c r3.1.pi _ _ (q3 c hc)
    intro j hj
    have hl := wf.fric_later c hc j hj
    simp only [rowsAfterFriction, List.mem_append, not_or] at hl
    rw [f6 _ hl.2, f5 _ hl.1.2, f4 _ hl.1.1]
  · apply QBounded_stable b r4.1.pi _ _ (q4 b hb)
    intro j hj
    have hj' : j = b.ix := by simpa using hj
    subst hj'
    have hl := wf.bnd_later b hb
    simp only [rowsAfterBounded, List.mem_append, not_or] at hl
    rw [f6 _ hl.2, f5 _ hl.1]
  · apply QState_stable s r5.1.pi _ _ (q5 s hs')
    intro j hj
    exact f6 _ (wf.st_later s hs' j hj)


/-! ## regardless of convergence -/

theorem sweep_size (P : Problem K) (rhs : Array K) (sor : K) (pi0 : Array K) :
    (sweep sqrt P rhs sor pi0).pi.size = pi0.size := by
  unfold sweep
  simp only
  rw [foldStage_size _ (stepConsLtd_size sqrt _ P.A P.D rhs sor), foldStage_size _ (stepStateLtd_size sqrt _ P.A P.D rhs sor),
    foldStage_size _ (stepBounded_size _ P.A P.D rhs sor), foldStage_size _ (stepFriction_size sqrt _ P.A P.D rhs P.piExpand sor),
    foldStage_size _ (stepNormal_size _ P.A P.D rhs sor), foldStage_size _ (stepUncond_size _ P.A P.D rhs sor)]

/-- whatever the loop does (converge, run out of iterations, reduce SOR), what it returns is the result of a sweep -/
theorem pgsLoop_is_sweep (P : Problem K) (rhs : Array K) (pK tol sorMin sorFac : K) (n : Nat) :
    ∀ (fuel its : Nat) (sor prev : K) (sw : Sweep K), 0 < fuel → sw.pi.size = n →
      ∃ sor' pi', pi'.size = n ∧
        (pgsLoop sqrt P rhs pK tol sorMin sorFac fuel its sor prev sw).2.2.2 = sweep sqrt P rhs sor' pi' := by
  intro fuel
  induction fuel with
  | zero => intro _ _ _ _ h; exact absurd h (lt_irrefl 0)
  | succ fuel ih =>
    intro its sor prev sw _ hn
    unfold pgsLoop
    simp only
    by_cases hc : sqrt ((sweep sqrt P rhs sor sw.pi).sum2enf / pK) < tol
    · rw [if_pos hc]; exact ⟨sor, sw.pi, hn, rfl⟩
    · rw [if_neg hc]
      rcases Nat.eq_zero_or_pos fuel with h0 | hpos
      · subst h0
        exact ⟨sor, sw.pi, hn, by simp [pgsLoop]⟩
      · exact ih _ _ _ _ hpos (by rw [sweep_size]; exact hn)

/-- **final_satisfies_inequalities, regardless of convergence**: for any problem with at least one participating row
and `maxIters ≥ 1`, the impulse vector `PGSImpulseSolver::solve` returns satisfies every inequality, whether or not
the iteration converged -/
theorem pgsSolve_final_inequalities (hs : SqrtSpec sqrt) (P : Problem K) (pK tol sor0 sorMin sorFac inf : K)
    (maxIters : Nat) (hm : 0 < maxIters) (hp : P.participating ≠ []) (wf : WellFormed P P.m) :
    let R := pgsSolve sqrt P pK tol sor0 sorMin sorFac inf maxIters
    (∀ c ∈ P.uniContact, QNormal c R.pi ∧ QFriction P.piExpand c R.pi) ∧ (∀ b ∈ P.bounded, QBounded b R.pi) ∧
    (∀ s ∈ P.stateLtd, QState s R.pi) ∧ (∀ c ∈ P.consLtd, QCons c R.pi) := by
  intro R
  have hne : P.participating.isEmpty = false := by
    cases h : P.participating with
    | nil => exact absurd h hp
    | cons a l => rfl
  obtain ⟨sor', pi', hsz, heq⟩ := pgsLoop_is_sweep sqrt P (assembleRhs P) pK tol sorMin sorFac P.m maxIters 1 sor0 inf
    { pi := Array.replicate P.m 0, sum2all := 0, sum2enf := 0, uniCond := P.uniContact.map (fun _ => 9),
      fricCond := P.uniContact.map (fun _ => 9), bndCond := [], stateCond := [], consCond := [] } hm (by simp)
  have hR : R.pi = (sweep sqrt P (assembleRhs P) sor' pi').pi := by
    simp only [R, pgsSolve, hne, Bool.false_eq_true, if_false]
    rw [← heq]
  rw [hR]
  exact sweep_final_inequalities sqrt hs P _ sor' pi' P.m hsz wf

/-- meaning of the convergence test `normRMSenf < tol` with `normRMSenf = sqrt(sum2enf/p)`: the mean squared enforced
residual is below `tol²` -/
theorem convergence_test_meaning (hs : SqrtSpec sqrt) (x tol : K) (hx : 0 ≤ x) (h : sqrt x < tol) : x < tol * tol := by
  have h0 := hs.nonneg x hx
  calc x = sqrt x * sqrt x := (hs.sq x hx).symm
    _ < tol * tol := by nlinarith

/-! ## bilateral_fixed_point -/

omit [LinearOrder K] [IsStrictOrderedRing K] in
theorem vset_vget_self (v : Array K) (i : Nat) : vset v i (vget v i) = v := by
  apply Array.ext
  · simp [vset]
  · intro j h1 h2
    simp only [vset, vget]
    rw [Array.getElem_setIfInBounds]
    split_ifs with h
    · subst h; simp [Array.getD_eq_getD_getElem?, h2]
    · rfl

omit [LinearOrder K] [IsStrictOrderedRing K] in
theorem mem_zip_map_self {β : Type} (f : Nat → β) (rows : List Nat) (r : Nat) (h : r ∈ rows) :
    (r, f r) ∈ rows.zip (rows.map f) := by
  induction rows with
  | nil => simp at h
  | cons a rows ih =>
    rcases List.mem_cons.mp h with rfl | h'
    · simp
    · simp only [List.map_cons, List.zip_cons_cons, List.mem_cons]; exact Or.inr (ih h')

/-- one row update with zero residual leaves `pi` alone; a non-zero residual shows up in the error sum -/
theorem doUpdates_zero (A : Array (Array K)) (D rhs : Array K) (sor : K) (rows : List Nat) (sums : List K) (pi : Array K)
    (e : K) (hlen : rows.length = sums.length) :
    e ≤ (doUpdates A D rhs sor rows sums pi e).2 ∧
    ((doUpdates A D rhs sor rows sums pi e).2 = e →
      (doUpdates A D rhs sor rows sums pi e).1 = pi ∧ ∀ p ∈ rows.zip sums, vget rhs p.1 = p.2) := by
  induction rows generalizing sums pi e with
  | nil => simp [doUpdates]
  | cons r rows ih =>
    cases sums with
    | nil => simp at hlen
    | cons s sums =>
      simp only [doUpdates]
      set u := doUpdate r A D rhs sor s pi with hu
      have hu2 : u.2 = square (vget rhs r - s) := rfl
      have hsq : (0 : K) ≤ u.2 := by rw [hu2]; exact mul_self_nonneg _
      obtain ⟨m1, m2⟩ := ih sums u.1 (e + u.2) (by simpa using hlen)
      constructor
      · linarith
      · intro hEq
        have hz : u.2 = 0 := by linarith
        have her : vget rhs r - s = 0 := by
          rw [hu2] at hz; unfold square at hz; exact mul_self_eq_zero.mp hz
        have hpi : u.1 = pi := by
          rw [hu]; unfold doUpdate; simp only [her, mul_zero, zero_div, add_zero, vset_vget_self]; split_ifs <;> rfl
        obtain ⟨m3, m4⟩ := m2 (by rw [hEq, hz, add_zero])
        rw [hpi] at m3
        refine ⟨by rw [hpi]; exact m3, ?_⟩
        intro p hp
        rcases List.mem_cons.mp (by simpa [List.zip_cons_cons] using hp) with h | h
        · rw [h]; simp only; exact sub_eq_zero.mp her
        · exact m4 p h

/-- a block update of a group with zero squared error: `pi` is unchanged and every row of the group is satisfied -/
theorem updateGroup_zero (cols rows : List Nat) (A : Array (Array K)) (D rhs : Array K) (sor : K) (pi : Array K) :
    0 ≤ (updateGroup cols rows A D rhs sor pi).2 ∧
    ((updateGroup cols rows A D rhs sor pi).2 = 0 →
      (updateGroup cols rows A D rhs sor pi).1 = pi ∧ ∀ r ∈ rows, doRowSum cols r A D pi = vget rhs r) := by
  obtain ⟨m1, m2⟩ := doUpdates_zero A D rhs sor rows (doRowSums cols rows A D pi) pi 0 (by simp [doRowSums])
  refine ⟨m1, fun h => ?_⟩
  obtain ⟨m3, m4⟩ := m2 h
  refine ⟨m3, fun r hr => ?_⟩
  have : (r, doRowSum cols r A D pi) ∈ rows.zip (doRowSums cols rows A D pi) := by
    unfold doRowSums
    exact mem_zip_map_self _ rows r hr
  exact (m4 _ this).symm

/-- the unconditional stage: the enforced error sum never decreases, and if it does not increase then `pi` is a fixed
point and every row of every group satisfies its equation -/
theorem stageUncond_zero (cols : List Nat) (A : Array (Array K)) (D rhs : Array K) (sor : K) (gs : List (List Nat))
    (st : St K) :
    st.sum2enf ≤ (foldStage (stepUncond cols A D rhs sor) gs st).1.sum2enf ∧
    ((foldStage (stepUncond cols A D rhs sor) gs st).1.sum2enf = st.sum2enf →
      (foldStage (stepUncond cols A D rhs sor) gs st).1.pi = st.pi ∧
      ∀ g ∈ gs, ∀ r ∈ g, doRowSum cols r A D st.pi = vget rhs r) := by
  induction gs generalizing st with
  | nil => simp [foldStage]
  | cons g gs ih =>
    simp only [foldStage]
    obtain ⟨u1, u2⟩ := updateGroup_zero cols g A D rhs sor st.pi
    obtain ⟨i1, i2⟩ := ih (stepUncond cols A D rhs sor st g).1
    have hs2 : (stepUncond cols A D rhs sor st g).1.sum2enf = st.sum2enf + (updateGroup cols g A D rhs sor st.pi).2 := rfl
    have hpi : (stepUncond cols A D rhs sor st g).1.pi = (updateGroup cols g A D rhs sor st.pi).1 := rfl
    constructor
    · rw [hs2] at i1; linarith
    · intro hEq
      rw [hs2] at i1 i2
      have hz : (updateGroup cols g A D rhs sor st.pi).2 = 0 := by linarith
      obtain ⟨u3, u4⟩ := u2 hz
      obtain ⟨i3, i4⟩ := i2 (by rw [hEq, hz, add_zero])
      rw [hpi, u3] at i3 i4
      refine ⟨i3, fun g' hg' r hr => ?_⟩
      rcases List.mem_cons.mp hg' with rfl | h
      · exact u4 r hr
      · exact i4 g' h r hr

/-- **bilateral_fixed_point**: with only unconditional rows, a sweep whose enforced error sum is zero did not move
`pi`, and `pi` solves `[A+D]π = rhs` on every row of every group (columns restricted to the participating set);
in general that sum is non-negative, and `converged` means it is below `p·tol²` (`convergence_test_meaning`) -/
theorem bilateral_fixed_point (P : Problem K) (rhs : Array K) (sor : K) (pi0 : Array K)
    (h1 : P.uniContact = []) (h2 : P.bounded = []) (h3 : P.stateLtd = []) (h4 : P.consLtd = []) :
    0 ≤ (sweep sqrt P rhs sor pi0).sum2enf ∧
    ((sweep sqrt P rhs sor pi0).sum2enf = 0 →
      (sweep sqrt P rhs sor pi0).pi = pi0 ∧
      ∀ g ∈ P.uncond, ∀ r ∈ g, doRowSum P.participating r P.A P.D pi0 = vget rhs r) := by
  have es : (sweep sqrt P rhs sor pi0).sum2enf = (foldStage (stepUncond P.participating P.A P.D rhs sor) P.uncond
      { pi := pi0, sum2all := 0, sum2enf := 0 }).1.sum2enf := by
    simp [sweep, h1, h2, h3, h4, foldStage]
  have ep : (sweep sqrt P rhs sor pi0).pi = (foldStage (stepUncond P.participating P.A P.D rhs sor) P.uncond
      { pi := pi0, sum2all := 0, sum2enf := 0 }).1.pi := by
    simp [sweep, h1, h2, h3, h4, foldStage]
  obtain ⟨z1, z2⟩ := stageUncond_zero P.participating P.A P.D rhs sor P.uncond { pi := pi0, sum2all := 0, sum2enf := 0 }
  rw [es, ep]
  exact ⟨z1, fun h => z2 h⟩

/-! ## PLUS: soundness of the exact-rational acceptance contract -/

/-- **contract_sound**: whatever `PLUSImpulseSolver::solve` returned, if the exact-rational predicate accepts it then
(1) no participating unilateral normal impulse pulls by more than the slack, (2) every contact friction impulse is in
the (slightly inflated) cone, (3) bounded impulses are within their bounds up to the slack, and (4) when only
unconditional rows are present every participating row of `[A+D]π = rhs` holds up to the slack -/
theorem plusAccept_sound (P : Problem Rat) (rhs pi : Array Rat) (tol scale : Rat) (chk : Bool)
    (h : plusAccept P rhs pi tol scale chk = true) :
    (∀ c ∈ P.uniContact,
        (c.type = 2 → c.sign * vget pi c.Nk ≤ tol * scale) ∧
        (c.type ≠ 0 → c.Fk.isEmpty = false →
          normSq (gather pi c.Fk) ≤
            square ((1 + tol) * ratAbs c.mu * ratAbs (vget pi c.Nk + vget P.piExpand c.Nk) + tol * scale))) ∧
    (∀ b ∈ P.bounded, b.lb - tol * scale ≤ vget pi b.ix ∧ vget pi b.ix ≤ b.ub + tol * scale) ∧
    (chk = true → ∀ r ∈ P.participating,
        ratAbs (doRowSum P.participating r P.A P.D pi - vget rhs r) ≤ tol * scale) := by
  unfold plusAccept at h
  simp only [Bool.and_eq_true, List.all_eq_true, Bool.or_eq_true, decide_eq_true_eq, ne_eq,
    Bool.not_eq_true'] at h
  obtain ⟨⟨h1, h2⟩, h3⟩ := h
  refine ⟨fun c hc => ⟨fun ht => ?_, fun ht hF => ?_⟩, fun b hb => h2 b hb, fun hchk r hr => ?_⟩
  · rcases (h1 c hc).1 with h | h
    · exact absurd ht (by simpa using h)
    · exact h
  · rcases (h1 c hc).2 with (h | h) | h
    · exact absurd (by simpa using h) ht
    · rw [hF] at h; exact absurd h (by simp)
    · exact h
  · rcases h3 with h | h
    · rw [hchk] at h; exact absurd h (by simp)
    · exact h r hr

/-! ## non-vacuity -/

/-- a concrete well-formed problem: one contact (normal row 0, friction rows 1,2) and one bounded row 3 -/
example : WellFormed (K := ℚ)
    { m := 4, A := #[], D := #[], participating := [0, 1, 2, 3], expanding := [], piExpand := #[], verrStart := #[],
      verrApplied := #[], uncond := [], uniContact := [{ Nk := 0, sign := 1, Fk := [1, 2], type := 2, mu := 1 / 2 }],
      bounded := [{ ix := 3, lb := -1, ub := 1 }], stateLtd := [], consLtd := [] } 4 := by
  constructor <;> simp [rowsNormal, readsFriction, rowsFriction, rowsAfterNormals, rowsAfterFriction, rowsAfterBounded,
    rowsAfterState]

/-- the ball projection on a concrete vector: `(3,4)` scaled to length 2 has squared norm exactly 4
(with a square-root routine that is right on the one argument it is asked about) -/
example : normSq (scaleToLimit (fun x : ℚ => if x = 4 / 25 then 2 / 5 else 0) 4 [3, 4]).1 = 4 := by
  norm_num [scaleToLimit, normSq, square]

end C44
