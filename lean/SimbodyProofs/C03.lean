import SimbodyModel.Mobilizer
import SimbodyProofs.MobilizerLemmas

/-!
# C03 — velocity kinematics is the time derivative of position kinematics

* per mobilizer type `T.X_FM_jet` : when the coordinates move with `q̇ = N(q) u`, the *coded* cross-mobilizer
  transform (`calcX_FM`) moves rigidly with the spatial velocity `H_FM(q)·u`  (`Ṙ = [ω]× R`, `ṗ = v`);
* `T.HDot_is_derivative` : the coded `HDot_FM` is the time derivative of the coded `H_FM` along the motion;
* reversal: `reverse_H_is_derivative_of_inverse` (default `calcReverseMobilizerH_FM`) and the per-type overrides;
* the joint-independent tree step `child_vel_is_derivative` (`V_GB = ~Φ V_GP + H u` with `H = H_PB_G`) and
  `station_vel`;
* `N`/`NInv`/`NDot`: `N_NInv`, adjointness of the transposed multiplications, `NDot_is_derivative`,
  `qdotdot_is_derivative`.

Angles are trig pairs; derivatives are jets (`MobilizerLemmas.lean`); `K` is any field (char. 0 for quaternions).
-/
namespace Mobilizer
variable {K : Type} [Field K]

/-! ## Joint-independent part -/

/-- `Hmul` of a column-wise linear image -/
theorem Hmul_H_PB_G (R_GP : M33 K) (X_PF X_FM X_MB : Xf K) (H_FM : List (SV K)) (u : List K) :
    Hmul (H_PB_G R_GP X_PF X_FM X_MB H_FM) u = H_PB_G_col R_GP X_PF X_FM X_MB (Hmul H_FM u) := by
  unfold H_PB_G
  apply Hmul_map
  · intro a b; simp only [H_PB_G_col]; mob_unfold; ring_all
  · intro s a; simp only [H_PB_G_col]; mob_unfold; ring_all
  · simp only [H_PB_G_col]; mob_unfold; ring_all

/-- **tree step**: if the parent's pose/velocity is a jet pair and the mobilizer's is, then so is the child's, with the
coded `V_GB = ~Φ·V_GP + H_PB_G·u` (`calcBodyTransforms`, `calcParentToChildVelocityJacobianInGround`,
`calcJointIndependentKinematicsVel`) -/
theorem child_vel_is_derivative {X_GP X_FM : Xf (Jet K)} {V_GP : SV K} (X_PF X_MB : Xf K) (H_FM : List (SV K)) (u : List K)
    (hP : IsRigidVel X_GP V_GP) (hM : IsRigidVel X_FM (Hmul H_FM u))
    (rP : IsRot X_GP.R.re) (rF : IsRot X_PF.R) (rM : IsRot X_FM.R.re) :
    IsRigidVel (X_GB X_GP (Xf.const X_PF) X_FM (Xf.const X_MB))
      (V_GB X_GP.re V_GP (X_PB X_PF X_FM.re X_MB) (Hmul (H_PB_G X_GP.R.re X_PF X_FM.re X_MB H_FM) u)) := by
  rw [Hmul_H_PB_G]
  generalize Hmul H_FM u = V_FM at hM ⊢
  have cF : (Xf.const X_PF).R.re = X_PF.R := by obtain ⟨⟨a, b, c, d, e, f, g, h, i⟩, p⟩ := X_PF; simp only [Xf.const]; mob_unfold
  have h1 := hM.mul (IsRigidVel.const X_MB) rM
  have h2 := (IsRigidVel.const X_PF).mul h1 (by rw [cF]; exact rF)
  have h3 := hP.mul h2 rP
  have eX : X_GB X_GP (Xf.const X_PF) X_FM (Xf.const X_MB) = Xf.mul X_GP (Xf.mul (Xf.const X_PF) (Xf.mul X_FM (Xf.const X_MB))) := rfl
  rw [eX]
  convert h3 using 1
  -- the velocities agree: pure algebra
  have reMB : (Xf.const X_MB).re = X_MB := by
    obtain ⟨⟨a, b, c, d, e, f, g, h, i⟩, ⟨x, y, z⟩⟩ := X_MB; simp only [Xf.const, Xf.re]; mob_unfold
  have rePF : (Xf.const X_PF).re = X_PF := by
    obtain ⟨⟨a, b, c, d, e, f, g, h, i⟩, ⟨x, y, z⟩⟩ := X_PF; simp only [Xf.const, Xf.re]; mob_unfold
  have reMul : ∀ A B : Xf (Jet K), (Xf.mul A B).re = Xf.mul A.re B.re := by
    intro A B; simp only [Xf.mul, Xf.re]; mob_unfold
  simp only [reMul, reMB, rePF]
  simp only [V_GB, phiT, X_PB, H_PB_G_col, composeVel]
  mob_unfold; ring_all

/-- station velocity: `d/dt (X_GB · s) = v_GB + ω_GB × (R_GB s)` (`findStationVelocityInGround`) -/
theorem station_vel {X : Xf (Jet K)} {V : SV K} (h : IsRigidVel X V) (s : V3 K) :
    (Xf.app X (V3.const s)).eps = stationVel X.re V s := by
  obtain ⟨⟨⟨a0, a1⟩, ⟨b0, b1⟩, ⟨c0, c1⟩, ⟨d0, d1⟩, ⟨e0, e1⟩, ⟨f0, f1⟩, ⟨g0, g1⟩, ⟨h0, h1⟩, ⟨i0, i1⟩⟩, ⟨⟨x0, x1⟩, ⟨y0, y1⟩, ⟨z0, z1⟩⟩⟩ := X
  obtain ⟨⟨wx, wy, wz⟩, ⟨vx, vy, vz⟩⟩ := V
  simp only [IsRigidVel] at h
  mob_unfold at h
  obtain ⟨⟨r1, r2, r3, r4, r5, r6, r7, r8, r9⟩, r10, r11, r12⟩ := h
  subst r1 r2 r3 r4 r5 r6 r7 r8 r9 r10 r11 r12
  simp only [stationVel]; mob_unfold; ring_all

/-! ## Reversed mobilizers -/

/-- the default reversed hinge column is the reversed spatial velocity of the forward column -/
theorem reverseHCol_eq {X0 : Xf K} (hR : IsRot X0.R) (h : SV K) :
    reverseHCol (Xf.inv X0) h = reverseSpatialVelocity X0 h := by
  have c := hR.tr.cross X0.p h.w
  simp only [reverseHCol, reverseSpatialVelocity, Xf.inv, SV.rot, SV.mk.injEq]
  constructor
  · mob_unfold; ring_all
  · -- ~[p_FM]× w' − Rᵀ v  with p_FM = −Rᵀp, w' = −Rᵀw  equals  Rᵀ(w × p − v)
    have e : (M33.crossMat (V3.neg (X0.R.tr.mulVec X0.p))).tr.mulVec (V3.neg (X0.R.tr.mulVec h.w))
        = V3.neg (V3.cross (X0.R.tr.mulVec X0.p) (X0.R.tr.mulVec h.w)) := by
      generalize X0.R.tr.mulVec X0.p = a; generalize X0.R.tr.mulVec h.w = b; mob_unfold; ring_all
    rw [e, c]
    generalize X0.R.tr = Rt
    mob_unfold; ring_all

theorem Hmul_reverseH {X0 : Xf K} (hR : IsRot X0.R) (H0 : List (SV K)) (u : List K) :
    Hmul (reverseH (Xf.inv X0) H0) u = reverseSpatialVelocity X0 (Hmul H0 u) := by
  have e : reverseH (Xf.inv X0) H0 = H0.map (reverseSpatialVelocity X0) := by
    unfold reverseH; exact List.map_congr_left (fun h _ => reverseHCol_eq hR h)
  rw [e]
  apply Hmul_map
  · intro a b; simp only [reverseSpatialVelocity]; mob_unfold; ring_all
  · intro s a; simp only [reverseSpatialVelocity]; mob_unfold; ring_all
  · simp only [reverseSpatialVelocity]; mob_unfold; ring_all

/-- **reversed mobilizer**: the stored `X_FM = ~X_F0M0` moves rigidly with `H_FM·u`, `H_FM` the default
`calcReverseMobilizerH_FM` of the forward hinge matrix -/
theorem reverse_H_is_derivative_of_inverse {X0 : Xf (Jet K)} (H0 : List (SV K)) (u : List K)
    (h : IsRigidVel X0 (Hmul H0 u)) (hR : IsRot X0.R.re) :
    IsRigidVel (realizeX true X0) (Hmul (realizeH true (realizeX true X0).re H0 none) u) := by
  have e : (realizeX true X0).re = Xf.inv X0.re := by simp only [realizeX, if_true, Xf.inv, Xf.re]; mob_unfold
  simp only [realizeH, if_true, e]
  rw [Hmul_reverseH hR]
  simp only [realizeX, if_true]
  exact h.inv hR

/-- `findV_F0M0` of a reversed node recovers the velocity in the defining frames -/
theorem findV_F0M0_reversed {X0 : Xf K} (hR : IsRot X0.R) (V0 : SV K) :
    findV_F0M0 true (Xf.inv X0) (reverseSpatialVelocity X0 V0) = V0 := by
  simp only [findV_F0M0, if_true]
  obtain ⟨R, p⟩ := X0; obtain ⟨w, v⟩ := V0
  simp only [reverseSpatialVelocity, Xf.inv, SV.rot, M33.tr_tr, SV.mk.injEq]
  have n1 : V3.neg (R.tr.mulVec (V3.neg w)) = R.tr.mulVec w := by mob_unfold; ring_all
  have cr := hR.tr.cross
  simp only at hR
  constructor
  · rw [n1, hR.mulVec_mulVec_tr]
  · have e : V3.sub (V3.cross (R.tr.mulVec (V3.neg w)) (V3.neg (R.tr.mulVec p))) (R.tr.mulVec (V3.sub (V3.cross w p) v))
        = R.tr.mulVec v := by
      have e1 : V3.cross (R.tr.mulVec (V3.neg w)) (V3.neg (R.tr.mulVec p)) = V3.cross (R.tr.mulVec w) (R.tr.mulVec p) := by
        generalize R.tr = Rt; mob_unfold; ring_all
      rw [e1, cr]; generalize R.tr = Rt; generalize V3.cross w p = c; mob_unfold; ring_all
    rw [e, hR.mulVec_mulVec_tr]

/-- the hand-written reversed hinge matrices of the simple types equal the default reversal -/
theorem Pin.Hrev_eq_default (c s : K) : Pin.Hrev = reverseH (Xf.inv (Pin.X c s)) Pin.H := by
  simp only [Pin.Hrev, Pin.H, Pin.X, reverseH, List.map, rotZ]; simp only [reverseHCol]; mob_unfold; ring_all
theorem Slider.Hrev_eq_default (q : K) : Slider.Hrev = reverseH (Xf.inv (Slider.X q)) Slider.H := by
  simp only [Slider.Hrev, Slider.H, Slider.X, reverseH, List.map]; simp only [reverseHCol]; mob_unfold; ring_all
theorem Cylinder.Hrev_eq_default (c s q1 : K) : Cylinder.Hrev = reverseH (Xf.inv (Cylinder.X c s q1)) Cylinder.H := by
  simp only [Cylinder.Hrev, Cylinder.H, Cylinder.X, reverseH, List.map, rotZ]; simp only [reverseHCol]; mob_unfold; ring_all
theorem Screw.Hrev_eq_default (pitch c s q : K) : Screw.Hrev pitch = reverseH (Xf.inv (Screw.X pitch c s q)) (Screw.H pitch) := by
  simp only [Screw.Hrev, Screw.H, Screw.X, reverseH, List.map, rotZ]; simp only [reverseHCol]; mob_unfold; ring_all
theorem Translation.Hrev_eq_default (q : V3 K) : Translation.Hrev = reverseH (Xf.inv (Translation.X q)) Translation.H := by
  obtain ⟨x, y, z⟩ := q
  simp only [Translation.Hrev, Translation.H, Translation.X, reverseH, List.map]; simp only [reverseHCol]; mob_unfold; ring_all

/-! ## Per-type: the coded `X_FM` moves rigidly with `H_FM u` -/

theorem Pin.X_FM_jet (c s u : K) : IsRigidVel (Pin.X (Jet.cosL c s u) (Jet.sinL c s u)) (Hmul Pin.H [u]) := by
  simp only [IsRigidVel, Pin.X, Pin.H, rotZ]; mob_unfold; ring_all
theorem Slider.X_FM_jet (q u : K) : IsRigidVel (Slider.X (Jet.var q u)) (Hmul Slider.H [u]) := by
  simp only [IsRigidVel, Slider.X, Slider.H]; mob_unfold; ring_all
theorem Cylinder.X_FM_jet (c s q1 u0 u1 : K) :
    IsRigidVel (Cylinder.X (Jet.cosL c s u0) (Jet.sinL c s u0) (Jet.var q1 u1)) (Hmul Cylinder.H [u0, u1]) := by
  simp only [IsRigidVel, Cylinder.X, Cylinder.H, rotZ]; mob_unfold; ring_all
theorem Screw.X_FM_jet (pitch c s q u : K) :
    IsRigidVel (Screw.X (Jet.const pitch) (Jet.cosL c s u) (Jet.sinL c s u) (Jet.var q u)) (Hmul (Screw.H pitch) [u]) := by
  simp only [IsRigidVel, Screw.X, Screw.H, rotZ]; mob_unfold; ring_all
theorem Translation.X_FM_jet (q u : V3 K) : IsRigidVel (Translation.X (V3.var q u)) (Hmul Translation.H [u.x, u.y, u.z]) := by
  obtain ⟨x, y, z⟩ := q; obtain ⟨a, b, c⟩ := u
  simp only [IsRigidVel, Translation.X, Translation.H]; mob_unfold; ring_all
theorem Planar.X_FM_jet (c s x y u0 u1 u2 : K) :
    IsRigidVel (Planar.X (Jet.cosL c s u0) (Jet.sinL c s u0) (Jet.var x u1) (Jet.var y u2)) (Hmul Planar.H [u0, u1, u2]) := by
  simp only [IsRigidVel, Planar.X, Planar.H, rotZ]; mob_unfold; ring_all
theorem BendStretch.X_FM_jet (c s r u0 u1 : K) :
    IsRigidVel (BendStretch.X (Jet.cosL c s u0) (Jet.sinL c s u0) (Jet.var r u1))
      (Hmul (BendStretch.H (BendStretch.X c s r)) [u0, u1]) := by
  simp only [IsRigidVel, BendStretch.X, BendStretch.H, rotZ]; mob_unfold; ring_all
theorem Universal.X_FM_jet {c0 s0 : K} (h0 : Trig c0 s0) (c1 s1 u0 u1 : K) :
    IsRigidVel (Universal.X (Jet.cosL c0 s0 u0) (Jet.sinL c0 s0 u0) (Jet.cosL c1 s1 u1) (Jet.sinL c1 s1 u1))
      (Hmul (Universal.H (Universal.X c0 s0 c1 s1)) [u0, u1]) := by
  have e0 := h0.sq
  simp only [IsRigidVel, Universal.X, Universal.H, rotXY]; mob_unfold
  repeat' apply And.intro
  all_goals trig_ring [e0]

/-- the coded body-fixed x-y-z matrix on lifted angles -/
def rotXYZJet (c0 c1 c2 s0 s1 s2 : K) (qd : V3 K) : M33 (Jet K) :=
  rotXYZ (Jet.cosL c0 s0 qd.x) (Jet.cosL c1 s1 qd.y) (Jet.cosL c2 s2 qd.z)
         (Jet.sinL c0 s0 qd.x) (Jet.sinL c1 s1 qd.y) (Jet.sinL c2 s2 qd.z)
theorem rotXYZJet_re (c0 c1 c2 s0 s1 s2 : K) (qd : V3 K) :
    (rotXYZJet c0 c1 c2 s0 s1 s2 qd).re = rotXYZ c0 c1 c2 s0 s1 s2 := by
  simp only [rotXYZJet, rotXYZ]; mob_unfold
/-- Euler-angle kinematics of `setRotationToBodyFixedXYZ`: angle rates `qd` give `ω = NInv_P(q) qd` -/
theorem rotXYZ_turns {c0 c1 c2 s0 s1 s2 : K} (h0 : Trig c0 s0) (h1 : Trig c1 s1) (qd : V3 K) :
    Turns (rotXYZJet c0 c1 c2 s0 s1 s2 qd) (bodyXYZ_NInv_P c0 s0 c1 s1 qd) := by
  have e0 := h0.sq; have e1 := h1.sq
  obtain ⟨a, b, d⟩ := qd
  simp only [Turns, rotXYZJet, rotXYZ, bodyXYZ_NInv_P]; mob_unfold
  repeat' apply And.intro
  all_goals trig_ring [e0, e1]

theorem Gimbal.Hmul_w (c0 c1 s0 s1 : K) (u : V3 K) :
    Hmul (Gimbal.H c0 c1 s0 s1) [u.x, u.y, u.z] = ⟨bodyXYZ_NInv_P c0 s0 c1 s1 u, V3.zero⟩ := by
  simp only [Gimbal.H, Gimbal.Hw, bodyXYZ_NInv_P]; mob_unfold; ring_all
theorem Gimbal.X_FM_jet {c0 c1 c2 s0 s1 s2 : K} (h0 : Trig c0 s0) (h1 : Trig c1 s1) (u : V3 K) :
    IsRigidVel (Gimbal.X (Jet.cosL c0 s0 u.x) (Jet.cosL c1 s1 u.y) (Jet.cosL c2 s2 u.z)
                         (Jet.sinL c0 s0 u.x) (Jet.sinL c1 s1 u.y) (Jet.sinL c2 s2 u.z))
      (Hmul (Gimbal.H c0 c1 s0 s1) [u.x, u.y, u.z]) := by
  rw [Gimbal.Hmul_w]
  have t := rotXYZ_turns (c2 := c2) (s2 := s2) h0 h1 u
  unfold Turns at t
  refine ⟨?_, ?_⟩
  · show (rotXYZJet c0 c1 c2 s0 s1 s2 u).eps = _
    rw [t]; rfl
  · simp only [Gimbal.X]; mob_unfold
theorem Bushing.X_FM_jet {c0 c1 c2 s0 s1 s2 : K} (h0 : Trig c0 s0) (h1 : Trig c1 s1) (p u v : V3 K) :
    IsRigidVel (Bushing.X (Jet.cosL c0 s0 u.x) (Jet.cosL c1 s1 u.y) (Jet.cosL c2 s2 u.z)
                          (Jet.sinL c0 s0 u.x) (Jet.sinL c1 s1 u.y) (Jet.sinL c2 s2 u.z) (V3.var p v))
      (Hmul (Bushing.H c0 c1 s0 s1) [u.x, u.y, u.z, v.x, v.y, v.z]) := by
  have hv : Hmul (Bushing.H c0 c1 s0 s1) [u.x, u.y, u.z, v.x, v.y, v.z] = ⟨bodyXYZ_NInv_P c0 s0 c1 s1 u, v⟩ := by
    obtain ⟨a, b, d⟩ := v
    simp only [Bushing.H, Gimbal.H, Gimbal.Hw, bodyXYZ_NInv_P]; mob_unfold; ring_all
  rw [hv]
  have t := rotXYZ_turns (c2 := c2) (s2 := s2) h0 h1 u
  unfold Turns at t
  refine ⟨?_, ?_⟩
  · show (rotXYZJet c0 c1 c2 s0 s1 s2 u).eps = _
    rw [t]; rfl
  · obtain ⟨a, b, d⟩ := v; simp only [Bushing.X]; mob_unfold
theorem Cantilever.X_FM_jet {c0 c1 c2 s0 s1 s2 : K} (h0 : Trig c0 s0) (h1 : Trig c1 s1) (L defl disp q0 q1 : K) (u : V3 K) :
    IsRigidVel (Cantilever.X (Jet.const L) (Jet.const defl) (Jet.const disp) (Jet.cosL c0 s0 u.x) (Jet.cosL c1 s1 u.y)
        (Jet.cosL c2 s2 u.z) (Jet.sinL c0 s0 u.x) (Jet.sinL c1 s1 u.y) (Jet.sinL c2 s2 u.z) (Jet.var q0 u.x) (Jet.var q1 u.y))
      (Hmul (Cantilever.H defl disp c0 c1 s0 s1 q0 q1) [u.x, u.y, u.z]) := by
  have hw : (Hmul (Cantilever.H defl disp c0 c1 s0 s1 q0 q1) [u.x, u.y, u.z]).w = bodyXYZ_NInv_P c0 s0 c1 s1 u := by
    simp only [Cantilever.H, bodyXYZ_NInv_P]; mob_unfold; ring_all
  have t := rotXYZ_turns (c2 := c2) (s2 := s2) h0 h1 u
  unfold Turns at t
  refine ⟨?_, ?_⟩
  · show (rotXYZJet c0 c1 c2 s0 s1 s2 u).eps = _
    rw [t, hw]; rfl
  · simp only [Cantilever.X, Cantilever.H]; mob_unfold; ring_all

/-- Euler `N` followed by `NInv` (needs `cos q₁ ≠ 0`) -/
theorem bodyXYZ_NInv_N {c0 s0 c1 s1 ooc1 : K} (h0 : Trig c0 s0) (h1 : Trig c1 s1) (hc : ooc1 * c1 = 1) (w : V3 K) :
    bodyXYZ_NInv_P c0 s0 c1 s1 (bodyXYZ_N_P c0 s0 s1 ooc1 w) = w := by
  have e0 := h0.sq; have e1 := h1.sq
  have hc1 : c1 ≠ 0 := fun h => by rw [h, mul_zero] at hc; exact zero_ne_one hc
  have ho : ooc1 = 1 / c1 := by field_simp; linear_combination hc
  subst ho
  obtain ⟨x, y, z⟩ := w
  simp only [bodyXYZ_NInv_P, bodyXYZ_N_P]; mob_unfold
  repeat' apply And.intro
  all_goals (field_simp; trig_ring [e0, e1])
/-- `NInv` followed by `N` -/
theorem bodyXYZ_N_NInv {c0 s0 c1 s1 ooc1 : K} (h0 : Trig c0 s0) (h1 : Trig c1 s1) (hc : ooc1 * c1 = 1) (qd : V3 K) :
    bodyXYZ_N_P c0 s0 s1 ooc1 (bodyXYZ_NInv_P c0 s0 c1 s1 qd) = qd := by
  have e0 := h0.sq; have e1 := h1.sq
  have hc1 : c1 ≠ 0 := fun h => by rw [h, mul_zero] at hc; exact zero_ne_one hc
  have ho : ooc1 = 1 / c1 := by field_simp; linear_combination hc
  subst ho
  obtain ⟨x, y, z⟩ := qd
  simp only [bodyXYZ_NInv_P, bodyXYZ_N_P]; mob_unfold
  repeat' apply And.intro
  all_goals (field_simp; trig_ring [e0, e1])

/-- Ball / Free / Ellipsoid rotation, Euler mode: `q̇ = N_P(q) ω` turns the coded rotation with `ω` -/
theorem Ball.Xe_jet {c0 c1 c2 s0 s1 s2 ooc1 : K} (h0 : Trig c0 s0) (h1 : Trig c1 s1) (hc : ooc1 * c1 = 1) (w : V3 K) :
    let qd := bodyXYZ_N_P c0 s0 s1 ooc1 w
    IsRigidVel (Ball.Xe (Jet.cosL c0 s0 qd.x) (Jet.cosL c1 s1 qd.y) (Jet.cosL c2 s2 qd.z)
                        (Jet.sinL c0 s0 qd.x) (Jet.sinL c1 s1 qd.y) (Jet.sinL c2 s2 qd.z))
      (Hmul Ball.H [w.x, w.y, w.z]) := by
  intro qd
  have hv : Hmul Ball.H [w.x, w.y, w.z] = ⟨w, V3.zero⟩ := by
    obtain ⟨x, y, z⟩ := w; simp only [Ball.H]; mob_unfold; ring_all
  rw [hv]
  have t := rotXYZ_turns (c2 := c2) (s2 := s2) h0 h1 qd
  unfold Turns at t
  rw [bodyXYZ_NInv_N h0 h1 hc] at t
  refine ⟨?_, ?_⟩
  · show (rotXYZJet c0 c1 c2 s0 s1 s2 qd).eps = _
    rw [t]; rfl
  · simp only [Ball.Xe, Gimbal.X]; mob_unfold

section Quat
variable [CharZero K]

theorem rotQuat_turns (e : Q4 K) (w : V3 K) : Turns (rotQuat (Q4.var e (quat_N e w))) w := by
  simp only [Turns, rotQuat, quat_N]; mob_unfold; ring_all

/-- Ball (quaternion mode, `q` possibly unnormalised): normalise, rotate; `q̇ = N(q) ω` -/
theorem Ball.Xq_jet (q : Q4 K) (r : K) (w : V3 K) :
    IsRigidVel (Ball.Xq (Q4.var q (quat_N q w)) (Jet.invSqrtL (Q4.normSq (Q4.var q (quat_N q w))) r))
      (Hmul Ball.H [w.x, w.y, w.z]) := by
  have hv : Hmul Ball.H [w.x, w.y, w.z] = ⟨w, V3.zero⟩ := by
    obtain ⟨x, y, z⟩ := w; simp only [Ball.H]; mob_unfold; ring_all
  rw [hv]
  have t := rotQuat_turns (Q4.smul r q) w
  unfold Turns at t
  simp only [IsRigidVel, Ball.Xq, smul_var_quat_N, t, rotQuat_var_re]
  refine ⟨trivial, ?_⟩
  mob_unfold
theorem Free.Xq_jet (q : Q4 K) (r : K) (p w v : V3 K) :
    IsRigidVel (Free.Xq (Q4.var q (quat_N q w)) (Jet.invSqrtL (Q4.normSq (Q4.var q (quat_N q w))) r) (V3.var p v))
      (Hmul Free.H [w.x, w.y, w.z, v.x, v.y, v.z]) := by
  have hv : Hmul Free.H [w.x, w.y, w.z, v.x, v.y, v.z] = ⟨w, v⟩ := by
    obtain ⟨x, y, z⟩ := w; obtain ⟨vx, vy, vz⟩ := v; simp only [Free.H, Ball.H]; mob_unfold; ring_all
  rw [hv]
  have t := rotQuat_turns (Q4.smul r q) w
  unfold Turns at t
  simp only [IsRigidVel, Free.Xq, smul_var_quat_N, t, rotQuat_var_re]
  refine ⟨trivial, ?_⟩
  obtain ⟨vx, vy, vz⟩ := v; mob_unfold
/-- LineOrientation (quaternion mode, forward): `u` = x,y of `ω` in M; `q̇ = N(q)·(R_FM (u₀,u₁,0))` -/
theorem LineOrientation.Xq_jet (q : Q4 K) (r : K) (u0 u1 : K) :
    let X0 := Ball.Xq q r
    let w := X0.R.mulVec ⟨u0, u1, 0⟩
    IsRigidVel (Ball.Xq (Q4.var q (quat_N q w)) (Jet.invSqrtL (Q4.normSq (Q4.var q (quat_N q w))) r))
      (Hmul (LineOrientation.H X0) [u0, u1]) := by
  intro X0 w
  have hv : Hmul (LineOrientation.H X0) [u0, u1] = ⟨w, V3.zero⟩ := by
    simp only [w, LineOrientation.H]; mob_unfold; ring_all
  rw [hv]
  have hb := Ball.Xq_jet q r w
  have hb2 : Hmul Ball.H [w.x, w.y, w.z] = ⟨w, V3.zero⟩ := by
    generalize w = ww; obtain ⟨x, y, z⟩ := ww; simp only [Ball.H]; mob_unfold; ring_all
  rw [hb2] at hb
  exact hb
end Quat

/-- Ellipsoid: for any rotation jet turning with `ω`, `X_FM = (R, semi .* Mz)` moves rigidly with `H ω` -/
theorem Ellipsoid.X_FM_jet (semi : V3 K) (Rj : M33 (Jet K)) (w : V3 K) (hR : Turns Rj w) :
    IsRigidVel (Ellipsoid.Xof (V3.const semi) Rj) (Hmul (Ellipsoid.H semi Rj.re.col2) [w.x, w.y, w.z]) := by
  obtain ⟨⟨a0, a1⟩, ⟨b0, b1⟩, ⟨c0, c1⟩, ⟨d0, d1⟩, ⟨e0, e1⟩, ⟨f0, f1⟩, ⟨g0, g1⟩, ⟨h0, h1⟩, ⟨i0, i1⟩⟩ := Rj
  unfold Turns at hR
  mob_unfold at hR
  obtain ⟨r1, r2, r3, r4, r5, r6, r7, r8, r9⟩ := hR
  subst r1 r2 r3 r4 r5 r6 r7 r8 r9
  simp only [IsRigidVel, Ellipsoid.Xof, Ellipsoid.H]; mob_unfold; ring_all

/-! ## `HDot_FM` is the time derivative of `H_FM` -/

theorem BendStretch.HDot_is_derivative {X0 : Xf (Jet K)} {V0 : SV K} (h : IsRigidVel X0 V0) :
    (BendStretch.H X0).map SV.eps = BendStretch.HDot X0.re V0 := by
  obtain ⟨⟨⟨a0, a1⟩, ⟨b0, b1⟩, ⟨c0, c1⟩, ⟨d0, d1⟩, ⟨e0, e1⟩, ⟨f0, f1⟩, ⟨g0, g1⟩, ⟨h0, h1⟩, ⟨i0, i1⟩⟩, ⟨⟨x0, x1⟩, ⟨y0, y1⟩, ⟨z0, z1⟩⟩⟩ := X0
  obtain ⟨⟨wx, wy, wz⟩, ⟨vx, vy, vz⟩⟩ := V0
  simp only [IsRigidVel] at h
  mob_unfold at h
  obtain ⟨⟨r1, r2, r3, r4, r5, r6, r7, r8, r9⟩, r10, r11, r12⟩ := h
  subst r1 r2 r3 r4 r5 r6 r7 r8 r9 r10 r11 r12
  simp only [BendStretch.H, BendStretch.HDot]; mob_unfold; ring_all
theorem Universal.HDot_is_derivative {X0 : Xf (Jet K)} {V0 : SV K} (h : IsRigidVel X0 V0) :
    (Universal.H X0).map SV.eps = Universal.HDot X0.re V0.w := by
  obtain ⟨⟨⟨a0, a1⟩, ⟨b0, b1⟩, ⟨c0, c1⟩, ⟨d0, d1⟩, ⟨e0, e1⟩, ⟨f0, f1⟩, ⟨g0, g1⟩, ⟨h0, h1⟩, ⟨i0, i1⟩⟩, ⟨⟨x0, x1⟩, ⟨y0, y1⟩, ⟨z0, z1⟩⟩⟩ := X0
  obtain ⟨⟨wx, wy, wz⟩, ⟨vx, vy, vz⟩⟩ := V0
  simp only [IsRigidVel] at h
  mob_unfold at h
  obtain ⟨⟨r1, r2, r3, r4, r5, r6, r7, r8, r9⟩, r10, r11, r12⟩ := h
  subst r1 r2 r3 r4 r5 r6 r7 r8 r9 r10 r11 r12
  simp only [Universal.H, Universal.HDot]; mob_unfold; ring_all
theorem LineOrientation.HDot_is_derivative {X0 : Xf (Jet K)} {V0 : SV K} (h : IsRigidVel X0 V0) :
    (LineOrientation.H X0).map SV.eps = LineOrientation.HDot X0.re V0.w := by
  obtain ⟨⟨⟨a0, a1⟩, ⟨b0, b1⟩, ⟨c0, c1⟩, ⟨d0, d1⟩, ⟨e0, e1⟩, ⟨f0, f1⟩, ⟨g0, g1⟩, ⟨h0, h1⟩, ⟨i0, i1⟩⟩, ⟨⟨x0, x1⟩, ⟨y0, y1⟩, ⟨z0, z1⟩⟩⟩ := X0
  obtain ⟨⟨wx, wy, wz⟩, ⟨vx, vy, vz⟩⟩ := V0
  simp only [IsRigidVel] at h
  mob_unfold at h
  obtain ⟨⟨r1, r2, r3, r4, r5, r6, r7, r8, r9⟩, r10, r11, r12⟩ := h
  subst r1 r2 r3 r4 r5 r6 r7 r8 r9 r10 r11 r12
  simp only [LineOrientation.H, LineOrientation.HDot]; mob_unfold; ring_all
theorem FreeLine.HDot_is_derivative {X0 : Xf (Jet K)} {V0 : SV K} (h : IsRigidVel X0 V0) :
    (FreeLine.H X0).map SV.eps = FreeLine.HDot X0.re V0.w := by
  obtain ⟨⟨⟨a0, a1⟩, ⟨b0, b1⟩, ⟨c0, c1⟩, ⟨d0, d1⟩, ⟨e0, e1⟩, ⟨f0, f1⟩, ⟨g0, g1⟩, ⟨h0, h1⟩, ⟨i0, i1⟩⟩, ⟨⟨x0, x1⟩, ⟨y0, y1⟩, ⟨z0, z1⟩⟩⟩ := X0
  obtain ⟨⟨wx, wy, wz⟩, ⟨vx, vy, vz⟩⟩ := V0
  simp only [IsRigidVel] at h
  mob_unfold at h
  obtain ⟨⟨r1, r2, r3, r4, r5, r6, r7, r8, r9⟩, r10, r11, r12⟩ := h
  subst r1 r2 r3 r4 r5 r6 r7 r8 r9 r10 r11 r12
  simp only [FreeLine.H, FreeLine.HDot, LineOrientation.H, LineOrientation.HDot]; mob_unfold; ring_all
theorem Ellipsoid.HDot_is_derivative (semi : V3 K) {X0 : Xf (Jet K)} {V0 : SV K} (h : IsRigidVel X0 V0) :
    (Ellipsoid.H (V3.const semi) X0.R.col2).map SV.eps = Ellipsoid.HDot semi X0.re.R.col2 V0.w := by
  obtain ⟨⟨⟨a0, a1⟩, ⟨b0, b1⟩, ⟨c0, c1⟩, ⟨d0, d1⟩, ⟨e0, e1⟩, ⟨f0, f1⟩, ⟨g0, g1⟩, ⟨h0, h1⟩, ⟨i0, i1⟩⟩, ⟨⟨x0, x1⟩, ⟨y0, y1⟩, ⟨z0, z1⟩⟩⟩ := X0
  obtain ⟨⟨wx, wy, wz⟩, ⟨vx, vy, vz⟩⟩ := V0
  simp only [IsRigidVel] at h
  mob_unfold at h
  obtain ⟨⟨r1, r2, r3, r4, r5, r6, r7, r8, r9⟩, r10, r11, r12⟩ := h
  subst r1 r2 r3 r4 r5 r6 r7 r8 r9 r10 r11 r12
  simp only [Ellipsoid.H, Ellipsoid.HDot]; mob_unfold; ring_all
theorem SphericalCoords.HDot_is_derivative (P : SphericalCoords.Par K) {X0 : Xf (Jet K)} {V0 : SV K} (h : IsRigidVel X0 V0) :
    (SphericalCoords.H ⟨Jet.const P.caz0, Jet.const P.saz0, Jet.const P.cze0, Jet.const P.sze0, Jet.const P.sgAz,
        Jet.const P.sgZe, Jet.const P.sgT, P.axisX⟩ X0).map SV.eps = SphericalCoords.HDot P X0.re V0 := by
  obtain ⟨⟨⟨a0, a1⟩, ⟨b0, b1⟩, ⟨c0, c1⟩, ⟨d0, d1⟩, ⟨e0, e1⟩, ⟨f0, f1⟩, ⟨g0, g1⟩, ⟨h0, h1⟩, ⟨i0, i1⟩⟩, ⟨⟨x0, x1⟩, ⟨y0, y1⟩, ⟨z0, z1⟩⟩⟩ := X0
  obtain ⟨⟨wx, wy, wz⟩, ⟨vx, vy, vz⟩⟩ := V0
  obtain ⟨ca, sa, cz, sz, ga, gz, gt, ax⟩ := P
  simp only [IsRigidVel] at h
  mob_unfold at h
  obtain ⟨⟨r1, r2, r3, r4, r5, r6, r7, r8, r9⟩, r10, r11, r12⟩ := h
  subst r1 r2 r3 r4 r5 r6 r7 r8 r9 r10 r11 r12
  cases ax <;>
  simp only [SphericalCoords.H, SphericalCoords.HDot, SphericalCoords.axisOf, if_true, Bool.false_eq_true, if_false] <;>
  mob_unfold <;> ring_all
/-- Gimbal / Bushing / CantileverFreeBeam: `HDot` differentiates the trig pairs (`u = q̇`) -/
theorem Gimbal.HDot_is_derivative (c0 c1 s0 s1 qd0 qd1 : K) :
    (Gimbal.H (Jet.cosL c0 s0 qd0) (Jet.cosL c1 s1 qd1) (Jet.sinL c0 s0 qd0) (Jet.sinL c1 s1 qd1)).map SV.eps
      = Gimbal.HDot c0 c1 s0 s1 qd0 qd1 := by
  simp only [Gimbal.H, Gimbal.Hw, Gimbal.HDot, Gimbal.HDotw]; mob_unfold; ring_all
theorem Bushing.HDot_is_derivative (c0 c1 s0 s1 qd0 qd1 : K) :
    (Bushing.H (Jet.cosL c0 s0 qd0) (Jet.cosL c1 s1 qd1) (Jet.sinL c0 s0 qd0) (Jet.sinL c1 s1 qd1)).map SV.eps
      = Bushing.HDot c0 c1 s0 s1 qd0 qd1 := by
  simp only [Bushing.H, Bushing.HDot, Gimbal.H, Gimbal.Hw, Gimbal.HDot, Gimbal.HDotw]; mob_unfold; ring_all
theorem Cantilever.HDot_is_derivative (defl disp c0 c1 s0 s1 q0 q1 qd0 qd1 : K) :
    (Cantilever.H (Jet.const defl) (Jet.const disp) (Jet.cosL c0 s0 qd0) (Jet.cosL c1 s1 qd1) (Jet.sinL c0 s0 qd0)
        (Jet.sinL c1 s1 qd1) (Jet.var q0 qd0) (Jet.var q1 qd1)).map SV.eps
      = Cantilever.HDot disp c0 c1 s0 s1 qd0 qd1 := by
  simp only [Cantilever.H, Cantilever.HDot]; mob_unfold; ring_all

/-! ## `N`, `NInv`, `NDot`, `qdotdot` -/

/-- Euler `~N` is the adjoint of `N` -/
theorem bodyXYZ_NT_adjoint (c0 s0 s1 ooc1 : K) (f w : V3 K) :
    V3.dot f (bodyXYZ_N_P c0 s0 s1 ooc1 w) = V3.dot (bodyXYZ_NT_P c0 s0 s1 ooc1 f) w := by
  simp only [bodyXYZ_N_P, bodyXYZ_NT_P]; mob_unfold; ring
theorem bodyXYZ_NInvT_adjoint (c0 s0 c1 s1 : K) (v qd : V3 K) :
    V3.dot v (bodyXYZ_NInv_P c0 s0 c1 s1 qd) = V3.dot (bodyXYZ_NInvT_P c0 s0 c1 s1 v) qd := by
  simp only [bodyXYZ_NInv_P, bodyXYZ_NInvT_P]; mob_unfold; ring
/-- Euler `NDot` is the time derivative of `N` along any coordinate motion `qd` -/
theorem bodyXYZ_NDot_is_derivative {c0 s0 c1 s1 ooc1 : K} (hc : ooc1 * c1 = 1) (qd w : V3 K) :
    (bodyXYZ_N_P (Jet.cosL c0 s0 qd.x) (Jet.sinL c0 s0 qd.x) (Jet.sinL c1 s1 qd.y) (Jet.oocosL s1 ooc1 qd.y) (V3.const w)).eps
      = (bodyXYZ_NDot_P c0 s0 s1 ooc1 qd).mulVec w := by
  simp only [bodyXYZ_N_P, bodyXYZ_NDot_P]; mob_unfold
  repeat' apply And.intro
  all_goals first
    | ring1
    | linear_combination (s0 * w.y * qd.y - c0 * w.z * qd.y) * hc
/-- Euler `calcQDotDot` (`convertAngAccInParentToBodyXYZDotDot`) is the time derivative of `q̇ = N(q) ω` -/
theorem bodyXYZ_qdotdot_is_derivative {c0 s0 c1 s1 ooc1 : K} (h0 : Trig c0 s0) (h1 : Trig c1 s1) (hc : ooc1 * c1 = 1)
    (w b : V3 K) :
    let qd := bodyXYZ_N_P c0 s0 s1 ooc1 w
    (bodyXYZ_N_P (Jet.cosL c0 s0 qd.x) (Jet.sinL c0 s0 qd.x) (Jet.sinL c1 s1 qd.y) (Jet.oocosL s1 ooc1 qd.y) (V3.var w b)).eps
      = bodyXYZ_qdotdot_P c0 s0 c1 s1 ooc1 qd b := by
  intro qd
  have e0 := h0.sq; have e1 := h1.sq
  have hc1 : c1 ≠ 0 := fun h => by rw [h, mul_zero] at hc; exact zero_ne_one hc
  have ho : ooc1 = 1 / c1 := by field_simp; linear_combination hc
  subst ho
  obtain ⟨x, y, z⟩ := w; obtain ⟨bx, b_y, bz⟩ := b
  simp only [qd, bodyXYZ_N_P, bodyXYZ_qdotdot_P]; mob_unfold
  repeat' apply And.intro
  all_goals (field_simp; trig_ring [e0, e1])

section Quat2
variable [CharZero K]
/-- quaternion `NInv·N = |q|² I` (the identity for a normalised quaternion, as the code documents) -/
theorem quat_NInv_N (q : Q4 K) (w : V3 K) : quat_NInv q (quat_N q w) = V3.smul (Q4.normSq q) w := by
  simp only [quat_NInv, quat_N]; mob_unfold; ring_all
theorem quat_N_NInv_unit (q : Q4 K) (w : V3 K) (h : Q4.normSq q = 1) : quat_NInv q (quat_N q w) = w := by
  rw [quat_NInv_N, h]; obtain ⟨x, y, z⟩ := w; mob_unfold; ring_all
theorem quat_NT_adjoint (q f : Q4 K) (w : V3 K) : Q4.dot f (quat_N q w) = V3.dot (quat_NT q f) w := by
  simp only [quat_N, quat_NT]; mob_unfold; ring
theorem quat_NInvT_adjoint (q qd : Q4 K) (v : V3 K) : V3.dot v (quat_NInv q qd) = Q4.dot (quat_NInvT q v) qd := by
  simp only [quat_NInv, quat_NInvT]; mob_unfold; ring
/-- quaternion `NDot(q̇) = N(q̇)` is the time derivative of `N(q)` (it is linear in `q`) -/
theorem quat_NDot_is_derivative (q qd : Q4 K) (w : V3 K) :
    let r := quat_N (Q4.var q qd) (V3.const w)
    (⟨r.a.eps, r.b.eps, r.c.eps, r.d.eps⟩ : Q4 K) = quat_N qd w := by
  simp only [quat_N]; mob_unfold; ring_all
/-- quaternion `calcQDotDot` (`N b − ¼|ω|² q`) is the time derivative of `q̇ = N(q) ω` -/
theorem quat_qdotdot_is_derivative (q : Q4 K) (w b : V3 K) :
    let r := quat_N (Q4.var q (quat_N q w)) (V3.var w b)
    (⟨r.a.eps, r.b.eps, r.c.eps, r.d.eps⟩ : Q4 K) = quat_qdotdot q w b := by
  simp only [quat_N, quat_qdotdot]; mob_unfold; ring_all
end Quat2

/-! ## More instances: Euler-mode and FreeLine / Ellipsoid poses -/

/-- a turning rotation with an independently moving origin is a rigid motion -/
theorem isRigid_of_turns {R : M33 (Jet K)} {w : V3 K} (hR : Turns R w) (p v : V3 K) :
    IsRigidVel ⟨R, V3.var p v⟩ ⟨w, v⟩ := by
  refine ⟨hR, ?_⟩
  obtain ⟨a, b, c⟩ := v; mob_unfold

theorem Free.Hmul_wv (w v : V3 K) : Hmul Free.H [w.x, w.y, w.z, v.x, v.y, v.z] = ⟨w, v⟩ := by
  obtain ⟨x, y, z⟩ := w; obtain ⟨vx, vy, vz⟩ := v; simp only [Free.H, Ball.H]; mob_unfold; ring_all

/-- Free, Euler mode: `q̇ = (N_P(q) ω, v)` -/
theorem Free.Xe_jet {c0 c1 c2 s0 s1 s2 ooc1 : K} (h0 : Trig c0 s0) (h1 : Trig c1 s1) (hc : ooc1 * c1 = 1) (p w v : V3 K) :
    let qd := bodyXYZ_N_P c0 s0 s1 ooc1 w
    IsRigidVel (Free.Xe (Jet.cosL c0 s0 qd.x) (Jet.cosL c1 s1 qd.y) (Jet.cosL c2 s2 qd.z)
                        (Jet.sinL c0 s0 qd.x) (Jet.sinL c1 s1 qd.y) (Jet.sinL c2 s2 qd.z) (V3.var p v))
      (Hmul Free.H [w.x, w.y, w.z, v.x, v.y, v.z]) := by
  intro qd
  rw [Free.Hmul_wv]
  have t := rotXYZ_turns (c2 := c2) (s2 := s2) h0 h1 qd
  rw [bodyXYZ_NInv_N h0 h1 hc] at t
  exact isRigid_of_turns t p v

section QuatInst
variable [CharZero K]
/-- the normalised quaternion rotation on lifted coordinates turns with `ω` -/
theorem ballRq_turns (q : Q4 K) (r : K) (w : V3 K) :
    Turns (rotQuat (Q4.smul (Jet.invSqrtL (Q4.normSq (Q4.var q (quat_N q w))) r) (Q4.var q (quat_N q w)))) w := by
  rw [smul_var_quat_N]; exact rotQuat_turns _ w
theorem ballRq_re (q : Q4 K) (r : K) (w : V3 K) :
    (rotQuat (Q4.smul (Jet.invSqrtL (Q4.normSq (Q4.var q (quat_N q w))) r) (Q4.var q (quat_N q w)))).re
      = rotQuat (Q4.smul r q) := by
  rw [smul_var_quat_N, rotQuat_var_re]

/-- FreeLine (quaternion mode, forward): speeds = (x,y of ω in M; v in F), `q̇ = (N(q)·R_FM(u₀,u₁,0), v)` -/
theorem FreeLine.Xq_jet (q : Q4 K) (r : K) (p v : V3 K) (u0 u1 : K) :
    let X0 := Free.Xq q r p
    let w := X0.R.mulVec ⟨u0, u1, 0⟩
    IsRigidVel (Free.Xq (Q4.var q (quat_N q w)) (Jet.invSqrtL (Q4.normSq (Q4.var q (quat_N q w))) r) (V3.var p v))
      (Hmul (FreeLine.H X0) [u0, u1, v.x, v.y, v.z]) := by
  intro X0 w
  have hv : Hmul (FreeLine.H X0) [u0, u1, v.x, v.y, v.z] = ⟨w, v⟩ := by
    obtain ⟨vx, vy, vz⟩ := v
    simp only [w, FreeLine.H, LineOrientation.H]; mob_unfold; ring_all
  rw [hv]
  exact isRigid_of_turns (ballRq_turns q r w) p v
/-- Ellipsoid, quaternion mode -/
theorem Ellipsoid.Xq_jet (semi : V3 K) (q : Q4 K) (r : K) (w : V3 K) :
    IsRigidVel (Ellipsoid.Xof (V3.const semi)
        (rotQuat (Q4.smul (Jet.invSqrtL (Q4.normSq (Q4.var q (quat_N q w))) r) (Q4.var q (quat_N q w)))))
      (Hmul (Ellipsoid.H semi (rotQuat (Q4.smul r q)).col2) [w.x, w.y, w.z]) := by
  have h := Ellipsoid.X_FM_jet semi _ w (ballRq_turns q r w)
  rw [ballRq_re] at h
  exact h
end QuatInst

/-- Ellipsoid, Euler mode -/
theorem Ellipsoid.Xe_jet (semi : V3 K) {c0 c1 c2 s0 s1 s2 ooc1 : K} (h0 : Trig c0 s0) (h1 : Trig c1 s1)
    (hc : ooc1 * c1 = 1) (w : V3 K) :
    IsRigidVel (Ellipsoid.Xof (V3.const semi) (rotXYZJet c0 c1 c2 s0 s1 s2 (bodyXYZ_N_P c0 s0 s1 ooc1 w)))
      (Hmul (Ellipsoid.H semi (rotXYZ c0 c1 c2 s0 s1 s2).col2) [w.x, w.y, w.z]) := by
  have t := rotXYZ_turns (c2 := c2) (s2 := s2) h0 h1 (bodyXYZ_N_P c0 s0 s1 ooc1 w)
  rw [bodyXYZ_NInv_N h0 h1 hc] at t
  have h := Ellipsoid.X_FM_jet semi _ w t
  rw [rotXYZJet_re] at h
  exact h

/-- body-frame Euler block: `NInv_P(q)·(N_B(q)·ω_M) = R(q)·ω_M` -/
theorem bodyXYZ_NInvP_NB {c0 c1 c2 s0 s1 s2 ooc1 : K} (h0 : Trig c0 s0) (h1 : Trig c1 s1) (h2 : Trig c2 s2)
    (hc : ooc1 * c1 = 1) (wM : V3 K) :
    bodyXYZ_NInv_P c0 s0 c1 s1 ((bodyXYZ_N_B s1 c2 s2 ooc1).mulVec wM) = (rotXYZ c0 c1 c2 s0 s1 s2).mulVec wM := by
  have e0 := h0.sq; have e1 := h1.sq; have e2 := h2.sq
  have hc1 : c1 ≠ 0 := fun h => by rw [h, mul_zero] at hc; exact zero_ne_one hc
  have ho : ooc1 = 1 / c1 := by field_simp; linear_combination hc
  subst ho
  obtain ⟨x, y, z⟩ := wM
  simp only [bodyXYZ_NInv_P, bodyXYZ_N_B, rotXYZ]; mob_unfold
  repeat' apply And.intro
  all_goals (field_simp; trig_ring [e0, e1, e2])
/-- LineOrientation, Euler mode (forward): `q̇ = N_B(q)·(u₀,u₁,0)` -/
theorem LineOrientation.Xe_jet {c0 c1 c2 s0 s1 s2 ooc1 : K} (h0 : Trig c0 s0) (h1 : Trig c1 s1) (h2 : Trig c2 s2)
    (hc : ooc1 * c1 = 1) (u0 u1 : K) :
    let qd := (bodyXYZ_N_B s1 c2 s2 ooc1).mulVec ⟨u0, u1, 0⟩
    IsRigidVel ⟨rotXYZJet c0 c1 c2 s0 s1 s2 qd, V3.var V3.zero V3.zero⟩
      (Hmul (LineOrientation.H ⟨rotXYZ c0 c1 c2 s0 s1 s2, V3.zero⟩) [u0, u1]) := by
  intro qd
  have hv : Hmul (LineOrientation.H ⟨rotXYZ c0 c1 c2 s0 s1 s2, V3.zero⟩) [u0, u1]
      = ⟨(rotXYZ c0 c1 c2 s0 s1 s2).mulVec ⟨u0, u1, 0⟩, V3.zero⟩ := by
    simp only [LineOrientation.H]; mob_unfold; ring_all
  rw [hv]
  have t := rotXYZ_turns (c2 := c2) (s2 := s2) h0 h1 qd
  rw [bodyXYZ_NInvP_NB h0 h1 h2 hc] at t
  exact isRigid_of_turns t V3.zero V3.zero
/-- FreeLine, Euler mode (forward) -/
theorem FreeLine.Xe_jet {c0 c1 c2 s0 s1 s2 ooc1 : K} (h0 : Trig c0 s0) (h1 : Trig c1 s1) (h2 : Trig c2 s2)
    (hc : ooc1 * c1 = 1) (p v : V3 K) (u0 u1 : K) :
    let qd := (bodyXYZ_N_B s1 c2 s2 ooc1).mulVec ⟨u0, u1, 0⟩
    IsRigidVel ⟨rotXYZJet c0 c1 c2 s0 s1 s2 qd, V3.var p v⟩
      (Hmul (FreeLine.H ⟨rotXYZ c0 c1 c2 s0 s1 s2, p⟩) [u0, u1, v.x, v.y, v.z]) := by
  intro qd
  have hv : Hmul (FreeLine.H ⟨rotXYZ c0 c1 c2 s0 s1 s2, p⟩) [u0, u1, v.x, v.y, v.z]
      = ⟨(rotXYZ c0 c1 c2 s0 s1 s2).mulVec ⟨u0, u1, 0⟩, v⟩ := by
    obtain ⟨vx, vy, vz⟩ := v
    simp only [FreeLine.H, LineOrientation.H]; mob_unfold; ring_all
  rw [hv]
  have t := rotXYZ_turns (c2 := c2) (s2 := s2) h0 h1 qd
  rw [bodyXYZ_NInvP_NB h0 h1 h2 hc] at t
  exact isRigid_of_turns t p v

/-! ## Reversed `HDot_FM` and ground-frame `HDot_PB_G` are time derivatives -/

/-- default `calcReverseMobilizerHDot_FM`: derivative of the reversed hinge column when the stored (reversed) transform
moves rigidly with `V_FM` and the forward column has derivative `hj.eps` -/
theorem reverseHDotCol_is_derivative {X : Xf (Jet K)} {V : SV K} (h : IsRigidVel X V) (hj : SV (Jet K)) :
    (reverseHCol X hj).eps = reverseHDotCol X.re V (reverseHCol X.re hj.re) hj.eps := by
  obtain ⟨⟨⟨a0, a1⟩, ⟨b0, b1⟩, ⟨c0, c1⟩, ⟨d0, d1⟩, ⟨e0, e1⟩, ⟨f0, f1⟩, ⟨g0, g1⟩, ⟨h0, h1⟩, ⟨i0, i1⟩⟩, ⟨⟨x0, x1⟩, ⟨y0, y1⟩, ⟨z0, z1⟩⟩⟩ := X
  obtain ⟨⟨wx, wy, wz⟩, ⟨vx, vy, vz⟩⟩ := V
  obtain ⟨⟨⟨p0, p1⟩, ⟨q0, q1⟩, ⟨r0, r1⟩⟩, ⟨⟨s0, s1⟩, ⟨t0, t1⟩, ⟨u0, u1⟩⟩⟩ := hj
  simp only [IsRigidVel] at h
  mob_unfold at h
  obtain ⟨⟨r1', r2, r3, r4, r5, r6, r7, r8, r9⟩, r10, r11, r12⟩ := h
  subst r1' r2 r3 r4 r5 r6 r7 r8 r9 r10 r11 r12
  simp only [reverseHCol, reverseHDotCol]; mob_unfold; ring_all

/-- `calcParentToChildVelocityJacobianInGroundDot`: derivative of the ground-frame hinge column when the parent turns
with `ω_GP`, the mobilizer moves rigidly with `V_FM`, and the `F`-frame column has derivative `hj.eps` -/
theorem HDot_PB_G_col_is_derivative {Rg : M33 (Jet K)} {wg : V3 K} (hg : Turns Rg wg) {X_FM : Xf (Jet K)} {V_FM : SV K}
    (hm : IsRigidVel X_FM V_FM) (X_PF X_MB : Xf K) (hj : SV (Jet K)) :
    (H_PB_G_col Rg (Xf.const X_PF) X_FM (Xf.const X_MB) hj).eps
      = HDot_PB_G_col Rg.re wg X_PF X_FM.re X_MB V_FM.w hj.re hj.eps (H_PB_G_col Rg.re X_PF X_FM.re X_MB hj.re) := by
  obtain ⟨⟨A0, A1⟩, ⟨B0, B1⟩, ⟨C0, C1⟩, ⟨D0, D1⟩, ⟨E0, E1⟩, ⟨F0, F1⟩, ⟨G0, G1⟩, ⟨H0, H1⟩, ⟨I0, I1⟩⟩ := Rg
  obtain ⟨⟨⟨a0, a1⟩, ⟨b0, b1⟩, ⟨c0, c1⟩, ⟨d0, d1⟩, ⟨e0, e1⟩, ⟨f0, f1⟩, ⟨g0, g1⟩, ⟨h0, h1⟩, ⟨i0, i1⟩⟩, ⟨⟨x0, x1⟩, ⟨y0, y1⟩, ⟨z0, z1⟩⟩⟩ := X_FM
  obtain ⟨⟨wx, wy, wz⟩, ⟨vx, vy, vz⟩⟩ := V_FM
  obtain ⟨gx, gy, gz⟩ := wg
  obtain ⟨⟨⟨p0, p1⟩, ⟨q0, q1⟩, ⟨r0, r1⟩⟩, ⟨⟨s0, s1⟩, ⟨t0, t1⟩, ⟨u0, u1⟩⟩⟩ := hj
  obtain ⟨⟨fa, fb, fc, fd, fe, ff, fg, fh, fi⟩, ⟨fx, fy, fz⟩⟩ := X_PF
  obtain ⟨⟨ma, mb, mc, md, me, mf, mg, mh, mi⟩, ⟨mx, my, mz⟩⟩ := X_MB
  unfold Turns at hg
  simp only [IsRigidVel] at hm
  mob_unfold at hg hm
  obtain ⟨k1, k2, k3, k4, k5, k6, k7, k8, k9⟩ := hg
  obtain ⟨⟨r1', r2, r3, r4, r5, r6, r7, r8, r9⟩, r10, r11, r12⟩ := hm
  subst k1 k2 k3 k4 k5 k6 k7 k8 k9 r1' r2 r3 r4 r5 r6 r7 r8 r9 r10 r11 r12
  simp only [H_PB_G_col, HDot_PB_G_col]; mob_unfold; ring_all

/-! ## Whole path from Ground: induction over the executed tree step -/

/-- one mobilized body on the path: its fixed frames, its mobilizer pose jet, hinge matrix and speeds -/
structure Joint (K : Type) where
  X_PF : Xf K
  X_MB : Xf K
  X_FM : Xf (Jet K)
  H_FM : List (SV K)
  u : List K

/-- the mobilizer's pose/velocity is a jet pair and all rotations are proper -/
def Joint.Ok (j : Joint K) : Prop :=
  IsRigidVel j.X_FM (Hmul j.H_FM j.u) ∧ IsRot j.X_PF.R ∧ IsRot j.X_MB.R ∧ IsRot j.X_FM.R.re

/-- the executed recursion (`X_GB`, `H_PB_G`, `V_GB` of the model) along a path of bodies starting at a parent state -/
def pathKin : List (Joint K) → Xf (Jet K) × SV K → Xf (Jet K) × SV K
  | [], s => s
  | j :: js, (X, V) =>
    pathKin js (X_GB X (Xf.const j.X_PF) j.X_FM (Xf.const j.X_MB),
                V_GB X.re V (X_PB j.X_PF j.X_FM.re j.X_MB) (Hmul (H_PB_G X.R.re j.X_PF j.X_FM.re j.X_MB j.H_FM) j.u))

theorem X_GB_isRot {X_GP X_FM : Xf (Jet K)} (X_PF X_MB : Xf K) (rP : IsRot X_GP.R.re) (rF : IsRot X_PF.R)
    (rM : IsRot X_FM.R.re) (rB : IsRot X_MB.R) :
    IsRot (X_GB X_GP (Xf.const X_PF) X_FM (Xf.const X_MB)).R.re := by
  have cF : (Xf.const X_PF).R.re = X_PF.R := by obtain ⟨⟨a, b, c, d, e, f, g, h, i⟩, p⟩ := X_PF; simp only [Xf.const]; mob_unfold
  have cB : (Xf.const X_MB).R.re = X_MB.R := by obtain ⟨⟨a, b, c, d, e, f, g, h, i⟩, p⟩ := X_MB; simp only [Xf.const]; mob_unfold
  simp only [X_GB, X_PB, Xf.mul, M33.mul_re, cF, cB]
  exact rP.mul (rF.mul (rM.mul rB))

/-- **tree-level statement**: along any path from a rigidly moving ancestor (Ground: pose `1`, velocity `0`), every
body's pose jet moves rigidly with the velocity the executed recursion computes (`tree_vel_is_derivative`) -/
theorem path_vel_is_derivative : ∀ (js : List (Joint K)) (X : Xf (Jet K)) (V : SV K),
    IsRigidVel X V → IsRot X.R.re → (∀ j ∈ js, j.Ok) →
    IsRigidVel (pathKin js (X, V)).1 (pathKin js (X, V)).2 ∧ IsRot (pathKin js (X, V)).1.R.re
  | [], X, V, h, r, _ => by simp only [pathKin]; exact ⟨h, r⟩
  | j :: js, X, V, h, r, hall => by
    have hj : j.Ok := hall j (List.mem_cons_self ..)
    obtain ⟨hM, rF, rB, rM⟩ := hj
    simp only [pathKin]
    apply path_vel_is_derivative js
    · exact child_vel_is_derivative j.X_PF j.X_MB j.H_FM j.u h hM r rF rM
    · exact X_GB_isRot j.X_PF j.X_MB r rF rM rB
    · intro k hk; exact hall k (List.mem_cons_of_mem _ hk)

/-- Ground is a rigidly "moving" base -/
theorem ground_isRigid : IsRigidVel (Xf.const (Xf.one : Xf K)) SV.zero ∧ IsRot (Xf.const (Xf.one : Xf K)).R.re := by
  refine ⟨IsRigidVel.const _, ?_⟩
  have : (Xf.const (Xf.one : Xf K)).R.re = M33.one := by simp only [Xf.const, Xf.one]; mob_unfold
  rw [this]; exact IsRot.one

/-! ## Non-vacuity -/
example : Trig (3 / 5 : ℚ) (4 / 5) := by unfold Trig; norm_num
example : ((5 : ℚ) / 3) * (3 / 5) = 1 := by norm_num
example : IsRot (rotZ (3 / 5 : ℚ) (4 / 5)) := rotZ_isRot (by unfold Trig; norm_num)

end Mobilizer
