import SimbodyModel.C34
import Mathlib.Tactic.Ring
import Mathlib.Tactic.FieldSimp
import Mathlib.Tactic.Linarith
import Mathlib.Tactic.LinearCombination
import Mathlib.Tactic.Positivity
import Mathlib.Tactic.NormNum
import Mathlib.Algebra.Order.Field.Basic

/-!
# Helper lemmas of the geometry family (C34, C35, C36, C47)

* `SqrtSpec`: the algebraic specification assumed of the square-root routine (libm, trusted-base item 7);
* simp lemmas unfolding jet arithmetic;
* Lagrange / Cauchy–Schwarz in 3D over an ordered field.
-/
namespace Geom

/-- what is assumed of `sqrt`: on non-negative arguments it is the non-negative square root -/
structure SqrtSpec {K : Type} [Field K] [LinearOrder K] (sqrt : K → K) : Prop where
  sq : ∀ x, 0 ≤ x → sqrt x * sqrt x = x
  nonneg : ∀ x, 0 ≤ x → 0 ≤ sqrt x

namespace Jet1
section
variable {K : Type}
@[simp] theorem add_v [Add K] (a b : Jet1 K) : (a + b).v = a.v + b.v := rfl
@[simp] theorem add_e [Add K] (a b : Jet1 K) : (a + b).e = a.e + b.e := rfl
@[simp] theorem sub_v [Sub K] (a b : Jet1 K) : (a - b).v = a.v - b.v := rfl
@[simp] theorem sub_e [Sub K] (a b : Jet1 K) : (a - b).e = a.e - b.e := rfl
@[simp] theorem neg_v [Neg K] (a : Jet1 K) : (-a).v = -a.v := rfl
@[simp] theorem neg_e [Neg K] (a : Jet1 K) : (-a).e = -a.e := rfl
@[simp] theorem mul_v [Add K] [Mul K] (a b : Jet1 K) : (a * b).v = a.v * b.v := rfl
@[simp] theorem mul_e [Add K] [Mul K] (a b : Jet1 K) : (a * b).e = a.v * b.e + a.e * b.v := rfl
@[simp] theorem div_v [Sub K] [Mul K] [Div K] (a b : Jet1 K) : (a / b).v = a.v / b.v := rfl
@[simp] theorem div_e [Sub K] [Mul K] [Div K] (a b : Jet1 K) :
    (a / b).e = (a.e * b.v - a.v * b.e) / (b.v * b.v) := rfl
@[simp] theorem zero_v [OfNat K 0] : (0 : Jet1 K).v = 0 := rfl
@[simp] theorem zero_e [OfNat K 0] : (0 : Jet1 K).e = 0 := rfl
@[simp] theorem one_v [OfNat K 0] [OfNat K 1] : (1 : Jet1 K).v = 1 := rfl
@[simp] theorem one_e [OfNat K 0] [OfNat K 1] : (1 : Jet1 K).e = 0 := rfl
@[simp] theorem two_v [OfNat K 0] [OfNat K 2] : (2 : Jet1 K).v = 2 := rfl
@[simp] theorem two_e [OfNat K 0] [OfNat K 2] : (2 : Jet1 K).e = 0 := rfl
@[simp] theorem const_v [OfNat K 0] (c : K) : (const c).v = c := rfl
@[simp] theorem const_e [OfNat K 0] (c : K) : (const c).e = 0 := rfl
@[simp] theorem sqrtJ_v [Mul K] [Div K] [OfNat K 2] (sqrt : K → K) (a : Jet1 K) : (sqrtJ sqrt a).v = sqrt a.v := rfl
@[simp] theorem sqrtJ_e [Mul K] [Div K] [OfNat K 2] (sqrt : K → K) (a : Jet1 K) :
    (sqrtJ sqrt a).e = a.e / (2 * sqrt a.v) := rfl
end
end Jet1

section
variable {K : Type} [Field K] [LinearOrder K] [IsStrictOrderedRing K]

omit [LinearOrder K] [IsStrictOrderedRing K] in
/-- Lagrange's identity -/
theorem lagrange (a b : V3 K) :
    V3.normSq a * V3.normSq b - V3.dot a b * V3.dot a b = V3.normSq (V3.cross a b) := by
  simp only [V3.normSq, V3.dot, V3.cross]; ring

theorem normSq_nonneg (a : V3 K) : 0 ≤ V3.normSq a := by
  simp only [V3.normSq, V3.dot]
  nlinarith [mul_self_nonneg a.x, mul_self_nonneg a.y, mul_self_nonneg a.z]

/-- Cauchy–Schwarz -/
theorem cauchy_schwarz (a b : V3 K) : V3.dot a b * V3.dot a b ≤ V3.normSq a * V3.normSq b := by
  have h := lagrange a b
  have h2 := normSq_nonneg (V3.cross a b)
  linarith

/-- `u² ≤ (s r)²`, `0 ≤ s`, `0 ≤ r` ⟹ `u ≤ s r` -/
theorem le_of_sq_le {u s : K} (hs : 0 ≤ s) (h : u * u ≤ s * s) : u ≤ s := by
  by_contra hc
  push Not at hc
  have : s * s < u * u := by nlinarith
  linarith

/-- `a·b ≤ s r` when `|a|² = s²`, `|b|² ≤ r²`, `s, r ≥ 0` -/
theorem dot_le_mul {a b : V3 K} {s r : K} (hs : 0 ≤ s) (hr : 0 ≤ r)
    (ha : V3.normSq a = s * s) (hb : V3.normSq b ≤ r * r) : V3.dot a b ≤ s * r := by
  apply le_of_sq_le (mul_nonneg hs hr)
  have h := cauchy_schwarz a b
  have : V3.normSq a * V3.normSq b ≤ s * s * (r * r) := by
    rw [ha]; exact mul_le_mul_of_nonneg_left hb (mul_nonneg hs hs)
  nlinarith
end

section
variable {K : Type} [Field K] [LinearOrder K]
omit [Field K] in
theorem not_decide_lt (a b : K) : (!decide (a < b)) = true ↔ b ≤ a := by simp
omit [Field K] in
theorem decide_lt_false (a b : K) : (decide (a < b)) = false ↔ b ≤ a := by simp
variable [IsStrictOrderedRing K]
theorem absK_eq_abs (x : K) : absK x = |x| := by
  unfold absK
  split_ifs with h
  · exact (abs_of_neg h).symm
  · exact (abs_of_nonneg (not_lt.mp h)).symm
end

section
variable {K : Type} [Field K]
/-- `UnitVec3(v)` has unit length whenever `sqrt` is right at `|v|²` and `v ≠ 0` -/
theorem unit_normSq (sqrt : K → K) (v : V3 K)
    (hs : sqrt (V3.normSq v) * sqrt (V3.normSq v) = V3.normSq v) (h0 : sqrt (V3.normSq v) ≠ 0) :
    V3.normSq (V3.unit sqrt v) = 1 := by
  simp only [V3.unit, V3.sdiv, V3.dot, V3.normSq] at *
  generalize sqrt (v.x * v.x + v.y * v.y + v.z * v.z) = s at hs h0 ⊢
  field_simp
  linear_combination (-1 : K) * hs

/-- surface value at the ellipsoid candidate point = secular polynomial / Π(t+aᵢ²)², squared semi-axes as atoms -/
theorem Ell.surface_identity (A B C t px py pz : K) (hA : A ≠ 0) (hB : B ≠ 0) (hC : C ≠ 0)
    (gA : t + A ≠ 0) (gB : t + B ≠ 0) (gC : t + C ≠ 0) :
    1 - px * A / (t + A) * (px * A / (t + A)) / A - py * B / (t + B) * (py * B / (t + B)) / B
        - pz * C / (t + C) * (pz * C / (t + C)) / C
      = ((t + A) ^ 2 * (t + B) ^ 2 * (t + C) ^ 2 - A * (px * px) * (t + B) ^ 2 * (t + C) ^ 2
          - B * (py * py) * (t + A) ^ 2 * (t + C) ^ 2 - C * (pz * pz) * (t + A) ^ 2 * (t + B) ^ 2)
        / ((t + A) ^ 2 * (t + B) ^ 2 * (t + C) ^ 2) := by
  field_simp

theorem Ell.kkt_component (A t p : K) (hA : A ≠ 0) (g : t + A ≠ 0) :
    p - p * A / (t + A) = t * (p * A / (t + A) * (1 / A)) := by
  field_simp
  ring

/-- the algebraic core of `Ell.nearest_is_minimal` with the squared semi-axes as atoms -/
theorem Ell.minimal_identity (A B C t px py pz qx qy qz : K) (hA : A ≠ 0) (hB : B ≠ 0) (hC : C ≠ 0)
    (gA : t + A ≠ 0) (gB : t + B ≠ 0) (gC : t + C ≠ 0) :
    ((px - qx) * (px - qx) + (py - qy) * (py - qy) + (pz - qz) * (pz - qz))
      - ((px - px * A / (t + A)) * (px - px * A / (t + A)) + (py - py * B / (t + B)) * (py - py * B / (t + B))
          + (pz - pz * C / (t + C)) * (pz - pz * C / (t + C)))
    = (px * A / (t + A) - qx) ^ 2 * ((t + A) / A) + (py * B / (t + B) - qy) ^ 2 * ((t + B) / B)
      + (pz * C / (t + C) - qz) ^ 2 * ((t + C) / C)
      + t * ((1 - qx * qx / A - qy * qy / B - qz * qz / C)
             - (1 - px * A / (t + A) * (px * A / (t + A)) / A - py * B / (t + B) * (py * B / (t + B)) / B
                  - pz * C / (t + C) * (pz * C / (t + C)) / C)) := by
  field_simp
  ring
end

section
variable {K : Type} [Field K] [LinearOrder K] [IsStrictOrderedRing K]
omit [IsStrictOrderedRing K] in
theorem le_maxK_left (a b : K) : a ≤ maxK a b := by unfold maxK; split_ifs with h <;> [exact le_of_lt h; exact le_refl a]
omit [IsStrictOrderedRing K] in
theorem le_maxK_right (a b : K) : b ≤ maxK a b := by unfold maxK; split_ifs with h <;> [exact le_refl b; exact not_lt.mp h]

theorem Box.clamp1_spec (h c : K) (hh : 0 ≤ h) :
    |(Box.clamp1 h c).1| ≤ h ∧ ((Box.clamp1 h c).2 = true → (Box.clamp1 h c).1 = c)
    ∧ ((Box.clamp1 h c).2 = false → |(Box.clamp1 h c).1| = h)
    ∧ ∀ y, |y| ≤ h → (c - (Box.clamp1 h c).1) * (c - (Box.clamp1 h c).1) ≤ (c - y) * (c - y) := by
  unfold Box.clamp1
  split_ifs with h1 h2
  · refine ⟨by simp [abs_of_nonneg hh], by simp, by simp [abs_of_nonneg hh], ?_⟩
    intro y hy; have := abs_le.mp hy; nlinarith
  · refine ⟨by simp [abs_of_nonneg hh], by simp, by simp [abs_of_nonneg hh], ?_⟩
    intro y hy; have := abs_le.mp hy; nlinarith
  · refine ⟨abs_le.mpr ⟨not_lt.mp h1, not_lt.mp h2⟩, by simp, by simp, ?_⟩
    intro y _; nlinarith [mul_self_nonneg (c - y)]

theorem Box.toSide_abs (h c : K) (hh : 0 ≤ h) : |Box.toSide h c| = h := by
  unfold Box.toSide; split_ifs <;> simp [abs_of_nonneg hh]

theorem Box.toSide_dist (h c : K) (_hc : |c| ≤ h) :
    (c - Box.toSide h c) * (c - Box.toSide h c) = (h - |c|) * (h - |c|) := by
  unfold Box.toSide
  split_ifs with h1
  · rw [abs_of_neg h1]; ring
  · rw [abs_of_nonneg (not_lt.mp h1)]; ring

theorem Box.face_dist (h p q : K) (hq : |q| = h) (hp : |p| ≤ h) : (h - |p|) * (h - |p|) ≤ (p - q) * (p - q) := by
  have h1 : h - |p| ≤ |q - p| := by rw [← hq]; exact abs_sub_abs_le_abs_sub q p
  have h2 : 0 ≤ h - |p| := by linarith
  have := mul_self_le_mul_self h2 h1
  rw [abs_mul_abs_self] at this
  nlinarith

end

section
variable {K : Type} [Field K] [LinearOrder K] [IsStrictOrderedRing K]
/-- uniqueness of the non-negative square root: `sqrt (k²) = k` for `k ≥ 0` -/
theorem sqrt_mul_self (sqrt : K → K) (hsq : SqrtSpec sqrt) (k : K) (hk : 0 ≤ k) : sqrt (k * k) = k := by
  have h1 := hsq.sq (k * k) (mul_self_nonneg k)
  have h2 := hsq.nonneg (k * k) (mul_self_nonneg k)
  generalize sqrt (k * k) = s at h1 h2
  have : (s - k) * (s + k) = 0 := by linear_combination h1
  rcases mul_eq_zero.mp this with h | h
  · linarith
  · have : s = 0 ∧ k = 0 := by constructor <;> linarith
    rw [this.1, this.2]
end

end Geom
