import SimbodyProofs.C17_lemmas
import SimbodyProofs.C33_lemmas
import Mathlib.Data.List.Perm.Basic
/-!
# C17 — property theorems: force totals are independent of threading and scheduling

Model: `SimbodyModel/C17.lean` (transition system of `CalcForcesParallelTask` under `ParallelExecutor`, force arrays
in an arbitrary commutative monoid `M`).  A *schedule* is any list of worker ids; `RaceFree` means that no state
passed through has two different workers about to access the shared force arrays with at least one write.

* `total_order_independent` — race-free ⇒ total = initial + Σ of all increments, any monoid, any worker count,
  any interleaving;
* `raceFree_iff_locals_only` — every schedule is race free iff task 0 increments only thread-local arrays (or
  there is a single worker);
* `current_code_total` — the transcription of the CURRENT code (task 0 accumulates thread-locally in all modes,
  /repo commit 199e8a3a): every schedule is race free and every complete schedule gives the serial sum Σᵢ fᵢ;
* `old_code_has_race`, `lost_update_witness_old` — HISTORICAL: the code before that commit, in modes
  `CachedAndNonCached` / `NonCached`, had a racy interleaving, and a concrete interleaving lost an update
  (finding F7; the harness keeps the stream that showed it as a regression test).

Not carried by the theorems: real schedulers, the C++ memory model, floating-point summation order (the
statement is "equal in any commutative monoid", i.e. equal up to the order of additions).
-/
namespace C17
variable {M : Type} [AddCommMonoid M]

/-- **`total_order_independent`**: in any commutative monoid, for every worker count, every assignment of
increments to workers and every interleaving: a race-free schedule that runs all workers to completion leaves
`initial + Σ increments` in the shared arrays — independent of the order. -/
theorem total_order_independent (c : Config M) (shared0 : M) (sched : List Nat)
    (hrf : RaceFree c shared0 sched) (hc : Complete c (run c (init shared0) sched)) :
    (run c (init shared0) sched).shared = shared0 + totalOf c :=
  total_order_independent_aux sched hrf hc

/-- if no worker's increment bypasses its thread-local arrays, every schedule is race free -/
theorem raceFree_of_locals_only (c : Config M) (hd : ∀ w, w < c.n → c.direct w = []) (shared0 : M) (sched : List Nat) :
    RaceFree c shared0 sched :=
  raceFree_of_locals_only_aux hd sched

/-- **`raceFree_iff_locals_only`**: all schedules are race free exactly when EVERY worker's `execute` writes only
its thread-local arrays (no worker has a direct increment), or there is no second worker. -/
theorem raceFree_iff_locals_only (c : Config M) :
    (∀ shared0 sched, RaceFree c shared0 sched) ↔ ((∀ w, w < c.n → c.direct w = []) ∨ c.n ≤ 1) := by
  constructor
  · intro h
    by_contra hne
    have h2 : 2 ≤ c.n := by
      by_contra h2; exact hne (Or.inr (by omega))
    have h1 : ∃ a, a < c.n ∧ c.direct a ≠ [] := by
      by_contra hno
      exact hne (Or.inl (fun w hw => by
        by_contra hd; exact hno ⟨w, hw, hd⟩))
    obtain ⟨a, ha, hda⟩ := h1
    obtain ⟨sched, hr⟩ := race_witness a ha h2 hda (0 : M)
    have := h 0 sched sched.length
    rw [List.take_length] at this
    exact this hr
  · rintro (hd | h1) shared0 sched
    · exact raceFree_of_locals_only c hd shared0 sched
    · intro k ⟨a, b, ha, hb, hab, _⟩
      omega

theorem configV_n (old : Bool) (numThreads : Nat) (mode : Mode) (forces : List (ForceElt M)) :
    (configV old numThreads mode forces).n = C33.peWorkers numThreads := rfl

theorem workers_pos (numThreads : Nat) : 0 < C33.peWorkers numThreads := by
  unfold C33.peWorkers; split <;> omega

/-- HISTORICAL (finding F7, general form): in the transcription of the code BEFORE /repo commit 199e8a3a, in modes
`CachedAndNonCached` and `NonCached`, with at least two executor threads and at least one enabled non-parallel
force evaluated in that mode, there is an interleaving with a data race on the shared force arrays. -/
theorem old_code_has_race (numThreads : Nat) (h2 : 2 ≤ numThreads) (mode : Mode) (hm : mode ≠ .all)
    (forces : List (ForceElt M)) (f : ForceElt M) (hf : f ∈ forces) (hnp : f.parallel = false)
    (hev : evaluated mode f = true) (shared0 : M) :
    ∃ sched, ¬ RaceFree (configOld numThreads mode forces) shared0 sched := by
  have hn : 2 ≤ (configOld numThreads mode forces).n := by
    rw [configV_n]; unfold C33.peWorkers; split <;> omega
  have hd : (configOld numThreads mode forces).direct 0 ≠ [] := by
    simp only [configV, taskDirectV, if_true]
    have hmem : f.value ∈ ((forces.filter (fun f => !f.parallel)).filter (evaluated mode)).map (·.value) :=
      List.mem_map.mpr ⟨f, List.mem_filter.mpr ⟨List.mem_filter.mpr ⟨hf, by simp [hnp]⟩, hev⟩, rfl⟩
    cases mode with
    | all => exact absurd rfl hm
    | cachedAndNonCached => exact List.ne_nil_of_mem hmem
    | nonCached => exact List.ne_nil_of_mem hmem
  obtain ⟨sched, hr⟩ := race_witness 0 (by omega) hn hd shared0
  refine ⟨sched, fun h => ?_⟩
  have := h sched.length
  rw [List.take_length] at this
  exact this hr

/-- the CURRENT code accumulates thread-locally everywhere, in every mode: race free under every schedule -/
theorem current_code_raceFree (numThreads : Nat) (mode : Mode) (forces : List (ForceElt M)) (shared0 : M)
    (sched : List Nat) : RaceFree (configCurrent numThreads mode forces) shared0 sched := by
  apply raceFree_of_locals_only
  intro w _
  simp [configV, taskDirectV]

/-! ### the requested total is the serial sum over the force elements -/

theorem sumList_perm {a b : List M} (h : a.Perm b) : sumList a = sumList b := by
  induction h with
  | nil => rfl
  | cons x _ ih => simp only [sumList, ih]
  | swap x y l => simp only [sumList]; abel
  | trans _ _ ih1 ih2 => exact ih1.trans ih2

theorem sumList_flatMap {α : Type} (l : List α) (f : α → List M) :
    sumList (l.flatMap f) = sumList (l.map (fun a => sumList (f a))) := by
  induction l with
  | nil => rfl
  | cons a l ih => simp only [List.flatMap_cons, List.map_cons, sumList, sumList_append, ih]

theorem sumList_flatten (L : List (List M)) : sumList L.flatten = sumList (L.map sumList) := by
  induction L with
  | nil => rfl
  | cons a L ih => simp only [List.flatten_cons, List.map_cons, sumList, sumList_append, ih]

theorem tasks_eq_assignment (numThreads T : Nat) :
    (List.range (workers numThreads)).map (tasksOf numThreads T) = C33.peAssignment numThreads T := by
  unfold workers C33.peWorkers C33.peAssignment tasksOf
  by_cases h : numThreads < 2
  · simp [h]
  · simp [h]

/-- serial sum of the forces evaluated in this mode, in index order -/
abbrev serialSum (mode : Mode) (forces : List (ForceElt M)) : M := serialSumD mode forces

theorem serialSum_split (mode : Mode) (forces : List (ForceElt M)) :
    serialSum mode forces =
      serialSum mode (forces.filter (fun f => !f.parallel)) + serialSum mode (forces.filter (fun f => f.parallel)) := by
  induction forces with
  | nil => simp [serialSum, serialSumD, sumList]
  | cons f l ih =>
    unfold serialSum serialSumD at ih ⊢
    cases hp : f.parallel <;> cases he : evaluated mode f <;>
      simp only [List.filter_cons, hp, he, Bool.not_false, Bool.not_true, if_true, if_false, List.map_cons, sumList,
        Bool.false_eq_true] <;> rw [ih] <;> abel

theorem sum_par_tasks (old : Bool) (mode : Mode) (forces : List (ForceElt M)) :
    ∀ (par : List (ForceElt M)), par = forces.filter (fun f => f.parallel) →
    sumList ((List.range par.length).map (fun k => sumList (taskLocalV old mode forces (k + 1)))) = serialSum mode par := by
  intro par hpar
  have key : ∀ k, taskLocalV old mode forces (k + 1) =
      match par[k]? with
      | some f => if evaluated mode f then [f.value] else []
      | none => [] := by
    intro k; subst hpar; simp only [taskLocalV, Nat.add_sub_cancel, Nat.succ_ne_zero, if_false]; rfl
  have gen : ∀ (l : List (ForceElt M)),
      sumList ((List.range l.length).map (fun k => sumList (match l[k]? with
        | some f => if evaluated mode f then [f.value] else []
        | none => []))) = serialSum mode l := by
    intro l
    induction l with
    | nil => simp [serialSum, serialSumD, sumList]
    | cons f l ih =>
      rw [List.length_cons, List.range_succ_eq_map, List.map_cons, List.map_map]
      simp only [sumList, List.getElem?_cons_zero, Function.comp_def, Nat.succ_eq_add_one, List.getElem?_cons_succ]
      rw [ih]
      unfold serialSum serialSumD
      cases he : evaluated mode f <;> simp [List.filter_cons, he, sumList]
  rw [← gen par]
  congr 1
  apply List.map_congr_left
  intro k _
  rw [key k]

theorem sumList_map_add {α : Type} (l : List α) (a b : α → M) :
    sumList (l.map (fun x => a x + b x)) = sumList (l.map a) + sumList (l.map b) := by
  induction l with
  | nil => simp [sumList]
  | cons x l ih => simp only [List.map_cons, sumList, ih]; abel

theorem sumList_range_first (d : List M) : ∀ n, 0 < n →
    sumList ((List.range n).map (fun w => sumList (if w = 0 then d else []))) = sumList d := by
  intro n; induction n with
  | zero => intro h; omega
  | succ n ih =>
    intro _
    rw [List.range_succ, List.map_append, sumList_append]
    by_cases hn : n = 0
    · subst hn; simp [sumList]
    · rw [ih (by omega)]; simp [hn, sumList]

/-- **`total = Σᵢ fᵢ`**: what the transcription (current code and the pre-fix code alike) asks the workers to add up — for every thread
count and every mode — is the serial sum of the evaluated force elements. -/
theorem totalOf_eq_serial (old : Bool) (numThreads : Nat) (mode : Mode) (forces : List (ForceElt M)) :
    totalOf (configV old numThreads mode forces) = serialSum mode forces := by
  set par := forces.filter (fun f => f.parallel) with hpar
  set nonPar := forces.filter (fun f => !f.parallel) with hnon
  set T := 1 + par.length with hT
  have h1 : sumList ((List.range (workers numThreads)).map
      (fun w => sumList ((tasksOf numThreads T w).flatMap (taskLocalV old mode forces)))) =
      sumList ((List.range T).map (fun k => sumList (taskLocalV old mode forces k))) := by
    have e : (List.range (workers numThreads)).map (fun w => sumList ((tasksOf numThreads T w).flatMap (taskLocalV old mode forces)))
        = ((List.range (workers numThreads)).map (tasksOf numThreads T)).map
            (fun ts => sumList (ts.map (fun k => sumList (taskLocalV old mode forces k)))) := by
      rw [List.map_map]; apply List.map_congr_left; intro w _; simp [Function.comp, sumList_flatMap]
    rw [e, tasks_eq_assignment]
    have e2 : (C33.peAssignment numThreads T).map (fun ts => sumList (ts.map (fun k => sumList (taskLocalV old mode forces k))))
        = ((C33.peAssignment numThreads T).map (fun ts => ts.map (fun k => sumList (taskLocalV old mode forces k)))).map sumList := by
      rw [List.map_map]; rfl
    rw [e2, ← sumList_flatten, ← List.map_flatten]
    apply sumList_perm
    apply List.Perm.map
    exact (List.perm_ext_iff_of_nodup (C33.peAssignment_nodup _ _) List.nodup_range).mpr
      (fun i => by rw [C33.mem_peAssignment, List.mem_range])
  have h2 : sumList ((List.range T).map (fun k => sumList (taskLocalV old mode forces k))) =
      sumList (taskLocalV old mode forces 0) + serialSum mode par := by
    rw [hT, Nat.add_comm, List.range_succ_eq_map, List.map_cons, List.map_map]
    simp only [sumList, Function.comp_def, Nat.succ_eq_add_one]
    rw [sum_par_tasks old mode forces par hpar]
  have h3 : sumList (taskDirectV old mode forces) + sumList (taskLocalV old mode forces 0) = serialSum mode nonPar := by
    have hall : ∀ l : List (ForceElt M), l.filter (evaluated .all) = l :=
      fun l => List.filter_eq_self.mpr (fun _ _ => rfl)
    cases old <;> cases mode <;> simp [taskDirectV, taskLocalV, serialSum, serialSumD, sumList, ← hnon, hall]
  unfold totalOf
  have e1 : (configV old numThreads mode forces).n = workers numThreads := rfl
  have e2 : (fun w => sumList ((configV old numThreads mode forces).direct w) + sumList ((configV old numThreads mode forces).contribs w)) =
      (fun w => sumList (if w = 0 then taskDirectV old mode forces else []) +
        sumList ((tasksOf numThreads T w).flatMap (taskLocalV old mode forces))) := rfl
  rw [e1, e2, sumList_map_add, sumList_range_first _ (workers numThreads) (workers_pos numThreads), h1, h2, ← add_assoc, h3,
    serialSum_split mode forces]

/-- **the current code is correct for every schedule**: every interleaving of the current
`CalcForcesParallelTask` is race free, and every complete one leaves the serial sum of the evaluated force
elements in the shared arrays — for every thread count, every mode, every mix of parallel / non-parallel /
position-only elements, in any commutative monoid. -/
theorem current_code_total (numThreads : Nat) (mode : Mode) (forces : List (ForceElt M)) (shared0 : M) (sched : List Nat)
    (hc : Complete (configCurrent numThreads mode forces) (run (configCurrent numThreads mode forces) (init shared0) sched)) :
    RaceFree (configCurrent numThreads mode forces) shared0 sched ∧
    (run (configCurrent numThreads mode forces) (init shared0) sched).shared = shared0 + serialSum mode forces := by
  have hrf := current_code_raceFree numThreads mode forces shared0 sched
  exact ⟨hrf, by rw [total_order_independent _ shared0 sched hrf hc, totalOf_eq_serial]⟩

/-! ### subsystem level: enabled mask and task class -/

theorem filter_parallel_enabled_nil (all : List (MForce M)) (h : subsystemHasParallel all = false) :
    (enabledElts all).filter (fun f => f.parallel) = [] := by
  rw [List.filter_eq_nil_iff]
  intro f hf
  simp only [enabledElts, List.mem_map, List.mem_filter] at hf
  obtain ⟨m, ⟨hm, _⟩, rfl⟩ := hf
  simp only [subsystemHasParallel, List.any_eq_false] at h
  simpa using h m hm

/-- because the task class is chosen from ALL forces of the subsystem, the task in use never ignores an enabled
parallel force: the subsystem-level configuration is the plain current-code configuration of the enabled forces -/
theorem configSubsystem_eq (numThreads : Nat) (mode : Mode) (all : List (MForce M)) :
    configSubsystem numThreads mode all =
      configCurrent (effectiveThreads numThreads (subsystemHasParallel all)) mode (enabledElts all) := by
  simp only [configSubsystem, configV, taskDirectV, Bool.false_eq_true, if_false]
  congr 1
  · funext w; simp
  funext w
  apply List.flatMap_congr
  intro k _
  unfold taskLocalC
  by_cases hk : k = 0
  · subst hk; simp
  · simp only [hk, if_false]
    cases hp : subsystemHasParallel all
    · simp only [Bool.false_eq_true, if_false]
      simp [taskLocalV, hk, filter_parallel_enabled_nil all hp]
    · simp

/-- **total = Σ over the currently ENABLED forces, for every schedule**: whatever forces exist in the subsystem,
whichever are disabled by default or switched on/off in the State (any enabled mask), every thread count and mode:
every interleaving is race free and every complete one leaves the serial sum of the enabled, evaluated forces. -/
theorem subsystem_total_enabled (numThreads : Nat) (mode : Mode) (all : List (MForce M)) (shared0 : M) (sched : List Nat)
    (hc : Complete (configSubsystem numThreads mode all) (run (configSubsystem numThreads mode all) (init shared0) sched)) :
    RaceFree (configSubsystem numThreads mode all) shared0 sched ∧
    (run (configSubsystem numThreads mode all) (init shared0) sched).shared =
      shared0 + serialSum mode (enabledElts all) := by
  rw [configSubsystem_eq] at hc ⊢
  exact current_code_total _ mode (enabledElts all) shared0 sched hc

/-! ### executor / task class as state: the order of `setNumberOfThreads` and `realizeTopology` -/

/-- **every reachable state of the current subsystem is thread safe**: whatever sequence of `setNumberOfThreads` and
`realizeTopology` calls is issued (before, after, in between), the non-parallel task is never paired with an
executor of two or more threads. -/
theorem threadSafe_reachable (ncpu : Nat) (ops : List SubOp) :
    ThreadSafe (ops.foldl SubState.apply (SubState.init ncpu)) = true := by
  have key : ∀ (ops : List SubOp) (st : SubState), ThreadSafe st = true → ThreadSafe (ops.foldl SubState.apply st) = true := by
    intro ops
    induction ops with
    | nil => intro st h; exact h
    | cons op ops ih =>
      intro st h
      apply ih
      cases op with
      | setNumberOfThreads n =>
        simp only [SubState.apply, ThreadSafe] at h ⊢
        by_cases ht : st.task = some false
        · simp [ht]
        · simp [ht]
      | realizeTopology hp => cases hp <;> simp [SubState.apply, ThreadSafe]
  exact key ops _ (by simp [SubState.init, ThreadSafe])

/-- threads configured before `realizeTopology` give the state `configSubsystem` assumes -/
theorem state_after_set_then_topology (ncpu n : Nat) (hp : Bool) :
    ((SubState.init ncpu).apply (.setNumberOfThreads n)).apply (.realizeTopology hp) = ⟨effectiveThreads n hp, some hp⟩ := by
  cases hp <;> simp [SubState.apply, SubState.init, effectiveThreads]

/-- HISTORICAL FINDING (threads set AFTER topology, code before /repo e709610d): the old `setNumberOfThreads`
replaced the executor without looking at the task class, so a subsystem without parallel forces ended up running
the non-thread-safe `CalcForcesNonParallelTask` on `n ≥ 2` workers — a reachable state that is not `ThreadSafe`;
the current transition keeps one thread there. -/
theorem threads_after_topology_unsafe_old (ncpu n : Nat) (hn : 2 ≤ n) :
    ThreadSafe (((SubState.init ncpu).applyOld (.realizeTopology false)).applyOld (.setNumberOfThreads n)) = false ∧
    (((SubState.init ncpu).apply (.realizeTopology false)).apply (.setNumberOfThreads n)).execThreads = 1 := by
  constructor
  · simp [SubState.applyOld, SubState.init, ThreadSafe]; omega
  · simp [SubState.apply, SubState.init]

/-- what went wrong in that state (member accumulators shared by the workers): with two workers and one force
adding 200000, one interleaving counts it twice, another loses it (`NPT` mini-model, see the model file). -/
theorem nonparallel_task_two_workers_wrong :
    (NPT.run 200000 NPT.init [1, 0, 0, 0, 1, 1]).shared = 400000 ∧
    (NPT.run 200000 NPT.init [0, 0, 1, 0, 1, 1]).shared = 0 ∧
    (NPT.run 200000 NPT.init [0, 0, 0, 1, 1, 1]).shared = 200000 := by decide

theorem configOfState_eq (st : SubState) (mode : Mode) (all : List (MForce M))
    (ht : st.task = some (subsystemHasParallel all)) :
    configOfState st mode all = configCurrent st.execThreads mode (enabledElts all) := by
  simp only [configOfState, configV, taskDirectV, Bool.false_eq_true, if_false]
  congr 1
  · funext w; simp
  funext w
  apply List.flatMap_congr
  intro k _
  unfold taskLocalC
  by_cases hk : k = 0
  · subst hk; simp
  · simp only [hk, if_false]
    have ht' : st.taskParallel = subsystemHasParallel all := by
      simp only [SubState.taskParallel, ht]; cases subsystemHasParallel all <;> rfl
    rw [ht']
    cases hp : subsystemHasParallel all
    · simp only [Bool.false_eq_true, if_false]
      simp [taskLocalV, hk, filter_parallel_enabled_nil all hp]
    · simp

/-- total = Σ over the enabled forces for every schedule, in ANY subsystem state in which the task class was chosen
by the last `realizeTopology` (`task = some (subsystemHasParallel all)`) and which is `ThreadSafe`.  `ThreadSafe` is
the validity condition of the model (thread-local accumulators); by `threadSafe_reachable` it holds in every state the
current code can reach, so thread counts set before topology, after it, or changed between realizations are covered. -/
theorem subsystem_total_enabled_of_state (st : SubState) (_hs : ThreadSafe st = true) (mode : Mode) (all : List (MForce M))
    (ht : st.task = some (subsystemHasParallel all)) (shared0 : M) (sched : List Nat)
    (hc : Complete (configOfState st mode all) (run (configOfState st mode all) (init shared0) sched)) :
    RaceFree (configOfState st mode all) shared0 sched ∧
    (run (configOfState st mode all) (init shared0) sched).shared = shared0 + serialSum mode (enabledElts all) := by
  rw [configOfState_eq st mode all ht] at hc ⊢
  exact current_code_total _ mode (enabledElts all) shared0 sched hc

/-! ### a direct increment by ANY worker (e.g. a parallel-force task writing the shared arrays) is a race -/

/-- DESIGN's "every execute writes only its locals", the other half: if the task of ANY worker — not only task 0 —
incremented the shared arrays directly, a racy interleaving would exist (two workers suffice). -/
theorem any_worker_direct_has_race (c : Config M) (a : Nat) (ha : a < c.n) (hn : 2 ≤ c.n) (hd : c.direct a ≠ [])
    (shared0 : M) : ∃ sched, ¬ RaceFree c shared0 sched := by
  obtain ⟨sched, hr⟩ := race_witness a ha hn hd shared0
  refine ⟨sched, fun h => ?_⟩
  have := h sched.length
  rw [List.take_length] at this
  exact this hr

/-! ### the position-only cache -/

theorem cacheSum_eq (forces : List (ForceElt M)) :
    cacheSum forces = sumList ((forces.filter (·.posOnly)).map (·.value)) := by
  unfold cacheSum
  induction forces.filter (·.posOnly) with
  | nil => rfl
  | cons f l ih => simp only [List.foldr_cons, List.map_cons, sumList, ih]

/-- what a `NonCached` realization reports (freshly summed velocity-dependent forces plus the cache filled by
the preceding `CachedAndNonCached` realization at the same positions) equals what an `All`/`CachedAndNonCached`
realization reports: the serial sum of all enabled forces. -/
theorem nonCached_plus_cache (forces : List (ForceElt M)) :
    serialSum .nonCached forces + cacheSum forces = serialSum .all forces ∧
    serialSum .cachedAndNonCached forces = serialSum .all forces := by
  refine ⟨?_, rfl⟩
  rw [cacheSum_eq]
  unfold serialSum serialSumD
  induction forces with
  | nil => simp [sumList]
  | cons f l ih =>
    cases hp : f.posOnly <;>
      simp only [List.filter_cons, evaluated, hp, Bool.not_false, Bool.not_true, if_true, if_false, List.map_cons,
        sumList, Bool.false_eq_true] at ih ⊢
    · rw [add_assoc, ih]
    · rw [← ih]; abel

/-! ### the concrete lost update (finding F7 in miniature, HISTORICAL: the code before commit 199e8a3a) -/

/-- one non-parallel velocity-dependent force adding 1, one parallel force adding 1000, one position-only
force (which is what switches the subsystem into the caching modes); two executor threads; mode `NonCached` -/
def f7Forces : List (ForceElt Nat) := [⟨false, false, 1⟩, ⟨true, false, 1000⟩, ⟨false, true, 5⟩]

/-- old code: worker 0 loads the shared array (0); worker 1 runs its parallel force and `finish()` (shared = 1000);
worker 0 stores 0 + 1: the parallel force's contribution is lost. -/
def f7Schedule : List Nat := [0, 0, 1, 1, 1, 1, 1, 1, 1, 0, 0, 0, 0, 0, 0]

instance (c : Config Nat) (s : State Nat) : Decidable (Complete c s) := by
  unfold Complete; exact Nat.decidableBallLT _ _

/-- the transcription of the OLD code for this configuration -/
def f7ConfigOld : Config Nat := configOld 2 .nonCached f7Forces

/-- the transcription of the CURRENT code for this configuration -/
def f7Config : Config Nat := configCurrent 2 .nonCached f7Forces

/-- **`lost_update_witness_old`** (HISTORICAL): an explicit complete interleaving of the pre-fix `NonCached` mode
ends with total 1 although the serial sum is 1001 (the parallel force's 1000 is lost); the schedule is not race
free.  Under the current code the very same schedule is complete and yields 1001. -/
theorem lost_update_witness_old :
    Complete f7ConfigOld (run f7ConfigOld (init 0) f7Schedule) ∧
    (run f7ConfigOld (init 0) f7Schedule).shared = 1 ∧ totalOf f7ConfigOld = 1001 ∧
    serialSum .nonCached f7Forces = 1001 ∧ ¬ RaceFree f7ConfigOld 0 f7Schedule ∧
    Complete f7Config (run f7Config (init 0) f7Schedule) ∧ (run f7Config (init 0) f7Schedule).shared = 1001 := by
  refine ⟨by decide, by decide, by decide, by decide, ?_, by decide, by decide⟩
  intro h
  apply h 7
  exact ⟨0, 1, by decide, by decide, by decide, true, true, by decide, by decide, Or.inl rfl⟩

/-- non-vacuity of `total_order_independent` / `current_code_total`: complete schedules exist -/
example :
    Complete f7Config (run f7Config (init 0) (sequentialSchedule f7Config)) ∧
    (run f7Config (init 0) (sequentialSchedule f7Config)).shared = 1001 := by
  decide

/-- why the task class must be chosen from ALL forces: if a subsystem whose only parallel force was disabled at
topology time is given the non-parallel task (`taskLocalC false`) and that force is enabled later, its task index 1
is ignored and its 1000 is missing from the total (the mutation class the enable/disable histories of the harness
are aimed at). -/
example :
    sumList ((List.range 2).flatMap (taskLocalC false .all f7Forces)) = 6 ∧
    sumList ((List.range 2).flatMap (taskLocalC true .all f7Forces)) = 1006 := by decide

end C17
