import SimbodyProofs.C26_ops

/-!
# C26 — several arrays: swap, copy/move assignment and construction, view-to-view assignment
-/
namespace C26

theorem getD_set {α : Type} (l : List α) (i k : Nat) (x d : α) :
    (l.set i x).getD k d = if k = i ∧ i < l.length then x else l.getD k d := by
  rw [List.getD_eq_getElem?_getD, List.getD_eq_getElem?_getD, List.getElem?_set]
  by_cases h1 : i = k
  · subst h1
    by_cases h2 : i < l.length
    · simp [h2]
    · simp [h2]
  · have : ¬ (k = i ∧ i < l.length) := fun h => h1 h.1.symm
    simp [h1, this]

theorem set_getD_self {α : Type} (l : List α) (i : Nat) (d : α) : l.set i (l.getD i d) = l := by
  apply List.ext_getElem?
  intro j
  rw [List.getElem?_set]
  by_cases h1 : i = j
  · subst h1
    by_cases h2 : i < l.length
    · simp [h2, List.getD_eq_getElem?_getD]
    · simp [h2]
  · simp [h1]

theorem sum_set (l : List Arr) (k : Nat) (x : Arr) (hk : k < l.length) :
    ((l.set k x).map Arr.size).sum + (l.getD k {}).size = (l.map Arr.size).sum + x.size := by
  induction l generalizing k with
  | nil => simp at hk
  | cons a l ih =>
    cases k with
    | zero => simp [List.getD]; omega
    | succ k =>
      have := ih k (by simpa using hk)
      simp only [List.set_cons_succ, List.map_cons, List.sum_cons, List.getD_cons_succ] at this ⊢
      omega

/-- the worlds's arrays represent the lists `vss` -/
def WRep (w : World) (vss : List (List Elt)) : Prop :=
  w.arrs.length = vss.length ∧ ∀ k, Rep (w.get k) (vss.getD k [])

def total (w : World) : Nat := (w.arrs.map Arr.size).sum

theorem wrep_set {arrs : List Arr} {vss : List (List Elt)} {L L' : Log} {t t' : Bool} (k : Nat) (x : Arr) (v : List Elt)
    (h : WRep ⟨arrs, L, t⟩ vss) (hx : Rep x v) : WRep ⟨arrs.set k x, L', t'⟩ (vss.set k v) := by
  refine ⟨by simp [h.1], ?_⟩
  intro q
  show Rep ((arrs.set k x).getD q {}) _
  rw [getD_set, getD_set, ← h.1]
  by_cases hq : q = k ∧ k < arrs.length
  · rw [if_pos hq, if_pos hq]; exact hx
  · rw [if_neg hq, if_neg hq]; exact h.2 q

theorem constructFrom_ok (L : Log) (ws : List Elt) :
    Rep (constructFrom L ws).arr ws ∧ (constructFrom L ws).log = L.adv ws.length 0 := by
  have h0 : Rep ⟨allocN ws.length, 0⟩ [] := (Rep.of_pointwise (a := ⟨allocN ws.length, 0⟩) (vs := []) ws.length rfl (by simp) (by
      intro j; show (allocN ws.length)[j]? = _; rw [allocN_getElem?]; unfold cellAt; simp)).1
  have hl : (allocN ws.length).length = ws.length := by simp [allocN]
  obtain ⟨f1, _, f3⟩ := append_fill L ws h0 (by simp [hl])
  simp only [List.nil_append, Nat.zero_add] at f1
  exact ⟨f1, f3⟩

end C26
