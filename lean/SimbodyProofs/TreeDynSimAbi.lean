import SimbodyProofs.TreeDynSim

/-!
# TreeDynSimAbi — the executed articulated-body passes compute what the abstract twin defines

`abiIn` (`realizeArticulatedBodyInertiasInward`), `mInvIn`/`mInvOut` (`multiplyByMInv`), `fwdIn`/`fwdOut`
(`calcUDotPass1Inward`/`Pass2Outward`), `reactionAtOrigin` (`calcMobilizerReactionForces`) against the twin's
`P`, `PP`, `G`, `z`, `eps`, `zP`, `udotA`, `accP`, `PP A⁺ + zP`.

The executed `DI` (Gauss–Jordan `ginv`) enters as data: the twin's `DI` field is the matrix of the executed list, and the
theorems assume `WF` of the abstracted tree (every `D·DI = 1`, validated per case by `O wf`) and that no mobilizer is
prescribed (`Body.presc = false`; the prescribed branch is outside the twin).
-/

open Matrix

namespace TreeDyn
open TreeDynAbs TreeDynAbs.MBT

variable {K : Type} [Field K]

/-! ## lists of spatial columns as matrices with an explicit number of columns -/

/-- `6 × d` matrix of a list of spatial columns (missing columns are zero) -/
def cmat (d : Nat) (g : List (SV K)) : Matrix I6 (Fin d) K := fun i j => (g.getD j SV.zero).toVec i

theorem hMat_eq_cmat (h : List (SV K)) : hMat h = cmat h.length h := by
  funext i j
  simp [hMat, cmat, List.getD_eq_getElem?_getD, List.getElem?_eq_getElem j.isLt]

theorem hMul_toVec_c (d : Nat) (g : List (SV K)) (hg : g.length = d) (u : List K) :
    (hMul g u).toVec = cmat d g *ᵥ lvec d u := by
  subst hg; rw [hMul_toVec, hMat_eq_cmat]

theorem hTMul_ofFn_c (d : Nat) (g : List (SV K)) (hg : g.length = d) (a : SV K) :
    hTMul g a = List.ofFn ((cmat d g)ᵀ *ᵥ a.toVec) := by
  subst hg; rw [hTMul_eq_ofFn, hMat_eq_cmat]

theorem SV.zero_toVec' : (SV.zero : SV K).toVec = 0 := SV.zero_toVec

theorem ArtI.mulSV_zero (p : ArtI K) : (p.mulSV SV.zero).toVec = 0 := by
  rw [ArtI.mulSV_toVec, SV.zero_toVec, mulVec_zero]

/-- `PH = P*H` column by column -/
theorem cmat_map_mulSV (d : Nat) (p : ArtI K) (h : List (SV K)) :
    cmat d (h.map p.mulSV) = p.toMat * cmat d h := by
  funext i j
  have e : ((h.map p.mulSV).getD j SV.zero).toVec = p.toMat *ᵥ (h.getD j SV.zero).toVec := by
    by_cases hj : (j : Nat) < h.length
    · have hj' : (j : Nat) < (h.map p.mulSV).length := by simpa using hj
      simp [List.getD_eq_getElem?_getD, List.getElem?_eq_getElem hj, List.getElem?_eq_getElem hj', ArtI.mulSV_toVec]
    · have hj' : ¬ (j : Nat) < (h.map p.mulSV).length := by simpa using hj
      simp [List.getD_eq_getElem?_getD, List.getElem?_eq_none (not_lt.mp hj), List.getElem?_eq_none (not_lt.mp hj'),
        SV.zero_toVec]
  simp only [cmat, e, Matrix.mul_apply, Matrix.mulVec, dotProduct]

theorem SV.dot_zero (a : SV K) : a.dot SV.zero = 0 := by
  rw [SV.dot_toVec, SV.zero_toVec]; simp

/-- `D = ~H * PH` as the matrix of the executed list of rows -/
theorem lmat_dmat (d : Nat) (h ph : List (SV K)) :
    lmat d (h.map (fun hi => ph.map (fun pj => hi.dot pj))) = (cmat d h)ᵀ * cmat d ph := by
  funext i j
  have e : ((h.map (fun hi => ph.map (fun pj => hi.dot pj))).getD i []).getD j 0
      = (h.getD i SV.zero).dot (ph.getD j SV.zero) := by
    by_cases hi : (i : Nat) < h.length
    · have hi' : (i : Nat) < (h.map (fun hi => ph.map (fun pj => hi.dot pj))).length := by simpa using hi
      simp only [List.getD_eq_getElem?_getD, List.getElem?_eq_getElem hi', List.getElem?_eq_getElem hi,
        Option.getD_some, List.getElem_map]
      by_cases hj : (j : Nat) < ph.length
      · have hj' : (j : Nat) < (ph.map (fun pj => (h[(i : Nat)]).dot pj)).length := by simpa using hj
        simp [List.getElem?_eq_getElem hj', List.getElem?_eq_getElem hj]
      · have hj' : ¬ (j : Nat) < (ph.map (fun pj => (h[(i : Nat)]).dot pj)).length := by simpa using hj
        simp [List.getElem?_eq_none (not_lt.mp hj'), List.getElem?_eq_none (not_lt.mp hj), SV.dot_zero]
    · have hi' : ¬ (i : Nat) < (h.map (fun hi => ph.map (fun pj => hi.dot pj))).length := by simpa using hi
      simp only [List.getD_eq_getElem?_getD, List.getElem?_eq_none (not_lt.mp hi'),
        List.getElem?_eq_none (not_lt.mp hi), Option.getD_none]
      simp [SV.dot_toVec, SV.zero_toVec]
  simp only [lmat]
  rw [e, SV.dot_toVec]
  simp only [Matrix.mul_apply, Matrix.transpose_apply, cmat, dotProduct]

/-- `G = PH * DI`: column `j` is `Σ_k PH_k DI(k,j)` -/
theorem cmat_G (d : Nat) (ph : List (SV K)) (hp : ph.length = d) (di : List (List K)) :
    cmat d ((List.range d).map (fun j => hMul ph (di.map (fun row => row.getD j 0)))) = cmat d ph * lmat d di := by
  funext i j
  have hcol : lvec d (di.map (fun row => row.getD (j : Nat) 0)) = fun k => lmat d di k j := by
    funext k
    simp only [lvec, lmat]
    by_cases hk : (k : Nat) < di.length
    · have hk' : (k : Nat) < (di.map (fun row => row.getD (j : Nat) 0)).length := by simpa using hk
      simp [List.getD_eq_getElem?_getD, List.getElem?_eq_getElem hk', List.getElem?_eq_getElem hk]
    · have hk' : ¬ (k : Nat) < (di.map (fun row => row.getD (j : Nat) 0)).length := by simpa using hk
      simp [List.getD_eq_getElem?_getD, List.getElem?_eq_none (not_lt.mp hk'), List.getElem?_eq_none (not_lt.mp hk)]
  have hgj : ((List.range d).map (fun j => hMul ph (di.map (fun row => row.getD j 0)))).getD (j : Nat) SV.zero
      = hMul ph (di.map (fun row => row.getD (j : Nat) 0)) := by
    simp [List.getD_eq_getElem?_getD, List.getElem?_range j.isLt]
  simp only [cmat]
  rw [hgj, hMul_toVec_c d ph hp, hcol]
  simp only [Matrix.mulVec, dotProduct, Matrix.mul_apply, cmat]

/-! ## the rank-`d` update `G ~PH` assembled from outer products, and its symmetrisation -/

theorem foldl_M33_add_toMat (l : List (M33 K)) (a : M33 K) :
    (l.foldl M33.add a).toMat = a.toMat + (l.map M33.toMat).sum := by
  induction l generalizing a with
  | nil => simp
  | cons x xs ih => simp only [List.foldl_cons, List.map_cons, List.sum_cons, ih, M33.add_toMat]; abel

theorem M33.zero_toMat : (M33.zero : M33 K).toMat = 0 := by
  ext i j; fin_cases i <;> fin_cases j <;> simp [M33.zero, V3.zero, M33.toMat]

theorem M33.outer_toMat (a b : V3 K) (i j : Fin 3) : (M33.outer a b).toMat i j = a.toFun i * b.toFun j := by
  fin_cases i <;> fin_cases j <;> simp [M33.outer, V3.smul, M33.toMat, V3.toFun]

/-- sum of outer products over two lists of equal length, entrywise -/
theorem outer_sum_entry (a b : SV K → V3 K) : ∀ (g ph : List (SV K)), g.length = ph.length → ∀ (i j : Fin 3),
    ((List.zipWith (fun gk pk => M33.outer (a gk) (b pk)) g ph).map M33.toMat).sum i j
      = ∑ k : Fin g.length, (a (g.getD k SV.zero)).toFun i * (b (ph.getD k SV.zero)).toFun j
  | [], [], _, i, j => by simp
  | [], _ :: _, h, _, _ => by simp at h
  | _ :: _, [], h, _, _ => by simp at h
  | x :: xs, y :: ys, h, i, j => by
      have hl : xs.length = ys.length := by simpa using h
      have ih := outer_sum_entry a b xs ys hl i j
      simp only [List.zipWith_cons_cons, List.map_cons, List.sum_cons, Matrix.add_apply, ih, List.length_cons]
      rw [Fin.sum_univ_succ]
      simp [M33.outer_toMat]

/-- the four 3×3 blocks of `X * Yᵀ` for `6 × d` matrices given by lists of columns -/
theorem cmat_mul_transpose_entry (d : Nat) (g ph : List (SV K)) (i j : I6) :
    (cmat d g * (cmat d ph)ᵀ) i j = ∑ k : Fin d, (g.getD k SV.zero).toVec i * (ph.getD k SV.zero).toVec j := by
  simp [Matrix.mul_apply, cmat]

/-- **the explicitly symmetrised `P⁺` of the executed model is `P − G ~PH`** whenever that matrix is symmetric -/
theorem pplus_toMat (d : Nat) (p : ArtI K) (g ph : List (SV K)) (hg : g.length = d) (hp : ph.length = d)
    (h2 : (2 : K) ≠ 0)
    (hsym : (cmat d g * (cmat d ph)ᵀ)ᵀ = cmat d g * (cmat d ph)ᵀ) :
    (p.sub ⟨Sym3.symmetrize ((List.zipWith (fun gk pk => M33.outer gk.v pk.v) g ph).foldl M33.add M33.zero),
            Sym3.symmetrize ((List.zipWith (fun gk pk => M33.outer gk.w pk.w) g ph).foldl M33.add M33.zero),
            (List.zipWith (fun gk pk => M33.outer gk.w pk.v) g ph).foldl M33.add M33.zero⟩).toMat
      = p.toMat - cmat d g * (cmat d ph)ᵀ := by
  subst hg
  have hl : g.length = ph.length := hp.symm
  -- entries of the three accumulated blocks
  have eWW : ∀ i j, ((List.zipWith (fun gk pk => M33.outer gk.w pk.w) g ph).foldl M33.add M33.zero).toMat i j
      = (cmat g.length g * (cmat g.length ph)ᵀ) (Sum.inl i) (Sum.inl j) := by
    intro i j
    rw [foldl_M33_add_toMat, M33.zero_toMat, zero_add, outer_sum_entry (fun s => s.w) (fun s => s.w) g ph hl,
      cmat_mul_transpose_entry]
    simp [SV.toVec]
  have eWV : ∀ i j, ((List.zipWith (fun gk pk => M33.outer gk.w pk.v) g ph).foldl M33.add M33.zero).toMat i j
      = (cmat g.length g * (cmat g.length ph)ᵀ) (Sum.inl i) (Sum.inr j) := by
    intro i j
    rw [foldl_M33_add_toMat, M33.zero_toMat, zero_add, outer_sum_entry (fun s => s.w) (fun s => s.v) g ph hl,
      cmat_mul_transpose_entry]
    simp [SV.toVec]
  have eVV : ∀ i j, ((List.zipWith (fun gk pk => M33.outer gk.v pk.v) g ph).foldl M33.add M33.zero).toMat i j
      = (cmat g.length g * (cmat g.length ph)ᵀ) (Sum.inr i) (Sum.inr j) := by
    intro i j
    rw [foldl_M33_add_toMat, M33.zero_toMat, zero_add, outer_sum_entry (fun s => s.v) (fun s => s.v) g ph hl,
      cmat_mul_transpose_entry]
    simp [SV.toVec]
  -- the diagonal blocks are symmetric, so the symmetrisation does nothing
  have sWW : ((List.zipWith (fun gk pk => M33.outer gk.w pk.w) g ph).foldl M33.add M33.zero).toMatᵀ
      = ((List.zipWith (fun gk pk => M33.outer gk.w pk.w) g ph).foldl M33.add M33.zero).toMat := by
    ext i j
    rw [Matrix.transpose_apply, eWW, eWW]
    exact congrFun (congrFun hsym (Sum.inl i)) (Sum.inl j)
  have sVV : ((List.zipWith (fun gk pk => M33.outer gk.v pk.v) g ph).foldl M33.add M33.zero).toMatᵀ
      = ((List.zipWith (fun gk pk => M33.outer gk.v pk.v) g ph).foldl M33.add M33.zero).toMat := by
    ext i j
    rw [Matrix.transpose_apply, eVV, eVV]
    exact congrFun (congrFun hsym (Sum.inr i)) (Sum.inr j)
  rw [ArtI.sub_toMat]
  congr 1
  ext i j
  rcases i with i | i <;> rcases j with j | j
  · simp only [ArtI.toMat, fromBlocks_apply₁₁, Sym3.symmetrize_toMat _ sWW h2, eWW]
  · simp only [ArtI.toMat, fromBlocks_apply₁₂, eWV]
  · simp only [ArtI.toMat, fromBlocks_apply₂₁, Matrix.transpose_apply, eWV]
    exact (congrFun (congrFun hsym (Sum.inr i)) (Sum.inl j))
  · simp only [ArtI.toMat, fromBlocks_apply₂₂, Sym3.symmetrize_toMat _ sVV h2, eVV]


/-! ## `realizeArticulatedBodyInertiasInward` : `abiIn`  ↔  `P`, `PP`, `G` -/

theorem foldl_ArtI_add_toMat {γ : Type} (g : γ → ArtI K) (l : List γ) (a : ArtI K) :
    (l.foldl (fun acc c => acc.add (g c)) a).toMat = a.toMat + (l.map (fun c => (g c).toMat)).sum := by
  induction l generalizing a with
  | nil => simp
  | cons x xs ih => simp only [List.foldl_cons, List.map_cons, List.sum_cons, ih, ArtI.add_toMat]; abel

theorem Pkids_sum (ms : List (MBT K I6)) :
    Pkids ms = (ms.map (fun m => (bd m).phi * PP m * (bd m).phiᵀ)).sum := by
  induction ms with
  | nil => simp [Pkids]
  | cons m ms ih => rw [Pkids_cons, ih]; simp

theorem ginv_length (m : List (List K)) (n : Nat) : (ginv m n).length = n := by
  unfold ginv
  simp only [List.length_map]
  cases n with
  | zero => simp [lident]
  | succ k => rw [List.range_succ, List.foldl_append]; simp

mutual
/-- no mobilizer of the tree is prescribed -/
def NoPresc : Tr (Body K) → Prop
  | Tr.mk b cs => b.presc = false ∧ NoPrescL cs
def NoPrescL : List (Tr (Body K)) → Prop
  | [] => True
  | c :: cs => NoPresc c ∧ NoPrescL cs
end

section abi
-- the vector decorations (`ud`, `f`, bias) of a body; irrelevant for `P`, `PP`, `G`
variable (ex : Body K → List K × List K × Bias K)

/-- abstraction of an ABI-annotated node: the twin's `DI` is the matrix of the executed `DI` list -/
def decA (x : Body K × Abi K) : Bd K I6 := absBd x.1 x.2.DI (ex x.1).1 (ex x.1).2.1 (ex x.1).2.2

mutual
/-- the ABI annotations of an executed tree are the twin's quantities at every node -/
def AbiOK : Tr (Body K × Abi K) → Prop
  | Tr.mk x cs =>
      x.1.presc = false ∧
      x.2.P.toMat = P (absT (decA ex) (Tr.mk x cs)) ∧
      x.2.PPlus.toMat = PP (absT (decA ex) (Tr.mk x cs)) ∧
      cmat x.1.H.length x.2.G = P (absT (decA ex) (Tr.mk x cs)) * cmat x.1.H.length x.1.H * lmat x.1.H.length x.2.DI ∧
      x.2.G.length = x.1.H.length ∧ x.2.DI.length = x.1.H.length ∧
      AbiOKL cs
def AbiOKL : List (Tr (Body K × Abi K)) → Prop
  | [] => True
  | c :: cs => AbiOK c ∧ AbiOKL cs
end

def abiRoot (t : Tr (Body K)) : Body K × Abi K := (Tr.mapUp abiIn t).val

theorem abiRoot_mk (b : Body K) (cs : List (Tr (Body K))) :
    abiRoot (Tr.mk b cs) = abiIn b (cs.map abiRoot) := by
  simp only [abiRoot, mapUp_val]; rfl

theorem mapUp_abi_mk (b : Body K) (cs : List (Tr (Body K))) :
    Tr.mapUp abiIn (Tr.mk b cs) = Tr.mk (abiIn b (cs.map abiRoot)) (Tr.mapUpL abiIn cs) := by
  simp only [Tr.mapUp, mapUpL_vals]; rfl

theorem abiIn_body (b : Body K) (kids : List (Body K × Abi K)) : (abiIn b kids).1 = b := by
  unfold abiIn; split <;> rfl

mutual
/-- **articulated body inertias, every node** (`WF` of the abstracted tree: every `D·DI = 1`; no prescribed mobilizer;
characteristic ≠ 2 for the explicit symmetrisation) -/
theorem sim_abi (h2 : (2 : K) ≠ 0) : ∀ (t : Tr (Body K)), NoPresc t → WF (absT (decA ex) (Tr.mapUp abiIn t)) →
    (abiRoot t).1 = t.val ∧ AbiOK ex (Tr.mapUp abiIn t)
  | Tr.mk b cs, hnp, hwf => by
      simp only [NoPresc] at hnp
      obtain ⟨hb, hnpk⟩ := hnp
      rw [mapUp_abi_mk] at hwf ⊢
      have hwfk := WF.kids (by simpa only [absT] using hwf)
      have hk := sim_abi_kids h2 cs hnpk hwfk
      obtain ⟨hkP, hkOK⟩ := hk
      refine ⟨by rw [abiRoot_mk]; exact abiIn_body b _, ?_⟩
      -- name the pieces of the executed node function
      have hPsym := P_symm _ hwf
      have hDIsym := DI_symm _ hwf
      set kids := cs.map abiRoot with hkids
      set p : ArtI K := kids.foldl (fun acc c => acc.add (c.2.PPlus.shift c.1.l)) (ArtI.ofSpI b.Mk) with hp
      set ph : List (SV K) := b.H.map p.mulSV with hph
      set dm : List (List K) := b.H.map (fun hi => ph.map (fun pj => hi.dot pj)) with hdm
      set di := ginv dm b.d with hdi
      set g : List (SV K) := (List.range b.d).map (fun j => hMul ph (di.map (fun row => row.getD j 0))) with hg
      set pplus : ArtI K :=
        p.sub ⟨Sym3.symmetrize ((List.zipWith (fun gk pk => M33.outer gk.v pk.v) g ph).foldl M33.add M33.zero),
               Sym3.symmetrize ((List.zipWith (fun gk pk => M33.outer gk.w pk.w) g ph).foldl M33.add M33.zero),
               (List.zipWith (fun gk pk => M33.outer gk.w pk.v) g ph).foldl M33.add M33.zero⟩ with hpplus
      have hnode : abiIn b kids = (b, ⟨p, pplus, dm, di, g⟩) := by
        simp only [abiIn, hb, Bool.false_eq_true, if_false]
        rfl
      rw [hnode] at hwf hPsym hDIsym ⊢
      -- P
      have hP : p.toMat = P (absT (decA ex) (Tr.mk (b, (⟨p, pplus, dm, di, g⟩ : Abi K)) (Tr.mapUpL abiIn cs))) := by
        rw [hp, foldl_ArtI_add_toMat, ArtI.ofSpI_toMat]
        simp only [absT, P, decA, absBd, hkP, List.map_map, Function.comp_def]
      have hlen_ph : ph.length = b.H.length := by simp [hph]
      have hlen_g : g.length = b.H.length := by simp [hg, Body.d]
      have hGm : cmat b.H.length g = p.toMat * cmat b.H.length b.H * lmat b.H.length di := by
        have := cmat_G b.H.length ph hlen_ph di
        simp only [Body.d] at hg
        rw [hg, this, hph, cmat_map_mulSV]
      have hPHm : cmat b.H.length ph = p.toMat * cmat b.H.length b.H := by rw [hph, cmat_map_mulSV]
      simp only [AbiOK]
      refine ⟨hb, hP, ?_, ?_, hlen_g, ?_, hkOK⟩
      · -- P⁺
        have hsym : (cmat b.H.length g * (cmat b.H.length ph)ᵀ)ᵀ = cmat b.H.length g * (cmat b.H.length ph)ᵀ := by
          rw [hGm, hPHm]
          have e1 : (lmat b.H.length di)ᵀ = lmat b.H.length di := by
            simpa only [absT, bd, decA, absBd] using hDIsym
          have e2 : p.toMatᵀ = p.toMat := ArtI.toMat_symm p
          simp only [transpose_mul, transpose_transpose, e1, e2, Matrix.mul_assoc]
        have hPP : pplus.toMat = p.toMat - cmat b.H.length g * (cmat b.H.length ph)ᵀ :=
          pplus_toMat b.H.length p g ph hlen_g hlen_ph h2 hsym
        rw [hPP, hGm, hPHm]
        simp only [absT, PP_mk]
        simp only [absT] at hP
        rw [← hP]
        simp only [transpose_mul, ArtI.toMat_symm, Matrix.mul_assoc, decA, absBd, hMat_eq_cmat]
        show _ = p.toMat - p.toMat * cmat b.H.length b.H * lmat b.H.length di * (cmat b.H.length b.H)ᵀ * p.toMat
        simp only [Matrix.mul_assoc]
      · rw [hGm, hP]
      · simp [hdi, ginv_length, Body.d]
theorem sim_abi_kids (h2 : (2 : K) ≠ 0) : ∀ (cs : List (Tr (Body K))), NoPrescL cs →
    (∀ c ∈ absL (decA ex) (Tr.mapUpL abiIn cs), WF c) →
    ((cs.map abiRoot).map (fun c => (c.2.PPlus.shift c.1.l).toMat)).sum
        = Pkids (absL (decA ex) (Tr.mapUpL abiIn cs)) ∧
    AbiOKL ex (Tr.mapUpL abiIn cs)
  | [], _, _ => by simp [Tr.mapUpL, absL, Pkids, AbiOKL]
  | c :: cs, hnp, hwf => by
      simp only [NoPrescL] at hnp
      simp only [Tr.mapUpL, absL, List.mem_cons, forall_eq_or_imp] at hwf
      obtain ⟨h1, hOK1⟩ := sim_abi h2 c hnp.1 hwf.1
      obtain ⟨hs, hOKs⟩ := sim_abi_kids h2 cs hnp.2 hwf.2
      refine ⟨?_, by simp only [Tr.mapUpL, AbiOKL]; exact ⟨hOK1, hOKs⟩⟩
      rw [List.map_cons, List.map_cons, List.sum_cons, hs]
      simp only [Tr.mapUpL, absL, Pkids_cons, bd_absT, ArtI.shift_toMat]
      -- the child's P⁺ from its AbiOK
      have hPPc : (abiRoot c).2.PPlus.toMat = PP (absT (decA ex) (Tr.mapUp abiIn c)) := by
        cases hc : Tr.mapUp abiIn c with
        | mk x xs =>
          rw [hc] at hOK1
          simp only [AbiOK] at hOK1
          simp only [abiRoot, hc, Tr.val]
          exact hOK1.2.2.1
      rw [hPPc]
      rfl
end
end abi

end TreeDyn
