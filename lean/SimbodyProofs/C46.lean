import SimbodyModel.C46
import SimbodyModel.C46_key
import SimbodyModel.Gen.Statics
import Mathlib.Data.List.Basic
import Mathlib.Data.List.Induction

/-!
# C46 — simulation is deterministic and isolated (property theorems; level: partial)

* `all_statics_classified` (translator-tied): every writable static-storage object found in the rebuilt libraries
  (`Gen.statics`, regenerated on every run from `readelf -sW`) has a reviewed class in `allowlist`.  The classes say
  *why* the object cannot make one simulation depend on another; that classification is a hand review of the source,
  not derived (hence "partial").  A new mutable static in /repo makes `decide` fail ⇒ the obligation breaks.
* `interleaving_isolated`, `repeat_deterministic`: in the process model of `SimbodyModel/C46.lean`, if every operation
  (a) leaves the result-relevant part of the globals unchanged and (b) computes its instance result from that part and
  its own instance state only — which is exactly what the classes assert — then an instance's trajectory inside any
  schedule equals its stand-alone trajectory, and repeating it gives the same result.
-/
namespace C46
open Cls Sect

/-- Hand-reviewed allow-list: normalised object name ↦ class.  Source locations are given per group.
A `guard variable for X` entry is classified through its object `X`.  `key! "name"` is the name as a number
(SimbodyModel/C46_key.lean) — the kernel compares numbers, the reader reads the literal. -/
def allowlist : List (Nat × Cls) := [
  -- SimTKcommon/src/Constants / Scalar.h, Vec.h, DecorativeGeometry: `extern const` objects with dynamic initialisers,
  -- written once by the static initialiser of libSimTKcommon, declared const in every header
  (key! "SimTK::Black", constAfterInit), (key! "SimTK::Blue", constAfterInit), (key! "SimTK::CubeRoot2", constAfterInit),
  (key! "SimTK::CubeRoot3", constAfterInit), (key! "SimTK::Cyan", constAfterInit), (key! "SimTK::E", constAfterInit),
  (key! "SimTK::Eps", constAfterInit), (key! "SimTK::Gray", constAfterInit), (key! "SimTK::Green", constAfterInit),
  (key! "SimTK::GroundIndex", constAfterInit), (key! "SimTK::I", constAfterInit), (key! "SimTK::Infinity", constAfterInit),
  (key! "SimTK::InvalidContactSurfaceIndex", constAfterInit), (key! "SimTK::InvalidMobilizedBodyIndex", constAfterInit),
  (key! "SimTK::InvalidSubsystemIndex", constAfterInit), (key! "SimTK::InvalidSubtreeBodyIndex", constAfterInit),
  (key! "SimTK::InvalidSubtreeQIndex", constAfterInit), (key! "SimTK::InvalidSubtreeUIndex", constAfterInit),
  (key! "SimTK::LeastNegativeReal", constAfterInit), (key! "SimTK::LeastPositiveReal", constAfterInit),
  (key! "SimTK::Ln10", constAfterInit), (key! "SimTK::Ln2", constAfterInit), (key! "SimTK::Log10E", constAfterInit),
  (key! "SimTK::Log2E", constAfterInit), (key! "SimTK::LosslessNumDigitsReal", constAfterInit), (key! "SimTK::Magenta", constAfterInit),
  (key! "SimTK::MinusOne", constAfterInit), (key! "SimTK::MostNegativeReal", constAfterInit),
  (key! "SimTK::MostPositiveReal", constAfterInit), (key! "SimTK::NaN", constAfterInit), (key! "SimTK::NegXAxis", constAfterInit),
  (key! "SimTK::NegYAxis", constAfterInit), (key! "SimTK::NegZAxis", constAfterInit), (key! "SimTK::NumDigitsReal", constAfterInit),
  (key! "SimTK::One", constAfterInit), (key! "SimTK::OneEighth", constAfterInit), (key! "SimTK::OneFifth", constAfterInit),
  (key! "SimTK::OneFourth", constAfterInit), (key! "SimTK::OneHalf", constAfterInit), (key! "SimTK::OneNinth", constAfterInit),
  (key! "SimTK::OneOverPi", constAfterInit), (key! "SimTK::OneOverSqrt2", constAfterInit), (key! "SimTK::OneOverSqrt3", constAfterInit),
  (key! "SimTK::OneSeventh", constAfterInit), (key! "SimTK::OneSixth", constAfterInit), (key! "SimTK::OneThird", constAfterInit),
  (key! "SimTK::Orange", constAfterInit), (key! "SimTK::Pi", constAfterInit), (key! "SimTK::Purple", constAfterInit),
  (key! "SimTK::Red", constAfterInit), (key! "SimTK::SignificantReal", constAfterInit), (key! "SimTK::Sqrt2", constAfterInit),
  (key! "SimTK::Sqrt3", constAfterInit), (key! "SimTK::SqrtEps", constAfterInit), (key! "SimTK::Three", constAfterInit),
  (key! "SimTK::TinyReal", constAfterInit), (key! "SimTK::Two", constAfterInit), (key! "SimTK::White", constAfterInit),
  (key! "SimTK::XAxis", constAfterInit), (key! "SimTK::YAxis", constAfterInit), (key! "SimTK::Yellow", constAfterInit),
  (key! "SimTK::ZAxis", constAfterInit), (key! "SimTK::Zero", constAfterInit),
  -- NTraits.h: `static const T c = …; return c;` function-local constants
  (key! "SimTK::NTraits<*>::getInfinity()::c", constAfterInit), (key! "SimTK::NTraits<*>::getLosslessNumDigits()::c", constAfterInit),
  (key! "SimTK::NTraits<*>::getNaN()::c", constAfterInit), (key! "SimTK::NTraits<*>::getNumDigits()::c", constAfterInit),
  (key! "SimTK::NTraits<*>::getSqrtEps()::c", constAfterInit), (key! "SimTK::NTraits<*>::getTiny()::c", constAfterInit),
  (key! "SimTK::RTraits<*>::getSignificant()::c", constAfterInit),
  -- NiceTypeName.h / NiceTypeName.cpp: type-name strings computed once from typeid(T).name(); regex table
  (key! "SimTK::NiceTypeName<*>::namestr()::canonical", constAfterInit), (key! "SimTK::NiceTypeName<*>::namestr()::str", constAfterInit),
  (key! "SimTK::canonicalizeTypeName(std::__cxx11::basic_string<*>&&)::subs", constAfterInit),
  -- index types: `static const XIndex invalid;` in SimTK_DEFINE_UNIQUE_INDEX_TYPE::Invalid()
  (key! "SimTK::CableSpanIndex::Invalid()::invalid", constAfterInit), (key! "SimTK::CableSpanObstacleIndex::Invalid()::invalid", constAfterInit),
  (key! "SimTK::CableSpanViaPointIndex::Invalid()::invalid", constAfterInit), (key! "SimTK::CacheEntryIndex::Invalid()::invalid", constAfterInit),
  (key! "SimTK::DiscreteVariableIndex::Invalid()::invalid", constAfterInit), (key! "SimTK::MobilizedBodyIndex::Invalid()::invalid", constAfterInit),
  -- `static const` empty / identity / zero objects returned by reference
  (key! "SimTK::Xml::Element::getValue() const::null", constAfterInit),
  (key! "SimTK::CompliantContactSubsystemImpl::getContactForceById(SimTK::State const&, SimTK::ContactId) const::invalidForce", constAfterInit),
  (key! "SimTK::ConstraintImpl::getBodyTransformFromState(SimTK::State const&, SimTK::ConstrainedBodyIndex) const::X_AA", constAfterInit),
  (key! "SimTK::ConstraintImpl::getBodyVelocityFromState(SimTK::State const&, SimTK::ConstrainedBodyIndex) const::V_AA", constAfterInit),
  (key! "SimTK::ContactSnapshot::getContactById(SimTK::ContactId) const::empty", constAfterInit),
  (key! "SimTK::SemiExplicitEulerTimeStepper::performSimultaneousImpact(SimTK::State const&, SimTK::Vector_<*>&, SimTK::Vector_<*>&)::noExpansion", constAfterInit),
  (key! "SimbodyMatterSubsystemRep::getAllParticleAccelerations(SimTK::State const&) const::v", constAfterInit),
  (key! "SimbodyMatterSubsystemRep::getAllParticleLocations(SimTK::State const&) const::v", constAfterInit),
  (key! "SimbodyMatterSubsystemRep::getAllParticleVelocities(SimTK::State const&) const::v", constAfterInit),
  (key! "SimbodyMatterSubsystemRep::updAllParticleLocations(SimTK::State&) const::v", constAfterInit),
  (key! "SimbodyMatterSubsystemRep::updAllParticleVelocities(SimTK::State&) const::v", constAfterInit),
  -- file-scope `static const` with dynamic initialiser (CableSpan.cpp, ExponentialSpringForce / contact defaults, decorations)
  (key! "(anonymous namespace)::BinormalAxis", constAfterInit), (key! "(anonymous namespace)::NormalAxis", constAfterInit),
  (key! "(anonymous namespace)::TangentAxis", constAfterInit), (key! "(anonymous namespace)::DefMinSignificantForce", constAfterInit),
  (key! "DefaultBodyColor", constAfterInit), (key! "DefaultPointColor", constAfterInit),
  -- option-name tables of InteriorPointOptimizer::optimize (static const arrays), version string of cpoly, gcvspl constant
  (key! "SimTK::InteriorPointOptimizer::optimize(SimTK::Vector_<*>&)::advancedStrOptions", constAfterInit),
  (key! "SimTK::CPoly<*>::_V_", constAfterInit), (key! "c_b6", constAfterInit),
  -- nvector_SimTK.cpp: `const N_Vector_Ops_SimTK N_Vector_Ops_SimTK::Ops;` the constant function table handed to SUNDIALS
  (key! "N_Vector_Ops_SimTK::Ops", constAfterInit),
  -- libstdc++ <regex> internals instantiated in libSimTKcommon (static const tables / a constant char)
  (key! "std::__detail::_AnyMatcher<*>::operator()(char) const::__nul", constAfterInit),
  (key! "std::__cxx11::regex_traits<*>::lookup_collatename<*>(char const*, char const*) const::__collatenames", constAfterInit),
  -- TinyXML (vendored): entity table is const data; errorString table const; condenseWhiteSpace is a process-wide
  -- XML *text-handling* option changed only by Xml::setXmlCondenseWhiteSpace — no simulation code reads it
  (key! "SimTK::TiXmlBase::entity", constAfterInit), (key! "SimTK::TiXmlBase::errorString", constAfterInit),
  (key! "SimTK::TiXmlBase::condenseWhiteSpace", xmlOption),
  -- thread_local: ParallelExecutorImpl::isWorker (set by each worker thread for itself), and the per-thread force
  -- accumulators of CalcForcesParallelTask (initialize() zeroes them before every use, finish() reads them)
  (key! "SimTK::ParallelExecutorImpl::isWorker", threadScratch),
  (key! "(anonymous namespace)::CalcForcesParallelTask::m_mobilityForceCacheLocalStatic", threadScratch),
  (key! "(anonymous namespace)::CalcForcesParallelTask::m_mobilityForcesLocalStatic", threadScratch),
  (key! "(anonymous namespace)::CalcForcesParallelTask::m_particleForceCacheLocalStatic", threadScratch),
  (key! "(anonymous namespace)::CalcForcesParallelTask::m_particleForcesLocalStatic", threadScratch),
  (key! "(anonymous namespace)::CalcForcesParallelTask::m_rigidBodyForceCacheLocalStatic", threadScratch),
  (key! "(anonymous namespace)::CalcForcesParallelTask::m_rigidBodyForcesLocalStatic", threadScratch),
  -- AssemblyCondition::calcGoal default implementation: `static Vector err; calcErrors(state, err);` — the callee
  -- resizes and fills `err` before it is read (shared scratch: not thread-safe, but no value survives a call)
  (key! "SimTK::AssemblyCondition::calcGoal(SimTK::State const&, double&) const::err", scratchOverwritten),
  -- Random.cpp: seed handed to Random objects the user did not seed (documented: un-seeded generators differ)
  (key! "SimTK::Random::RandomImpl::nextSeed", seedCounter),
  -- Random.cpp, verification hook (exists only in -DSIMBODY_VERIF builds): statically initialised to null and never
  -- written by the library; only a test harness that wants to inject a raw word sets it
  (key! "SimTK_verif_forceRaw", verifHook),
  -- ParallelExecutor.cpp / Parallel2DExecutor.cpp / ParallelWorkQueue.cpp, verification hook (SIMBODY_VERIF only): weak
  -- function pointer, null by default, called (never written) by the library at protocol events; set only by the
  -- C33/C17 harnesses to trace / perturb thread schedules
  (key! "SimTK_verif_parallelTraceHook", verifHook),
  -- contact identities: monotone counters; ids are only compared for equality / used as map keys, relative order of the
  -- ids created by one simulation does not depend on the start value
  (key! "SimTK::ContactImpl::createNewContactId()::nextAvailableId", idCounter),
  (key! "SimTK::ContactImpl::createNewContactTypeId()::nextAvailableId", idCounter),
  (key! "SimTK::ContactGeometryImpl::createNewContactGeometryTypeId()::nextAvailableId", idCounter),
  (key! "SimTKIpopt::RegisteredOption::next_counter_", idCounter), (key! "SimTKIpopt::TaggedObject::unique_tag_", idCounter),
  -- per-class type ids: `static const TypeId id = createNew…TypeId();` fixed at first use, then constant
  (key! "SimTK::BrickHalfSpaceContactImpl::classTypeId()::tid", firstUseId), (key! "SimTK::BrokenContactImpl::classTypeId()::tid", firstUseId),
  (key! "SimTK::CircularPointContactImpl::classTypeId()::tid", firstUseId), (key! "SimTK::EllipticalPointContactImpl::classTypeId()::tid", firstUseId),
  (key! "SimTK::PointContactImpl::classTypeId()::tid", firstUseId), (key! "SimTK::TriangleMeshContactImpl::classTypeId()::tid", firstUseId),
  (key! "SimTK::UntrackedContactImpl::classTypeId()::tid", firstUseId),
  (key! "SimTK::ContactGeometry::Brick::Impl::classTypeId()::id", firstUseId), (key! "SimTK::ContactGeometry::Cylinder::Impl::classTypeId()::id", firstUseId),
  (key! "SimTK::ContactGeometry::Ellipsoid::Impl::classTypeId()::id", firstUseId), (key! "SimTK::ContactGeometry::HalfSpace::Impl::classTypeId()::id", firstUseId),
  (key! "SimTK::ContactGeometry::SmoothHeightMap::Impl::classTypeId()::id", firstUseId), (key! "SimTK::ContactGeometry::Sphere::Impl::classTypeId()::id", firstUseId),
  (key! "SimTK::ContactGeometry::Torus::Impl::classTypeId()::id", firstUseId), (key! "SimTK::ContactGeometry::TriangleMesh::Impl::classTypeId()::id", firstUseId),
  -- CollisionDetectionAlgorithm.cpp: (type id, type id) ↦ algorithm object; filled with the built-in algorithms by the
  -- static initialiser of libSimTKmath (`staticInitializer = registerStandardAlgorithms()`), same content in every
  -- process; user registration is an explicit API call
  (key! "SimTK::CollisionDetectionAlgorithm::algorithmMap", idempotentRegistry),
  -- printing / message buffers / output-file throttling of vendored optimizers (Ipopt banner flag, c-cmaes message
  -- buffers `s`, `sTestOutString`, write throttles), CFSQP output file pointer
  (key! "SimTKIpopt::message_printed", diagnostics), (key! "s.N", diagnostics), (key! "sTestOutString.N", diagnostics),
  (key! "countiterlastwritten.N", diagnostics), (key! "flglockprint.N", diagnostics), (key! "flglockwrite.N", diagnostics),
  (key! "maxdiffitertowrite.N", diagnostics), (key! "cfsqp_fptr", diagnostics),
  -- SUNDIALS Fortran-to-C interface vectors (fnvector_serial.c): only touched by the FNV* Fortran entry points
  (key! "F2C_CVODE_vec", vendoredUnused), (key! "F2C_CVODE_vecB", vendoredUnused), (key! "F2C_CVODE_vecQ", vendoredUnused),
  (key! "F2C_CVODE_vecQB", vendoredUnused), (key! "F2C_CVODE_vecS", vendoredUnused), (key! "F2C_IDA_vec", vendoredUnused),
  (key! "F2C_IDA_vecB", vendoredUnused), (key! "F2C_IDA_vecQ", vendoredUnused), (key! "F2C_IDA_vecQB", vendoredUnused),
  (key! "F2C_IDA_vecS", vendoredUnused), (key! "F2C_KINSOL_vec", vendoredUnused),
  -- Visualizer process plumbing
  (key! "inPipe", visualizerIO),
  -- toolchain / runtime artefacts
  (key! "std::__ioinit", toolchain), (key! "completed.N", toolchain), (key! "__dso_handle", toolchain), (key! "__TMC_END__", toolchain),
  (key! "__tls_guard", toolchain),
  (key! "DW.ref.__gxx_personality_v0", toolchain), (key! "DW.ref._ZTISt9exception", toolchain), (key! "DW.ref._ZTISt9bad_alloc", toolchain),
  (key! "DW.ref._ZTIN5SimTK9Exception4BaseE", toolchain), (key! "DW.ref._ZTIN5SimTK9Exception15OptimizerFailedE", toolchain),
  (key! "DW.ref._ZTI18ReadingInterrupted", toolchain),
  (key! "DW.ref._ZTIN10SimTKIpopt11TOO_FEW_DOFE", toolchain), (key! "DW.ref._ZTIN10SimTKIpopt14INTERNAL_ABORTE", toolchain),
  (key! "DW.ref._ZTIN10SimTKIpopt14IpoptExceptionE", toolchain), (key! "DW.ref._ZTIN10SimTKIpopt14OPTION_INVALIDE", toolchain),
  (key! "DW.ref._ZTIN10SimTKIpopt18LOCALLY_INFEASIBLEE", toolchain), (key! "DW.ref._ZTIN10SimTKIpopt18RESTORATION_FAILEDE", toolchain),
  (key! "DW.ref._ZTIN10SimTKIpopt18TINY_STEP_DETECTEDE", toolchain), (key! "DW.ref._ZTIN10SimTKIpopt21RESTORATION_USER_STOPE", toolchain),
  (key! "DW.ref._ZTIN10SimTKIpopt23STEP_COMPUTATION_FAILEDE", toolchain), (key! "DW.ref._ZTIN10SimTKIpopt24ACCEPTABLE_POINT_REACHEDE", toolchain),
  (key! "DW.ref._ZTIN10SimTKIpopt24INVALID_STDINTERFACE_NLPE", toolchain), (key! "DW.ref._ZTIN10SimTKIpopt26FEASIBILITY_PROBLEM_SOLVEDE", toolchain),
  (key! "DW.ref._ZTIN10SimTKIpopt28RESTORATION_MAXITER_EXCEEDEDE", toolchain),
  (key! "DW.ref._ZTIN10SimTKIpopt39RESTORATION_CONVERGED_TO_FEASIBLE_POINTE", toolchain),
  (key! "DW.ref._ZTIN10SimTKIpopt8IpoptNLP10Eval_ErrorE", toolchain)
]

/-! ### checking the inventory against the allow-list

`Gen.statics` is emitted in allow-list order (unknown names last), so one linear merge walk suffices; the walk is only
an efficient *decision procedure* — `check_sound` shows that acceptance implies membership whatever the order is. -/

/-- skip allow-list entries until the one for `nm`; returns its class and the rest *including* that entry -/
def seek (nm : Nat) : List (Nat × Cls) → Option (Cls × List (Nat × Cls))
  | [] => none
  | (a, c) :: rest => if nm = a then some (c, (a, c) :: rest) else seek nm rest

/-- every symbol is found (walking forward only) and satisfies `p` with its class -/
def check (p : Sym → Cls → Bool) : List Sym → List (Nat × Cls) → Bool
  | [], _ => true
  | x :: xs, al => match seek x.key al with
    | none => false
    | some (c, al') => p x c && check p xs al'

theorem seek_sound {nm : Nat} : ∀ {al : List (Nat × Cls)} {c : Cls} {al' : List (Nat × Cls)},
    seek nm al = some (c, al') → (nm, c) ∈ al ∧ ∀ e ∈ al', e ∈ al := by
  intro al
  induction al with
  | nil => intro c al' h; simp [seek] at h
  | cons e rest ih =>
    intro c al' h
    obtain ⟨a, ca⟩ := e
    unfold seek at h
    by_cases hnm : nm = a
    · simp only [hnm, if_true, Option.some.injEq, Prod.mk.injEq] at h
      obtain ⟨rfl, rfl⟩ := h
      exact ⟨by rw [hnm]; exact List.mem_cons_self, fun e he => he⟩
    · simp only [hnm, if_false] at h
      obtain ⟨h1, h2⟩ := ih h
      exact ⟨List.mem_cons_of_mem _ h1, fun e he => List.mem_cons_of_mem _ (h2 e he)⟩

theorem check_sound (p : Sym → Cls → Bool) : ∀ (xs : List Sym) (al : List (Nat × Cls)),
    check p xs al = true → ∀ x ∈ xs, ∃ c, (x.key, c) ∈ al ∧ p x c = true := by
  intro xs
  induction xs with
  | nil => intro al _ x hx; cases hx
  | cons y ys ih =>
    intro al h x hx
    unfold check at h
    cases hs : seek y.key al with
    | none => simp [hs] at h
    | some r =>
      obtain ⟨c, al'⟩ := r
      simp only [hs, Bool.and_eq_true] at h
      obtain ⟨hmem, hsub⟩ := seek_sound hs
      rcases List.mem_cons.mp hx with rfl | hx
      · exact ⟨c, hmem, h.1⟩
      · obtain ⟨c', hc', hp'⟩ := ih al' h.2 x hx
        exact ⟨c', hsub _ hc', hp'⟩

/-- a compiler-generated guard variable only makes sense for an object initialised at first use -/
def guardClassOk : Cls → Bool
  | constAfterInit => true
  | firstUseId => true
  | scratchOverwritten => true
  | _ => false

/-- per entry: guards belong to first-use-initialised objects; thread-local storage is per-thread scratch (or the
toolchain's TLS guard) and per-thread scratch is thread-local -/
def entryOk (s : Sym) (c : Cls) : Bool :=
  (!s.guard || guardClassOk c) &&
  (!(s.sect == tbss || s.sect == tdata) || c == threadScratch || c == toolchain) &&
  (!(c == threadScratch) || s.sect == tbss || s.sect == tdata)

set_option maxRecDepth 100000 in
/-- the kernel evaluates the walk over the inventory regenerated from the binaries -/
theorem inventory_check : check entryOk Gen.statics allowlist = true := by decide

/-- **Translator-tied obligation.**  Every writable static-storage object of the rebuilt libraries is in the
reviewed allow-list. -/
theorem all_statics_classified : ∀ s ∈ Gen.statics, ∃ c, (s.key, c) ∈ allowlist := by
  intro s hs
  obtain ⟨c, hc, _⟩ := check_sound entryOk _ _ inventory_check s hs
  exact ⟨c, hc⟩

/-- guard variables belong to objects classified as initialised-at-first-use -/
theorem guards_are_first_use_inits :
    ∀ s ∈ Gen.statics, s.guard = true → ∃ c, (s.key, c) ∈ allowlist ∧ guardClassOk c = true := by
  intro s hs hg
  obtain ⟨c, hc, hp⟩ := check_sound entryOk _ _ inventory_check s hs
  refine ⟨c, hc, ?_⟩
  simp only [entryOk, Bool.and_eq_true, Bool.or_eq_true, Bool.not_eq_true', hg] at hp
  rcases hp.1.1 with h | h
  · cases h
  · exact h

/-- everything in `.tbss/.tdata` is classified as per-thread scratch (or is the toolchain's TLS guard) -/
theorem tls_is_thread_scratch :
    ∀ s ∈ Gen.statics, (s.sect = tbss ∨ s.sect = tdata) →
      ∃ c, (s.key, c) ∈ allowlist ∧ (c = threadScratch ∨ c = toolchain) := by
  intro s hs hsect
  obtain ⟨c, hc, hp⟩ := check_sound entryOk _ _ inventory_check s hs
  refine ⟨c, hc, ?_⟩
  simp only [entryOk, Bool.and_eq_true, Bool.or_eq_true, Bool.not_eq_true', beq_iff_eq] at hp
  rcases hp.1.2 with (h | h) | h
  · have : (s.sect == tbss || s.sect == tdata) = true := by
      rcases hsect with h' | h' <;> simp [h']
    rw [this] at h; cases h
  · left; exact h
  · right; exact h

set_option maxRecDepth 100000 in
/-- the extraction is not vacuous: the well-known mutable statics are in the inventory -/
theorem inventory_has_anchors :
    (Gen.statics.any (fun s => s.key == key! "SimTK::Random::RandomImpl::nextSeed")) = true ∧
    (Gen.statics.any (fun s => s.key == key! "SimTK::CollisionDetectionAlgorithm::algorithmMap")) = true ∧
    (Gen.statics.any (fun s => s.key == key! "SimTK::Pi")) = true ∧ 100 ≤ Gen.statics.length := by decide

/-! ### cross-check with the sources

A second, independent view of "mutable static storage": every `static` non-const object *declaration* found in the
library sources by a deliberately simple regex scan (`Gen.sourceStatics`: comments and `#if 0` removed, `const` types and
functions skipped) must be visible in the binary inventory under the same identifier — or be listed here with the
reason why the compiler does not emit it.  A new `static` in the sources that the ELF scan does not show (wrong section
list, stripped symbol table, renamed by the compiler) or that nobody reviewed breaks `source_statics_in_inventory`. -/

/-- source-level statics that are legitimately absent from the binaries (key = `file:identifier`) -/
def notEmitted : List Nat := [
  -- Timing.cpp: inside `#if defined(_MSC_VER)` / `#elif SimTK_IS_APPLE_AND_MUST_DEFINE_CLOCK_GETTIME` (not this platform)
  key! "SimTKcommon/src/Timing.cpp:ticksPerSec", key! "SimTKcommon/src/Timing.cpp:info",
  -- IpDebug.hpp: members of DebugJournalistWrapper, compiled only with IP_DEBUG
  key! "SimTKmath/Optimizers/src/IpOpt/IpDebug.hpp:indentation_level_", key! "SimTKmath/Optimizers/src/IpOpt/IpDebug.hpp:jrnl_",
  -- CollisionDetectionAlgorithm.cpp: `static int staticInitializer = registerStandardAlgorithms();` write-only, removed
  -- by the optimiser (its initialiser still runs and fills algorithmMap)
  key! "SimTKmath/Geometry/src/CollisionDetectionAlgorithm.cpp:staticInitializer"
]

/-- a source-level static is accounted for -/
def srcOk (s : SrcStatic) : Bool :=
  Gen.statics.any (fun t => t.leaf == s.leaf) || notEmitted.contains s.fileLeaf

set_option maxRecDepth 100000 in
/-- **Second translator-tied obligation.**  Every `static` non-const object declared in the library sources appears in
the binary inventory (hence has a reviewed class by `all_statics_classified`) or is a reviewed non-emitted exception. -/
theorem source_statics_in_inventory : ∀ s ∈ Gen.sourceStatics, srcOk s = true := by decide

set_option maxRecDepth 100000 in
/-- the source scan is not vacuous -/
theorem source_scan_has_anchors :
    (Gen.sourceStatics.any (fun s => s.leaf == key! "nextSeed")) = true ∧
    (Gen.sourceStatics.any (fun s => s.leaf == key! "err")) = true ∧
    (Gen.sourceStatics.any (fun s => s.leaf == key! "algorithmMap")) = true ∧ 20 ≤ Gen.sourceStatics.length := by decide

/-! ### isolation in the process model -/

section Isolation
variable {G σ C : Type}

/-- What the classification asserts about an operation, relative to a *view* `c : G → C` of the globals (the
result-relevant, constant-after-init part): the view is preserved, and the instance result depends on the globals only
through the view. -/
structure Isolated (c : G → C) (op : Nat → G → σ → G × σ) : Prop where
  view_const : ∀ i g s, c (op i g s).1 = c g
  result_by_view : ∀ i g g' s, c g = c g' → (op i g s).2 = (op i g' s).2

theorem stepInst_view (c : G → C) (op : Nat → G → σ → G × σ) (h : Isolated c op) (w : World G σ) (i : Nat) :
    c (stepInst op w i).g = c w.g := h.view_const i w.g (w.inst i)

theorem run_view (c : G → C) (op : Nat → G → σ → G × σ) (h : Isolated c op) (sched : List Nat) :
    ∀ w : World G σ, c (run op w sched).g = c w.g := by
  induction sched with
  | nil => intro w; rfl
  | cons a t ih =>
    intro w
    show c (run op (stepInst op w a) t).g = c w.g
    rw [ih, stepInst_view c op h]

theorem alone_view (c : G → C) (op : Nat → G → σ → G × σ) (h : Isolated c op) (i : Nat) :
    ∀ n g s, c (alone op i n g s).1 = c g := by
  intro n
  induction n with
  | zero => intro g s; rfl
  | succ k ih =>
    intro g s
    show c (op i (alone op i k g s).1 (alone op i k g s).2).1 = c g
    rw [h.view_const, ih]

/-- the stand-alone result depends on the initial globals only through the view -/
theorem alone_result_by_view (c : G → C) (op : Nat → G → σ → G × σ) (h : Isolated c op) (i : Nat) :
    ∀ n g g' s, c g = c g' → (alone op i n g s).2 = (alone op i n g' s).2 := by
  intro n
  induction n with
  | zero => intro g g' s _; rfl
  | succ k ih =>
    intro g g' s hc
    show (op i (alone op i k g s).1 (alone op i k g s).2).2 = (op i (alone op i k g' s).1 (alone op i k g' s).2).2
    rw [ih g g' s hc]
    exact h.result_by_view i _ _ _ (by rw [alone_view c op h, alone_view c op h, hc])

/-- **Isolation.**  Inside any schedule (other simulations, geometry queries, optimizers … interleaved in any
order), instance `i` ends in exactly the state it reaches when it performs its `count sched i` operations alone,
starting from any globals with the same view. -/
theorem interleaving_isolated (c : G → C) (op : Nat → G → σ → G × σ) (h : Isolated c op) (i : Nat) (sched : List Nat) :
    ∀ (w : World G σ) (g0 : G), c g0 = c w.g →
      (run op w sched).inst i = (alone op i (count sched i) g0 (w.inst i)).2 := by
  induction sched using List.reverseRecOn with
  | nil => intro w g0 _; rfl
  | append_singleton t a ih =>
    intro w g0 hc
    have hrun : run op w (t ++ [a]) = stepInst op (run op w t) a := by simp [run, List.foldl_append]
    rw [hrun]
    by_cases hai : a = i
    · subst hai
      have hcnt : count (t ++ [a]) a = count t a + 1 := by simp [count, List.filter_append]
      rw [hcnt]
      show (if a = a then (op a (run op w t).g ((run op w t).inst a)).2 else (run op w t).inst a) = _
      rw [if_pos rfl, ih w g0 hc]
      show _ = (op a (alone op a (count t a) g0 (w.inst a)).1 (alone op a (count t a) g0 (w.inst a)).2).2
      exact h.result_by_view a _ _ _ (by rw [run_view c op h, alone_view c op h, hc])
    · have hcnt : count (t ++ [a]) i = count t i := by
        simp [count, List.filter_append, hai]
      rw [hcnt]
      show (if i = a then _ else (run op w t).inst i) = _
      rw [if_neg (fun h' => hai h'.symm)]
      exact ih w g0 hc

/-- **Repeatability.**  Running the same instance again later in the process (after any schedule of other
operations) from the same initial instance state gives the same result as the first run. -/
theorem repeat_deterministic (c : G → C) (op : Nat → G → σ → G × σ) (h : Isolated c op) (i : Nat) (n : Nat)
    (g : G) (s : σ) (w : World G σ) (between : List Nat) (hw : w.g = (alone op i n g s).1) :
    (alone op i n (run op w between).g s).2 = (alone op i n g s).2 := by
  apply alone_result_by_view c op h
  rw [run_view c op h, hw, alone_view c op h]

/-- non-vacuity: a two-instance system with a shared call counter (diagnostics-class global) is `Isolated` w.r.t. the
trivial view, and the theorem applies to it -/
example : Isolated (fun (_ : Nat) => ()) (fun (_ : Nat) (g : Nat) (s : Nat) => (g + 1, s + 1)) :=
  ⟨fun _ _ _ => rfl, fun _ _ _ _ _ => rfl⟩

end Isolation

/-! ### from the classification to isolation

Here the globals are concrete: `G = Nat → V`, one value per object key of the inventory.  The role of a key is
*computed from the allow-list* (`roleOf`), so re-classifying an object changes the statements below. -/

/-- role of the object with key `k` according to the reviewed allow-list; a key that is not in the inventory is no
static-storage object of the libraries (`all_statics_classified`), hence never written: `frozen` -/
def roleOf (k : Nat) : Role :=
  match allowlist.lookup k with
  | some c => c.role
  | none => .frozen

/-- bump one global -/
def upd (g : Nat → Nat) (k : Nat) : Nat → Nat := fun j => if j = k then g j + 1 else g j

section Classes
variable {V σ : Type}

/-- **The assumptions that the hand review asserts**, stated per role (they are assumptions about the C++, named
here so that nothing is hidden in prose):
* `frozen_not_written`: no operation writes an object whose class has role `frozen`;
* `irrelevant_not_read`: the result of an operation is the same for any two global states that agree on the
  `frozen` objects, i.e. objects of role `irrelevant` (scratch, diagnostics, counters, ids, registries) never
  influence a result. -/
structure ClassAssumptions (op : Nat → (Nat → V) → σ → (Nat → V) × σ) : Prop where
  frozen_not_written : ∀ i g s k, roleOf k = .frozen → (op i g s).1 k = g k
  irrelevant_not_read : ∀ i g g' s, (∀ k, roleOf k = .frozen → g k = g' k) → (op i g s).2 = (op i g' s).2

/-- the view of the globals determined by the classification: the values of the `frozen` objects -/
def classView (g : Nat → V) : Nat → Option V := fun k => if roleOf k = .frozen then some (g k) else none

theorem classView_eq_iff (g g' : Nat → V) : classView g = classView g' ↔ ∀ k, roleOf k = .frozen → g k = g' k := by
  constructor
  · intro h k hk
    have := congrFun h k
    simpa [classView, hk] using this
  · intro h
    funext k
    by_cases hk : roleOf k = .frozen
    · simp [classView, hk, h k hk]
    · simp [classView, hk]

/-- the per-class assumptions are exactly `Isolated` for the view computed from the allow-list -/
theorem isolated_of_classes (op : Nat → (Nat → V) → σ → (Nat → V) × σ) (h : ClassAssumptions op) :
    Isolated (classView (V := V)) op := by
  refine ⟨?_, ?_⟩
  · intro i g s
    rw [classView_eq_iff]
    intro k hk
    exact h.frozen_not_written i g s k hk
  · intro i g g' s hc
    exact h.irrelevant_not_read i g g' s ((classView_eq_iff g g').mp hc)

/-- **Isolation from the classification.**  If the library operations respect what the reviewed classes of the
inventory assert, then inside any schedule instance `i` ends exactly where it ends alone, from any global state that
agrees on the `frozen` objects. -/
theorem interleaving_isolated_by_classes (op : Nat → (Nat → V) → σ → (Nat → V) × σ) (h : ClassAssumptions op)
    (i : Nat) (sched : List Nat) (w : World (Nat → V) σ) (g0 : Nat → V)
    (hg : ∀ k, roleOf k = .frozen → g0 k = w.g k) :
    (run op w sched).inst i = (alone op i (count sched i) g0 (w.inst i)).2 :=
  interleaving_isolated classView op (isolated_of_classes op h) i sched w g0 ((classView_eq_iff g0 w.g).mpr hg)

/-- **Repeatability from the classification.** -/
theorem repeat_deterministic_by_classes (op : Nat → (Nat → V) → σ → (Nat → V) × σ) (h : ClassAssumptions op)
    (i n : Nat) (g : Nat → V) (s : σ) (w : World (Nat → V) σ) (between : List Nat) (hw : w.g = (alone op i n g s).1) :
    (alone op i n (run op w between).g s).2 = (alone op i n g s).2 :=
  repeat_deterministic classView op (isolated_of_classes op h) i n g s w between hw

end Classes

/-- the classification is what drives the assumptions: e.g. the seed counter and the contact-id counter are
`irrelevant` (may change, must not be read by a result), `SimTK::Pi` and the verification hook are `frozen` -/
theorem roles_of_some_objects :
    roleOf (key! "SimTK::Random::RandomImpl::nextSeed") = .irrelevant ∧
    roleOf (key! "SimTK::ContactImpl::createNewContactId()::nextAvailableId") = .irrelevant ∧
    roleOf (key! "SimTK::AssemblyCondition::calcGoal(SimTK::State const&, double&) const::err") = .irrelevant ∧
    roleOf (key! "SimTK::Pi") = .frozen ∧ roleOf (key! "SimTK_verif_forceRaw") = .frozen := by decide

/-- non-vacuity of `ClassAssumptions`: an operation that bumps the seed counter (an `irrelevant` object) and
advances its own instance state satisfies them -/
example : ClassAssumptions (V := Nat) (σ := Nat)
    (fun _ g s => (upd g (key! "SimTK::Random::RandomImpl::nextSeed"), s + 1)) := by
  refine ⟨?_, fun _ _ _ _ _ => rfl⟩
  intro i g s k hk
  by_cases hkk : k = key! "SimTK::Random::RandomImpl::nextSeed"
  · subst hkk
    have : roleOf (key! "SimTK::Random::RandomImpl::nextSeed") = .irrelevant := roles_of_some_objects.1
    rw [this] at hk; cases hk
  · simp [upd, hkk]

end C46
