import SimbodyModel.C46
import SimbodyModel.Gen.Statics
import Mathlib.Data.List.Basic
import Mathlib.Data.List.Induction

/-!
# C46 — simulation is deterministic and isolated (property theorems; level: partial)

* `all_statics_classified` (translator-tied): every writable static-storage object found in the rebuilt libraries
  (`Gen.statics`, regenerated on every run from `readelf -sW`) has a reviewed class in `allowlist`.  The classes say
  *why* the object cannot make one simulation depend on another; that classification is a hand review of the source,
  not derived (hence "partial").  A new mutable static in /repo makes `decide` fail ⇒ the obligation breaks.
* `interleaving_isolated`, `repeat_deterministic`: in the process model of `SimbodyModel/C46.lean`, if every operation
  (a) leaves the result-relevant part of the globals unchanged and (b) computes its instance result from that part and
  its own instance state only — which is exactly what the classes assert — then an instance's trajectory inside any
  schedule equals its stand-alone trajectory, and repeating it gives the same result.
-/
namespace C46
open Cls

/-- Hand-reviewed allow-list: normalised object name ↦ class.  Source locations are given per group.
A `guard variable for X` entry is classified through its object `X`. -/
def allowlist : List (String × Cls) := [
  -- SimTKcommon/src/Constants / Scalar.h, Vec.h, DecorativeGeometry: `extern const` objects with dynamic initialisers,
  -- written once by the static initialiser of libSimTKcommon, declared const in every header
  ("SimTK::Black", constAfterInit), ("SimTK::Blue", constAfterInit), ("SimTK::CubeRoot2", constAfterInit),
  ("SimTK::CubeRoot3", constAfterInit), ("SimTK::Cyan", constAfterInit), ("SimTK::E", constAfterInit),
  ("SimTK::Eps", constAfterInit), ("SimTK::Gray", constAfterInit), ("SimTK::Green", constAfterInit),
  ("SimTK::GroundIndex", constAfterInit), ("SimTK::I", constAfterInit), ("SimTK::Infinity", constAfterInit),
  ("SimTK::InvalidContactSurfaceIndex", constAfterInit), ("SimTK::InvalidMobilizedBodyIndex", constAfterInit),
  ("SimTK::InvalidSubsystemIndex", constAfterInit), ("SimTK::InvalidSubtreeBodyIndex", constAfterInit),
  ("SimTK::InvalidSubtreeQIndex", constAfterInit), ("SimTK::InvalidSubtreeUIndex", constAfterInit),
  ("SimTK::LeastNegativeReal", constAfterInit), ("SimTK::LeastPositiveReal", constAfterInit),
  ("SimTK::Ln10", constAfterInit), ("SimTK::Ln2", constAfterInit), ("SimTK::Log10E", constAfterInit),
  ("SimTK::Log2E", constAfterInit), ("SimTK::LosslessNumDigitsReal", constAfterInit), ("SimTK::Magenta", constAfterInit),
  ("SimTK::MinusOne", constAfterInit), ("SimTK::MostNegativeReal", constAfterInit),
  ("SimTK::MostPositiveReal", constAfterInit), ("SimTK::NaN", constAfterInit), ("SimTK::NegXAxis", constAfterInit),
  ("SimTK::NegYAxis", constAfterInit), ("SimTK::NegZAxis", constAfterInit), ("SimTK::NumDigitsReal", constAfterInit),
  ("SimTK::One", constAfterInit), ("SimTK::OneEighth", constAfterInit), ("SimTK::OneFifth", constAfterInit),
  ("SimTK::OneFourth", constAfterInit), ("SimTK::OneHalf", constAfterInit), ("SimTK::OneNinth", constAfterInit),
  ("SimTK::OneOverPi", constAfterInit), ("SimTK::OneOverSqrt2", constAfterInit), ("SimTK::OneOverSqrt3", constAfterInit),
  ("SimTK::OneSeventh", constAfterInit), ("SimTK::OneSixth", constAfterInit), ("SimTK::OneThird", constAfterInit),
  ("SimTK::Orange", constAfterInit), ("SimTK::Pi", constAfterInit), ("SimTK::Purple", constAfterInit),
  ("SimTK::Red", constAfterInit), ("SimTK::SignificantReal", constAfterInit), ("SimTK::Sqrt2", constAfterInit),
  ("SimTK::Sqrt3", constAfterInit), ("SimTK::SqrtEps", constAfterInit), ("SimTK::Three", constAfterInit),
  ("SimTK::TinyReal", constAfterInit), ("SimTK::Two", constAfterInit), ("SimTK::White", constAfterInit),
  ("SimTK::XAxis", constAfterInit), ("SimTK::YAxis", constAfterInit), ("SimTK::Yellow", constAfterInit),
  ("SimTK::ZAxis", constAfterInit), ("SimTK::Zero", constAfterInit),
  -- NTraits.h: `static const T c = …; return c;` function-local constants
  ("SimTK::NTraits<*>::getInfinity()::c", constAfterInit), ("SimTK::NTraits<*>::getLosslessNumDigits()::c", constAfterInit),
  ("SimTK::NTraits<*>::getNaN()::c", constAfterInit), ("SimTK::NTraits<*>::getNumDigits()::c", constAfterInit),
  ("SimTK::NTraits<*>::getSqrtEps()::c", constAfterInit), ("SimTK::NTraits<*>::getTiny()::c", constAfterInit),
  ("SimTK::RTraits<*>::getSignificant()::c", constAfterInit),
  -- NiceTypeName.h / NiceTypeName.cpp: type-name strings computed once from typeid(T).name(); regex table
  ("SimTK::NiceTypeName<*>::namestr()::canonical", constAfterInit), ("SimTK::NiceTypeName<*>::namestr()::str", constAfterInit),
  ("SimTK::canonicalizeTypeName(std::__cxx11::basic_string<*>&&)::subs", constAfterInit),
  -- index types: `static const XIndex invalid;` in SimTK_DEFINE_UNIQUE_INDEX_TYPE::Invalid()
  ("SimTK::CableSpanIndex::Invalid()::invalid", constAfterInit), ("SimTK::CableSpanObstacleIndex::Invalid()::invalid", constAfterInit),
  ("SimTK::CableSpanViaPointIndex::Invalid()::invalid", constAfterInit), ("SimTK::CacheEntryIndex::Invalid()::invalid", constAfterInit),
  ("SimTK::DiscreteVariableIndex::Invalid()::invalid", constAfterInit), ("SimTK::MobilizedBodyIndex::Invalid()::invalid", constAfterInit),
  -- `static const` empty / identity / zero objects returned by reference
  ("SimTK::Xml::Element::getValue() const::null", constAfterInit),
  ("SimTK::CompliantContactSubsystemImpl::getContactForceById(SimTK::State const&, SimTK::ContactId) const::invalidForce", constAfterInit),
  ("SimTK::ConstraintImpl::getBodyTransformFromState(SimTK::State const&, SimTK::ConstrainedBodyIndex) const::X_AA", constAfterInit),
  ("SimTK::ConstraintImpl::getBodyVelocityFromState(SimTK::State const&, SimTK::ConstrainedBodyIndex) const::V_AA", constAfterInit),
  ("SimTK::ContactSnapshot::getContactById(SimTK::ContactId) const::empty", constAfterInit),
  ("SimTK::SemiExplicitEulerTimeStepper::performSimultaneousImpact(SimTK::State const&, SimTK::Vector_<*>&, SimTK::Vector_<*>&)::noExpansion", constAfterInit),
  ("SimbodyMatterSubsystemRep::getAllParticleAccelerations(SimTK::State const&) const::v", constAfterInit),
  ("SimbodyMatterSubsystemRep::getAllParticleLocations(SimTK::State const&) const::v", constAfterInit),
  ("SimbodyMatterSubsystemRep::getAllParticleVelocities(SimTK::State const&) const::v", constAfterInit),
  ("SimbodyMatterSubsystemRep::updAllParticleLocations(SimTK::State&) const::v", constAfterInit),
  ("SimbodyMatterSubsystemRep::updAllParticleVelocities(SimTK::State&) const::v", constAfterInit),
  -- file-scope `static const` with dynamic initialiser (CableSpan.cpp, ExponentialSpringForce / contact defaults, decorations)
  ("(anonymous namespace)::BinormalAxis", constAfterInit), ("(anonymous namespace)::NormalAxis", constAfterInit),
  ("(anonymous namespace)::TangentAxis", constAfterInit), ("(anonymous namespace)::DefMinSignificantForce", constAfterInit),
  ("DefaultBodyColor", constAfterInit), ("DefaultPointColor", constAfterInit),
  -- option-name tables of InteriorPointOptimizer::optimize (static const arrays), version string of cpoly, gcvspl constant
  ("SimTK::InteriorPointOptimizer::optimize(SimTK::Vector_<*>&)::advancedStrOptions", constAfterInit),
  ("SimTK::CPoly<*>::_V_", constAfterInit), ("c_b6", constAfterInit),
  -- nvector_SimTK.cpp: `const N_Vector_Ops_SimTK N_Vector_Ops_SimTK::Ops;` the constant function table handed to SUNDIALS
  ("N_Vector_Ops_SimTK::Ops", constAfterInit),
  -- libstdc++ <regex> internals instantiated in libSimTKcommon (static const tables / a constant char)
  ("std::__detail::_AnyMatcher<*>::operator()(char) const::__nul", constAfterInit),
  ("std::__cxx11::regex_traits<*>::lookup_collatename<*>(char const*, char const*) const::__collatenames", constAfterInit),
  -- TinyXML (vendored): entity table is const data; errorString table const; condenseWhiteSpace is a process-wide
  -- XML *text-handling* option changed only by Xml::setXmlCondenseWhiteSpace — no simulation code reads it
  ("SimTK::TiXmlBase::entity", constAfterInit), ("SimTK::TiXmlBase::errorString", constAfterInit),
  ("SimTK::TiXmlBase::condenseWhiteSpace", xmlOption),
  -- thread_local: ParallelExecutorImpl::isWorker (set by each worker thread for itself), and the per-thread force
  -- accumulators of CalcForcesParallelTask (initialize() zeroes them before every use, finish() reads them)
  ("SimTK::ParallelExecutorImpl::isWorker", threadScratch),
  ("(anonymous namespace)::CalcForcesParallelTask::m_mobilityForceCacheLocalStatic", threadScratch),
  ("(anonymous namespace)::CalcForcesParallelTask::m_mobilityForcesLocalStatic", threadScratch),
  ("(anonymous namespace)::CalcForcesParallelTask::m_particleForceCacheLocalStatic", threadScratch),
  ("(anonymous namespace)::CalcForcesParallelTask::m_particleForcesLocalStatic", threadScratch),
  ("(anonymous namespace)::CalcForcesParallelTask::m_rigidBodyForceCacheLocalStatic", threadScratch),
  ("(anonymous namespace)::CalcForcesParallelTask::m_rigidBodyForcesLocalStatic", threadScratch),
  -- AssemblyCondition::calcGoal default implementation: `static Vector err; calcErrors(state, err);` — the callee
  -- resizes and fills `err` before it is read (shared scratch: not thread-safe, but no value survives a call)
  ("SimTK::AssemblyCondition::calcGoal(SimTK::State const&, double&) const::err", scratchOverwritten),
  -- Random.cpp: seed handed to Random objects the user did not seed (documented: un-seeded generators differ)
  ("SimTK::Random::RandomImpl::nextSeed", seedCounter),
  -- contact identities: monotone counters; ids are only compared for equality / used as map keys, relative order of the
  -- ids created by one simulation does not depend on the start value
  ("SimTK::ContactImpl::createNewContactId()::nextAvailableId", idCounter),
  ("SimTK::ContactImpl::createNewContactTypeId()::nextAvailableId", idCounter),
  ("SimTK::ContactGeometryImpl::createNewContactGeometryTypeId()::nextAvailableId", idCounter),
  ("SimTKIpopt::RegisteredOption::next_counter_", idCounter), ("SimTKIpopt::TaggedObject::unique_tag_", idCounter),
  -- per-class type ids: `static const TypeId id = createNew…TypeId();` fixed at first use, then constant
  ("SimTK::BrickHalfSpaceContactImpl::classTypeId()::tid", firstUseId), ("SimTK::BrokenContactImpl::classTypeId()::tid", firstUseId),
  ("SimTK::CircularPointContactImpl::classTypeId()::tid", firstUseId), ("SimTK::EllipticalPointContactImpl::classTypeId()::tid", firstUseId),
  ("SimTK::PointContactImpl::classTypeId()::tid", firstUseId), ("SimTK::TriangleMeshContactImpl::classTypeId()::tid", firstUseId),
  ("SimTK::UntrackedContactImpl::classTypeId()::tid", firstUseId),
  ("SimTK::ContactGeometry::Brick::Impl::classTypeId()::id", firstUseId), ("SimTK::ContactGeometry::Cylinder::Impl::classTypeId()::id", firstUseId),
  ("SimTK::ContactGeometry::Ellipsoid::Impl::classTypeId()::id", firstUseId), ("SimTK::ContactGeometry::HalfSpace::Impl::classTypeId()::id", firstUseId),
  ("SimTK::ContactGeometry::SmoothHeightMap::Impl::classTypeId()::id", firstUseId), ("SimTK::ContactGeometry::Sphere::Impl::classTypeId()::id", firstUseId),
  ("SimTK::ContactGeometry::Torus::Impl::classTypeId()::id", firstUseId), ("SimTK::ContactGeometry::TriangleMesh::Impl::classTypeId()::id", firstUseId),
  -- CollisionDetectionAlgorithm.cpp: (type id, type id) ↦ algorithm object; filled with the built-in algorithms on
  -- first lookup, same content whoever triggers it; user registration is an explicit API call
  ("SimTK::CollisionDetectionAlgorithm::algorithmMap", idempotentRegistry),
  -- printing / message buffers / output-file throttling of vendored optimizers (Ipopt banner flag, c-cmaes message
  -- buffers `s`, `sTestOutString`, write throttles), CFSQP output file pointer
  ("SimTKIpopt::message_printed", diagnostics), ("s.N", diagnostics), ("sTestOutString.N", diagnostics),
  ("countiterlastwritten.N", diagnostics), ("flglockprint.N", diagnostics), ("flglockwrite.N", diagnostics),
  ("maxdiffitertowrite.N", diagnostics), ("cfsqp_fptr", diagnostics),
  -- SUNDIALS Fortran-to-C interface vectors (fnvector_serial.c): only touched by the FNV* Fortran entry points
  ("F2C_CVODE_vec", vendoredUnused), ("F2C_CVODE_vecB", vendoredUnused), ("F2C_CVODE_vecQ", vendoredUnused),
  ("F2C_CVODE_vecQB", vendoredUnused), ("F2C_CVODE_vecS", vendoredUnused), ("F2C_IDA_vec", vendoredUnused),
  ("F2C_IDA_vecB", vendoredUnused), ("F2C_IDA_vecQ", vendoredUnused), ("F2C_IDA_vecQB", vendoredUnused),
  ("F2C_IDA_vecS", vendoredUnused), ("F2C_KINSOL_vec", vendoredUnused),
  -- Visualizer process plumbing
  ("inPipe", visualizerIO),
  -- toolchain / runtime artefacts
  ("std::__ioinit", toolchain), ("completed.N", toolchain), ("__dso_handle", toolchain), ("__TMC_END__", toolchain),
  ("__tls_guard", toolchain),
  ("DW.ref.__gxx_personality_v0", toolchain), ("DW.ref._ZTISt9exception", toolchain), ("DW.ref._ZTISt9bad_alloc", toolchain),
  ("DW.ref._ZTIN5SimTK9Exception4BaseE", toolchain), ("DW.ref._ZTIN5SimTK9Exception15OptimizerFailedE", toolchain),
  ("DW.ref._ZTI18ReadingInterrupted", toolchain),
  ("DW.ref._ZTIN10SimTKIpopt11TOO_FEW_DOFE", toolchain), ("DW.ref._ZTIN10SimTKIpopt14INTERNAL_ABORTE", toolchain),
  ("DW.ref._ZTIN10SimTKIpopt14IpoptExceptionE", toolchain), ("DW.ref._ZTIN10SimTKIpopt14OPTION_INVALIDE", toolchain),
  ("DW.ref._ZTIN10SimTKIpopt18LOCALLY_INFEASIBLEE", toolchain), ("DW.ref._ZTIN10SimTKIpopt18RESTORATION_FAILEDE", toolchain),
  ("DW.ref._ZTIN10SimTKIpopt18TINY_STEP_DETECTEDE", toolchain), ("DW.ref._ZTIN10SimTKIpopt21RESTORATION_USER_STOPE", toolchain),
  ("DW.ref._ZTIN10SimTKIpopt23STEP_COMPUTATION_FAILEDE", toolchain), ("DW.ref._ZTIN10SimTKIpopt24ACCEPTABLE_POINT_REACHEDE", toolchain),
  ("DW.ref._ZTIN10SimTKIpopt24INVALID_STDINTERFACE_NLPE", toolchain), ("DW.ref._ZTIN10SimTKIpopt26FEASIBILITY_PROBLEM_SOLVEDE", toolchain),
  ("DW.ref._ZTIN10SimTKIpopt28RESTORATION_MAXITER_EXCEEDEDE", toolchain),
  ("DW.ref._ZTIN10SimTKIpopt39RESTORATION_CONVERGED_TO_FEASIBLE_POINTE", toolchain),
  ("DW.ref._ZTIN10SimTKIpopt8IpoptNLP10Eval_ErrorE", toolchain)
]

/-! ### checking the inventory against the allow-list

`Gen.statics` is emitted in allow-list order (unknown names last), so one linear merge walk suffices; the walk is only
an efficient *decision procedure* — `check_sound` shows that acceptance implies membership whatever the order is. -/

/-- skip allow-list entries until the one for `nm`; returns its class and the rest *including* that entry -/
def seek (nm : String) : List (String × Cls) → Option (Cls × List (String × Cls))
  | [] => none
  | (a, c) :: rest => if nm = a then some (c, (a, c) :: rest) else seek nm rest

/-- every symbol is found (walking forward only) and satisfies `p` with its class -/
def check (p : Sym → Cls → Bool) : List Sym → List (String × Cls) → Bool
  | [], _ => true
  | x :: xs, al => match seek x.name al with
    | none => false
    | some (c, al') => p x c && check p xs al'

theorem seek_sound {nm : String} : ∀ {al : List (String × Cls)} {c : Cls} {al' : List (String × Cls)},
    seek nm al = some (c, al') → (nm, c) ∈ al ∧ ∀ e ∈ al', e ∈ al := by
  intro al
  induction al with
  | nil => intro c al' h; simp [seek] at h
  | cons e rest ih =>
    intro c al' h
    obtain ⟨a, ca⟩ := e
    unfold seek at h
    by_cases hnm : nm = a
    · simp only [hnm, if_true, Option.some.injEq, Prod.mk.injEq] at h
      obtain ⟨rfl, rfl⟩ := h
      exact ⟨by rw [hnm]; exact List.mem_cons_self, fun e he => he⟩
    · simp only [hnm, if_false] at h
      obtain ⟨h1, h2⟩ := ih h
      exact ⟨List.mem_cons_of_mem _ h1, fun e he => List.mem_cons_of_mem _ (h2 e he)⟩

theorem check_sound (p : Sym → Cls → Bool) : ∀ (xs : List Sym) (al : List (String × Cls)),
    check p xs al = true → ∀ x ∈ xs, ∃ c, (x.name, c) ∈ al ∧ p x c = true := by
  intro xs
  induction xs with
  | nil => intro al _ x hx; cases hx
  | cons y ys ih =>
    intro al h x hx
    unfold check at h
    cases hs : seek y.name al with
    | none => simp [hs] at h
    | some r =>
      obtain ⟨c, al'⟩ := r
      simp only [hs, Bool.and_eq_true] at h
      obtain ⟨hmem, hsub⟩ := seek_sound hs
      rcases List.mem_cons.mp hx with rfl | hx
      · exact ⟨c, hmem, h.1⟩
      · obtain ⟨c', hc', hp'⟩ := ih al' h.2 x hx
        exact ⟨c', hsub _ hc', hp'⟩

/-- a compiler-generated guard variable only makes sense for an object initialised at first use -/
def guardClassOk : Cls → Bool
  | constAfterInit => true
  | firstUseId => true
  | scratchOverwritten => true
  | _ => false

/-- per entry: guards belong to first-use-initialised objects; thread-local storage is per-thread scratch (or the
toolchain's TLS guard) and per-thread scratch is thread-local -/
def entryOk (s : Sym) (c : Cls) : Bool :=
  (!s.guard || guardClassOk c) &&
  (!(s.sect == ".tbss" || s.sect == ".tdata") || c == threadScratch || c == toolchain) &&
  (!(c == threadScratch) || s.sect == ".tbss" || s.sect == ".tdata")

set_option maxRecDepth 100000 in
/-- the kernel evaluates the walk over the inventory regenerated from the binaries -/
theorem inventory_check : check entryOk Gen.statics allowlist = true := by decide

/-- **Translator-tied obligation.**  Every writable static-storage object of the rebuilt libraries is in the
reviewed allow-list. -/
theorem all_statics_classified : ∀ s ∈ Gen.statics, ∃ c, (s.name, c) ∈ allowlist := by
  intro s hs
  obtain ⟨c, hc, _⟩ := check_sound entryOk _ _ inventory_check s hs
  exact ⟨c, hc⟩

/-- guard variables belong to objects classified as initialised-at-first-use -/
theorem guards_are_first_use_inits :
    ∀ s ∈ Gen.statics, s.guard = true → ∃ c, (s.name, c) ∈ allowlist ∧ guardClassOk c = true := by
  intro s hs hg
  obtain ⟨c, hc, hp⟩ := check_sound entryOk _ _ inventory_check s hs
  refine ⟨c, hc, ?_⟩
  simp only [entryOk, Bool.and_eq_true, Bool.or_eq_true, Bool.not_eq_true', hg] at hp
  rcases hp.1.1 with h | h
  · cases h
  · exact h

/-- everything in `.tbss/.tdata` is classified as per-thread scratch (or is the toolchain's TLS guard) -/
theorem tls_is_thread_scratch :
    ∀ s ∈ Gen.statics, (s.sect = ".tbss" ∨ s.sect = ".tdata") →
      ∃ c, (s.name, c) ∈ allowlist ∧ (c = threadScratch ∨ c = toolchain) := by
  intro s hs hsect
  obtain ⟨c, hc, hp⟩ := check_sound entryOk _ _ inventory_check s hs
  refine ⟨c, hc, ?_⟩
  simp only [entryOk, Bool.and_eq_true, Bool.or_eq_true, Bool.not_eq_true', beq_iff_eq] at hp
  rcases hp.1.2 with (h | h) | h
  · have : (s.sect == ".tbss" || s.sect == ".tdata") = true := by
      rcases hsect with h' | h' <;> simp [h']
    rw [this] at h; cases h
  · left; exact h
  · right; exact h

set_option maxRecDepth 100000 in
/-- the extraction is not vacuous: the well-known mutable statics are in the inventory -/
theorem inventory_has_anchors :
    (Gen.statics.any (fun s => s.name == "SimTK::Random::RandomImpl::nextSeed")) = true ∧
    (Gen.statics.any (fun s => s.name == "SimTK::CollisionDetectionAlgorithm::algorithmMap")) = true ∧
    (Gen.statics.any (fun s => s.name == "SimTK::Pi")) = true ∧ 100 ≤ Gen.statics.length := by decide

/-! ### isolation in the process model -/

section Isolation
variable {G σ C : Type}

/-- What the classification asserts about an operation, relative to a *view* `c : G → C` of the globals (the
result-relevant, constant-after-init part): the view is preserved, and the instance result depends on the globals only
through the view. -/
structure Isolated (c : G → C) (op : Nat → G → σ → G × σ) : Prop where
  view_const : ∀ i g s, c (op i g s).1 = c g
  result_by_view : ∀ i g g' s, c g = c g' → (op i g s).2 = (op i g' s).2

theorem stepInst_view (c : G → C) (op : Nat → G → σ → G × σ) (h : Isolated c op) (w : World G σ) (i : Nat) :
    c (stepInst op w i).g = c w.g := h.view_const i w.g (w.inst i)

theorem run_view (c : G → C) (op : Nat → G → σ → G × σ) (h : Isolated c op) (sched : List Nat) :
    ∀ w : World G σ, c (run op w sched).g = c w.g := by
  induction sched with
  | nil => intro w; rfl
  | cons a t ih =>
    intro w
    show c (run op (stepInst op w a) t).g = c w.g
    rw [ih, stepInst_view c op h]

theorem alone_view (c : G → C) (op : Nat → G → σ → G × σ) (h : Isolated c op) (i : Nat) :
    ∀ n g s, c (alone op i n g s).1 = c g := by
  intro n
  induction n with
  | zero => intro g s; rfl
  | succ k ih =>
    intro g s
    show c (op i (alone op i k g s).1 (alone op i k g s).2).1 = c g
    rw [h.view_const, ih]

/-- the stand-alone result depends on the initial globals only through the view -/
theorem alone_result_by_view (c : G → C) (op : Nat → G → σ → G × σ) (h : Isolated c op) (i : Nat) :
    ∀ n g g' s, c g = c g' → (alone op i n g s).2 = (alone op i n g' s).2 := by
  intro n
  induction n with
  | zero => intro g g' s _; rfl
  | succ k ih =>
    intro g g' s hc
    show (op i (alone op i k g s).1 (alone op i k g s).2).2 = (op i (alone op i k g' s).1 (alone op i k g' s).2).2
    rw [ih g g' s hc]
    exact h.result_by_view i _ _ _ (by rw [alone_view c op h, alone_view c op h, hc])

/-- **Isolation.**  Inside any schedule (other simulations, geometry queries, optimizers … interleaved in any
order), instance `i` ends in exactly the state it reaches when it performs its `count sched i` operations alone,
starting from any globals with the same view. -/
theorem interleaving_isolated (c : G → C) (op : Nat → G → σ → G × σ) (h : Isolated c op) (i : Nat) (sched : List Nat) :
    ∀ (w : World G σ) (g0 : G), c g0 = c w.g →
      (run op w sched).inst i = (alone op i (count sched i) g0 (w.inst i)).2 := by
  induction sched using List.reverseRecOn with
  | nil => intro w g0 _; rfl
  | append_singleton t a ih =>
    intro w g0 hc
    have hrun : run op w (t ++ [a]) = stepInst op (run op w t) a := by simp [run, List.foldl_append]
    rw [hrun]
    by_cases hai : a = i
    · subst hai
      have hcnt : count (t ++ [a]) a = count t a + 1 := by simp [count, List.filter_append]
      rw [hcnt]
      show (if a = a then (op a (run op w t).g ((run op w t).inst a)).2 else (run op w t).inst a) = _
      rw [if_pos rfl, ih w g0 hc]
      show _ = (op a (alone op a (count t a) g0 (w.inst a)).1 (alone op a (count t a) g0 (w.inst a)).2).2
      exact h.result_by_view a _ _ _ (by rw [run_view c op h, alone_view c op h, hc])
    · have hcnt : count (t ++ [a]) i = count t i := by
        simp [count, List.filter_append, hai]
      rw [hcnt]
      show (if i = a then _ else (run op w t).inst i) = _
      rw [if_neg (fun h' => hai h'.symm)]
      exact ih w g0 hc

/-- **Repeatability.**  Running the same instance again later in the process (after any schedule of other
operations) from the same initial instance state gives the same result as the first run. -/
theorem repeat_deterministic (c : G → C) (op : Nat → G → σ → G × σ) (h : Isolated c op) (i : Nat) (n : Nat)
    (g : G) (s : σ) (w : World G σ) (between : List Nat) (hw : w.g = (alone op i n g s).1) :
    (alone op i n (run op w between).g s).2 = (alone op i n g s).2 := by
  apply alone_result_by_view c op h
  rw [run_view c op h, hw, alone_view c op h]

/-- non-vacuity: a two-instance system with a shared call counter (diagnostics-class global) is `Isolated` w.r.t. the
trivial view, and the theorem applies to it -/
example : Isolated (fun (_ : Nat) => ()) (fun (_ : Nat) (g : Nat) (s : Nat) => (g + 1, s + 1)) :=
  ⟨fun _ _ _ => rfl, fun _ _ _ _ _ => rfl⟩

end Isolation

end C46
